/-
  SlacProofs.ScannerString — string literals: the raw-content + `replace("''", "'")` procedure of scanner.rs
  equals the direct "unescape" reading on every input, and inverts `quote` on every content.
-/
import SlacModel.Scanner
set_option autoImplicit false
namespace Slac
namespace Scanner

/-- source form of a string's content: every quote doubled -/
def quoteBody : Str → Str
  | [] => []
  | c :: cs => if c = '\'' then '\'' :: '\'' :: quoteBody cs else c :: quoteBody cs

/-- source form of a string literal -/
def quote (s : Str) : Str := '\'' :: (quoteBody s ++ ['\''])

/-- the "unescape" reading of a string literal, entered after the opening quote: `''` denotes one quote, a single
    quote ends the literal; returns (content, rest) -/
def strDirect : Str → Option (Str × Str)
  | [] => none
  | c :: cs =>
    if c = '\'' then
      match cs with
      | c2 :: cs' => if c2 = '\'' then (strDirect cs').map (fun p => ('\'' :: p.1, p.2)) else some ([], cs)
      | [] => some ([], cs)
    else (strDirect cs).map (fun p => (c :: p.1, p.2))

theorem replaceQQ_cons_ne (c : Char) (l : Str) (h : c ≠ '\'') : replaceQQ (c :: l) = c :: replaceQQ l := by
  cases l with
  | nil => simp [replaceQQ]
  | cons d r => rw [replaceQQ]; simp [h]

theorem replaceQQ_qq (l : Str) : replaceQQ ('\'' :: '\'' :: l) = '\'' :: replaceQQ l := by
  rw [replaceQQ]; simp

theorem strRaw_direct_aux (cs : Str) :
    match strRaw cs with
    | none => strDirect cs = none
    | some (raw, f, rest) => strDirect cs = some (replaceQQ raw, rest) ∧ (f = false → replaceQQ raw = raw) := by
  fun_induction strRaw cs with
  | case1 => simp [strDirect]
  | case2 cs' ih =>
    rw [strDirect.eq_def]; simp only [if_true]
    cases h : strRaw cs' with
    | none => rw [h] at ih; simp [ih]
    | some p =>
      obtain ⟨raw, f, rest⟩ := p
      rw [h] at ih; simp only at ih
      simp [ih.1, replaceQQ_qq]
  | case3 c2 cs' hc2 =>
    rw [strDirect.eq_def]; simp [hc2, replaceQQ]
  | case4 =>
    rw [strDirect.eq_def]; simp [replaceQQ]
  | case5 c cs hc ih =>
    rw [strDirect.eq_def]; simp only [if_neg hc]
    cases h : strRaw cs with
    | none => rw [h] at ih; simp [ih]
    | some p =>
      obtain ⟨raw, f, rest⟩ := p
      rw [h] at ih; simp only at ih
      simp only [Option.map_some, ih.1, replaceQQ_cons_ne c raw hc, true_and]
      intro hf; rw [ih.2 hf]

/-- the scanner's string procedure (raw extent, then `replace("''","'")` if a doubled quote was seen) computes
    the unescape reading — on every input -/
theorem string_eq_direct {N : Type} (cs : Str) :
    string (N := N) cs = match strDirect cs with
      | none => .error .unterminatedStringLiteral
      | some (s, rest) => .ok (.literal (.str s), rest) := by
  have h := strRaw_direct_aux cs
  unfold string
  cases hr : strRaw cs with
  | none => rw [hr] at h; simp only at h; rw [h]
  | some p =>
    obtain ⟨raw, f, rest⟩ := p
    rw [hr] at h; simp only at h
    rw [h.1]; simp only
    cases f with
    | true => rfl
    | false => simp [h.2 rfl]

/-- a quoted content, followed by anything that is not another quote, reads back as the content -/
theorem strDirect_quote (s rest : Str) (hr : ∀ r, rest ≠ '\'' :: r) :
    strDirect (quoteBody s ++ '\'' :: rest) = some (s, rest) := by
  induction s with
  | nil =>
    rw [quoteBody, List.nil_append, strDirect.eq_def]
    simp only [if_true]
    cases rest with
    | nil => rfl
    | cons c r =>
      have : c ≠ '\'' := fun h => hr r (by rw [h])
      simp only [if_neg this]
  | cons c cs ih =>
    rw [quoteBody]
    split
    · rename_i hc; subst hc
      rw [List.cons_append, List.cons_append, strDirect.eq_def]
      simp only [if_true, ih]; rfl
    · rename_i hc
      rw [List.cons_append, strDirect.eq_def]; simp only [if_neg hc, ih]; rfl

theorem string_quote {N : Type} (s rest : Str) (hr : ∀ r, rest ≠ '\'' :: r) :
    string (N := N) (quoteBody s ++ '\'' :: rest) = .ok (.literal (.str s), rest) := by
  rw [string_eq_direct, strDirect_quote s rest hr]

/-- the text after a string literal is shorter than the text after its opening quote -/
theorem strRaw_length (cs : Str) : ∀ p, strRaw cs = some p → p.2.2.length < cs.length := by
  fun_induction strRaw cs with
  | case1 => simp
  | case2 cs' ih =>
    intro p hp
    cases h : strRaw cs' with
    | none => rw [h] at hp; simp at hp
    | some q =>
      rw [h] at hp; simp at hp; subst hp
      have := ih q h; simp only [List.length_cons]; omega
  | case3 c2 cs' hc2 => intro p hp; simp at hp; subst hp; simp
  | case4 => intro p hp; simp at hp; subst hp; simp
  | case5 c cs hc ih =>
    intro p hp
    cases h : strRaw cs with
    | none => rw [h] at hp; simp at hp
    | some q =>
      rw [h] at hp; simp at hp; subst hp
      have := ih q h; simp only [List.length_cons]; omega

end Scanner
end Slac
