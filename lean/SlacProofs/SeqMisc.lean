/-
  SlacProofs.SeqMisc — lemmas for C15 about the non-search builtins: `dedup` (unique), `findIdx?` (array find),
  `replaceArr`, `trim*`, `parseCsv`, against the meanings of SlacProofs.SeqSpec / core `List` functions.
-/
import SlacModel.Stdlib
import SlacProofs.SeqSpec
set_option autoImplicit false
namespace Slac.SeqMisc
open Slac.SeqSpec Slac.Stdlib

/-! ### first-occurrence de-duplication -/
section dedup
variable {α : Type} (r : α → α → Bool)

theorem foldl_dedup (acc vs : List α) :
    vs.foldl (fun acc v => if acc.any (fun x => r x v) then acc else acc ++ [v]) acc
      = acc ++ dedupBy r (vs.filter fun w => !acc.any (fun x => r x w)) := by
  induction vs generalizing acc with
  | nil => simp [dedupBy]
  | cons v vs ih =>
    rw [List.foldl_cons]
    by_cases h : acc.any (fun x => r x v) = true
    · rw [if_pos h, ih, List.filter_cons, h]; rfl
    · rw [if_neg h, ih, List.filter_cons]
      have h' : acc.any (fun x => r x v) = false := by simpa using h
      rw [h']
      simp only [Bool.not_false, if_true]
      rw [dedupBy, List.filter_filter, List.append_assoc]
      have : (fun w => !(acc ++ [v]).any fun x => r x w) = (fun a => !r v a && !acc.any fun x => r x a) := by
        funext w
        simp [List.any_append, Bool.and_comm]
      rw [this]; rfl

theorem dedupBy_sublist (l : List α) : List.Sublist (dedupBy r l) l := by
  fun_induction dedupBy r l with
  | case1 => exact List.Sublist.refl _
  | case2 v vs ih => exact List.Sublist.cons_cons _ (ih.trans List.filter_sublist)

/-- no kept element `r`-equals a later kept element -/
theorem dedupBy_pairwise (l : List α) : List.Pairwise (fun a b => r a b = false) (dedupBy r l) := by
  fun_induction dedupBy r l with
  | case1 => exact List.Pairwise.nil
  | case2 v vs ih =>
    refine List.Pairwise.cons ?_ ih
    intro b hb
    have := (dedupBy_sublist r _).mem hb
    simpa using (List.mem_filter.1 this).2

/-- every input element is kept or `r`-equalled by a kept element -/
theorem dedupBy_covers (l : List α) : ∀ w, w ∈ l → w ∈ dedupBy r l ∨ ∃ x, x ∈ dedupBy r l ∧ r x w = true := by
  fun_induction dedupBy r l with
  | case1 => intro w hw; cases hw
  | case2 v vs ih =>
    intro w hw
    rcases List.mem_cons.1 hw with rfl | hw
    · exact Or.inl List.mem_cons_self
    · by_cases hr : r v w = true
      · exact Or.inr ⟨v, List.mem_cons_self, hr⟩
      · rcases ih w (List.mem_filter.2 ⟨hw, by simpa using hr⟩) with h | ⟨x, hx, hxw⟩
        · exact Or.inl (List.mem_cons_of_mem _ h)
        · exact Or.inr ⟨x, List.mem_cons_of_mem _ hx, hxw⟩

end dedup

/-! ### array find -/
theorem findIdx?_eq_core {α : Type} (p : α → Bool) (l : List α) : Stdlib.findIdx? p l = List.findIdx? p l := by
  induction l with
  | nil => rfl
  | cons a as ih => rw [Stdlib.findIdx?, List.findIdx?_cons, ih]

theorem findIdx?_eq_none_iff {α : Type} (p : α → Bool) (l : List α) :
    Stdlib.findIdx? p l = none ↔ ∀ v, v ∈ l → p v = false := by
  rw [findIdx?_eq_core, List.findIdx?_eq_none_iff]

theorem findIdx?_eq_some_iff {α : Type} (p : α → Bool) (l : List α) (i : Nat) :
    Stdlib.findIdx? p l = some i ↔
      ∃ h : i < l.length, p l[i] = true ∧ ∀ j (hj : j < i), p (l[j]'(Nat.lt_trans hj h)) = false := by
  rw [findIdx?_eq_core, List.findIdx?_eq_some_iff_getElem]
  constructor
  · rintro ⟨h, h1, h2⟩; exact ⟨h, h1, fun j hj => by simpa using h2 j hj⟩
  · rintro ⟨h, h1, h2⟩; exact ⟨h, h1, fun j hj => by simpa using h2 j hj⟩

/-! ### array replace / remove -/
section
variable {N : Type} [NumX N]

theorem replaceArr_some (vs : List (Value N)) (frm t : Value N) :
    replaceArr vs frm (some t) = vs.map fun v => if Value.eq v frm then t else v := by
  unfold replaceArr
  induction vs with
  | nil => rfl
  | cons v vs ih =>
    rw [List.filterMap_cons, List.map_cons, ih]
    by_cases h : Value.eq v frm = true <;> simp [h]

theorem replaceArr_none (vs : List (Value N)) (frm : Value N) :
    replaceArr vs frm none = vs.filter fun v => !Value.eq v frm := by
  unfold replaceArr
  induction vs with
  | nil => rfl
  | cons v vs ih =>
    rw [List.filterMap_cons, List.filter_cons, ih]
    by_cases h : Value.eq v frm = true <;> simp [h]
end

/-! ### trim -/
theorem trimLeft_decomp (s : Str) : s = s.takeWhile isWhiteSpace ++ trimLeft s :=
  (List.takeWhile_append_dropWhile).symm

theorem trimLeft_head (s : Str) : ∀ c, (trimLeft s).head? = some c → isWhiteSpace c = false := by
  intro c hc
  unfold trimLeft at hc
  induction s with
  | nil => simp at hc
  | cons a as ih =>
    rw [List.dropWhile_cons] at hc
    by_cases ha : isWhiteSpace a = true
    · rw [if_pos ha] at hc; exact ih hc
    · rw [if_neg ha] at hc
      simp only [List.head?_cons, Option.some.injEq] at hc
      subst hc; simpa using ha

theorem trimRight_decomp (s : Str) : s = trimRight s ++ (s.reverse.takeWhile isWhiteSpace).reverse := by
  unfold trimRight
  rw [← List.reverse_append, List.takeWhile_append_dropWhile, List.reverse_reverse]

theorem trimRight_last (s : Str) : ∀ c, (trimRight s).getLast? = some c → isWhiteSpace c = false := by
  intro c hc
  unfold trimRight at hc
  rw [List.getLast?_reverse] at hc
  exact trimLeft_head s.reverse c hc

theorem trimRight_prefix (s : Str) : trimRight s <+: s := ⟨_, (trimRight_decomp s).symm⟩

theorem all_takeWhile (p : Char → Bool) (s : Str) : (s.takeWhile p).all p = true := by
  induction s with
  | nil => rfl
  | cons a as ih =>
    rw [List.takeWhile_cons]
    by_cases ha : p a = true
    · rw [if_pos ha]; simp [ha, ih]
    · rw [if_neg ha]; rfl

/-- the head of a non-empty prefix is the head of the whole -/
theorem head?_of_prefix {s t : Str} (h : s <+: t) (c : Char) (hc : s.head? = some c) : t.head? = some c := by
  obtain ⟨r, rfl⟩ := h
  cases s with
  | nil => simp at hc
  | cons a as => simpa using hc

/-! ### split_csv -/
theorem parseCsvAux_flatten (sep : Char) (field : Str) (inQ : Bool) (cs : Str) :
    (parseCsvAux sep field inQ cs).flatten = field.reverse ++ csvKeep sep inQ cs := by
  induction cs generalizing field inQ with
  | nil => simp [parseCsvAux, csvKeep]
  | cons c cs ih =>
    rw [parseCsvAux, csvKeep]
    by_cases h1 : c = sep ∧ inQ = false
    · have : (c == sep && !inQ) = true := by simp [h1.1, h1.2]
      rw [if_pos this, if_pos h1, List.flatten_cons, ih]; simp
    · have : ¬ (c == sep && !inQ) = true := by
        intro h; apply h1; simpa using h
      rw [if_neg this, if_neg h1]
      by_cases h2 : c = '"'
      · have : (c == '"') = true := by simp [h2]
        rw [if_pos this, if_pos h2, ih]
      · have : ¬ (c == '"') = true := by simpa using h2
        rw [if_neg this, if_neg h2, ih]; simp

theorem parseCsvAux_length (sep : Char) (field : Str) (inQ : Bool) (cs : Str) :
    (parseCsvAux sep field inQ cs).length = csvSeps sep inQ cs + 1 := by
  induction cs generalizing field inQ with
  | nil => simp [parseCsvAux, csvSeps]
  | cons c cs ih =>
    rw [parseCsvAux, csvSeps]
    by_cases h1 : c = sep ∧ inQ = false
    · have : (c == sep && !inQ) = true := by simp [h1.1, h1.2]
      rw [if_pos this, if_pos h1, List.length_cons, ih]
    · have : ¬ (c == sep && !inQ) = true := by
        intro h; apply h1; simpa using h
      rw [if_neg this, if_neg h1]
      by_cases h2 : c = '"'
      · have : (c == '"') = true := by simp [h2]
        rw [if_pos this, if_pos h2, ih]
      · have : ¬ (c == '"') = true := by simpa using h2
        rw [if_neg this, if_neg h2, ih]

/-! ### `csvKeep` read index-wise (quote parity) -/
/-- the filter of `csvContent` -/
def csvPred (sep : Char) (line : Str) (ck : Char × Nat) : Bool :=
  ck.1 != '"' && !(ck.1 == sep && !quotedAt line ck.2)

theorem csvContent_def (sep : Char) (line : Str) :
    csvContent sep line = ((line.zipIdx 0).filter (csvPred sep line)).map (·.1) := rfl

theorem parity_succ (n : Nat) : ((n + 1) % 2 == 1) = !(n % 2 == 1) := by
  rcases Nat.mod_two_eq_zero_or_one n with h | h <;> simp [Nat.add_mod, h]

theorem csvKeep_eq_content_aux (sep : Char) (hs : sep ≠ '"') (line : Str) :
    ∀ cs pre : Str, pre ++ cs = line →
      csvKeep sep (pre.count '"' % 2 == 1) cs = ((cs.zipIdx pre.length).filter (csvPred sep line)).map (·.1) := by
  intro cs
  induction cs with
  | nil => intro pre _; simp [csvKeep]
  | cons c cs ih =>
    intro pre hl
    have hq : quotedAt line pre.length = (pre.count '"' % 2 == 1) := by
      unfold quotedAt; rw [← hl, List.take_left]
    have ih' := ih (pre ++ [c]) (by rw [← hl]; simp)
    rw [List.length_append, List.length_singleton, List.count_append] at ih'
    rw [csvKeep, List.zipIdx_cons, List.filter_cons]
    by_cases h1 : c = sep ∧ (pre.count '"' % 2 == 1) = false
    · have hc : c ≠ '"' := by rw [h1.1]; exact hs
      have hp : csvPred sep line (c, pre.length) = false := by
        simp [csvPred, hq, h1.1, h1.2]
      rw [if_pos h1, hp]
      simp only [Bool.false_eq_true, if_false]
      rw [← ih']
      simp [hc]
    · rw [if_neg h1]
      by_cases h2 : c = '"'
      · have hp : csvPred sep line (c, pre.length) = false := by simp [csvPred, h2]
        rw [if_pos h2, hp]
        simp only [Bool.false_eq_true, if_false]
        rw [← ih', h2]
        simp [parity_succ]
      · have hp : csvPred sep line (c, pre.length) = true := by
          simp only [csvPred, hq]
          have : (c != '"') = true := by simpa using h2
          rw [this]
          by_cases h3 : c = sep
          · have : (pre.count '"' % 2 == 1) = true := by
              cases h : (pre.count '"' % 2 == 1)
              · exact absurd ⟨h3, h⟩ h1
              · rfl
            simp [this]
          · simp [h3]
        rw [if_neg h2, hp]
        simp only [if_true, List.map_cons]
        rw [← ih']
        simp [h2]

theorem csvKeep_quote_sep (cs : Str) : csvKeep '"' false cs = cs.filter (· != '"') := by
  induction cs with
  | nil => rfl
  | cons c cs ih =>
    rw [csvKeep, List.filter_cons]
    by_cases h : c = '"'
    · rw [if_pos ⟨h, rfl⟩, ih]; simp [h]
    · rw [if_neg (fun h' => h h'.1), if_neg h, ih]; simp [h]

theorem filter_zipIdx_fst (p : Char → Bool) (cs : Str) (k : Nat) :
    ((cs.zipIdx k).filter (fun ck => p ck.1)).map (·.1) = cs.filter p := by
  induction cs generalizing k with
  | nil => rfl
  | cons c cs ih =>
    rw [List.zipIdx_cons, List.filter_cons, List.filter_cons]
    by_cases h : p c = true <;> simp [h, ih]

theorem csvKeep_eq_content (sep : Char) (line : Str) : csvKeep sep false line = csvContent sep line := by
  by_cases hs : sep = '"'
  · subst hs
    rw [csvKeep_quote_sep, csvContent_def]
    have : csvPred '"' line = fun ck => ck.1 != '"' := by
      funext ck
      by_cases h : ck.1 = '"' <;> simp [csvPred, h]
    rw [this]
    exact (filter_zipIdx_fst (fun c => c != '"') line 0).symm
  · have := csvKeep_eq_content_aux sep hs line line [] rfl
    rw [csvContent_def]; simpa using this

end Slac.SeqMisc
