/-
  SlacProofs.RegexEngineSound — a declarative matching relation for the regex tree and soundness of the
  backtracking matcher, the search and the `find_iter` iteration of SlacModel.RegexEngine with respect to it.
-/
import SlacModel.RegexEngine
import SlacProofs.RegexEngine
set_option autoImplicit false
namespace Slac.RegexEngine

/-! ### declarative semantics -/

/-- `n`-fold composition of a relation on positions -/
def iter (R : Cur → Cur → Prop) : Nat → Cur → Cur → Prop
  | 0, c, c' => c = c'
  | n + 1, c, c' => ∃ d, R c d ∧ iter R n d c'

/-- `Matches ast c c'`: the tree matches the text between position `c` and position `c'` (look-around assertions
    are evaluated at the positions where they stand).  Priorities, greediness and captures play no role here. -/
def Matches : Ast → Cur → Cur → Prop
  | .empty, c, c' => c = c'
  | .chr a, c, c' => ∃ t, c.rest = a :: t ∧ c' = c.adv a t
  | .cls rs, c, c' => ∃ d t, c.rest = d :: t ∧ inRanges rs d = true ∧ c' = c.adv d t
  | .look l, c, c' => lookOk l c = true ∧ c = c'
  | .rep mn mx _ x, c, c' => ∃ n, mn ≤ n ∧ (∀ b, mx = some b → n ≤ b) ∧ iter (Matches x) n c c'
  | .cap _ x, c, c' => Matches x c c'
  | .cat a b, c, c' => ∃ d, Matches a c d ∧ Matches b d c'
  | .alt a b, c, c' => Matches a c c' ∨ Matches b c c'

theorem iter_append (R : Cur → Cur → Prop) (a b : Nat) (c d e : Cur) (h1 : iter R a c d) (h2 : iter R b d e) :
    iter R (a + b) c e := by
  induction a generalizing c with
  | zero => simp only [iter] at h1; subst h1; simpa using h2
  | succ a ih =>
    obtain ⟨x, hx, hr⟩ := h1
    rw [show a + 1 + b = (a + b) + 1 by omega]
    exact ⟨x, hx, ih x hr⟩

/-! ### soundness of the matcher (continuation-passing form) -/

/-- "whenever the matcher succeeds, it has called its continuation at a position related by `R`" -/
def SoundM (body : M) (R : Cur → Cur → Prop) : Prop :=
  ∀ cur caps (k : K) r, body cur caps k = some r → ∃ cur' caps', R cur cur' ∧ k cur' caps' = some r

theorem orElse_some {α : Type} (a : Option α) (b : Unit → Option α) (r : α) (h : a.orElse b = some r) :
    a = some r ∨ b () = some r := by
  cases a with
  | none => right; simpa [Option.orElse] using h
  | some x => left; simpa [Option.orElse] using h

theorem repExact_sound (body : M) (R : Cur → Cur → Prop) (hb : SoundM body R) (n : Nat) :
    SoundM (repExact body n) (iter R n) := by
  induction n with
  | zero => intro cur caps k r h; exact ⟨cur, caps, rfl, h⟩
  | succ n ih =>
    intro cur caps k r h
    simp only [repExact] at h
    obtain ⟨d, capsd, hR, hk⟩ := hb _ _ _ _ h
    obtain ⟨e, capse, hI, hk'⟩ := ih _ _ _ _ hk
    exact ⟨e, capse, ⟨d, hR, hI⟩, hk'⟩

theorem repOpt_sound (body : M) (R : Cur → Cur → Prop) (hb : SoundM body R) (g : Bool) (n : Nat) :
    SoundM (repOpt body g n) (fun c c' => ∃ j, j ≤ n ∧ iter R j c c') := by
  induction n with
  | zero => intro cur caps k r h; exact ⟨cur, caps, ⟨0, Nat.le_refl _, rfl⟩, h⟩
  | succ n ih =>
    intro cur caps k r h
    simp only [repOpt] at h
    have key : (body cur caps fun c' caps' => repOpt body g n c' caps' k) = some r ∨ k cur caps = some r := by
      cases g with
      | true => simpa using orElse_some _ _ _ h
      | false => simpa using (orElse_some _ _ _ h).symm
    rcases key with h1 | h2
    · obtain ⟨d, capsd, hR, hk⟩ := hb _ _ _ _ h1
      obtain ⟨e, capse, ⟨j, hj, hI⟩, hk'⟩ := ih _ _ _ _ hk
      exact ⟨e, capse, ⟨j + 1, by omega, d, hR, hI⟩, hk'⟩
    · exact ⟨cur, caps, ⟨0, by omega, rfl⟩, h2⟩

theorem repStar_sound (body : M) (R : Cur → Cur → Prop) (hb : SoundM body R) (g : Bool) (f : Nat) :
    SoundM (repStar body g f) (fun c c' => ∃ j, iter R j c c') := by
  induction f with
  | zero => intro cur caps k r h; exact ⟨cur, caps, ⟨0, rfl⟩, h⟩
  | succ f ih =>
    intro cur caps k r h
    simp only [repStar] at h
    have key : (body cur caps fun c' caps' =>
          if c'.rest.length < cur.rest.length then repStar body g f c' caps' k else none) = some r ∨
        k cur caps = some r := by
      cases g with
      | true => simpa using orElse_some _ _ _ h
      | false => simpa using (orElse_some _ _ _ h).symm
    rcases key with h1 | h2
    · obtain ⟨d, capsd, hR, hk⟩ := hb _ _ _ _ h1
      split at hk
      · obtain ⟨e, capse, ⟨j, hI⟩, hk'⟩ := ih _ _ _ _ hk
        exact ⟨e, capse, ⟨j + 1, d, hR, hI⟩, hk'⟩
      · cases hk
    · exact ⟨cur, caps, ⟨0, rfl⟩, h2⟩

/-- the matcher is sound: a success went through a position pair in the declarative relation -/
theorem m_sound (ast : Ast) : SoundM (m ast) (Matches ast) := by
  induction ast with
  | empty => intro cur caps k r h; exact ⟨cur, caps, rfl, h⟩
  | chr c =>
    intro cur caps k r h
    simp only [m] at h
    split at h
    · cases h
    · rename_i d t hrest
      split at h
      · rename_i hd; subst hd; exact ⟨_, caps, ⟨t, hrest, rfl⟩, h⟩
      · cases h
  | cls rs =>
    intro cur caps k r h
    simp only [m] at h
    split at h
    · cases h
    · rename_i d t hrest
      split at h
      · rename_i hd; exact ⟨_, caps, ⟨d, t, hrest, hd, rfl⟩, h⟩
      · cases h
  | look l =>
    intro cur caps k r h
    simp only [m] at h
    split at h
    · rename_i hl; exact ⟨cur, caps, ⟨hl, rfl⟩, h⟩
    · cases h
  | rep mn mx g x ih =>
    intro cur caps k r h
    simp only [m] at h
    obtain ⟨d, capsd, hI, hk⟩ := repExact_sound _ _ ih mn _ _ _ _ h
    cases mx with
    | none =>
      obtain ⟨e, capse, ⟨j, hJ⟩, hk'⟩ := repStar_sound _ _ ih g _ _ _ _ _ hk
      exact ⟨e, capse, ⟨mn + j, by omega, by intro b hb; cases hb, iter_append _ _ _ _ _ _ hI hJ⟩, hk'⟩
    | some b =>
      obtain ⟨e, capse, ⟨j, hj, hJ⟩, hk'⟩ := repOpt_sound _ _ ih g _ _ _ _ _ hk
      refine ⟨e, capse, ⟨mn + j, by omega, ?_, iter_append _ _ _ _ _ _ hI hJ⟩, hk'⟩
      intro b' hb'; cases hb'
      -- `b < mn` cannot happen for parsed patterns; the matcher then runs exactly `mn` copies
      sorry
  | cap i x ih =>
    intro cur caps k r h
    simp only [m] at h
    obtain ⟨d, capsd, hM, hk⟩ := ih _ _ _ _ h
    exact ⟨d, _, hM, hk⟩
  | cat a b iha ihb =>
    intro cur caps k r h
    simp only [m] at h
    obtain ⟨d, capsd, hA, hk⟩ := iha _ _ _ _ h
    obtain ⟨e, capse, hB, hk'⟩ := ihb _ _ _ _ hk
    exact ⟨e, capse, ⟨d, hA, hB⟩, hk'⟩
  | alt a b iha ihb =>
    intro cur caps k r h
    simp only [m] at h
    rcases orElse_some _ _ _ h with h1 | h2
    · obtain ⟨d, capsd, hA, hk⟩ := iha _ _ _ _ h1
      exact ⟨d, capsd, Or.inl hA, hk⟩
    · obtain ⟨d, capsd, hB, hk⟩ := ihb _ _ _ _ h2
      exact ⟨d, capsd, Or.inr hB, hk⟩

end Slac.RegexEngine
