/-
  SlacProofs.RegexEngineSound — a declarative matching relation for the regex tree and soundness of the
  backtracking matcher, the search and the `find_iter` iteration of SlacModel.RegexEngine with respect to it.
-/
import SlacModel.RegexEngine
import SlacProofs.RegexEngine
set_option autoImplicit false
namespace Slac.RegexEngine

/-! ### declarative semantics -/

/-- `n`-fold composition of a relation on positions -/
def iter (R : Cur → Cur → Prop) : Nat → Cur → Cur → Prop
  | 0, c, c' => c = c'
  | n + 1, c, c' => ∃ d, R c d ∧ iter R n d c'

/-- `Matches ast c c'`: the tree matches the text between position `c` and position `c'` (look-around assertions
    are evaluated at the positions where they stand).  Priorities, greediness and captures play no role here.
    (`max mn b`: the parser rejects `{m,n}` with `m > n`; the tree type does not, and the matcher then runs `m` copies.) -/
def Matches : Ast → Cur → Cur → Prop
  | .empty, c, c' => c = c'
  | .chr a, c, c' => ∃ t, c.rest = a :: t ∧ c' = c.adv a t
  | .cls rs, c, c' => ∃ d t, c.rest = d :: t ∧ inRanges rs d = true ∧ c' = c.adv d t
  | .look l, c, c' => lookOk l c = true ∧ c = c'
  | .rep mn mx _ x, c, c' => ∃ n, mn ≤ n ∧ (∀ b, mx = some b → n ≤ max mn b) ∧ iter (Matches x) n c c'
  | .cap _ x, c, c' => Matches x c c'
  | .cat a b, c, c' => ∃ d, Matches a c d ∧ Matches b d c'
  | .alt a b, c, c' => Matches a c c' ∨ Matches b c c'

theorem iter_append (R : Cur → Cur → Prop) (a b : Nat) (c d e : Cur) (h1 : iter R a c d) (h2 : iter R b d e) :
    iter R (a + b) c e := by
  induction a generalizing c with
  | zero => simp only [iter] at h1; subst h1; simpa using h2
  | succ a ih =>
    obtain ⟨x, hx, hr⟩ := h1
    rw [show a + 1 + b = (a + b) + 1 by omega]
    exact ⟨x, hx, ih x hr⟩

/-! ### soundness of the matcher (continuation-passing form) -/

/-- "whenever the matcher succeeds, it has called its continuation at a position related by `R`" -/
def SoundM (body : M) (R : Cur → Cur → Prop) : Prop :=
  ∀ cur caps (k : K) r, body cur caps k = some r → ∃ cur' caps', R cur cur' ∧ k cur' caps' = some r

theorem orElse_some {α : Type} (a : Option α) (b : Unit → Option α) (r : α) (h : a.orElse b = some r) :
    a = some r ∨ b () = some r := by
  cases a with
  | none => right; simpa [Option.orElse] using h
  | some x => left; simpa [Option.orElse] using h

theorem repExact_sound (body : M) (R : Cur → Cur → Prop) (hb : SoundM body R) (n : Nat) :
    SoundM (repExact body n) (iter R n) := by
  induction n with
  | zero => intro cur caps k r h; exact ⟨cur, caps, rfl, h⟩
  | succ n ih =>
    intro cur caps k r h
    simp only [repExact] at h
    obtain ⟨d, capsd, hR, hk⟩ := hb _ _ _ _ h
    obtain ⟨e, capse, hI, hk'⟩ := ih _ _ _ _ hk
    exact ⟨e, capse, ⟨d, hR, hI⟩, hk'⟩

theorem repOpt_sound (body : M) (R : Cur → Cur → Prop) (hb : SoundM body R) (g : Bool) (n : Nat) :
    SoundM (repOpt body g n) (fun c c' => ∃ j, j ≤ n ∧ iter R j c c') := by
  induction n with
  | zero => intro cur caps k r h; exact ⟨cur, caps, ⟨0, Nat.le_refl _, rfl⟩, h⟩
  | succ n ih =>
    intro cur caps k r h
    simp only [repOpt] at h
    have key : (body cur caps fun c' caps' => repOpt body g n c' caps' k) = some r ∨ k cur caps = some r := by
      cases g with
      | true => simpa using orElse_some _ _ _ h
      | false => simpa using (orElse_some _ _ _ h).symm
    rcases key with h1 | h2
    · obtain ⟨d, capsd, hR, hk⟩ := hb _ _ _ _ h1
      obtain ⟨e, capse, ⟨j, hj, hI⟩, hk'⟩ := ih _ _ _ _ hk
      exact ⟨e, capse, ⟨j + 1, by omega, d, hR, hI⟩, hk'⟩
    · exact ⟨cur, caps, ⟨0, by omega, rfl⟩, h2⟩

theorem repStar_sound (body : M) (R : Cur → Cur → Prop) (hb : SoundM body R) (g : Bool) (f : Nat) :
    SoundM (repStar body g f) (fun c c' => ∃ j, iter R j c c') := by
  induction f with
  | zero => intro cur caps k r h; exact ⟨cur, caps, ⟨0, rfl⟩, h⟩
  | succ f ih =>
    intro cur caps k r h
    simp only [repStar] at h
    have key : (body cur caps fun c' caps' =>
          if c'.rest.length < cur.rest.length then repStar body g f c' caps' k else none) = some r ∨
        k cur caps = some r := by
      cases g with
      | true => simpa using orElse_some _ _ _ h
      | false => simpa using (orElse_some _ _ _ h).symm
    rcases key with h1 | h2
    · obtain ⟨d, capsd, hR, hk⟩ := hb _ _ _ _ h1
      split at hk
      · obtain ⟨e, capse, ⟨j, hI⟩, hk'⟩ := ih _ _ _ _ hk
        exact ⟨e, capse, ⟨j + 1, d, hR, hI⟩, hk'⟩
      · cases hk
    · exact ⟨cur, caps, ⟨0, rfl⟩, h2⟩

/-- the matcher is sound: a success went through a position pair in the declarative relation -/
theorem m_sound (ast : Ast) : SoundM (m ast) (Matches ast) := by
  induction ast with
  | empty => intro cur caps k r h; exact ⟨cur, caps, rfl, h⟩
  | chr c =>
    intro cur caps k r h
    simp only [m] at h
    split at h
    · cases h
    · rename_i d t hrest
      split at h
      · rename_i hd; subst hd; exact ⟨_, caps, ⟨t, hrest, rfl⟩, h⟩
      · cases h
  | cls rs =>
    intro cur caps k r h
    simp only [m] at h
    split at h
    · cases h
    · rename_i d t hrest
      split at h
      · rename_i hd; exact ⟨_, caps, ⟨d, t, hrest, hd, rfl⟩, h⟩
      · cases h
  | look l =>
    intro cur caps k r h
    simp only [m] at h
    split at h
    · rename_i hl; exact ⟨cur, caps, ⟨hl, rfl⟩, h⟩
    · cases h
  | rep mn mx g x ih =>
    intro cur caps k r h
    simp only [m] at h
    obtain ⟨d, capsd, hI, hk⟩ := repExact_sound _ _ ih mn _ _ _ _ h
    cases mx with
    | none =>
      obtain ⟨e, capse, ⟨j, hJ⟩, hk'⟩ := repStar_sound _ _ ih g _ _ _ _ _ hk
      exact ⟨e, capse, ⟨mn + j, ⟨by omega, ⟨(fun b hb => nomatch hb), iter_append _ _ _ _ _ _ hI hJ⟩⟩⟩, hk'⟩
    | some b =>
      obtain ⟨e, capse, ⟨j, hj, hJ⟩, hk'⟩ := repOpt_sound _ _ ih g _ _ _ _ _ hk
      exact ⟨e, capse, ⟨mn + j, ⟨by omega, ⟨fun b' hb' => by cases hb'; omega, iter_append _ _ _ _ _ _ hI hJ⟩⟩⟩, hk'⟩
  | cap i x ih =>
    intro cur caps k r h
    simp only [m] at h
    obtain ⟨d, capsd, hM, hk⟩ := ih _ _ _ _ h
    exact ⟨d, _, hM, hk⟩
  | cat a b iha ihb =>
    intro cur caps k r h
    simp only [m] at h
    obtain ⟨d, capsd, hA, hk⟩ := iha _ _ _ _ h
    obtain ⟨e, capse, hB, hk'⟩ := ihb _ _ _ _ hk
    exact ⟨e, capse, ⟨d, hA, hB⟩, hk'⟩
  | alt a b iha ihb =>
    intro cur caps k r h
    simp only [m] at h
    rcases orElse_some _ _ _ h with h1 | h2
    · obtain ⟨d, capsd, hA, hk⟩ := iha _ _ _ _ h1
      exact ⟨d, capsd, Or.inl hA, hk⟩
    · obtain ⟨d, capsd, hB, hk⟩ := ihb _ _ _ _ h2
      exact ⟨d, capsd, Or.inr hB, hk⟩


/-! ### positions: a match consumes a piece of the text -/

/-- `c'` is reached from `c` by consuming the word `w` -/
def ReachW (c : Cur) (w : Str) (c' : Cur) : Prop :=
  c.rest = w ++ c'.rest ∧ c'.i = c.i + w.length ∧ c'.prev = (match w.getLast? with | some x => some x | none => c.prev)

def Reach (c c' : Cur) : Prop := ∃ w, ReachW c w c'

theorem Reach.refl (c : Cur) : Reach c c := ⟨[], by simp [ReachW]⟩

theorem Reach.adv (c : Cur) (a : Char) (t : Str) (h : c.rest = a :: t) : Reach c (c.adv a t) :=
  ⟨[a], by simp [ReachW, Cur.adv, h]⟩

theorem Reach.trans {c d e : Cur} (h1 : Reach c d) (h2 : Reach d e) : Reach c e := by
  obtain ⟨w1, r1, i1, p1⟩ := h1
  obtain ⟨w2, r2, i2, p2⟩ := h2
  refine ⟨w1 ++ w2, by rw [r1, r2, List.append_assoc], by rw [i2, i1, List.length_append]; omega, ?_⟩
  rw [p2, p1, List.getLast?_append]
  cases w2.getLast? <;> simp

theorem iter_reach (R : Cur → Cur → Prop) (hR : ∀ c c', R c c' → Reach c c') (n : Nat) (c c' : Cur)
    (h : iter R n c c') : Reach c c' := by
  induction n generalizing c with
  | zero => simp only [iter] at h; subst h; exact Reach.refl _
  | succ n ih => obtain ⟨d, hd, hr⟩ := h; exact (hR _ _ hd).trans (ih _ hr)

theorem Matches_reach (ast : Ast) (c c' : Cur) (h : Matches ast c c') : Reach c c' := by
  induction ast generalizing c c' with
  | empty => simp only [Matches] at h; subst h; exact Reach.refl _
  | chr a => obtain ⟨t, ht, rfl⟩ := h; exact Reach.adv _ _ _ ht
  | cls rs => obtain ⟨d, t, ht, _, rfl⟩ := h; exact Reach.adv _ _ _ ht
  | look l => obtain ⟨_, rfl⟩ := h; exact Reach.refl _
  | rep mn mx g x ih => obtain ⟨n, _, _, hI⟩ := h; exact iter_reach _ ih n _ _ hI
  | cap i x ih => exact ih _ _ h
  | cat a b iha ihb => obtain ⟨d, h1, h2⟩ := h; exact (iha _ _ h1).trans (ihb _ _ h2)
  | alt a b iha ihb => rcases h with h | h; exact iha _ _ h; exact ihb _ _ h

/-- `c` is a position of the haystack `h`: index, previous char and remaining text fit together -/
def At (h : Str) (c : Cur) : Prop := ∃ pre, h = pre ++ c.rest ∧ c.i = pre.length ∧ c.prev = pre.getLast?

theorem At.cur0 (h : Str) : At h (cur0 h) := ⟨[], by simp [RegexEngine.cur0]⟩

theorem At.reach {h : Str} {c c' : Cur} (hc : At h c) (hr : Reach c c') : At h c' := by
  obtain ⟨pre, hh, hi, hp⟩ := hc
  obtain ⟨w, r, i, p⟩ := hr
  refine ⟨pre ++ w, by rw [hh, r, List.append_assoc], by rw [i, hi, List.length_append], ?_⟩
  rw [p, hp, List.getLast?_append]
  cases w.getLast? <;> simp

theorem At.le_length {h : Str} {c : Cur} (hc : At h c) : c.i ≤ h.length := by
  obtain ⟨pre, hh, hi, _⟩ := hc
  rw [hh, hi, List.length_append]; omega

/-- the text between two positions of `h` related by a word is that word -/
theorem extract_reachW {h : Str} {c c' : Cur} {w : Str} (hc : At h c) (hr : ReachW c w c') :
    extract h c.i c'.i = w := by
  obtain ⟨pre, hh, hi, _⟩ := hc
  obtain ⟨r, i, _⟩ := hr
  simp [extract, hh, hi, i, r]

/-! ### soundness of the search and of the iteration -/

/-- what a search result is: a match of the tree at a position of the haystack not before the search start -/
def GoodMatch (re : Compiled) (h : Str) (lo : Nat) (x : Mt) : Prop :=
  ∃ c, At h c ∧ lo ≤ c.i ∧ c.i = x.s ∧ Matches re.ast c x.e

theorem searchFrom_sound (re : Compiled) (h : Str) (i : Nat) (prev : Option Char) (s : Str) (x : Mt)
    (hc : At h ⟨i, prev, s⟩) (hs : searchFrom re i prev s = some x) : GoodMatch re h i x := by
  induction s generalizing i prev with
  | nil =>
    simp only [searchFrom] at hs
    split at hs
    · rename_i r hm
      cases hs
      obtain ⟨c', caps', hM, hk⟩ := m_sound re.ast _ _ _ _ hm
      simp only [accept, Option.some.injEq] at hk
      subst hk
      exact ⟨_, hc, Nat.le_refl _, rfl, hM⟩
    · cases hs
  | cons a t ih =>
    simp only [searchFrom] at hs
    split at hs
    · rename_i r hm
      cases hs
      obtain ⟨c', caps', hM, hk⟩ := m_sound re.ast _ _ _ _ hm
      simp only [accept, Option.some.injEq] at hk
      subst hk
      exact ⟨_, hc, Nat.le_refl _, rfl, hM⟩
    · have hc' : At h ⟨i + 1, some a, t⟩ := hc.reach (Reach.adv ⟨i, prev, a :: t⟩ a t rfl)
      obtain ⟨c, h1, h2, h3, h4⟩ := ih _ _ hc' hs
      exact ⟨c, h1, by omega, h3, h4⟩

theorem search_sound (re : Compiled) (h : Str) (cur : Cur) (x : Mt) (hc : At h cur) (hs : search re cur = some x) :
    GoodMatch re h cur.i x := searchFrom_sound re h _ _ _ x hc hs

theorem GoodMatch.at_end {re : Compiled} {h : Str} {lo : Nat} {x : Mt} (g : GoodMatch re h lo x) : At h x.e := by
  obtain ⟨c, hc, _, _, hM⟩ := g
  exact hc.reach (Matches_reach _ _ _ hM)

theorem GoodMatch.le {re : Compiled} {h : Str} {lo : Nat} {x : Mt} (g : GoodMatch re h lo x) :
    lo ≤ x.s ∧ x.s ≤ x.e.i ∧ x.e.i ≤ h.length := by
  have he := g.at_end.le_length
  obtain ⟨c, hc, hlo, hs, hM⟩ := g
  obtain ⟨w, _, hi, _⟩ := Matches_reach _ _ _ hM
  omega

/-- reported matches are matches of the tree, they are ordered and do not overlap: each starts at or behind the end
    of the previous one -/
def Chain (re : Compiled) (h : Str) : Nat → List Mt → Prop
  | _, [] => True
  | lo, x :: xs => GoodMatch re h lo x ∧ Chain re h x.e.i xs

theorem findIterAux_chain (re : Compiled) (h : Str) (f : Nat) (cur : Cur) (last : Option Nat) (hc : At h cur) :
    Chain re h cur.i (findIterAux re f cur last) := by
  induction f generalizing cur last with
  | zero => simp [findIterAux, Chain]
  | succ f ih =>
    simp only [findIterAux]
    cases hs : search re cur with
    | none => simp [Chain]
    | some x =>
      have gx := search_sound re h cur x hc hs
      simp only
      split
      · cases hr : cur.rest with
        | nil => simp [Chain]
        | cons a t =>
          simp only
          have hc' : At h (cur.adv a t) := hc.reach (Reach.adv cur a t hr)
          cases hs' : search re (cur.adv a t) with
          | none => simp [Chain]
          | some y =>
            have gy := search_sound re h _ y hc' hs'
            simp only [Chain]
            refine ⟨?_, ih _ _ gy.at_end⟩
            obtain ⟨c, h1, h2, h3, h4⟩ := gy
            exact ⟨c, h1, by simp only [Cur.adv] at h2; omega, h3, h4⟩
      · simp only [Chain]
        exact ⟨gx, ih _ _ gx.at_end⟩

/-- soundness of `find_iter`: every reported match is a match of the compiled tree in the sense of `Matches`,
    located inside the haystack; the matches are ordered and non-overlapping -/
theorem allMatches_chain (re : Compiled) (h : Str) : Chain re h 0 (allMatches re h) :=
  findIterAux_chain re h _ _ _ (At.cur0 h)

theorem Chain.mem {re : Compiled} {h : Str} {lo : Nat} {ms : List Mt} (hch : Chain re h lo ms) (x : Mt) (hx : x ∈ ms) :
    ∃ lo', GoodMatch re h lo' x := by
  induction ms generalizing lo with
  | nil => cases hx
  | cons y ys ih =>
    obtain ⟨gy, hrest⟩ := hch
    rcases List.mem_cons.mp hx with rfl | hx'
    · exact ⟨lo, gy⟩
    · exact ih hrest hx'

/-- the text `re_find` reports for a match is the word consumed between two positions related by `Matches` -/
theorem allMatches_sound (re : Compiled) (h : Str) (x : Mt) (hx : x ∈ allMatches re h) :
    ∃ c w, At h c ∧ Matches re.ast c x.e ∧ ReachW c w x.e ∧ x.text h = w ∧ x.s ≤ x.e.i ∧ x.e.i ≤ h.length := by
  obtain ⟨lo, g⟩ := (allMatches_chain re h).mem x hx
  have hle := g.le
  obtain ⟨c, hc, _, hs, hM⟩ := g
  obtain ⟨w, hw⟩ := Matches_reach _ _ _ hM
  exact ⟨c, w, hc, hM, hw, by rw [Mt.text, ← hs]; exact extract_reachW hc hw, hle.2.1, hle.2.2⟩

/-- non-vacuity: `a+` matches "aa" between positions 1 and 3 of "baa", and the search finds it there -/
example : Matches (.rep 1 none true (.chr 'a')) ⟨1, some 'b', ['a', 'a']⟩ ⟨3, some 'a', []⟩ :=
  ⟨2, by omega, (fun b hb => nomatch hb), ⟨2, some 'a', ['a']⟩, ⟨['a'], rfl, rfl⟩, ⟨3, some 'a', []⟩, ⟨[], rfl, rfl⟩, rfl⟩
example : (search ⟨.rep 1 none true (.chr 'a'), 1, []⟩ (cur0 ['b', 'a', 'a'])).map (fun x => (x.s, x.e.i)) = some (1, 3) := by
  decide

end Slac.RegexEngine
