/-
  SlacProofs.RegexEngineLit — the concrete engine on escaped literals: `compile (escape lit)` is the chain of the
  literal's chars, the matcher on it is a prefix test, the search finds the leftmost occurrence, and `find_iter`
  reports the leftmost non-overlapping occurrences (`litSpans`).
-/
import SlacModel.RegexEngine
import SlacProofs.RegexEngine
import SlacProofs.SeqSearch
set_option autoImplicit false
namespace Slac.RegexEngine
open Slac.Seq Slac.SeqSpec

/-! ### the matcher on a chain of chars -/

def litItems (lit : Str) : List Item := lit.map fun c => Item.leaf (.chr c)
def litAst (lit : Str) : Ast := foldCat (litItems lit)

def Cur.advs : Cur → Str → Cur
  | cur, [] => cur
  | cur, c :: t => Cur.advs ⟨cur.i + 1, some c, cur.rest.tail⟩ t

theorem m_chr (c : Char) (cur : Cur) (caps : Caps) (k : K) :
    m (.chr c) cur caps k = if isPrefix [c] cur.rest then k (cur.advs [c]) caps else none := by
  rcases cur with ⟨i, prev, rest⟩
  cases rest with
  | nil => simp [m, isPrefix]
  | cons d t =>
    by_cases hd : d = c
    · subst hd; simp [m, isPrefix, Cur.advs, Cur.adv]
    · have : ¬ c = d := fun e => hd e.symm
      simp [m, isPrefix, hd, this]

theorem m_lit (lit : Str) (cur : Cur) (caps : Caps) (k : K) :
    m (litAst lit) cur caps k = if isPrefix lit cur.rest then k (cur.advs lit) caps else none := by
  induction lit generalizing cur with
  | nil => simp [litAst, litItems, foldCat, m, isPrefix, Cur.advs]
  | cons c t ih =>
    cases t with
    | nil => simpa [litAst, litItems, foldCat, Item.leaf] using m_chr c cur caps k
    | cons c2 t2 =>
      have hcat : litAst (c :: c2 :: t2) = .cat (.chr c) (litAst (c2 :: t2)) := by
        simp [litAst, litItems, foldCat, Item.leaf]
      rw [hcat]
      simp only [m]
      rcases cur with ⟨i, prev, rest⟩
      cases rest with
      | nil => simp [isPrefix]
      | cons d r =>
        by_cases hd : d = c
        · subst hd
          simp only [if_true, ih]
          simp only [isPrefix, Cur.advs, Cur.adv, decide_true, Bool.true_and, List.tail_cons]
          cases r with
          | nil => simp [isPrefix]
          | cons e r2 => simp [isPrefix]
        · have : ¬ c = d := fun e => hd e.symm
          simp [isPrefix, hd, this]


/-! ### search and iteration -/

def litRe (lit : Str) : Compiled := ⟨litAst lit, 1, []⟩

def litHit (lit : Str) (i : Nat) (prev : Option Char) (s : Str) : Mt := ⟨i, Cur.advs ⟨i, prev, s⟩ lit, [none]⟩

theorem searchFrom_hit (lit : Str) (i : Nat) (prev : Option Char) (s : Str) (hp : isPrefix lit s = true) :
    searchFrom (litRe lit) i prev s = some (litHit lit i prev s) := by
  cases s <;> simp [searchFrom, litRe, m_lit, hp, accept, litHit]

theorem searchFrom_miss (lit : Str) (i : Nat) (prev : Option Char) (c : Char) (t : Str)
    (hp : isPrefix lit (c :: t) = false) :
    searchFrom (litRe lit) i prev (c :: t) = searchFrom (litRe lit) (i + 1) (some c) t := by
  simp [searchFrom, litRe, m_lit, hp]

theorem searchFrom_nil_miss (lit : Str) (i : Nat) (prev : Option Char) (hp : isPrefix lit [] = false) :
    searchFrom (litRe lit) i prev [] = none := by
  simp [searchFrom, litRe, m_lit, hp]

theorem advs_i (lit : Str) (cur : Cur) : (cur.advs lit).i = cur.i + lit.length := by
  induction lit generalizing cur with
  | nil => rfl
  | cons c t ih => simp [Cur.advs, ih]; omega

theorem advs_rest (lit : Str) (cur : Cur) : (cur.advs lit).rest = cur.rest.drop lit.length := by
  induction lit generalizing cur with
  | nil => rfl
  | cons c t ih =>
    simp only [Cur.advs, ih, List.length_cons]
    cases cur.rest <;> simp

/-- spans of the leftmost non-overlapping occurrences of `lit` in `s`, `s` starting at index `i`
    (the empty literal occurs once at every boundary) -/
def litSpans (lit : Str) : Nat → Str → List (Nat × Nat)
  | i, [] => if lit = [] then [(i, i)] else []
  | i, c :: t =>
    if lit <+: c :: t then (i, i + lit.length) :: litSpans lit (i + max lit.length 1) ((c :: t).drop (max lit.length 1))
    else litSpans lit (i + 1) t
termination_by _ s => s.length
decreasing_by
  all_goals simp only [List.length_drop, List.length_cons]
  all_goals omega

theorem litSpans_length (lit : Str) (i : Nat) (s : Str) : (litSpans lit i s).length = occCount lit s := by
  induction hn : s.length using Nat.strongRecOn generalizing i s with
  | _ n ih =>
    cases s with
    | nil => rw [litSpans, occCount]; split <;> simp
    | cons c t =>
      rw [litSpans, occCount]
      split
      · simp only [List.length_cons]
        rw [ih _ (by subst hn; simp only [List.length_drop, List.length_cons]; omega) _ _ rfl]
        omega
      · exact ih _ (by subst hn; simp) _ _ rfl


/-! ### splicing at the occurrences = `replaceAll` -/

theorem extract_self (h : Str) (i : Nat) : extract h i i = [] := by simp [extract]

theorem extract_snoc (h : Str) (l i : Nat) (c : Char) (t : Str) (hd : h.drop i = c :: t) (hl : l ≤ i) :
    extract h l (i + 1) = extract h l i ++ [c] := by
  have hg : (h.drop l).drop (i - l) = c :: t := by rw [List.drop_drop]; rw [show l + (i - l) = i by omega]; exact hd
  have hget : (h.drop l)[i - l]? = some c := by
    have := congrArg List.head? hg
    simpa [List.head?_drop] using this
  simp only [extract, show i + 1 - l = (i - l) + 1 by omega, List.take_add_one, hget, Option.toList]

theorem splice_litSpans (lit rep h : Str) (l i : Nat) (s : Str) (hs : s = h.drop i) (hl : l ≤ i) (hi : i ≤ h.length) :
    splicePlain h rep l (litSpans lit i s) = extract h l i ++ replaceAll lit rep s := by
  induction hn : s.length using Nat.strongRecOn generalizing l i s with
  | _ n ih =>
    cases s with
    | nil =>
      have hlen : i = h.length := by
        have := congrArg List.length hs
        simp at this; omega
      rw [litSpans, replaceAll]
      split
      · simp [splicePlain, ← hs]
      · subst hlen
        simp only [splicePlain, extract, List.append_nil]
        rw [List.take_of_length_le (by simp)]
    | cons c t =>
      have hd : h.drop i = c :: t := hs.symm
      have hi' : i + 1 ≤ h.length := by
        have := congrArg List.length hs
        simp at this; omega
      rw [litSpans, replaceAll]
      by_cases hp : lit <+: c :: t
      · simp only [hp, if_true, splicePlain]
        by_cases he : lit = []
        · subst he
          simp only [List.length_nil, Nat.zero_max, Nat.add_zero, if_true, List.drop_succ_cons, List.drop_zero]
          rw [ih t.length (by subst hn; simp) i (i + 1) t (by rw [← List.drop_drop, hd]; rfl) (by omega) hi' rfl]
          rw [extract_snoc h i i c t hd (Nat.le_refl _), extract_self]
          simp
        · have hlen : 0 < lit.length := List.length_pos_iff.mpr he
          have hmax : max lit.length 1 = lit.length := by omega
          have hle : lit.length ≤ (c :: t).length := List.IsPrefix.length_le hp
          have hlh : (c :: t).length = h.length - i := by rw [hs]; simp
          simp only [he, if_false, hmax]
          rw [ih _ (by subst hn; simp only [List.length_drop, List.length_cons]; omega) (i + lit.length) (i + lit.length)
            ((c :: t).drop lit.length) (by rw [← List.drop_drop, hd]) (Nat.le_refl _)
            (by simp only [List.length_cons] at hle hlh; omega) rfl]
          simp [extract_self]
      · have he : lit ≠ [] := fun e => hp (by simp [e])
        simp only [hp, if_false, he]
        rw [ih t.length (by subst hn; simp) l (i + 1) t (by rw [← List.drop_drop, hd]; rfl) (by omega) hi' rfl]
        rw [extract_snoc h l i c t hd hl]
        simp

/-! ### `find_iter` on a literal reports exactly `litSpans` -/

theorem findIterAux_none (re : Compiled) (f : Nat) (cur : Cur) (last : Option Nat) (hs : search re cur = none) :
    findIterAux re f cur last = [] := by
  cases f <;> simp [findIterAux, hs]

theorem findIterAux_nonempty (re : Compiled) (f : Nat) (cur : Cur) (last : Option Nat) (x : Mt)
    (hs : search re cur = some x) (hx : x.isEmptyMatch = false) :
    findIterAux re (f + 1) cur last = x :: findIterAux re f x.e (some x.e.i) := by
  simp [findIterAux, hs, hx]

theorem searchFrom_lit_span (lit : Str) (i : Nat) (prev : Option Char) (s : Str) (x : Mt)
    (hx : searchFrom (litRe lit) i prev s = some x) : x.e.i = x.s + lit.length := by
  induction s generalizing i prev with
  | nil =>
    by_cases hp : isPrefix lit [] = true
    · rw [searchFrom_hit lit i prev [] hp] at hx
      cases hx; simp [litHit, advs_i]
    · rw [searchFrom_nil_miss lit i prev (by simpa using hp)] at hx; cases hx
  | cons c t ih =>
    by_cases hp : isPrefix lit (c :: t) = true
    · rw [searchFrom_hit lit i prev _ hp] at hx
      cases hx; simp [litHit, advs_i]
    · rw [searchFrom_miss lit i prev c t (by simpa using hp)] at hx
      exact ih _ _ hx

theorem findIter_lit_nonempty (lit : Str) (hne : lit ≠ []) (f : Nat) (cur : Cur) (last : Option Nat)
    (hf : cur.rest.length < f) :
    (findIterAux (litRe lit) f cur last).map Mt.span = litSpans lit cur.i cur.rest := by
  have hlen : 0 < lit.length := List.length_pos_iff.mpr hne
  induction hn : cur.rest.length using Nat.strongRecOn generalizing f cur last with
  | _ n ih =>
    rcases cur with ⟨i, prev, rest⟩
    simp only at hn hf ⊢
    cases f with
    | zero => omega
    | succ f =>
      cases rest with
      | nil =>
        have hp : isPrefix lit [] = false := by cases lit <;> simp_all [isPrefix]
        rw [findIterAux_none _ _ _ _ (by simp [search, searchFrom_nil_miss lit i prev hp])]
        rw [litSpans]; simp [hne]
      | cons c t =>
        rw [litSpans]
        by_cases hp : lit <+: c :: t
        · have hp' : isPrefix lit (c :: t) = true := (isPrefix_iff _ _).mpr hp
          have hs : search (litRe lit) ⟨i, prev, c :: t⟩ = some (litHit lit i prev (c :: t)) := by
            simp [search, searchFrom_hit lit i prev _ hp']
          have hx : (litHit lit i prev (c :: t)).isEmptyMatch = false := by
            simp [Mt.isEmptyMatch, litHit, advs_i]; omega
          rw [findIterAux_nonempty _ _ _ _ _ hs hx]
          have hmax : max lit.length 1 = lit.length := by omega
          have hle : lit.length ≤ (c :: t).length := List.IsPrefix.length_le hp
          simp only [hp, if_true, List.map_cons, hmax]
          have := ih ((c :: t).drop lit.length).length
            (by subst hn; simp only [List.length_drop, List.length_cons]; omega) f (litHit lit i prev (c :: t)).e
            (some (litHit lit i prev (c :: t)).e.i)
            (by simp only [litHit, advs_rest, List.length_drop, List.length_cons] at hf ⊢; omega)
            (by simp [litHit, advs_rest])
          rw [this]
          simp [Mt.span, litHit, advs_i, advs_rest]
        · have hp' : isPrefix lit (c :: t) = false := by
            cases hb : isPrefix lit (c :: t) with
            | false => rfl
            | true => exact absurd ((isPrefix_iff _ _).mp hb) hp
          simp only [hp, if_false]
          have hsearch : search (litRe lit) ⟨i, prev, c :: t⟩ = search (litRe lit) ⟨i + 1, some c, t⟩ := by
            simp [search, searchFrom_miss lit i prev c t hp']
          have key : findIterAux (litRe lit) (f + 1) ⟨i, prev, c :: t⟩ last
              = findIterAux (litRe lit) (f + 1) ⟨i + 1, some c, t⟩ last := by
            cases hsr : search (litRe lit) ⟨i + 1, some c, t⟩ with
            | none => rw [findIterAux_none _ _ _ _ (hsearch.trans hsr), findIterAux_none _ _ _ _ hsr]
            | some x =>
              have hx : x.isEmptyMatch = false := by
                have := searchFrom_lit_span lit _ _ _ x hsr
                simp [Mt.isEmptyMatch, this]; omega
              rw [findIterAux_nonempty _ _ _ _ _ (hsearch.trans hsr) hx, findIterAux_nonempty _ _ _ _ _ hsr hx]
          rw [key]
          exact ih t.length (by subst hn; simp) (f + 1) ⟨i + 1, some c, t⟩ last
            (by simp only [List.length_cons] at hf ⊢; omega) rfl

theorem litSpans_nil_head (j : Nat) (s : Str) : litSpans [] j s = (j, j) :: (litSpans [] j s).tail := by
  cases s <;> rw [litSpans] <;> simp

theorem search_empty (cur : Cur) : search (litRe []) cur = some ⟨cur.i, cur, [none]⟩ := by
  have := searchFrom_hit [] cur.i cur.prev cur.rest (by simp [isPrefix])
  simpa [search, litHit, Cur.advs] using this

theorem findIter_lit_empty (f : Nat) (cur : Cur) (hf : cur.rest.length ≤ f) :
    (findIterAux (litRe []) f cur (some cur.i)).map Mt.span = (litSpans [] cur.i cur.rest).tail := by
  induction f generalizing cur with
  | zero =>
    have : cur.rest = [] := List.eq_nil_of_length_eq_zero (by omega)
    rw [this, litSpans]; simp [findIterAux]
  | succ f ih =>
    rcases cur with ⟨i, prev, rest⟩
    simp only [findIterAux, search_empty, Mt.isEmptyMatch, Nat.le_refl, decide_true, beq_self_eq_true, Bool.and_self, if_true]
    cases rest with
    | nil => rw [litSpans]; simp
    | cons c t =>
      simp only [Cur.adv]
      have := ih ⟨i + 1, some c, t⟩ (by simp only [List.length_cons] at hf ⊢; omega)
      simp only [List.map_cons, this]
      rw [litSpans]
      simp only [List.nil_prefix, if_true, List.length_nil, Nat.zero_max, List.drop_succ_cons, List.drop_zero, List.tail_cons]
      rw [litSpans_nil_head (i + 1) t]
      simp [Mt.span]

/-- on a literal pattern `find_iter` reports the leftmost non-overlapping occurrences -/
theorem allMatches_lit (lit h : Str) : (allMatches (litRe lit) h).map Mt.span = litSpans lit 0 h := by
  by_cases hne : lit = []
  · subst hne
    rw [allMatches_eq, search_empty]
    have := findIter_lit_empty (h.length + 1) (cur0 h) (by simp [cur0])
    simp only [List.map_cons, this]
    rw [litSpans_nil_head 0 h]; simp [Mt.span, cur0]
  · exact findIter_lit_nonempty lit hne _ (cur0 h) none (by simp [cur0])


/-! ### the parser on an escaped literal -/

theorem parseEscape_meta (fl : Flags) (c : Char) (r : Str) (hm : isMeta c = true) :
    parseEscape fl (c :: r) = .ok (hirChar fl c, r) := by
  simp only [isMeta, Bool.or_eq_true, beq_iff_eq] at hm
  rcases hm with (((((((((((((((((rfl | rfl) | rfl) | rfl) | rfl) | rfl) | rfl) | rfl) | rfl) | rfl) | rfl) | rfl) | rfl) | rfl) | rfl) | rfl) | rfl) | rfl) <;>
    rfl

theorem hirChar_noci (fl : Flags) (c : Char) (h : fl.ci = false) : hirChar fl c = .chr c := by
  simp [hirChar, h]

theorem parseLoop_meta (f : Nat) (st : PState) (c : Char) (r : Str) (hm : isMeta c = true) (hci : st.flags.ci = false) :
    parseLoop (f + 1) st ('\\' :: c :: r) = parseLoop f (st.pushItem (Item.leaf (.chr c))) r := by
  rw [parseLoop]
  simp [parseEscape_meta _ c r hm, hirChar_noci _ c hci, Prim.toItem]

theorem parseLoop_plain (f : Nat) (st : PState) (c : Char) (r : Str) (hm : isMeta c = false) (hci : st.flags.ci = false) :
    parseLoop (f + 1) st (c :: r) = parseLoop f (st.pushItem (Item.leaf (.chr c))) r := by
  simp only [isMeta, Bool.or_eq_false_iff, beq_eq_false_iff_ne] at hm
  rw [parseLoop]
  simp [hm, hirChar_noci _ c hci, Prim.toItem]

theorem parseLoop_escape (lit : Str) (f : Nat) (st : PState) (hci : st.flags.ci = false) :
    parseLoop (lit.length + f) st (escape lit) = parseLoop f { st with cat := (litItems lit).reverse ++ st.cat } [] := by
  induction lit generalizing st with
  | nil => simp [escape, litItems]
  | cons c t ih =>
    rw [show (c :: t).length + f = (t.length + f) + 1 by simp only [List.length_cons]; omega]
    by_cases hm : isMeta c = true
    · simp only [escape, hm, if_true]
      rw [parseLoop_meta _ _ _ _ hm hci, ih _ (by simpa [PState.pushItem] using hci)]
      simp [PState.pushItem, litItems]
    · have hm' : isMeta c = false := by simpa using hm
      simp only [escape, hm', Bool.false_eq_true, if_false]
      rw [parseLoop_plain _ _ _ _ hm' hci, ih _ (by simpa [PState.pushItem] using hci)]
      simp [PState.pushItem, litItems]

theorem length_le_escape (lit : Str) : lit.length ≤ (escape lit).length := by
  induction lit with
  | nil => simp [escape]
  | cons c t ih => simp only [escape]; split <;> simp <;> omega

theorem mkConcat_ast (xs : List Item) : (mkConcat xs).ast = foldCat xs := by
  match xs with
  | [] => rfl
  | [x] => rfl
  | x :: y :: r => rfl

theorem maxIdx_litAst (lit : Str) : maxIdx (litAst lit) = 0 := by
  induction lit with
  | nil => rfl
  | cons c t ih =>
    cases t with
    | nil => rfl
    | cons c2 t2 =>
      have hcat : litAst (c :: c2 :: t2) = .cat (.chr c) (litAst (c2 :: t2)) := by
        simp [litAst, litItems, foldCat, Item.leaf]
      rw [hcat]; simp [maxIdx, ih]

/-- a compiled escaped literal is the chain of its chars, without groups -/
theorem compile_escape (lit : Str) (re : Compiled) (hc : compile (escape lit) = .ok re) : re = litRe lit := by
  have hparse : parseLoop ((escape lit).length + 1) {} (escape lit) = .ok { cat := (litItems lit).reverse } := by
    have hle := length_le_escape lit
    rw [show (escape lit).length + 1 = lit.length + ((escape lit).length - lit.length + 1) by omega]
    rw [parseLoop_escape lit _ {} rfl]
    simp [parseLoop]
  simp only [compile, compileP, hparse] at hc
  have hitem : (PState.levelItem { cat := (litItems lit).reverse }).ast = litAst lit := by
    simp [PState.levelItem, mkAlt, mkConcat_ast, litAst]
  split at hc
  · rename_i re' hre
    cases hc
    split at hre
    · cases hre
    · split at hre
      · cases hre
      · split at hre
        · cases hre
        · cases hre
          simp [litRe, hitem, maxIdx_litAst]
  · cases hc
  · cases hc

end Slac.RegexEngine
