/-
  SlacProofs.ScannerLoop — the token loop: fuel independence, totality, and the layout theorem
  (separators between lexemes are invisible; lexemes are read back as their tokens).
-/
import SlacProofs.ScannerToken
set_option autoImplicit false
namespace Slac
namespace Scanner
variable {N : Type} [NumOps N]

theorem scanLoop_succ (cc : CharClass) (n : Nat) (src : Str) :
    scanLoop (N := N) cc (n + 1) src =
      match skipWs .code src with
      | [] => .ok []
      | c :: cs =>
        match nextToken (N := N) cc c cs with
        | .error e => .err e
        | .ok (t, rest) =>
          match scanLoop cc n rest with
          | .ok ts => .ok (t :: ts)
          | o => o := by
  rfl

/-- any fuel above the length of the text gives the same result -/
theorem scanLoop_fuel (cc : CharClass) (n m : Nat) (src : Str) (hn : src.length < n) (hm : src.length < m) :
    scanLoop (N := N) cc n src = scanLoop cc m src := by
  induction n generalizing m src with
  | zero => omega
  | succ n ih =>
    cases m with
    | zero => omega
    | succ m =>
      rw [scanLoop_succ, scanLoop_succ]
      have hl := skipWs_length .code src
      cases hsk : skipWs .code src with
      | nil => rfl
      | cons c cs =>
        simp only
        cases hnt : nextToken (N := N) cc c cs with
        | error e => rfl
        | ok p =>
          obtain ⟨t, rest⟩ := p
          have h1 := nextToken_length cc c cs t rest hnt
          rw [hsk] at hl; simp only [List.length_cons] at hl
          simp only
          rw [ih m rest (by omega) (by omega)]

/-- the loop equation of `scanAll`, free of fuel -/
theorem scanAll_eq (cc : CharClass) (src : Str) :
    scanAll (N := N) cc src =
      match skipWs .code src with
      | [] => .ok []
      | c :: cs =>
        match nextToken (N := N) cc c cs with
        | .error e => .err e
        | .ok (t, rest) =>
          match scanAll cc rest with
          | .ok ts => .ok (t :: ts)
          | o => o := by
  unfold scanAll
  rw [scanLoop_succ]
  have hl := skipWs_length .code src
  cases hsk : skipWs .code src with
  | nil => rfl
  | cons c cs =>
    simp only
    cases hnt : nextToken (N := N) cc c cs with
    | error e => rfl
    | ok p =>
      obtain ⟨t, rest⟩ := p
      have h1 := nextToken_length cc c cs t rest hnt
      rw [hsk] at hl; simp only [List.length_cons] at hl
      simp only
      rw [scanLoop_fuel cc src.length (rest.length + 1) rest (by omega) (by omega)]

/-- with enough fuel the loop ends with tokens or an error value -/
theorem scanLoop_total (cc : CharClass) (n : Nat) (src : Str) (hn : src.length < n) :
    (∃ ts, scanLoop (N := N) cc n src = .ok ts) ∨ (∃ e, scanLoop (N := N) cc n src = .err e) := by
  induction n generalizing src with
  | zero => omega
  | succ n ih =>
    rw [scanLoop_succ]
    have hl := skipWs_length .code src
    cases hsk : skipWs .code src with
    | nil => exact .inl ⟨[], rfl⟩
    | cons c cs =>
      simp only
      cases hnt : nextToken (N := N) cc c cs with
      | error e => exact .inr ⟨e, rfl⟩
      | ok p =>
        obtain ⟨t, rest⟩ := p
        have h1 := nextToken_length cc c cs t rest hnt
        rw [hsk] at hl; simp only [List.length_cons] at hl
        simp only
        rcases ih rest (by omega) with ⟨ts, h⟩ | ⟨e, h⟩
        · rw [h]; exact .inl ⟨t :: ts, rfl⟩
        · rw [h]; exact .inr ⟨e, rfl⟩

theorem scan_total (cc : CharClass) (src : Str) :
    (∃ ts, scan (N := N) cc src = .ok ts) ∨ (∃ e, scan (N := N) cc src = .err e) := by
  unfold scan scanAll
  rcases scanLoop_total (N := N) cc (src.length + 1) src (Nat.lt_succ_self _) with ⟨ts, h⟩ | ⟨e, h⟩
  · rw [h]
    cases ts with
    | nil => exact .inr ⟨.eof, rfl⟩
    | cons t r => exact .inl ⟨t :: r, rfl⟩
  · rw [h]; exact .inr ⟨e, rfl⟩

/-! ### the two steps of the loop -/

/-- (a) a separator at a token boundary is invisible -/
theorem scanAll_sep (cc : CharClass) {s : Str} (hs : IsSep s) (rest : Str) :
    scanAll (N := N) cc (s ++ rest) = scanAll cc rest := by
  rw [scanAll_eq, scanAll_eq cc rest, skipWs_sep hs]

theorem scan_sep (cc : CharClass) {s : Str} (hs : IsSep s) (rest : Str) :
    scan (N := N) cc (s ++ rest) = scan cc rest := by
  unfold scan; rw [scanAll_sep cc hs]

/-- (b) one token is read and the loop goes on with what is left -/
theorem scanAll_token (cc : CharClass) {src rest : Str} {t : Token N} (h : ReadsAs cc src t rest) :
    scanAll (N := N) cc src = match scanAll cc rest with
      | .ok ts => .ok (t :: ts)
      | o => o := by
  obtain ⟨c, cs, he, hsk, hnt⟩ := h
  rw [scanAll_eq, he, hsk]
  simp only [hnt]

/-- nothing but separators (and possibly an open comment at the end): no tokens -/
theorem scanAll_trail (cc : CharClass) {t : Str} (ht : IsTrail t) : scanAll (N := N) cc t = .ok [] := by
  rw [scanAll_eq, skipWs_trail ht]

/-! ### layout -/

/-- a token, one of its spellings, and the separator that follows it -/
structure Item (N : Type) where
  tok : Token N
  text : Str
  sep : Str

/-- the source text: each lexeme followed by its separator, then the trailing text -/
def render : List (Item N) → Str → Str
  | [], trail => trail
  | i :: r, trail => i.text ++ (i.sep ++ render r trail)

/-- every lexeme is followed by something that does not continue it -/
def Joinable (cc : CharClass) : List (Item N) → Str → Prop
  | [], _ => True
  | i :: r, trail => NoCont cc i.tok i.text (i.sep ++ render r trail) ∧ Joinable cc r trail

theorem scanAll_layout {cc : CharClass} (hcc : cc.AsciiOk) (items : List (Item N)) (s0 trail : Str)
    (hs0 : IsSep s0) (hitems : ∀ i ∈ items, Lexeme cc i.tok i.text ∧ IsSep i.sep)
    (hjoin : Joinable cc items trail) (htrail : IsTrail trail) :
    scanAll cc (s0 ++ render items trail) = .ok (items.map (·.tok)) := by
  induction items generalizing s0 with
  | nil =>
    rw [scanAll_sep cc hs0]
    exact scanAll_trail cc htrail
  | cons i r ih =>
    obtain ⟨hnc, hj⟩ := hjoin
    have hi := hitems i (by simp)
    rw [scanAll_sep cc hs0, render, scanAll_token cc (lexeme_reads hcc _ hi.1 hnc)]
    rw [ih i.sep hi.2 (fun j hj' => hitems j (by simp [hj'])) hj]
    rfl

/-- the layout theorem for `scan` -/
theorem scan_layout {cc : CharClass} (hcc : cc.AsciiOk) (items : List (Item N)) (s0 trail : Str)
    (hne : items ≠ []) (hs0 : IsSep s0) (hitems : ∀ i ∈ items, Lexeme cc i.tok i.text ∧ IsSep i.sep)
    (hjoin : Joinable cc items trail) (htrail : IsTrail trail) :
    scan cc (s0 ++ render items trail) = .ok (items.map (·.tok)) := by
  unfold scan
  rw [scanAll_layout hcc items s0 trail hs0 hitems hjoin htrail]
  cases items with
  | nil => exact absurd rfl hne
  | cons i r => rfl

end Scanner
end Slac
