/-
  SlacProofs.RegexEngineFuel — the fuel arguments of the matcher's unbounded loop and of the `find_iter` iteration
  are sufficient: more fuel never changes the result.
-/
import SlacProofs.RegexEngineSound
set_option autoImplicit false
namespace Slac.RegexEngine

theorem orElse_none_right {α : Type} (a : Option α) : (a.orElse fun _ => none) = a := by cases a <;> rfl

/-- a sound matcher fails when its continuation always fails -/
theorem SoundM.strict {body : M} {R : Cur → Cur → Prop} (hb : SoundM body R) (cur : Cur) (caps : Caps) :
    body cur caps (fun _ _ => none) = none := by
  cases h : body cur caps (fun _ _ => none) with
  | none => rfl
  | some r => obtain ⟨_, _, _, hk⟩ := hb _ _ _ _ h; cases hk

/-- `repStar`: any fuel of at least the remaining length gives the same result -/
theorem repStar_fuel (body : M) (R : Cur → Cur → Prop) (hb : SoundM body R) (g : Bool) (k : K) :
    ∀ (n : Nat) (cur : Cur) (caps : Caps) (f1 f2 : Nat), cur.rest.length = n → n ≤ f1 → n ≤ f2 →
      repStar body g f1 cur caps k = repStar body g f2 cur caps k := by
  intro n
  induction n using Nat.strongRecOn with
  | _ n ih =>
    intro cur caps f1 f2 hn h1 h2
    -- the continuation of one more iteration does not depend on the fuel
    have hcont : ∀ a b : Nat, n ≤ a + 1 → n ≤ b + 1 →
        (fun (c' : Cur) (caps' : Caps) => if c'.rest.length < cur.rest.length then repStar body g a c' caps' k else none) =
        (fun (c' : Cur) (caps' : Caps) => if c'.rest.length < cur.rest.length then repStar body g b c' caps' k else none) := by
      intro a b ha hb'
      funext c' caps'
      split
      · rename_i hlt
        exact ih c'.rest.length (by omega) c' caps' a b rfl (by omega) (by omega)
      · rfl
    -- fuel 0 (only possible at the end of the text) against positive fuel
    have hzero : ∀ b : Nat, n = 0 → repStar body g 0 cur caps k = repStar body g (b + 1) cur caps k := by
      intro b hz
      have hnone : (fun (c' : Cur) (caps' : Caps) =>
          if c'.rest.length < cur.rest.length then repStar body g b c' caps' k else none) = fun _ _ => none := by
        funext c' caps'; rw [hn, hz]; simp
      cases g with
      | true => simp only [repStar, hnone, hb.strict, if_true]; rfl
      | false => simp only [repStar, hnone, hb.strict, Bool.false_eq_true, if_false]; exact (orElse_none_right _).symm
    cases f1 with
    | zero =>
      cases f2 with
      | zero => rfl
      | succ b => exact hzero b (by omega)
    | succ a =>
      cases f2 with
      | zero => exact (hzero a (by omega)).symm
      | succ b => simp only [repStar, hcont a b h1 h2]

/-- the fuel `m` gives its loops is sufficient: with any larger fuel the loop computes the same -/
theorem m_star_fuel (x : Ast) (g : Bool) (cur : Cur) (caps : Caps) (k : K) (extra : Nat) :
    repStar (m x) g (cur.rest.length + extra) cur caps k = repStar (m x) g cur.rest.length cur caps k :=
  repStar_fuel (m x) _ (m_sound x) g k _ cur caps _ _ rfl (by omega) (Nat.le_refl _)

/-! ### the `find_iter` iteration -/

theorem At.rest_length {h : Str} {c : Cur} (hc : At h c) : c.rest.length = h.length - c.i := by
  obtain ⟨pre, hh, hi, _⟩ := hc
  rw [hh, hi, List.length_append]; omega

/-- states behind a reported match (`last` is the current position): every further step makes progress -/
theorem findIterAux_fuel_last (re : Compiled) (h : Str) :
    ∀ (n : Nat) (cur : Cur) (f1 f2 : Nat), At h cur → h.length - cur.i = n → n + 1 ≤ f1 → n + 1 ≤ f2 →
      findIterAux re f1 cur (some cur.i) = findIterAux re f2 cur (some cur.i) := by
  intro n
  induction n using Nat.strongRecOn with
  | _ n ih =>
    intro cur f1 f2 hc hn h1 h2
    obtain ⟨a, rfl⟩ : ∃ a, f1 = a + 1 := ⟨f1 - 1, by omega⟩
    obtain ⟨b, rfl⟩ : ∃ b, f2 = b + 1 := ⟨f2 - 1, by omega⟩
    simp only [findIterAux]
    cases hs : search re cur with
    | none => rfl
    | some x =>
      have gx := search_sound re h cur x hc hs
      have hxle := gx.le
      simp only
      by_cases hskip : (x.isEmptyMatch && some cur.i == some x.e.i) = true
      · simp only [hskip, if_true]
        cases hr : cur.rest with
        | nil => rfl
        | cons c t =>
          simp only
          have hc' : At h (cur.adv c t) := hc.reach (Reach.adv cur c t hr)
          have hlen := hc.rest_length
          rw [hr] at hlen
          simp only [List.length_cons] at hlen
          cases hs' : search re (cur.adv c t) with
          | none => rfl
          | some y =>
            have gy := search_sound re h _ y hc' hs'
            have hyle : cur.i + 1 ≤ y.s ∧ y.s ≤ y.e.i ∧ y.e.i ≤ h.length := gy.le
            simp only
            congr 1
            exact ih (h.length - y.e.i) (by omega) y.e a b gy.at_end rfl (by omega) (by omega)
      · simp only [hskip]
        simp only [Bool.false_eq_true, if_false]
        congr 1
        have hprog : cur.i < x.e.i := by
          apply Nat.lt_of_le_of_ne (by omega)
          intro he
          apply hskip
          simp only [Mt.isEmptyMatch, Bool.and_eq_true, decide_eq_true_eq, beq_iff_eq, Option.some.injEq]
          omega
        have hcl := hc.le_length
        exact ih (h.length - x.e.i) (by omega) x.e a b gx.at_end rfl (by omega) (by omega)

/-- the fuel of `allMatches` is sufficient: any larger fuel gives the same list of matches -/
theorem findIterAux_fuel (re : Compiled) (h : Str) (cur : Cur) (last : Option Nat) (f1 f2 : Nat) (hc : At h cur)
    (h1 : h.length - cur.i + 2 ≤ f1) (h2 : h.length - cur.i + 2 ≤ f2) :
    findIterAux re f1 cur last = findIterAux re f2 cur last := by
  obtain ⟨a, rfl⟩ : ∃ a, f1 = a + 1 := ⟨f1 - 1, by omega⟩
  obtain ⟨b, rfl⟩ : ∃ b, f2 = b + 1 := ⟨f2 - 1, by omega⟩
  simp only [findIterAux]
  cases hs : search re cur with
  | none => rfl
  | some x =>
    have gx := search_sound re h cur x hc hs
    have hxle := gx.le
    simp only
    split
    · cases hr : cur.rest with
      | nil => rfl
      | cons c t =>
        simp only
        have hc' : At h (cur.adv c t) := hc.reach (Reach.adv cur c t hr)
        cases hs' : search re (cur.adv c t) with
        | none => rfl
        | some y =>
          have gy := search_sound re h _ y hc' hs'
          have hyle : cur.i + 1 ≤ y.s ∧ y.s ≤ y.e.i ∧ y.e.i ≤ h.length := gy.le
          simp only
          congr 1
          exact findIterAux_fuel_last re h _ y.e a b gy.at_end rfl (by omega) (by omega)
    · congr 1
      exact findIterAux_fuel_last re h _ x.e a b gx.at_end rfl (by omega) (by omega)

theorem allMatches_fuel (re : Compiled) (h : Str) (extra : Nat) :
    findIterAux re (h.length + 2 + extra) (cur0 h) none = allMatches re h :=
  findIterAux_fuel re h _ _ _ _ (At.cur0 h) (by simp [cur0]) (by simp [cur0])

end Slac.RegexEngine
