/-
  SlacProofs.F64SemOps — IEEE equality/ordering of the driver's doubles from the definitions in SlacModel.Num, and the
  special cases of core's division that `div` needs:
  * `beq_ieee`: `F64.beq` is IEEE `==` — false if either side is NaN, true on two zeros of any sign, otherwise
    equality of the bit patterns;  `beq_nan`, `beq_zeros`, `beq_self`;
  * `pcmp_def`, `pcmp_nan`: `F64.pcmp` is `none` exactly when a side is NaN, else the order of the sign-magnitude keys;
    `unitsN_mono` / `pcmp_units`: on finite doubles that order IS the order of the values (`units`);
  * `float_div_def`, `div_by_zero`, `zero_div_zero`, `nan_div`: x / ±0 = ±inf (sign = xor of the signs) for x ≠ 0, NaN;
    0 / 0 = NaN;  NaN / y = NaN;  `signBit_div`: the sign of every non-NaN quotient is the xor of the operand signs;
  * `trunc_of_big`: `trunc` is the identity on ±inf and NaN.
-/
import SlacProofs.F64Sem
import SlacProofs.F64Sci
set_option autoImplicit false
namespace Slac
namespace F64
open Float.Model Float.Model.UnpackedFloat

/-! ### IEEE `==` -/

theorem keyN_eq_iff (a b : Nat) (ha : a < 2^64) (hb : b < 2^64) :
    keyN a = keyN b ↔ (magN a = 0 ∧ magN b = 0) ∨ a = b := by
  unfold keyN negN magN
  by_cases h1 : a / 2^63 % 2 = 1 <;> by_cases h2 : b / 2^63 % 2 = 1 <;>
    simp only [h1, h2, decide_true, decide_false, if_true, Bool.false_eq_true, if_false] <;> omega

/-- `F64.beq` is IEEE `==`: NaN is unequal to everything, the two zeros are equal, otherwise the patterns decide -/
theorem beq_ieee (a b : Float) :
    beq a b = if isNaN a || isNaN b then false
              else if isZero a && isZero b then true else decide (bits a = bits b) := by
  unfold beq beqN isNaN isZero
  by_cases hn : (isNaNN (bits a) || isNaNN (bits b)) = true
  · rw [hn, if_pos rfl]; rfl
  · have hn' : (isNaNN (bits a) || isNaNN (bits b)) = false := by
      cases h : (isNaNN (bits a) || isNaNN (bits b)) <;> simp_all
    rw [hn']
    simp only [Bool.not_false, Bool.true_and, Bool.false_eq_true, if_false]
    have := keyN_eq_iff (bits a) (bits b) (bits_lt a) (bits_lt b)
    by_cases hz : magN (bits a) = 0 ∧ magN (bits b) = 0
    · rw [decide_eq_true (this.2 (Or.inl hz)), decide_eq_true hz.1, decide_eq_true hz.2]; rfl
    · have hz' : (decide (magN (bits a) = 0) && decide (magN (bits b) = 0)) = false := by
        rw [Bool.and_eq_false_iff, decide_eq_false_iff_not, decide_eq_false_iff_not]
        by_cases h1 : magN (bits a) = 0
        · exact Or.inr (fun h2 => hz ⟨h1, h2⟩)
        · exact Or.inl h1
      rw [hz']
      simp only [Bool.false_eq_true, if_false]
      rw [Bool.eq_iff_iff, decide_eq_true_eq, decide_eq_true_eq, this]
      constructor
      · rintro (h | h)
        · exact absurd h hz
        · exact h
      · exact Or.inr

theorem beq_nan (a b : Float) (h : isNaN a = true ∨ isNaN b = true) : beq a b = false := by
  rw [beq_ieee]; rcases h with h | h <;> simp [h]

theorem beq_zeros (a b : Float) (ha : isZero a = true) (hb : isZero b = true) : beq a b = true := by
  have hna : isNaN a = false := by
    unfold isZero at ha; unfold isNaN isNaNN; rw [decide_eq_true_eq] at ha; rw [decide_eq_false_iff_not]; omega
  have hnb : isNaN b = false := by
    unfold isZero at hb; unfold isNaN isNaNN; rw [decide_eq_true_eq] at hb; rw [decide_eq_false_iff_not]; omega
  rw [beq_ieee, hna, hnb, ha, hb]; rfl

/-- away from NaN and the zeros, `==` is equality of doubles -/
theorem beq_iff_eq (a b : Float) (hna : isNaN a = false) (hnb : isNaN b = false)
    (hz : isZero a = false ∨ isZero b = false) : beq a b = true ↔ a = b := by
  rw [beq_ieee, hna, hnb]
  have : (isZero a && isZero b) = false := by rcases hz with h | h <;> simp [h]
  rw [this]
  simp only [Bool.or_self, Bool.false_eq_true, if_false, decide_eq_true_eq]
  exact ⟨eq_of_bits_eq, fun h => by rw [h]⟩

theorem beq_self (a : Float) : beq a a = !isNaN a := by
  rw [beq_ieee]; cases isNaN a <;> cases isZero a <;> simp

/-! ### IEEE partial order -/

theorem pcmp_def (a b : Float) :
    pcmp a b = if isNaN a || isNaN b then none else some (cmpInt (keyN (bits a)) (keyN (bits b))) := rfl

theorem pcmp_nan (a b : Float) (h : isNaN a = true ∨ isNaN b = true) : pcmp a b = none := by
  rw [pcmp_def]; rcases h with h | h <;> simp [h]

theorem pcmp_some (a b : Float) (ha : isNaN a = false) (hb : isNaN b = false) :
    pcmp a b = some (cmpInt (keyN (bits a)) (keyN (bits b))) := by
  rw [pcmp_def, ha, hb]; rfl

/-- magnitude in units as a function of the magnitude bits -/
def unitsOfMag (g : Nat) : Nat := if g / 2^52 = 0 then g % 2^52 else (g % 2^52 + 2^52) * 2^(g / 2^52 - 1)

theorem unitsN_eq_mag (x : Float) : unitsN x = unitsOfMag (magN (bits x)) := by
  have hb := bits_lt x
  unfold unitsN decode unitsOfMag
  simp only [expBits_eq, fracBits_eq]
  have hE : bits x / 2^52 % 2^11 = magN (bits x) / 2^52 := by unfold magN; omega
  have hM : bits x % 2^52 = magN (bits x) % 2^52 := by unfold magN; omega
  rw [hE, hM]
  generalize magN (bits x) = g
  by_cases h0 : g / 2^52 = 0
  · have : (g / 2^52 == 0) = true := by rw [h0]; rfl
    simp only [if_true, h0]
    show g % 2^52 * 2^0 = g % 2^52
    omega
  · have : (g / 2^52 == 0) = false := by rw [beq_eq_false_iff_ne]; exact h0
    simp only [this, Bool.false_eq_true, if_false, h0]
    congr 2
    omega

theorem unitsOfMag_lt (g g' : Nat) (h : g < g') : unitsOfMag g < unitsOfMag g' := by
  unfold unitsOfMag
  have hM := Nat.mod_lt g (show 0 < 2^52 by decide)
  have hM' := Nat.mod_lt g' (show 0 < 2^52 by decide)
  have hEle : g / 2^52 ≤ g' / 2^52 := Nat.div_le_div_right (Nat.le_of_lt h)
  by_cases h0 : g / 2^52 = 0
  · rw [if_pos h0]
    by_cases h0' : g' / 2^52 = 0
    · rw [if_pos h0']; omega
    · rw [if_neg h0']
      calc g % 2^52 < 2^52 * 1 := by omega
        _ ≤ 2^52 * 2^(g' / 2^52 - 1) := Nat.mul_le_mul_left _ (Nat.two_pow_pos _)
        _ ≤ (g' % 2^52 + 2^52) * 2^(g' / 2^52 - 1) := Nat.mul_le_mul_right _ (by omega)
  · have h0' : g' / 2^52 ≠ 0 := by omega
    rw [if_neg h0, if_neg h0']
    by_cases hE : g / 2^52 = g' / 2^52
    · rw [hE]; exact Nat.mul_lt_mul_of_pos_right (by omega) (Nat.two_pow_pos _)
    · have hElt : g / 2^52 < g' / 2^52 := by omega
      have hpow : 2^(g / 2^52 - 1) * 2 ≤ 2^(g' / 2^52 - 1) := by
        rw [← Nat.pow_succ]; exact Nat.pow_le_pow_right (by decide) (by omega)
      calc (g % 2^52 + 2^52) * 2^(g / 2^52 - 1) < (2^52 * 2) * 2^(g / 2^52 - 1) :=
            Nat.mul_lt_mul_of_pos_right (by omega) (Nat.two_pow_pos _)
        _ = 2^52 * (2^(g / 2^52 - 1) * 2) := by ac_rfl
        _ ≤ 2^52 * 2^(g' / 2^52 - 1) := Nat.mul_le_mul_left _ hpow
        _ ≤ (g' % 2^52 + 2^52) * 2^(g' / 2^52 - 1) := Nat.mul_le_mul_right _ (by omega)

/-- the magnitude bits order the magnitudes -/
theorem unitsN_mono (x y : Float) :
    (magN (bits x) < magN (bits y) ↔ unitsN x < unitsN y) ∧ (magN (bits x) = magN (bits y) ↔ unitsN x = unitsN y) := by
  rw [unitsN_eq_mag x, unitsN_eq_mag y]
  rcases Nat.lt_trichotomy (magN (bits x)) (magN (bits y)) with h | h | h
  · have := unitsOfMag_lt _ _ h; constructor <;> constructor <;> intro h' <;> omega
  · rw [h]; constructor <;> constructor <;> intro h' <;> omega
  · have := unitsOfMag_lt _ _ h; constructor <;> constructor <;> intro h' <;> omega

theorem unitsOfMag_zero (g : Nat) : unitsOfMag g = 0 ↔ g = 0 := by
  constructor
  · intro h
    rcases Nat.eq_zero_or_pos g with h0 | h0
    · exact h0
    · have := unitsOfMag_lt 0 g h0
      have : unitsOfMag 0 = 0 := by decide
      omega
  · intro h; rw [h]; decide

/-- **ordering of finite doubles is the ordering of their values** -/
theorem pcmp_units (x y : Float) (hx : isFinite x = true) (hy : isFinite y = true) :
    pcmp x y = some (cmpInt (units x) (units y)) := by
  rw [pcmp_some x y (fin_not_nan x hx).1 (fin_not_nan y hy).1]
  congr 1
  have hbx := bits_lt x; have hby := bits_lt y
  obtain ⟨m1, m2⟩ := unitsN_mono x y
  have z1 := unitsOfMag_zero (magN (bits x))
  have z2 := unitsOfMag_zero (magN (bits y))
  rw [← unitsN_eq_mag x] at z1
  rw [← unitsN_eq_mag y] at z2
  obtain ⟨m3, _⟩ := unitsN_mono y x
  unfold units keyN
  rw [signBit_eq, signBit_eq, negN_eq _ hbx, negN_eq _ hby]
  unfold cmpInt
  by_cases h1 : bits x / 2^63 = 1 <;> by_cases h2 : bits y / 2^63 = 1 <;>
    simp only [h1, h2, decide_true, decide_false, if_true, Bool.false_eq_true, if_false] <;>
    (repeat' split) <;> first | rfl | omega

/-! ### division: the cases with a zero divisor, and the sign rule -/

theorem float_div_def (x y : Float) :
    x / y = Float.ofModel (Float.Model.pack (UnpackedFloat.div B64 x.toModel.unpack y.toModel.unpack)) := rfl

theorem signN_eq (x : Float) : signN (bits x) = signOf (signBit x) := by
  have hb := bits_lt x
  rw [signBit_eq]; unfold signN signOf
  by_cases h : bits x / 2^63 = 1
  · rw [if_pos (by omega), decide_eq_true h]; rfl
  · rw [if_neg (by omega), decide_eq_false h]; rfl

theorem unpack_of_isZero (x : Float) (h : isZero x = true) : x.toModel.unpack = .zero (signOf (signBit x)) := by
  have hb := bits_lt x
  unfold isZero magN at h; rw [decide_eq_true_eq] at h
  rw [unpack_bits, unpackN_zero _ (by omega) (by omega), signN_eq]

theorem unpack_of_isNaN (x : Float) (h : isNaN x = true) : x.toModel.unpack = .notANumber := by
  have hb := bits_lt x
  unfold isNaN isNaNN magN at h; rw [decide_eq_true_eq] at h
  rw [unpack_bits, unpackN_nan _ (by omega) (by omega)]

/-- a double that is neither NaN nor zero unpacks to an infinity or a finite value with its sign -/
theorem unpack_of_nonzero (x : Float) (hn : isNaN x = false) (hz : isZero x = false) :
    x.toModel.unpack = .infinity (signOf (signBit x)) ∨
    ∃ m e hm, x.toModel.unpack = .finite (signOf (signBit x)) m e hm := by
  have hb := bits_lt x
  unfold isNaN isNaNN magN at hn; rw [decide_eq_false_iff_not] at hn
  unfold isZero magN at hz; rw [decide_eq_false_iff_not] at hz
  rw [unpack_bits, ← signN_eq]
  by_cases hE : bits x / 2^52 % 2^11 = 2047
  · left; rw [unpackN_inf _ hE (by omega)]
  · right
    by_cases hE0 : bits x / 2^52 % 2^11 = 0
    · exact ⟨_, _, _, unpackN_subnormal _ hE0 (by omega)⟩
    · exact ⟨_, _, _, unpackN_normal _ hE hE0⟩

theorem sign_div_signOf (a b : Bool) : signOf a / signOf b = signOf (a != b) := by cases a <;> cases b <;> rfl

theorem bits_pack_inf (s : Sign) : bits (Float.ofModel (Float.Model.pack (.infinity s))) = sbit s * 2^63 + 0x7FF0000000000000 := by
  rw [bits_ofModel_pack]; rfl

/-- x / ±0 for x ≠ 0, x not NaN (finite or infinite): the infinity whose sign is the xor of the two signs -/
theorem div_by_zero (a b : Float) (hn : isNaN a = false) (hz : isZero a = false) (hb : isZero b = true) :
    a / b = ofParts (signBit a != signBit b) 0x7FF0000000000000 := by
  apply eq_of_bits_eq
  rw [float_div_def, unpack_of_isZero b hb, bits_ofParts _ _ (by decide)]
  rcases unpack_of_nonzero a hn hz with h | ⟨m, e, hm, h⟩ <;> rw [h]
  · show bits (Float.ofModel (Float.Model.pack (.infinity (signOf (signBit a) / signOf (signBit b))))) = _
    rw [sign_div_signOf, bits_pack_inf, sbit_signOf]
    cases (signBit a != signBit b) <;> simp
  · show bits (Float.ofModel (Float.Model.pack (.infinity (signOf (signBit a) / signOf (signBit b))))) = _
    rw [sign_div_signOf, bits_pack_inf, sbit_signOf]
    cases (signBit a != signBit b) <;> simp

theorem nan_eq : nan = Float.ofModel (Float.Model.pack .notANumber) := by
  apply eq_of_bits_eq; rw [bits_ofModel_pack]; decide +kernel

/-- 0 / 0 = NaN -/
theorem zero_div_zero (a b : Float) (ha : isZero a = true) (hb : isZero b = true) : a / b = nan := by
  rw [float_div_def, unpack_of_isZero a ha, unpack_of_isZero b hb, nan_eq]; rfl

/-- NaN / y = NaN, x / NaN = NaN -/
theorem nan_div (a b : Float) (h : isNaN a = true ∨ isNaN b = true) : a / b = nan := by
  rw [float_div_def, nan_eq]
  rcases h with h | h
  · rw [unpack_of_isNaN a h]; rfl
  · rw [unpack_of_isNaN b h]
    cases a.toModel.unpack <;> rfl

/-- `trunc` does not touch ±inf and NaN (and everything ≥ 2^52) -/
theorem trunc_of_big (x : Float) (h : 0x4330000000000000 ≤ magN (bits x)) : trunc x = x := by
  have hb := bits_lt x
  unfold trunc; simp only []; rw [if_pos (by rw [expBits_eq]; unfold magN at h; omega)]

theorem nan_facts : isNaN nan = true ∧ bits nan = 0x7FF8000000000000 ∧ trunc nan = nan := by decide +kernel

theorem bits_inf_of (neg : Bool) : bits (ofParts neg 0x7FF0000000000000) = 0x7FF0000000000000 + (if neg then 2^63 else 0) :=
  bits_ofParts neg _ (by decide)

theorem isInf_ofParts (neg : Bool) : isInf (ofParts neg 0x7FF0000000000000) = true ∧
    signBit (ofParts neg 0x7FF0000000000000) = neg ∧
    trunc (ofParts neg 0x7FF0000000000000) = ofParts neg 0x7FF0000000000000 := by
  cases neg <;> decide +kernel

/-! ### the sign of a quotient -/

theorem packN_sign (f : UnpackedFloat) (s : Sign)
    (h : f = .infinity s ∨ f = .zero s ∨ ∃ m e hm, f = .finite s m e hm) : packN f / 2^63 = sbit s := by
  have hs := sbit_le s
  rcases h with rfl | rfl | ⟨m, e, hm, rfl⟩
  · simp only [packN]; omega
  · simp only [packN]; omega
  · simp only [packN]
    have := Nat.mod_lt m (show 0 < 2^52 by decide)
    split
    · omega
    · split <;> omega

theorem rwaFrac_sign (s : Sign) (A B : Nat) (e : Int) (hB : 0 < B) :
    rwaFrac s A B e = .zero s ∨ ∃ m e' hm, rwaFrac s A B e = .finite s m e' hm := by
  rw [rwaFrac_eq s A B e hB]
  simp only []
  split
  · exact Or.inl rfl
  · rename_i h; exact Or.inr ⟨_, _, Nat.pos_of_ne_zero h, rfl⟩

/-- IEEE sign rule: a quotient that is not NaN has the xor of the operand signs as its sign bit
    (finite, zero and infinite results alike) -/
theorem signBit_div (a b : Float) (ha : isNaN a = false) (hb : isNaN b = false) (hq : isNaN (a / b) = false) :
    signBit (a / b) = (signBit a != signBit b) := by
  have hsd := sign_div_signOf (signBit a) (signBit b)
  have key : ∀ f : UnpackedFloat, a / b = Float.ofModel (Float.Model.pack f) →
      (f = .infinity (signOf (signBit a) / signOf (signBit b)) ∨ f = .zero (signOf (signBit a) / signOf (signBit b)) ∨
        ∃ m e hm, f = .finite (signOf (signBit a) / signOf (signBit b)) m e hm) →
      signBit (a / b) = (signBit a != signBit b) := by
    intro f hf hcase
    have := packN_sign f _ hcase
    rw [signBit_eq, hf, bits_ofModel_pack, this, hsd, sbit_signOf]
    cases (signBit a != signBit b) <;> simp
  by_cases hza : isZero a = true
  · by_cases hzb : isZero b = true
    · rw [zero_div_zero a b hza hzb, nan_facts.1] at hq; cases hq
    · have hzb' : isZero b = false := by cases h : isZero b <;> simp_all
      rcases unpack_of_nonzero b hb hzb' with h | ⟨m, e, hm, h⟩
      · exact key _ (by rw [float_div_def, unpack_of_isZero a hza, h]; rfl) (Or.inr (Or.inl rfl))
      · exact key _ (by rw [float_div_def, unpack_of_isZero a hza, h]; rfl) (Or.inr (Or.inl rfl))
  · have hza' : isZero a = false := by cases h : isZero a <;> simp_all
    by_cases hzb : isZero b = true
    · rw [div_by_zero a b ha hza' hzb]; exact (isInf_ofParts _).2.1
    · have hzb' : isZero b = false := by cases h : isZero b <;> simp_all
      rcases unpack_of_nonzero a ha hza' with h1 | ⟨m1, e1, hm1, h1⟩ <;>
        rcases unpack_of_nonzero b hb hzb' with h2 | ⟨m2, e2, hm2, h2⟩
      · rw [float_div_def, h1, h2] at hq
        have : isNaN (Float.ofModel (Float.Model.pack (UnpackedFloat.div B64 (.infinity (signOf (signBit a)))
            (.infinity (signOf (signBit b)))))) = true := by
          show isNaN (Float.ofModel (Float.Model.pack .notANumber)) = true
          rw [← nan_eq]; exact nan_facts.1
        rw [this] at hq; cases hq
      · exact key _ (by rw [float_div_def, h1, h2]; rfl) (Or.inl rfl)
      · exact key _ (by rw [float_div_def, h1, h2]; rfl) (Or.inr (Or.inl rfl))
      · refine key _ (by rw [float_div_def, h1, h2, div_finite]) ?_
        rcases rwaFrac_sign (signOf (signBit a) / signOf (signBit b)) (m1 * 2^(e1 - e2 - teDiv m1 e1 m2 e2).toNat) m2
          (teDiv m1 e1 m2 e2) hm2 with h | h
        · exact Or.inr (Or.inl h)
        · exact Or.inr (Or.inr h)

end F64
end Slac
