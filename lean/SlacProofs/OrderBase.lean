/-
  SlacProofs.OrderBase — laws of `Value.cmp` / `Value.eq` that hold for ALL values (C13, part A):
  orientation of the component comparators, `cmp_swap`, `Std.OrientedCmp`, `eq_symm`,
  plus the ordering-triple predicate `Tri` used for the transitivity proof on the Safe domain.
-/
import SlacProofs.OrderNum
set_option autoImplicit false
namespace Slac
namespace Order

/-- lexicographic combination of a head ordering with a tail ordering -/
def lex (h t : Ordering) : Ordering := match h with | .eq => t | o => o

/-- `Tri (c a b) (c b c') (c a c')`: what a transitive comparator satisfies on one triple.
    Strong enough to be closed under lexicographic combination in one orientation. -/
def Tri (o1 o2 o3 : Ordering) : Prop :=
  (o1 = .eq → o3 = o2) ∧ (o2 = .eq → o3 = o1) ∧ (o1 = .lt → o2 = .lt → o3 = .lt) ∧ (o1 = .gt → o2 = .gt → o3 = .gt)

instance (o1 o2 o3 : Ordering) : Decidable (Tri o1 o2 o3) := by unfold Tri; infer_instance

theorem Tri.lex {h1 h2 h3 t1 t2 t3 : Ordering} (hh : Tri h1 h2 h3) (ht : Tri t1 t2 t3) :
    Tri (lex h1 t1) (lex h2 t2) (lex h3 t3) := by
  unfold Tri at *
  cases h1 <;> cases h2 <;> cases h3 <;> simp_all [Order.lex]

theorem Tri.le_trans {o1 o2 o3 : Ordering} (h : Tri o1 o2 o3) (h1 : o1 ≠ .gt) (h2 : o2 ≠ .gt) : o3 ≠ .gt := by
  unfold Tri at h
  cases o1 <;> cases o2 <;> cases o3 <;> simp_all

/-! ### component comparators -/

theorem cmpNat_swap (a b : Nat) : cmpNat b a = (cmpNat a b).swap := by
  unfold cmpNat
  by_cases h1 : a < b <;> by_cases h2 : b < a <;> simp [h1, h2, Ordering.swap]
  omega

theorem cmpNat_tri (a b c : Nat) : Tri (cmpNat a b) (cmpNat b c) (cmpNat a c) := by
  unfold Tri cmpNat
  refine ⟨?_, ?_, ?_, ?_⟩ <;> (repeat' split) <;> simp <;> omega

theorem cmpBool_swap (a b : Bool) : cmpBool b a = (cmpBool a b).swap := by
  cases a <;> cases b <;> rfl

theorem cmpBool_tri (a b c : Bool) : Tri (cmpBool a b) (cmpBool b c) (cmpBool a c) := by
  cases a <;> cases b <;> cases c <;> decide

theorem cmpStr_cons (a : Char) (as : Str) (b : Char) (bs : Str) :
    cmpStr (a :: as) (b :: bs) = lex (cmpNat a.toNat b.toNat) (cmpStr as bs) := by
  simp only [cmpStr, cmpNat]
  (repeat' split) <;> simp_all [lex]

theorem cmpStr_swap (a : Str) : ∀ b, cmpStr b a = (cmpStr a b).swap := by
  induction a with
  | nil => intro b; cases b <;> rfl
  | cons x xs ih =>
    intro b
    cases b with
    | nil => rfl
    | cons y ys =>
      rw [cmpStr_cons, cmpStr_cons, ih ys, cmpNat_swap x.toNat y.toNat]
      cases cmpNat x.toNat y.toNat <;> rfl

theorem cmpStr_tri (a : Str) : ∀ b c, Tri (cmpStr a b) (cmpStr b c) (cmpStr a c) := by
  induction a with
  | nil => intro b c; cases b <;> cases c <;> simp [cmpStr, Tri]
  | cons x xs ih =>
    intro b c
    cases b with
    | nil => cases c <;> simp [cmpStr, Tri]
    | cons y ys =>
      cases c with
      | nil => simp [cmpStr, Tri]
      | cons z zs =>
        rw [cmpStr_cons, cmpStr_cons, cmpStr_cons]
        exact Tri.lex (cmpNat_tri _ _ _) (ih ys zs)

theorem cmpStr_eq_iff (a : Str) : ∀ b, cmpStr a b = .eq ↔ a = b := by
  induction a with
  | nil => intro b; cases b <;> simp [cmpStr]
  | cons x xs ih =>
    intro b
    cases b with
    | nil => simp [cmpStr]
    | cons y ys =>
      rw [cmpStr_cons]
      have hc : x = y ↔ x.toNat = y.toNat := by
        constructor
        · intro h; rw [h]
        · intro h; exact Char.ext (UInt32.toNat_inj.mp h)
      unfold cmpNat lex
      by_cases h1 : x.toNat < y.toNat
      · have : x.toNat ≠ y.toNat := by omega
        simp [h1, hc, this]
      · by_cases h2 : y.toNat < x.toNat
        · have : x.toNat ≠ y.toNat := by omega
          simp [h1, h2, hc, this]
        · have : x.toNat = y.toNat := by omega
          simp [hc, this, ih ys]

/-! ### `Value.cmp` is oriented on all values -/
section
variable {N : Type} [NumOps N] [LawfulNum N]
open Value

theorem getD_swap (o : Option Ordering) (d : Ordering) :
    ((o.map Ordering.swap).getD d.swap) = (o.getD d).swap := by
  cases o <;> rfl

omit [LawfulNum N] in
theorem cmpList_cons (a : Value N) (as : List (Value N)) (b : Value N) (bs : List (Value N)) :
    cmpList (a :: as) (b :: bs) = lex (cmp a b) (cmpList as bs) := by
  simp only [cmpList, lex]
  cases cmp a b <;> rfl

/-- `cmp b a = (cmp a b).swap` for all values, by mutual induction on the nested structure -/
theorem cmp_swap (a : Value N) : ∀ b, cmp b a = (cmp a b).swap := by
  refine Value.rec (motive_1 := fun a => ∀ b, cmp b a = (cmp a b).swap)
    (motive_2 := fun as => ∀ bs, cmpList bs as = (cmpList as bs).swap) ?_ ?_ ?_ ?_ ?_ ?_ a
  · intro x b; cases b <;> simp only [cmp, ordinal] <;> first | exact cmpBool_swap _ _ | rfl
  · intro s b
    cases b <;> simp only [cmp, ordinal]
    · rfl
    · exact cmpStr_swap _ _
    · cases NumOps.parse (N := N) s with
      | none => rfl
      | some x => simp only; rw [LawfulNum.pcmp_swap]; exact getD_swap _ .lt
    · rfl
  · intro x b
    cases b <;> simp only [cmp, ordinal]
    · rfl
    · rename_i s
      cases NumOps.parse (N := N) s with
      | none => rfl
      | some y => simp only; rw [LawfulNum.pcmp_swap]; exact getD_swap _ .gt
    · rw [LawfulNum.pcmp_swap]; exact getD_swap _ .eq
    · rfl
  · intro xs ih b
    cases b <;> simp only [cmp, ordinal]
    · rfl
    · rfl
    · rfl
    · exact ih _
  · intro bs; cases bs <;> rfl
  · intro x xs ihx ihxs bs
    cases bs with
    | nil => rfl
    | cons b bs =>
      rw [cmpList_cons, cmpList_cons, ihx b, ihxs bs]
      cases cmp x b <;> rfl

theorem cmpList_swap (as bs : List (Value N)) : cmpList bs as = (cmpList as bs).swap := by
  have h := cmp_swap (.arr as) (.arr bs)
  simpa only [cmp] using h

instance : Std.OrientedCmp (Value.cmp (N := N)) where
  eq_swap := cmp_swap _ _

theorem cmp_self (a : Value N) : cmp a a = .eq := by
  have h := cmp_swap a a
  cases hc : cmp a a <;> rw [hc] at h <;> simp [Ordering.swap] at h

/-- `PartialEq::eq` is symmetric on all values -/
theorem eq_symm (a : Value N) : ∀ b, Value.eq a b = Value.eq b a := by
  refine Value.rec (motive_1 := fun a => ∀ b, Value.eq a b = Value.eq b a)
    (motive_2 := fun as => ∀ bs, eqList as bs = eqList bs as) ?_ ?_ ?_ ?_ ?_ ?_ a
  · intro x b
    cases b <;> simp only [Value.eq]
    · exact Bool.beq_comm
    · rw [cmp_swap]; cases cmp (N := N) (.str _) (.bool x) <;> rfl
    · exact LawfulNum.beq_symm _ _
    · rw [cmp_swap]; cases cmp (N := N) (.arr _) (.bool x) <;> rfl
  · intro s b
    cases b <;> simp only [Value.eq]
    · rw [cmp_swap]; cases cmp (N := N) (.bool _) (.str s) <;> rfl
    · exact Bool.beq_comm
    · rw [cmp_swap]; cases cmp (N := N) (.num _) (.str s) <;> rfl
    · rw [cmp_swap]; cases cmp (N := N) (.arr _) (.str s) <;> rfl
  · intro x b
    cases b <;> simp only [Value.eq]
    · exact LawfulNum.beq_symm _ _
    · rw [cmp_swap]; cases cmp (N := N) (.str _) (.num x) <;> rfl
    · exact LawfulNum.beq_symm _ _
    · rw [cmp_swap]; cases cmp (N := N) (.arr _) (.num x) <;> rfl
  · intro xs ih b
    cases b <;> simp only [Value.eq]
    · rw [cmp_swap]; cases cmp (N := N) (.bool _) (.arr xs) <;> rfl
    · rw [cmp_swap]; cases cmp (N := N) (.str _) (.arr xs) <;> rfl
    · rw [cmp_swap]; cases cmp (N := N) (.num _) (.arr xs) <;> rfl
    · exact ih _
  · intro bs; cases bs <;> rfl
  · intro x xs ihx ihxs bs
    cases bs with
    | nil => rfl
    | cons b bs => simp only [eqList]; rw [ihx b, ihxs bs]

end
end Order
end Slac
