/-
  SlacProofs.ScannerSepDec — executable recognisers for the separator grammar (so that examples are `by decide`):
  `sepB s = true → IsSep s` and `skipWs .code s = [] → IsTrail s`.
-/
import SlacProofs.ScannerSkip
set_option autoImplicit false
namespace Slac
namespace Scanner

/-- the skipping machine consumes all of the text and is between tokens (mode `code`) at its end -/
def endsCode : Mode → Str → Bool
  | .code, [] => true
  | .code, c :: cs =>
    if isWs c then endsCode .code cs
    else if c = '/' then
      match cs with
      | c2 :: cs' => if c2 = '/' then endsCode .line cs' else false
      | [] => false
    else if c = '{' then endsCode (.block 0) cs
    else false
  | .line, [] => false
  | .line, c :: cs => if c = '\n' then endsCode .code cs else endsCode .line cs
  | .block _, [] => false
  | .block d, c :: cs =>
    if c = '{' then endsCode (.block (d+1)) cs
    else if c = '}' then (match d with | 0 => endsCode .code cs | d'+1 => endsCode (.block d') cs)
    else endsCode (.block d) cs

/-- recogniser for `IsSep` -/
def sepB (s : Str) : Bool := endsCode .code s

def EndsSpec : Mode → Str → Prop
  | .code, s => IsSep s
  | .line, s => ∃ body s', s = body ++ '\n' :: s' ∧ (∀ c ∈ body, c ≠ '\n') ∧ IsSep s'
  | .block d, s => ∃ body s', s = body ++ s' ∧ Body d body ∧ IsSep s'

theorem endsCode_sound (m : Mode) (s : Str) (h : endsCode m s = true) : EndsSpec m s := by
  fun_induction endsCode m s with
  | case1 => exact .nil
  | case2 c cs hc ih => exact .ws hc (ih h)
  | case3 cs' _ ih =>
    obtain ⟨body, s', he, hb, hs⟩ := ih h
    subst he
    exact .line hb hs
  | case4 => cases h
  | case5 => cases h
  | case6 cs _ _ ih =>
    obtain ⟨body, s', he, hb, hs⟩ := ih h
    subst he
    exact .block hb hs
  | case7 => cases h
  | case8 => cases h
  | case9 cs ih => exact ⟨[], cs, rfl, by simp, ih h⟩
  | case10 c cs hc ih =>
    obtain ⟨body, s', he, hb, hs⟩ := ih h
    refine ⟨c :: body, s', by rw [he]; rfl, ?_, hs⟩
    intro d hd
    rcases List.mem_cons.mp hd with h1 | h1
    · rw [h1]; exact hc
    · exact hb d h1
  | case11 => cases h
  | case12 d cs ih =>
    obtain ⟨body, s', he, hb, hs⟩ := ih h
    exact ⟨'{' :: body, s', by rw [he]; rfl, .open_ hb, hs⟩
  | case13 cs ho ih =>
    exact ⟨['}'], cs, rfl, .close0, ih h⟩
  | case14 cs d' ho ih =>
    obtain ⟨body, s', he, hb, hs⟩ := ih h
    exact ⟨'}' :: body, s', by rw [he]; rfl, .close hb, hs⟩
  | case15 d c cs ho hcl ih =>
    obtain ⟨body, s', he, hb, hs⟩ := ih h
    exact ⟨c :: body, s', by rw [he]; rfl, .other ho hcl hb, hs⟩

theorem sepB_sound {s : Str} (h : sepB s = true) : IsSep s := endsCode_sound .code s h

theorem ends_line_body (body rest : Str) (h : ∀ c ∈ body, c ≠ '\n') :
    endsCode .line (body ++ '\n' :: rest) = endsCode .code rest := by
  induction body with
  | nil => simp [endsCode]
  | cons c cs ih =>
    rw [List.cons_append, endsCode.eq_def]; simp only [if_neg (h c (by simp))]
    exact ih (fun c hc => h c (by simp [hc]))

theorem ends_block_body {d : Nat} {b : Str} (h : Body d b) (rest : Str) :
    endsCode (.block d) (b ++ rest) = endsCode .code rest := by
  induction h with
  | close0 => simp [endsCode]
  | close _ ih =>
    rw [List.cons_append, endsCode.eq_def]
    simp only [show ('}' = '{') = False by decide, if_false, if_true]; exact ih
  | open_ _ ih => rw [List.cons_append, endsCode.eq_def]; simp only [if_true]; exact ih
  | other h1 h2 _ ih => rw [List.cons_append, endsCode.eq_def]; simp only [if_neg h1, if_neg h2]; exact ih

theorem endsCode_sep {s : Str} (hs : IsSep s) (rest : Str) :
    endsCode .code (s ++ rest) = endsCode .code rest := by
  induction hs with
  | nil => rfl
  | ws hc _ ih => rw [List.cons_append, endsCode.eq_def]; simp only [hc, if_true]; exact ih
  | @line body s hb _ ih =>
    rw [show ('/' :: '/' :: (body ++ '\n' :: s)) ++ rest = '/' :: '/' :: (body ++ '\n' :: (s ++ rest)) by simp]
    rw [endsCode.eq_def]
    simp only [show isWs '/' = false by decide, Bool.false_eq_true, if_false, if_true]
    rw [ends_line_body _ _ hb]; exact ih
  | @block body s hb _ ih =>
    rw [show ('{' :: (body ++ s)) ++ rest = '{' :: (body ++ (s ++ rest)) by simp]
    rw [endsCode.eq_def]
    simp only [show isWs '{' = false by decide, Bool.false_eq_true, if_false, if_true,
      show ('{' = '/') = False by decide]
    rw [ends_block_body hb]; exact ih

/-- the separator grammar is exactly "the skipping machine consumes the text and ends between tokens" -/
theorem isSep_iff (s : Str) : IsSep s ↔ sepB s = true := by
  refine ⟨fun h => ?_, sepB_sound⟩
  have := endsCode_sep h []
  rw [List.append_nil] at this
  rw [sepB, this]; rfl

def TrailSpec : Mode → Str → Prop
  | .code, s => IsTrail s
  | .line, s => (∀ c ∈ s, c ≠ '\n') ∨ ∃ body s', s = body ++ '\n' :: s' ∧ (∀ c ∈ body, c ≠ '\n') ∧ IsTrail s'
  | .block d, s => Unclosed d s ∨ ∃ body s', s = body ++ s' ∧ Body d body ∧ IsTrail s'

theorem IsTrail.ws {c : Char} {s : Str} (hc : isWs c = true) (h : IsTrail s) : IsTrail (c :: s) :=
  IsTrail.sep (s := [c]) (.ws hc .nil) h

theorem skipWs_nil_sound (m : Mode) (s : Str) (h : skipWs m s = []) : TrailSpec m s := by
  fun_induction skipWs m s with
  | case1 => exact .nil
  | case2 c cs hc ih => exact .ws hc (ih h)
  | case3 cs' _ ih =>
    rcases ih h with hb | ⟨body, s', he, hb, hs⟩
    · exact .lineEof hb
    · subst he
      have := IsTrail.sep (s := '/' :: '/' :: (body ++ ['\n'])) (by simpa using IsSep.line hb .nil) hs
      show IsTrail _
      simpa using this
  | case4 => cases h
  | case5 => cases h
  | case6 cs _ _ ih =>
    rcases ih h with hu | ⟨body, s', he, hb, hs⟩
    · exact .blockEof hu
    · subst he
      have := IsTrail.sep (s := '{' :: body) (by simpa using IsSep.block hb .nil) hs
      show IsTrail _
      simpa using this
  | case7 => cases h
  | case8 => exact .inl (by simp)
  | case9 cs ih => exact .inr ⟨[], cs, rfl, by simp, ih h⟩
  | case10 c cs hc ih =>
    rcases ih h with hb | ⟨body, s', he, hb, hs⟩
    · left
      intro d hd
      rcases List.mem_cons.mp hd with h1 | h1
      · rw [h1]; exact hc
      · exact hb d h1
    · right
      refine ⟨c :: body, s', by rw [he]; rfl, ?_, hs⟩
      intro d hd
      rcases List.mem_cons.mp hd with h1 | h1
      · rw [h1]; exact hc
      · exact hb d h1
  | case11 => exact .inl .nil
  | case12 d cs ih =>
    rcases ih h with hu | ⟨body, s', he, hb, hs⟩
    · exact .inl (.open_ hu)
    · exact .inr ⟨'{' :: body, s', by rw [he]; rfl, .open_ hb, hs⟩
  | case13 cs ho ih => exact .inr ⟨['}'], cs, rfl, .close0, ih h⟩
  | case14 cs d' ho ih =>
    rcases ih h with hu | ⟨body, s', he, hb, hs⟩
    · exact .inl (.close hu)
    · exact .inr ⟨'}' :: body, s', by rw [he]; rfl, .close hb, hs⟩
  | case15 d c cs ho hcl ih =>
    rcases ih h with hu | ⟨body, s', he, hb, hs⟩
    · exact .inl (.other ho hcl hu)
    · exact .inr ⟨c :: body, s', by rw [he]; rfl, .other ho hcl hb, hs⟩

/-- the trailing grammar is exactly "everything is skipped" -/
theorem isTrail_iff (s : Str) : IsTrail s ↔ skipWs .code s = [] :=
  ⟨skipWs_trail, skipWs_nil_sound .code s⟩

end Scanner
end Slac
