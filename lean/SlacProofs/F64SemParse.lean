/-
  SlacProofs.F64SemParse — `F64.parse` on decimal number literals WITHOUT exponent part, of any length:
  digits, digits., .digits, digits.digits  ↦  `Float.ofScientific (all digits) (fraction?) (number of fraction digits)`.
  The parser's exponent clamps (|e| beyond 400 / 1200 + digits) are never reached by such a text (`parse_decimal`),
  so together with `sci_nearest_int` / `sci_nearest_frac` the result is the nearest double (`parse_decimal_nearest`).
-/
import SlacProofs.F64SemNearest
import SlacProofs.ScannerLits
set_option autoImplicit false
namespace Slac
namespace F64
open Scanner

theorem isDig_of_asciiDigit {c : Char} (h : isAsciiDigit c = true) : isDig c = true := by
  rw [isDig_iff]
  simp only [isAsciiDigit, Unicode.inRange, Bool.and_eq_true, decide_eq_true_eq] at h
  omega

theorem words_false_dot (t : Str) :
    (List.map lowerAscii ('.' :: t) == ['i', 'n', 'f'] ||
      List.map lowerAscii ('.' :: t) == ['i', 'n', 'f', 'i', 'n', 'i', 't', 'y']) = false ∧
    (List.map lowerAscii ('.' :: t) == ['n', 'a', 'n']) = false := by
  have h1 : lowerAscii '.' = '.' := by decide
  have hi : ('.' == 'i') = false := by decide
  have hn : ('.' == 'n') = false := by decide
  simp only [List.map_cons, h1, List.cons_beq_cons, hi, hn, Bool.false_and, Bool.or_self, and_self]

set_option linter.auxLemma false in
/-- a text starting with '.' goes to the digit reader, unsigned -/
theorem parse_dot_start (t : Str) : parse ('.' :: t) = parseNum false ('.' :: t) := by
  have hm : '.' ≠ '-' := by decide
  have hp : '.' ≠ '+' := by decide
  have hs : parse.match_1 (fun _ => Bool × Str) ('.' :: t) (fun r => (true, r)) (fun r => (false, r))
      (fun r => (false, r)) = (false, '.' :: t) := by
    split
    · rename_i h; injection h with h _; exact absurd h hm
    · rename_i h; injection h with h _; exact absurd h hp
    · rfl
  unfold parse parseNum
  rw [hs]
  simp only []
  rw [(words_false_dot t).1, (words_false_dot t).2]
  simp only [Bool.false_eq_true, if_false]
  rfl

/-- digits, a dot, digits (either group may be empty, not both): no clamp applies, whatever the lengths -/
theorem parseNum_dot (D F : Str) (hD : ∀ c ∈ D, isDig c = true) (hF : ∀ c ∈ F, isDig c = true)
    (hne : D ≠ [] ∨ F ≠ []) :
    parseNum false (D ++ '.' :: F) =
      some (if F.length = 0 then Float.ofScientific (digitsVal (D ++ F)) false 0
            else Float.ofScientific (digitsVal (D ++ F)) true F.length) := by
  have h1 : List.takeWhile isDig (D ++ '.' :: F) = D := by
    rw [List.takeWhile_append_of_pos hD, List.takeWhile_cons_of_neg (by simp [isDig_dot])]; simp
  have h2 : List.dropWhile isDig (D ++ '.' :: F) = '.' :: F := by
    rw [List.dropWhile_append_of_pos hD, List.dropWhile_cons_of_neg (by simp [isDig_dot])]
  have h3 : List.takeWhile isDig F = F := by
    have := List.takeWhile_append_of_pos (p := isDig) (l₁ := F) (l₂ := []) hF
    simpa using this
  have h4 : List.dropWhile isDig F = [] := by
    have := List.dropWhile_append_of_pos (p := isDig) (l₁ := F) (l₂ := []) hF
    simpa using this
  have h5 : (D.isEmpty && F.isEmpty) = false := by
    rcases hne with h | h
    · cases D <;> simp_all
    · cases F <;> simp_all
  unfold parseNum
  simp only [h1, h2, h3, h4, h5, Bool.false_eq_true, if_false]
  have c1 : ¬ ((0 : Int) - (F.length : Int) > 400 ∧ digitsVal (D ++ F) ≠ 0) := by omega
  simp only [c1, if_false]
  have c2 : ¬ ((0 : Int) - (F.length : Int) < -1200 - ((D.length + F.length : Nat) : Int)) := by omega
  simp only [c2, if_false]
  by_cases hF0 : F.length = 0
  · have c3 : (0 : Int) - (F.length : Int) ≥ 0 := by omega
    have c4 : ((0 : Int) - (F.length : Int)).toNat = 0 := by omega
    rw [if_pos c3, c4, if_pos hF0]
  · have c3 : ¬ ((0 : Int) - (F.length : Int) ≥ 0) := by omega
    have c4 : (-((0 : Int) - (F.length : Int))).toNat = F.length := by omega
    rw [if_neg c3, c4, if_neg hF0]

/-- the digits before the dot / after the dot of a decimal text -/
def intDigits (text : Str) : Str := text.takeWhile (fun c => c != '.')
def fracDigits (text : Str) : Str := (text.dropWhile (fun c => c != '.')).drop 1

theorem isDig_ne_dot {c : Char} (h : isDig c = true) : (c != '.') = true := by
  rw [bne_iff_ne]; intro hc; rw [hc, isDig_dot] at h; cases h

theorem parts_dot (D F : Str) (hD : ∀ c ∈ D, isDig c = true) :
    intDigits (D ++ '.' :: F) = D ∧ fracDigits (D ++ '.' :: F) = F := by
  have hD' : ∀ c ∈ D, (fun c => c != '.') c = true := fun c hc => isDig_ne_dot (hD c hc)
  unfold intDigits fracDigits
  rw [List.takeWhile_append_of_pos hD', List.dropWhile_append_of_pos hD',
    List.takeWhile_cons_of_neg (by simp), List.dropWhile_cons_of_neg (by simp)]
  simp

theorem parts_nodot (D : Str) (hD : ∀ c ∈ D, isDig c = true) : intDigits D = D ∧ fracDigits D = [] := by
  have hD' : ∀ c ∈ D, (fun c => c != '.') c = true := fun c hc => isDig_ne_dot (hD c hc)
  unfold intDigits fracDigits
  have t := List.takeWhile_append_of_pos (p := fun c => c != '.') (l₁ := D) (l₂ := []) hD'
  have d := List.dropWhile_append_of_pos (p := fun c => c != '.') (l₁ := D) (l₂ := []) hD'
  simp only [List.append_nil, List.takeWhile_nil, List.dropWhile_nil] at t d
  rw [t, d]; exact ⟨rfl, rfl⟩

/-- what `parse` computes on a decimal literal: `Float.ofScientific` of all digits with the number of fraction digits -/
theorem parse_decimal {text : Str} (ht : DecimalText text) :
    (∀ c ∈ intDigits text ++ fracDigits text, isAsciiDigit c = true) ∧
    (text = intDigits text ∨ text = intDigits text ++ '.' :: fracDigits text) ∧
    (intDigits text ≠ [] ∨ fracDigits text ≠ []) ∧
    parse text = some (if (fracDigits text).length = 0
      then Float.ofScientific (digitsVal (intDigits text ++ fracDigits text)) false 0
      else Float.ofScientific (digitsVal (intDigits text ++ fracDigits text)) true (fracDigits text).length) := by
  cases ht with
  | int hne ha =>
    have hD : ∀ c ∈ text, isDig c = true := fun c hc => isDig_of_asciiDigit (ha c hc)
    obtain ⟨p1, p2⟩ := parts_nodot text hD
    rw [p1, p2]
    refine ⟨by simpa using ha, Or.inl rfl, Or.inl hne, ?_⟩
    have := parse_int_shape false text hne hD
    simp only [Bool.false_eq_true, if_false, List.nil_append, sgnB] at this
    rw [this]; simp
  | @intDot a hne ha =>
    have hD : ∀ c ∈ a, isDig c = true := fun c hc => isDig_of_asciiDigit (ha c hc)
    obtain ⟨p1, p2⟩ := parts_dot a [] hD
    rw [p1, p2]
    refine ⟨by simpa using ha, Or.inr rfl, Or.inl hne, ?_⟩
    cases a with
    | nil => exact absurd rfl hne
    | cons d t =>
      rw [List.cons_append, parse_pos_digit d _ (hD d (by simp)), ← List.cons_append]
      exact parseNum_dot (d :: t) [] hD (by simp) (Or.inl hne)
  | @dotFrac b hne hb =>
    have hF : ∀ c ∈ b, isDig c = true := fun c hc => isDig_of_asciiDigit (hb c hc)
    obtain ⟨p1, p2⟩ := parts_dot [] b (by simp)
    rw [List.nil_append] at p1 p2
    rw [p1, p2]
    refine ⟨by simpa using hb, Or.inr rfl, Or.inr hne, ?_⟩
    rw [parse_dot_start]
    exact parseNum_dot [] b (by simp) hF (Or.inr hne)
  | @intFrac a b hna hnb ha hb =>
    have hD : ∀ c ∈ a, isDig c = true := fun c hc => isDig_of_asciiDigit (ha c hc)
    have hF : ∀ c ∈ b, isDig c = true := fun c hc => isDig_of_asciiDigit (hb c hc)
    obtain ⟨p1, p2⟩ := parts_dot a b hD
    rw [p1, p2]
    refine ⟨?_, Or.inr rfl, Or.inl hna, ?_⟩
    · intro c hc; rcases List.mem_append.1 hc with h | h
      · exact ha c h
      · exact hb c h
    · cases a with
      | nil => exact absurd rfl hna
      | cons d t =>
        rw [List.cons_append, parse_pos_digit d _ (hD d (by simp)), ← List.cons_append]
        exact parseNum_dot (d :: t) b hD hF (Or.inl hna)

/-- **a decimal literal parses to the nearest double** of its decimal value
    (all digits) / 10^(number of fraction digits) — round to nearest, ties to even, overflow to +inf -/
theorem parse_decimal_nearest {text : Str} (ht : DecimalText text) :
    ∃ x : Float, parse text = some x ∧
      NearestDouble (digitsVal (intDigits text ++ fracDigits text)) (10^(fracDigits text).length) x := by
  obtain ⟨_, _, _, hp⟩ := parse_decimal ht
  refine ⟨_, hp, ?_⟩
  by_cases h0 : (fracDigits text).length = 0
  · rw [if_pos h0, h0, Nat.pow_zero]; exact sci_nearest_int _
  · rw [if_neg h0]; exact sci_nearest_frac _ _ (by omega)

end F64
end Slac
