/-
  SlacProofs.F64SemNear — NECESSITY half of correct rounding: what core's `roundWithAccuracy` produces is the double
  NEAREST to the exact value (ties to even, overflow to infinity).  (F64Near has the sufficiency half.)
  * `rne_bounds`, `rne_nearest`: `rneFrac A B` is the integer nearest to A/B, ties to even;
  * `units_grid`: the doubles, in units of 2^-1074, around the binade with unit 2^t: multiples of 2^t, or below 2^52·2^t;
  * `grid_nearest`: rounding to a multiple of the binade's unit beats every double;
  * `rwa_shape`: the closed form of `rwaFrac .positive (cn·2^J) cd (-J)` (value cn/cd, J ≥ 1200 guard bits):
    mantissa `rneFrac (cn·2^1074) (cd·2^t)` at exponent t - 1074, renormalised if it reaches 2^53.
-/
import SlacProofs.F64SemOps
import SlacProofs.F64Search
set_option autoImplicit false
namespace Slac
namespace F64
open Float.Model Float.Model.UnpackedFloat

/-- |a - b| on naturals -/
def ndist (a b : Nat) : Nat := (a - b) + (b - a)

theorem rneFrac_ge (A B : Nat) : A / B ≤ rneFrac A B := by
  unfold rneFrac; split
  · exact Nat.le_refl _
  · split <;> omega

theorem rneFrac_le (A B : Nat) : rneFrac A B ≤ A / B + 1 := by
  unfold rneFrac; split
  · omega
  · split
    · have := Nat.mod_lt (A / B) (show 0 < 2 by decide); omega
    · omega

/-- `rneFrac A B` is within half a unit of A/B; an odd result is strictly within -/
theorem rne_bounds (A B : Nat) (hB : 0 < B) :
    2 * (rneFrac A B * B) ≤ 2 * A + B ∧ 2 * A ≤ 2 * (rneFrac A B * B) + B ∧
    (rneFrac A B % 2 = 1 → 2 * (rneFrac A B * B) < 2 * A + B ∧ 2 * A < 2 * (rneFrac A B * B) + B) := by
  have hdm := Nat.div_add_mod A B
  have hr := Nat.mod_lt A hB
  unfold rneFrac
  generalize A / B = q at *
  generalize A % B = m at *
  have hqB : q * B = B * q := Nat.mul_comm _ _
  generalize B * q = qB at *
  split
  · rw [hqB]; exact ⟨by omega, by omega, fun _ => ⟨by omega, by omega⟩⟩
  · split
    · rcases Nat.mod_two_eq_zero_or_one q with h0 | h1
      · rw [h0, Nat.add_zero, hqB]; exact ⟨by omega, by omega, fun h => by omega⟩
      · rw [h1, Nat.add_mul, Nat.one_mul, hqB]; exact ⟨by omega, by omega, fun h => by omega⟩
    · rw [Nat.add_mul, Nat.one_mul, hqB]; exact ⟨by omega, by omega, fun _ => ⟨by omega, by omega⟩⟩

/-- no integer is closer to A/B than `rneFrac A B`; if another one is equally close, the result is even -/
theorem rne_nearest (A B n : Nat) (hB : 0 < B) :
    ndist (rneFrac A B * B) A ≤ ndist (n * B) A ∧
    (n ≠ rneFrac A B → ndist (n * B) A = ndist (rneFrac A B * B) A → rneFrac A B % 2 = 0) := by
  obtain ⟨h1, h2, h3⟩ := rne_bounds A B hB
  generalize rneFrac A B = R at *
  unfold ndist
  rcases Nat.lt_trichotomy n R with hlt | heq | hgt
  · have : (n + 1) * B ≤ R * B := Nat.mul_le_mul_right B hlt
    rw [Nat.add_mul, Nat.one_mul] at this
    generalize n * B = nB at *; generalize R * B = RB at *
    refine ⟨by omega, fun _ he => ?_⟩
    rcases Nat.mod_two_eq_zero_or_one R with h0 | h1'
    · exact h0
    · have := h3 h1'; omega
  · subst heq; exact ⟨Nat.le_refl _, fun h => absurd rfl h⟩
  · have : (R + 1) * B ≤ n * B := Nat.mul_le_mul_right B hgt
    rw [Nat.add_mul, Nat.one_mul] at this
    generalize n * B = nB at *; generalize R * B = RB at *
    refine ⟨by omega, fun _ he => ?_⟩
    rcases Nat.mod_two_eq_zero_or_one R with h0 | h1'
    · exact h0
    · have := h3 h1'; omega

/-- the finite doubles seen from the binade whose unit is 2^t (in units of 2^-1074): a double is a multiple of that
    unit, or it lies below the binade (below 2^52 units of it) -/
theorem units_grid (y : Float) (hy : isFinite y = true) (t : Nat) : 2^t ∣ unitsN y ∨ unitsN y < 2^52 * 2^t := by
  rcases finite_cases y hy with ⟨s, rfl⟩ | ⟨s, m, e, h, rfl⟩
  · left; rw [unitsN_zeroF]; exact Nat.dvd_zero _
  · rw [unitsN_mkF _ _ _ h]
    have hlt := h.lt
    generalize (e + 1074).toNat = k
    by_cases hk : t ≤ k
    · left; exact Nat.dvd_mul_left_of_dvd (Nat.pow_dvd_pow 2 hk) m
    · right
      calc m * 2^k < 2^53 * 2^k := Nat.mul_lt_mul_of_pos_right hlt (Nat.two_pow_pos k)
        _ = 2^(53 + k) := (Nat.pow_add _ _ _).symm
        _ ≤ 2^(52 + t) := Nat.pow_le_pow_right (by decide) (by omega)
        _ = 2^52 * 2^t := Nat.pow_add _ _ _

/-- rounding K/cd to the nearest multiple of the unit 2^t of its binade beats every point of the double grid -/
theorem grid_nearest (K cd t u : Nat) (hcd : 0 < cd)
    (hlow : t = 0 ∨ 2^52 * (cd * 2^t) ≤ K) (hu : 2^t ∣ u ∨ u < 2^52 * 2^t) :
    ndist (rneFrac K (cd * 2^t) * 2^t * cd) K ≤ ndist (u * cd) K ∧
    (u ≠ rneFrac K (cd * 2^t) * 2^t → ndist (u * cd) K = ndist (rneFrac K (cd * 2^t) * 2^t * cd) K →
      rneFrac K (cd * 2^t) % 2 = 0) := by
  have hP : 0 < 2^t := Nat.two_pow_pos t
  have hB : 0 < cd * 2^t := Nat.mul_pos hcd hP
  have hassoc : ∀ n : Nat, n * 2^t * cd = n * (cd * 2^t) := fun n => by ac_rfl
  have hdvd : ∀ n : Nat, u = n * 2^t →
      ndist (rneFrac K (cd * 2^t) * 2^t * cd) K ≤ ndist (u * cd) K ∧
      (u ≠ rneFrac K (cd * 2^t) * 2^t → ndist (u * cd) K = ndist (rneFrac K (cd * 2^t) * 2^t * cd) K →
        rneFrac K (cd * 2^t) % 2 = 0) := by
    intro n hn
    obtain ⟨a1, a2⟩ := rne_nearest K (cd * 2^t) n hB
    rw [hn, hassoc, hassoc]
    refine ⟨a1, fun hne he => a2 (fun h => hne (by rw [h])) he⟩
  rcases hu with ⟨n, hn⟩ | hu
  · exact hdvd n (by rw [hn, Nat.mul_comm])
  · rcases hlow with h0 | hlow
    · subst h0; exact hdvd u (by simp)
    · have h1 : u * cd < 2^52 * (cd * 2^t) := by
        calc u * cd < 2^52 * 2^t * cd := Nat.mul_lt_mul_of_pos_right hu hcd
          _ = 2^52 * (cd * 2^t) := by ac_rfl
      obtain ⟨a1, _⟩ := rne_nearest K (cd * 2^t) (2^52) hB
      rw [hassoc]
      unfold ndist at a1 ⊢
      generalize rneFrac K (cd * 2^t) * (cd * 2^t) = RB at *
      generalize 2^52 * (cd * 2^t) = MB at *
      generalize u * cd = ucd at *
      exact ⟨by omega, fun _ he => by omega⟩

theorem finite_congr (s : Sign) (m m' : Nat) (e e' : Int) (h : 0 < m) (h' : 0 < m') (hm : m = m') (he : e = e') :
    UnpackedFloat.finite s m e h = UnpackedFloat.finite s m' e' h' := by
  subst hm; subst he; rfl

/-- **closed form of core's rounding** of the value cn/cd, described with J ≥ 1200 guard bits as the fraction
    (cn·2^J)/cd scaled by 2^-J (the shape of all four `Float.ofScientific` code paths, see F64Sci):
    there is a binade unit 2^t (in units of 2^-1074; t = 0 for subnormals) such that 2^52·2^t ≤ cn/cd (if t > 0) and
    cn/cd < 2^53·2^t, and the result's mantissa is r = `rneFrac (cn·2^1074) (cd·2^t)` — the integer nearest to
    (cn/cd)/2^t, ties to even — at exponent t - 1074; r = 2^53 is renormalised to 2^52 at t - 1073; r = 0 is +0. -/
theorem rwa_shape (cn cd J : Nat) (hcd : 0 < cd) (hJ : 1200 ≤ J) :
    ∃ t : Nat,
      (t = 0 ∨ 2^52 * (cd * 2^t) ≤ cn * 2^1074) ∧ cn * 2^1074 < 2^53 * (cd * 2^t) ∧
      (rneFrac (cn * 2^1074) (cd * 2^t) = 0 → rwaFrac .positive (cn * 2^J) cd (-(J:Int)) = .zero .positive) ∧
      (∀ h : 0 < rneFrac (cn * 2^1074) (cd * 2^t), rneFrac (cn * 2^1074) (cd * 2^t) < 2^53 →
        rwaFrac .positive (cn * 2^J) cd (-(J:Int)) =
          .finite .positive (rneFrac (cn * 2^1074) (cd * 2^t)) ((t:Int) - 1074) h) ∧
      (rneFrac (cn * 2^1074) (cd * 2^t) = 2^53 →
        rwaFrac .positive (cn * 2^J) cd (-(J:Int)) = .finite .positive (2^52) ((t:Int) - 1073) (by decide)) ∧
      rneFrac (cn * 2^1074) (cd * 2^t) ≤ 2^53 ∧ (t ≠ 0 → 2^52 ≤ rneFrac (cn * 2^1074) (cd * 2^t)) := by
  generalize hQ : cn * 2^J / cd = Q
  generalize hL : Q.log2 = L
  have hT : tgt Q (-(J:Int)) = max ((L:Int) + 1 + -(J:Int) - 53) (-1074) := by unfold tgt; rw [hL]
  generalize hTT : tgt Q (-(J:Int)) = T at hT
  have hTge : -1074 ≤ T := by omega
  generalize ht : (T + 1074).toNat = t
  generalize hd : J - 1074 = d
  have hj : (T - -(J:Int)).toNat = t + d := by omega
  have hpowJ : 2^J = 2^1074 * 2^d := by
    rw [← Nat.pow_add]; exact congrArg (fun x => 2^x) (by omega : J = 1074 + d)
  have hpowj : 2^(t + d) = 2^t * 2^d := Nat.pow_add _ _ _
  have hd0 : 0 < 2^d := Nat.two_pow_pos d
  have hA : cn * 2^J = cn * 2^1074 * 2^d := by rw [hpowJ, Nat.mul_assoc]
  have hB : cd * 2^(t + d) = cd * 2^t * 2^d := by rw [hpowj, Nat.mul_assoc]
  have hr : rneFrac (cn * 2^J) (cd * 2^(t + d)) = rneFrac (cn * 2^1074) (cd * 2^t) := by
    rw [hA, hB, rneFrac_scale _ _ _ hd0]
  have hQlt : Q < 2^(L+1) := by rw [← hL]; exact Nat.lt_log2_self
  have hup : cn * 2^1074 < 2^53 * (cd * 2^t) := by
    have h1 : Q < 2^(53 + (t + d)) := Nat.lt_of_lt_of_le hQlt (Nat.pow_le_pow_right (by decide) (by omega))
    rw [← hQ, Nat.div_lt_iff_lt_mul hcd] at h1
    have h2 : 2^(53 + (t + d)) * cd = 2^53 * (cd * 2^t) * 2^d := by rw [Nat.pow_add, hpowj]; ac_rfl
    rw [hA, h2] at h1
    exact Nat.lt_of_mul_lt_mul_right h1
  have hlow : t = 0 ∨ 2^52 * (cd * 2^t) ≤ cn * 2^1074 := by
    by_cases ht0 : t = 0
    · exact Or.inl ht0
    · right
      have hQ0 : Q ≠ 0 := by
        intro h0; rw [h0, Nat.log2_zero] at hL; omega
      have hQge : 2^L ≤ Q := by rw [← hL]; exact Nat.log2_self_le hQ0
      have hLe : L = 52 + (t + d) := by omega
      rw [hLe, ← hQ, Nat.le_div_iff_mul_le hcd] at hQge
      have h2 : 2^(52 + (t + d)) * cd = 2^52 * (cd * 2^t) * 2^d := by rw [Nat.pow_add, hpowj]; ac_rfl
      rw [hA, h2] at hQge
      exact Nat.le_of_mul_le_mul_right hQge hd0
  have hBpos : 0 < cd * 2^t := Nat.mul_pos hcd (Nat.two_pow_pos t)
  have hrle : rneFrac (cn * 2^1074) (cd * 2^t) ≤ 2^53 := by
    have := rneFrac_le (cn * 2^1074) (cd * 2^t)
    have h2 : cn * 2^1074 / (cd * 2^t) < 2^53 := (Nat.div_lt_iff_lt_mul hBpos).2 hup
    omega
  have hrge : t ≠ 0 → 2^52 ≤ rneFrac (cn * 2^1074) (cd * 2^t) := by
    intro ht0
    have h1 : 2^52 * (cd * 2^t) ≤ cn * 2^1074 := by rcases hlow with h | h; exact absurd h ht0; exact h
    have h2 : 2^52 ≤ cn * 2^1074 / (cd * 2^t) := (Nat.le_div_iff_mul_le hBpos).2 h1
    exact Nat.le_trans h2 (rneFrac_ge _ _)
  have he1 : -(J:Int) + ((t + d : Nat) : Int) = (t:Int) - 1074 := by omega
  have hshape := rwaFrac_eq .positive (cn * 2^J) cd (-(J:Int)) hcd
  simp only [hQ, hTT, hj, hr, he1] at hshape
  refine ⟨t, hlow, hup, ?_⟩
  generalize rneFrac (cn * 2^1074) (cd * 2^t) = r at *
  refine ⟨?_, ?_, ?_, hrle, hrge⟩
  · intro h0
    rw [hshape, dif_pos (by rw [h0]; exact Nat.zero_div _)]
  · intro hpos h53
    have hlog : r.log2 ≤ 52 := by have := (Nat.log2_lt (by omega)).2 h53; omega
    have hlog2 : t ≠ 0 → 52 ≤ r.log2 := fun ht0 => (Nat.le_log2 (by omega)).2 (hrge ht0)
    have hj2 : (tgt r ((t:Int) - 1074) - ((t:Int) - 1074)).toNat = 0 := by
      unfold tgt
      by_cases ht0 : t = 0
      · omega
      · have := hlog2 ht0; omega
    rw [hshape]
    simp only [hj2, Nat.pow_zero, Nat.div_one]
    rw [dif_neg (by omega)]
    exact finite_congr _ _ _ _ _ _ _ rfl (by omega)
  · intro h53
    have hlog : r.log2 = 53 := by rw [h53]; exact Nat.log2_two_pow
    have hj2 : (tgt r ((t:Int) - 1074) - ((t:Int) - 1074)).toNat = 1 := by
      unfold tgt; omega
    have hdiv : r / 2^1 = 2^52 := by rw [h53]; decide
    rw [hshape]
    simp only [hj2, hdiv]
    rw [dif_neg (by decide)]
    exact finite_congr _ _ _ _ _ _ _ rfl (by omega)

end F64
end Slac
