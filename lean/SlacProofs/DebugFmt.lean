/-
  SlacProofs.DebugFmt — helper lemmas about SlacModel.DebugFmt (core only, no Mathlib):
  * `display_eq`: `F64.display` is literally the digit search `shortestDigits` followed by `plainBody`, so
    `Debug` (which prints `shortestDigits`) and `Display` print the SAME digits;
  * `debugF64_plain`: outside the exponent range `Debug for f64` is `Display for f64`, plus `.0` when `Display`
    printed no fraction;
  * `debugListWith_eq`: `Debug for Vec` = elements joined with `, ` between brackets;
  * `escapeChar_control`: every C0/C1 control character (and DEL, NBSP) comes out as printable ASCII.
-/
import SlacModel.DebugFmt
set_option autoImplicit false
namespace Slac
namespace DebugFmt
open F64

/-! ### numbers -/

theorem display_eq (x : Float) : F64.display x = displayViaDigits x := by
  unfold F64.display displayViaDigits shortestDigits plainBody
  rfl

/-- `digits_to_dec_str` with `frac_digits = 1` against `frac_digits = 0`, on the digits of `c` scaled by `10^p` -/
theorem decForm_eq (c : Nat) (p : Int) :
    decForm (Nat.toDigits 10 c) (((Nat.toDigits 10 c).length : Int) + p) =
      if p ≥ 0 then plainBody c p ++ ['.', '0'] else plainBody c p := by
  have hne : Nat.toDigits 10 c ≠ [] := Nat.toDigits_ne_nil
  have hlen : 0 < (Nat.toDigits 10 c).length := List.length_pos_iff.mpr hne
  generalize hds : Nat.toDigits 10 c = ds at *
  unfold decForm plainBody
  simp only [hds]
  by_cases hp : p ≥ 0
  · have h1 : ¬ ((ds.length : Int) + p ≤ 0) := by omega
    have h2 : ¬ (((ds.length : Int) + p).toNat < ds.length) := by omega
    have h3 : ((ds.length : Int) + p).toNat - ds.length = p.toNat := by omega
    simp only [hp, h1, h2, h3, if_true, if_false]
  · by_cases hq : ds.length ≤ (-p).toNat
    · have h1 : ((ds.length : Int) + p ≤ 0) := by omega
      have h3 : (-((ds.length : Int) + p)).toNat = (-p).toNat - ds.length := by omega
      simp only [hp, h1, h3, hq, if_true, if_false]
    · have h1 : ¬ ((ds.length : Int) + p ≤ 0) := by omega
      have h2 : ds.length - (-p).toNat < ds.length := by omega
      have h3 : ((ds.length : Int) + p).toNat = ds.length - (-p).toNat := by omega
      simp only [hp, h1, h3, h2, hq, if_true, if_false]

theorem dot_not_mem_toDigits (c : Nat) : '.' ∉ Nat.toDigits 10 c := by
  intro h
  have := Nat.isDigit_of_mem_toDigits (b := 10) (by decide) (by decide) h
  revert this; decide

theorem dot_mem_plainBody (c : Nat) (p : Int) : '.' ∈ plainBody c p ↔ p < 0 := by
  have hd := dot_not_mem_toDigits c
  unfold plainBody
  by_cases hp : p ≥ 0
  · simp only [hp, if_true]
    constructor
    · intro h
      rcases List.mem_append.mp h with h | h
      · exact absurd h hd
      · have := List.eq_of_mem_replicate h
        exact absurd this (by decide)
    · intro h; omega
  · simp only [hp, if_false]
    constructor
    · intro _; omega
    · intro _
      split
      · simp
      · simp

/-- In the plain-decimal range (`1e-4 ≤ |x| < 1e16`, or zero) `Debug for f64` is `Display for f64`, with `.0`
    appended exactly when `Display` printed no fraction.  (NaN and ±inf print the same in both.) -/
theorem debugF64_plain (x : Float) (hn : isNaN x = false) (hi : isInf x = false) (he : useExp x = false) :
    debugF64 x = if '.' ∈ F64.display x then F64.display x else F64.display x ++ ['.', '0'] := by
  rw [display_eq]
  unfold debugF64 displayViaDigits
  simp only [hn, hi, he, Bool.false_eq_true, if_false]
  by_cases hz : isZero x = true
  · simp only [hz, if_true]
    by_cases hs : signBit x = true <;> simp [hs]
  · simp only [hz]
    generalize shortestDigits (if signBit x = true then -x else x) = cp
    obtain ⟨c, p⟩ := cp
    simp only
    rw [decForm_eq]
    have hm := dot_mem_plainBody c p
    by_cases hp : p ≥ 0
    · have hnm : '.' ∉ plainBody c p := fun h => by have := hm.mp h; omega
      by_cases hs : signBit x = true <;> simp [hs, hp, hnm]
    · have hmm : '.' ∈ plainBody c p := hm.mpr (by omega)
      by_cases hs : signBit x = true <;> simp [hs, hp, hmm]

theorem debugF64_nan (x : Float) (hn : isNaN x = true) : debugF64 x = F64.display x := by
  unfold debugF64 F64.display; simp only [hn, if_true]

theorem debugF64_inf (x : Float) (hn : isNaN x = false) (hi : isInf x = true) : debugF64 x = F64.display x := by
  unfold debugF64 F64.display; simp only [hn, hi, Bool.false_eq_true, if_false, if_true]

/-! ### lists -/
section
variable {N : Type} (dn : N → Str)

theorem debugTailWith_eq (xs : List (Value N)) :
    debugTailWith dn xs = (xs.map fun v => ',' :: ' ' :: debugValueWith dn v).flatten := by
  induction xs with
  | nil => simp [debugTailWith]
  | cons v r ih => simp [debugTailWith, ih]

theorem intercalate_cons (a : Str) (r : List Str) :
    List.intercalate [',', ' '] (a :: r) = a ++ (r.map fun s => ',' :: ' ' :: s).flatten := by
  induction r generalizing a with
  | nil => simp [List.intercalate]
  | cons b r ih =>
    have := ih b
    simp only [List.intercalate, List.intersperse_cons_cons, List.flatten_cons, List.map_cons] at this ⊢
    rw [this]; simp

/-- `Debug for Vec<Value>`: the elements' `Debug` texts joined with `, ` between `[` and `]` -/
theorem debugListWith_eq (xs : List (Value N)) :
    debugListWith dn xs = '[' :: (List.intercalate [',', ' '] (xs.map (debugValueWith dn)) ++ [']']) := by
  cases xs with
  | nil => simp [debugListWith, List.intercalate]
  | cons v r =>
    simp only [debugListWith, List.map_cons, intercalate_cons, debugTailWith_eq, List.map_map]
    simp [Function.comp_def]
end

/-! ### strings -/

def printableAscii (c : Char) : Bool := 0x20 ≤ c.toNat && c.toNat ≤ 0x7E

/-- code points 0–31 and 127–160 (C0, DEL, C1, NBSP) are all written with printable ASCII only
    (kernel-evaluated over the 66 code points) -/
theorem escapeChar_control :
    ∀ n : Fin 161, (n.val < 32 ∨ 127 ≤ n.val) → (escapeChar (Char.ofNat n.val)).all printableAscii = true := by
  decide +kernel

end DebugFmt
end Slac
