/-
  SlacProofs.ScannerToken — the texts ("lexemes") of each token, the exact condition under which the following
  character would change how a lexeme is read (`fuse`), and the one-token lemma: at a token boundary,
  `nextToken` on `lexeme ++ rest` returns the token and `rest` whenever `rest` does not fuse.
-/
import SlacProofs.ScannerSkip
import SlacProofs.ScannerString
set_option autoImplicit false
namespace Slac
namespace Scanner

/-! ### small tools -/

/-- the first character of `s`, if any, does not satisfy `p` -/
def HeadNot (p : Char → Bool) (s : Str) : Prop := ∀ c ∈ s.head?, p c = false

theorem HeadNot.nil (p : Char → Bool) : HeadNot p [] := by simp [HeadNot]
theorem HeadNot.cons {p : Char → Bool} {c : Char} {r : Str} (h : p c = false) : HeadNot p (c :: r) := by
  simp [HeadNot, h]
theorem HeadNot.of_cons {p : Char → Bool} {c : Char} {r : Str} (h : HeadNot p (c :: r)) : p c = false :=
  h c (by simp)

theorem span_append {p : Char → Bool} {a b : Str} (ha : ∀ d ∈ a, p d = true) (hb : HeadNot p b) :
    (a ++ b).takeWhile p = a ∧ (a ++ b).dropWhile p = b := by
  induction a with
  | nil =>
    cases b with
    | nil => simp
    | cons c r => simp [hb.of_cons]
  | cons d ds ih =>
    have hd := ha d (by simp)
    have := ih (fun e he => ha e (by simp [he]))
    simp [hd, this]

theorem mem_takeWhile (p : Char → Bool) (l : Str) : ∀ d ∈ l.takeWhile p, p d = true := by
  induction l with
  | nil => simp
  | cons a r ih =>
    intro d hd
    rw [List.takeWhile_cons] at hd
    split at hd
    · rename_i ha
      rcases List.mem_cons.mp hd with h | h
      · subst h; exact ha
      · exact ih d h
    · simp at hd

theorem lookup_mem {β : Type} (k : Str) (l : List (Str × β)) (b : β) (h : l.lookup k = some b) : (k, b) ∈ l := by
  induction l with
  | nil => simp at h
  | cons p r ih =>
    obtain ⟨k', b'⟩ := p
    rw [List.lookup_cons] at h
    split at h
    · rename_i hk
      have : k = k' := by simpa using hk
      cases h; subst this; simp
    · exact List.mem_cons_of_mem _ (ih h)

/-! ### ASCII facts -/

/-- the ASCII characters that have a meaning of their own for the scanner -/
def isSpecial (c : Char) : Bool :=
  [' ', '\r', '\t', '\n', '/', '{', '}', '\'', '.', '(', ')', '[', ']', ',', '+', '-', '*', '=', '>', '<'].contains c

theorem special_class {cc : CharClass} (hcc : cc.AsciiOk) (c : Char) (h : isSpecial c = true) :
    cc.isAlphabetic c = false ∧ cc.isNumeric c = false ∧ c ≠ '_' := by
  simp only [isSpecial, List.contains_eq_mem, List.mem_cons, List.not_mem_nil, or_false, decide_eq_true_eq] at h
  rcases h with h | h | h | h | h | h | h | h | h | h | h | h | h | h | h | h | h | h | h | h <;> subst h <;>
    refine ⟨?_, ?_, by decide⟩
  all_goals first
    | (rw [hcc.alpha _ (by decide)]; decide)
    | (rw [hcc.num _ (by decide)]; decide)

theorem special_identStart {cc : CharClass} (hcc : cc.AsciiOk) (c : Char) (h : isSpecial c = true) :
    isIdentStart cc c = false := by
  have := special_class hcc c h
  simp [isIdentStart, this]

theorem special_identCont {cc : CharClass} (hcc : cc.AsciiOk) (c : Char) (h : isSpecial c = true) :
    isIdentCont cc c = false := by
  have := special_class hcc c h
  simp [isIdentCont, CharClass.isAlphanumeric, this]

theorem special_numeric {cc : CharClass} (hcc : cc.AsciiOk) (c : Char) (h : isSpecial c = true) :
    cc.isNumeric c = false := (special_class hcc c h).2.1

theorem isWs_special (c : Char) (h : isWs c = true) : isSpecial c = true := by
  simp only [isWs, Bool.or_eq_true, beq_iff_eq] at h
  rcases h with ((h | h) | h) | h <;> subst h <;> decide

/-- a character that is not special does not start a separator -/
theorem notSpecial_boundary (c : Char) (h : isSpecial c = false) :
    isWs c = false ∧ c ≠ '{' ∧ c ≠ '/' := by
  refine ⟨?_, ?_, ?_⟩
  · cases hw : isWs c with
    | false => rfl
    | true => rw [isWs_special c hw] at h; cases h
  · intro hc; subst hc; revert h; decide
  · intro hc; subst hc; revert h; decide

theorem identStart_notSpecial {cc : CharClass} (hcc : cc.AsciiOk) (c : Char) (h : isIdentStart cc c = true) :
    isSpecial c = false := by
  cases hs : isSpecial c with
  | false => rfl
  | true => rw [special_identStart hcc c hs] at h; cases h

theorem numeric_notSpecial {cc : CharClass} (hcc : cc.AsciiOk) (c : Char) (h : cc.isNumeric c = true) :
    isSpecial c = false := by
  cases hs : isSpecial c with
  | false => rfl
  | true => rw [special_numeric hcc c hs] at h; cases h

/-! ### lexemes -/
section
variable {N : Type}

/-- the fixed spellings -/
def punct (N : Type) : List (Str × Token N) :=
  [ (['('], .leftParen), ([')'], .rightParen), (['['], .leftBracket), ([']'], .rightBracket), ([','], .comma),
    (['+'], .plus), (['-'], .minus), (['*'], .star), (['/'], .slash), (['='], .equal),
    (['>'], .greater), (['>','='], .greaterEqual), (['<'], .less), (['<','='], .lessEqual), (['<','>'], .notEqual) ]

/-- identifier-shaped text: a start character followed by continue characters -/
def identShape (cc : CharClass) : Str → Bool
  | [] => false
  | c :: tl => isIdentStart cc c && tl.all (isIdentCont cc)

/-- does the number text contain the optional '.' (after its first character)? -/
def numHasDot (cc : CharClass) : Str → Bool
  | [] => false
  | _ :: tl => !(tl.dropWhile cc.isNumeric).isEmpty

/-- number-shaped text as `number()` delimits it: a first character that is numeric (and does not start an
    identifier) or '.', numeric characters, optionally '.' and numeric characters -/
def numShape (cc : CharClass) : Str → Bool
  | [] => false
  | c :: tl =>
    !isIdentStart cc c && (cc.isNumeric c || c == '.') &&
      (match tl.dropWhile cc.isNumeric with
       | [] => true
       | d :: r => d == '.' && r.all cc.isNumeric)

/-- `Lexeme cc t x`: the text `x` is a spelling of the token `t` -/
inductive Lexeme [NumOps N] (cc : CharClass) : Token N → Str → Prop
  | punct {x t} : (x, t) ∈ punct N → Lexeme cc t x
  | word {x t} : identShape cc x = true → kwToken (cc.lowerStr x) = some t → Lexeme cc t x
  | ident {x} : identShape cc x = true → kwToken (N := N) (cc.lowerStr x) = none → Lexeme cc (.identifier x) x
  | num {x v} : numShape cc x = true → NumOps.parse x = some v → Lexeme cc (.literal (.num v)) x
  | str {s} : Lexeme cc (.literal (.str s)) (quote s)

/-- how the text after a lexeme can interfere with it -/
inductive LexClass | word | number | string | less | greater | slash | plain
deriving DecidableEq

def lexClass : Token N → LexClass
  | .identifier _ | .and | .or | .xor | .not | .div | .mod | .literal (.bool _) => .word
  | .literal (.num _) => .number
  | .literal (.str _) => .string
  | .less => .less
  | .greater => .greater
  | .slash => .slash
  | _ => .plain

/-- `fuse cc t x c`: the character `c` directly after the text `x` of token `t` would be read as part of it
    (or, for `/`, turn it into a comment start):
    identifier / keyword / true / false — an identifier character; number — a numeric character, or '.' if the
    number has none yet; string — a quote; `<` — `=` or `>`; `>` — `=`; `/` — `/`; every other token — nothing. -/
def fuse (cc : CharClass) (t : Token N) (x : Str) (c : Char) : Bool :=
  match lexClass t with
  | .word => isIdentCont cc c
  | .number => cc.isNumeric c || (c == '.' && !numHasDot cc x)
  | .string => c == '\''
  | .less => c == '=' || c == '>'
  | .greater => c == '='
  | .slash => c == '/'
  | .plain => false

/-- `rest` does not continue the lexeme `x` of `t` -/
def NoCont (cc : CharClass) (t : Token N) (x : Str) (rest : Str) : Prop := HeadNot (fuse cc t x) rest

theorem kwToken_fuse (cc : CharClass) (low x : Str) (t : Token N) (h : kwToken low = some t) :
    fuse cc t x = isIdentCont cc := by
  have := lookup_mem _ _ _ h
  simp only [keywords, List.mem_cons, Prod.mk.injEq, List.not_mem_nil, or_false] at this
  rcases this with ⟨_, rfl⟩ | ⟨_, rfl⟩ | ⟨_, rfl⟩ | ⟨_, rfl⟩ | ⟨_, rfl⟩ | ⟨_, rfl⟩ | ⟨_, rfl⟩ | ⟨_, rfl⟩ <;> rfl

/-- what the one-token lemma delivers: the text starts at a token boundary and `nextToken` reads `t`, leaving `rest` -/
def ReadsAs [NumOps N] (cc : CharClass) (src : Str) (t : Token N) (rest : Str) : Prop :=
  ∃ c cs, src = c :: cs ∧ skipWs .code (c :: cs) = c :: cs ∧ nextToken cc c cs = .ok (t, rest)

theorem identShape_reads [NumOps N] {cc : CharClass} (hcc : cc.AsciiOk) (x rest : Str)
    (hx : identShape cc x = true) (hr : HeadNot (isIdentCont cc) rest) :
    ReadsAs (N := N) cc (x ++ rest)
      (match kwToken (cc.lowerStr x) with | some t => t | none => .identifier x) rest := by
  cases x with
  | nil => simp [identShape] at hx
  | cons c tl =>
    simp only [identShape, Bool.and_eq_true, List.all_eq_true] at hx
    obtain ⟨hc, htl⟩ := hx
    have hb := notSpecial_boundary c (identStart_notSpecial hcc c hc)
    refine ⟨c, tl ++ rest, rfl, skipWs_noop c _ hb.1 hb.2.1 (fun h => absurd h hb.2.2), ?_⟩
    have hs := span_append htl hr
    simp only [nextToken, hc, if_true, identifier, hs.1, hs.2]
    rfl

theorem numShape_reads [NumOps N] {cc : CharClass} (hcc : cc.AsciiOk) (x rest : Str)
    (hx : numShape cc x = true)
    (hr : HeadNot (fun c => cc.isNumeric c || (c == '.' && !numHasDot cc x)) rest) :
    ∃ c cs, x ++ rest = c :: cs ∧ skipWs .code (c :: cs) = c :: cs ∧
      nextToken (N := N) cc c cs = match NumOps.parse (N := N) x with
        | some v => .ok (.literal (.num v), rest)
        | none => .error .invalidNumber := by
  cases x with
  | nil => simp [numShape] at hx
  | cons c tl =>
    simp only [numShape, Bool.and_eq_true, Bool.not_eq_true', Bool.or_eq_true, beq_iff_eq] at hx
    obtain ⟨⟨hns, hc⟩, htl⟩ := hx
    have hsp : isWs c = false ∧ c ≠ '{' ∧ c ≠ '/' := by
      rcases hc with hc | hc
      · exact notSpecial_boundary c (numeric_notSpecial hcc c hc)
      · subst hc; decide
    refine ⟨c, tl ++ rest, rfl, skipWs_noop c _ hsp.1 hsp.2.1 (fun h => absurd h hsp.2.2), ?_⟩
    have hnum : nextToken (N := N) cc c (tl ++ rest) = number cc c (tl ++ rest) := by
      rcases hc with hc | hc
      · simp only [nextToken, hns, Bool.false_eq_true, if_false, hc, if_true]
      · subst hc
        simp only [nextToken, hns, Bool.false_eq_true, if_false, if_true]
        split <;> simp
    rw [hnum]
    -- split the tail into integral digits and the rest
    have hsplit : tl = tl.takeWhile cc.isNumeric ++ tl.dropWhile cc.isNumeric := (List.takeWhile_append_dropWhile).symm
    have hdig : ∀ d ∈ tl.takeWhile cc.isNumeric, cc.isNumeric d = true := fun d hd => mem_takeWhile _ _ d hd
    have hdot : cc.isNumeric '.' = false := special_numeric hcc '.' (by decide)
    cases hdw : tl.dropWhile cc.isNumeric with
    | nil =>
      rw [hdw] at hsplit
      have htl' : tl = tl.takeWhile cc.isNumeric := by simpa using hsplit
      have hd' : ∀ d ∈ tl, cc.isNumeric d = true := by rw [htl']; exact hdig
      have hnd : numHasDot cc (c :: tl) = false := by simp [numHasDot, hdw]
      have hr1 : HeadNot cc.isNumeric rest := by
        intro d hd; have := hr d hd; simp only [Bool.or_eq_false_iff] at this; exact this.1
      have hs := span_append hd' hr1
      have hr2 : ∀ r, rest ≠ '.' :: r := by
        intro r h; subst h
        have := hr.of_cons; simp [hnd] at this
      have hlex : numberLex cc c (tl ++ rest) = (c :: tl, rest) := by
        simp only [numberLex, hs.1, hs.2]
      simp only [number, hlex]
      cases NumOps.parse (N := N) (c :: tl) <;> rfl
    | cons d r =>
      rw [hdw] at htl hsplit
      simp only [Bool.and_eq_true, beq_iff_eq, List.all_eq_true] at htl
      obtain ⟨hd, hrr⟩ := htl
      subst hd
      have hhd : numHasDot cc (c :: tl) = true := by simp [numHasDot, hdw]
      have hr1 : HeadNot cc.isNumeric rest := by
        intro d hd; have := hr d hd; simp only [Bool.or_eq_false_iff] at this; exact this.1
      have hs1 := span_append (b := '.' :: (r ++ rest)) hdig (HeadNot.cons hdot)
      have hs2 := span_append hrr hr1
      have happ : tl ++ rest = tl.takeWhile cc.isNumeric ++ '.' :: (r ++ rest) := by
        conv => lhs; rw [hsplit]
        simp
      have hlex : numberLex cc c (tl ++ rest) = (c :: tl, rest) := by
        rw [happ]
        simp only [numberLex, hs1.1, hs1.2, hs2.1, hs2.2]
        rw [← hsplit]
      simp only [number, hlex]
      cases NumOps.parse (N := N) (c :: tl) <;> rfl

theorem quote_reads [NumOps N] {cc : CharClass} (hcc : cc.AsciiOk) (s rest : Str)
    (hr : HeadNot (fun c => c == '\'') rest) :
    ReadsAs (N := N) cc (quote s ++ rest) (.literal (.str s)) rest := by
  refine ⟨'\'', quoteBody s ++ '\'' :: rest, by simp [quote], skipWs_noop _ _ (by decide) (by decide) (fun h => absurd h (by decide)), ?_⟩
  have h1 := special_identStart hcc '\'' (by decide)
  have h2 := special_numeric hcc '\'' (by decide)
  simp only [nextToken, h1, h2, Bool.false_eq_true, if_false, if_true]
  apply string_quote
  intro r h; subst h
  have := hr.of_cons; simp at this

theorem punct_reads [NumOps N] {cc : CharClass} (hcc : cc.AsciiOk) (x rest : Str) (t : Token N)
    (hx : (x, t) ∈ punct N) (hr : NoCont cc t x rest) : ReadsAs cc (x ++ rest) t rest := by
  simp only [punct, List.mem_cons, Prod.mk.injEq, List.not_mem_nil, or_false] at hx
  rcases hx with ⟨rfl, rfl⟩ | ⟨rfl, rfl⟩ | ⟨rfl, rfl⟩ | ⟨rfl, rfl⟩ | ⟨rfl, rfl⟩ | ⟨rfl, rfl⟩ | ⟨rfl, rfl⟩ |
    ⟨rfl, rfl⟩ | ⟨rfl, rfl⟩ | ⟨rfl, rfl⟩ | ⟨rfl, rfl⟩ | ⟨rfl, rfl⟩ | ⟨rfl, rfl⟩ | ⟨rfl, rfl⟩ | ⟨rfl, rfl⟩
  all_goals
    refine ⟨_, _, rfl, ?_, ?_⟩
  all_goals try (apply skipWs_noop _ _ (by decide) (by decide))
  all_goals simp only [List.append_eq, List.nil_append, List.cons_append]
  all_goals first
    | (intro h; exact absurd h (by decide))
    | (intro _ r hr'; subst hr'; have := hr.of_cons; simp [fuse, lexClass] at this)
    | skip
  all_goals
    simp (disch := decide) only [nextToken, special_identStart hcc, special_numeric hcc, Bool.false_eq_true,
      if_false, if_true, Char.reduceEq, greater, lesser]
  all_goals
    cases rest with
    | nil => rfl
    | cons d r =>
      have := hr.of_cons
      simp only [fuse, lexClass, Bool.or_eq_false_iff, beq_eq_false_iff_ne, ne_eq] at this
      simp [this]

/-- the one-token lemma: at a token boundary, a lexeme of `t` followed by text that does not continue it is read
    as `t`, leaving exactly that text -/
theorem lexeme_reads [NumOps N] {cc : CharClass} (hcc : cc.AsciiOk) {t : Token N} {x : Str} (rest : Str)
    (hx : Lexeme cc t x) (hr : NoCont cc t x rest) : ReadsAs cc (x ++ rest) t rest := by
  cases hx with
  | punct h => exact punct_reads hcc x rest t h hr
  | word hs hk =>
    have := identShape_reads (N := N) hcc x rest hs (by rw [← kwToken_fuse cc _ x t hk]; exact hr)
    rw [hk] at this; exact this
  | ident hs hk =>
    have := identShape_reads (N := N) hcc x rest hs hr
    rw [hk] at this; exact this
  | num hs hp =>
    obtain ⟨c, cs, h1, h2, h3⟩ := numShape_reads (N := N) hcc x rest hs hr
    rw [hp] at h3
    exact ⟨c, cs, h1, h2, h3⟩
  | str => exact quote_reads hcc _ rest hr

theorem Lexeme.ne_nil [NumOps N] {cc : CharClass} {t : Token N} {x : Str} (hx : Lexeme cc t x) : x ≠ [] := by
  cases hx with
  | punct h =>
    simp only [Scanner.punct, List.mem_cons, Prod.mk.injEq, List.not_mem_nil, or_false] at h
    rcases h with ⟨rfl, _⟩ | ⟨rfl, _⟩ | ⟨rfl, _⟩ | ⟨rfl, _⟩ | ⟨rfl, _⟩ | ⟨rfl, _⟩ | ⟨rfl, _⟩ |
      ⟨rfl, _⟩ | ⟨rfl, _⟩ | ⟨rfl, _⟩ | ⟨rfl, _⟩ | ⟨rfl, _⟩ | ⟨rfl, _⟩ | ⟨rfl, _⟩ | ⟨rfl, _⟩ <;> simp
  | word hs _ => intro h; subst h; simp [identShape] at hs
  | ident hs _ => intro h; subst h; simp [identShape] at hs
  | num hs _ => intro h; subst h; simp [numShape] at hs
  | str => simp [quote]

/-- every token consumes at least its first character -/
theorem nextToken_length [NumOps N] (cc : CharClass) (c : Char) (cs : Str) (t : Token N) (rest : Str)
    (h : nextToken cc c cs = .ok (t, rest)) : rest.length ≤ cs.length := by
  have hdw : ∀ (p : Char → Bool) (l : Str), (l.dropWhile p).length ≤ l.length := fun p l =>
    List.Sublist.length_le (List.dropWhile_sublist p)
  have hnum : ∀ r, number (N := N) cc c cs = .ok (t, r) → r.length ≤ cs.length := by
    intro r hn
    simp only [number] at hn
    split at hn
    · cases hn
      simp only [numberLex]
      split
      · rename_i r' hr'
        have h1 := hdw cc.isNumeric cs
        have h2 := hdw cc.isNumeric r'
        rw [hr'] at h1; simp only [List.length_cons] at h1
        simp only; omega
      · exact hdw _ _
    · cases hn
  rw [nextToken] at h
  by_cases h1 : isIdentStart cc c = true
  · rw [if_pos h1] at h; cases h; exact hdw _ _
  rw [if_neg h1] at h
  by_cases h2 : cc.isNumeric c = true
  · rw [if_pos h2] at h; exact hnum _ h
  rw [if_neg h2] at h
  by_cases h3 : c = '\''
  · rw [if_pos h3] at h
    simp only [string] at h
    split at h
    · cases h
    · rename_i raw f r hs
      cases h
      exact Nat.le_of_lt (strRaw_length cs _ hs)
  rw [if_neg h3] at h
  by_cases h4 : c = '.'
  · rw [if_pos h4] at h; exact hnum _ h
  rw [if_neg h4] at h
  by_cases hc : c = '('
  · rw [if_pos hc] at h; cases h; exact Nat.le_refl _
  rw [if_neg hc] at h; clear hc
  by_cases hc : c = ')'
  · rw [if_pos hc] at h; cases h; exact Nat.le_refl _
  rw [if_neg hc] at h; clear hc
  by_cases hc : c = '['
  · rw [if_pos hc] at h; cases h; exact Nat.le_refl _
  rw [if_neg hc] at h; clear hc
  by_cases hc : c = ']'
  · rw [if_pos hc] at h; cases h; exact Nat.le_refl _
  rw [if_neg hc] at h; clear hc
  by_cases hc : c = ','
  · rw [if_pos hc] at h; cases h; exact Nat.le_refl _
  rw [if_neg hc] at h; clear hc
  by_cases hc : c = '+'
  · rw [if_pos hc] at h; cases h; exact Nat.le_refl _
  rw [if_neg hc] at h; clear hc
  by_cases hc : c = '-'
  · rw [if_pos hc] at h; cases h; exact Nat.le_refl _
  rw [if_neg hc] at h; clear hc
  by_cases hc : c = '*'
  · rw [if_pos hc] at h; cases h; exact Nat.le_refl _
  rw [if_neg hc] at h; clear hc
  by_cases hc : c = '/'
  · rw [if_pos hc] at h; cases h; exact Nat.le_refl _
  rw [if_neg hc] at h; clear hc
  by_cases hc : c = '='
  · rw [if_pos hc] at h; cases h; exact Nat.le_refl _
  rw [if_neg hc] at h; clear hc
  by_cases hg : c = '>'
  · rw [if_pos hg] at h
    simp only [greater] at h
    split at h
    · split at h <;> cases h <;> simp
    · cases h; simp
  rw [if_neg hg] at h
  by_cases hl : c = '<'
  · rw [if_pos hl] at h
    simp only [lesser] at h
    split at h
    · split at h
      · cases h; simp
      · split at h <;> cases h <;> simp
    · cases h; simp
  rw [if_neg hl] at h
  cases h

end
end Scanner
end Slac
