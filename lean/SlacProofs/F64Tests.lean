/-
  SlacProofs.F64Tests — kernel-evaluated (`decide +kernel`) facts about the driver's doubles on concrete inputs:
  labelled TESTS (finite samples), not theorems about all numbers.  Used as non-vacuity witnesses by C17.
-/
import SlacProofs.F64Parse
import SlacModel.Registry
set_option autoImplicit false
namespace Slac
namespace F64Tests
open F64 Stdlib


/-- the boundary values of the C17 round-trip test list -/
def samples : List Float :=
  [ Float.ofBits 0, Float.ofBits 0x8000000000000000, 1, -1, 0.1, -0.1, 5e-324, -5e-324,
    1.7976931348623157e308, -1.7976931348623157e308, F64.ofInt (2^53 + 1), F64.ofInt (2^53 + 2), 9007199254740993,
    0.30000000000000004, 0.3, 1e21, 1e22, 1e23, 1e-7, 123456789.125, 2.2250738585072014e-308, 2.225073858507201e-308,
    4.9406564584124654e-324, 1e300, 0.5, 255, 65.5, 3735928559.1234, F64.inf, -F64.inf, F64.nan ]

set_option maxRecDepth 100000 in
theorem roundtrip_samples : ∀ x ∈ samples, parse (display x) = some x := by decide +kernel

theorem display_texts :
    display 0.1 = ['0','.','1'] ∧ display 1 = ['1'] ∧ display (-1.5) = ['-','1','.','5'] ∧
    display 0.30000000000000004 = ['0','.','3','0','0','0','0','0','0','0','0','0','0','0','0','0','0','0','4'] ∧
    display 1e21 = ['1','0','0','0','0','0','0','0','0','0','0','0','0','0','0','0','0','0','0','0','0','0'] ∧
    display 5e-324 = ['0','.'] ++ List.replicate 323 '0' ++ ['5'] ∧
    display 123456789.125 = ['1','2','3','4','5','6','7','8','9','.','1','2','5'] := by decide +kernel

/-- round: ties away from zero; the largest double below 0.5 rounds to 0 -/
theorem round_ties :
    round 0.5 = 1 ∧ round 1.5 = 2 ∧ round 2.5 = 3 ∧ round (-0.5) = -1 ∧ round (-2.5) = -3 ∧
    round 0.49999999999999994 = Float.ofBits 0 ∧ round (-0.49999999999999994) = Float.ofBits 0x8000000000000000 ∧
    round 10.4 = 10 ∧ round 10.5 = 11 ∧ round (-10.4) = -10 ∧ round (-10.5) = -11 ∧
    round 4503599627370495.5 = 4503599627370496 ∧ round 4503599627370497 = 4503599627370497 := by decide +kernel

/-- even/odd beyond the integers: `floor` first (so -2.5 ↦ -3 is odd), huge doubles are even, NaN/inf are "odd" -/
theorem even_samples :
    isEven (2.5 : Float) = true ∧ isEven (-2.5 : Float) = false ∧ isEven (1e300 : Float) = true ∧
    isEven (F64.ofInt (2^53 + 2)) = true ∧ isEven (F64.ofInt (2^60)) = true ∧ isEven (9007199254740994 : Float) = true ∧
    isEven (F64.nan) = false ∧ isEven (F64.inf) = false ∧ isEven (-F64.inf) = false ∧
    isEven (Float.ofBits 0x8000000000000000) = true ∧ isEven (0.5 : Float) = true ∧ isEven (-0.5 : Float) = false := by
  decide +kernel

theorem hex_samples :
    NumX.toI64 (NumOps.trunc (3735928559.1234 : Float)) = 3735928559 ∧
    upperHexDigits 3735928559 = ['D','E','A','D','B','E','E','F'] ∧
    NumX.toI64 (NumOps.trunc (-1 : Float)) = -1 ∧
    upperHexDigits ((2:Int)^64 + -1).toNat = List.replicate 16 'F' ∧
    NumX.toI64 (NumOps.trunc (F64.nan)) = 0 ∧ NumX.toI64 (NumOps.trunc (1e300 : Float)) = 2^63 - 1 ∧
    NumX.toI64 (NumOps.trunc (-1e300 : Float)) = -(2^63) ∧ NumX.toI64 (NumOps.trunc (12345 : Float)) = 12345 ∧
    upperHexDigits 12345 = ['3','0','3','9'] := by decide +kernel

theorem chr_samples :
    NumX.inAscii (65.5 : Float) = true ∧ NumX.toU32 (65.5 : Float) = 65 ∧
    NumX.inAscii (127.5 : Float) = false ∧ NumX.inAscii (-0.5 : Float) = false ∧
    NumX.inAscii (Float.ofBits 0x8000000000000000) = true ∧ NumX.inAscii F64.nan = false ∧
    NumX.inAscii (128 : Float) = false ∧ NumX.inAscii (127 : Float) = true ∧ NumX.inAscii (0.99 : Float) = true ∧
    NumX.toU32 (0.99 : Float) = 0 := by decide +kernel

theorem trunc_frac_samples :
    trunc (2.75 : Float) = 2 ∧ fract (2.75 : Float) = 0.75 ∧ trunc (-2.75 : Float) = -2 ∧ fract (-2.75 : Float) = -0.75 ∧
    trunc (0.1 : Float) + fract (0.1 : Float) = 0.1 ∧ trunc (1e300 : Float) = 1e300 ∧ fract (1e300 : Float) = Float.ofBits 0 := by
  decide +kernel

/-- the isolated hypothesis of `F64.parse_display` (the shortest-digits search succeeds) on boundary values -/
theorem searchOk_samples : ∀ x ∈ [(0.1 : Float), 5e-324, 1.7976931348623157e308, 0.30000000000000004, -1.5, 1e21,
    F64.ofInt (2^53 + 1), 2.2250738585072014e-308], DisplaySearchOk x := by decide +kernel

end F64Tests
end Slac
