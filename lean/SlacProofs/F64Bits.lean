/-
  SlacProofs.F64Bits — bridge between core's logical float model (`Float.Model`, `UnpackedFloat`) and the
  numeric bit pattern `F64.bits x = x.toBits.toNat` used by SlacModel.Num.
  Core (Init/Data/Float/Model/**) ships NO lemma relating `Float.toBits` and `Float.ofBits` (only
  `valid_pack`, `unpackMantissa_packComponents`, `unpackExponent_packComponents`); everything here is proved from
  the definitions of `pack`/`unpack`:
    * `unpackN`/`packN`: `UnpackedFloat.unpack`/`pack` for binary64 as functions on `Nat`;
    * `bits_ofBits_of`: `toBits (ofBits b) = b` unless b is a non-canonical NaN pattern;
    * `ofBits_bits`: `ofBits (toBits x) = x`;  `eq_of_bits_eq`: a Float is determined by its bits;
    * `bits_valid`: the only NaN pattern a `Float` can carry is 0x7FF8000000000000.
-/
import SlacModel.Num
set_option autoImplicit false
namespace Slac
namespace F64
open Float.Model Float.Model.UnpackedFloat

abbrev B64 := Format.binary64

theorem um_toNat (v : BitVec 64) : (unpackMantissa (spec := B64) v).toNat = v.toNat % 2^52 := by
  simp [unpackMantissa, BitVec.extractLsb, BitVec.extractLsb']
theorem ue_toNat (v : BitVec 64) : (unpackExponent (spec := B64) v).toNat = v.toNat / 2^52 % 2^11 := by
  simp [unpackExponent, BitVec.extractLsb, BitVec.extractLsb', Nat.shiftRight_eq_div_pow]
theorem us_toNat (v : BitVec 64) : (unpackSign (spec := B64) v).toNat = v.toNat / 2^63 := by
  have := v.isLt
  simp [unpackSign, BitVec.extractLsb, BitVec.extractLsb', Nat.shiftRight_eq_div_pow]
  omega
theorem pc_toNat (s : Sign) (e : BitVec 11) (m : BitVec 52) :
    (packComponents B64 s e m).toNat = s.toBitVec.toNat * 2^63 + e.toNat * 2^52 + m.toNat := by
  simp only [packComponents]
  rw [BitVec.toNat_append, BitVec.toNat_append]
  have h1 := e.isLt
  have h2 := m.isLt
  rw [← Nat.shiftLeft_add_eq_or_of_lt h1, ← Nat.shiftLeft_add_eq_or_of_lt h2, Nat.shiftLeft_eq, Nat.shiftLeft_eq]
  omega

theorem e_all (E : BitVec 11) : E = -1#11 ↔ E.toNat = 2047 :=
  ⟨fun h => by rw [h]; rfl, fun h => BitVec.eq_of_toNat_eq (by rw [h]; rfl)⟩
theorem e_zero (E : BitVec 11) : E = 0#11 ↔ E.toNat = 0 :=
  ⟨fun h => by rw [h]; rfl, fun h => BitVec.eq_of_toNat_eq (by rw [h]; rfl)⟩
theorem m_zero (M : BitVec 52) : M = 0#52 ↔ M.toNat = 0 :=
  ⟨fun h => by rw [h]; rfl, fun h => BitVec.eq_of_toNat_eq (by rw [h]; rfl)⟩

/-- sign of a bit pattern -/
def signN (b : Nat) : Sign := if b / 2^63 % 2 = 1 then .negative else .positive
/-- numeric value of the sign bit -/
def sbit : Sign → Nat | .negative => 1 | .positive => 0

theorem sign_ofBitVec (v : BitVec 64) : Sign.ofBitVec (unpackSign (spec := B64) v) = signN v.toNat := by
  have h := us_toNat v
  have hv := v.isLt
  unfold Sign.ofBitVec signN
  have : unpackSign (spec := B64) v = 0#1 ↔ (unpackSign (spec := B64) v).toNat = 0 :=
    ⟨fun h => by rw [h]; rfl, fun h => BitVec.eq_of_toNat_eq (by rw [h]; rfl)⟩
  simp only [this, h]
  split <;> split <;> first | rfl | omega

/-- `UnpackedFloat.unpack` on the numeric value of the bit pattern -/
def unpackN (b : Nat) : UnpackedFloat :=
  let E : Nat := b / 2^52 % 2^11
  let M : Nat := b % 2^52
  let S := signN b
  if E = 2047 then (if M = 0 then .infinity S else .notANumber)
  else if E = 0 then
    (if h : M = 0 then .zero S else .finite S M (-1074) (Nat.pos_of_ne_zero h))
  else .finite S (2^52 + M) ((E : Int) - 1075) (by omega)

theorem unpack_eq (v : BitVec 64) : UnpackedFloat.unpack B64 v = unpackN v.toNat := by
  unfold UnpackedFloat.unpack unpackN
  simp only [e_all, e_zero, m_zero, sign_ofBitVec, um_toNat, ue_toNat]
  have hb : (B64.exponentBias : Int) = 1023 := by decide
  split
  · rfl
  · split
    · split
      · rfl
      · congr 1; rw [hb]; omega
    · congr 1
      · rw [BitVec.toNat_append, ← Nat.shiftLeft_add_eq_or_of_lt (unpackMantissa (spec := B64) v).isLt, um_toNat]
        rfl

/-- `UnpackedFloat.pack` as a number -/
def packN : UnpackedFloat → Nat
  | .notANumber => 0x7FF8000000000000
  | .infinity s => sbit s * 2^63 + 0x7FF0000000000000
  | .zero s => sbit s * 2^63
  | .finite s m e _ =>
    let be := (e + 1075).toNat
    if 2^11 ≤ be + 1 then sbit s * 2^63 + 0x7FF0000000000000
    else if m.log2 + 1 = 53 then sbit s * 2^63 + be * 2^52 + m % 2^52
    else sbit s * 2^63 + m % 2^52

theorem sbit_eq (s : Sign) : s.toBitVec.toNat = sbit s := by cases s <;> rfl

theorem packedInfinity_toNat (s : Sign) : (packedInfinity B64 s).toNat = sbit s * 2^63 + 0x7FF0000000000000 := by
  cases s <;> decide
theorem packedZero_toNat (s : Sign) : (packedZero B64 s).toNat = sbit s * 2^63 := by
  cases s <;> decide
theorem packedNaN_toNat : (packedNaN B64).toNat = 0x7FF8000000000000 := by decide

theorem pack_toNat (f : UnpackedFloat) : (UnpackedFloat.pack B64 f).toNat = packN f := by
  cases f with
  | notANumber => exact packedNaN_toNat
  | infinity s => exact packedInfinity_toNat s
  | zero s => exact packedZero_toNat s
  | finite s m e hm =>
    simp only [UnpackedFloat.pack, packN]
    have hb : (e + (B64.exponentBias : Int) + (B64.mantissaBitsWithoutImplicit : Int)).toNat = (e + 1075).toNat := by
      have : (B64.exponentBias : Int) = 1023 := by decide
      rw [this]; congr 1; simp only []; omega
    rw [hb]
    split
    · exact packedInfinity_toNat s
    · split
      · rename_i h1 h2
        rw [if_pos (by simpa [Format.mantissaBits] using h2)]
        simp only [pc_toNat, sbit_eq, BitVec.toNat_ofNat]
        rw [Nat.mod_eq_of_lt (by omega : (e + 1075).toNat < 2^11)]
      · rename_i h1 h2
        rw [if_neg (by simpa [Format.mantissaBits] using h2)]
        simp only [pc_toNat, sbit_eq, BitVec.toNat_ofNat]
        show sbit s * 2 ^ 63 + 0 * 2 ^ 52 + m % 2 ^ 52 = _
        omega

theorem bits_def (x : Float) : bits x = x.toModel.toBits.toBitVec.toNat := rfl

theorem bits_lt (x : Float) : bits x < 2^64 := x.toModel.toBits.toBitVec.isLt

theorem unpack_bits (x : Float) : x.toModel.unpack = unpackN (bits x) := by
  rw [Float.Model.unpack, unpack_eq]; rfl

theorem bits_ofModel_pack (f : UnpackedFloat) : bits (Float.ofModel (Float.Model.pack f)) = packN f := by
  rw [bits_def]; exact pack_toNat f

theorem eq_of_bits_eq {x y : Float} (h : bits x = bits y) : x = y := by
  cases x with | ofModel mx => cases y with | ofModel my =>
  cases mx with | mk bx vx => cases my with | mk b_y vy =>
  have : bx = b_y := by
    cases bx with | ofBitVec vbx => cases b_y with | ofBitVec vby =>
    have : vbx = vby := BitVec.eq_of_toNat_eq h
    rw [this]
  subst this; rfl

/-- a NaN bit pattern inside a `Float` is the canonical one -/
theorem bits_valid (x : Float) (h : bits x / 2^52 % 2^11 = 2047) (hm : bits x % 2^52 ≠ 0) :
    bits x = 0x7FF8000000000000 := by
  have hv := x.toModel.valid
  have := hv.eq_packedNaN (by rw [e_all, ue_toNat]; exact h) (by rw [Ne, m_zero, um_toNat]; exact hm)
  rw [bits_def, this]; exact packedNaN_toNat

theorem log2_lt_of (m k : Nat) (h : m < 2^k) (h0 : m ≠ 0) : m.log2 < k := (Nat.log2_lt h0).2 h
theorem log2_eq_of (m k : Nat) (h1 : 2^k ≤ m) (h2 : m < 2^(k+1)) : m.log2 = k := by
  have h0 : m ≠ 0 := by have := Nat.two_pow_pos k; omega
  have := (Nat.log2_lt h0).2 h2
  have := (Nat.le_log2 h0).2 h1
  omega

theorem sbit_signN (b : Nat) : sbit (signN b) = b / 2^63 % 2 := by
  unfold signN; split <;> simp [sbit] <;> omega

theorem packN_unpackN (b : Nat) (hb : b < 2^64)
    (h : b / 2^52 % 2^11 = 2047 → b % 2^52 ≠ 0 → b = 0x7FF8000000000000) : packN (unpackN b) = b := by
  unfold unpackN
  simp only []
  have hs := sbit_signN b
  split
  · rename_i hE
    split
    · simp only [packN]; omega
    · rename_i hM
      simp only [packN]; exact (h hE hM).symm
  · rename_i hE
    split
    · rename_i hE0
      split
      · simp only [packN]; omega
      · rename_i hM
        simp only [packN]
        have hl : (b % 2^52).log2 < 52 := log2_lt_of _ _ (Nat.mod_lt _ (by decide)) hM
        rw [if_neg (by omega), if_neg (by omega)]
        omega
    · rename_i hE0
      simp only [packN]
      have hl : (2^52 + b % 2^52).log2 = 52 := log2_eq_of _ _ (by omega) (by omega)
      rw [if_neg (by omega), if_pos (by omega)]
      omega

theorem bits_ofBits (b : UInt64) : bits (Float.ofBits b) = packN (unpackN b.toNat) := by
  unfold Float.ofBits Float.Model.ofBits
  rw [bits_ofModel_pack, unpack_eq]; rfl

/-- `toBits ∘ ofBits` is the identity away from non-canonical NaN patterns -/
theorem bits_ofBits_of (b : UInt64)
    (h : b.toNat / 2^52 % 2^11 = 2047 → b.toNat % 2^52 ≠ 0 → b.toNat = 0x7FF8000000000000) :
    bits (Float.ofBits b) = b.toNat := by
  rw [bits_ofBits]; exact packN_unpackN _ b.toBitVec.isLt h

theorem ofBits_bits (x : Float) : Float.ofBits x.toBits = x := by
  apply eq_of_bits_eq
  rw [bits_ofBits_of]; rfl
  exact bits_valid x

/-! ### case lemmas for `unpackN` -/
theorem unpackN_normal (b : Nat) (h1 : b / 2^52 % 2^11 ≠ 2047) (h0 : b / 2^52 % 2^11 ≠ 0) :
    unpackN b = .finite (signN b) (2^52 + b % 2^52) (((b / 2^52 % 2^11 : Nat) : Int) - 1075) (by omega) := by
  unfold unpackN; simp only []; rw [if_neg h1, if_neg h0]
theorem unpackN_subnormal (b : Nat) (h0 : b / 2^52 % 2^11 = 0) (hM : b % 2^52 ≠ 0) :
    unpackN b = .finite (signN b) (b % 2^52) (-1074) (Nat.pos_of_ne_zero hM) := by
  unfold unpackN; simp only []; rw [if_neg (by omega), if_pos h0, dif_neg hM]
theorem unpackN_zero (b : Nat) (h0 : b / 2^52 % 2^11 = 0) (hM : b % 2^52 = 0) : unpackN b = .zero (signN b) := by
  unfold unpackN; simp only []; rw [if_neg (by omega), if_pos h0, dif_pos hM]
theorem unpackN_inf (b : Nat) (h1 : b / 2^52 % 2^11 = 2047) (hM : b % 2^52 = 0) : unpackN b = .infinity (signN b) := by
  unfold unpackN; simp only []; rw [if_pos h1, if_pos hM]
theorem unpackN_nan (b : Nat) (h1 : b / 2^52 % 2^11 = 2047) (hM : b % 2^52 ≠ 0) : unpackN b = .notANumber := by
  unfold unpackN; simp only []; rw [if_pos h1, if_neg hM]

end F64
end Slac
