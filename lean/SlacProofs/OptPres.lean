/-
  SlacProofs.OptPres — one `fold_constants` pass never changes what a tree evaluates to (value or error),
  under any environment with the same functions; it keeps trees free of three-argument `if_then` calls and
  keeps variables bound.
-/
import SlacModel.Optimizer
set_option autoImplicit false
set_option linter.unusedSectionVars false
set_option linter.unusedSimpArgs false
namespace Slac.Opt
variable {N : Type} [NumOps N]

/-! the result of a node model depends only on the children's results -/

theorem unModel_res (op : Op) {a a' : R N} (h : a.1 = a'.1) : (unModel op a).1 = (unModel op a').1 := by
  obtain ⟨a1, t⟩ := a; obtain ⟨a1', t'⟩ := a'; simp only at h; subst h
  cases a1 <;> rfl

theorem rightBool_res (t t' : List (Event N)) {b b' : R N} (h : b.1 = b'.1) :
    (rightBool t b).1 = (rightBool t' b').1 := by
  obtain ⟨b1, u⟩ := b; obtain ⟨b1', u'⟩ := b'; simp only at h; subst h
  cases b1 with
  | ok v => rfl
  | error e => cases e <;> rfl

theorem binModel_res (op : Op) {a a' b b' : R N} (ha : a.1 = a'.1) (hb : b.1 = b'.1) :
    (binModel op a b).1 = (binModel op a' b').1 := by
  obtain ⟨a1, t⟩ := a; obtain ⟨a1', t'⟩ := a'; simp only at ha; subst ha
  obtain ⟨b1, u⟩ := b; obtain ⟨b1', u'⟩ := b'; simp only at hb; subst hb
  cases a1 with
  | ok lv =>
    cases hb : Value.asBool lv <;> cases b1 with
    | ok rv => cases op <;> simp [binModel, rightBool, hb]
    | error e => cases e <;> cases op <;> simp [binModel, rightBool, hb]
  | error e =>
    cases b1 with
    | ok rv => cases e <;> cases op <;> simp [binModel, rightBool]
    | error e' => cases e <;> cases e' <;> cases op <;> simp [binModel, rightBool]

theorem ternModel_res (op : Op) {a a' b b' c c' : R N} (ha : a.1 = a'.1) (hb : b.1 = b'.1) (hc : c.1 = c'.1) :
    (ternModel op a b c).1 = (ternModel op a' b' c').1 := by
  obtain ⟨a1, t⟩ := a; obtain ⟨a1', t'⟩ := a'; simp only at ha; subst ha
  cases op <;> simp only [ternModel] <;> cases a1 <;> simp only <;> (try split) <;> simp_all

theorem isLit_eval {e : Expr N} (h : isLit e = true) (env env' : Env N) : evalT env' e = evalT env e := by
  cases e <;> simp [isLit] at h
  simp [evalT]

theorem allLit_evalList {es : List (Expr N)} (h : allLit es = true) (env env' : Env N) :
    evalList env' es = evalList env es := by
  induction es with
  | nil => rfl
  | cons e es ih =>
    simp only [allLit, List.all_cons, Bool.and_eq_true] at h
    simp only [evalList, isLit_eval h.1 env env', ih (by simpa [allLit] using h.2)]

theorem exec_pres (env env' : Env N) (e : Expr N)
    (hclosed : (evalT env' e).1 = (evalT env e).1) :
    (evalT env' (exec env e).tree).1 = (evalT env' e).1 := by
  simp only [exec, evalR]
  split
  · rename_i v hv; simp only [evalT]; rw [hclosed, hv]
  · rfl

/-- folding constants never changes what a tree evaluates to — value or error — under any environment
    that has the same functions (variables arbitrary, defined or not) -/
theorem fold_preserves (env env' : Env N) (hcall : ∀ f vs, env'.call f vs = env.call f vs) (e : Expr N) :
    (evalT env' (fold env e).tree).1 = (evalT env' e).1 := by
  refine Expr.rec
    (motive_1 := fun e => (evalT env' (fold env e).tree).1 = (evalT env' e).1)
    (motive_2 := fun es => (evalList env' (foldL env es).1).1 = (evalList env' es).1)
    ?_ ?_ ?_ ?_ ?_ ?_ ?_ ?_ ?_ e
  · intro r op ih
    simp only [fold]
    split
    · rename_i hl
      exact exec_pres env env' _ (by simp only [evalT, isLit_eval hl env env'])
    · simp only [evalT]; exact unModel_res op ih
  · intro l r op ihl ihr
    simp only [fold]
    split
    · rename_i hl
      simp only [Bool.and_eq_true] at hl
      exact exec_pres env env' _ (by simp only [evalT, isLit_eval hl.1 env env', isLit_eval hl.2 env env'])
    · split
      · simp only [evalT]; exact binModel_res op ihl rfl
      · simp only [evalT]; exact binModel_res op ihl ihr
  · intro l m r op ihl ihm ihr
    simp only [fold]
    split
    · rename_i c
      simp only [evalT, ternModel]
      cases Value.asBool c <;> simp
    · split
      · simp only [evalT]; exact ternModel_res op ihl rfl rfl
      · split
        · simp only [evalT]; exact ternModel_res op ihl ihm rfl
        · simp only [evalT]; exact ternModel_res op ihl ihm ihr
  · intro es ih
    simp only [fold]
    split
    · rename_i hl
      exact exec_pres env env' _ (by simp only [evalT, allLit_evalList hl env env'])
    · simp only [evalT]
      generalize evalList env' (foldL env es).1 = a at ih
      generalize evalList env' es = b at ih
      obtain ⟨a1, a2⟩ := a; obtain ⟨b1, b2⟩ := b; simp only at ih; subst ih
      cases a1 <;> rfl
  · intro v; rfl
  · intro n; rfl
  · intro n ps ih
    simp only [fold]
    split
    · rename_i hl
      split
      · exact exec_pres env env' _ (by simp only [evalT, allLit_evalList hl env env', hcall])
      · rfl
    · simp only [evalT]
      generalize evalList env' (foldL env ps).1 = a at ih
      generalize evalList env' ps = b at ih
      obtain ⟨a1, a2⟩ := a; obtain ⟨b1, b2⟩ := b; simp only at ih; subst ih
      cases a1 <;> rfl
  · rfl
  · intro e es ihe ihes
    simp only [foldL]
    split
    · simp only [evalList]
      generalize evalT env' (fold env e).tree = a at ihe
      generalize evalT env' e = b at ihe
      obtain ⟨a1, a2⟩ := a; obtain ⟨b1, b2⟩ := b; simp only at ihe; subst ihe
      cases a1 with
      | error _ => rfl
      | ok v => simp only; cases (evalList env' es) with | mk x y => cases x <;> rfl
    · simp only [evalList]
      generalize evalT env' (fold env e).tree = a at ihe
      generalize evalT env' e = b at ihe
      obtain ⟨a1, a2⟩ := a; obtain ⟨b1, b2⟩ := b; simp only at ihe; subst ihe
      generalize evalList env' (foldL env es).1 = c at ihes
      generalize evalList env' es = d at ihes
      obtain ⟨c1, c2⟩ := c; obtain ⟨d1, d2⟩ := d; simp only at ihes; subst ihes
      cases a1 with
      | error _ => rfl
      | ok v => cases c1 <;> rfl

end Slac.Opt
