/-
  SlacProofs.Refine — the interpreter model (`evalT`) refines the language definition (`spec`):
  value, winning error and trace, for every tree, environment and number implementation.
-/
import SlacModel.Spec
set_option autoImplicit false
set_option linter.unusedSectionVars false
set_option linter.unusedSimpArgs false
namespace Slac
variable {N : Type} [NumOps N]

inductive Rel : SRes N → Except Err (Value N) → Prop
  | val (v : Value N) : Rel (.val v) (.ok v)
  | undef (n : Str) : Rel (.undef n) (.error (.undefinedVariable n))
  | fail (e : Err) : (∀ n, e ≠ .undefinedVariable n) → Rel (.fail e) (.error e)

inductive RelL : (List (Value N) ⊕ SRes N) → Except Err (List (Value N)) → Prop
  | ok (vs : List (Value N)) : RelL (.inl vs) (.ok vs)
  | err {r : SRes N} {e : Err} : Rel r (.error e) → RelL (.inr r) (.error e)

/-- result-and-trace pairs agree -/
def RelP (s : SR N) (m : R N) : Prop := Rel s.1 m.1 ∧ s.2 = m.2

theorem rel_ofExcept (x : Except Err (Value N)) : Rel (SRes.ofExcept x) x := by
  cases x with
  | ok v => exact .val v
  | error e => cases e <;> first | exact .undef _ | exact .fail _ (by intro n h; cases h)

theorem Rel.fail' {e : Err} (h : ∀ n, e ≠ .undefinedVariable n) : Rel (N := N) (.fail e) (.error e) := .fail e h

macro "relfin" : tactic => `(tactic| (constructor <;> first | rfl | trivial | assumption | exact Rel.val _ | exact Rel.undef _ | exact rel_ofExcept _ | (apply Rel.fail; intro n h; cases h)))

theorem un_ok (op : Op) {s : SR N} {m : R N} (h : RelP s m) : RelP (unSpec op s) (unModel op m) := by
  obtain ⟨s1, s2⟩ := s; obtain ⟨m1, m2⟩ := m
  obtain ⟨h1, h2⟩ := h; simp only at h1 h2; subst h2
  cases h1 with
  | val v =>
    cases op <;> simp only [unSpec, unModel, Value.not]
    case minus => cases v <;> simp only [Value.neg] <;> relfin
    all_goals relfin
  | undef n => simp only [unSpec, unModel]; relfin
  | fail e he => simp only [unSpec, unModel]; exact ⟨.fail e he, rfl⟩

macro "crush" : tactic => `(tactic| (
  simp only [binSpec, binModel, rightBool, Op.cls, SRes.toOpd, Opd.truthy, Opd.eq, binVal, SRes.ofExcept, RelP]
  <;> (repeat' split) <;> (try simp_all) <;> (try relfin) <;>
  (try (first | exact Rel.val _ | exact Rel.undef _ | exact rel_ofExcept _ | (apply Rel.fail; intro n h; cases h)))))

theorem bin_ok (op : Op) {sl sr : SR N} {ml mr : R N} (hl : RelP sl ml) (hr : RelP sr mr) :
    RelP (binSpec op sl sr) (binModel op ml mr) := by
  obtain ⟨sl1, sl2⟩ := sl; obtain ⟨ml1, ml2⟩ := ml
  obtain ⟨sr1, sr2⟩ := sr; obtain ⟨mr1, mr2⟩ := mr
  obtain ⟨hl1, hl2⟩ := hl; obtain ⟨hr1, hr2⟩ := hr
  simp only at hl1 hl2 hr1 hr2; subst hl2; subst hr2
  cases hl1 with
  | val lv =>
    cases hb : Value.asBool lv <;>
    cases hr1 with
    | val rv => cases op <;> crush
    | undef n => cases op <;> crush
    | fail e he =>
      cases e <;> first | exact absurd rfl (he _) | skip
      all_goals (cases op <;> crush)
  | undef n =>
    cases hr1 with
    | val rv => cases op <;> crush
    | undef n' => cases op <;> crush
    | fail e he =>
      cases e <;> first | exact absurd rfl (he _) | skip
      all_goals (cases op <;> crush)
  | fail e he =>
    cases e <;> first | exact absurd rfl (he _) | skip
    all_goals (cases op <;> crush)
theorem tern_ok (op : Op) {sc sm sr : SR N} {mc mm mr : R N} (hc : RelP sc mc) (hm : RelP sm mm) (hr : RelP sr mr) :
    RelP (ternSpec op sc sm sr) (ternModel op mc mm mr) := by
  obtain ⟨sc1, sc2⟩ := sc; obtain ⟨mc1, mc2⟩ := mc
  obtain ⟨hc1, hc2⟩ := hc; obtain ⟨hm1, hm2⟩ := hm; obtain ⟨hr1, hr2⟩ := hr
  simp only at hc1 hc2; subst hc2
  by_cases hop : op = .ternaryCondition
  · subst hop
    simp only [ternSpec, ternModel, if_true]
    cases hc1 with
    | val cv =>
      simp only
      cases Value.asBool cv <;> simp [RelP, *]
    | undef n => exact ⟨.undef n, rfl⟩
    | fail e he => exact ⟨.fail e he, rfl⟩
  · simp only [ternSpec, if_neg hop]
    cases op <;> first | exact absurd rfl hop | (simp only [ternModel]; relfin)

def P (env : Env N) (e : Expr N) : Prop := RelP (spec env e) (evalT env e)
def PL (env : Env N) (es : List (Expr N)) : Prop :=
  RelL (specList env es).1 (evalList env es).1 ∧ (specList env es).2 = (evalList env es).2

theorem P_array (env : Env N) (es : List (Expr N)) (ih : PL env es) : P env (.array es) := by
  obtain ⟨h1, h2⟩ := ih
  simp only [P, spec, evalT]
  generalize specList env es = s at h1 h2
  generalize evalList env es = m at h1 h2
  obtain ⟨s1, s2⟩ := s; obtain ⟨m1, m2⟩ := m
  simp only at h1 h2; subst h2
  cases h1 with
  | ok vs => relfin
  | err h => relfin

theorem P_call (env : Env N) (f : Str) (es : List (Expr N)) (ih : PL env es) : P env (.call f es) := by
  obtain ⟨h1, h2⟩ := ih
  simp only [P, spec, evalT]
  generalize specList env es = s at h1 h2
  generalize evalList env es = m at h1 h2
  obtain ⟨s1, s2⟩ := s; obtain ⟨m1, m2⟩ := m
  simp only at h1 h2; subst h2
  cases h1 with
  | ok vs =>
    simp only
    cases env.call f vs with
    | ok v => relfin
    | error ne => relfin
  | err h => relfin

theorem PL_cons (env : Env N) (e : Expr N) (es : List (Expr N)) (ih1 : P env e) (ih2 : PL env es) : PL env (e :: es) := by
  obtain ⟨h1, h2⟩ := ih1; obtain ⟨g1, g2⟩ := ih2
  simp only [PL, specList, evalList]
  generalize spec env e = s at h1 h2
  generalize evalT env e = m at h1 h2
  generalize specList env es = sl at g1 g2
  generalize evalList env es = ml at g1 g2
  obtain ⟨s1, s2⟩ := s; obtain ⟨m1, m2⟩ := m; obtain ⟨sl1, sl2⟩ := sl; obtain ⟨ml1, ml2⟩ := ml
  simp only at h1 h2 g1 g2; subst h2; subst g2
  cases h1 with
  | val v =>
    cases g1 with
    | ok vs => exact ⟨.ok _, rfl⟩
    | err h => exact ⟨.err h, rfl⟩
  | undef n => exact ⟨.err (.undef n), rfl⟩
  | fail e he => exact ⟨.err (.fail e he), rfl⟩

/-- C03 + C04 (prototype): the interpreter model computes exactly the value, winning error and
    environment-event trace that the language definition prescribes — for every tree, every
    environment and every number implementation. -/
theorem eval_refines_spec (env : Env N) (e : Expr N) : P env e := by
  refine Expr.rec (motive_1 := fun e => P env e) (motive_2 := fun es => PL env es)
    ?_ ?_ ?_ ?_ ?_ ?_ ?_ ?_ ?_ e
  · intro r op ih; exact un_ok op ih
  · intro l r op ihl ihr; exact bin_ok op ihl ihr
  · intro l m r op ihl ihm ihr; exact tern_ok op ihl ihm ihr
  · intro es ih; exact P_array env es ih
  · intro v; simp only [P, spec, evalT]; relfin
  · intro n
    simp only [P, spec, evalT]
    cases env.var n <;> relfin
  · intro f ps ih; exact P_call env f ps ih
  · exact ⟨.ok [], rfl⟩
  · intro e es ih1 ih2; exact PL_cons env e es ih1 ih2

theorem toExcept_of_rel {s : SRes N} {m : Except Err (Value N)} (h : Rel s m) : s.toExcept = m := by
  cases h <;> rfl

theorem execute_eq_spec (env : Env N) (e : Expr N) :
    (spec env e).1.toExcept = (evalT env e).1 ∧ (spec env e).2 = (evalT env e).2 :=
  ⟨toExcept_of_rel (eval_refines_spec env e).1, (eval_refines_spec env e).2⟩

end Slac
