/-
  SlacProofs.F64Int — integers as doubles: `F64.ofInt n` for 0 < |n| < 2^53 is the canonical float with
  mantissa |n|·2^(52-log2|n|) and exponent log2|n|-52 (`ofInt_eq`); `trunc`/`floor` fix integer-valued floats;
  C `fmod` of canonical floats (`rem_mkF`); and the C17 fact `isEven_ofInt`:
  `Stdlib.isEven (F64.ofInt n) = decide (n % 2 = 0)` for every integer |n| ≤ 2^53.
-/
import SlacProofs.F64Round
import SlacProofs.F64Trunc
import SlacModel.Stdlib
set_option autoImplicit false
namespace Slac
namespace F64
open Float.Model Float.Model.UnpackedFloat

theorem sbit_le (s : Sign) : sbit s ≤ 1 := by cases s <;> simp [sbit]

/-- magnitude bits of a canonical float -/
def magOf (m : Nat) (e : Int) : Nat := if m.log2 = 52 then (e + 1075).toNat * 2^52 + (m - 2^52) else m

theorem bits_mkF2 (s : Sign) (m : Nat) (e : Int) (h : Canon m e) :
    bits (mkF s m e h.pos) = sbit s * 2^63 + magOf m e := bits_mkF s m e h

theorem magOf_lt (m : Nat) (e : Int) (h : Canon m e) : magOf m e < 0x7FF0000000000000 := by
  have hlt := h.lt; have hle := h.le
  have hm0 : m ≠ 0 := by have := h.pos; omega
  unfold magOf
  rcases h.cases with ⟨hl, he⟩ | ⟨hl, he⟩
  · rw [if_pos hl]
    have h52 : 2^52 ≤ m := (Nat.le_log2 hm0).1 (by omega)
    omega
  · rw [if_neg (by omega)]
    have h52 : m < 2^52 := (Nat.log2_lt hm0).1 hl
    omega

theorem magOf_pos (m : Nat) (e : Int) (h : Canon m e) : 0 < magOf m e := by
  have hm0 : m ≠ 0 := by have := h.pos; omega
  unfold magOf
  rcases h.cases with ⟨hl, he⟩ | ⟨hl, he⟩
  · rw [if_pos hl]; have h52 : 2^52 ≤ m := (Nat.le_log2 hm0).1 (by omega); omega
  · rw [if_neg (by omega)]; omega

theorem decode_mkF (s : Sign) (m : Nat) (e : Int) (h : Canon m e) : decode (mkF s m e h.pos) = (m, e) := by
  have hlt := h.lt; have hle := h.le
  have hm0 : m ≠ 0 := by have := h.pos; omega
  have hs := sbit_le s
  unfold decode
  simp only [expBits_eq, fracBits_eq, bits_mkF2 s m e h]
  unfold magOf
  rcases h.cases with ⟨hl, he⟩ | ⟨hl, he⟩
  · rw [if_pos hl]
    have h52 : 2^52 ≤ m := (Nat.le_log2 hm0).1 (by omega)
    generalize hbe : (e + 1075).toNat = be
    have hE : (sbit s * 2^63 + (be * 2^52 + (m - 2^52))) / 2^52 % 2^11 = be := by omega
    have hM : (sbit s * 2^63 + (be * 2^52 + (m - 2^52))) % 2^52 = m - 2^52 := by omega
    rw [hE, hM]
    have : (be == 0) = false := by simp; omega
    simp only [this]
    simp; omega
  · rw [if_neg (show ¬ m.log2 = 52 by omega)]
    have h52 : m < 2^52 := (Nat.log2_lt hm0).1 hl
    have hE : (sbit s * 2^63 + m) / 2^52 % 2^11 = 0 := by omega
    have hM : (sbit s * 2^63 + m) % 2^52 = m := by omega
    rw [hE, hM]
    simp [he]

theorem signBit_mkF (s : Sign) (m : Nat) (e : Int) (h : Canon m e) :
    signBit (mkF s m e h.pos) = decide (sbit s = 1) := by
  have := magOf_lt m e h
  have := sbit_le s
  rw [signBit_eq, bits_mkF2 s m e h]
  congr 1; apply propext; omega

theorem neg_mkF (s : Sign) (m : Nat) (e : Int) (h : Canon m e) : -(mkF s m e h.pos) = mkF (-s) m e h.pos := by
  show Float.neg _ = _
  unfold Float.neg
  show Float.ofModel (Float.Model.neg _) = _
  unfold Float.Model.neg
  rw [unpack_mkF s m e h]
  rfl

/-- sign of an integer as a float sign -/
def sgnOf (n : Int) : Sign := if n < 0 then .negative else .positive

/-- `n as f64` for 0 < |n| < 2^53: exact, canonical -/
theorem ofInt_eq (n : Int) (h0 : n ≠ 0) (h : n.natAbs < 2^53) :
    F64.ofInt n = mkF (sgnOf n) (n.natAbs * 2^(52 - n.natAbs.log2)) ((n.natAbs.log2 : Int) - 52)
      (canon_ofNat n.natAbs (by omega) h).pos := by
  unfold F64.ofInt sgnOf
  simp only []
  rw [ofScientific_nat n.natAbs (by omega) h]
  split
  · exact neg_mkF _ _ _ (canon_ofNat n.natAbs (by omega) h)
  · rfl

theorem ofNat_eq (n : Nat) (h0 : 0 < n) (h : n < 2^53) :
    F64.ofNat n = mkF .positive (n * 2^(52 - n.log2)) ((n.log2 : Int) - 52) (canon_ofNat n h0 h).pos :=
  ofScientific_nat n h0 h

theorem bits_ofInt_zero : bits (F64.ofInt 0) = 0 := by decide +kernel
theorem bits_zero : bits (0 : Float) = 0 := by decide +kernel
theorem bits_ofNat_zero : bits (F64.ofNat 0) = 0 := by decide +kernel

theorem float_beq_self_mkF (s : Sign) (m : Nat) (e : Int) (h : Canon m e) :
    (mkF s m e h.pos == mkF s m e h.pos) = true := by
  show Float.beq _ _ = true
  unfold Float.beq
  show Float.Model.beq _ _ = true
  unfold Float.Model.beq
  rw [unpack_mkF s m e h]
  unfold UnpackedFloat.beq UnpackedFloat.compare
  cases s <;> simp

/-- a canonical float whose value is an integer is fixed by `trunc` -/
theorem trunc_mkF_int (s : Sign) (m : Nat) (e : Int) (h : Canon m e) (hi : 0 ≤ e ∨ 2^(-e).toNat ∣ m) :
    trunc (mkF s m e h.pos) = mkF s m e h.pos := by
  apply eq_of_bits_eq
  rw [bits_trunc, bits_mkF2 s m e h]
  have hlt := h.lt; have hle := h.le
  have hm0 : m ≠ 0 := by have := h.pos; omega
  have hs := sbit_le s
  by_cases he : 0 ≤ e
  · have hl : m.log2 = 52 := by rcases h.cases with ⟨hl, _⟩ | ⟨_, h2⟩ <;> omega
    have h52 : 2^52 ≤ m := (Nat.le_log2 hm0).1 (by omega)
    unfold magOf; rw [if_pos hl]
    generalize hbe : (e + 1075).toNat = be
    apply truncN_big
    omega
  · have hd : 2^(-e).toNat ∣ m := by rcases hi with hi | hi; exact absurd hi he; exact hi
    generalize hk : (-e).toNat = k at hd
    have hk1 : 1 ≤ k := by omega
    have hkm : 2^k ≤ m := Nat.le_of_dvd h.pos hd
    have hk52 : k ≤ 52 := by
      have : 2^k < 2^53 := by omega
      have := (Nat.pow_lt_pow_iff_right (by decide : 1 < 2)).1 this
      omega
    have hl : m.log2 = 52 := by
      rcases h.cases with ⟨hl, _⟩ | ⟨_, h2⟩
      · exact hl
      · omega
    have h52 : 2^52 ≤ m := (Nat.le_log2 hm0).1 (by omega)
    unfold magOf; rw [if_pos hl]
    generalize hbe : (e + 1075).toNat = be
    have hbe' : be = 1075 - k := by omega
    have hE : (sbit s * 2^63 + (be * 2^52 + (m - 2^52))) / 2^52 % 2^11 = be := by omega
    rw [truncN_mid _ (by rw [hE]; omega) (by rw [hE]; omega), hE]
    have hkk : 1075 - be = k := by omega
    rw [hkk]
    apply Nat.div_mul_cancel
    have d52 : 2^k ∣ 2^52 := Nat.pow_dvd_pow 2 hk52
    have d63 : 2^k ∣ 2^63 := Nat.pow_dvd_pow 2 (by omega)
    exact Nat.dvd_add (Nat.dvd_mul_left_of_dvd d63 _)
      (Nat.dvd_add (Nat.dvd_mul_left_of_dvd d52 _) (Nat.dvd_sub hd d52))

theorem floor_mkF_int (s : Sign) (m : Nat) (e : Int) (h : Canon m e) (hi : 0 ≤ e ∨ 2^(-e).toNat ∣ m) :
    floor (mkF s m e h.pos) = mkF s m e h.pos := by
  unfold floor
  simp only [trunc_mkF_int s m e h hi, float_beq_self_mkF s m e h]
  simp

theorem mag_mkF (s : Sign) (m : Nat) (e : Int) (h : Canon m e) : magN (bits (mkF s m e h.pos)) = magOf m e := by
  have := magOf_lt m e h
  have := sbit_le s
  rw [bits_mkF2 s m e h]; unfold magN; omega

theorem isNaN_mkF (s : Sign) (m : Nat) (e : Int) (h : Canon m e) : isNaN (mkF s m e h.pos) = false := by
  have := magOf_lt m e h
  unfold isNaN isNaNN; rw [mag_mkF s m e h]; simp; omega
theorem isInf_mkF (s : Sign) (m : Nat) (e : Int) (h : Canon m e) : isInf (mkF s m e h.pos) = false := by
  have := magOf_lt m e h
  unfold isInf; rw [mag_mkF s m e h]; simp; omega
theorem isZero_mkF (s : Sign) (m : Nat) (e : Int) (h : Canon m e) : isZero (mkF s m e h.pos) = false := by
  have := magOf_pos m e h
  unfold isZero; rw [mag_mkF s m e h]; simp; omega

/-- `fmod` of two canonical floats -/
theorem rem_mkF (s1 s2 : Sign) (m1 m2 : Nat) (e1 e2 : Int) (h1 : Canon m1 e1) (h2 : Canon m2 e2) :
    rem (mkF s1 m1 e1 h1.pos) (mkF s2 m2 e2 h2.pos) =
      ofNatScaled (decide (sbit s1 = 1))
        ((m1 <<< (e1 - min e1 e2).toNat) % (m2 <<< (e2 - min e1 e2).toNat)) (min e1 e2) := by
  unfold rem
  simp only [isNaN_mkF _ _ _ h1, isNaN_mkF _ _ _ h2, isInf_mkF _ _ _ h1, isInf_mkF _ _ _ h2, isZero_mkF _ _ _ h1, isZero_mkF _ _ _ h2, decode_mkF _ _ _ h1, decode_mkF _ _ _ h2, signBit_mkF _ _ _ h1]
  simp

theorem ofNat_two : F64.ofNat 2 = mkF .positive (2^52) (-51) (by decide) := by
  rw [ofNat_eq 2 (by decide) (by decide)]
  have : Nat.log2 2 = 1 := by decide
  simp only [this]
  rfl

theorem canon_two : Canon (2^52) (-51) := Canon.of_normal (by decide) (by decide) (by decide) (by decide)

theorem rem_two_even (sg : Bool) : beq (ofNatScaled sg 0 (-51)) 0 = true := by
  cases sg <;> decide +kernel
theorem rem_two_odd (sg : Bool) : beq (ofNatScaled sg (2^51) (-51)) 0 = false := by
  cases sg <;> decide +kernel

/-- `even` on exactly representable integers with 2 ≤ |n| < 2^53 -/
theorem isEven_ofInt_big (n : Int) (h2 : 2 ≤ n.natAbs) (h : n.natAbs < 2^53) :
    Stdlib.isEven (F64.ofInt n) = decide (n % 2 = 0) := by
  have hc := canon_ofNat n.natAbs (by omega) h
  have hn0 : n.natAbs ≠ 0 := by omega
  have hL1 : 1 ≤ n.natAbs.log2 := (Nat.le_log2 hn0).2 (by omega)
  have hL52 : n.natAbs.log2 < 53 := (Nat.log2_lt hn0).2 h
  show beq (rem (floor (F64.ofInt n)) (F64.ofNat 2)) 0 = _
  rw [ofInt_eq n (by omega) h, ofNat_two]
  rw [floor_mkF_int _ _ _ hc (Or.inr ⟨n.natAbs, by
    have : (-((n.natAbs.log2 : Int) - 52)).toNat = 52 - n.natAbs.log2 := by omega
    rw [this, Nat.mul_comm]⟩)]
  rw [rem_mkF _ _ _ _ _ _ hc canon_two]
  have hmin : min ((n.natAbs.log2 : Int) - 52) (-51) = -51 := by omega
  rw [hmin]
  have hs1 : ((n.natAbs.log2 : Int) - 52 - -51).toNat = n.natAbs.log2 - 1 := by omega
  have hs2 : ((-51 : Int) - -51).toNat = 0 := by decide
  rw [hs1, hs2, Nat.shiftLeft_eq, Nat.shiftLeft_eq, Nat.pow_zero, Nat.mul_one, Nat.mul_assoc, ← Nat.pow_add]
  have hexp : 52 - n.natAbs.log2 + (n.natAbs.log2 - 1) = 51 := by omega
  rw [hexp]
  have hmod : n.natAbs * 2^51 % 2^52 = (n.natAbs % 2) * 2^51 := by
    have : (2:Nat)^52 = 2 * 2^51 := by decide
    rw [this, Nat.mul_mod_mul_right]
  rw [hmod]
  rcases Nat.mod_two_eq_zero_or_one n.natAbs with h0 | h1
  · rw [h0, Nat.zero_mul, rem_two_even]
    symm; rw [decide_eq_true_eq]; omega
  · rw [h1, Nat.one_mul, rem_two_odd]
    symm; rw [decide_eq_false_iff_not]; omega

theorem isEven_small : Stdlib.isEven (F64.ofInt 0) = true ∧ Stdlib.isEven (F64.ofInt 1) = false ∧
    Stdlib.isEven (F64.ofInt (-1)) = false ∧ Stdlib.isEven (F64.ofInt (2^53)) = true ∧
    Stdlib.isEven (F64.ofInt (-(2^53))) = true := by decide +kernel

/-- `even(n)` holds iff n is divisible by 2, for every integer of either sign that a double represents exactly
    in the contiguous range |n| ≤ 2^53 -/
theorem isEven_ofInt (n : Int) (h : n.natAbs ≤ 2^53) : Stdlib.isEven (F64.ofInt n) = decide (n % 2 = 0) := by
  by_cases h2 : 2 ≤ n.natAbs
  · by_cases h53 : n.natAbs < 2^53
    · exact isEven_ofInt_big n h2 h53
    · have : n = 2^53 ∨ n = -(2^53) := by omega
      rcases this with rfl | rfl
      · rw [isEven_small.2.2.2.1]; decide
      · rw [isEven_small.2.2.2.2]; decide
  · have : n = 0 ∨ n = 1 ∨ n = -1 := by omega
    rcases this with rfl | rfl | rfl
    · rw [isEven_small.1]; decide
    · rw [isEven_small.2.1]; decide
    · rw [isEven_small.2.2.1]; decide

end F64
end Slac
