/-
  SlacProofs.Tables — theorems about the REGENERATED tables (SlacModel/Generated/*.lean are rewritten from the
  running crate on every check run, so these are re-checked against what the code says now).
  All are finite statements decided by kernel evaluation (`decide +kernel`), no axioms beyond the kernel's.
-/
import SlacModel.Generated.Builtins
import SlacModel.Generated.Dispatch
set_option autoImplicit false
namespace Slac.Tables
open Slac.Generated

def nTuples : Nat := 1365

/-- length of kind tuple number t (tuples are enumerated length-first) -/
def tupleLen (t : Nat) : Nat := if t < 1 then 0 else if t < 5 then 1 else if t < 21 then 2 else if t < 85 then 3 else if t < 341 then 4 else 5
def tupleOffset (len : Nat) : Nat := (4 ^ len - 1) / 3
/-- kind (0..3) of argument p of tuple t -/
def tupleKind (t p : Nat) : Nat := ((t - tupleOffset (tupleLen t)) / 4 ^ p) % 4

/-- the two flags of builtin row `d` for tuple t -/
def countFlag (d t : Nat) : Bool := (d >>> (2 * t)) % 2 == 1
def panicFlag (d t : Nat) : Bool := (d >>> (2 * t + 1)) % 2 == 1

/-- n lies within the registered arity -/
def inArity (r : BuiltinRow) (n : Nat) : Bool :=
  match r.kind with
  | 0 => r.req ≤ n && n ≤ r.req + r.opt
  | 1 => 1 ≤ n
  | _ => n == 0

/-- every argument of tuple t is of a kind the declaration documents for its position (`...` = anything) -/
def matchesDoc (r : BuiltinRow) (t : Nat) : Bool :=
  r.variadicDoc || (List.range (tupleLen t)).all fun p =>
    match r.docMasks[p]? with
    | some m => (m >>> tupleKind t p) % 2 == 1
    | none => true

def expectedAnswer (r : BuiltinRow) (n : Nat) : Nat := if inArity r n then (if r.pure then 2 else 3) else 1

def rowsOk (p : BuiltinRow → Nat → Bool) : Bool :=
  (List.zip builtins dispatch).all fun (r, d) => p r d

/-- C14: exactly `random` and `choice` are registered impure. -/
theorem impure_exactly :
    (builtins.filter (fun r => !r.pure)).map (·.name) = [['r','a','n','d','o','m'], ['c','h','o','i','c','e']] := by
  decide +kernel

/-- C10: a fresh environment reports each builtin callable with n arguments (n = 0..6) exactly when n lies within
    the arity it was registered with, with its purity. -/
theorem registry_consistent :
    builtins.all (fun r => r.existsAnswers == (List.range 7).map (expectedAnswer r)) = true := by
  decide +kernel

theorem tables_aligned : builtins.length = dispatch.length := by decide +kernel

/-- C10: no call of a builtin with an argument count inside its registered arity and arguments of the documented
    kinds answers `WrongParameterCount` (all 1365 kind tuples of length ≤ 5, 8 value combinations each). -/
theorem no_param_count_error :
    rowsOk (fun r d => (List.range nTuples).all fun t => !(inArity r (tupleLen t) && matchesDoc r t && countFlag d t)) = true := by
  decide +kernel

/-- C09: no builtin panicked on any kind tuple of length ≤ 5 (representative values). -/
theorem dispatch_no_panic :
    rowsOk (fun _ d => (List.range nTuples).all fun t => !panicFlag d t) = true := by
  decide +kernel

/-- the packed rows really are read tuple-wise: unpacked forms of the two theorems above -/
theorem no_param_count_error_at (i t : Nat) (hi : i < builtins.length) (ht : t < nTuples)
    (ha : inArity (builtins[i]) (tupleLen t) = true) (hd : matchesDoc (builtins[i]) t = true) :
    countFlag (dispatch[i]'(by rw [← tables_aligned]; exact hi)) t = false := by
  have h := no_param_count_error
  simp only [rowsOk, List.all_eq_true] at h
  have hz : (builtins[i], dispatch[i]'(by rw [← tables_aligned]; exact hi)) ∈ List.zip builtins dispatch := by
    rw [List.mem_iff_getElem]
    exact ⟨i, by simp [List.length_zip, ← tables_aligned, hi], by simp [List.getElem_zip]⟩
  have := h _ hz t (List.mem_range.mpr ht)
  simp only [ha, hd, Bool.true_and, Bool.not_eq_true'] at this
  exact this

end Slac.Tables
