/-
  SlacProofs.SeqSplit — `Seq.splitOn` is *the* split of SlacProofs.SeqSpec: for a non-empty separator the
  result satisfies `IsSplit` and is the only list of pieces that does; for the empty separator it is
  `splitEmpty` (Rust: `"abc".split("") = ["", "a", "b", "c", ""]`).
-/
import SlacProofs.SeqSearch
set_option autoImplicit false
set_option linter.unusedSectionVars false
namespace Slac.Seq
open Slac.SeqSpec
variable {α : Type} [DecidableEq α]

theorem firstOcc_zero (x s : List α) (h : x <+: s) : FirstOcc x s 0 :=
  ⟨by simpa using h, Nat.zero_le _, fun j hj => absurd hj (Nat.not_lt_zero _)⟩

theorem firstOcc_succ (x : List α) (c : α) (s : List α) (i : Nat) (hp : ¬ x <+: c :: s)
    (h : FirstOcc x s i) : FirstOcc x (c :: s) (i + 1) := by
  obtain ⟨h1, h2, h3⟩ := h
  refine ⟨by simpa using h1, by simpa using h2, ?_⟩
  intro j hj
  cases j with
  | zero => simpa using hp
  | succ j => simpa using h3 j (by omega)

theorem firstOcc_of_succ (x : List α) (c : α) (s : List α) (i : Nat)
    (h : FirstOcc x (c :: s) (i + 1)) : ¬ x <+: c :: s ∧ FirstOcc x s i := by
  obtain ⟨h1, h2, h3⟩ := h
  refine ⟨by simpa using h3 0 (Nat.succ_pos _), by simpa using h1, by simpa using h2, ?_⟩
  intro j hj
  simpa using h3 (j + 1) (by omega)

theorem splitOn_empty (s : List α) : splitOn [] s = splitEmpty s := by
  induction s with
  | nil => rfl
  | cons c t ih =>
    rw [splitOn_cons, if_pos List.nil_prefix, if_pos rfl, ih]
    simp [splitEmpty, headApp]

theorem splitOn_of_not_infix (x s : List α) (h : ¬ x <:+: s) : splitOn x s = [s] := by
  induction s with
  | nil =>
    rw [splitOn_nil, if_neg]
    intro hx; subst hx; exact h (List.nil_infix)
  | cons c t ih =>
    rw [List.infix_cons_iff, not_or] at h
    rw [splitOn_cons, if_neg h.1, ih h.2]; rfl

theorem splitOn_isSplit (x s : List α) (hx : x ≠ []) : IsSplit x s (splitOn x s) := by
  refine ⟨splitOn_ne_nil x s, join_splitOn x s, ?_⟩
  fun_induction replaceAll x x s with
  | case1 hn => exact absurd hn hx
  | case2 hn =>
    rw [splitOn_nil, if_neg hx]
    refine ⟨by simp, ?_⟩
    intro p hp
    simp only [List.getLast?_singleton, Option.some.injEq] at hp
    subst hp
    intro h; exact hx (List.infix_nil.1 h)
  | case3 c t hn ih => exact absurd hn hx
  | case4 c t hn hp ih =>
    rw [splitOn_cons, if_pos hp, if_neg hn]
    have hne := splitOn_ne_nil x (List.drop x.length (c :: t))
    generalize splitOn x (List.drop x.length (c :: t)) = ps at ih hne ⊢
    cases ps with
    | nil => exact absurd rfl hne
    | cons q qs =>
      refine ⟨?_, ?_⟩
      · intro p hp'
        rw [List.dropLast_cons_cons, List.mem_cons] at hp'
        rcases hp' with rfl | hp'
        · exact firstOcc_zero _ _ (by simp)
        · exact ih.1 p hp'
      · intro p hp'
        rw [List.getLast?_cons_cons] at hp'
        exact ih.2 p hp'
  | case5 c t hn hp ih =>
    rw [splitOn_cons, if_neg hp]
    have hj := join_splitOn x t
    have hne := splitOn_ne_nil x t
    generalize splitOn x t = ps at ih hne hj ⊢
    cases ps with
    | nil => exact absurd rfl hne
    | cons q qs =>
      cases qs with
      | nil =>
        simp only [join] at hj
        subst hj
        refine ⟨by simp [headApp], ?_⟩
        intro p hp'
        simp only [headApp, List.singleton_append, List.getLast?_singleton, Option.some.injEq] at hp'
        subst hp'
        rw [List.infix_cons_iff, not_or]
        exact ⟨hp, ih.2 q (by simp)⟩
      | cons q2 qs =>
        refine ⟨?_, ?_⟩
        · intro p hp'
          simp only [headApp, List.singleton_append, List.dropLast_cons_cons, List.mem_cons] at hp'
          rcases hp' with rfl | hp'
          · have h1 := ih.1 q (by simp)
            refine firstOcc_succ _ _ _ _ ?_ h1
            intro hpre
            apply hp
            refine hpre.trans ?_
            rw [← hj]
            simp only [join, List.append_assoc]
            exact (List.prefix_cons_inj c).2 ((List.prefix_append_right_inj q).2 (List.prefix_append _ _))
          · exact ih.1 p (by simp [List.dropLast_cons_cons, hp'])
        · intro p hp'
          simp only [headApp, List.getLast?_cons_cons] at hp'
          exact ih.2 p (by simpa [List.getLast?_cons_cons] using hp')

/-- behind a piece delimited by the leftmost separator the split continues with the rest -/
theorem splitOn_piece (x : List α) (hx : x ≠ []) (p rest : List α) (h : FirstOcc x (p ++ x) p.length) :
    splitOn x (p ++ x ++ rest) = p :: splitOn x rest := by
  induction p with
  | nil =>
    have hxr : x ++ rest = (x ++ rest) := rfl
    cases hxe : x ++ rest with
    | nil => simp at hxe; exact absurd hxe.1 hx
    | cons c t =>
      simp only [List.nil_append]
      rw [hxe, splitOn_cons, if_pos (by rw [← hxe]; exact List.prefix_append _ _), if_neg hx, ← hxe]
      simp
  | cons c p ih =>
    obtain ⟨hnp, hfo⟩ := firstOcc_of_succ x c (p ++ x) p.length (by simpa using h)
    have hnp' : ¬ x <+: c :: (p ++ x ++ rest) := by
      intro hpre
      apply hnp
      have h2 : c :: (p ++ x) <+: c :: (p ++ x ++ rest) := by
        rw [← List.cons_append]; exact List.prefix_append _ _
      refine List.prefix_of_prefix_length_le hpre h2 ?_
      simp; omega
    simp only [List.cons_append]
    rw [splitOn_cons, if_neg hnp', ih hfo]; rfl

theorem isSplit_unique (x : List α) (hx : x ≠ []) (s : List α) (ps : List (List α)) (h : IsSplit x s ps) :
    ps = splitOn x s := by
  induction ps generalizing s with
  | nil => exact absurd rfl h.1
  | cons p ps ih =>
    obtain ⟨_, hj, hd, hl⟩ := h
    cases ps with
    | nil =>
      simp only [join] at hj
      subst hj
      exact (splitOn_of_not_infix x p (hl p (by simp))).symm
    | cons q qs =>
      simp only [join] at hj
      subst hj
      rw [splitOn_piece x hx p _ (hd p (by simp))]
      congr 1
      refine ih _ ⟨by simp, rfl, ?_, ?_⟩
      · intro r hr; exact hd r (by rw [List.dropLast_cons_cons]; exact List.mem_cons_of_mem _ hr)
      · intro r hr; exact hl r (by rw [List.getLast?_cons_cons]; exact hr)

end Slac.Seq
