/-
  SlacProofs.SeqToy — a toy number type (N = Int, exact integer arithmetic) showing that `LawfulIdx` is
  satisfiable; used for the non-vacuity examples of SlacProps.C15 (closed terms evaluate by `rfl`).
  The functions C15 does not touch (sqrt, sin, …) are arbitrary.
-/
import SlacProofs.SeqIdx
set_option autoImplicit false
namespace Slac.SeqToy

instance instNumOpsInt : NumOps Int where
  add := (· + ·)
  sub := (· - ·)
  mul := (· * ·)
  div := (· / ·)
  rem := (· % ·)
  trunc := id
  neg := fun x => -x
  pcmp := fun a b => some (compare a b)
  beq := fun a b => a == b
  zero := 0
  ofBool := fun b => if b then 1 else 0
  parse := fun _ => none

instance instNumXInt : NumX Int where
  toUsize := Int.toNat
  floorUsize := Int.toNat
  toU32 := Int.toNat
  toI32 := id
  toI64 := id
  ofNat := Int.ofNat
  ofInt := id
  abs := fun x => x.natAbs
  round := id
  fract := fun _ => 0
  floor := id
  sqrt := id
  sin := id
  cos := id
  exp := id
  ln := id
  atan := id
  pow := fun a _ => a
  display := fun _ => []
  isFinite := fun _ => true

theorem compare_ofNat (n m : Nat) : compare (Int.ofNat n) (Int.ofNat m) = compare n m := by
  rw [Nat.compare_eq_ite_lt, Int.compare_eq_ite_lt]
  simp only [Int.ofNat_eq_natCast, Int.ofNat_lt]

instance : LawfulIdx Int where
  toUsize_ofNat := fun _ _ => rfl
  floorUsize_ofNat := fun _ _ => rfl
  add_ofNat := fun _ _ _ => rfl
  zero_eq := rfl
  pcmp_ofNat := fun n m _ _ => congrArg some (compare_ofNat n m)
  neg_one_add_one := rfl
  neg_one_add_zero := rfl
  pcmp_neg_one := rfl

end Slac.SeqToy
