/-
  SlacProofs.F64SemRat — the rational value of a double and the ℚ reading of `NearestDouble`:
  `toRat x = units x / 2^1074`;  `toRat_trunc`, `toRat_rem`: the ℚ readings of `units_trunc`, `units_rem`;  `nearest_rat`: if `NearestDouble cn cd x` and x is finite then
  |x - cn/cd| ≤ |y - cn/cd| for every finite double y, as rational numbers.
-/
import SlacProofs.F64SemNearest
import Mathlib.Algebra.Order.Field.Basic
import Mathlib.Algebra.Order.AbsoluteValue.Basic
import Mathlib.Data.Rat.Cast.Order
import Mathlib.Tactic.FieldSimp
import Mathlib.Tactic.Positivity
import Mathlib.Tactic.Ring
set_option autoImplicit false
namespace Slac
namespace F64

/-- the exact rational value of a finite double -/
def toRat (x : Float) : ℚ := (units x : ℚ) / 2^1074

set_option exponentiation.threshold 2100 in
/-- |x - cn/cd| as a rational with the common denominator 2^1074·cd -/
theorem abs_toRat_sub (x : Float) (cn cd : Nat) (hcd : 0 < cd) :
    |toRat x - (cn : ℚ) / (cd : ℚ)| =
      (((units x * (cd : Int) - (cn : Int) * 2^1074).natAbs : Nat) : ℚ) / (2^1074 * (cd : ℚ)) := by
  have hc : (0 : ℚ) < (cd : ℚ) := by exact_mod_cast hcd
  have hP : (0 : ℚ) < 2^1074 := by positivity
  generalize hPP : (2 : ℚ)^1074 = P at hP
  have hden : (0 : ℚ) < P * (cd : ℚ) := mul_pos hP hc
  have h1 : toRat x - (cn : ℚ) / (cd : ℚ) = ((units x : ℚ) * (cd : ℚ) - (cn : ℚ) * P) / (P * (cd : ℚ)) := by
    unfold toRat; rw [hPP]; field_simp
  have h2 : (((units x * (cd : Int) - (cn : Int) * 2^1074).natAbs : Nat) : ℚ) =
      |(units x : ℚ) * (cd : ℚ) - (cn : ℚ) * P| := by
    rw [Nat.cast_natAbs, ← hPP]; push_cast; rfl
  rw [h1, h2, abs_div, abs_of_pos hden]

/-- **ℚ reading of "nearest"**: no finite double is closer to cn/cd than x -/
theorem nearest_rat (cn cd : Nat) (hcd : 0 < cd) (x : Float) (h : NearestDouble cn cd x) (hx : isFinite x = true)
    (y : Float) (hy : isFinite y = true) :
    |toRat x - (cn : ℚ) / (cd : ℚ)| ≤ |toRat y - (cn : ℚ) / (cd : ℚ)| := by
  rw [abs_toRat_sub x cn cd hcd, abs_toRat_sub y cn cd hcd]
  have hc : (0 : ℚ) < (cd : ℚ) := by exact_mod_cast hcd
  have hden : (0 : ℚ) < 2^1074 * (cd : ℚ) := by positivity
  apply div_le_div_of_nonneg_right _ (le_of_lt hden)
  exact_mod_cast h.nearest hx y hy

/-- `trunc x` is an integer: the quotient of x by 1 rounded toward zero -/
theorem toRat_trunc (x : Float) (hx : isFinite x = true) :
    toRat (trunc x) = (((units x).tdiv (2^1074) : Int) : ℚ) := by
  unfold toRat
  rw [units_trunc x hx, Int.cast_mul, Int.cast_pow, Int.cast_ofNat]
  have hP : (2 : ℚ)^1074 ≠ 0 := by positivity
  generalize (2 : ℚ)^1074 = P at hP
  exact mul_div_cancel_right₀ _ hP

/-- C `fmod`, exactly: `rem x y = x - y·k` with the integer k = x/y rounded toward zero -/
theorem toRat_rem (x y : Float) (hx : isFinite x = true) (hy : isFinite y = true) (hy0 : isZero y = false) :
    toRat (rem x y) = toRat x - toRat y * (((units x).tdiv (units y) : Int) : ℚ) := by
  unfold toRat
  rw [units_rem x y hx hy hy0, Int.tmod_def]
  generalize (2 : ℚ)^1074 = P
  push_cast
  ring

theorem abs_toRat (x : Float) : |toRat x| = (unitsN x : ℚ) / 2^1074 := by
  unfold toRat
  have hP : (0 : ℚ) < 2^1074 := by positivity
  generalize (2 : ℚ)^1074 = P at hP
  rw [abs_div, abs_of_pos hP, ← natAbs_units x, Nat.cast_natAbs, Int.cast_abs]

/-- `|rem x y| < |y|` -/
theorem abs_toRat_rem_lt (x y : Float) (hx : isFinite x = true) (hy : isFinite y = true) (hy0 : isZero y = false) :
    |toRat (rem x y)| < |toRat y| := by
  rw [abs_toRat, abs_toRat]
  have hP : (0 : ℚ) < 2^1074 := by positivity
  generalize (2 : ℚ)^1074 = P at hP
  apply div_lt_div_of_pos_right _ hP
  exact_mod_cast unitsN_rem_lt x y hx hy hy0

end F64
end Slac
