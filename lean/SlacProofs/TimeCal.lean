/-
  SlacProofs.TimeCal — the calendar arithmetic of SlacModel.Time (pure Int/Nat, no numbers):
  `civilFromDays` and `daysFromCivil` are mutually inverse on ALL integers (no year restriction), day numbers
  count days since 1970-01-01, weekday/leap/month-length rules, `addMonths`.
  Every proof is `omega` after a hierarchical decomposition (400-year era, century, 4-year cycle, year, month).
-/
import SlacModel.Time
set_option autoImplicit false
namespace Slac.Time

/-! ### validity as a proposition -/

/-- month and day exist in year `y` (no year range) -/
def ValidMD (y : Int) (m d : Nat) : Prop := 1 ≤ m ∧ m ≤ 12 ∧ 1 ≤ d ∧ d ≤ daysInMonth y m

theorem validDate_iff (y : Int) (m d : Nat) :
    validDate y m d = true ↔ (minYear ≤ y ∧ y ≤ maxYear) ∧ ValidMD y m d := by
  simp [validDate, ValidMD, and_assoc]

theorem isLeap_iff (y : Int) : isLeap y = true ↔ (y % 4 = 0 ∧ (y % 100 ≠ 0 ∨ y % 400 = 0)) := by
  simp [isLeap]

theorem daysInMonth_cases (y : Int) (m : Nat) (hm1 : 1 ≤ m) (hm12 : m ≤ 12) :
    ((m = 1 ∨ m = 3 ∨ m = 5 ∨ m = 7 ∨ m = 8 ∨ m = 10 ∨ m = 12) ∧ daysInMonth y m = 31) ∨
    ((m = 4 ∨ m = 6 ∨ m = 9 ∨ m = 11) ∧ daysInMonth y m = 30) ∨
    (m = 2 ∧ (y % 4 = 0 ∧ (y % 100 ≠ 0 ∨ y % 400 = 0)) ∧ daysInMonth y m = 29) ∨
    (m = 2 ∧ ¬ (y % 4 = 0 ∧ (y % 100 ≠ 0 ∨ y % 400 = 0)) ∧ daysInMonth y m = 28) := by
  have hm : m = 1 ∨ m = 2 ∨ m = 3 ∨ m = 4 ∨ m = 5 ∨ m = 6 ∨ m = 7 ∨ m = 8 ∨ m = 9 ∨ m = 10 ∨ m = 11 ∨ m = 12 := by omega
  rcases hm with rfl | rfl | rfl | rfl | rfl | rfl | rfl | rfl | rfl | rfl | rfl | rfl
  all_goals try (simp [daysInMonth]; done)
  by_cases hl : isLeap y = true
  · have := (isLeap_iff y).1 hl
    simp [daysInMonth, hl, this]
  · have := mt (isLeap_iff y).2 hl
    simp [daysInMonth, hl, this]

/-! ### the year-of-era formula -/

theorem yoe_core (yoe doy : Int) (h0 : 0 ≤ yoe) (h1 : yoe ≤ 399) (hd0 : 0 ≤ doy)
    (hd1 : doy ≤ 365) (hleap : doy = 365 → (yoe % 4 = 3 ∧ (yoe % 100 ≠ 99 ∨ yoe = 399))) :
    ((yoe * 365 + yoe / 4 - yoe / 100 + doy) - (yoe * 365 + yoe / 4 - yoe / 100 + doy) / 1460
      + (yoe * 365 + yoe / 4 - yoe / 100 + doy) / 36524 - (yoe * 365 + yoe / 4 - yoe / 100 + doy) / 146096) / 365 = yoe := by
  generalize hdoe : yoe * 365 + yoe / 4 - yoe / 100 + doy = doe
  have he : yoe / 100 = 0 ∨ yoe / 100 = 1 ∨ yoe / 100 = 2 ∨ yoe / 100 = 3 := by omega
  have hg : doe / 36524 - doe / 146096 = yoe / 100 := by
    rcases he with he | he | he | he <;> omega
  have hf : doe / 1460 = yoe / 4 + (yoe / 4 - yoe / 100 + 365 * (yoe % 4) + doy) / 1460 := by
    omega
  have ht : (yoe / 4 - yoe / 100 + 365 * (yoe % 4) + doy) / 1460 = 0 ∨
      (yoe / 4 - yoe / 100 + 365 * (yoe % 4) + doy) / 1460 = 1 := by omega
  omega

/-- the decomposition of a day number: era, year of era, shifted month (March = 0), day -/
structure Parts (z era yoe mp dd : Int) : Prop where
  hy0 : 0 ≤ yoe
  hy1 : yoe ≤ 399
  hm0 : 0 ≤ mp
  hm1 : mp ≤ 11
  hd0 : 1 ≤ dd
  hd1 : dd ≤ (153 * (mp + 1) + 2) / 5 - (153 * mp + 2) / 5
  hfeb : mp = 11 → dd ≤ 28 ∨ (dd = 29 ∧ yoe % 4 = 3 ∧ (yoe % 100 ≠ 99 ∨ yoe = 399))
  hz : z + 719468 = era * 146097 + (yoe * 365 + yoe / 4 - yoe / 100 + ((153 * mp + 2) / 5 + dd - 1))

/-- civil date of a decomposition -/
def Parts.civil (era yoe mp dd : Int) : Int × Nat × Nat :=
  (if (if mp < 10 then mp + 3 else mp - 9) ≤ 2 then yoe + era * 400 + 1 else yoe + era * 400,
   (if mp < 10 then mp + 3 else mp - 9).toNat, dd.toNat)

theorem civilFromDays_parts {z era yoe mp dd : Int} (h : Parts z era yoe mp dd) :
    civilFromDays z = Parts.civil era yoe mp dd := by
  obtain ⟨hy0, hy1, hm0, hm1, hd0, hd1, hfeb, hz⟩ := h
  have hmp : mp = 0 ∨ mp = 1 ∨ mp = 2 ∨ mp = 3 ∨ mp = 4 ∨ mp = 5 ∨ mp = 6 ∨ mp = 7 ∨ mp = 8 ∨ mp = 9 ∨
      mp = 10 ∨ mp = 11 := by omega
  generalize hdoy : (153 * mp + 2) / 5 + dd - 1 = doy at hz
  have hdoy0 : 0 ≤ doy := by omega
  have hdoy1 : doy ≤ 365 := by omega
  have hleap : doy = 365 → (yoe % 4 = 3 ∧ (yoe % 100 ≠ 99 ∨ yoe = 399)) := by omega
  have hcore := yoe_core yoe doy hy0 hy1 hdoy0 hdoy1 hleap
  generalize hdoe : yoe * 365 + yoe / 4 - yoe / 100 + doy = doe at hz hcore
  have hdoe0 : 0 ≤ doe := by omega
  have hdoe1 : doe ≤ 146096 := by omega
  have e1 : (z + 719468) / 146097 = era := by omega
  have e2 : z + 719468 - era * 146097 = doe := by omega
  simp only [civilFromDays, Parts.civil, e1, e2, hcore]
  have e3 : doe - (365 * yoe + yoe / 4 - yoe / 100) = doy := by omega
  have e4 : (5 * doy + 2) / 153 = mp := by omega
  simp only [e3, e4]
  have e5 : doy - (153 * mp + 2) / 5 + 1 = dd := by omega
  simp only [e5]

theorem daysFromCivil_parts {z era yoe mp dd : Int} (h : Parts z era yoe mp dd) :
    daysFromCivil (Parts.civil era yoe mp dd).1 (Parts.civil era yoe mp dd).2.1 (Parts.civil era yoe mp dd).2.2 = z := by
  obtain ⟨hy0, hy1, hm0, hm1, hd0, hd1, hfeb, hz⟩ := h
  have hmp : mp = 0 ∨ mp = 1 ∨ mp = 2 ∨ mp = 3 ∨ mp = 4 ∨ mp = 5 ∨ mp = 6 ∨ mp = 7 ∨ mp = 8 ∨ mp = 9 ∨
      mp = 10 ∨ mp = 11 := by omega
  simp only [Parts.civil, daysFromCivil]
  rcases hmp with rfl | rfl | rfl | rfl | rfl | rfl | rfl | rfl | rfl | rfl | rfl | rfl <;> omega

theorem validMD_parts {z era yoe mp dd : Int} (h : Parts z era yoe mp dd) :
    ValidMD (Parts.civil era yoe mp dd).1 (Parts.civil era yoe mp dd).2.1 (Parts.civil era yoe mp dd).2.2 := by
  obtain ⟨hy0, hy1, hm0, hm1, hd0, hd1, hfeb, hz⟩ := h
  have hmp : mp = 0 ∨ mp = 1 ∨ mp = 2 ∨ mp = 3 ∨ mp = 4 ∨ mp = 5 ∨ mp = 6 ∨ mp = 7 ∨ mp = 8 ∨ mp = 9 ∨
      mp = 10 ∨ mp = 11 := by omega
  simp only [Parts.civil, ValidMD]
  have hmr : 1 ≤ (if mp < 10 then mp + 3 else mp - 9).toNat ∧ (if mp < 10 then mp + 3 else mp - 9).toNat ≤ 12 := by omega
  refine ⟨hmr.1, hmr.2, by omega, ?_⟩
  rcases daysInMonth_cases (if (if mp < 10 then mp + 3 else mp - 9) ≤ 2 then yoe + era * 400 + 1 else yoe + era * 400)
    (if mp < 10 then mp + 3 else mp - 9).toNat hmr.1 hmr.2 with ⟨hm, hd⟩ | ⟨hm, hd⟩ | ⟨hm, hl, hd⟩ | ⟨hm, hl, hd⟩ <;>
    rw [hd] <;> omega

/-- every day number has a decomposition -/
theorem parts_exist (z : Int) : ∃ era yoe mp dd : Int, Parts z era yoe mp dd := by
  obtain ⟨era, hera⟩ : ∃ era, era = (z + 719468) / 146097 := ⟨_, rfl⟩
  obtain ⟨doe, hdoe⟩ : ∃ doe, doe = z + 719468 - era * 146097 := ⟨_, rfl⟩
  obtain ⟨c, hc⟩ : ∃ c, c = min (doe / 36524) 3 := ⟨_, rfl⟩
  obtain ⟨r1, hr1⟩ : ∃ r1, r1 = doe - 36524 * c := ⟨_, rfl⟩
  obtain ⟨q, hq⟩ : ∃ q, q = min (r1 / 1461) 24 := ⟨_, rfl⟩
  obtain ⟨r2, hr2⟩ : ∃ r2, r2 = r1 - 1461 * q := ⟨_, rfl⟩
  obtain ⟨s, hs⟩ : ∃ s, s = min (r2 / 365) 3 := ⟨_, rfl⟩
  obtain ⟨doy, hdoy⟩ : ∃ doy, doy = r2 - 365 * s := ⟨_, rfl⟩
  obtain ⟨mp, hmp⟩ : ∃ mp, mp = (5 * doy + 2) / 153 := ⟨_, rfl⟩
  obtain ⟨dd, hdd⟩ : ∃ dd, dd = doy - (153 * mp + 2) / 5 + 1 := ⟨_, rfl⟩
  have b0 : 0 ≤ doe ∧ doe ≤ 146096 := by omega
  have b1 : 0 ≤ c ∧ c ≤ 3 ∧ 0 ≤ r1 ∧ r1 ≤ 36524 ∧ (r1 = 36524 → c = 3) := by omega
  have b2 : 0 ≤ q ∧ q ≤ 24 ∧ 0 ≤ r2 ∧ r2 ≤ 1460 ∧ (r2 = 1460 → q < 24 ∨ c = 3) := by omega
  have b3 : 0 ≤ s ∧ s ≤ 3 ∧ 0 ≤ doy ∧ doy ≤ 365 ∧ (doy = 365 → s = 3 ∧ r2 = 1460) := by omega
  have b4 : 0 ≤ mp ∧ mp ≤ 11 := by omega
  have hmpc : mp = 0 ∨ mp = 1 ∨ mp = 2 ∨ mp = 3 ∨ mp = 4 ∨ mp = 5 ∨ mp = 6 ∨ mp = 7 ∨ mp = 8 ∨ mp = 9 ∨
      mp = 10 ∨ mp = 11 := by omega
  have h100 : (100 * c + 4 * q + s) / 100 = c := by omega
  have h4 : (100 * c + 4 * q + s) / 4 = 25 * c + q := by omega
  refine ⟨era, 100 * c + 4 * q + s, mp, dd, ?_, ?_, ?_, ?_, ?_, ?_, ?_, ?_⟩ <;> omega

/-! ### the two conversions are mutually inverse (all integers, no year range) -/

theorem civil_roundtrip_md (y : Int) (m d : Nat) (h : ValidMD y m d) :
    civilFromDays (daysFromCivil y m d) = (y, m, d) := by
  obtain ⟨hm1, hm12, hd1, hd⟩ := h
  have hdim := daysInMonth_cases y m hm1 hm12
  have key := civilFromDays_parts (z := daysFromCivil y m d) (era := (if m ≤ 2 then y - 1 else y) / 400)
    (yoe := (if m ≤ 2 then y - 1 else y) - (if m ≤ 2 then y - 1 else y) / 400 * 400) (mp := ((m : Int) + 9) % 12)
    (dd := (d : Int))
    ⟨by omega, by omega, by omega, by omega, by omega, by omega, by omega, by simp only [daysFromCivil]; omega⟩
  rw [key]
  refine Prod.ext ?_ (Prod.ext ?_ ?_) <;> simp only [Parts.civil] <;> omega

theorem days_roundtrip (z : Int) :
    daysFromCivil (civilFromDays z).1 (civilFromDays z).2.1 (civilFromDays z).2.2 = z := by
  obtain ⟨era, yoe, mp, dd, h⟩ := parts_exist z
  rw [civilFromDays_parts h]; exact daysFromCivil_parts h

theorem civilFromDays_validMD (z : Int) :
    ValidMD (civilFromDays z).1 (civilFromDays z).2.1 (civilFromDays z).2.2 := by
  obtain ⟨era, yoe, mp, dd, h⟩ := parts_exist z
  rw [civilFromDays_parts h]; exact validMD_parts h

/-- `daysFromCivil` is injective on existing dates -/
theorem daysFromCivil_inj {y1 y2 : Int} {m1 d1 m2 d2 : Nat} (h1 : ValidMD y1 m1 d1) (h2 : ValidMD y2 m2 d2)
    (h : daysFromCivil y1 m1 d1 = daysFromCivil y2 m2 d2) : (y1, m1, d1) = (y2, m2, d2) := by
  rw [← civil_roundtrip_md y1 m1 d1 h1, ← civil_roundtrip_md y2 m2 d2 h2, h]

/-! ### days since 1970-01-01: epoch and successor -/

theorem days_epoch : daysFromCivil 1970 1 1 = 0 := by decide

theorem days_next_day (y : Int) (m d : Nat) : daysFromCivil y m (d + 1) = daysFromCivil y m d + 1 := by
  simp only [daysFromCivil]; omega

theorem days_next_month (y : Int) (m : Nat) (hm1 : 1 ≤ m) (hm : m < 12) :
    daysFromCivil y (m + 1) 1 = daysFromCivil y m (daysInMonth y m) + 1 := by
  rcases daysInMonth_cases y m hm1 (by omega) with ⟨hm, hd⟩ | ⟨hm, hd⟩ | ⟨hm, hl, hd⟩ | ⟨hm, hl, hd⟩ <;>
    rw [hd] <;> simp only [daysFromCivil] <;> omega

theorem days_next_year (y : Int) : daysFromCivil (y + 1) 1 1 = daysFromCivil y 12 31 + 1 := by
  simp only [daysFromCivil]; omega

/-- 400-year periodicity -/
theorem days_period (y : Int) (m d : Nat) : daysFromCivil (y + 400) m d = daysFromCivil y m d + 146097 := by
  simp only [daysFromCivil]; omega

/-- strict monotonicity in the lexicographic order of existing dates, in the form needed for range bounds -/
theorem days_bounds (y : Int) (m d : Nat) (h : ValidMD y m d) :
    daysFromCivil y 1 1 ≤ daysFromCivil y m d ∧ daysFromCivil y m d ≤ daysFromCivil y 12 31 := by
  obtain ⟨hm1, hm12, hd1, hd⟩ := h
  rcases daysInMonth_cases y m hm1 hm12 with ⟨hm, hdm⟩ | ⟨hm, hdm⟩ | ⟨hm, hl, hdm⟩ | ⟨hm, hl, hdm⟩ <;>
    rw [hdm] at hd <;> simp only [daysFromCivil] <;> omega

theorem days_year_mono (y1 y2 : Int) (h : y1 ≤ y2) : daysFromCivil y1 1 1 ≤ daysFromCivil y2 1 1 ∧
    daysFromCivil y1 12 31 ≤ daysFromCivil y2 12 31 := by
  simp only [daysFromCivil]; omega

/-- dates of years 1–9999 lie between 0001-01-01 (day −719162) and 9999-12-31 (day 2932896) -/
theorem days_range (y : Int) (m d : Nat) (h : ValidMD y m d) (hy1 : 1 ≤ y) (hy2 : y ≤ 9999) :
    -719162 ≤ daysFromCivil y m d ∧ daysFromCivil y m d ≤ 2932896 := by
  have b := days_bounds y m d h
  have l := (days_year_mono 1 y hy1).1
  have u := (days_year_mono y 9999 hy2).2
  have e1 : daysFromCivil 1 1 1 = -719162 := by decide
  have e2 : daysFromCivil 9999 12 31 = 2932896 := by decide
  omega

/-! ### weekday -/

theorem weekday_spec (z : Int) : weekday z = ((z + 3) % 7).toNat := rfl
theorem weekday_epoch : weekday (daysFromCivil 1970 1 1) = 3 := by decide
theorem weekday_lt (z : Int) : weekday z < 7 := by simp only [weekday]; omega
theorem weekday_week (z : Int) : weekday (z + 7) = weekday z := by simp only [weekday]; omega
theorem weekday_succ (z : Int) : weekday (z + 1) = (weekday z + 1) % 7 := by simp only [weekday]; omega

/-! ### ofMillis -/

theorem ofMillis_eq (T : Int) :
    ofMillis T =
      if minYear ≤ (civilFromDays (T / 86400000)).1 ∧ (civilFromDays (T / 86400000)).1 ≤ maxYear then
        some ⟨T / 86400000, (T % 86400000).toNat⟩ else none := by
  by_cases h1 : minYear ≤ (civilFromDays (T / 86400000)).1 <;>
  by_cases h2 : (civilFromDays (T / 86400000)).1 ≤ maxYear <;>
  simp [ofMillis, msPerDay, h1, h2]

theorem ofMillis_total (days : Int) (ms : Nat) (hms : ms < 86400000)
    (hy : minYear ≤ (civilFromDays days).1 ∧ (civilFromDays days).1 ≤ maxYear) :
    ofMillis (DT.totalMs ⟨days, ms⟩) = some ⟨days, ms⟩ := by
  have e1 : (days * 86400000 + (ms : Int)) / 86400000 = days := by omega
  have e2 : ((days * 86400000 + (ms : Int)) % 86400000).toNat = ms := by omega
  rw [ofMillis_eq]
  simp only [DT.totalMs, msPerDay, e1, e2]
  rw [if_pos hy]

theorem ofMillis_some {T : Int} {t : DT} (h : ofMillis T = some t) :
    t.totalMs = T ∧ t.ms < 86400000 ∧ minYear ≤ (civilFromDays t.days).1 ∧ (civilFromDays t.days).1 ≤ maxYear := by
  rw [ofMillis_eq] at h
  by_cases hc : minYear ≤ (civilFromDays (T / 86400000)).1 ∧ (civilFromDays (T / 86400000)).1 ≤ maxYear
  · rw [if_pos hc] at h
    cases h
    simp only [DT.totalMs, msPerDay]
    refine ⟨by omega, by omega, hc.1, hc.2⟩
  · rw [if_neg hc] at h; cases h

/-! ### addMonths -/

theorem addMonths_eq (t : DT) (k : Int) {y : Int} {m d : Nat} (hc : civilFromDays t.days = (y, m, d)) :
    addMonths t k =
      if minYear ≤ (y * 12 + ((m : Int) - 1) + k) / 12 ∧ (y * 12 + ((m : Int) - 1) + k) / 12 ≤ maxYear then
        some ⟨daysFromCivil ((y * 12 + ((m : Int) - 1) + k) / 12) (((y * 12 + ((m : Int) - 1) + k) % 12).toNat + 1)
                (min d (daysInMonth ((y * 12 + ((m : Int) - 1) + k) / 12)
                  (((y * 12 + ((m : Int) - 1) + k) % 12).toNat + 1))), t.ms⟩
      else none := by
  by_cases h1 : minYear ≤ (y * 12 + ((m : Int) - 1) + k) / 12 <;>
  by_cases h2 : (y * 12 + ((m : Int) - 1) + k) / 12 ≤ maxYear <;>
  simp [addMonths, hc, h1, h2]

/-- the target month of `addMonths`, and the clamped day, exist -/
theorem addMonths_target_valid (y' : Int) (r : Int) (d : Nat) (hd : 1 ≤ d) :
    ValidMD y' ((r % 12).toNat + 1) (min d (daysInMonth y' ((r % 12).toNat + 1))) := by
  have h1 : 1 ≤ (r % 12).toNat + 1 := by omega
  have h2 : (r % 12).toNat + 1 ≤ 12 := by omega
  refine ⟨h1, h2, ?_, Nat.min_le_right _ _⟩
  rcases daysInMonth_cases y' ((r % 12).toNat + 1) h1 h2 with ⟨_, hdm⟩ | ⟨_, hdm⟩ | ⟨_, _, hdm⟩ | ⟨_, _, hdm⟩ <;>
    rw [hdm] <;> omega

theorem civil_components (t : DT) {y : Int} {m d : Nat} (hc : civilFromDays t.days = (y, m, d)) :
    t.year = y ∧ t.month = m ∧ t.day = d := by
  simp [DT.year, DT.month, DT.day, hc]

theorem addMonths_some {t t2 : DT} {k : Int} (h : addMonths t k = some t2) :
    t2.ms = t.ms ∧
    t2.year * 12 + ((t2.month : Int) - 1) = t.year * 12 + ((t.month : Int) - 1) + k ∧
    t2.day = min t.day (daysInMonth t2.year t2.month) ∧
    minYear ≤ t2.year ∧ t2.year ≤ maxYear := by
  rcases hc : civilFromDays t.days with ⟨y, m, d⟩
  obtain ⟨ey, em, ed⟩ := civil_components t hc
  have hv := civilFromDays_validMD t.days
  rw [hc] at hv
  rw [addMonths_eq t k hc] at h
  by_cases hr : minYear ≤ (y * 12 + ((m : Int) - 1) + k) / 12 ∧ (y * 12 + ((m : Int) - 1) + k) / 12 ≤ maxYear
  · rw [if_pos hr] at h
    cases h
    have hval := addMonths_target_valid ((y * 12 + ((m : Int) - 1) + k) / 12) (y * 12 + ((m : Int) - 1) + k) d hv.2.2.1
    obtain ⟨ey2, em2, ed2⟩ := civil_components
      ⟨daysFromCivil ((y * 12 + ((m : Int) - 1) + k) / 12) (((y * 12 + ((m : Int) - 1) + k) % 12).toNat + 1)
        (min d (daysInMonth ((y * 12 + ((m : Int) - 1) + k) / 12) (((y * 12 + ((m : Int) - 1) + k) % 12).toNat + 1))), t.ms⟩
      (civil_roundtrip_md _ _ _ hval)
    rw [ey2, em2, ed2, ey, em, ed]
    refine ⟨rfl, ?_, rfl, hr.1, hr.2⟩
    omega
  · rw [if_neg hr] at h; cases h

theorem addMonths_none_iff (t : DT) (k : Int) :
    addMonths t k = none ↔
      ¬ (minYear ≤ (t.year * 12 + ((t.month : Int) - 1) + k) / 12 ∧ (t.year * 12 + ((t.month : Int) - 1) + k) / 12 ≤ maxYear) := by
  rcases hc : civilFromDays t.days with ⟨y, m, d⟩
  obtain ⟨ey, em, ed⟩ := civil_components t hc
  rw [addMonths_eq t k hc, ey, em]
  by_cases hr : minYear ≤ (y * 12 + ((m : Int) - 1) + k) / 12 ∧ (y * 12 + ((m : Int) - 1) + k) / 12 ≤ maxYear
  · rw [if_pos hr]; simp [hr]
  · rw [if_neg hr]; simp [hr]

theorem addMonths_zero (t : DT) (h : minYear ≤ t.year ∧ t.year ≤ maxYear) : addMonths t 0 = some t := by
  rcases hc : civilFromDays t.days with ⟨y, m, d⟩
  obtain ⟨ey, em, ed⟩ := civil_components t hc
  have hv := civilFromDays_validMD t.days
  have hrt := days_roundtrip t.days
  rw [hc] at hv hrt
  rw [ey] at h
  obtain ⟨hm1, hm12, hd1, hd⟩ := hv
  simp only at hm1 hm12 hd1 hd hrt
  have e1 : (y * 12 + ((m : Int) - 1) + 0) / 12 = y := by omega
  have e2 : ((y * 12 + ((m : Int) - 1) + 0) % 12).toNat + 1 = m := by omega
  rw [addMonths_eq t 0 hc, e1, e2, Nat.min_eq_left hd, hrt, if_pos h]

end Slac.Time
