/-
  SlacProofs.OrderSafe — the sub-domain `Safe` on which `Value.cmp` is a total preorder (C13, part B).

  A collection of values is Safe when, over ALL leaves (non-array values reachable through nested arrays) of all
  its members: no Number leaf is NaN, and there are not both a numeric-string leaf (a String that `parse`s to a
  non-NaN number) and a Number leaf.
  Outside this domain transitivity genuinely fails (see SlacProps.C13 part C).
-/
import SlacProofs.OrderBase
set_option autoImplicit false
namespace Slac
namespace Order
variable {N : Type} [NumOps N]
open Value

/-- a String that parses to a non-NaN number (these compare numerically against Numbers) -/
def isNumStr (s : Str) : Bool :=
  match NumOps.parse (N := N) s with
  | some x => !(LawfulNum.isNaN x)
  | none => false

def isNaNLeaf : Value N → Bool | .num x => LawfulNum.isNaN x | _ => false
def isNumLeaf : Value N → Bool | .num _ => true | _ => false
def isNumStrLeaf : Value N → Bool | .str s => isNumStr (N := N) s | _ => false

mutual
/-- does some leaf (non-array value reachable through nested arrays) satisfy `p`? -/
def anyLeaf (p : Value N → Bool) : Value N → Bool
  | .arr xs => anyLeafL p xs
  | v => p v
def anyLeafL (p : Value N → Bool) : List (Value N) → Bool
  | [] => false
  | x :: xs => anyLeaf p x || anyLeafL p xs
end

/-- executable Safe test -/
def safeB (xs : List (Value N)) : Bool :=
  !anyLeafL isNaNLeaf xs && !(anyLeafL isNumStrLeaf xs && anyLeafL isNumLeaf xs)

/-- the domain on which the ordering is a total preorder -/
def Safe (xs : List (Value N)) : Prop := safeB xs = true

instance (xs : List (Value N)) : Decidable (Safe xs) := by unfold Safe; infer_instance

/-! ### the two modes of a Safe collection
  mode `true` : no Number leaf at all (Strings may be numeric);
  mode `false`: no NaN leaf and no numeric-string leaf. -/
mutual
def okV (m : Bool) : Value N → Bool
  | .bool _ => true
  | .str s => m || !isNumStr (N := N) s
  | .num x => !m && !LawfulNum.isNaN x
  | .arr xs => okL m xs
def okL (m : Bool) : List (Value N) → Bool
  | [] => true
  | x :: xs => okV m x && okL m xs
end

theorem okL_mem {m : Bool} {xs : List (Value N)} (h : okL m xs = true) {a : Value N} (ha : a ∈ xs) :
    okV m a = true := by
  induction xs with
  | nil => cases ha
  | cons x xs ih =>
    simp only [okL, Bool.and_eq_true] at h
    cases ha with
    | head => exact h.1
    | tail _ h' => exact ih h.2 h'

theorem ok_true_of (a : Value N) : anyLeaf isNumLeaf a = false → okV true a = true := by
  refine Value.rec (motive_1 := fun a => anyLeaf isNumLeaf a = false → okV true a = true)
    (motive_2 := fun as => anyLeafL isNumLeaf as = false → okL true as = true) ?_ ?_ ?_ ?_ ?_ ?_ a
  · intro b _; rfl
  · intro s _; simp [okV]
  · intro x h; simp [anyLeaf, isNumLeaf] at h
  · intro xs ih h; simp only [anyLeaf] at h; simp only [okV]; exact ih h
  · intro _; rfl
  · intro x xs ihx ihxs h
    simp only [anyLeafL, Bool.or_eq_false_iff] at h
    simp only [okL, Bool.and_eq_true]
    exact ⟨ihx h.1, ihxs h.2⟩

theorem okL_true_of (xs : List (Value N)) (h : anyLeafL isNumLeaf xs = false) : okL true xs = true := by
  have := ok_true_of (.arr xs)
  simp only [anyLeaf, okV] at this
  exact this h

theorem ok_false_of (a : Value N) :
    anyLeaf isNaNLeaf a = false → anyLeaf isNumStrLeaf a = false → okV false a = true := by
  refine Value.rec
    (motive_1 := fun a => anyLeaf isNaNLeaf a = false → anyLeaf isNumStrLeaf a = false → okV false a = true)
    (motive_2 := fun as => anyLeafL isNaNLeaf as = false → anyLeafL isNumStrLeaf as = false → okL false as = true)
    ?_ ?_ ?_ ?_ ?_ ?_ a
  · intro b _ _; rfl
  · intro s _ h; simp only [anyLeaf, isNumStrLeaf] at h; simp [okV, h]
  · intro x h _; simp only [anyLeaf, isNaNLeaf] at h; simp [okV, h]
  · intro xs ih h1 h2; simp only [anyLeaf] at h1 h2; simp only [okV]; exact ih h1 h2
  · intro _ _; rfl
  · intro x xs ihx ihxs h1 h2
    simp only [anyLeafL, Bool.or_eq_false_iff] at h1 h2
    simp only [okL, Bool.and_eq_true]
    exact ⟨ihx h1.1 h2.1, ihxs h1.2 h2.2⟩

theorem okL_false_of (xs : List (Value N)) (h1 : anyLeafL isNaNLeaf xs = false)
    (h2 : anyLeafL isNumStrLeaf xs = false) : okL false xs = true := by
  have := ok_false_of (.arr xs)
  simp only [anyLeaf, okV] at this
  exact this h1 h2

/-- a Safe collection is in one of the two modes -/
theorem Safe.ok {xs : List (Value N)} (h : Safe xs) : ∃ m, okL m xs = true := by
  unfold Safe safeB at h
  simp only [Bool.and_eq_true, Bool.not_eq_true', Bool.and_eq_false_iff] at h
  rcases h with ⟨h1, h2 | h2⟩
  · exact ⟨false, okL_false_of xs h1 h2⟩
  · exact ⟨true, okL_true_of xs h2⟩

/-! ### transitivity on each mode -/
section
variable [LawfulNum N]

theorem cmp_str_num {m : Bool} {s : Str} {x : N} (hs : okV (N := N) m (.str s) = true) (hx : okV m (.num x) = true) :
    cmp (.str s) (.num x) = .lt := by
  simp only [okV, Bool.and_eq_true, Bool.not_eq_true', Bool.or_eq_true] at hs hx
  rcases hx with ⟨hm, hx⟩
  subst hm
  simp only [Bool.false_eq_true, false_or] at hs
  unfold isNumStr at hs
  simp only [cmp]
  cases hp : NumOps.parse (N := N) s with
  | none => rfl
  | some y =>
    rw [hp] at hs
    simp only [Bool.not_eq_false'] at hs
    simp only [LawfulNum.pcmp_none_of_nan_left y x hs]
    rfl

theorem cmp_num_str {m : Bool} {s : Str} {x : N} (hx : okV m (.num x) = true) (hs : okV (N := N) m (.str s) = true) :
    cmp (.num x) (.str s) = .gt := by
  rw [cmp_swap, cmp_str_num hs hx]; rfl

theorem num_tri {a b c : N} (ha : LawfulNum.isNaN a = false) (hb : LawfulNum.isNaN b = false)
    (hc : LawfulNum.isNaN c = false) :
    Tri ((NumOps.pcmp a b).getD .eq) ((NumOps.pcmp b c).getD .eq) ((NumOps.pcmp a c).getD .eq) := by
  obtain ⟨o1, h1⟩ := LawfulNum.pcmp_some_of_not_nan a b ha hb
  obtain ⟨o2, h2⟩ := LawfulNum.pcmp_some_of_not_nan b c hb hc
  obtain ⟨o3, h3⟩ := LawfulNum.pcmp_some_of_not_nan a c ha hc
  rw [h1, h2, h3]
  simp only [Option.getD_some]
  refine ⟨?_, ?_, ?_, ?_⟩
  · intro e; subst e
    have := LawfulNum.pcmp_eq_left a b c o2 h1 h2
    rw [h3] at this; exact Option.some.inj this
  · intro e; subst e
    have := LawfulNum.pcmp_eq_right a b c o1 h1 h2
    rw [h3] at this; exact Option.some.inj this
  · intro e1 e2; subst e1; subst e2
    have := LawfulNum.pcmp_lt_trans a b c h1 h2
    rw [h3] at this; exact Option.some.inj this
  · intro e1 e2; subst e1; subst e2
    have := LawfulNum.pcmp_gt_trans a b c h1 h2
    rw [h3] at this; exact Option.some.inj this

omit [LawfulNum N] in
theorem okV_num {m : Bool} {x : N} (h : okV m (.num x) = true) : LawfulNum.isNaN x = false := by
  simp only [okV, Bool.and_eq_true, Bool.not_eq_true'] at h
  exact h.2

/-- on values of one mode, `cmp` satisfies the transitivity triple -/
theorem cmp_tri (m : Bool) (a : Value N) :
    ∀ b c, okV m a = true → okV m b = true → okV m c = true → Tri (cmp a b) (cmp b c) (cmp a c) := by
  refine Value.rec
    (motive_1 := fun a => ∀ b c, okV m a = true → okV m b = true → okV m c = true →
      Tri (cmp a b) (cmp b c) (cmp a c))
    (motive_2 := fun as => ∀ bs cs, okL m as = true → okL m bs = true → okL m cs = true →
      Tri (cmpList as bs) (cmpList bs cs) (cmpList as cs)) ?_ ?_ ?_ ?_ ?_ ?_ a
  · intro x b c ha hb hc
    cases b <;> cases c
    all_goals (try rw [cmp_str_num hb hc])
    all_goals (try rw [cmp_num_str hb hc])
    all_goals first
      | exact cmpBool_tri _ _ _
      | simp [cmp, ordinal, cmpNat, Tri]
  · intro s b c ha hb hc
    cases b <;> cases c
    all_goals (try rw [cmp_str_num hb hc])
    all_goals (try rw [cmp_num_str hb hc])
    all_goals (try rw [cmp_str_num ha hb])
    all_goals (try rw [cmp_str_num ha hc])
    all_goals first
      | exact cmpStr_tri _ _ _
      | simp [cmp, ordinal, cmpNat, Tri]
  · intro x b c ha hb hc
    cases b <;> cases c
    all_goals (try rw [cmp_str_num hb hc])
    all_goals (try rw [cmp_num_str hb hc])
    all_goals (try rw [cmp_num_str ha hb])
    all_goals (try rw [cmp_num_str ha hc])
    all_goals first
      | exact num_tri (okV_num ha) (okV_num hb) (okV_num hc)
      | simp [cmp, ordinal, cmpNat, Tri]
  · intro xs ih b c ha hb hc
    cases b <;> cases c
    all_goals (try rw [cmp_str_num hb hc])
    all_goals (try rw [cmp_num_str hb hc])
    all_goals first
      | exact ih _ _ ha hb hc
      | simp [cmp, ordinal, cmpNat, Tri]
  · intro bs cs _ _ _
    cases bs <;> cases cs <;> simp [cmpList, Tri]
  · intro x xs ihx ihxs bs cs ha hb hc
    cases bs with
    | nil => cases cs <;> simp [cmpList, Tri]
    | cons y ys =>
      cases cs with
      | nil => simp [cmpList, Tri]
      | cons z zs =>
        simp only [okL, Bool.and_eq_true] at ha hb hc
        rw [cmpList_cons, cmpList_cons, cmpList_cons]
        exact Tri.lex (ihx y z ha.1 hb.1 hc.1) (ihxs ys zs ha.2 hb.2 hc.2)

/-- `≤` is transitive on a Safe collection (all three values are members of it) -/
theorem cmp_le_trans_of_safe {xs : List (Value N)} (h : Safe xs) {a b c : Value N}
    (ha : a ∈ xs) (hb : b ∈ xs) (hc : c ∈ xs) (h1 : cmp a b ≠ .gt) (h2 : cmp b c ≠ .gt) : cmp a c ≠ .gt := by
  obtain ⟨m, hm⟩ := h.ok
  exact (cmp_tri m a b c (okL_mem hm ha) (okL_mem hm hb) (okL_mem hm hc)).le_trans h1 h2

theorem cmp_tri_of_safe {xs : List (Value N)} (h : Safe xs) {a b c : Value N}
    (ha : a ∈ xs) (hb : b ∈ xs) (hc : c ∈ xs) : Tri (cmp a b) (cmp b c) (cmp a c) := by
  obtain ⟨m, hm⟩ := h.ok
  exact cmp_tri m a b c (okL_mem hm ha) (okL_mem hm hb) (okL_mem hm hc)

end
end Order
end Slac
