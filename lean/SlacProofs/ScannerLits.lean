/-
  SlacProofs.ScannerLits — single-token sources: keywords in any letter case, identifiers, decimal numbers;
  and `CharClass.ascii` satisfies `AsciiOk`.
-/
import SlacProofs.ScannerSep
set_option autoImplicit false
namespace Slac
namespace Scanner
variable {N : Type}

theorem CharClass.ascii_ok : CharClass.ascii.AsciiOk :=
  ⟨fun _ _ => rfl, fun _ _ => rfl, fun _ _ => rfl⟩

/-! ### one lexeme, padded with separators -/

theorem scan_single_padded [NumOps N] {cc : CharClass} (hcc : cc.AsciiOk) {t : Token N} {x : Str} (s0 trail : Str)
    (hx : Lexeme cc t x) (hs0 : IsSep s0) (htr : IsTrail trail) (hfit : SepFits t trail) :
    scan cc (s0 ++ (x ++ trail)) = .ok [t] := by
  have := scan_layout hcc [⟨t, x, []⟩] s0 trail (by simp) hs0 (by simp [hx, IsSep.nil]) ?_ htr
  · simpa [render] using this
  · exact ⟨by simpa [render] using noCont_trail hcc t x trail htr hfit, trivial⟩

theorem scan_single [NumOps N] {cc : CharClass} (hcc : cc.AsciiOk) {t : Token N} {x : Str} (hx : Lexeme cc t x) :
    scan cc x = .ok [t] := by
  have := scan_single_padded hcc [] [] hx .nil .nil (fun _ r h => by cases h)
  simpa using this

/-! ### keywords -/

theorem asciiLetter_lt {c : Char} (h : isAsciiLetter c = true) : c.toNat < 128 := by
  simp only [isAsciiLetter, Unicode.inRange, Bool.or_eq_true, Bool.and_eq_true, decide_eq_true_eq] at h
  omega

theorem asciiLowerChar_letter {c : Char} (h : isAsciiLetter (Unicode.asciiLowerChar c) = true) :
    isAsciiLetter c = true := by
  unfold Unicode.asciiLowerChar at h
  split at h
  · rename_i hr; simp [isAsciiLetter, hr]
  · exact h

theorem asciiLower_letters {x : Str} (h : ∀ k ∈ Unicode.asciiLower x, isAsciiLetter k = true) :
    ∀ c ∈ x, isAsciiLetter c = true := by
  intro c hc
  apply asciiLowerChar_letter
  apply h
  simp only [Unicode.asciiLower, List.mem_map]
  exact ⟨c, hc, rfl⟩

/-- text made of ASCII letters is identifier-shaped and lower-cases as ASCII -/
theorem letters_ident {cc : CharClass} (hcc : cc.AsciiOk) {x : Str} (hne : x ≠ [])
    (h : ∀ c ∈ x, isAsciiLetter c = true) :
    identShape cc x = true ∧ cc.lowerStr x = Unicode.asciiLower x := by
  have ha : ∀ c ∈ x, cc.isAlphabetic c = true := fun c hc => by
    rw [hcc.alpha c (asciiLetter_lt (h c hc))]; exact h c hc
  refine ⟨?_, hcc.lower x (fun c hc => asciiLetter_lt (h c hc))⟩
  cases x with
  | nil => exact absurd rfl hne
  | cons c tl =>
    simp only [identShape, Bool.and_eq_true, List.all_eq_true]
    refine ⟨by simp [isIdentStart, ha c (by simp)], fun d hd => ?_⟩
    simp [isIdentCont, CharClass.isAlphanumeric, ha d (by simp [hd])]

theorem keywords_letters {kw : Str} {t : Token N} (h : (kw, t) ∈ keywords N) :
    kw ≠ [] ∧ (∀ k ∈ kw, isAsciiLetter k = true) ∧ kwToken kw = some t := by
  simp only [keywords, List.mem_cons, Prod.mk.injEq, List.not_mem_nil, or_false] at h
  rcases h with ⟨rfl, rfl⟩ | ⟨rfl, rfl⟩ | ⟨rfl, rfl⟩ | ⟨rfl, rfl⟩ | ⟨rfl, rfl⟩ | ⟨rfl, rfl⟩ | ⟨rfl, rfl⟩ | ⟨rfl, rfl⟩ <;>
    exact ⟨by simp, by decide, rfl⟩

/-- every ASCII case variant of a keyword is a lexeme of the keyword's token -/
theorem keyword_variant_lexeme [NumOps N] {cc : CharClass} (hcc : cc.AsciiOk) {x kw : Str} {t : Token N}
    (hkw : (kw, t) ∈ keywords N) (hx : Unicode.asciiLower x = kw) : Lexeme cc t x := by
  obtain ⟨hne, hl, hk⟩ := keywords_letters hkw
  subst hx
  have hxl := asciiLower_letters hl
  have hxne : x ≠ [] := by
    intro h; subst h; exact hne rfl
  obtain ⟨h1, h2⟩ := letters_ident hcc hxne hxl
  exact .word h1 (by rw [h2]; exact hk)

/-- the eight keyword texts -/
def keywordTexts : List Str :=
  [['t','r','u','e'], ['f','a','l','s','e'], ['a','n','d'], ['o','r'], ['x','o','r'], ['n','o','t'], ['d','i','v'], ['m','o','d']]

theorem keywords_texts : (keywords N).map Prod.fst = keywordTexts := rfl

theorem kwToken_none {low : Str} (h : low ∉ keywordTexts) : kwToken (N := N) low = none := by
  rw [← keywords_texts (N := N)] at h
  unfold kwToken
  rw [List.lookup_eq_none_iff]
  intro p hp
  simp only [bne_iff_ne, ne_eq]
  intro he
  exact h (List.mem_map.mpr ⟨p, hp, he.symm⟩)

/-! ### decimal numbers -/

/-- the four spellings of a decimal number literal over ASCII digits -/
inductive DecimalText : Str → Prop
  | int {a} : a ≠ [] → (∀ c ∈ a, isAsciiDigit c = true) → DecimalText a
  | intDot {a} : a ≠ [] → (∀ c ∈ a, isAsciiDigit c = true) → DecimalText (a ++ ['.'])
  | dotFrac {b} : b ≠ [] → (∀ c ∈ b, isAsciiDigit c = true) → DecimalText ('.' :: b)
  | intFrac {a b} : a ≠ [] → b ≠ [] → (∀ c ∈ a, isAsciiDigit c = true) → (∀ c ∈ b, isAsciiDigit c = true) →
      DecimalText (a ++ '.' :: b)

theorem asciiDigit_class {cc : CharClass} (hcc : cc.AsciiOk) {c : Char} (h : isAsciiDigit c = true) :
    cc.isNumeric c = true ∧ isIdentStart cc c = false := by
  have hlt : c.toNat < 128 := by
    simp only [isAsciiDigit, Unicode.inRange, Bool.and_eq_true, decide_eq_true_eq] at h; omega
  have hnl : isAsciiLetter c = false := by
    simp only [isAsciiDigit, Unicode.inRange, Bool.and_eq_true, decide_eq_true_eq] at h
    simp only [isAsciiLetter, Unicode.inRange, Bool.or_eq_false_iff, Bool.and_eq_false_iff, decide_eq_false_iff_not]
    omega
  have hu : c ≠ '_' := by
    intro hc; subst hc; revert h; decide
  refine ⟨by rw [hcc.num c hlt]; exact h, ?_⟩
  simp [isIdentStart, hcc.alpha c hlt, hnl, hu]

theorem numShape_digits_tail {cc : CharClass} (hcc : cc.AsciiOk) (a b : Str)
    (ha : ∀ c ∈ a, isAsciiDigit c = true) (hb : ∀ c ∈ b, isAsciiDigit c = true) :
    (match (a ++ '.' :: b).dropWhile cc.isNumeric with
     | [] => true
     | d :: r => d == '.' && r.all cc.isNumeric) = true := by
  have hdot : cc.isNumeric '.' = false := special_numeric hcc '.' (by decide)
  have hs := span_append (p := cc.isNumeric) (a := a) (b := '.' :: b)
    (fun d hd => (asciiDigit_class hcc (ha d hd)).1) (HeadNot.cons hdot)
  rw [hs.2]
  simp only [beq_self_eq_true, Bool.true_and, List.all_eq_true]
  exact fun d hd => (asciiDigit_class hcc (hb d hd)).1

theorem numShape_digits {cc : CharClass} (hcc : cc.AsciiOk) (a : Str)
    (ha : ∀ c ∈ a, isAsciiDigit c = true) :
    (match a.dropWhile cc.isNumeric with
     | [] => true
     | d :: r => d == '.' && r.all cc.isNumeric) = true := by
  have hs := span_append (p := cc.isNumeric) (a := a) (b := [])
    (fun d hd => (asciiDigit_class hcc (ha d hd)).1) (HeadNot.nil _)
  rw [List.append_nil] at hs
  rw [hs.2]

theorem decimal_numShape {cc : CharClass} (hcc : cc.AsciiOk) {x : Str} (h : DecimalText x) :
    numShape cc x = true := by
  have hdotS : isIdentStart cc '.' = false := special_identStart hcc '.' (by decide)
  cases h with
  | int hne ha =>
    cases x with
    | nil => exact absurd rfl hne
    | cons c tl =>
      have hc := asciiDigit_class hcc (ha c (by simp))
      simp only [numShape, hc.1, hc.2, Bool.not_false, Bool.true_or, Bool.true_and]
      exact numShape_digits hcc tl (fun d hd => ha d (by simp [hd]))
  | @intDot a hne ha =>
    cases a with
    | nil => exact absurd rfl hne
    | cons c tl =>
      have hc := asciiDigit_class hcc (ha c (by simp))
      simp only [List.cons_append, numShape, hc.1, hc.2, Bool.not_false, Bool.true_or, Bool.true_and]
      exact numShape_digits_tail hcc tl [] (fun d hd => ha d (by simp [hd])) (by simp)
  | @dotFrac b hne hb =>
    simp only [numShape, hdotS, Bool.not_false, beq_self_eq_true, Bool.or_true, Bool.true_and]
    exact numShape_digits hcc b hb
  | @intFrac a b hna hnb ha hb =>
    cases a with
    | nil => exact absurd rfl hna
    | cons c tl =>
      have hc := asciiDigit_class hcc (ha c (by simp))
      simp only [List.cons_append, numShape, hc.1, hc.2, Bool.not_false, Bool.true_or, Bool.true_and]
      exact numShape_digits_tail hcc tl b (fun d hd => ha d (by simp [hd])) hb

/-- a number-shaped source scans to the parsed number, or to `invalidNumber` if the parse fails -/
theorem scan_numShape [NumOps N] {cc : CharClass} (hcc : cc.AsciiOk) {x : Str} (hx : numShape cc x = true) :
    scan (N := N) cc x = match NumOps.parse (N := N) x with
      | some v => .ok [.literal (.num v)]
      | none => .err .invalidNumber := by
  obtain ⟨c, cs, he, hsk, hnt⟩ := numShape_reads (N := N) hcc x [] hx (HeadNot.nil _)
  rw [List.append_nil] at he
  subst he
  unfold scan
  rw [scanAll_eq, hsk]
  simp only [hnt]
  cases NumOps.parse (N := N) (c :: cs) with
  | none => rfl
  | some v => simp only [scanAll_trail cc IsTrail.nil]

end Scanner
end Slac
