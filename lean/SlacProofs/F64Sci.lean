/-
  SlacProofs.F64Sci — `Float.ofScientific` (decimal → binary64) as a value-determined rounding.
  All four code paths of core's `Float.ofScientific m s e` (fast: m < 2^53 ∧ e ≤ 22 via float mul/div with the
  table of exact powers of ten; slow: `Float.Model.ofScientific` via `UnpackedFloat.mul`/`div`) are `rwaFrac`s of the
  same value, hence equal to the reference roundings
      `refInt (m·10^e)`  (s = false)      `refFrac m q`  (s = true, q ≥ 1)
  (`sci_false`, `sci_true`).  Consequently the result depends only on the decimal VALUE.
-/
import SlacProofs.F64Rwa
import SlacProofs.F64Frac
import Mathlib.Tactic.Ring
set_option autoImplicit false
namespace Slac
namespace F64
open Float.Model Float.Model.UnpackedFloat

theorem table_size : Float.exactlyRepresentablePowersOfTen.size = 23 := by decide

/-- mantissa/exponent of the double 10^e (e ≤ 22: exact) -/
def mTen (e : Nat) : Nat :=
  if (10^e).log2 ≤ 52 then 10^e <<< (52 - (10^e).log2) else 10^e >>> ((10^e).log2 - 52)
def eTen (e : Nat) : Int := ((10^e).log2 : Int) - 52

theorem table_facts : ∀ (e : Nat) (h : e ≤ 22),
    decode (Float.exactlyRepresentablePowersOfTen[e]'(by rw [table_size]; omega)) = (mTen e, eTen e) ∧
    isFinite (Float.exactlyRepresentablePowersOfTen[e]'(by rw [table_size]; omega)) = true ∧
    isZero (Float.exactlyRepresentablePowersOfTen[e]'(by rw [table_size]; omega)) = false ∧
    signBit (Float.exactlyRepresentablePowersOfTen[e]'(by rw [table_size]; omega)) = false ∧
    mTen e * 2^(eTen e + 52).toNat = 10^e * 2^52 ∧ 2^52 ≤ mTen e ∧ mTen e < 2^53 ∧ -52 ≤ eTen e ∧ eTen e ≤ 21 := by
  decide +kernel

theorem rwaFrac_one (s : Sign) (A : Nat) (e : Int) : rwaFrac s A 1 e = roundWithAccuracy B64 s A e .exact := by
  unfold rwaFrac accuracyOfFraction; simp [Nat.mod_one]

theorem mul_finite (s1 s2 : Sign) (m1 m2 : Nat) (e1 e2 : Int) (h1 : 0 < m1) (h2 : 0 < m2) :
    UnpackedFloat.mul B64 (.finite s1 m1 e1 h1) (.finite s2 m2 e2 h2) = rwaFrac (s1 * s2) (m1 * m2) 1 (e1 + e2) := by
  rw [rwaFrac_one]; rfl

/-- exponent chosen by `divCore` -/
def teDiv (m1 : Nat) (e1 : Int) (m2 : Nat) (e2 : Int) : Int :=
  min (e1 - e2) (max ((m1.log2 : Int) + 1 + e1 - ((m2.log2 : Int) + 1 + e2) - 53) (-1074))

theorem div_finite (s1 s2 : Sign) (m1 m2 : Nat) (e1 e2 : Int) (h1 : 0 < m1) (h2 : 0 < m2) :
    UnpackedFloat.div B64 (.finite s1 m1 e1 h1) (.finite s2 m2 e2 h2) =
      rwaFrac (s1 / s2) (m1 * 2^(e1 - e2 - teDiv m1 e1 m2 e2).toNat) m2 (teDiv m1 e1 m2 e2) := by
  have hte : min (e1 - e2) (B64.targetExponent (totalExponent m1 e1 - totalExponent m2 e2)) = teDiv m1 e1 m2 e2 := by
    unfold teDiv Format.targetExponent totalExponent
    have h1 : (B64.mantissaBits : Int) = 53 := by decide
    have h2 : B64.minExponent = -1074 := by decide
    rw [h1, h2]
  simp only [UnpackedFloat.div, divCore, hte, Nat.shiftLeft_eq]
  rfl

theorem div_bits (m1 m2 : Nat) (e1 e2 : Int) (h1 : 0 < m1) (h2 : 0 < m2) :
    teDiv m1 e1 m2 e2 ≤
      tgt (m1 * 2^(e1 - e2 - teDiv m1 e1 m2 e2).toNat / m2) (teDiv m1 e1 m2 e2) := by
  generalize hte : teDiv m1 e1 m2 e2 = te
  by_cases hlow : te ≤ -1074
  · unfold tgt; omega
  · have hm10 : m1 ≠ 0 := by omega
    have hm20 : m2 ≠ 0 := by omega
    have hL1 : 2^m1.log2 ≤ m1 := Nat.log2_self_le hm10
    have hL2 : m2 < 2^(m2.log2 + 1) := Nat.lt_log2_self
    generalize hsh : (e1 - e2 - te).toNat = sh
    have hsum : m2.log2 + 53 ≤ m1.log2 + sh := by unfold teDiv at hte; omega
    have hQ : 2^52 ≤ m1 * 2^sh / m2 := by
      rw [Nat.le_div_iff_mul_le h2]
      have a1 : 2^52 * m2 < 2^52 * 2^(m2.log2 + 1) := Nat.mul_lt_mul_of_pos_left hL2 (by decide)
      have a2 : 2^52 * 2^(m2.log2 + 1) = 2^(m2.log2 + 53) := by rw [← Nat.pow_add]; congr 1; omega
      have a3 : 2^(m2.log2 + 53) ≤ 2^(m1.log2 + sh) := Nat.pow_le_pow_right (by decide) hsum
      have a4 : 2^(m1.log2 + sh) ≤ m1 * 2^sh := by rw [Nat.pow_add]; exact Nat.mul_le_mul_right _ hL1
      omega
    have hQ0 : m1 * 2^sh / m2 ≠ 0 := by omega
    have := (Nat.le_log2 hQ0).2 hQ
    unfold tgt; omega

/-- reference description of the integer n: n·2^53 · 2^-53 -/
def refInt (n : Nat) : UnpackedFloat := rwaFrac .positive (n * 2^53) 1 (-53)
/-- reference description of c / 10^q with enough bits -/
def refFrac (c q : Nat) : UnpackedFloat :=
  rwaFrac .positive (c * 2^(4 * q + 53)) (10^q) (-((4 * q + 53 : Nat) : Int))

theorem refInt_bits (n : Nat) (hn : 0 < n) : (-53 : Int) ≤ tgt (n * 2^53 / 1) (-53) := by
  rw [Nat.div_one]
  have h0 : n * 2^53 ≠ 0 := Nat.mul_ne_zero (by omega) (by decide)
  have : 2^53 ≤ n * 2^53 := Nat.le_mul_of_pos_left _ hn
  have := (Nat.le_log2 h0).2 this
  unfold tgt; omega

theorem ten_pow_le (q : Nat) : 10^q ≤ 2^(4 * q) := by
  rw [Nat.pow_mul]; exact Nat.pow_le_pow_left (by decide) q

theorem refFrac_bits (c q : Nat) (hc : 0 < c) :
    (-((4 * q + 53 : Nat) : Int)) ≤ tgt (c * 2^(4 * q + 53) / 10^q) (-((4 * q + 53 : Nat) : Int)) := by
  have hpos : 0 < 10^q := Nat.pow_pos (by decide)
  have hQ : 2^53 ≤ c * 2^(4 * q + 53) / 10^q := by
    rw [Nat.le_div_iff_mul_le hpos]
    calc 2^53 * 10^q ≤ 2^53 * 2^(4 * q) := Nat.mul_le_mul_left _ (ten_pow_le q)
      _ = 2^(4 * q + 53) := by rw [← Nat.pow_add]; congr 1; omega
      _ ≤ c * 2^(4 * q + 53) := Nat.le_mul_of_pos_left _ hc
  have h0 : c * 2^(4 * q + 53) / 10^q ≠ 0 := by omega
  have := (Nat.le_log2 h0).2 hQ
  unfold tgt; omega

/-- slow path, non-negative decimal exponent -/
theorem model_sci_nonneg (m e : Nat) (hm : 0 < m) (he : e ≤ 2048) :
    UnpackedFloat.ofScientific B64 m (e : Int) = refInt (m * 10^e) := by
  unfold UnpackedFloat.ofScientific
  rw [dif_neg (by omega)]
  have c1 : ¬ ((e : Int) > 2 ^ B64.exponentBits) := by
    have : (2 : Int) ^ B64.exponentBits = 2048 := by decide
    rw [this]; omega
  have c2 : ¬ ((e : Int) < -((2 ^ B64.exponentBits : Int) + (m.log2 : Int))) := by
    have : (2 : Int) ^ B64.exponentBits = 2048 := by decide
    rw [this]; omega
  rw [if_neg c1, if_neg c2, if_pos (by omega)]
  rw [mul_finite]
  unfold refInt
  have hs : Sign.positive * Sign.positive = Sign.positive := rfl
  have hA : m <<< B64.mantissaBits * 10 ^ (e : Int).toNat = m * 10^e * 2^53 := by
    rw [Nat.shiftLeft_eq, Int.toNat_natCast]
    show m * 2^53 * 10^e = _
    ring
  have hE : (-(B64.mantissaBits : Int) + 0) = -53 := by decide
  rw [hs, hA, hE]

theorem pos_div_pos : Sign.positive / Sign.positive = Sign.positive := rfl

theorem pow_eq_of_exp_eq (a b : Nat) (h : a = b) : (2:Nat)^a = 2^b := by rw [h]

/-- slow path, negative decimal exponent -/
theorem model_sci_neg (m q : Nat) (hm : 0 < m) (hq1 : 1 ≤ q) (hq : q ≤ 2048 + m.log2) :
    UnpackedFloat.ofScientific B64 m (-(q : Int)) = refFrac m q := by
  unfold UnpackedFloat.ofScientific
  rw [dif_neg (by omega)]
  have c1 : ¬ (-(q : Int) > 2 ^ B64.exponentBits) := by
    have : (2 : Int) ^ B64.exponentBits = 2048 := by decide
    rw [this]; omega
  have c2 : ¬ (-(q : Int) < -((2 ^ B64.exponentBits : Int) + (m.log2 : Int))) := by
    have : (2 : Int) ^ B64.exponentBits = 2048 := by decide
    rw [this]; omega
  rw [if_neg c1, if_neg c2, if_neg (by omega)]
  have hq' : (-(-(q : Int))).toNat = q := by omega
  rw [div_finite, pos_div_pos, hq']
  unfold refFrac
  have hpos : 0 < 10^q := Nat.pow_pos (by decide)
  generalize hte : teDiv m 0 (10^q) 0 = te
  have hte0 : te ≤ 0 := by rw [← hte]; unfold teDiv; omega
  have hb := div_bits m (10^q) 0 0 hm hpos
  rw [hte] at hb
  apply rwaFrac_congr .positive _ _ _ _ te (-((4 * q + 53 : Nat) : Int)) (min te (-((4 * q + 53 : Nat) : Int)))
    hpos hpos hb (refFrac_bits m q hm) (by omega) (by omega)
  have hexp : (0 - 0 - te).toNat + (te - min te (-((4 * q + 53 : Nat) : Int))).toNat =
      (4 * q + 53) + (-((4 * q + 53 : Nat) : Int) - min te (-((4 * q + 53 : Nat) : Int))).toNat := by omega
  calc m * 2^(0 - 0 - te).toNat * 10^q * 2^(te - min te (-((4 * q + 53 : Nat) : Int))).toNat
      = m * 10^q * (2^(0 - 0 - te).toNat * 2^(te - min te (-((4 * q + 53 : Nat) : Int))).toNat) := by ac_rfl
    _ = m * 10^q * (2^(4 * q + 53) * 2^(-((4 * q + 53 : Nat) : Int) - min te (-((4 * q + 53 : Nat) : Int))).toNat) := by
        rw [← Nat.pow_add, ← Nat.pow_add, hexp]
    _ = m * 2^(4 * q + 53) * 10^q * 2^(-((4 * q + 53 : Nat) : Int) - min te (-((4 * q + 53 : Nat) : Int))).toNat := by
        ac_rfl

theorem unpack_toFloat (n : Nat) (h0 : 0 < n) (h : n < 2^53) :
    (n.toUInt64.toFloat).toModel.unpack =
      .finite .positive (n * 2^(52 - n.log2)) ((n.log2 : Int) - 52) (canon_ofNat n h0 h).pos := by
  have e1 : n.toUInt64.toFloat = mkF .positive (n * 2^(52 - n.log2)) ((n.log2 : Int) - 52) (canon_ofNat n h0 h).pos := by
    unfold UInt64.toFloat Float.Model.ofUInt64 UnpackedFloat.ofUInt64 mkF
    have : n.toUInt64.toNat = n := by
      show (UInt64.ofNat n).toNat = n
      rw [UInt64.toNat_ofNat']; omega
    rw [this, ofNat_unpacked n h0 h]
  rw [e1, unpack_mkF _ _ _ (canon_ofNat n h0 h)]

theorem unpack_table (e : Nat) (h : e ≤ 22) :
    ∃ hc : Canon (mTen e) (eTen e),
      (Float.exactlyRepresentablePowersOfTen[e]'(by rw [table_size]; omega)).toModel.unpack =
        .finite .positive (mTen e) (eTen e) hc.pos := by
  obtain ⟨hd, hf, hz, hs, _, h52, h53, hlo, hhi⟩ := table_facts e h
  generalize Float.exactlyRepresentablePowersOfTen[e]'(by rw [table_size]; omega) = t at *
  obtain ⟨s, m, ex, hc, rfl⟩ := exists_mkF t hf hz
  rw [decode_mkF s m ex hc] at hd
  have hm : m = mTen e := congrArg Prod.fst hd
  have hex : ex = eTen e := congrArg Prod.snd hd
  subst hm; subst hex
  rw [signBit_mkF s _ _ hc] at hs
  have hsp : s = .positive := by cases s <;> simp_all [sbit]
  subst hsp
  exact ⟨hc, unpack_mkF _ _ _ hc⟩

theorem pos_mul_pos : Sign.positive * Sign.positive = Sign.positive := rfl

/-- fast path, multiplication: m·10^e with m < 2^53, e ≤ 22 -/
theorem fast_mul (m e : Nat) (hm : 0 < m) (h53 : m < 2^53) (he : e ≤ 22) :
    UnpackedFloat.mul B64 (m.toUInt64.toFloat).toModel.unpack
      (Float.exactlyRepresentablePowersOfTen[e]'(by rw [table_size]; omega)).toModel.unpack = refInt (m * 10^e) := by
  obtain ⟨hc, ht⟩ := unpack_table e he
  obtain ⟨_, _, _, _, hval, h52, _, hlo, hhi⟩ := table_facts e he
  rw [unpack_toFloat m hm h53, ht, mul_finite, pos_mul_pos]
  unfold refInt
  have hm0 : m ≠ 0 := by omega
  have hL : m.log2 < 53 := (Nat.log2_lt hm0).2 h53
  have hm1 : 2^52 ≤ m * 2^(52 - m.log2) := by
    have := log2_mul_two_pow m (52 - m.log2) hm0
    have h0 : m * 2^(52 - m.log2) ≠ 0 := Nat.mul_ne_zero hm0 (by have := Nat.two_pow_pos (52 - m.log2); omega)
    exact (Nat.le_log2 h0).1 (by omega)
  generalize hE : eTen e = E at *
  generalize hM : mTen e = M at *
  generalize hL' : m.log2 = L at *
  have hbits : ((L : Int) - 52 + E) ≤ tgt (m * 2^(52 - L) * M / 1) ((L : Int) - 52 + E) := by
    rw [Nat.div_one]
    have hprod : 2^104 ≤ m * 2^(52 - L) * M := by
      calc 2^104 = 2^52 * 2^52 := by decide
        _ ≤ m * 2^(52 - L) * M := Nat.mul_le_mul hm1 h52
    have h0 : m * 2^(52 - L) * M ≠ 0 := by omega
    have := (Nat.le_log2 h0).2 hprod
    unfold tgt; omega
  apply rwaFrac_congr .positive _ _ _ _ _ _ (-157) (by decide) (by decide) hbits
    (refInt_bits (m * 10^e) (Nat.mul_pos hm (Nat.pow_pos (by decide)))) (by omega) (by omega)
  -- value equation, after multiplying by 2^(E+52)
  apply Nat.eq_of_mul_eq_mul_right (Nat.two_pow_pos (E + 52).toNat)
  have hexp : (52 - L) + ((L : Int) - 52 + E - -157).toNat + 52 = 53 + ((-53 : Int) - -157).toNat + (E + 52).toNat := by
    omega
  calc m * 2^(52 - L) * M * 1 * 2^((L : Int) - 52 + E - -157).toNat * 2^(E + 52).toNat
      = m * (M * 2^(E + 52).toNat) * 2^((52 - L) + ((L : Int) - 52 + E - -157).toNat) := by ring
    _ = m * (10^e * 2^52) * 2^((52 - L) + ((L : Int) - 52 + E - -157).toNat) := by rw [hval]
    _ = m * 10^e * 2^((52 - L) + ((L : Int) - 52 + E - -157).toNat + 52) := by ring
    _ = m * 10^e * 2^(53 + ((-53 : Int) - -157).toNat + (E + 52).toNat) := by rw [hexp]
    _ = m * 10^e * 2^53 * 1 * 2^((-53 : Int) - -157).toNat * 2^(E + 52).toNat := by ring

/-- fast path, division: m/10^q with m < 2^53, q ≤ 22 -/
theorem fast_div (m q : Nat) (hm : 0 < m) (h53 : m < 2^53) (hq : q ≤ 22) :
    UnpackedFloat.div B64 (m.toUInt64.toFloat).toModel.unpack
      (Float.exactlyRepresentablePowersOfTen[q]'(by rw [table_size]; omega)).toModel.unpack = refFrac m q := by
  obtain ⟨hc, ht⟩ := unpack_table q hq
  obtain ⟨_, _, _, _, hval, h52, _, hlo, hhi⟩ := table_facts q hq
  rw [unpack_toFloat m hm h53, ht, div_finite, pos_div_pos]
  unfold refFrac
  have hm0 : m ≠ 0 := by omega
  have hL : m.log2 < 53 := (Nat.log2_lt hm0).2 h53
  have hm1 : 0 < m * 2^(52 - m.log2) := Nat.mul_pos hm (Nat.two_pow_pos _)
  generalize hE : eTen q = E at *
  generalize hM : mTen q = M at *
  generalize hL' : m.log2 = L at *
  have hMpos : 0 < M := by omega
  have hb := div_bits (m * 2^(52 - L)) M ((L : Int) - 52) E hm1 hMpos
  generalize hte : teDiv (m * 2^(52 - L)) ((L : Int) - 52) M E = te at *
  have hte0 : te ≤ (L : Int) - 52 - E := by rw [← hte]; unfold teDiv; omega
  have hpos : 0 < 10^q := Nat.pow_pos (by decide)
  have hrb := refFrac_bits m q hm
  generalize hK : 4 * q + 53 = K at *
  generalize he0 : min te (-(K : Int)) - 200 = e₀
  apply rwaFrac_congr .positive _ _ _ _ te (-(K : Int)) e₀ hMpos hpos hb hrb (by omega) (by omega)
  apply Nat.eq_of_mul_eq_mul_right (Nat.two_pow_pos (E + 52).toNat)
  have hexp : (52 - L) + ((L : Int) - 52 - E - te).toNat + (te - e₀).toNat + (E + 52).toNat
      = K + (-(K : Int) - e₀).toNat + 52 := by omega
  calc m * 2^(52 - L) * 2^((L : Int) - 52 - E - te).toNat * 10^q * 2^(te - e₀).toNat * 2^(E + 52).toNat
      = m * 10^q * 2^((52 - L) + ((L : Int) - 52 - E - te).toNat + (te - e₀).toNat + (E + 52).toNat) := by ring
    _ = m * 10^q * 2^(K + (-(K : Int) - e₀).toNat + 52) := by rw [hexp]
    _ = m * 2^K * (10^q * 2^52) * 2^(-(K : Int) - e₀).toNat := by ring
    _ = m * 2^K * (M * 2^(E + 52).toNat) * 2^(-(K : Int) - e₀).toNat := by rw [hval]
    _ = m * 2^K * M * 2^(-(K : Int) - e₀).toNat * 2^(E + 52).toNat := by ring

/-- `Float.ofScientific m false e` (= m·10^e) is the model's rounding of the integer m·10^e — both code paths -/
theorem sci_false (m e : Nat) (hm : 0 < m) (he : e ≤ 2048) :
    Float.ofScientific m false e = Float.ofModel (Float.Model.pack (refInt (m * 10^e))) := by
  unfold Float.ofScientific
  by_cases h : m < 2^53 ∧ e ≤ 22
  · rw [dif_pos h]
    simp only [Bool.false_eq_true, if_false]
    show Float.mul _ _ = _
    unfold Float.mul
    show Float.ofModel (Float.Model.mul _ _) = _
    unfold Float.Model.mul
    rw [fast_mul m e hm h.1 h.2]
  · rw [dif_neg h]
    simp only [Bool.false_eq_true, if_false]
    unfold Float.Model.ofScientific
    rw [show Int.ofNat e = (e : Int) from rfl, model_sci_nonneg m e hm he]

/-- `Float.ofScientific m true q` (= m/10^q, q ≥ 1) is the model's rounding of that fraction — both code paths -/
theorem sci_true (m q : Nat) (hm : 0 < m) (hq1 : 1 ≤ q) (hq : q ≤ 2048 + m.log2) :
    Float.ofScientific m true q = Float.ofModel (Float.Model.pack (refFrac m q)) := by
  unfold Float.ofScientific
  by_cases h : m < 2^53 ∧ q ≤ 22
  · rw [dif_pos h]
    simp only [if_true]
    show Float.div _ _ = _
    unfold Float.div
    show Float.ofModel (Float.Model.div _ _) = _
    unfold Float.Model.div
    rw [fast_div m q hm h.1 h.2]
  · rw [dif_neg h]
    simp only [if_true]
    unfold Float.Model.ofScientific
    have : Int.negOfNat q = -(q : Int) := by cases q <;> rfl
    rw [this, model_sci_neg m q hm hq1 hq]

end F64
end Slac
