/-
  SlacProofs.TimeRfcRound — chrono's RFC 3339 and RFC 2822 parsers (SlacModel.TimeParse: `rfc3339Utc`, `rfc2822Utc`)
  invert the printers of SlacModel.TimeRfc (`rfc3339`, `rfc2822`) on date-times of years 0–9999.
-/
import SlacProofs.TimeStr
set_option autoImplicit false
set_option linter.unusedSimpArgs false
set_option linter.unusedVariables false
namespace Slac.Time
open Stdlib TimeRfc

/-! ### more `number` shapes -/

theorem number_3_stop (a b c : Nat) (ha : a < 10) (hb : b < 10) (hc : c < 10) (c0 : Char) (r : Str)
    (h0 : digit? c0 = none) (max : Nat) (hmax : 3 ≤ max) :
    number (a.digitChar :: b.digitChar :: c.digitChar :: c0 :: r) 1 max = .ok (c0 :: r, a * 100 + b * 10 + c) := by
  rw [number_def _ _ _ (by simp), numberGo_dc _ _ a ha _ _ _ (by omega) (by simp [i64Max]; omega),
    numberGo_dc _ _ b hb _ _ _ (by omega) (by simp [i64Max]; omega),
    numberGo_dc _ _ c hc _ _ _ (by omega) (by simp [i64Max]; omega), numberGo_nondigit _ _ _ _ _ _ h0 (by omega)]
  congr 2; omega

theorem number_4_stop (a b c d : Nat) (ha : a < 10) (hb : b < 10) (hc : c < 10) (hd : d < 10) (c0 : Char) (r : Str)
    (h0 : digit? c0 = none) (min max : Nat) (hmin : min ≤ 4) (hmax : 4 ≤ max) :
    number (a.digitChar :: b.digitChar :: c.digitChar :: d.digitChar :: c0 :: r) min max =
      .ok (c0 :: r, a * 1000 + b * 100 + c * 10 + d) := by
  rw [number_def _ _ _ (by simp; omega), numberGo_dc _ _ a ha _ _ _ (by omega) (by simp [i64Max]; omega),
    numberGo_dc _ _ b hb _ _ _ (by omega) (by simp [i64Max]; omega),
    numberGo_dc _ _ c hc _ _ _ (by omega) (by simp [i64Max]; omega),
    numberGo_dc _ _ d hd _ _ _ (by omega) (by simp [i64Max]; omega), numberGo_nondigit _ _ _ _ _ _ h0 (by omega)]
  congr 2; omega

/-- one or two digits of a day of the month followed by a space -/
theorem number_day (d : Nat) (hd : d < 100) (r : Str) :
    number (Nat.toDigits 10 d ++ ' ' :: r) 1 2 = .ok (' ' :: r, d) := by
  by_cases h : d < 10
  · rw [digits1 d h]
    show number (d.digitChar :: ' ' :: r) 1 2 = _
    rw [number_def _ _ _ (by simp), numberGo_dc _ _ d h _ _ _ (by omega) (by simp [i64Max]; omega),
      numberGo_nondigit _ _ _ _ _ _ (by decide) (by omega)]
    simp
  · rw [digits2 d (by omega) hd]
    show number ((d / 10).digitChar :: (d % 10).digitChar :: ' ' :: r) 1 2 = _
    rw [number_2 _ _ (by omega) (by omega) _ 1 (by omega)]
    congr 2; omega

theorem trimStart_digits (d : Nat) (hd : d < 100) (r : Str) : trimStart (Nat.toDigits 10 d ++ r) = Nat.toDigits 10 d ++ r := by
  by_cases h : d < 10
  · rw [digits1 d h]; exact trimStart_dc d h _
  · rw [digits2 d (by omega) hd]; exact trimStart_dc _ (by omega) _

theorem subOffset_zero (date : Int) (secs nano : Nat) (hs : secs < 86400) (hy : yearInRange date = true) :
    subOffset ⟨date, ⟨secs, nano⟩⟩ 0 = some ⟨date, ⟨secs, nano⟩⟩ := by
  have e1 : (secs : Int) / 86400 = 0 := by omega
  have e2 : ((secs : Int) % 86400).toNat = secs := by omega
  simp [subOffset, e1, e2, hy]

/-! ### RFC 3339 -/

theorem digitAt_ok (s : Str) (i k : Nat) (hk : k < 10) (h : charAt s i = k.digitChar) : digitAt s i = .ok k := by
  simp [digitAt, h, digit_dc k hk]

/-- the 19 fixed positions of an RFC 3339 text, then `tail` -/
def rfc3339Head (y m d h mi s : Nat) (tail : Str) : Str :=
  (y / 1000).digitChar :: (y / 100 % 10).digitChar :: (y / 10 % 10).digitChar :: (y % 10).digitChar :: '-' ::
  (m / 10).digitChar :: (m % 10).digitChar :: '-' :: (d / 10).digitChar :: (d % 10).digitChar :: 'T' ::
  (h / 10).digitChar :: (h % 10).digitChar :: ':' :: (mi / 10).digitChar :: (mi % 10).digitChar :: ':' ::
  (s / 10).digitChar :: (s % 10).digitChar :: tail

theorem rfc3339Utc_head (y m d h mi s : Nat) (hy : y < 10000) (hm : m < 100) (hd : d < 100) (hh : h < 100)
    (hmi : mi < 100) (hs : s < 100) (tail : Str) :
    rfc3339Utc (rfc3339Head y m d h mi s tail) =
      if validDate y m d then rfc3339Tail (daysFromCivil y m d) h mi s tail else .error .outOfRange := by
  have e1 : y / 1000 * 1000 + y / 100 % 10 * 100 + y / 10 % 10 * 10 + y % 10 = y := by omega
  have e2 : m / 10 * 10 + m % 10 = m := by omega
  have e3 : d / 10 * 10 + d % 10 = d := by omega
  have e4 : h / 10 * 10 + h % 10 = h := by omega
  have e5 : mi / 10 * 10 + mi % 10 = mi := by omega
  have e6 : s / 10 * 10 + s % 10 = s := by omega
  generalize hS : rfc3339Head y m d h mi s tail = S
  have hlen : ¬ utf8Len S < 19 := by
    have := length_le_utf8Len S
    have h19 : 19 ≤ S.length := by rw [← hS]; simp [rfc3339Head]
    omega
  have c4 : charAt S 4 = '-' := by rw [← hS]; rfl
  have c7 : charAt S 7 = '-' := by rw [← hS]; rfl
  have c10 : charAt S 10 = 'T' := by rw [← hS]; rfl
  have c13 : charAt S 13 = ':' := by rw [← hS]; rfl
  have c16 : charAt S 16 = ':' := by rw [← hS]; rfl
  have hdrop : S.drop 19 = tail := by rw [← hS]; rfl
  unfold rfc3339Utc
  rw [if_neg hlen]
  simp only [bind, Except.bind,
    digitAt_ok S 0 (y / 1000) (by omega) (by rw [← hS]; rfl), digitAt_ok S 1 (y / 100 % 10) (by omega) (by rw [← hS]; rfl),
    digitAt_ok S 2 (y / 10 % 10) (by omega) (by rw [← hS]; rfl), digitAt_ok S 3 (y % 10) (by omega) (by rw [← hS]; rfl),
    digitAt_ok S 5 (m / 10) (by omega) (by rw [← hS]; rfl), digitAt_ok S 6 (m % 10) (by omega) (by rw [← hS]; rfl),
    digitAt_ok S 8 (d / 10) (by omega) (by rw [← hS]; rfl), digitAt_ok S 9 (d % 10) (by omega) (by rw [← hS]; rfl),
    digitAt_ok S 11 (h / 10) (by omega) (by rw [← hS]; rfl), digitAt_ok S 12 (h % 10) (by omega) (by rw [← hS]; rfl),
    digitAt_ok S 14 (mi / 10) (by omega) (by rw [← hS]; rfl), digitAt_ok S 15 (mi % 10) (by omega) (by rw [← hS]; rfl),
    digitAt_ok S 17 (s / 10) (by omega) (by rw [← hS]; rfl), digitAt_ok S 18 (s % 10) (by omega) (by rw [← hS]; rfl),
    expectAt, c4, c7, c10, c13, c16, beq_self_eq_true, if_true, Bool.or_true, Bool.true_or, e1, e2, e3, e4, e5, e6, hdrop, fromYmd]
  by_cases hv : validDate (y : Int) m d = true
  · simp [hv]
  · simp [hv]

theorem tz_utc_colon : timezoneOffset ['+', '0', '0', ':', '0', '0'] .strict true false true = .ok ([], 0) := by rfl

/-- fraction as printed by `autoSi` (nothing or `.mmm`) and the offset `+00:00` -/
theorem rfc3339Tail_utc (date : Int) (h mi s milli : Nat) (hh : h < 24) (hmi : mi < 60) (hs : s < 60)
    (hml : milli < 1000) (hyr : yearInRange date = true) :
    rfc3339Tail date h mi s (autoSi milli ++ ['+', '0', '0', ':', '0', '0']) =
      .ok ⟨date, ⟨h * 3600 + mi * 60 + s, milli * 1000000⟩⟩ := by
  have hr : ¬ (h ≥ 24 ∨ mi ≥ 60 ∨ s > 60) := by omega
  have h60 : ¬ s = 60 := by omega
  have hmin : min s 59 = s := by omega
  have hsec : h * 3600 + mi * 60 + s < 86400 := by omega
  by_cases h0 : milli = 0
  · subst h0
    simp [rfc3339Tail, fracPart, autoSi, bind, Except.bind, hr, h60, hmin, tz_utc_colon, validOffset, subOffset_zero _ _ _ hsec hyr]
  · have hb : (milli == 0) = false := by simp [h0]
    have e : milli / 100 * 100 + milli / 10 % 10 * 10 + milli % 10 = milli := by omega
    simp only [rfc3339Tail, fracPart, autoSi, hb, pad3_spec milli hml, Bool.false_eq_true, if_false, List.cons_append, List.nil_append,
      nanosecond, number_3_stop _ _ _ (by omega : milli / 100 < 10) (by omega : milli / 10 % 10 < 10) (by omega : milli % 10 < 10) '+' _ (by decide) 9 (by omega), e]
    simp [bind, Except.bind, hr, h60, hmin, tz_utc_colon, validOffset, subOffset_zero _ _ _ hsec hyr, isDigit, digit?]

/-- a date-time with a time of day below 24 h: its printed fields are in range -/
theorem dt_fields (t : DT) (hms : t.ms < 86400000) :
    t.hour < 24 ∧ t.minute < 60 ∧ t.second < 60 ∧ t.milli < 1000 ∧
    t.hour * 3600 + t.minute * 60 + t.second = t.ms / 1000 ∧
    (t.hour * 3600 + t.minute * 60 + t.second) * 1000 + t.milli = t.ms := by
  simp only [DT.hour, DT.minute, DT.second, DT.milli]; omega

theorem dt_date (t : DT) (h0 : 0 ≤ t.year) (h1 : t.year ≤ 9999) :
    validDate t.year t.month t.day = true ∧ daysFromCivil t.year t.month t.day = t.days ∧ yearInRange t.days = true ∧
    1 ≤ t.month ∧ t.month ≤ 12 ∧ 1 ≤ t.day ∧ t.day ≤ 31 := by
  have hv := civilFromDays_validMD t.days
  have hval : validDate t.year t.month t.day = true :=
    (validDate_iff _ _ _).2 ⟨⟨by simp only [minYear]; omega, by simp only [maxYear]; omega⟩, hv⟩
  have hb := validDate_bounds hval
  refine ⟨hval, days_roundtrip t.days, ?_, hb.1.1, hb.1.2, hb.2.1, hb.2.2⟩
  have e1 : minYear ≤ (civilFromDays t.days).1 := by show minYear ≤ t.year; simp only [minYear]; omega
  have e2 : (civilFromDays t.days).1 ≤ maxYear := by show t.year ≤ maxYear; simp only [maxYear]; omega
  simp [yearInRange, e1, e2]

theorem rfc3339_text (t : DT) (hms : t.ms < 86400000) (h0 : 0 ≤ t.year) (h1 : t.year ≤ 9999) :
    rfc3339 t = rfc3339Head t.year.toNat t.month t.day t.hour t.minute t.second
      (autoSi t.milli ++ ['+', '0', '0', ':', '0', '0']) := by
  obtain ⟨_, _, _, hm1, hm12, hd1, hd31⟩ := dt_date t h0 h1
  obtain ⟨hh, hmi, hs, _⟩ := dt_fields t hms
  have hy : 0 ≤ t.year ∧ t.year ≤ 9999 := ⟨h0, h1⟩
  simp only [rfc3339, year3339, hy, and_self, if_true, two, TimeRfc.hms, pad4_spec _ (by omega : t.year.toNat < 10000),
    pad2_spec _ (by omega : t.month < 100), pad2_spec _ (by omega : t.day < 100), pad2_spec _ (by omega : t.hour < 100),
    pad2_spec _ (by omega : t.minute < 100), pad2_spec _ (by omega : t.second < 100), rfc3339Head,
    List.cons_append, List.nil_append, List.append_assoc]

/-- `parse_from_rfc3339 ∘ to_rfc3339` at offset +00:00: the same date, second of the day and millisecond -/
theorem rfc3339Utc_rfc3339 (t : DT) (hms : t.ms < 86400000) (h0 : 0 ≤ t.year) (h1 : t.year ≤ 9999) :
    rfc3339Utc (rfc3339 t) = .ok ⟨t.days, ⟨t.ms / 1000, t.milli * 1000000⟩⟩ := by
  obtain ⟨hval, hdays, hyr, hm1, hm12, hd1, hd31⟩ := dt_date t h0 h1
  obtain ⟨hh, hmi, hs, hml, hsec, _⟩ := dt_fields t hms
  have hy : ((t.year.toNat : Nat) : Int) = t.year := by omega
  rw [rfc3339_text t hms h0 h1, rfc3339Utc_head _ _ _ _ _ _ (by omega) (by omega) (by omega) (by omega) (by omega) (by omega),
    hy, if_pos hval, hdays, rfc3339Tail_utc _ _ _ _ _ hh hmi hs hml hyr, hsec]

/-! ### RFC 3339 with an explicit offset and leap seconds -/

/-- `±hh:mm` -/
def offsetText (neg : Bool) (oh om : Nat) : Str :=
  (if neg then '-' else '+') :: (oh / 10).digitChar :: (oh % 10).digitChar :: ':' :: (om / 10).digitChar :: [(om % 10).digitChar]

theorem twoDigits_dc (a b : Nat) (ha : a < 10) (hb : b < 10) (r : Str) :
    twoDigits (a.digitChar :: b.digitChar :: r) = .ok (a, b) := by
  have : ¬ utf8Len (a.digitChar :: b.digitChar :: r) < 2 := by
    have := length_le_utf8Len (a.digitChar :: b.digitChar :: r); simp at this; omega
  simp [twoDigits, this, digit_dc a ha, digit_dc b hb]

theorem timezoneOffset_text (neg : Bool) (oh om : Nat) (hoh : oh < 100) (hom : om < 60) :
    timezoneOffset (offsetText neg oh om) .strict true false true =
      .ok ([], if neg then -((oh * 3600 + om * 60 : Nat) : Int) else ((oh * 3600 + om * 60 : Nat) : Int)) := by
  have e1 : oh / 10 * 10 + oh % 10 = oh := by omega
  have e2 : om / 10 * 10 + om % 10 = om := by omega
  have h5 : om / 10 ≤ 5 := by omega
  have hl : ¬ utf8Len [(om / 10).digitChar, (om % 10).digitChar] < 2 := by
    have := length_le_utf8Len [(om / 10).digitChar, (om % 10).digitChar]; simp at this; omega
  cases neg
  · simp [offsetText, timezoneOffset, twoDigits_dc _ _ (by omega : oh / 10 < 10) (by omega : oh % 10 < 10), consumeColon, scanChar,
      twoDigits_dc _ _ (by omega : om / 10 < 10) (by omega : om % 10 < 10), hl, h5, e1, e2]
  · simp [offsetText, timezoneOffset, twoDigits_dc _ _ (by omega : oh / 10 < 10) (by omega : oh % 10 < 10), consumeColon, scanChar,
      twoDigits_dc _ _ (by omega : om / 10 < 10) (by omega : om % 10 < 10), hl, h5, e1, e2]

theorem days_range0 (y : Int) (m d : Nat) (h : ValidMD y m d) (hy0 : 0 ≤ y) (hy2 : y ≤ 9999) :
    -719528 ≤ daysFromCivil y m d ∧ daysFromCivil y m d ≤ 2932896 := by
  have b := days_bounds y m d h
  have l := (days_year_mono 0 y hy0).1
  have u := (days_year_mono y 9999 hy2).2
  have e1 : daysFromCivil 0 1 1 = -719528 := by decide
  have e2 : daysFromCivil 9999 12 31 = 2932896 := by decide
  omega

theorem yearInRange_near (z : Int) (h1 : -3257813 ≤ z) (h2 : z ≤ 3257812) : yearInRange z = true := by
  obtain ⟨a, b⟩ := year_range_of_days z h1 h2
  simp [yearInRange, a, b]

/-- the date-time `off` seconds earlier (what `checked_sub_offset` computes) -/
def shiftNDT (t : NDT) (off : Int) : NDT :=
  ⟨t.days + ((t.time.secs : Int) - off) / 86400, ⟨(((t.time.secs : Int) - off) % 86400).toNat, t.time.nano⟩⟩

theorem shiftNDT_millis (t : NDT) (off : Int) : (shiftNDT t off).millis = t.millis - off * 1000 := by
  simp only [shiftNDT, NDT.millis, NDT.timestamp]
  have : ((((t.time.secs : Int) - off) % 86400).toNat : Int) = ((t.time.secs : Int) - off) % 86400 := by omega
  rw [this]; omega

theorem subOffset_shift (t : NDT) (off : Int) (h : yearInRange (shiftNDT t off).days = true) :
    subOffset t off = some (shiftNDT t off) := by
  simp only [shiftNDT] at h
  simp [subOffset, shiftNDT, h]

/-- no fraction, an explicit offset `±hh:mm`, seconds up to 60 (a leap second): the UTC instant -/
theorem rfc3339Tail_offset (date : Int) (h mi s : Nat) (hd1 : -719528 ≤ date) (hd2 : date ≤ 2932896)
    (hh : h < 24) (hmi : mi < 60) (hs : s ≤ 60) (neg : Bool) (oh om : Nat) (hoh : oh < 24) (hom : om < 60) :
    rfc3339Tail date h mi s (offsetText neg oh om) =
      .ok (shiftNDT ⟨date, ⟨h * 3600 + mi * 60 + min s 59, if s = 60 then 1000000000 else 0⟩⟩
        (if neg then -((oh * 3600 + om * 60 : Nat) : Int) else ((oh * 3600 + om * 60 : Nat) : Int))) := by
  have hr : ¬ (h ≥ 24 ∨ mi ≥ 60 ∨ s > 60) := by omega
  have hto := timezoneOffset_text neg oh om (by omega) hom
  have hoff : (oh * 3600 + om * 60 : Nat) < 86400 := by omega
  have hms : min s 59 ≤ 59 := by omega
  have hm1 : ∀ r : Str, fracPart ('+' :: r) = .ok ('+' :: r, 0) := fun r => rfl
  have hm2 : ∀ r : Str, fracPart ('-' :: r) = .ok ('-' :: r, 0) := fun r => rfl
  cases neg
  · simp only [offsetText, Bool.false_eq_true, if_false] at hto
    have hv : validOffset ((oh * 3600 + om * 60 : Nat) : Int) = true := by simp [validOffset]; omega
    have hsub := subOffset_shift ⟨date, ⟨h * 3600 + mi * 60 + min s 59, if s = 60 then 1000000000 else 0⟩⟩
      ((oh * 3600 + om * 60 : Nat) : Int) (yearInRange_near _ (by simp only [shiftNDT]; omega) (by simp only [shiftNDT]; omega))
    simp only [rfc3339Tail, offsetText, Bool.false_eq_true, if_false, bind, Except.bind, hr, hto, hv,
      Bool.not_true, ne_eq, not_true_eq_false, if_true, Nat.add_zero, hsub, hm1]
  · simp only [offsetText, if_true] at hto
    have hv : validOffset (-((oh * 3600 + om * 60 : Nat) : Int)) = true := by simp [validOffset]; omega
    have hsub := subOffset_shift ⟨date, ⟨h * 3600 + mi * 60 + min s 59, if s = 60 then 1000000000 else 0⟩⟩
      (-((oh * 3600 + om * 60 : Nat) : Int)) (yearInRange_near _ (by simp only [shiftNDT]; omega) (by simp only [shiftNDT]; omega))
    simp only [rfc3339Tail, offsetText, if_true, bind, Except.bind, hr, hto, hv,
      Bool.not_true, ne_eq, not_true_eq_false, if_false, Nat.add_zero, hsub, hm2, Bool.false_eq_true]

/-! ### RFC 2822 -/

theorem shortWeekday_3 (a b c : Char) (w : Nat) (r : Str) (h : weekday3 a b c = some w) :
    shortWeekday (a :: b :: c :: r) = .ok (r, w) := by
  have := utf8Size_pos a; have := utf8Size_pos b; have := utf8Size_pos c
  have h3 : ¬ utf8Len (a :: b :: c :: r) < 3 := by simp only [utf8Len]; omega
  simp [shortWeekday, h3, h]

theorem shortMonth0_3 (a b c : Char) (m : Nat) (r : Str) (h : month3 a b c = some m) :
    shortMonth0 (a :: b :: c :: r) = .ok (r, m) := by
  have := utf8Size_pos a; have := utf8Size_pos b; have := utf8Size_pos c
  have h3 : ¬ utf8Len (a :: b :: c :: r) < 3 := by simp only [utf8Len]; omega
  simp [shortMonth0, h3, h]

/-- the optional day-of-week part on a printed weekday name -/
theorem rfcDow_name (w : Nat) (hw : w < 7) (r : Str) (p : Parsed) :
    rfcDow (trimStart (weekdayName w ++ ',' :: r)) p = (p.setWeekday w).map fun p' => (r, p') := by
  have : w = 0 ∨ w = 1 ∨ w = 2 ∨ w = 3 ∨ w = 4 ∨ w = 5 ∨ w = 6 := by omega
  rcases this with rfl | rfl | rfl | rfl | rfl | rfl | rfl
  all_goals
    simp only [weekdayName, List.cons_append, List.nil_append, trimStart, List.dropWhile, (by decide : isWs 'M' = false),
      (by decide : isWs 'T' = false), (by decide : isWs 'W' = false), (by decide : isWs 'F' = false), (by decide : isWs 'S' = false)]
    rw [rfcDow]
    first
      | rw [shortWeekday_3 _ _ _ 0 _ (by decide)]
      | rw [shortWeekday_3 _ _ _ 1 _ (by decide)]
      | rw [shortWeekday_3 _ _ _ 2 _ (by decide)]
      | rw [shortWeekday_3 _ _ _ 3 _ (by decide)]
      | rw [shortWeekday_3 _ _ _ 4 _ (by decide)]
      | rw [shortWeekday_3 _ _ _ 5 _ (by decide)]
      | rw [shortWeekday_3 _ _ _ 6 _ (by decide)]
    rfl

theorem month_name (m : Nat) (h1 : 1 ≤ m) (h2 : m ≤ 12) (r : Str) :
    scanSpace (' ' :: (monthName m ++ r)) = .ok (monthName m ++ r) ∧ shortMonth0 (monthName m ++ r) = .ok (r, m - 1) := by
  have : m = 1 ∨ m = 2 ∨ m = 3 ∨ m = 4 ∨ m = 5 ∨ m = 6 ∨ m = 7 ∨ m = 8 ∨ m = 9 ∨ m = 10 ∨ m = 11 ∨ m = 12 := by omega
  rcases this with rfl | rfl | rfl | rfl | rfl | rfl | rfl | rfl | rfl | rfl | rfl | rfl
  all_goals
    refine ⟨?_, ?_⟩
    · simp only [monthName, List.cons_append, List.nil_append, scanSpace, (by decide : isWs ' ' = true), if_true, trimStart, List.dropWhile,
        (by decide : isWs 'J' = false), (by decide : isWs 'F' = false), (by decide : isWs 'M' = false), (by decide : isWs 'A' = false),
        (by decide : isWs 'S' = false), (by decide : isWs 'O' = false), (by decide : isWs 'N' = false), (by decide : isWs 'D' = false)]
    · simp only [monthName, List.cons_append, List.nil_append]
      first
        | rw [shortMonth0_3 _ _ _ 0 _ (by decide)]
        | rw [shortMonth0_3 _ _ _ 1 _ (by decide)]
        | rw [shortMonth0_3 _ _ _ 2 _ (by decide)]
        | rw [shortMonth0_3 _ _ _ 3 _ (by decide)]
        | rw [shortMonth0_3 _ _ _ 4 _ (by decide)]
        | rw [shortMonth0_3 _ _ _ 5 _ (by decide)]
        | rw [shortMonth0_3 _ _ _ 6 _ (by decide)]
        | rw [shortMonth0_3 _ _ _ 7 _ (by decide)]
        | rw [shortMonth0_3 _ _ _ 8 _ (by decide)]
        | rw [shortMonth0_3 _ _ _ 9 _ (by decide)]
        | rw [shortMonth0_3 _ _ _ 10 _ (by decide)]
        | rw [shortMonth0_3 _ _ _ 11 _ (by decide)]

/-- `day month year` on `D[D] Mon YYYY` followed by a space -/
theorem rfcDate_text (d m y : Nat) (hd1 : 1 ≤ d) (hd : d ≤ 31) (hm1 : 1 ≤ m) (hm : m ≤ 12) (hy : y < 10000) (r : Str)
    (ow : Option Nat) :
    rfcDate (Nat.toDigits 10 d ++ ' ' :: (monthName m ++ ' ' ::
      (y / 1000).digitChar :: (y / 100 % 10).digitChar :: (y / 10 % 10).digitChar :: (y % 10).digitChar :: ' ' :: r))
      { weekday := ow } =
      .ok (' ' :: r, { weekday := ow, day := some d, month := some m, year := some (y : Int) }) := by
  obtain ⟨hm1', hm2'⟩ := month_name m hm1 hm (' ' ::
      (y / 1000).digitChar :: (y / 100 % 10).digitChar :: (y / 10 % 10).digitChar :: (y % 10).digitChar :: ' ' :: r)
  have e1 : y / 1000 * 1000 + y / 100 % 10 * 100 + y / 10 % 10 * 10 + y % 10 = y := by omega
  have e2 : m - 1 + 1 = m := by omega
  have scY : scanSpace (' ' :: (y / 1000).digitChar :: (y / 100 % 10).digitChar :: (y / 10 % 10).digitChar :: (y % 10).digitChar :: ' ' :: r) =
      .ok ((y / 1000).digitChar :: (y / 100 % 10).digitChar :: (y / 10 % 10).digitChar :: (y % 10).digitChar :: ' ' :: r) := by
    simp [scanSpace, (by decide : isWs ' ' = true), trimStart_dc _ (by omega : y / 1000 < 10)]
  have nY := number_4_stop _ _ _ _ (by omega : y / 1000 < 10) (by omega : y / 100 % 10 < 10) (by omega : y / 10 % 10 < 10)
      (by omega : y % 10 < 10) ' ' r (by decide) 2 noLimit (by omega) (by simp [noLimit])
  rw [e1] at nY
  have hlen : ((y / 1000).digitChar :: (y / 100 % 10).digitChar :: (y / 10 % 10).digitChar :: (y % 10).digitChar :: ' ' :: r).length -
      (' ' :: r).length = 4 := by simp
  simp only [rfcDate, bind, Except.bind, number_day d (by omega), setDay_eval, hd1, hd, hm1, hm, and_self,
    if_true, hm1', hm2', e2, setMonth_eval, scY, nY, hlen, setYear_small, hy, pure, Except.pure,
    (by decide : ¬ (4 = 2)), (by decide : ¬ (4 = 3)), if_false]

theorem trimStart_colon (r : Str) : trimStart (':' :: r) = ':' :: r := by
  simp [trimStart, List.dropWhile, (by decide : isWs ':' = false)]

/-- `hour ":" minute ":" second` on `HH:MM:SS` followed by a space -/
theorem rfcTime_text (h mi s : Nat) (hh : h < 24) (hmi : mi < 60) (hs : s < 60) (r : Str)
    (ow od om : Option Nat) (oy : Option Int) :
    rfcTime ((h / 10).digitChar :: (h % 10).digitChar :: ':' :: (mi / 10).digitChar :: (mi % 10).digitChar :: ':' ::
      (s / 10).digitChar :: (s % 10).digitChar :: ' ' :: r) { weekday := ow, day := od, month := om, year := oy } =
      .ok (' ' :: r, { weekday := ow, day := od, month := om, year := oy, hourDiv12 := some (h / 12),
                       hourMod12 := some (h % 12), minute := some mi, second := some s }) := by
  have e4 : h / 10 * 10 + h % 10 = h := by omega
  have e5 : mi / 10 * 10 + mi % 10 = mi := by omega
  have e6 : s / 10 * 10 + s % 10 = s := by omega
  have hs' : s ≤ 60 := by omega
  simp only [rfcTime, bind, Except.bind, number_2 _ _ (by omega : h / 10 < 10) (by omega : h % 10 < 10) _ 2 (by omega), e4,
    setHour_eval, hh, if_true, trimStart_colon, scanChar, trimStart_dc _ (by omega : mi / 10 < 10),
    number_2 _ _ (by omega : mi / 10 < 10) (by omega : mi % 10 < 10) _ 2 (by omega), e5, setMinute_eval, hmi,
    number_2 _ _ (by omega : s / 10 < 10) (by omega : s % 10 < 10) _ 2 (by omega), e6, setSecond_eval, hs', Except.map]

theorem rfcZone_utc (p : Parsed) (hp : p.offset = none) :
    rfcZone ['+', '0', '0', '0', '0'] p = .ok ([], { p with offset := some 0 }) := by
  have h1 : timezoneOffset2822 ['+', '0', '0', '0', '0'] = .ok ([], 0) := by rfl
  have h2 : inR i32Min i32Max 0 = true := by decide
  simp [rfcZone, bind, Except.bind, h1, Parsed.setOffset, h2, hp, setIf, Except.map, pure, Except.pure, skipComments]

/-- the text `to_rfc2822` prints at offset +0000, from its components -/
def rfc2822Text (w d m y h mi s : Nat) : Str :=
  weekdayName w ++ ',' :: ' ' :: (Nat.toDigits 10 d ++ ' ' :: (monthName m ++ ' ' ::
    (y / 1000).digitChar :: (y / 100 % 10).digitChar :: (y / 10 % 10).digitChar :: (y % 10).digitChar :: ' ' ::
    (h / 10).digitChar :: (h % 10).digitChar :: ':' :: (mi / 10).digitChar :: (mi % 10).digitChar :: ':' ::
    (s / 10).digitChar :: (s % 10).digitChar :: [' ', '+', '0', '0', '0', '0']))

theorem parseRfc2822_text (w d m y h mi s : Nat) (hw : w < 7) (hd1 : 1 ≤ d) (hd : d ≤ 31) (hm1 : 1 ≤ m) (hm : m ≤ 12)
    (hy : y < 10000) (hh : h < 24) (hmi : mi < 60) (hs : s < 60) :
    parseRfc2822 (rfc2822Text w d m y h mi s) {} =
      .ok ([], { weekday := some w, day := some d, month := some m, year := some (y : Int), hourDiv12 := some (h / 12),
                 hourMod12 := some (h % 12), minute := some mi, second := some s, offset := some 0 }) := by
  have hsw : Parsed.setWeekday {} w = .ok { weekday := some w } := rfl
  have sc1 : ∀ r : Str, scanSpace (' ' :: (h / 10).digitChar :: r) = .ok ((h / 10).digitChar :: r) := by
    intro r; simp [scanSpace, (by decide : isWs ' ' = true), trimStart_dc _ (by omega : h / 10 < 10)]
  have sc2 : scanSpace [' ', '+', '0', '0', '0', '0'] = .ok ['+', '0', '0', '0', '0'] := by rfl
  have ts : ∀ r : Str, trimStart (' ' :: (Nat.toDigits 10 d ++ r)) = Nat.toDigits 10 d ++ r := by
    intro r
    have : trimStart (' ' :: (Nat.toDigits 10 d ++ r)) = trimStart (Nat.toDigits 10 d ++ r) := by
      simp [trimStart, List.dropWhile, (by decide : isWs ' ' = true)]
    rw [this, trimStart_digits d (by omega)]
  have hz := rfcZone_utc { weekday := some w, day := some d, month := some m, year := some (y : Int), hourDiv12 := some (h / 12), hourMod12 := some (h % 12), minute := some mi, second := some s } rfl
  simp only [parseRfc2822, rfc2822Text, bind, Except.bind, rfcDow_name w hw, hsw, Except.map, ts,
    rfcDate_text d m y hd1 hd hm1 hm hy, sc1, rfcTime_text h mi s hh hmi hs, sc2, hz]

theorem rfc2822_text (t : DT) (hms : t.ms < 86400000) (h0 : 0 ≤ t.year) (h1 : t.year ≤ 9999) :
    rfc2822 t = rfc2822Text (weekday t.days) t.day t.month t.year.toNat t.hour t.minute t.second := by
  obtain ⟨_, _, _, hm1, hm12, hd1, hd31⟩ := dt_date t h0 h1
  obtain ⟨hh, hmi, hs, _⟩ := dt_fields t hms
  simp only [rfc2822, rfc2822Text, two, TimeRfc.hms, pad4_spec _ (by omega : t.year.toNat < 10000),
    pad2_spec _ (by omega : t.hour < 100), pad2_spec _ (by omega : t.minute < 100), pad2_spec _ (by omega : t.second < 100),
    List.cons_append, List.nil_append, List.append_assoc]

/-- `parse_from_rfc2822 ∘ to_rfc2822` at offset +0000: the same date and second of the day (the text has no fraction) -/
theorem rfc2822Utc_rfc2822 (t : DT) (hms : t.ms < 86400000) (h0 : 0 ≤ t.year) (h1 : t.year ≤ 9999) :
    rfc2822Utc (rfc2822 t) = .ok ⟨t.days, ⟨t.ms / 1000, 0⟩⟩ := by
  obtain ⟨hval, hdays, hyr, hm1, hm12, hd1, hd31⟩ := dt_date t h0 h1
  obtain ⟨hh, hmi, hs, hml, hsec, _⟩ := dt_fields t hms
  have hy : ((t.year.toNat : Nat) : Int) = t.year := by omega
  have hwd := weekday_lt t.days
  rw [rfc2822_text t hms h0 h1, rfc2822Utc,
    parseRfc2822_text _ _ _ _ _ _ _ hwd hd1 hd31 hm1 hm12 (by omega) hh hmi hs, hy]
  have hd := toNaiveDate_ymd_of
    { weekday := some (weekday t.days), day := some t.day, month := some t.month, year := some t.year, hourDiv12 := some (t.hour / 12), hourMod12 := some (t.hour % 12), minute := some t.minute, second := some t.second, offset := some 0 }
    t.year t.month t.day (some (weekday t.days)) rfl rfl rfl rfl rfl rfl rfl rfl rfl rfl rfl rfl rfl
  rw [if_pos hval, hdays] at hd
  have hw : optEqOr (some (weekday t.days)) (weekday t.days) = true := by simp [optEqOr]
  rw [if_pos hw] at hd
  have ht := toNaiveTime_hms
    { weekday := some (weekday t.days), day := some t.day, month := some t.month, year := some t.year, hourDiv12 := some (t.hour / 12), hourMod12 := some (t.hour % 12), minute := some t.minute, second := some t.second, offset := some 0 }
    t.hour t.minute t.second none rfl rfl rfl rfl rfl
  have h60 : ¬ t.second = 60 := by omega
  have hmin : min t.second 59 = t.second := by omega
  have hsec' : t.hour * 3600 + t.minute * 60 + t.second < 86400 := by omega
  simp only [Parsed.toDatetimeUtc, Parsed.toNaiveDatetime, hd, ht]
  have hsec2 : t.ms / 1000 < 86400 := by omega
  simp [validOffset, h60, hmin, hsec, subOffset_zero _ _ _ hsec2 hyr]

/-! ### fractions of any length -/

/-- value of a digit list continuing from `acc` -/
def digitsVal (ds : List Nat) (acc : Nat) : Nat := ds.foldl (fun a d => a * 10 + d) acc
/-- the text of a digit list -/
def digitsText (ds : List Nat) : Str := ds.map Nat.digitChar

/-- `rest` does not continue the digits -/
def NoDigitHead (rest : Str) : Prop := ∀ c r, rest = c :: r → digit? c = none

theorem numberGo_digits (min : Nat) (ds : List Nat) (hds : ∀ d ∈ ds, d < 10) (rest : Str) (hrest : NoDigitHead rest) :
    ∀ (i acc : Nat), i + ds.length ≤ 9 → min ≤ i + ds.length → acc < 10 ^ i →
      numberGo min 9 (digitsText ds ++ rest) i acc = .ok (rest, digitsVal ds acc) := by
  induction ds with
  | nil =>
    intro i acc hi hmin hacc
    simp only [digitsText, List.map_nil, List.nil_append, digitsVal, List.foldl_nil]
    cases rest with
    | nil => rfl
    | cons c r => exact numberGo_nondigit _ _ _ _ _ _ (hrest c r rfl) (by simpa using hmin)
  | cons d ds ih =>
    intro i acc hi hmin hacc
    have hd : d < 10 := hds d (by simp)
    simp only [List.length_cons] at hi hmin
    have hp : 10 ^ i ≤ 10 ^ 8 := Nat.pow_le_pow_right (by omega) (by omega)
    have hs : 10 ^ (i + 1) = 10 ^ i * 10 := Nat.pow_succ ..
    simp only [digitsText, List.map_cons, List.cons_append, digitsVal, List.foldl_cons]
    rw [numberGo_dc _ _ d hd _ _ _ (by omega) (by simp only [i64Max]; omega)]
    exact ih (fun x hx => hds x (by simp [hx])) (i + 1) (acc * 10 + d) (by omega) (by omega) (by omega)

theorem digitsVal_lt (ds : List Nat) (hds : ∀ d ∈ ds, d < 10) : ∀ acc i, acc < 10 ^ i → digitsVal ds acc < 10 ^ (i + ds.length) := by
  induction ds with
  | nil => intro acc i h; simpa [digitsVal] using h
  | cons d ds ih =>
    intro acc i h
    have hd : d < 10 := hds d (by simp)
    have hs : 10 ^ (i + 1) = 10 ^ i * 10 := Nat.pow_succ ..
    have := ih (fun x hx => hds x (by simp [hx])) (acc * 10 + d) (i + 1) (by omega)
    simp only [digitsVal, List.foldl_cons, List.length_cons] at this ⊢
    have e : i + 1 + ds.length = i + (ds.length + 1) := by omega
    rw [e] at this; exact this

/-- `scan::nanosecond` on 1–9 fraction digits: scaled to nanoseconds -/
theorem nanosecond_short (ds : List Nat) (hds : ∀ d ∈ ds, d < 10) (h1 : 1 ≤ ds.length) (h9 : ds.length ≤ 9)
    (rest : Str) (hrest : NoDigitHead rest) :
    nanosecond (digitsText ds ++ rest) = .ok (rest, digitsVal ds 0 * 10 ^ (9 - ds.length)) := by
  have hn : number (digitsText ds ++ rest) 1 9 = .ok (rest, digitsVal ds 0) := by
    rw [number_def _ _ _ (by simp [digitsText]; omega)]
    exact numberGo_digits 1 ds hds rest hrest 0 0 (by omega) (by omega) (by simp)
  have hdrop : rest.dropWhile isDigit = rest := by
    cases rest with
    | nil => rfl
    | cons c r => simp [List.dropWhile, isDigit, hrest c r rfl]
  have hl : (digitsText ds ++ rest).length - rest.length = ds.length := by simp [digitsText]
  simp only [nanosecond, hn, hdrop, hl]

/-- more than nine digits: the tenth and later digits are skipped — truncation, not rounding -/
theorem nanosecond_long (ds more : List Nat) (hds : ∀ d ∈ ds, d < 10) (hm : ∀ d ∈ more, d < 10) (h9 : ds.length = 9)
    (rest : Str) (hrest : NoDigitHead rest) :
    nanosecond (digitsText (ds ++ more) ++ rest) = .ok (rest, digitsVal ds 0) := by
  have e : digitsText (ds ++ more) ++ rest = digitsText ds ++ (digitsText more ++ rest) := by simp [digitsText]
  have hgo : ∀ (xs : List Nat), (∀ d ∈ xs, d < 10) → ∀ (tail : Str) (i acc : Nat), i + xs.length = 9 → acc < 10 ^ i →
      numberGo 1 9 (digitsText xs ++ tail) i acc = .ok (tail, digitsVal xs acc) := by
    intro xs
    induction xs with
    | nil => intro _ tail i acc hi _; exact numberGo_stop _ _ _ _ _ (by simp at hi; omega)
    | cons d xs ih =>
      intro hx tail i acc hi hacc
      have hd : d < 10 := hx d (by simp)
      simp only [List.length_cons] at hi
      have hp : 10 ^ i ≤ 10 ^ 8 := Nat.pow_le_pow_right (by omega) (by omega)
      have hs : 10 ^ (i + 1) = 10 ^ i * 10 := Nat.pow_succ ..
      simp only [digitsText, List.map_cons, List.cons_append, digitsVal, List.foldl_cons]
      rw [numberGo_dc _ _ d hd _ _ _ (by omega) (by simp only [i64Max]; omega)]
      exact ih (fun x hx' => hx x (by simp [hx'])) tail (i + 1) (acc * 10 + d) (by omega) (by omega)
  have hn : number (digitsText (ds ++ more) ++ rest) 1 9 = .ok (digitsText more ++ rest, digitsVal ds 0) := by
    rw [number_def _ _ _ (by simp [digitsText]; omega), e]
    exact hgo ds hds _ 0 0 (by omega) (by simp)
  have hdrop : ∀ xs : List Nat, (∀ d ∈ xs, d < 10) → (digitsText xs ++ rest).dropWhile isDigit = rest := by
    intro xs
    induction xs with
    | nil =>
      intro _
      cases rest with
      | nil => rfl
      | cons c r => simp [digitsText, List.dropWhile, isDigit, hrest c r rfl]
    | cons d xs ih =>
      intro hx
      have hd : d < 10 := hx d (by simp)
      simp only [digitsText, List.map_cons, List.cons_append, List.dropWhile, isDigit_dc d hd]
      exact ih (fun x hx' => hx x (by simp [hx']))
  have hl : (digitsText (ds ++ more) ++ rest).length - (digitsText more ++ rest).length = 9 := by
    simp [digitsText, h9]
  simp only [nanosecond, hn, hdrop more hm, hl, Nat.sub_self, Nat.pow_zero, Nat.mul_one]

end Slac.Time
