/-
  SlacProofs.JsonTextNum — the number layer of the JSON text round trip.
  * `parse_layout`: `F64.parse` reads the digits c and the decimal exponent p back from each of the five ryu/zmij
    layouts (`12340000000.0`, `12.34`, `0.001234`, `1e30`/`1e+30`, `1.234e33`/`1.234e+33`), i.e. it returns
    `sciOf c p` with the sign — the exponent-form read-back goes through `F64.parse`'s `e` branch
    (`parseNum_frac_x`, `parseNum_int_x`, `expoOf_suffix`);
  * `printNum_split`: with `shortest_ok` (the search's digits convert back to |x|) the printed text parses to x;
  * `layout_shape` / `shape_facts`: the printed text is one RFC 8259 number token, not an integer literal, made of
    number characters, starting with a digit;
  * `parseNumber_printNum`: the JSON number reader returns `.num x` on the printed finite double followed by anything
    that ends a number;  `parseNumber_printInt`: an integer in [-2^63, 2^64) is read back as `.int i`.
-/
import SlacProofs.JsonTextSearch
set_option autoImplicit false
namespace Slac
namespace JsonText
open F64

/-- the exponent reader of `F64.parse` -/
def expoOf (r2 : Str) : Option Int :=
  match r2 with
  | [] => some 0
  | c :: r =>
    if c == 'e' || c == 'E' then
      let (eneg, r) := match r with
        | '-' :: r' => (true, r')
        | '+' :: r' => (false, r')
        | r' => (false, r')
      if r.isEmpty || !r.all isDig then none
      else
        let v : Nat := digitsVal r
        some (if eneg then -(v : Int) else v)
    else none

/-- the conversion at the end of `F64.parse` -/
def finish (neg : Bool) (ip fp : Str) (ex : Int) : Float :=
  let sgn (x : Float) : Float := if neg then -x else x
  let m : Nat := digitsVal (ip ++ fp)
  let e10 : Int := ex - fp.length
  let e10 := if e10 > 400 ∧ m ≠ 0 then 400 + (0 : Int) else e10
  let nd : Nat := ip.length + fp.length
  let e10 := if e10 < -1200 - (nd : Int) then -1200 - (nd : Int) else e10
  sgn (if e10 ≥ 0 then Float.ofScientific m false e10.toNat else Float.ofScientific m true (-e10).toNat)

theorem parseNum_eq (neg : Bool) (cs : Str) :
    parseNum neg cs =
      (let ip := cs.takeWhile isDig
       let r1 := cs.dropWhile isDig
       let (fp, r2) := match r1 with
         | '.' :: r => (r.takeWhile isDig, r.dropWhile isDig)
         | r => ([], r)
       if ip.isEmpty && fp.isEmpty then none else
       match expoOf r2 with
       | none => none
       | some ex => some (finish neg ip fp ex)) := rfl

/-- empty, or starting with a character that is not a digit -/
def NoDigHead (X : Str) : Prop := ∀ c t, X = c :: t → isDig c = false

theorem noDigHead_nil : NoDigHead [] := by intro c t h; cases h

theorem noDigHead_cons (c : Char) (t : Str) (h : isDig c = false) : NoDigHead (c :: t) := by
  intro c' t' e; injection e with e1 _; rw [← e1]; exact h

theorem span_digits (D X : Str) (hD : ∀ c ∈ D, isDig c = true) (hX : NoDigHead X) :
    (D ++ X).takeWhile isDig = D ∧ (D ++ X).dropWhile isDig = X := by
  rw [List.takeWhile_append_of_pos hD, List.dropWhile_append_of_pos hD]
  cases X with
  | nil => simp
  | cons c t =>
    have := hX c t rfl
    rw [List.takeWhile_cons_of_neg (by simp [this]), List.dropWhile_cons_of_neg (by simp [this])]
    simp

theorem parseNum_frac_x (neg : Bool) (D F X : Str) (ex : Int) (hDne : D ≠ []) (hD : ∀ c ∈ D, isDig c = true)
    (hF : ∀ c ∈ F, isDig c = true) (hX : NoDigHead X) (hex : expoOf X = some ex) :
    parseNum neg (D ++ '.' :: (F ++ X)) = some (finish neg D F ex) := by
  obtain ⟨h1, h2⟩ := span_digits D ('.' :: (F ++ X)) hD (noDigHead_cons _ _ isDig_dot)
  obtain ⟨h3, h4⟩ := span_digits F X hF hX
  have h5 : D.isEmpty = false := by cases D <;> simp_all
  rw [parseNum_eq]
  simp only [h1, h2, h3, h4, h5, Bool.false_and, Bool.false_eq_true, if_false, hex]

theorem parseNum_int_x (neg : Bool) (D X : Str) (ex : Int) (hDne : D ≠ []) (hD : ∀ c ∈ D, isDig c = true)
    (hX : NoDigHead X) (hdot : ∀ t, X ≠ '.' :: t) (hex : expoOf X = some ex) :
    parseNum neg (D ++ X) = some (finish neg D [] ex) := by
  obtain ⟨h1, h2⟩ := span_digits D X hD hX
  have h5 : D.isEmpty = false := by cases D <;> simp_all
  rw [parseNum_eq]
  simp only [h1, h2, h5, Bool.false_and, Bool.false_eq_true, if_false, hex]

theorem finish_eq (neg : Bool) (ip fp : Str) (ex : Int) (h1 : ex - (fp.length : Int) ≤ 400)
    (h2 : -1200 ≤ ex - (fp.length : Int)) :
    finish neg ip fp ex = sgnB neg (sciOf (digitsVal (ip ++ fp)) (ex - (fp.length : Int))) := by
  unfold finish sgnB sciOf
  simp only []
  have c1 : ¬ (ex - (fp.length : Int) > 400 ∧ digitsVal (ip ++ fp) ≠ 0) := by omega
  simp only [c1, if_false]
  have c2 : ¬ (ex - (fp.length : Int) < -1200 - ((ip.length + fp.length : Nat) : Int)) := by omega
  simp only [c2, if_false]

theorem expoOf_nil : expoOf [] = some 0 := rfl

theorem expoOf_suffix (plus : Bool) (ex : Int) : expoOf (expSuffix plus ex) = some ex := by
  have hds := toDigits_isDig ex.natAbs
  have hne : Nat.toDigits 10 ex.natAbs ≠ [] := Nat.toDigits_ne_nil
  have hval := digitsVal_toDigits ex.natAbs
  have hall : (Nat.toDigits 10 ex.natAbs).all isDig = true := List.all_eq_true.2 hds
  have hemp : (Nat.toDigits 10 ex.natAbs).isEmpty = false := by
    cases h : Nat.toDigits 10 ex.natAbs <;> simp_all
  unfold expSuffix expoOf
  simp only [beq_self_eq_true, Bool.true_or, if_true]
  by_cases hneg : ex < 0
  · simp only [if_pos hneg, List.cons_append, List.nil_append, hall, hemp, Bool.not_true, Bool.or_self,
      Bool.false_eq_true, if_false, hval, if_true]
    congr 1; omega
  · cases plus
    · simp only [if_neg hneg, Bool.false_eq_true, if_false, List.nil_append]
      cases hd : Nat.toDigits 10 ex.natAbs with
      | nil => exact absurd hd hne
      | cons d t =>
        have hdd : isDig d = true := hds d (by rw [hd]; simp)
        have hd' := (isDig_iff d).1 hdd
        have hm : d ≠ '-' := char_ne_of_toNat_ne _ _ (by show d.toNat ≠ 45; omega)
        have hp : d ≠ '+' := char_ne_of_toNat_ne _ _ (by show d.toNat ≠ 43; omega)
        rw [hd] at hall hemp hval
        split
        · rename_i h; injection h with h _; exact absurd h hm
        · rename_i h; injection h with h _; exact absurd h hp
        · simp only [hall, hemp, Bool.not_true, Bool.or_self, Bool.false_eq_true, if_false, hval]
          congr 1; omega
    · simp only [if_neg hneg, if_true, List.cons_append, List.nil_append, hall, hemp, Bool.not_true, Bool.or_self,
        Bool.false_eq_true, if_false, hval]
      congr 1; omega

/-! ### the digit string of a positive number -/

theorem toDigits_head (c : Nat) (hc : 0 < c) : (Nat.toDigits 10 c).head? ≠ some '0' := by
  induction c using Nat.strongRecOn with
  | _ c ih =>
    rw [Nat.toDigits_eq_if (by decide)]
    split
    · simp only [List.head?_cons, ne_eq, Option.some.injEq, Nat.digitChar_eq_zero]; omega
    · have h10 : 0 < c / 10 := by omega
      have := ih (c / 10) (by omega) h10
      have hne : Nat.toDigits 10 (c / 10) ≠ [] := Nat.toDigits_ne_nil
      cases hd : Nat.toDigits 10 (c / 10) with
      | nil => exact absurd hd hne
      | cons d t => rw [hd] at this; simpa using this

theorem parse_signed_app (neg : Bool) (D R : Str) (hDne : D ≠ []) (hD : ∀ c ∈ D, isDig c = true) :
    F64.parse ((if neg then ['-'] else []) ++ (D ++ R)) = parseNum neg (D ++ R) := by
  cases D with
  | nil => exact absurd rfl hDne
  | cons d t => exact parse_signed neg d (t ++ R) (hD d (by simp))

theorem digitsVal_snoc_zero (D : Str) : digitsVal (D ++ ['0']) = digitsVal D * 10 := by
  have := digitsVal_append_zeros D 1
  simpa using this

theorem noDigHead_expSuffix (plus : Bool) (ex : Int) : NoDigHead (expSuffix plus ex) :=
  noDigHead_cons _ _ (by decide)

theorem expSuffix_not_dot (plus : Bool) (ex : Int) (t : Str) : expSuffix plus ex ≠ '.' :: t := by
  intro h; unfold expSuffix at h; injection h with h _; exact absurd h (by decide)

theorem zero_isDig_list : ∀ d ∈ ['0'], isDig d = true := by
  intro d hd; simp at hd; rw [hd]; exact isDig_zero

/-- **structural read-back of the number layouts**: `F64.parse` reads the digits c and the decimal exponent p back
    from each of the five ryu/zmij layouts (with or without `+` in the exponent) -/
theorem parse_layout (plus neg : Bool) (c : Nat) (p : Int) (hc : 0 < c) (hp1 : -400 ≤ p) (hp2 : p ≤ 400) :
    F64.parse ((if neg then ['-'] else []) ++ layout plus c p) = some (sgnB neg (sciOf c p)) := by
  have hds := toDigits_isDig c
  have hne : Nat.toDigits 10 c ≠ [] := Nat.toDigits_ne_nil
  have hval := digitsVal_toDigits c
  have hlen : 0 < (Nat.toDigits 10 c).length := Nat.length_toDigits_pos
  unfold layout
  simp only []
  generalize hds' : Nat.toDigits 10 c = ds at *
  by_cases h1 : 0 ≤ p ∧ (ds.length : Int) + p ≤ 16
  · -- 1234e7 -> 12340000000.0
    rw [if_pos h1]
    have e1 : ds ++ (List.replicate p.toNat '0' ++ ['.', '0']) =
        (ds ++ List.replicate p.toNat '0') ++ '.' :: (['0'] ++ []) := by simp
    have hD : ∀ d ∈ ds ++ List.replicate p.toNat '0', isDig d = true := by
      intro d hd; rcases List.mem_append.1 hd with h | h
      · exact hds d h
      · exact replicate_isDig _ d h
    have hl : ((['0'] : Str).length : Int) = 1 := rfl
    rw [e1, parse_signed_app neg _ _ (by simp [hne]) hD,
      parseNum_frac_x neg _ ['0'] [] 0 (by simp [hne]) hD zero_isDig_list noDigHead_nil expoOf_nil,
      finish_eq _ _ _ _ (by rw [hl]; omega) (by rw [hl]; omega)]
    rw [hl, digitsVal_snoc_zero, digitsVal_append_zeros, hval]
    congr 2
    apply sciOf_congr _ _ _ _ (Nat.mul_pos (Nat.mul_pos hc (Nat.pow_pos (by decide))) (by decide)) hc
      (by omega) (by omega) (by omega) (by omega)
    unfold cnOf cdOf
    rw [if_neg (by omega), if_pos (by omega), if_pos (by omega), if_neg (by omega)]
    have : (-((0 : Int) - 1)).toNat = 1 := by decide
    rw [this]; omega
  · rw [if_neg h1]
    by_cases h2 : 0 < (ds.length : Int) + p ∧ (ds.length : Int) + p ≤ 16
    · -- 1234e-2 -> 12.34
      rw [if_pos h2]
      generalize hn : ((ds.length : Int) + p).toNat = n
      have e1 : List.take n ds ++ '.' :: List.drop n ds = List.take n ds ++ '.' :: (List.drop n ds ++ []) := by simp
      have hDne : List.take n ds ≠ [] := by
        intro h; have := congrArg List.length h; rw [List.length_take, List.length_nil] at this; omega
      have hl : ((List.drop n ds).length : Int) = -p := by rw [List.length_drop]; omega
      rw [e1, parse_signed_app neg _ _ hDne (fun d hd => hds d (List.mem_of_mem_take hd)),
        parseNum_frac_x neg _ _ [] 0 hDne (fun d hd => hds d (List.mem_of_mem_take hd))
          (fun d hd => hds d (List.mem_of_mem_drop hd)) noDigHead_nil expoOf_nil,
        finish_eq _ _ _ _ (by rw [hl]; omega) (by rw [hl]; omega)]
      rw [hl, List.take_append_drop, hval]
      congr 3; omega
    · rw [if_neg h2]
      by_cases h3 : -5 < (ds.length : Int) + p ∧ (ds.length : Int) + p ≤ 0
      · -- 1234e-6 -> 0.001234
        rw [if_pos h3]
        generalize hn : (-((ds.length : Int) + p)).toNat = n
        have e1 : '0' :: '.' :: (List.replicate n '0' ++ ds) = ['0'] ++ '.' :: ((List.replicate n '0' ++ ds) ++ []) := by
          simp
        have hF : ∀ d ∈ List.replicate n '0' ++ ds, isDig d = true := by
          intro d hd; rcases List.mem_append.1 hd with h | h
          · exact replicate_isDig _ d h
          · exact hds d h
        have hl : ((List.replicate n '0' ++ ds).length : Int) = -p := by
          rw [List.length_append, List.length_replicate]; omega
        rw [e1, parse_signed_app neg _ _ (by simp) zero_isDig_list,
          parseNum_frac_x neg _ _ [] 0 (by simp) zero_isDig_list hF noDigHead_nil expoOf_nil,
          finish_eq _ _ _ _ (by rw [hl]; omega) (by rw [hl]; omega)]
        have e2 : ['0'] ++ (List.replicate n '0' ++ ds) = List.replicate (n + 1) '0' ++ ds := by
          rw [List.replicate_succ]; rfl
        rw [hl, e2, digitsVal_zeros_append, hval]
        congr 3; omega
      · rw [if_neg h3]
        by_cases h4 : ds.length = 1
        · -- 1e30
          rw [if_pos h4]
          have hl : (([] : Str).length : Int) = 0 := rfl
          rw [parse_signed_app neg _ _ hne hds,
            parseNum_int_x neg ds _ _ hne hds (noDigHead_expSuffix _ _) (expSuffix_not_dot _ _) (expoOf_suffix plus _),
            finish_eq _ _ _ _ (by rw [hl]; omega) (by rw [hl]; omega)]
          rw [hl, List.append_nil, hval]
          congr 3; omega
        · -- 1234e30 -> 1.234e33
          rw [if_neg h4]
          have hDne : List.take 1 ds ≠ [] := by
            intro h; have := congrArg List.length h; rw [List.length_take, List.length_nil] at this; omega
          have hl : ((List.drop 1 ds).length : Int) = (ds.length : Int) - 1 := by rw [List.length_drop]; omega
          rw [parse_signed_app neg _ _ hDne (fun d hd => hds d (List.mem_of_mem_take hd)),
            parseNum_frac_x neg _ _ _ _ hDne (fun d hd => hds d (List.mem_of_mem_take hd))
              (fun d hd => hds d (List.mem_of_mem_drop hd)) (noDigHead_expSuffix _ _) (expoOf_suffix plus _),
            finish_eq _ _ _ _ (by rw [hl]; omega) (by rw [hl]; omega)]
          rw [hl, List.take_append_drop, hval]
          congr 3; omega

/-! ### the printed number is one valid JSON number token -/

/-- RFC 8259 check after the optional minus -/
def validBody (t : Str) : Bool :=
  let ip := t.takeWhile isDig
  let r1 := t.dropWhile isDig
  (ip == ['0'] || (!ip.isEmpty && ip.head? != some '0')) &&
    (match r1 with
     | '.' :: r => !(r.takeWhile isDig).isEmpty && validExp (r.dropWhile isDig)
     | r => validExp r)

theorem validNum_neg (T : Str) : validNum ('-' :: T) = validBody T := rfl

theorem digit_ne_minus (d : Char) (hd : isDig d = true) : d ≠ '-' := by
  have hd' := (isDig_iff d).1 hd
  exact char_ne_of_toNat_ne _ _ (by show d.toNat ≠ 45; omega)

theorem validNum_pos (d : Char) (t : Str) (hd : isDig d = true) : validNum (d :: t) = validBody (d :: t) := by
  unfold validNum
  split
  · rename_i h; injection h with h _; exact absurd h (digit_ne_minus d hd)
  · rfl

/-- `0`, or a non-empty digit string without a leading zero -/
def IntPartOk (D : Str) : Prop := (∀ c ∈ D, isDig c = true) ∧ D ≠ [] ∧ (D = ['0'] ∨ D.head? ≠ some '0')

theorem intPartOk_bool (D : Str) (h : IntPartOk D) : (D == ['0'] || (!D.isEmpty && D.head? != some '0')) = true := by
  obtain ⟨_, hne, h0⟩ := h
  rcases h0 with h0 | h0
  · rw [h0]; rfl
  · have : D.isEmpty = false := by cases D <;> simp_all
    simp [this, h0]

theorem validBody_frac (D F X : Str) (hD : IntPartOk D) (hF : ∀ c ∈ F, isDig c = true) (hFne : F ≠ [])
    (hX : NoDigHead X) (hv : validExp X = true) : validBody (D ++ '.' :: (F ++ X)) = true := by
  obtain ⟨h1, h2⟩ := span_digits D ('.' :: (F ++ X)) hD.1 (noDigHead_cons _ _ isDig_dot)
  obtain ⟨h3, h4⟩ := span_digits F X hF hX
  have h5 : F.isEmpty = false := by cases F <;> simp_all
  unfold validBody
  simp only [h1, h2, h3, h4, h5, hv, intPartOk_bool D hD, Bool.not_false, Bool.and_self]

theorem validBody_int (D X : Str) (hD : IntPartOk D) (hX : NoDigHead X) (hdot : ∀ t, X ≠ '.' :: t)
    (hv : validExp X = true) : validBody (D ++ X) = true := by
  obtain ⟨h1, h2⟩ := span_digits D X hD.1 hX
  unfold validBody
  simp only [h1, h2, hv, intPartOk_bool D hD, Bool.and_self]

theorem validExp_suffix (plus : Bool) (ex : Int) : validExp (expSuffix plus ex) = true := by
  have hds := toDigits_isDig ex.natAbs
  have hne : Nat.toDigits 10 ex.natAbs ≠ [] := Nat.toDigits_ne_nil
  have hall : (Nat.toDigits 10 ex.natAbs).all isDig = true := List.all_eq_true.2 hds
  have hemp : (Nat.toDigits 10 ex.natAbs).isEmpty = false := by
    cases h : Nat.toDigits 10 ex.natAbs <;> simp_all
  unfold expSuffix validExp
  simp only [decide_true, Bool.true_or, Bool.true_and]
  by_cases hneg : ex < 0
  · simp only [if_pos hneg, List.cons_append, List.nil_append, hall, hemp, Bool.not_false, Bool.and_self]
  · cases plus
    · simp only [if_neg hneg, Bool.false_eq_true, if_false, List.nil_append]
      cases hd : Nat.toDigits 10 ex.natAbs with
      | nil => exact absurd hd hne
      | cons d t =>
        have hdd : isDig d = true := hds d (by rw [hd]; simp)
        have hd' := (isDig_iff d).1 hdd
        have hm : d ≠ '-' := char_ne_of_toNat_ne _ _ (by show d.toNat ≠ 45; omega)
        have hp : d ≠ '+' := char_ne_of_toNat_ne _ _ (by show d.toNat ≠ 43; omega)
        rw [hd] at hall hemp
        split
        · rename_i h; injection h with h _; exact absurd h hp
        · rename_i h; injection h with h _; exact absurd h hm
        · simp only [hall, hemp, Bool.not_false, Bool.and_self]
    · simp only [if_neg hneg, if_true, List.cons_append, List.nil_append, hall, hemp, Bool.not_false, Bool.and_self]

/-- all characters are number characters -/
def AllNum (T : Str) : Prop := ∀ c ∈ T, isNumChar c = true

theorem allNum_digits (D : Str) (hD : ∀ c ∈ D, isDig c = true) : AllNum D := by
  intro c hc; unfold isNumChar; rw [hD c hc]; rfl

theorem allNum_append (A B : Str) (hA : AllNum A) (hB : AllNum B) : AllNum (A ++ B) := by
  intro c hc; rcases List.mem_append.1 hc with h | h
  · exact hA c h
  · exact hB c h

theorem allNum_cons (a : Char) (B : Str) (ha : isNumChar a = true) (hB : AllNum B) : AllNum (a :: B) := by
  intro c hc; rcases List.mem_cons.1 hc with h | h
  · rw [h]; exact ha
  · exact hB c h

theorem allNum_nil : AllNum [] := by intro c hc; cases hc

theorem allNum_suffix (plus : Bool) (ex : Int) : AllNum (expSuffix plus ex) := by
  unfold expSuffix
  apply allNum_cons _ _ (by decide)
  apply allNum_append
  · split
    · exact allNum_cons _ _ (by decide) allNum_nil
    · split
      · exact allNum_cons _ _ (by decide) allNum_nil
      · exact allNum_nil
  · exact allNum_digits _ (toDigits_isDig _)

theorem not_all_dig_of_mem (T : Str) (c : Char) (hc : c ∈ T) (hn : isDig c = false) : T.all isDig = false := by
  rw [Bool.eq_false_iff]; intro h
  have := List.all_eq_true.1 h c hc
  rw [hn] at this; cases this

/-- the shapes of a printed float: `D.F[exp]` or `Dexp` -/
inductive Shape (plus : Bool) (T : Str) : Prop where
  | frac (D F X : Str) (hT : T = D ++ '.' :: (F ++ X)) (hD : IntPartOk D) (hF : ∀ c ∈ F, isDig c = true) (hFne : F ≠ [])
      (hX : X = [] ∨ ∃ ex, X = expSuffix plus ex)
  | exp (D : Str) (ex : Int) (hT : T = D ++ expSuffix plus ex) (hD : IntPartOk D)

theorem head_take (ds : Str) (n : Nat) (hn : 0 < n) : (ds.take n).head? = ds.head? := by
  cases ds with
  | nil => simp
  | cons d t => cases n with
    | zero => omega
    | succ n => simp

theorem layout_shape (plus : Bool) (c : Nat) (p : Int) (hc : 0 < c) : Shape plus (layout plus c p) := by
  have hds := toDigits_isDig c
  have hne : Nat.toDigits 10 c ≠ [] := Nat.toDigits_ne_nil
  have hhead := toDigits_head c hc
  have hlen : 0 < (Nat.toDigits 10 c).length := Nat.length_toDigits_pos
  unfold layout
  simp only []
  generalize hds' : Nat.toDigits 10 c = ds at *
  by_cases h1 : 0 ≤ p ∧ (ds.length : Int) + p ≤ 16
  · rw [if_pos h1]
    refine .frac (ds ++ List.replicate p.toNat '0') ['0'] [] (by simp) ⟨?_, by simp [hne], Or.inr ?_⟩ zero_isDig_list
      (by simp) (Or.inl rfl)
    · intro d hd; rcases List.mem_append.1 hd with h | h
      · exact hds d h
      · exact replicate_isDig _ d h
    · cases ds with
      | nil => exact absurd rfl hne
      | cons d t => simpa using hhead
  · rw [if_neg h1]
    by_cases h2 : 0 < (ds.length : Int) + p ∧ (ds.length : Int) + p ≤ 16
    · rw [if_pos h2]
      generalize hn : ((ds.length : Int) + p).toNat = n
      refine .frac (List.take n ds) (List.drop n ds) [] (by simp)
        ⟨fun d hd => hds d (List.mem_of_mem_take hd), ?_, Or.inr ?_⟩ (fun d hd => hds d (List.mem_of_mem_drop hd)) ?_
        (Or.inl rfl)
      · intro h; have := congrArg List.length h; rw [List.length_take, List.length_nil] at this; omega
      · rw [head_take ds n (by omega)]; exact hhead
      · intro h; have := congrArg List.length h; rw [List.length_drop, List.length_nil] at this; omega
    · rw [if_neg h2]
      by_cases h3 : -5 < (ds.length : Int) + p ∧ (ds.length : Int) + p ≤ 0
      · rw [if_pos h3]
        refine .frac ['0'] (List.replicate (-((ds.length : Int) + p)).toNat '0' ++ ds) [] (by simp)
          ⟨zero_isDig_list, by simp, Or.inl rfl⟩ ?_ (by simp [hne]) (Or.inl rfl)
        intro d hd; rcases List.mem_append.1 hd with h | h
        · exact replicate_isDig _ d h
        · exact hds d h
      · rw [if_neg h3]
        by_cases h4 : ds.length = 1
        · rw [if_pos h4]
          exact .exp ds _ rfl ⟨hds, hne, Or.inr hhead⟩
        · rw [if_neg h4]
          refine .frac (List.take 1 ds) (List.drop 1 ds) _ rfl
            ⟨fun d hd => hds d (List.mem_of_mem_take hd), ?_, Or.inr ?_⟩ (fun d hd => hds d (List.mem_of_mem_drop hd)) ?_
            (Or.inr ⟨_, rfl⟩)
          · intro h; have := congrArg List.length h; rw [List.length_take, List.length_nil] at this; omega
          · rw [head_take ds 1 (by omega)]; exact hhead
          · intro h; have := congrArg List.length h; rw [List.length_drop, List.length_nil] at this; omega

theorem xOk (plus : Bool) (X : Str) (hX : X = [] ∨ ∃ ex, X = expSuffix plus ex) :
    NoDigHead X ∧ validExp X = true ∧ AllNum X := by
  rcases hX with h | ⟨ex, h⟩
  · rw [h]; exact ⟨noDigHead_nil, rfl, allNum_nil⟩
  · rw [h]; exact ⟨noDigHead_expSuffix _ _, validExp_suffix _ _, allNum_suffix _ _⟩

/-- what the token reader needs to know about a printed float (sign excluded) -/
theorem shape_facts (plus : Bool) (T : Str) (h : Shape plus T) :
    validBody T = true ∧ AllNum T ∧ T.all isDig = false ∧ ∃ d t, T = d :: t ∧ isDig d = true := by
  cases h with
  | frac D F X hT hD hF hFne hX =>
    obtain ⟨x1, x2, x3⟩ := xOk plus X hX
    rw [hT]
    refine ⟨validBody_frac D F X hD hF hFne x1 x2, ?_, ?_, ?_⟩
    · exact allNum_append _ _ (allNum_digits D hD.1) (allNum_cons _ _ (by decide)
        (allNum_append _ _ (allNum_digits F hF) x3))
    · exact not_all_dig_of_mem _ '.' (by simp) (by decide)
    · obtain ⟨hD1, hD2, _⟩ := hD
      cases D with
      | nil => exact absurd rfl hD2
      | cons d t => exact ⟨d, _, rfl, hD1 d (by simp)⟩
  | exp D ex hT hD =>
    rw [hT]
    refine ⟨validBody_int D _ hD (noDigHead_expSuffix _ _) (expSuffix_not_dot _ _) (validExp_suffix _ _), ?_, ?_, ?_⟩
    · exact allNum_append _ _ (allNum_digits D hD.1) (allNum_suffix _ _)
    · exact not_all_dig_of_mem _ 'e' (by unfold expSuffix; simp) (by decide)
    · obtain ⟨hD1, hD2, _⟩ := hD
      cases D with
      | nil => exact absurd rfl hD2
      | cons d t => exact ⟨d, _, rfl, hD1 d (by simp)⟩

/-! ### the token reader on printed numbers -/

theorem numOfTok_float (neg : Bool) (T : Str) (hv : validBody T = true) (hnd : T.all isDig = false)
    (hd : ∃ d t, T = d :: t ∧ isDig d = true) :
    numOfTok ((if neg then ['-'] else []) ++ T) = floatOfTok ((if neg then ['-'] else []) ++ T) := by
  obtain ⟨d, t, rfl, hd⟩ := hd
  cases neg
  · simp only [Bool.false_eq_true, if_false, List.nil_append]
    unfold numOfTok
    rw [validNum_pos d t hd, hv]
    simp only [Bool.not_true, Bool.false_eq_true, if_false]
    split
    · rename_i h; injection h with h _; exact absurd h (digit_ne_minus d hd)
    · rw [hnd]; simp only [Bool.false_eq_true, if_false]
  · simp only [if_true, List.cons_append, List.nil_append]
    unfold numOfTok
    rw [validNum_neg, hv]
    simp only [Bool.not_true, Bool.false_eq_true, if_false, hnd]

theorem sci_zero : bits (sciOf 0 (0 - 1)) = 0 ∧ bits (-(sciOf 0 (0 - 1))) = 2^63 := by decide +kernel

theorem zero_shape (plus : Bool) : Shape plus ['0', '.', '0'] :=
  .frac ['0'] ['0'] [] rfl ⟨zero_isDig_list, by simp, Or.inl rfl⟩ zero_isDig_list (by simp) (Or.inl rfl)

theorem parse_zero_text (neg : Bool) :
    F64.parse ((if neg then ['-'] else []) ++ ['0', '.', '0']) = some (sgnB neg (sciOf 0 (0 - 1))) := by
  have e1 : (['0', '.', '0'] : Str) = ['0'] ++ '.' :: (['0'] ++ []) := rfl
  have hl : ((['0'] : Str).length : Int) = 1 := rfl
  rw [e1, parse_signed_app neg _ _ (by simp) zero_isDig_list,
    parseNum_frac_x neg _ ['0'] [] 0 (by simp) zero_isDig_list zero_isDig_list noDigHead_nil expoOf_nil,
    finish_eq _ _ _ _ (by rw [hl]; omega) (by rw [hl]; omega)]
  rfl

/-- the printed float as sign and unsigned text -/
theorem printNum_split (plus : Bool) (x : Float) (hf : isFinite x = true) :
    ∃ T, printNumWith plus x = (if signBit x then ['-'] else []) ++ T ∧ Shape plus T ∧
      F64.parse ((if signBit x then ['-'] else []) ++ T) = some x := by
  unfold printNumWith
  rw [hf]
  simp only [Bool.not_true, Bool.false_eq_true, if_false]
  by_cases hz : isZero x = true
  · rw [if_pos hz]
    refine ⟨_, rfl, zero_shape plus, ?_⟩
    rw [parse_zero_text]
    congr 1
    apply eq_of_bits_eq
    have hb := bits_lt x
    unfold isZero magN at hz; rw [decide_eq_true_eq] at hz
    unfold sgnB
    rw [signBit_eq]
    by_cases hs : bits x / 2^63 = 1
    · rw [decide_eq_true hs, if_pos rfl, sci_zero.2]; omega
    · rw [decide_eq_false hs]; simp only [Bool.false_eq_true, if_false]
      rw [sci_zero.1]; omega
  · have hz' : isZero x = false := by cases h : isZero x <;> simp_all
    rw [if_neg hz]
    obtain ⟨c1, c2, c3, c4⟩ := shortest_ok x hf hz'
    have hab : (if signBit x then -x else x) = absF x := rfl
    rw [hab]
    generalize shortest (absF x) = cp at *
    obtain ⟨c, p⟩ := cp
    simp only [] at c1 c2 c3 c4 ⊢
    refine ⟨_, rfl, layout_shape plus c p c1, ?_⟩
    rw [parse_layout plus _ c p c1 c3 c4, c2, sgnB_absF x hf]

/-- **the token reader returns the printed double** -/
theorem numOfTok_printNum (plus : Bool) (x : Float) (hf : isFinite x = true) :
    numOfTok (printNumWith plus x) = some (.num x) := by
  obtain ⟨T, hT, hS, hP⟩ := printNum_split plus x hf
  obtain ⟨f1, _, f3, f4⟩ := shape_facts plus T hS
  rw [hT, numOfTok_float _ T f1 f3 f4]
  unfold floatOfTok
  rw [hP]
  simp only [hf, if_true]

/-- a text after which a number token ends: empty, or starting with a character that cannot continue a number -/
def NumEnd (rest : Str) : Prop := ∀ c t, rest = c :: t → isNumChar c = false

theorem span_numChars (T X : Str) (hT : AllNum T) (hX : NumEnd X) :
    (T ++ X).takeWhile isNumChar = T ∧ (T ++ X).dropWhile isNumChar = X := by
  rw [List.takeWhile_append_of_pos hT, List.dropWhile_append_of_pos hT]
  cases X with
  | nil => simp
  | cons c t =>
    have := hX c t rfl
    rw [List.takeWhile_cons_of_neg (by simp [this]), List.dropWhile_cons_of_neg (by simp [this])]
    simp

theorem printNum_allNum (plus : Bool) (x : Float) (hf : isFinite x = true) : AllNum (printNumWith plus x) := by
  obtain ⟨T, hT, hS, _⟩ := printNum_split plus x hf
  obtain ⟨_, f2, _, _⟩ := shape_facts plus T hS
  rw [hT]
  apply allNum_append _ _ _ f2
  split
  · exact allNum_cons _ _ (by decide) allNum_nil
  · exact allNum_nil

/-- the printed float starts with `-` or a digit -/
theorem printNum_head (plus : Bool) (x : Float) (hf : isFinite x = true) :
    ∃ c t, printNumWith plus x = c :: t ∧ (c = '-' ∨ isDig c = true) := by
  obtain ⟨T, hT, hS, _⟩ := printNum_split plus x hf
  obtain ⟨_, _, _, d, t, f4, f5⟩ := shape_facts plus T hS
  rw [hT, f4]
  split
  · exact ⟨'-', d :: t, rfl, Or.inl rfl⟩
  · exact ⟨d, t, rfl, Or.inr f5⟩

/-- **the number reader on the printed float, followed by anything that ends a number** -/
theorem parseNumber_printNum (plus : Bool) (x : Float) (hf : isFinite x = true) (rest : Str) (hr : NumEnd rest) :
    parseNumber (printNumWith plus x ++ rest) = some (.num x, rest) := by
  obtain ⟨h1, h2⟩ := span_numChars _ rest (printNum_allNum plus x hf) hr
  unfold parseNumber
  rw [h1, h2, numOfTok_printNum plus x hf]

/-! ### integers -/

theorem intPartOk_toDigits (n : Nat) : IntPartOk (Nat.toDigits 10 n) := by
  refine ⟨toDigits_isDig n, Nat.toDigits_ne_nil, ?_⟩
  by_cases h : n = 0
  · left; rw [h]; rfl
  · right; exact toDigits_head n (by omega)

theorem validBody_toDigits (n : Nat) : validBody (Nat.toDigits 10 n) = true := by
  have := validBody_int (Nat.toDigits 10 n) [] (intPartOk_toDigits n) noDigHead_nil (by intro t h; cases h) rfl
  rwa [List.append_nil] at this

theorem all_toDigits (n : Nat) : (Nat.toDigits 10 n).all isDig = true := List.all_eq_true.2 (toDigits_isDig n)

/-- an integer in the u64 / i64 range is read back as the same integer -/
theorem numOfTok_printInt (i : Int) (h1 : -2^63 ≤ i) (h2 : i < 2^64) : numOfTok (printInt i) = some (.int i) := by
  unfold printInt
  by_cases hn : i < 0
  · rw [if_pos hn]
    unfold numOfTok
    rw [validNum_neg, validBody_toDigits]
    simp only [Bool.not_true, Bool.false_eq_true, if_false, all_toDigits, if_true, digitsVal_toDigits]
    rw [if_pos (by omega)]
    congr 2; omega
  · rw [if_neg hn]
    have hne : Nat.toDigits 10 i.toNat ≠ [] := Nat.toDigits_ne_nil
    have hall := all_toDigits i.toNat
    have hval := digitsVal_toDigits i.toNat
    have hvb := validBody_toDigits i.toNat
    cases hd : Nat.toDigits 10 i.toNat with
    | nil => exact absurd hd hne
    | cons d t =>
      rw [hd] at hall hval hvb
      have hdd : isDig d = true := by
        have := toDigits_isDig i.toNat d (by rw [hd]; simp); exact this
      unfold numOfTok
      rw [validNum_pos d t hdd, hvb]
      simp only [Bool.not_true, Bool.false_eq_true, if_false]
      split
      · rename_i h; injection h with h _; exact absurd h (digit_ne_minus d hdd)
      · rw [hall, hval]
        simp only [if_true]
        rw [if_pos (by omega)]
        congr 2; omega

theorem printInt_allNum (i : Int) : AllNum (printInt i) := by
  unfold printInt
  split
  · exact allNum_cons _ _ (by decide) (allNum_digits _ (toDigits_isDig _))
  · exact allNum_digits _ (toDigits_isDig _)

theorem printInt_head (i : Int) : ∃ c t, printInt i = c :: t ∧ (c = '-' ∨ isDig c = true) := by
  unfold printInt
  split
  · exact ⟨'-', _, rfl, Or.inl rfl⟩
  · have hne : Nat.toDigits 10 i.toNat ≠ [] := Nat.toDigits_ne_nil
    cases hd : Nat.toDigits 10 i.toNat with
    | nil => exact absurd hd hne
    | cons d t => exact ⟨d, t, rfl, Or.inr (toDigits_isDig i.toNat d (by rw [hd]; simp))⟩

theorem parseNumber_printInt (i : Int) (h1 : -2^63 ≤ i) (h2 : i < 2^64) (rest : Str) (hr : NumEnd rest) :
    parseNumber (printInt i ++ rest) = some (.int i, rest) := by
  obtain ⟨e1, e2⟩ := span_numChars _ rest (printInt_allNum i) hr
  unfold parseNumber
  rw [e1, e2, numOfTok_printInt i h1 h2]

end JsonText
end Slac
