/-
  SlacProofs.JsonTextStr — the string layer of the JSON text round trip: serde_json's escaping (`escapeChar`: `\"` `\\`
  `\b` `\f` `\n` `\r` `\t`, `\u00XX` for the other code points below U+0020, everything else raw) is undone by the string
  reader (`parseStrBody`), character by character (`parseStrBody_escapeChar`), hence for every list of Unicode scalar
  values (`parseStrBody_escapeStr`, `parseString_printString`).
-/
import SlacModel.JsonText
set_option autoImplicit false
namespace Slac
namespace JsonText

theorem hexVal_hexDigit : ∀ k : Fin 16, hexVal (hexDigit k.val) = some k.val := by decide

theorem hexVal_zero : hexVal '0' = some 0 := by decide


/-- what the string reader does with a character and what follows its escape -/
def consRes (c : Char) (r : Option (Str × Str)) : Option (Str × Str) :=
  match r with
  | none => none
  | some (s, t) => some (c :: s, t)

theorem parseStrBody_escapeChar (c : Char) (tail : Str) (f : Nat) :
    parseStrBody (f + 1) (escapeChar c ++ tail) = consRes c (parseStrBody f tail) := by
  unfold escapeChar
  split
  · rename_i h; subst h; rfl
  · split
    · rename_i h; subst h; rfl
    · split
      · split
        · rename_i h; subst h; rfl
        · split
          · rename_i h; subst h; rfl
          · split
            · rename_i h; subst h; rfl
            · split
              · rename_i h; subst h; rfl
              · split
                · rename_i h; subst h; rfl
                · rename_i hlt _ _ _ _ _
                  have h1 := hexVal_hexDigit ⟨c.toNat / 16, by omega⟩
                  have h2 := hexVal_hexDigit ⟨c.toNat % 16, by omega⟩
                  simp only [] at h1 h2
                  have hx : hex4 ('0' :: '0' :: hexDigit (c.toNat / 16) :: hexDigit (c.toNat % 16) :: tail) =
                      some (c.toNat, tail) := by
                    simp only [hex4, hexVal_zero, h1, h2, Option.some.injEq, Prod.mk.injEq, and_true]
                    omega
                  have hE : parseEscape ('u' :: '0' :: '0' :: hexDigit (c.toNat / 16) :: hexDigit (c.toNat % 16) :: tail) =
                      some (c, tail) := by
                    unfold parseEscape
                    simp only [hx]
                    have a1 : ¬ (0xD800 ≤ c.toNat ∧ c.toNat < 0xDC00) := by omega
                    have a2 : ¬ (0xDC00 ≤ c.toNat ∧ c.toNat < 0xE000) := by omega
                    simp [a1, a2, Char.ofNat_toNat]
                  show parseStrBody (f + 1) ('\\' :: 'u' :: '0' :: '0' :: hexDigit (c.toNat / 16) :: hexDigit (c.toNat % 16) :: tail) = _
                  rw [parseStrBody]
                  simp [hE, consRes]
                  rcases parseStrBody f tail with _ | ⟨s, t⟩ <;> rfl
      · rename_i h1 h2 h3
        show parseStrBody (f + 1) (c :: tail) = _
        rw [parseStrBody]
        simp [h1, h2, h3, consRes]
        rcases parseStrBody f tail with _ | ⟨s, t⟩ <;> rfl
theorem escapeChar_length_pos (c : Char) : 0 < (escapeChar c).length := by
  unfold escapeChar
  repeat' split
  all_goals simp

/-- the string reader on an escaped string: the contents come back, for EVERY list of Unicode scalar values -/
theorem parseStrBody_escapeStr (s rest : Str) (f : Nat) (hf : (escapeStr s).length < f) :
    parseStrBody f (escapeStr s ++ '"' :: rest) = some (s, rest) := by
  induction s generalizing f with
  | nil =>
    cases f with
    | zero => simp [escapeStr] at hf
    | succ f => simp [escapeStr, parseStrBody]
  | cons c s ih =>
    have e : escapeStr (c :: s) = escapeChar c ++ escapeStr s := by simp [escapeStr]
    rw [e] at hf ⊢
    have hpos := escapeChar_length_pos c
    rw [List.length_append] at hf
    cases f with
    | zero => omega
    | succ f =>
      rw [List.append_assoc, parseStrBody_escapeChar, ih f (by omega)]
      rfl

/-- a printed string literal, followed by anything, is read back with any fuel above the escaped length -/
theorem parseStringF_printString (s rest : Str) (f : Nat) (hf : (escapeStr s).length < f) :
    parseStringF f (printString s ++ rest) = some (s, rest) := by
  unfold printString
  show parseStringF f ('"' :: ((escapeStr s ++ ['"']) ++ rest)) = _
  unfold parseStringF
  simp only [if_true]
  rw [List.append_assoc]
  exact parseStrBody_escapeStr s rest f hf

/-- a printed string literal, followed by anything, is read back -/
theorem parseString_printString (s rest : Str) : parseString (printString s ++ rest) = some (s, rest) := by
  unfold parseString
  apply parseStringF_printString
  unfold printString
  simp only [List.length_append, List.length_cons, List.length_nil]
  omega

/-- the string branch of `parseValue` -/
theorem parseStrBody_printed (s rest : Str) (f : Nat) (hf : (escapeStr s).length < f) :
    parseStrBody f (escapeStr s ++ ['"'] ++ rest) = some (s, rest) := by
  rw [List.append_assoc]
  exact parseStrBody_escapeStr s rest f hf

/-- the escaped text never contains a raw quote, so the literal's first character is the opening quote and nothing else
    needs to be known about it by the value parser -/
theorem printString_cons (s : Str) : printString s = '"' :: (escapeStr s ++ ['"']) := rfl

end JsonText
end Slac
