/-
  SlacProofs.OrderSort — lemmas about the models of `sort`, `max`, `min` (SlacModel.StdOrder).
  Facts that need only orientation of `cmp` hold for all inputs; bounds / pairwise-sortedness need transitivity,
  which is taken as a hypothesis relativised to a carrier list `S` (instantiated with a Safe collection).
-/
import SlacModel.StdOrder
import SlacProofs.OrderSafe
set_option autoImplicit false
namespace Slac
namespace Order
variable {N : Type} [NumOps N]
open Value StdOrder

/-- `w ≤ y₀ ≤ y₁ ≤ …` for `l = [y₀, y₁, …]` (adjacent elements only) -/
def Chain (w : Value N) : List (Value N) → Prop
  | [] => True
  | y :: ys => Value.le w y = true ∧ Chain y ys

/-- no element is greater than its successor -/
def AdjSorted : List (Value N) → Prop
  | [] => True
  | x :: xs => Chain x xs

theorem le_iff (a b : Value N) : Value.le a b = true ↔ cmp a b ≠ .gt := by
  simp [Value.le]

theorem Chain.adj {w : Value N} {l : List (Value N)} (h : Chain w l) : AdjSorted l := by
  cases l with
  | nil => trivial
  | cons y ys => exact h.2

/-! ### permutation (all inputs, no hypotheses at all) -/

theorem insertBy_perm (x : Value N) (l : List (Value N)) : (insertBy x l).Perm (x :: l) := by
  induction l with
  | nil => exact List.Perm.refl _
  | cons y ys ih =>
    simp only [insertBy]
    split
    · exact ((List.Perm.cons y ih).trans (List.Perm.swap x y ys))
    · exact List.Perm.refl _

theorem sortBy_perm (xs : List (Value N)) : (sortBy xs).Perm xs := by
  induction xs with
  | nil => exact List.Perm.refl _
  | cons x xs ih =>
    simp only [sortBy]
    exact (insertBy_perm x (sortBy xs)).trans (List.Perm.cons x ih)

theorem mem_sortBy {xs : List (Value N)} {a : Value N} : a ∈ sortBy xs ↔ a ∈ xs :=
  (sortBy_perm xs).mem_iff

/-- a sorted list is a fixed point of the (stable) sort -/
theorem sortBy_of_adj (l : List (Value N)) (h : AdjSorted l) : sortBy l = l := by
  induction l with
  | nil => rfl
  | cons x xs ih =>
    simp only [sortBy]
    rw [ih (Chain.adj h)]
    cases xs with
    | nil => rfl
    | cons y ys =>
      have hxy : cmp x y ≠ .gt := (le_iff x y).1 h.1
      simp only [insertBy]
      cases hc : cmp x y <;> simp_all

/-! ### max / min: membership (all inputs) -/

theorem foldl_maxStep_mem (l : List (Value N)) : ∀ acc, l.foldl maxStep acc ∈ acc :: l := by
  induction l with
  | nil => intro acc; simp
  | cons y ys ih =>
    intro acc
    simp only [List.foldl_cons]
    have h := ih (maxStep acc y)
    rcases List.mem_cons.1 h with h | h
    · rw [h]; unfold maxStep; split <;> simp
    · exact List.mem_cons_of_mem _ (List.mem_cons_of_mem _ h)

theorem foldl_minStep_mem (l : List (Value N)) : ∀ acc, l.foldl minStep acc ∈ acc :: l := by
  induction l with
  | nil => intro acc; simp
  | cons y ys ih =>
    intro acc
    simp only [List.foldl_cons]
    have h := ih (minStep acc y)
    rcases List.mem_cons.1 h with h | h
    · rw [h]; unfold minStep; split <;> simp
    · exact List.mem_cons_of_mem _ (List.mem_cons_of_mem _ h)

theorem maxV_mem {xs : List (Value N)} {m : Value N} (h : maxV xs = some m) : m ∈ xs := by
  cases xs with
  | nil => simp [maxV] at h
  | cons x xs => simp only [maxV, Option.some.injEq] at h; rw [← h]; exact foldl_maxStep_mem xs x

theorem minV_mem {xs : List (Value N)} {m : Value N} (h : minV xs = some m) : m ∈ xs := by
  cases xs with
  | nil => simp [minV] at h
  | cons x xs => simp only [minV, Option.some.injEq] at h; rw [← h]; exact foldl_minStep_mem xs x

theorem maxV_isSome {xs : List (Value N)} (h : xs ≠ []) : ∃ m, maxV xs = some m := by
  cases xs with
  | nil => exact absurd rfl h
  | cons x xs => exact ⟨_, rfl⟩

theorem minV_isSome {xs : List (Value N)} (h : xs ≠ []) : ∃ m, minV xs = some m := by
  cases xs with
  | nil => exact absurd rfl h
  | cons x xs => exact ⟨_, rfl⟩

section
variable [LawfulNum N]

theorem le_refl (a : Value N) : Value.le a a = true := by
  simp [Value.le, cmp_self]

theorem le_of_gt {a b : Value N} (h : cmp a b = .gt) : Value.le b a = true := by
  rw [le_iff, cmp_swap a b, h]; simp [Ordering.swap]

omit [LawfulNum N] in
theorem le_of_not_gt {a b : Value N} (h : ¬ cmp a b = .gt) : Value.le a b = true :=
  (le_iff a b).2 h

theorem le_total (a b : Value N) : Value.le a b = true ∨ Value.le b a = true := by
  by_cases h : cmp a b = .gt
  · exact Or.inr (le_of_gt h)
  · exact Or.inl (le_of_not_gt h)

/-! ### adjacent sortedness (needs orientation only) -/

theorem insertBy_chain (x : Value N) (l : List (Value N)) :
    ∀ w, Chain w l → Value.le w x = true → Chain w (insertBy x l) := by
  induction l with
  | nil => intro w _ hx; exact ⟨hx, trivial⟩
  | cons y ys ih =>
    intro w h hx
    simp only [insertBy]
    by_cases hc : cmp x y = .gt
    · simp only [hc, beq_self_eq_true, if_true]
      exact ⟨h.1, ih y h.2 (le_of_gt hc)⟩
    · have : (cmp x y == Ordering.gt) = false := by simpa using hc
      simp only [this, Bool.false_eq_true, if_false]
      exact ⟨hx, le_of_not_gt hc, h.2⟩

theorem insertBy_adj (x : Value N) (l : List (Value N)) (h : AdjSorted l) : AdjSorted (insertBy x l) := by
  cases l with
  | nil => trivial
  | cons y ys =>
    simp only [insertBy]
    by_cases hc : cmp x y = .gt
    · simp only [hc, beq_self_eq_true, if_true]
      exact insertBy_chain x ys y h (le_of_gt hc)
    · have : (cmp x y == Ordering.gt) = false := by simpa using hc
      simp only [this, Bool.false_eq_true, if_false]
      exact ⟨le_of_not_gt hc, h⟩

theorem sortBy_adj (xs : List (Value N)) : AdjSorted (sortBy xs) := by
  induction xs with
  | nil => trivial
  | cons x xs ih => exact insertBy_adj x (sortBy xs) ih

theorem sortBy_idem (xs : List (Value N)) : sortBy (sortBy xs) = sortBy xs :=
  sortBy_of_adj _ (sortBy_adj xs)

end

/-! ### consequences of transitivity on a carrier `S` -/

/-- `≤` is transitive on the members of `S` -/
def TransOn (S : List (Value N)) : Prop :=
  ∀ a b c : Value N, a ∈ S → b ∈ S → c ∈ S → Value.le a b = true → Value.le b c = true → Value.le a c = true

theorem chain_bound {S : List (Value N)} (htr : TransOn S) (l : List (Value N)) :
    ∀ w, w ∈ S → (∀ y ∈ l, y ∈ S) → Chain w l → ∀ y ∈ l, Value.le w y = true := by
  induction l with
  | nil => intro w _ _ _ y hy; cases hy
  | cons z zs ih =>
    intro w hw hl hch y hy
    have hz : z ∈ S := hl z (List.mem_cons_self ..)
    rcases List.mem_cons.1 hy with hy | hy
    · rw [hy]; exact hch.1
    · have hyS : y ∈ S := hl y (List.mem_cons_of_mem _ hy)
      exact htr w z y hw hz hyS hch.1 (ih z hz (fun y hy => hl y (List.mem_cons_of_mem _ hy)) hch.2 y hy)

theorem pairwise_of_adj {S : List (Value N)} (htr : TransOn S) (l : List (Value N)) :
    (∀ y ∈ l, y ∈ S) → AdjSorted l → l.Pairwise (fun a b => Value.le a b = true) := by
  induction l with
  | nil => intro _ _; exact List.Pairwise.nil
  | cons x xs ih =>
    intro hl h
    refine List.Pairwise.cons ?_ (ih (fun y hy => hl y (List.mem_cons_of_mem _ hy)) (Chain.adj h))
    exact chain_bound htr xs x (hl x (List.mem_cons_self ..)) (fun y hy => hl y (List.mem_cons_of_mem _ hy)) h

section
variable [LawfulNum N]

theorem foldl_maxStep_bound {S : List (Value N)} (htr : TransOn S) (l : List (Value N)) :
    ∀ acc, acc ∈ S → (∀ y ∈ l, y ∈ S) → ∀ y ∈ acc :: l, Value.le y (l.foldl maxStep acc) = true := by
  induction l with
  | nil => intro acc _ _ y hy; simp only [List.mem_singleton] at hy; rw [hy]; exact le_refl acc
  | cons z zs ih =>
    intro acc hacc hl y hy
    have hz : z ∈ S := hl z (List.mem_cons_self ..)
    have hzs : ∀ y ∈ zs, y ∈ S := fun y hy => hl y (List.mem_cons_of_mem _ hy)
    simp only [List.foldl_cons]
    have hstepS : maxStep acc z ∈ S := by unfold maxStep; split <;> assumption
    have h1 : Value.le acc (maxStep acc z) = true := by
      unfold maxStep
      by_cases hc : cmp acc z = .gt
      · simp only [hc, beq_self_eq_true, if_true]; exact le_refl acc
      · have : (cmp acc z == Ordering.gt) = false := by simpa using hc
        simp only [this, Bool.false_eq_true, if_false]; exact le_of_not_gt hc
    have h2 : Value.le z (maxStep acc z) = true := by
      unfold maxStep
      by_cases hc : cmp acc z = .gt
      · simp only [hc, beq_self_eq_true, if_true]; exact le_of_gt hc
      · have : (cmp acc z == Ordering.gt) = false := by simpa using hc
        simp only [this, Bool.false_eq_true, if_false]; exact le_refl z
    have hres := ih (maxStep acc z) hstepS hzs
    have hresS : zs.foldl maxStep (maxStep acc z) ∈ S := by
      rcases List.mem_cons.1 (foldl_maxStep_mem zs (maxStep acc z)) with h | h
      · rw [h]; exact hstepS
      · exact hzs _ h
    have hstep := hres (maxStep acc z) (List.mem_cons_self ..)
    rcases List.mem_cons.1 hy with hy | hy
    · rw [hy]; exact htr _ _ _ hacc hstepS hresS h1 hstep
    · rcases List.mem_cons.1 hy with hy | hy
      · rw [hy]; exact htr _ _ _ hz hstepS hresS h2 hstep
      · exact hres y (List.mem_cons_of_mem _ hy)

theorem foldl_minStep_bound {S : List (Value N)} (htr : TransOn S) (l : List (Value N)) :
    ∀ acc, acc ∈ S → (∀ y ∈ l, y ∈ S) → ∀ y ∈ acc :: l, Value.le (l.foldl minStep acc) y = true := by
  induction l with
  | nil => intro acc _ _ y hy; simp only [List.mem_singleton] at hy; rw [hy]; exact le_refl acc
  | cons z zs ih =>
    intro acc hacc hl y hy
    have hz : z ∈ S := hl z (List.mem_cons_self ..)
    have hzs : ∀ y ∈ zs, y ∈ S := fun y hy => hl y (List.mem_cons_of_mem _ hy)
    simp only [List.foldl_cons]
    have hstepS : minStep acc z ∈ S := by unfold minStep; split <;> assumption
    have h1 : Value.le (minStep acc z) acc = true := by
      unfold minStep
      by_cases hc : cmp acc z = .gt
      · simp only [hc, beq_self_eq_true, if_true]; exact le_of_gt hc
      · have : (cmp acc z == Ordering.gt) = false := by simpa using hc
        simp only [this, Bool.false_eq_true, if_false]; exact le_refl acc
    have h2 : Value.le (minStep acc z) z = true := by
      unfold minStep
      by_cases hc : cmp acc z = .gt
      · simp only [hc, beq_self_eq_true, if_true]; exact le_refl z
      · have : (cmp acc z == Ordering.gt) = false := by simpa using hc
        simp only [this, Bool.false_eq_true, if_false]; exact le_of_not_gt hc
    have hres := ih (minStep acc z) hstepS hzs
    have hresS : zs.foldl minStep (minStep acc z) ∈ S := by
      rcases List.mem_cons.1 (foldl_minStep_mem zs (minStep acc z)) with h | h
      · rw [h]; exact hstepS
      · exact hzs _ h
    have hstep := hres (minStep acc z) (List.mem_cons_self ..)
    rcases List.mem_cons.1 hy with hy | hy
    · rw [hy]; exact htr _ _ _ hresS hstepS hacc hstep h1
    · rcases List.mem_cons.1 hy with hy | hy
      · rw [hy]; exact htr _ _ _ hresS hstepS hz hstep h2
      · exact hres y (List.mem_cons_of_mem _ hy)

/-- a Safe collection is a transitive carrier -/
theorem Safe.transOn {S : List (Value N)} (h : Safe S) : TransOn S := by
  intro a b c ha hb hc h1 h2
  rw [le_iff] at h1 h2 ⊢
  exact cmp_le_trans_of_safe h ha hb hc h1 h2

end
end Order
end Slac
