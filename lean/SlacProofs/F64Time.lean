/-
  SlacProofs.F64Time — `instance : LawfulTimeNum Float`: the driver's binary64 numbers satisfy every hypothesis
  the time builtins (C16) make about numbers.  Nothing is assumed: core `Float` `/` and `*` are shown to satisfy
  the standard model in SlacProofs.F64Arith (`div_mkF_std`, `mul_mkF_std`), the rounding analysis over ℚ is
  `Slac.Time.roundtrip_core` (SlacProofs.TimeReal), and `F64.round` is nearest-integer (SlacProofs.F64RoundHalf).
  * `round_mkF_near`     a double within 1/2 (strictly) of a positive integer n rounds to ±n;
  * `div_mul_round`      for 1 ≤ n ≤ 2^48: round ((±n / 86400000) * 86400000) = ±n, and ±n / 86400000 is a finite
                         non-zero double of the same sign (so never -0.0);
  * `decode_encode_ms`   `(round ((T as f64 / 86400000.0) * 86400000.0)) as i64 = T` for |T| ≤ 2^48;
  * `trunc_add_fract_ms` `trunc x + fract x = x` (bit for bit) for x = T as f64 / 86400000.0;
  * small casts and comparisons: `toI32_ofInt`, `toU32_ofNat`, `pcmp_ofInt_zero`.
-/
import SlacProofs.F64Arith
import SlacProofs.F64Idx
import SlacProofs.TimeNum
import SlacProofs.TimeReal
set_option autoImplicit false
namespace Slac
namespace F64
open Float.Model Float.Model.UnpackedFloat

/-! ### small casts and comparisons -/
theorem toI32_ofInt (k : Int) (h1 : -(2147483648) ≤ k) (h2 : k < 2147483648) : toI32 (F64.ofInt k) = k := by
  unfold toI32
  exact toIntSat_ofInt k _ _ (by omega) (by omega) (by omega)

theorem toU32_ofNat (n : Nat) (h : n < 4294967296) : toU32 (F64.ofNat n) = n := by
  rw [← ofInt_natCast]
  unfold toU32
  rw [toIntSat_ofInt _ _ _ (by omega) (by omega) (by omega)]
  omega

theorem pcmp_ofInt_neg (k : Int) (hk : k < 0) (h : k.natAbs < 2^53) :
    pcmp (F64.ofInt k) (F64.ofNat 0) = some .lt := by
  have hc := canon_ofNat k.natAbs (by omega) h
  unfold pcmp
  rw [bits_ofNat_zero, ofInt_eq k (by omega) h, bits_mkF2 _ _ _ hc, sgnOf_neg k hk]
  have h1 := magOf_lt _ _ hc
  have h2 := magOf_pos _ _ hc
  generalize magOf (k.natAbs * 2^(52 - k.natAbs.log2)) ((k.natAbs.log2 : Int) - 52) = g at h1 h2
  have hs : sbit Sign.negative = 1 := rfl
  rw [hs]
  have hm : magN (1 * 2^63 + g) = g := by unfold magN; omega
  have hn : negN (1 * 2^63 + g) = true := by
    unfold negN; rw [decide_eq_true_eq]; omega
  have hk1 : keyN (1 * 2^63 + g) = -(g : Int) := by unfold keyN; rw [hn, hm]; rfl
  have hnan : isNaNN (1 * 2^63 + g) = false := by
    unfold isNaNN; rw [hm]; simp; omega
  have hk0 : keyN 0 = 0 := by decide
  have hnan0 : isNaNN 0 = false := by decide
  unfold pcmpN
  rw [hnan, hnan0, hk1, hk0]
  simp only [Bool.or_self, Bool.false_eq_true, if_false]
  unfold cmpInt
  rw [if_pos (by omega)]

theorem pcmp_ofInt_zero (k : Int) (h1 : -(4294967296) ≤ k) (h2 : k ≤ 4294967296) :
    pcmp (F64.ofInt k) (NumOps.zero : Float) = some (Time.sgnOrd k) := by
  rw [numzero_eq]
  unfold Time.sgnOrd
  by_cases hk : k < 0
  · rw [if_pos hk]; exact pcmp_ofInt_neg k hk (by omega)
  · rw [if_neg hk]
    have hkn : k = ((k.toNat : Nat) : Int) := by omega
    rw [hkn, ofInt_natCast, pcmp_ofNat _ _ (by omega) (by decide)]
    by_cases hk0 : k = 0
    · rw [if_pos (by omega)]; congr 1; rw [Nat.compare_eq_eq]; omega
    · rw [if_neg (by omega)]; congr 1; rw [Nat.compare_eq_gt]; omega

theorem one_eq : (NumOps.ofBool true : Float) = F64.ofNat 1 := by
  show (1 : Float) = F64.ofNat 1
  rw [float_one, ← ofInt_natCast]; rfl

/-! ### rounding a double that is within 1/2 of an integer -/
theorem round_mkF_near (s : Sign) (m : Nat) (e : Int) (h : Canon m e) (he : e < 0) (n : Nat) (hn : 1 ≤ n)
    (h1 : 2 * (n * 2^(-e).toNat - m) < 2^(-e).toNat) (h2 : 2 * (m - n * 2^(-e).toNat) < 2^(-e).toNat) :
    round (mkF s m e h.pos) = F64.ofInt (s.apply (n : Int)) := by
  rw [round_mkF s m e h he]
  obtain ⟨_, _, huniq⟩ := round_nearest_arith m (-e).toNat (m / 2^(-e).toNat) (m % 2^(-e).toNat)
    (if 2 * (m % 2^(-e).toNat) ≥ 2^(-e).toNat then m / 2^(-e).toNat + 1 else m / 2^(-e).toNat) rfl rfl rfl
  have hR := huniq n h1 h2
  by_cases hc : 2 * (m % 2^(-e).toNat) ≥ 2^(-e).toNat
  · rw [if_pos hc] at hR ⊢; rw [hR]
  · rw [if_neg hc] at hR ⊢
    by_cases he52 : e < -52
    · exfalso
      have hlt := h.lt
      have hbig : m < 2^(-e).toNat :=
        Nat.lt_of_lt_of_le hlt (Nat.pow_le_pow_right (by decide) (by omega))
      have hq : m / 2^(-e).toNat = 0 := Nat.div_eq_of_lt hbig
      omega
    · obtain ⟨ht, _, _⟩ := trunc_mkF_mid_ofInt s m e h (by omega) he
      rw [ht, hR]

/-! ### values of small integers as canonical floats -/
theorem canon_val_ofNat (n : Nat) (h0 : 0 < n) (h : n < 2^53) :
    ((n * 2^(52 - n.log2) : Nat) : ℚ) * (2:ℚ)^((n.log2 : Int) - 52) = (n : ℚ) := by
  have hL : n.log2 < 53 := (Nat.log2_lt (by omega)).2 h
  have he : ((n.log2 : Int) - 52) = -((52 - n.log2 : Nat) : Int) := by omega
  rw [he, zpow_neg, zpow_natCast]
  push_cast
  have : (0:ℚ) < (2:ℚ)^(52 - n.log2) := by positivity
  field_simp

theorem tiny_le : (2:ℚ)^(-1022:ℤ) ≤ 1 / 134217728 := by
  have := zpow_le_zpow_right₀ (a := (2:ℚ)) (by norm_num) (show (-1022:ℤ) ≤ -27 by norm_num)
  refine le_trans this ?_
  norm_num
theorem le_huge : (2:ℚ)^(49:ℕ) ≤ (2:ℚ)^(1023:ℤ) := by
  have := zpow_le_zpow_right₀ (a := (2:ℚ)) (by norm_num) (show (49:ℤ) ≤ 1023 by norm_num)
  refine le_trans ?_ this
  norm_num

theorem sign_div_pos (s : Sign) : s / Sign.positive = s := by cases s <;> rfl

/-- the core of `decode ∘ encode`: for a canonical float of value n (1 ≤ n ≤ 2^48) with sign s and the canonical
    float D of value 86 400 000: the quotient is a finite non-zero double of sign s, and multiplying back and rounding
    gives the integer ±n exactly -/
theorem div_mul_round (s : Sign) (n : Nat) (hn1 : 1 ≤ n) (hn2 : n ≤ 2^48)
    (mT : Nat) (eT : Int) (hT : Canon mT eT) (hvT : (mT:ℚ) * (2:ℚ)^eT = (n:ℚ))
    (mD : Nat) (eD : Int) (hD : Canon mD eD) (hvD : (mD:ℚ) * (2:ℚ)^eD = 86400000) :
    ∃ (M1 : Nat) (E1 : Int) (hc1 : Canon M1 E1),
      mkF s mT eT hT.pos / mkF .positive mD eD hD.pos = mkF s M1 E1 hc1.pos ∧
      round (mkF s M1 E1 hc1.pos * mkF .positive mD eD hD.pos) = F64.ofInt (s.apply (n : Int)) := by
  have hn1q : (1:ℚ) ≤ (n:ℚ) := by exact_mod_cast hn1
  have hn2' : n ≤ 281474976710656 := by omega
  have hn2q : (n:ℚ) ≤ 281474976710656 := by exact_mod_cast hn2'
  have htiny := tiny_le
  have hhuge := le_huge
  -- division
  obtain ⟨M1, E1, hc1, heq1, hbd1⟩ := div_mkF_std s .positive mT mD eT eD hT hD
    (by rw [hvT, hvD]; refine le_trans htiny ?_; rw [div_le_div_iff₀ (by norm_num) (by norm_num)]; linarith)
    (by rw [hvT, hvD]; refine lt_of_lt_of_le ?_ hhuge; rw [div_lt_iff₀ (by norm_num)]; norm_num; linarith)
  rw [hvT, hvD] at hbd1
  rw [sign_div_pos] at heq1
  refine ⟨M1, E1, hc1, heq1, ?_⟩
  generalize hx : (M1:ℚ) * (2:ℚ)^E1 = x at hbd1
  have hbd1' := abs_le.1 hbd1
  -- multiplication
  obtain ⟨M2, E2, hc2, heq2, hbd2⟩ := mul_mkF_std s .positive M1 mD E1 eD hc1 hD
    (by rw [hx, hvD]; refine le_trans htiny ?_; norm_num at hbd1' ⊢; linarith [hbd1'.1, hbd1'.2])
    (by rw [hx, hvD]; refine lt_of_lt_of_le ?_ hhuge; norm_num at hbd1' ⊢; linarith [hbd1'.1, hbd1'.2])
  rw [hx, hvD] at hbd2
  rw [sign_mul_pos] at heq2
  rw [heq2]
  generalize hy : (M2:ℚ) * (2:ℚ)^E2 = y at hbd2
  -- the rounding analysis over ℚ
  have hxpos : 0 ≤ x * 86400000 := by linarith [hbd1'.1, hbd1'.2]
  have hcore : |y - (n:ℚ)| < 1 / 2 := by
    apply Time.roundtrip_core (n:ℚ) x y
    · rw [abs_of_nonneg (show (0:ℚ) ≤ (n:ℚ) by linarith)]; norm_num; linarith
    · rw [abs_of_nonneg (show (0:ℚ) ≤ (n:ℚ) / 86400000 by positivity)]; exact hbd1
    · rw [abs_of_nonneg hxpos]; exact hbd2
  obtain ⟨hy1, hy2⟩ := abs_lt.1 hcore
  -- back to Nat
  have hM2 : (0:ℚ) < (M2:ℚ) := by exact_mod_cast hc2.pos
  have hE2 : E2 < 0 := by
    refine Decidable.byContradiction fun hge => ?_
    have hge' : 0 ≤ E2 := by omega
    have hl : M2.log2 = 52 := by rcases hc2.cases with ⟨hl, _⟩ | ⟨_, h2⟩ <;> omega
    have h52 : 2^52 ≤ M2 := (Nat.le_log2 (by have := hc2.pos; omega)).1 (by omega)
    have h52' : 4503599627370496 ≤ M2 := by omega
    have h52q : (4503599627370496:ℚ) ≤ (M2:ℚ) := by exact_mod_cast h52'
    have h1 : (1:ℚ) ≤ (2:ℚ)^E2 := one_le_zpow₀ (by norm_num) hge'
    have : (M2:ℚ) * 1 ≤ (M2:ℚ) * (2:ℚ)^E2 := mul_le_mul_of_nonneg_left h1 hM2.le
    linarith
  apply round_mkF_near s M2 E2 hc2 hE2 n hn1
  all_goals
    generalize hk : (-E2).toNat = k
    have hEk : E2 = -(k : Int) := by omega
    have hPq : (0:ℚ) < (2:ℚ)^k := by positivity
    have hyk : y * (2:ℚ)^k = (M2:ℚ) := by
      rw [← hy, hEk, zpow_neg, zpow_natCast]; field_simp
  · by_cases hle : n * 2^k ≤ M2
    · rw [Nat.sub_eq_zero_of_le hle]; exact Nat.two_pow_pos k
    · have hA : 2 * (n * 2^k) < 2^k + 2 * M2 := by
        have : 2 * ((n:ℚ) * (2:ℚ)^k) < (2:ℚ)^k + 2 * (M2:ℚ) := by
          rw [← hyk]; nlinarith
        exact_mod_cast this
      omega
  · by_cases hle : M2 ≤ n * 2^k
    · rw [Nat.sub_eq_zero_of_le hle]; exact Nat.two_pow_pos k
    · have hB : 2 * M2 < 2^k + 2 * (n * 2^k) := by
        have : 2 * (M2:ℚ) < (2:ℚ)^k + 2 * ((n:ℚ) * (2:ℚ)^k) := by
          rw [← hyk]; nlinarith
        exact_mod_cast this
      omega

/-! ### the two hard fields -/
theorem canon_dayLen : Canon (86400000 * 2^(52 - Nat.log2 86400000)) ((Nat.log2 86400000 : Int) - 52) :=
  canon_ofNat 86400000 (by decide) (by decide)

theorem ms_closed_zero :
    toI64 (round ((F64.ofInt 0 / F64.ofNat 86400000) * F64.ofNat 86400000)) = 0 ∧
    trunc (F64.ofInt 0 / F64.ofNat 86400000) + fract (F64.ofInt 0 / F64.ofNat 86400000)
      = F64.ofInt 0 / F64.ofNat 86400000 := by decide +kernel

/-- for T ≠ 0, |T| ≤ 2^48: `T as f64 / 86400000.0` is a finite non-zero double and the round trip is exact -/
theorem ms_nonzero (T : Int) (h0 : T ≠ 0) (h : T.natAbs ≤ 2^48) :
    ∃ (M1 : Nat) (E1 : Int) (hc1 : Canon M1 E1),
      F64.ofInt T / F64.ofNat 86400000 = mkF (sgnOf T) M1 E1 hc1.pos ∧
      round ((F64.ofInt T / F64.ofNat 86400000) * F64.ofNat 86400000) = F64.ofInt T := by
  have h53 : T.natAbs < 2^53 := by omega
  have hcT := canon_ofNat T.natAbs (by omega) h53
  have hvD : ((86400000 * 2^(52 - Nat.log2 86400000) : Nat) : ℚ) * (2:ℚ)^((Nat.log2 86400000 : Int) - 52)
      = 86400000 := by
    have := canon_val_ofNat 86400000 (by decide) (by decide)
    rw [this]; norm_num
  obtain ⟨M1, E1, hc1, heq1, hround⟩ := div_mul_round (sgnOf T) T.natAbs (by omega) h _ _ hcT
    (canon_val_ofNat T.natAbs (by omega) h53) _ _ canon_dayLen hvD
  rw [ofInt_eq T h0 h53, ofNat_eq 86400000 (by decide) (by decide)]
  refine ⟨M1, E1, hc1, heq1, ?_⟩
  rw [heq1, hround, sgnOf_apply]
  exact ofInt_eq T h0 h53

/-- `(round ((T as f64 / 86400000.0) * 86400000.0)) as i64 = T` for every |T| ≤ 2^48 -/
theorem decode_encode_ms (T : Int) (h1 : -(281474976710656) ≤ T) (h2 : T ≤ 281474976710656) :
    toI64 (round ((F64.ofInt T / F64.ofNat 86400000) * F64.ofNat 86400000)) = T := by
  by_cases h0 : T = 0
  · subst h0; exact ms_closed_zero.1
  · obtain ⟨_, _, _, _, hr⟩ := ms_nonzero T h0 (by omega)
    rw [hr]; exact toI64_ofInt T (by omega)

/-- `trunc x + fract x = x`, bit for bit, for every date-time number x = T as f64 / 86400000.0 -/
theorem trunc_add_fract_ms (T : Int) (h1 : -(281474976710656) ≤ T) (h2 : T ≤ 281474976710656) :
    trunc (F64.ofInt T / F64.ofNat 86400000) + fract (F64.ofInt T / F64.ofNat 86400000)
      = F64.ofInt T / F64.ofNat 86400000 := by
  by_cases h0 : T = 0
  · subst h0; exact ms_closed_zero.2
  · obtain ⟨M1, E1, hc1, heq, _⟩ := ms_nonzero T h0 (by omega)
    rw [heq]; exact trunc_add_fract_mkF _ _ _ hc1

end F64

/-- binary64 satisfies every number hypothesis of the C16 time theorems -/
instance : Time.LawfulTimeNum Float where
  decode_encode_ms := F64.decode_encode_ms
  ofInt_natCast := F64.ofInt_natCast
  toI32_ofInt := F64.toI32_ofInt
  toU32_ofNat := F64.toU32_ofNat
  pcmp_ofInt_zero := F64.pcmp_ofInt_zero
  zero_eq := F64.numzero_eq
  one_eq := F64.one_eq
  trunc_add_fract := F64.trunc_add_fract_ms

end Slac
