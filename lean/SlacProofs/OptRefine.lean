/-
  SlacProofs.OptRefine — `transform_ternary` on trees whose variables are bound: if the original tree yields
  a value, the transformed tree yields the same value.
  `Le r r'` ("r ⊑ r'") := whenever `r` is a value, `r'` is the same value.  Every context preserves ⊑ provided
  no operand fails with `UndefinedVariable` — the only error the interpreter ever catches — and bound
  variables exclude that error (`eval_noUndef`).
-/
import SlacProofs.OptPres
set_option autoImplicit false
set_option linter.unusedSectionVars false
set_option linter.unusedSimpArgs false
namespace Slac.Opt
variable {N : Type} [NumOps N]

def NoUndef (r : Except Err (Value N)) : Prop := ∀ n, r ≠ .error (.undefinedVariable n)
def Le (r r' : Except Err (Value N)) : Prop := ∀ v, r = .ok v → r' = .ok v

theorem Le.refl (r : Except Err (Value N)) : Le r r := fun _ h => h
theorem Le.of_eq {r r' : Except Err (Value N)} (h : r = r') : Le r r' := fun _ h' => h ▸ h'
theorem Le.error (e : Err) (r' : Except Err (Value N)) : Le (.error e) r' := fun _ h => by cases h

/-! ### no `UndefinedVariable` out of a tree whose variables are bound -/

theorem binVal_noUndef (op : Op) (a b : Value N) : NoUndef (binVal op a b) := by
  intro n h
  cases op <;> simp only [binVal] at h <;> (try cases h) <;>
    cases a <;> cases b <;> simp only [Value.add, Value.arith, Value.xor] at h <;> cases h

theorem unModel_noUndef (op : Op) {a : R N} (h : NoUndef a.1) : NoUndef (unModel op a).1 := by
  obtain ⟨a1, t⟩ := a
  intro n hn
  cases a1 with
  | ok v =>
    cases op <;> simp only [unModel, Value.not] at hn <;> (try cases hn) <;>
      cases v <;> simp only [Value.neg] at hn <;> cases hn
  | error e => exact h n hn

theorem rightBool_noUndef (t : List (Event N)) (b : R N) : NoUndef (rightBool t b).1 := by
  obtain ⟨b1, u⟩ := b
  intro n hn
  cases b1 with
  | ok v => simp only [rightBool] at hn; cases hn
  | error e => cases e <;> simp only [rightBool] at hn <;> cases hn

theorem binModel_noUndef (op : Op) {a b : R N} (ha : NoUndef a.1) (hb : NoUndef b.1) :
    NoUndef (binModel op a b).1 := by
  obtain ⟨a1, t⟩ := a; obtain ⟨b1, u⟩ := b
  intro n hn
  cases a1 with
  | ok lv =>
    cases b1 with
    | ok rv =>
      have hv := binVal_noUndef op lv rv n
      cases hab : Value.asBool lv <;> cases op <;> simp [binModel, rightBool, hab] at hn <;> exact hv hn
    | error e =>
      cases e <;> first | exact hb _ rfl | skip
      all_goals (cases hab : Value.asBool lv <;> cases op <;> simp [binModel, rightBool, hab] at hn)
  | error e =>
    cases e <;> first | exact ha _ rfl | skip
    all_goals (cases op <;> simp [binModel] at hn)

theorem ternModel_noUndef (op : Op) {c m r : R N} (hc : NoUndef c.1) (hm : NoUndef m.1) (hr : NoUndef r.1) :
    NoUndef (ternModel op c m r).1 := by
  obtain ⟨c1, t⟩ := c
  intro n hn
  cases op <;> simp only [ternModel] at hn <;> (try cases hn)
  cases c1 with
  | ok v =>
    simp only at hn
    split at hn
    · exact hm n hn
    · exact hr n hn
  | error e => exact hc n hn

theorem eval_noUndef (env : Env N) (e : Expr N) : VarsBound env e → NoUndef (evalT env e).1 := by
  refine Expr.rec
    (motive_1 := fun e => VarsBound env e → NoUndef (evalT env e).1)
    (motive_2 := fun es => VarsBoundL env es → ∀ n, (evalList env es).1 ≠ .error (.undefinedVariable n))
    ?_ ?_ ?_ ?_ ?_ ?_ ?_ ?_ ?_ e
  · intro r op ih h; simp only [VarsBound] at h; simp only [evalT]; exact unModel_noUndef op (ih h)
  · intro l r op ihl ihr h; simp only [VarsBound] at h; simp only [evalT]
    exact binModel_noUndef op (ihl h.1) (ihr h.2)
  · intro l m r op ihl ihm ihr h; simp only [VarsBound] at h; simp only [evalT]
    exact ternModel_noUndef op (ihl h.1) (ihm h.2.1) (ihr h.2.2)
  · intro es ih h n hn
    simp only [VarsBound] at h
    have := ih h n
    simp only [evalT] at hn
    generalize evalList env es = a at this hn
    obtain ⟨a1, a2⟩ := a
    cases a1 with
    | ok vs => cases hn
    | error e => simp only at hn this; cases hn; exact this rfl
  · intro v _ n hn; cases hn
  · intro x h n hn
    simp only [VarsBound] at h
    simp only [evalT] at hn
    cases hx : env.var x with
    | none => exact h hx
    | some v => rw [hx] at hn; cases hn
  · intro f ps ih h n hn
    simp only [VarsBound] at h
    have := ih h n
    simp only [evalT] at hn
    generalize evalList env ps = a at this hn
    obtain ⟨a1, a2⟩ := a
    cases a1 with
    | ok vs => simp only at hn; cases hc : env.call f vs <;> rw [hc] at hn <;> cases hn
    | error e => simp only at hn this; cases hn; exact this rfl
  · intro _ n hn; cases hn
  · intro e es ihe ihes h n hn
    simp only [VarsBoundL] at h
    have h1 := ihe h.1 n
    have h2 := ihes h.2 n
    simp only [evalList] at hn
    generalize evalT env e = a at h1 hn
    generalize evalList env es = b at h2 hn
    obtain ⟨a1, a2⟩ := a; obtain ⟨b1, b2⟩ := b
    cases a1 with
    | ok v =>
      cases b1 with
      | ok vs => cases hn
      | error e' => simp only at hn h2; exact h2 hn
    | error e' => simp only at hn h1; cases hn; exact h1 rfl

/-! ### every context is monotone for ⊑ -/

theorem unModel_le (op : Op) {a a' : R N} (h : Le a.1 a'.1) : Le (unModel op a).1 (unModel op a').1 := by
  obtain ⟨a1, t⟩ := a; obtain ⟨a1', t'⟩ := a'
  cases a1 with
  | ok v => have := h v rfl; simp only at this; subst this; exact Le.refl _
  | error e => exact Le.error e _

theorem binModel_le (op : Op) {a a' b b' : R N} (ha : Le a.1 a'.1) (hb : Le b.1 b'.1)
    (na : NoUndef a.1) (nb : NoUndef b.1) : Le (binModel op a b).1 (binModel op a' b').1 := by
  obtain ⟨a1, t⟩ := a; obtain ⟨a1', t'⟩ := a'; obtain ⟨b1, u⟩ := b; obtain ⟨b1', u'⟩ := b'
  cases a1 with
  | ok lv =>
    have := ha lv rfl; simp only at this; subst this
    cases b1 with
    | ok rv =>
      have := hb rv rfl; simp only at this; subst this
      exact Le.of_eq (binModel_res op rfl rfl)
    | error e =>
      cases e <;> first | exact absurd rfl (nb _) | skip
      all_goals
        (cases hab : Value.asBool lv <;> cases op <;>
          first
          | exact Le.error _ _
          | (apply Le.of_eq; simp [binModel, hab]; done)
          | (simp only [binModel, rightBool, hab]; exact Le.error _ _)
          | (simp only [binModel, rightBool, hab, if_true, if_false]; exact Le.error _ _))
  | error e =>
    cases e <;> first | exact absurd rfl (na _) | skip
    all_goals (cases op <;> exact Le.error _ _)

theorem ternModel_le (op : Op) {c c' m m' r r' : R N} (hc : Le c.1 c'.1) (hm : Le m.1 m'.1) (hr : Le r.1 r'.1) :
    Le (ternModel op c m r).1 (ternModel op c' m' r').1 := by
  obtain ⟨c1, t⟩ := c; obtain ⟨c1', t'⟩ := c'
  by_cases hop : op = .ternaryCondition
  · subst hop
    cases c1 with
    | ok v =>
      have := hc v rfl; simp only at this; subst this
      simp only [ternModel]
      split
      · exact hm
      · exact hr
    | error e => exact Le.error e _
  · cases op <;> first | exact absurd rfl hop | exact Le.error _ _

def LeL (a b : Except Err (List (Value N))) : Prop := ∀ vs, a = .ok vs → b = .ok vs

theorem array_le (env : Env N) {es es' : List (Expr N)} (h : LeL (evalList env es).1 (evalList env es').1) :
    Le (evalT env (.array es)).1 (evalT env (.array es')).1 := by
  simp only [evalT]
  generalize evalList env es = a at h
  generalize evalList env es' = b at h
  obtain ⟨a1, a2⟩ := a; obtain ⟨b1, b2⟩ := b
  cases a1 with
  | ok vs => have := h vs rfl; simp only at this; subst this; exact Le.refl _
  | error e => exact Le.error e _

theorem call_le (env : Env N) (f : Str) {es es' : List (Expr N)}
    (h : LeL (evalList env es).1 (evalList env es').1) :
    Le (evalT env (.call f es)).1 (evalT env (.call f es')).1 := by
  simp only [evalT]
  generalize evalList env es = a at h
  generalize evalList env es' = b at h
  obtain ⟨a1, a2⟩ := a; obtain ⟨b1, b2⟩ := b
  cases a1 with
  | ok vs => have := h vs rfl; simp only at this; subst this; exact Le.refl _
  | error e => exact Le.error e _

theorem cons_le (env : Env N) {e e' : Expr N} {es es' : List (Expr N)}
    (he : Le (evalT env e).1 (evalT env e').1) (hes : LeL (evalList env es).1 (evalList env es').1) :
    LeL (evalList env (e :: es)).1 (evalList env (e' :: es')).1 := by
  simp only [evalList]
  generalize evalT env e = a at he
  generalize evalT env e' = a' at he
  generalize evalList env es = b at hes
  generalize evalList env es' = b' at hes
  obtain ⟨a1, a2⟩ := a; obtain ⟨a1', a2'⟩ := a'; obtain ⟨b1, b2⟩ := b; obtain ⟨b1', b2'⟩ := b'
  cases a1 with
  | ok v =>
    have := he v rfl; simp only at this; subst this
    cases b1 with
    | ok vs => have := hes vs rfl; simp only at this; subst this; exact fun _ h => h
    | error e => intro _ h; cases h
  | error e => intro _ h; cases h

/-- the rewritten node: an eager three-argument `if_then` call that yields a value yields the value of the
    lazy conditional -/
theorem ifThen_le (env : Env N) (hi : IfThenStd env) (a b c : Expr N) :
    Le (evalT env (.call ifThenName [a, b, c])).1 (evalT env (.ternary a b c .ternaryCondition)).1 := by
  intro v h
  simp only [evalT, evalList] at h ⊢
  generalize evalT env a = ra at h ⊢
  generalize evalT env b = rb at h ⊢
  generalize evalT env c = rc at h ⊢
  obtain ⟨a1, ta⟩ := ra; obtain ⟨b1, tb⟩ := rb; obtain ⟨c1, tc⟩ := rc
  cases a1 with
  | error e => cases h
  | ok va =>
    cases b1 with
    | error e => cases h
    | ok vb =>
      cases c1 with
      | error e => cases h
      | ok vc =>
        simp only at h
        cases hc : env.call ifThenName [va, vb, vc] with
        | error ne => rw [hc] at h; cases h
        | ok w =>
          rw [hc] at h; cases h
          obtain ⟨bb, h1, h2⟩ := hi va vb vc v hc
          subst h1; subst h2
          cases bb <;> simp [ternModel, Value.asBool]

theorem transform_le (env : Env N) (hi : IfThenStd env) (e : Expr N) :
    VarsBound env e → Le (evalT env e).1 (evalT env (transform e)).1 := by
  refine Expr.rec
    (motive_1 := fun e => VarsBound env e → Le (evalT env e).1 (evalT env (transform e)).1)
    (motive_2 := fun es => VarsBoundL env es → LeL (evalList env es).1 (evalList env (transformL es)).1)
    ?_ ?_ ?_ ?_ ?_ ?_ ?_ ?_ ?_ e
  · intro r op ih h; simp only [VarsBound] at h; simp only [transform, evalT]; exact unModel_le op (ih h)
  · intro l r op ihl ihr h; simp only [VarsBound] at h; simp only [transform, evalT]
    exact binModel_le op (ihl h.1) (ihr h.2) (eval_noUndef env l h.1) (eval_noUndef env r h.2)
  · intro l m r op ihl ihm ihr h; simp only [VarsBound] at h; simp only [transform, evalT]
    exact ternModel_le op (ihl h.1) (ihm h.2.1) (ihr h.2.2)
  · intro es ih h; simp only [VarsBound] at h; simp only [transform]; exact array_le env (ih h)
  · intro v _; exact Le.refl _
  · intro n _; exact Le.refl _
  · intro f ps ih h
    simp only [VarsBound] at h
    simp only [transform]
    split
    · rename_i hf
      subst hf
      split
      · exact ifThen_le env hi _ _ _
      · exact call_le env _ (ih h)
    · exact call_le env _ (ih h)
  · intro _; exact fun _ h => h
  · intro e es ihe ihes h
    simp only [VarsBoundL] at h
    simp only [transformL]
    exact cons_le env (ihe h.1) (ihes h.2)

end Slac.Opt
