/-
  SlacProofs.EnvLemmas — association-list facts behind the `StaticEnv` model (SlacModel.Env):
  `alGet` after `ins`/`del`, key uniqueness, membership, and pointwise-related lists.
-/
import SlacModel.Env
set_option autoImplicit false
set_option linter.unusedSectionVars false
namespace Slac

section AList
variable {K : Type} [DecidableEq K] {β : Type}

theorem alGet_del (k k' : K) (l : List (K × β)) :
    alGet k' (del k l) = if k' = k then none else alGet k' l := by
  induction l with
  | nil => simp [del, alGet]
  | cons p l ih =>
    obtain ⟨a, b⟩ := p
    simp only [del]
    by_cases ha : a = k
    · subst ha
      rw [if_pos rfl, ih]
      by_cases hk : k' = a
      · simp [hk]
      · have : a ≠ k' := fun e => hk e.symm
        simp [hk, alGet, this]
    · rw [if_neg ha]
      simp only [alGet]
      by_cases hk : a = k'
      · subst hk; simp [ha]
      · simp [hk, ih]

theorem alGet_ins (k k' : K) (b : β) (l : List (K × β)) :
    alGet k' (ins k b l) = if k' = k then some b else alGet k' l := by
  simp only [ins, alGet]
  by_cases h : k' = k
  · subst h; simp
  · have : k ≠ k' := fun e => h e.symm
    simp [this, h, alGet_del]

/-- the keys of an association list -/
def keys (l : List (K × β)) : List K := l.map (·.1)

theorem mem_del {k : K} {p : K × β} {l : List (K × β)} : p ∈ del k l ↔ p ∈ l ∧ p.1 ≠ k := by
  induction l with
  | nil => simp [del]
  | cons q l ih =>
    obtain ⟨a, b⟩ := q
    simp only [del]
    by_cases ha : a = k
    · subst ha
      rw [if_pos rfl, ih, List.mem_cons]
      constructor
      · rintro ⟨h1, h2⟩; exact ⟨.inr h1, h2⟩
      · rintro ⟨h1 | h1, h2⟩
        · subst h1; exact absurd rfl h2
        · exact ⟨h1, h2⟩
    · rw [if_neg ha, List.mem_cons, ih, List.mem_cons]
      constructor
      · rintro (h | ⟨h1, h2⟩)
        · subst h; exact ⟨.inl rfl, ha⟩
        · exact ⟨.inr h1, h2⟩
      · rintro ⟨h1 | h1, h2⟩
        · exact .inl h1
        · exact .inr ⟨h1, h2⟩

theorem mem_keys {k : K} {l : List (K × β)} : k ∈ keys l ↔ ∃ b, (k, b) ∈ l := by
  simp only [keys, List.mem_map]
  constructor
  · rintro ⟨⟨a, b⟩, h, rfl⟩; exact ⟨b, h⟩
  · rintro ⟨b, h⟩; exact ⟨(k, b), h, rfl⟩

theorem not_mem_keys_del (k : K) (l : List (K × β)) : k ∉ keys (del k l) := by
  intro h
  obtain ⟨b, hb⟩ := mem_keys.1 h
  exact (mem_del.1 hb).2 rfl

theorem nodup_keys_del (k : K) {l : List (K × β)} (h : (keys l).Nodup) : (keys (del k l)).Nodup := by
  induction l with
  | nil => simp [del, keys]
  | cons q l ih =>
    obtain ⟨a, b⟩ := q
    simp only [keys, List.map_cons, List.nodup_cons] at h
    simp only [del]
    by_cases ha : a = k
    · rw [if_pos ha]; exact ih h.2
    · rw [if_neg ha]
      simp only [keys, List.map_cons, List.nodup_cons]
      refine ⟨?_, ih h.2⟩
      intro hm
      obtain ⟨b', hb'⟩ := mem_keys.1 hm
      exact h.1 (mem_keys.2 ⟨b', (mem_del.1 hb').1⟩)

theorem nodup_keys_ins (k : K) (b : β) {l : List (K × β)} (h : (keys l).Nodup) : (keys (ins k b l)).Nodup := by
  simp only [ins, keys, List.map_cons, List.nodup_cons]
  exact ⟨not_mem_keys_del k l, nodup_keys_del k h⟩

theorem mem_ins {k : K} {b : β} {p : K × β} {l : List (K × β)} :
    p ∈ ins k b l ↔ p = (k, b) ∨ (p ∈ l ∧ p.1 ≠ k) := by
  simp only [ins, List.mem_cons, mem_del]

/-- a successful lookup returns an entry of the list -/
theorem mem_of_alGet {k : K} {b : β} {l : List (K × β)} (h : alGet k l = some b) : (k, b) ∈ l := by
  induction l with
  | nil => cases h
  | cons q l ih =>
    obtain ⟨a, c⟩ := q
    simp only [alGet] at h
    by_cases ha : a = k
    · rw [if_pos ha] at h; cases h; subst ha; exact List.mem_cons_self
    · rw [if_neg ha] at h; exact List.mem_cons_of_mem _ (ih h)

/-- with unique keys, lookup and membership coincide -/
theorem alGet_eq_some_iff {k : K} {b : β} {l : List (K × β)} (h : (keys l).Nodup) :
    alGet k l = some b ↔ (k, b) ∈ l := by
  induction l with
  | nil => simp [alGet]
  | cons q l ih =>
    obtain ⟨a, c⟩ := q
    simp only [keys, List.map_cons, List.nodup_cons] at h
    simp only [alGet, List.mem_cons]
    by_cases ha : a = k
    · subst ha
      rw [if_pos rfl]
      constructor
      · intro e; cases e; exact .inl rfl
      · rintro (e | e)
        · cases e; rfl
        · exact absurd (mem_keys.2 ⟨b, e⟩) h.1
    · rw [if_neg ha, ih h.2]
      constructor
      · exact .inr
      · rintro (e | e)
        · cases e; exact absurd rfl ha
        · exact e

/-! pointwise related association lists (same keys in the same order, related entries) -/

/-- two lists of the same length whose elements are pairwise related -/
inductive AllRel {α γ : Type} (R : α → γ → Prop) : List α → List γ → Prop
  | nil : AllRel R [] []
  | cons {a : α} {c : γ} {l : List α} {l' : List γ} : R a c → AllRel R l l' → AllRel R (a :: l) (c :: l')

theorem AllRel.refl {α : Type} {R : α → α → Prop} (h : ∀ a, R a a) : ∀ l : List α, AllRel R l l
  | [] => .nil
  | a :: l => .cons (h a) (AllRel.refl h l)

theorem AllRel.map {α γ α' γ' : Type} {R : α → γ → Prop} {S : α' → γ' → Prop} {f : α → α'} {g : γ → γ'}
    (hfg : ∀ a c, R a c → S (f a) (g c)) {l : List α} {l' : List γ} (h : AllRel R l l') :
    AllRel S (l.map f) (l'.map g) := by
  induction h with
  | nil => exact .nil
  | cons hp _ ih => exact .cons (hfg _ _ hp) ih

/-- entries related by `R`, keys equal -/
def EntryRel {γ : Type} (R : β → γ → Prop) (p : K × β) (q : K × γ) : Prop := p.1 = q.1 ∧ R p.2 q.2

theorem forall₂_del {γ : Type} {R : β → γ → Prop} (k : K) {l : List (K × β)} {l' : List (K × γ)}
    (h : AllRel (EntryRel R) l l') : AllRel (EntryRel R) (del k l) (del k l') := by
  induction h with
  | nil => exact .nil
  | @cons p q l l' hp _ ih =>
    obtain ⟨a, b⟩ := p; obtain ⟨a', b'⟩ := q
    obtain ⟨h1, h2⟩ := hp; simp only at h1 h2; subst h1
    simp only [del]
    by_cases ha : a = k
    · rw [if_pos ha, if_pos ha]; exact ih
    · rw [if_neg ha, if_neg ha]; exact .cons ⟨rfl, h2⟩ ih

theorem forall₂_ins {γ : Type} {R : β → γ → Prop} (k : K) {b : β} {c : γ} (hbc : R b c) {l : List (K × β)}
    {l' : List (K × γ)} (h : AllRel (EntryRel R) l l') :
    AllRel (EntryRel R) (ins k b l) (ins k c l') :=
  .cons ⟨rfl, hbc⟩ (forall₂_del k h)

/-- related lists give related lookups -/
theorem forall₂_alGet {γ : Type} {R : β → γ → Prop} (k : K) {l : List (K × β)} {l' : List (K × γ)}
    (h : AllRel (EntryRel R) l l') :
    (alGet k l = none ∧ alGet k l' = none) ∨ ∃ b c, alGet k l = some b ∧ alGet k l' = some c ∧ R b c := by
  induction h with
  | nil => exact .inl ⟨rfl, rfl⟩
  | @cons p q l l' hp _ ih =>
    obtain ⟨a, b⟩ := p; obtain ⟨a', b'⟩ := q
    obtain ⟨h1, h2⟩ := hp; simp only at h1 h2; subst h1
    simp only [alGet]
    by_cases ha : a = k
    · rw [if_pos ha, if_pos ha]; exact .inr ⟨b, b', rfl, rfl, h2⟩
    · rw [if_neg ha, if_neg ha]; exact ih

end AList

/-! ### Well-formedness of the function table: unique keys, each key is the folded name of its entry -/

variable {N : Type}

structure FnsWF (fold : Str → Str) (s : StaticEnv N) : Prop where
  nodup : (keys s.fns).Nodup
  key : ∀ p ∈ s.fns, p.1 = fold p.2.name

namespace StaticEnv

theorem wf_empty (fold : Str → Str) : FnsWF fold (empty : StaticEnv N) :=
  ⟨by simp [empty, keys], by intro p hp; cases hp⟩

theorem wf_addFunction {fold : Str → Str} {s : StaticEnv N} (h : FnsWF fold s) (f : Fn N) :
    FnsWF fold (addFunction fold s f) := by
  refine ⟨nodup_keys_ins _ _ h.nodup, ?_⟩
  intro p hp
  rcases mem_ins.1 hp with rfl | ⟨hp, _⟩
  · rfl
  · exact h.key p hp

theorem wf_addFunctions {fold : Str → Str} (fs : List (Fn N)) : ∀ {s : StaticEnv N}, FnsWF fold s →
    FnsWF fold (addFunctions fold s fs) := by
  induction fs with
  | nil => intro s h; exact h
  | cons f fs ih => intro s h; exact ih (wf_addFunction h f)

theorem wf_removeFunction {fold : Str → Str} {s : StaticEnv N} (h : FnsWF fold s) (n : Str) :
    FnsWF fold (removeFunction fold s n).1 :=
  ⟨nodup_keys_del _ h.nodup, fun p hp => h.key p (mem_del.1 hp).1⟩

/-- the listing contains exactly the functions some key maps to -/
theorem mem_listFunctions {fold : Str → Str} {s : StaticEnv N} (h : FnsWF fold s) (f : Fn N) :
    f ∈ listFunctions s ↔ ∃ k, alGet k s.fns = some f := by
  simp only [listFunctions, List.mem_map]
  constructor
  · rintro ⟨⟨k, g⟩, hp, rfl⟩; exact ⟨k, (alGet_eq_some_iff h.nodup).2 hp⟩
  · rintro ⟨k, hk⟩; exact ⟨(k, f), (alGet_eq_some_iff h.nodup).1 hk, rfl⟩

/-- the folded names of the listed functions are the keys of the table -/
theorem listFunctions_keys {fold : Str → Str} {s : StaticEnv N} (h : FnsWF fold s) :
    (listFunctions s).map (fun f => fold f.name) = keys s.fns := by
  simp only [listFunctions, keys, List.map_map]
  apply List.map_congr_left
  intro p hp
  exact (h.key p hp).symm

/-- no two listed functions have the same folded name -/
theorem listFunctions_nodup {fold : Str → Str} {s : StaticEnv N} (h : FnsWF fold s) :
    ((listFunctions s).map (fun f => fold f.name)).Nodup := by
  rw [listFunctions_keys h]; exact h.nodup

theorem addFunctions_vars (fold : Str → Str) (fs : List (Fn N)) : ∀ s : StaticEnv N,
    (addFunctions fold s fs).vars = s.vars := by
  induction fs with
  | nil => intro s; rfl
  | cons f fs ih => intro s; exact (ih (addFunction fold s f)).trans rfl

end StaticEnv
end Slac
