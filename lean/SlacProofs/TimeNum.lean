/-
  SlacProofs.TimeNum — the number facts the time builtins rely on, packaged as a class, and the
  encode/decode theorems that hold for every lawful number type.

  `LawfulTimeNum N` lists facts that IEEE binary64 (the driver's `Float` instance, SlacModel.Num / NumX)
  satisfies; nothing here is an axiom: the theorems are proved FOR EVERY instance, and
  `SlacProofs.TimeToy` exhibits an instance (exact rationals), so the class is consistent.
  Why each field is true of binary64:
  * `decode_encode_ms` — proved over ℚ from the standard model of floating-point arithmetic in
    `SlacProofs.TimeReal.decode_encode_real` (|T| ≤ 2^50 there; 2^48 = 281474976710656 here).  The trusted link is that binary64
    `/` and `*` satisfy the standard model on these operands, `round` returns an integer within 1/2, and
    `as i64` is exact on integers below 2^63.
  * `ofInt_natCast` — `F64.ofInt (n : Int)` unfolds to `F64.ofNat n` (same `Float.ofScientific n false 0`).
  * `toI32_ofInt`, `toU32_ofNat` — integers below 2^53 are exact doubles and `as i32`/`as u32` truncate exactly.
  * `pcmp_ofInt_zero` — the sign of the double of a small integer is the sign of the integer.
  * `zero_eq`, `one_eq` — `0.0` and `1.0` are the doubles of the integers 0 and 1.
  * `trunc_add_fract` — for finite `x ≠ -0.0`, `x - trunc x` is exact (it is a suffix of the significand of `x`)
    and `trunc x + (x - trunc x)` is the representable number `x`; `T / D` is never `-0.0`
    (no underflow; `0 / D = +0.0`).  (For `x = -0.0` the sum is `+0.0`, which is `==` but not identical: this is
    why the field is stated for date-time numbers and not for all `x`.)
-/
import SlacProofs.TimeCal
set_option autoImplicit false
namespace Slac.Time
open Stdlib

/-- sign of an integer as an `Ordering` (comparison with 0) -/
def sgnOrd (k : Int) : Ordering := if k < 0 then .lt else if k = 0 then .eq else .gt

class LawfulTimeNum (N : Type) [NumX N] : Prop where
  /-- the core rounding fact: dividing an integer millisecond count by the day length, multiplying back and
      rounding recovers the count -/
  decode_encode_ms : ∀ T : Int, -(281474976710656) ≤ T → T ≤ 281474976710656 →
    NumX.toI64 (NumX.round (NumOps.mul (NumOps.div (NumX.ofInt T : N) dayLen) dayLen)) = T
  ofInt_natCast : ∀ n : Nat, (NumX.ofInt (n : Int) : N) = NumX.ofNat n
  toI32_ofInt : ∀ k : Int, -(2147483648) ≤ k → k < 2147483648 → NumX.toI32 (NumX.ofInt k : N) = k
  toU32_ofNat : ∀ n : Nat, n < 4294967296 → NumX.toU32 (NumX.ofNat n : N) = n
  pcmp_ofInt_zero : ∀ k : Int, -(4294967296) ≤ k → k ≤ 4294967296 →
    NumOps.pcmp (NumX.ofInt k : N) NumOps.zero = some (sgnOrd k)
  zero_eq : (NumOps.zero : N) = NumX.ofNat 0
  one_eq : (NumOps.ofBool true : N) = NumX.ofNat 1
  /-- `date(x) + time(x) = x` on date-time numbers -/
  trunc_add_fract : ∀ T : Int, -(281474976710656) ≤ T → T ≤ 281474976710656 →
    NumOps.add (NumOps.trunc (NumOps.div (NumX.ofInt T : N) dayLen)) (NumX.fract (NumOps.div (NumX.ofInt T : N) dayLen))
      = NumOps.div (NumX.ofInt T : N) dayLen

/-- the date-times whose millisecond count is within the range covered by `decode_encode_ms` -/
def DT.Enc (t : DT) : Prop := t.ms < 86400000 ∧ -(281474976710656) ≤ t.totalMs ∧ t.totalMs ≤ 281474976710656

theorem DT.Enc.days_range {t : DT} (h : t.Enc) : -3257813 ≤ t.days ∧ t.days ≤ 3257812 := by
  obtain ⟨h1, h2, h3⟩ := h
  simp only [DT.totalMs, msPerDay] at h2 h3
  omega

/-- day numbers of this size are far inside chrono's year range -/
theorem year_range_of_days (z : Int) (h1 : -3257813 ≤ z) (h2 : z ≤ 3257812) :
    minYear ≤ (civilFromDays z).1 ∧ (civilFromDays z).1 ≤ maxYear := by
  have hv := civilFromDays_validMD z
  have hr := days_roundtrip z
  have hb := days_bounds _ _ _ hv
  rw [hr] at hb
  constructor
  · refine Decidable.byContradiction fun hlt => ?_
    have hm := (days_year_mono (civilFromDays z).1 (minYear - 1) (by simp only [minYear] at hlt ⊢; omega)).2
    have e : daysFromCivil (minYear - 1) 12 31 < -3257813 := by decide
    omega
  · refine Decidable.byContradiction fun hlt => ?_
    have hm := (days_year_mono (maxYear + 1) (civilFromDays z).1 (by simp only [maxYear] at hlt ⊢; omega)).1
    have e : 3257812 < daysFromCivil (maxYear + 1) 1 1 := by decide
    omega

theorem DT.Enc.year_range {t : DT} (h : t.Enc) : minYear ≤ t.year ∧ t.year ≤ maxYear :=
  year_range_of_days t.days h.days_range.1 h.days_range.2

/-- every date of years 1–9999 with a millisecond time of day is in the covered range -/
theorem enc_of_date (y : Int) (m d ms : Nat) (hv : ValidMD y m d) (hy1 : 1 ≤ y) (hy2 : y ≤ 9999)
    (hms : ms < 86400000) : DT.Enc ⟨daysFromCivil y m d, ms⟩ := by
  have hr := days_range y m d hv hy1 hy2
  refine ⟨hms, ?_, ?_⟩ <;> simp only [DT.totalMs, msPerDay] <;> omega

/-! ### unfolding lemmas (`simp only [decode]` is slow on this definition: use these) -/
section
variable {N : Type} [NumX N]

theorem decode_num (x : N) :
    decode (.num x) = match ofMillis (NumX.toI64 (NumX.round (NumOps.mul x dayLen))) with
      | some t => .ok t
      | none => .error (custom "datetime out of range") := by unfold decode; rfl

theorem component_one (f : DT → N) (v : Value N) :
    component f [v] = match decode v with
      | .ok t => .ok (.num (f t))
      | .error e => .error e := by unfold component; rfl

theorem isLeapYear_one (v : Value N) :
    isLeapYear [v] = match decode v with
      | .ok t => .ok (.bool (isLeap t.year))
      | .error e => .error e := by unfold isLeapYear; rfl
end

variable {N : Type} [NumX N] [LawfulTimeNum N]

/-! ### decode ∘ encode -/

theorem decode_encode (t : DT) (h : t.Enc) : decode (encode t : Value N) = .ok t := by
  have h1 := LawfulTimeNum.decode_encode_ms (N := N) t.totalMs h.2.1 h.2.2
  have h2 : ofMillis t.totalMs = some t := ofMillis_total t.days t.ms h.1 h.year_range
  rw [encode, decode_num, h1, h2]

theorem component_encode (f : DT → N) (t : DT) (h : t.Enc) :
    component f [(encode t : Value N)] = .ok (.num (f t)) := by
  rw [component_one, decode_encode t h]

theorem year_encode (t : DT) (h : t.Enc) : year [(encode t : Value N)] = .ok (.num (NumX.ofInt t.year)) :=
  component_encode _ t h
theorem month_encode (t : DT) (h : t.Enc) : month [(encode t : Value N)] = .ok (.num (NumX.ofNat t.month)) :=
  component_encode _ t h
theorem day_encode (t : DT) (h : t.Enc) : day [(encode t : Value N)] = .ok (.num (NumX.ofNat t.day)) :=
  component_encode _ t h
theorem hour_encode (t : DT) (h : t.Enc) : hour [(encode t : Value N)] = .ok (.num (NumX.ofNat t.hour)) :=
  component_encode _ t h
theorem minute_encode (t : DT) (h : t.Enc) : minute [(encode t : Value N)] = .ok (.num (NumX.ofNat t.minute)) :=
  component_encode _ t h
theorem second_encode (t : DT) (h : t.Enc) : second [(encode t : Value N)] = .ok (.num (NumX.ofNat t.second)) :=
  component_encode _ t h
theorem millisecond_encode (t : DT) (h : t.Enc) :
    millisecond [(encode t : Value N)] = .ok (.num (NumX.ofNat t.milli)) :=
  component_encode _ t h
theorem dayOfWeek_encode (t : DT) (h : t.Enc) :
    dayOfWeek [(encode t : Value N)] = .ok (.num (NumX.ofNat (weekday t.days))) :=
  component_encode _ t h
theorem isLeapYear_encode (t : DT) (h : t.Enc) :
    isLeapYear [(encode t : Value N)] = .ok (.bool (isLeap t.year)) := by
  rw [isLeapYear_one, decode_encode t h]

omit [NumX N] [LawfulTimeNum N] in
/-- time-of-day components of a millisecond count -/
theorem time_components (h mi s ml : Nat) (hh : h < 24) (hmi : mi < 60) (hs : s < 60) (hml : ml < 1000)
    (days : Int) :
    (DT.mk days (((h * 60 + mi) * 60 + s) * 1000 + ml)).hour = h ∧
    (DT.mk days (((h * 60 + mi) * 60 + s) * 1000 + ml)).minute = mi ∧
    (DT.mk days (((h * 60 + mi) * 60 + s) * 1000 + ml)).second = s ∧
    (DT.mk days (((h * 60 + mi) * 60 + s) * 1000 + ml)).milli = ml ∧
    ((h * 60 + mi) * 60 + s) * 1000 + ml < 86400000 := by
  simp only [DT.hour, DT.minute, DT.second, DT.milli]
  omega

/-! ### small casts -/

theorem ge0_ofInt (k : Int) (h1 : -4294967296 ≤ k) (h2 : k ≤ 4294967296) :
    NumX.ge0 (NumX.ofInt k : N) = decide (0 ≤ k) := by
  simp only [NumX.ge0, LawfulTimeNum.pcmp_ofInt_zero k h1 h2, sgnOrd]
  by_cases hk : k < 0
  · simp [hk]
  · by_cases hk0 : k = 0
    · simp [hk0]
    · simp [hk, hk0]; omega

theorem gt0_ofInt (k : Int) (h1 : -4294967296 ≤ k) (h2 : k ≤ 4294967296) :
    NumX.gt0 (NumX.ofInt k : N) = decide (0 < k) := by
  simp only [NumX.gt0, LawfulTimeNum.pcmp_ofInt_zero k h1 h2, sgnOrd]
  by_cases hk : k < 0
  · simp [hk]; omega
  · by_cases hk0 : k = 0
    · simp [hk0]
    · simp [hk, hk0]; omega

theorem lt0_ofInt (k : Int) (h1 : -4294967296 ≤ k) (h2 : k ≤ 4294967296) :
    NumX.lt0 (NumX.ofInt k : N) = decide (k < 0) := by
  simp only [NumX.lt0, LawfulTimeNum.pcmp_ofInt_zero k h1 h2, sgnOrd]
  by_cases hk : k < 0
  · simp [hk]
  · by_cases hk0 : k = 0
    · simp [hk0]
    · simp [hk, hk0]

theorem ge0_ofNat (n : Nat) (h : n < 4294967296) : NumX.ge0 (NumX.ofNat n : N) = true := by
  rw [← LawfulTimeNum.ofInt_natCast n, ge0_ofInt (n : Int) (by omega) (by omega)]
  simp

theorem toI32_ofNat (n : Nat) (h : n < 2147483648) : NumX.toI32 (NumX.ofNat n : N) = (n : Int) := by
  rw [← LawfulTimeNum.ofInt_natCast n, LawfulTimeNum.toI32_ofInt (n : Int) (by omega) (by omega)]

end Slac.Time
