/-
  SlacProofs.TimeStr — printing and parsing with the default formats `%Y-%m-%d`, `%H:%M:%S`,
  `%Y-%m-%d %H:%M:%S`: zero-padded decimal fields; chrono's formatter (SlacModel.TimeFmt) prints the canonical texts
  and chrono's parser (SlacModel.TimeParse) inverts them, agreeing with the reference parsers `parseDate`/`parseTime`.
-/
import SlacProofs.TimeNum
import SlacProofs.TimeRfcScan
set_option autoImplicit false
set_option linter.unusedSimpArgs false
set_option linter.unusedVariables false
namespace Slac.Time
open Stdlib

/-! ### zero-padded decimal numbers -/

theorem digits1 (n : Nat) (h : n < 10) : Nat.toDigits 10 n = [n.digitChar] := Nat.toDigits_of_lt_base h
theorem digits2 (n : Nat) (h1 : 10 ≤ n) (h : n < 100) :
    Nat.toDigits 10 n = [(n / 10).digitChar, (n % 10).digitChar] := by
  rw [Nat.toDigits_of_base_le (by omega) h1, digits1 (n / 10) (by omega)]; rfl
theorem digits3 (n : Nat) (h1 : 100 ≤ n) (h : n < 1000) :
    Nat.toDigits 10 n = [(n / 100).digitChar, (n / 10 % 10).digitChar, (n % 10).digitChar] := by
  rw [Nat.toDigits_of_base_le (by omega) (by omega), digits2 (n / 10) (by omega) (by omega)]
  have : n / 10 / 10 = n / 100 := by omega
  rw [this]; rfl
theorem digits4 (n : Nat) (h1 : 1000 ≤ n) (h : n < 10000) :
    Nat.toDigits 10 n =
      [(n / 1000).digitChar, (n / 100 % 10).digitChar, (n / 10 % 10).digitChar, (n % 10).digitChar] := by
  rw [Nat.toDigits_of_base_le (by omega) (by omega), digits3 (n / 10) (by omega) (by omega)]
  have e1 : n / 10 / 100 = n / 1000 := by omega
  have e2 : n / 10 / 10 % 10 = n / 100 % 10 := by omega
  rw [e1, e2]; rfl

theorem pad2_spec (n : Nat) (h : n < 100) : pad 2 n = [(n / 10).digitChar, (n % 10).digitChar] := by
  by_cases h1 : n < 10
  · have e1 : n / 10 = 0 := by omega
    have e2 : n % 10 = n := by omega
    simp only [pad, digits1 n h1, e1, e2]; rfl
  · simp only [pad, digits2 n (by omega) h]; rfl

theorem pad3_spec (n : Nat) (h : n < 1000) :
    pad 3 n = [(n / 100).digitChar, (n / 10 % 10).digitChar, (n % 10).digitChar] := by
  by_cases h1 : n < 10
  · have e1 : n / 100 = 0 := by omega
    have e2 : n / 10 % 10 = 0 := by omega
    have e3 : n % 10 = n := by omega
    simp only [pad, digits1 n h1, e1, e2, e3]; rfl
  · by_cases h2 : n < 100
    · have e1 : n / 100 = 0 := by omega
      have e2 : n / 10 % 10 = n / 10 := by omega
      simp only [pad, digits2 n (by omega) h2, e1, e2]; rfl
    · simp only [pad, digits3 n (by omega) h]; rfl

theorem pad4_spec (n : Nat) (h : n < 10000) :
    pad 4 n = [(n / 1000).digitChar, (n / 100 % 10).digitChar, (n / 10 % 10).digitChar, (n % 10).digitChar] := by
  by_cases h1 : n < 10
  · have e0 : n / 1000 = 0 := by omega
    have e1 : n / 100 % 10 = 0 := by omega
    have e2 : n / 10 % 10 = 0 := by omega
    have e3 : n % 10 = n := by omega
    simp only [pad, digits1 n h1, e0, e1, e2, e3]; rfl
  · by_cases h2 : n < 100
    · have e0 : n / 1000 = 0 := by omega
      have e1 : n / 100 % 10 = 0 := by omega
      have e2 : n / 10 % 10 = n / 10 := by omega
      simp only [pad, digits2 n (by omega) h2, e0, e1, e2]; rfl
    · by_cases h3 : n < 1000
      · have e0 : n / 1000 = 0 := by omega
        have e1 : n / 100 % 10 = n / 100 := by omega
        simp only [pad, digits3 n (by omega) h3, e0, e1]; rfl
      · simp only [pad, digits4 n (by omega) h]; rfl

theorem digit_digitChar : ∀ k, k < 10 → digit? k.digitChar = some k := by decide
theorem num2_digitChar (a b : Nat) (ha : a < 10) (hb : b < 10) :
    num2 a.digitChar b.digitChar = some (a * 10 + b) := by
  simp [num2, digit_digitChar a ha, digit_digitChar b hb]
theorem num2_pad (n : Nat) (h : n < 100) : num2 (n / 10).digitChar (n % 10).digitChar = some n := by
  rw [num2_digitChar _ _ (by omega) (by omega)]; congr 1; omega
theorem num4_pad (n : Nat) (h : n < 10000) :
    num4 (n / 1000).digitChar (n / 100 % 10).digitChar (n / 10 % 10).digitChar (n % 10).digitChar = some n := by
  simp only [num4, num2_digitChar (n / 1000) (n / 100 % 10) (by omega) (by omega),
    num2_digitChar (n / 10 % 10) (n % 10) (by omega) (by omega)]
  show some _ = some n
  congr 1; omega

/-! ### canonical texts -/

/-- `YYYY-MM-DD` -/
def dateText (y : Int) (m d : Nat) : Str := fmtYear y ++ '-' :: (pad 2 m ++ '-' :: pad 2 d)
/-- `HH:MM:SS` -/
def timeText (h mi s : Nat) : Str := pad 2 h ++ ':' :: (pad 2 mi ++ ':' :: pad 2 s)
/-- `YYYY-MM-DD HH:MM:SS` -/
def datetimeText (y : Int) (m d h mi s : Nat) : Str := dateText y m d ++ ' ' :: timeText h mi s

theorem fmtYear_small (y : Int) (h0 : 0 ≤ y) (h1 : y ≤ 9999) : fmtYear y = pad 4 y.toNat := by
  simp [fmtYear, h0, h1]

theorem dateText_chars (y : Int) (m d : Nat) (h0 : 0 ≤ y) (h1 : y ≤ 9999) (hm : m < 100) (hd : d < 100) :
    dateText y m d =
      [(y.toNat / 1000).digitChar, (y.toNat / 100 % 10).digitChar, (y.toNat / 10 % 10).digitChar,
       (y.toNat % 10).digitChar, '-', (m / 10).digitChar, (m % 10).digitChar, '-',
       (d / 10).digitChar, (d % 10).digitChar] := by
  rw [dateText, fmtYear_small y h0 h1, pad4_spec _ (by omega), pad2_spec m hm, pad2_spec d hd]; rfl

theorem timeText_chars (h mi s : Nat) (hh : h < 100) (hmi : mi < 100) (hs : s < 100) :
    timeText h mi s =
      [(h / 10).digitChar, (h % 10).digitChar, ':', (mi / 10).digitChar, (mi % 10).digitChar, ':',
       (s / 10).digitChar, (s % 10).digitChar] := by
  rw [timeText, pad2_spec h hh, pad2_spec mi hmi, pad2_spec s hs]; rfl

/-! ### parsing the canonical texts -/

theorem parseDate_shape (y1 y2 y3 y4 m1 m2 d1 d2 : Char) :
    parseDate [y1, y2, y3, y4, '-', m1, m2, '-', d1, d2] =
      match num4 y1 y2 y3 y4, num2 m1 m2, num2 d1 d2 with
      | some y, some m, some d => some (if validDate y m d then some ((y : Int), m, d) else none)
      | _, _, _ => none := by unfold parseDate; rfl

theorem parseTime_shape (h1 h2 m1 m2 s1 s2 : Char) :
    parseTime [h1, h2, ':', m1, m2, ':', s1, s2] =
      match num2 h1 h2, num2 m1 m2, num2 s1 s2 with
      | some h, some m, some s =>
          some (if h < 24 && m < 60 && s < 60 then some ((h * 3600 + m * 60 + s) * 1000) else none)
      | _, _, _ => none := by unfold parseTime; rfl

theorem parseDate_dateText (y : Int) (m d : Nat) (h0 : 0 ≤ y) (h1 : y ≤ 9999) (hm : m < 100) (hd : d < 100) :
    parseDate (dateText y m d) = some (if validDate y m d then some (y, m, d) else none) := by
  rw [dateText_chars y m d h0 h1 hm hd, parseDate_shape, num4_pad _ (by omega), num2_pad m hm, num2_pad d hd]
  have : ((y.toNat : Nat) : Int) = y := by omega
  simp only [this]

theorem parseTime_timeText (h mi s : Nat) (hh : h < 100) (hmi : mi < 100) (hs : s < 100) :
    parseTime (timeText h mi s) =
      some (if h < 24 && mi < 60 && s < 60 then some ((h * 3600 + mi * 60 + s) * 1000) else none) := by
  rw [timeText_chars h mi s hh hmi hs, parseTime_shape, num2_pad h hh, num2_pad mi hmi, num2_pad s hs]

/-! ### printing with the default formats -/

theorem writeTwo_zero (v : Nat) : writeTwo v .zero = pad 2 v := by
  unfold writeTwo pad
  by_cases h : v < 10
  · simp [h, Nat.toDigits_of_lt_base h]
  · have : 2 ≤ (Nat.toDigits 10 v).length := by
      rw [Nat.toDigits_of_base_le (by omega) (by omega)]
      have := @Nat.length_toDigits_pos 10 (v / 10)
      simp; omega
    simp [h]
    omega

theorem writeYear_zero (y : Int) : writeYear y .zero = fmtYear y := by
  unfold writeYear fmtYear
  by_cases h1 : 1000 ≤ y ∧ y ≤ 9999
  · have : 0 ≤ y ∧ y ≤ 9999 := by omega
    simp [h1, this]
  · by_cases h2 : 0 ≤ y ∧ y < 10000
    · have h3 : 0 ≤ y ∧ y ≤ 9999 := by omega
      have h4 : ¬ y < 0 := by omega
      have h5 : y.natAbs = y.toNat := by omega
      simp [h1, h2, h3, fmtInt, h4, pad, h5]
    · have h3 : ¬ (0 ≤ y ∧ y ≤ 9999) := by omega
      by_cases h4 : y < 0
      · simp [h1, h2, h3, fmtInt, h4, pad]; omega
      · have h5 : y.natAbs = y.toNat := by omega
        simp [h1, h2, h3, fmtInt, h4, pad, h5]; omega

theorem items_fmtDate : items fmtDate = [num0 .year, .literal ['-'], num0 .month, .literal ['-'], num0 .day] := by decide
theorem items_fmtTime : items fmtTime = [num0 .hour, .literal [':'], num0 .minute, .literal [':'], num0 .second] := by decide
theorem items_fmtDatetime : items fmtDatetime =
    [num0 .year, .literal ['-'], num0 .month, .literal ['-'], num0 .day, .space [' '],
     num0 .hour, .literal [':'], num0 .minute, .literal [':'], num0 .second] := by decide

theorem strftime_date (t : DT) : strftime t fmtDate = some (dateText t.year t.month t.day) := by
  simp [strftime, items_fmtDate, formatItems, fmtItem, fmtNumeric, num0, writeTwo_zero, writeYear_zero, dateText]

theorem strftime_time (t : DT) : strftime t fmtTime = some (timeText t.hour t.minute t.second) := by
  simp [strftime, items_fmtTime, formatItems, fmtItem, fmtNumeric, num0, writeTwo_zero, timeText]

theorem strftime_datetime (t : DT) :
    strftime t fmtDatetime = some (datetimeText t.year t.month t.day t.hour t.minute t.second) := by
  simp [strftime, items_fmtDatetime, formatItems, fmtItem, fmtNumeric, num0, writeTwo_zero, writeYear_zero,
    datetimeText, dateText, timeText]

/-! ### chrono's parser on the canonical texts -/

/-- fields after parsing `YYYY-MM-DD` (followed by anything) with the items of `%Y-%m-%d` -/
theorem parse_date_chars (y m d : Nat) (hy : y < 10000) (hm : m < 100) (hd : d < 100) (r : Str) (its : List Item) :
    parseItems (num0 .year :: .literal ['-'] :: num0 .month :: .literal ['-'] :: num0 .day :: its)
      ((y / 1000).digitChar :: (y / 100 % 10).digitChar :: (y / 10 % 10).digitChar :: (y % 10).digitChar :: '-' ::
       (m / 10).digitChar :: (m % 10).digitChar :: '-' :: (d / 10).digitChar :: (d % 10).digitChar :: r) {} =
      if (1 ≤ m ∧ m ≤ 12) ∧ (1 ≤ d ∧ d ≤ 31) then
        parseItems its r { year := some (y : Int), month := some m, day := some d }
      else .error .outOfRange := by
  rw [parseItems_ok (by rw [num0, item_year4 _ y hy, setYear_small _ rfl y hy]; rfl), parseItems_ok (item_lit _ _ _)]
  by_cases h1 : 1 ≤ m ∧ m ≤ 12
  · rw [parseItems_ok (by rw [num0, item_num2 .month _ rfl rfl m hm, setNumeric, setMonth_eval _ rfl, if_pos h1]; rfl),
      parseItems_ok (item_lit _ _ _)]
    by_cases h2 : 1 ≤ d ∧ d ≤ 31
    · rw [parseItems_ok (by rw [num0, item_num2 .day _ rfl rfl d hd, setNumeric, setDay_eval _ rfl, if_pos h2]; rfl)]
      simp [h1, h2]
    · rw [parseItems_err (by rw [num0, item_num2 .day _ rfl rfl d hd, setNumeric, setDay_eval _ rfl, if_neg h2]; rfl)]
      simp [h2]
  · rw [parseItems_err (by rw [num0, item_num2 .month _ rfl rfl m hm, setNumeric, setMonth_eval _ rfl, if_neg h1]; rfl)]
    simp [h1]

/-- fields after parsing `HH:MM:SS` (followed by anything) with the items of `%H:%M:%S`, on top of date fields -/
theorem parse_time_chars' (h mi s : Nat) (hh : h < 100) (hmi : mi < 100) (hs : s < 100) (oy : Option Int) (om od : Option Nat)
    (r : Str) (its : List Item) :
    parseItems (num0 .hour :: .literal [':'] :: num0 .minute :: .literal [':'] :: num0 .second :: its)
      ((h / 10).digitChar :: (h % 10).digitChar :: ':' :: (mi / 10).digitChar :: (mi % 10).digitChar :: ':' ::
       (s / 10).digitChar :: (s % 10).digitChar :: r) { year := oy, month := om, day := od } =
      if h < 24 ∧ mi < 60 ∧ s ≤ 60 then
        parseItems its r { year := oy, month := om, day := od, hourDiv12 := some (h / 12), hourMod12 := some (h % 12), minute := some mi, second := some s }
      else .error .outOfRange := by
  by_cases h1 : h < 24
  · rw [parseItems_ok (by rw [num0, item_num2 .hour _ rfl rfl h hh, setNumeric, setHour_eval _ rfl rfl, if_pos h1]; rfl),
      parseItems_ok (item_lit _ _ _)]
    by_cases h2 : mi < 60
    · rw [parseItems_ok (by rw [num0, item_num2 .minute _ rfl rfl mi hmi, setNumeric, setMinute_eval _ rfl, if_pos h2]; rfl),
        parseItems_ok (item_lit _ _ _)]
      by_cases h3 : s ≤ 60
      · rw [parseItems_ok (by rw [num0, item_num2 .second _ rfl rfl s hs, setNumeric, setSecond_eval _ rfl, if_pos h3]; rfl)]
        simp [h1, h2, h3]
      · rw [parseItems_err (by rw [num0, item_num2 .second _ rfl rfl s hs, setNumeric, setSecond_eval _ rfl, if_neg h3]; rfl)]
        simp [h3]
    · rw [parseItems_err (by rw [num0, item_num2 .minute _ rfl rfl mi hmi, setNumeric, setMinute_eval _ rfl, if_neg h2]; rfl)]
      simp [h2]
  · rw [parseItems_err (by rw [num0, item_num2 .hour _ rfl rfl h hh, setNumeric, setHour_eval _ rfl rfl, if_neg h1]; rfl)]
    simp [h1]

theorem parse_time_chars (h mi s : Nat) (hh : h < 100) (hmi : mi < 100) (hs : s < 100) (oy : Option Int) (om od : Option Nat) :
    parseItems [num0 .hour, .literal [':'], num0 .minute, .literal [':'], num0 .second]
      [(h / 10).digitChar, (h % 10).digitChar, ':', (mi / 10).digitChar, (mi % 10).digitChar, ':',
       (s / 10).digitChar, (s % 10).digitChar] { year := oy, month := om, day := od } =
      if h < 24 ∧ mi < 60 ∧ s ≤ 60 then
        .ok ([], { year := oy, month := om, day := od, hourDiv12 := some (h / 12), hourMod12 := some (h % 12),
                   minute := some mi, second := some s })
      else .error .outOfRange := by
  rw [parse_time_chars' h mi s hh hmi hs oy om od [] []]
  simp [parseItems]

theorem validDate_bounds {y : Int} {m d : Nat} (hv : validDate y m d = true) : (1 ≤ m ∧ m ≤ 12) ∧ (1 ≤ d ∧ d ≤ 31) := by
  obtain ⟨_, hm1, hm12, hd1, hd⟩ := (validDate_iff y m d).1 hv
  rcases daysInMonth_cases y m hm1 hm12 with ⟨_, e⟩ | ⟨_, e⟩ | ⟨_, _, e⟩ | ⟨_, _, e⟩ <;> omega

/-! ### the builtins -/
section
variable {N : Type} [NumX N]

theorem encode_eq (t : DT) : (encode t : Value N) = encodeMs t.totalMs := rfl

theorem dateToString_str (fmt : Str) (v : Value N) :
    dateToString [.str fmt, v] =
      match decode v with
      | .error e => some (.error e)
      | .ok t => some (fmtResult (strftime t fmt)) := by unfold dateToString; rfl

/-- `string_to_date` on the canonical text of a date: its day number, or "out of range" if the date does not exist -/
theorem stringToDate_dateText (y : Int) (m d : Nat) (h0 : 0 ≤ y) (h1 : y ≤ 9999) (hm : m < 100) (hd : d < 100) :
    stringToDate [(.str (dateText y m d) : Value N)] =
      if validDate y m d then some (.ok (encode ⟨daysFromCivil y m d, 0⟩))
      else some (.error (custom "input is out of range")) := by
  have hy : ((y.toNat : Nat) : Int) = y := by omega
  have hp := parse_date_chars y.toNat m d (by omega) hm hd [] []
  rw [dateText_chars y m d h0 h1 hm hd]
  simp only [stringToDate, defaultString, List.getElem?_cons_succ, List.getElem?_nil, parseAll, items_fmtDate]
  rw [hp, hy]
  by_cases hv : validDate y m d = true
  · have hb := validDate_bounds hv
    simp [hb, parseItems, toNaiveDate_ymd y m d none, hv, optEqOr, finish, encode, encodeMs, DT.totalMs,
      dateOverflow_isoWeek_none, Except.map]
  · by_cases hb : (1 ≤ m ∧ m ≤ 12) ∧ (1 ≤ d ∧ d ≤ 31)
    · simp [hb, parseItems, toNaiveDate_ymd y m d none, hv, finish, PErr.msg, dateOverflow_isoWeek_none, Except.map]
    · simp [hb, hv, PErr.msg]

theorem stringToTime_timeText (h mi s : Nat) (hh : h < 100) (hmi : mi < 100) (hs : s < 100) :
    stringToTime [(.str (timeText h mi s) : Value N)] =
      if h < 24 ∧ mi < 60 ∧ s < 60 then some (.ok (encode ⟨0, (h * 3600 + mi * 60 + s) * 1000⟩))
      else some (.error (custom "input is out of range")) := by
  have hp := parse_time_chars h mi s hh hmi hs none none none
  rw [timeText_chars h mi s hh hmi hs]
  simp only [stringToTime, defaultString, List.getElem?_cons_succ, List.getElem?_nil, parseAll, items_fmtTime]
  rw [hp]
  by_cases hv : h < 24 ∧ mi < 60 ∧ s ≤ 60
  · rw [if_pos hv]
    have ht := toNaiveTime_hms
      ({ hourDiv12 := some (h / 12), hourMod12 := some (h % 12), minute := some mi, second := some s } : Parsed)
      h mi s none rfl rfl rfl rfl rfl
    simp only [bind, Except.bind, ht]
    by_cases h60 : s = 60
    · have : ¬ (h < 24 ∧ mi < 60 ∧ s < 60) := by omega
      simp [rejectLeap, h60, finish, PErr.msg, this]
    · have h3 : h < 24 ∧ mi < 60 ∧ s < 60 := by omega
      have h4 : min s 59 = s := by omega
      simp [rejectLeap, h60, finish, h3, h4, pure, Except.pure, NDT.millis, NDT.timestamp, encode, encodeMs, DT.totalMs, msPerDay]
  · have : ¬ (h < 24 ∧ mi < 60 ∧ s < 60) := by omega
    simp [hv, this, bind, Except.bind, finish, PErr.msg]

theorem datetimeText_chars (y : Int) (m d h mi s : Nat) (h0 : 0 ≤ y) (h1 : y ≤ 9999) (hm : m < 100) (hd : d < 100)
    (hh : h < 100) (hmi : mi < 100) (hs : s < 100) :
    datetimeText y m d h mi s =
      (y.toNat / 1000).digitChar :: (y.toNat / 100 % 10).digitChar :: (y.toNat / 10 % 10).digitChar ::
       (y.toNat % 10).digitChar :: '-' :: (m / 10).digitChar :: (m % 10).digitChar :: '-' ::
       (d / 10).digitChar :: (d % 10).digitChar :: ' ' ::
       [(h / 10).digitChar, (h % 10).digitChar, ':', (mi / 10).digitChar, (mi % 10).digitChar, ':',
        (s / 10).digitChar, (s % 10).digitChar] := by
  rw [datetimeText, dateText_chars y m d h0 h1 hm hd, timeText_chars h mi s hh hmi hs]; rfl

theorem stringToDatetime_datetimeText (y : Int) (m d h mi s : Nat) (h0 : 0 ≤ y) (h1 : y ≤ 9999)
    (hv : validDate y m d = true) (hh : h < 24) (hmi : mi < 60) (hs : s < 60) :
    stringToDatetime [(.str (datetimeText y m d h mi s) : Value N)] =
      some (.ok (encode ⟨daysFromCivil y m d, (h * 3600 + mi * 60 + s) * 1000⟩)) := by
  have hb := validDate_bounds hv
  have hy : ((y.toNat : Nat) : Int) = y := by omega
  rw [datetimeText_chars y m d h mi s h0 h1 (by omega) (by omega) (by omega) (by omega) (by omega)]
  simp only [stringToDatetime, defaultString, List.getElem?_cons_succ, List.getElem?_nil, parseAll, items_fmtDatetime]
  rw [parse_date_chars y.toNat m d (by omega) (by omega) (by omega), if_pos hb,
    parseItems_ok (item_space_dc _ _ (by omega) _ _),
    parse_time_chars h mi s (by omega) (by omega) (by omega) (some ((y.toNat : Nat) : Int)) (some m) (some d), if_pos ⟨hh, hmi, by omega⟩, hy]
  have ht := toNaiveTime_hms
    ({ year := some y, month := some m, day := some d, hourDiv12 := some (h / 12), hourMod12 := some (h % 12),
       minute := some mi, second := some s } : Parsed) h mi s none rfl rfl rfl rfl rfl
  have hdte := toNaiveDate_ymd_of
    ({ year := some y, month := some m, day := some d, hourDiv12 := some (h / 12), hourMod12 := some (h % 12),
       minute := some mi, second := some s } : Parsed) y m d none rfl rfl rfl rfl rfl rfl rfl rfl rfl rfl rfl rfl rfl
  rw [if_pos hv] at hdte
  have h60 : ¬ s = 60 := by omega
  have h4 : min s 59 = s := by omega
  simp only [parseItems, datetimeOverflow_ok _ 0 rfl _ _ hdte ht, Bool.false_eq_true, if_false, bind, Except.bind,
    Parsed.toNaiveDatetime, hdte, ht, optEqOr, if_true]
  simp [rejectLeap, h60, h4, finish, pure, Except.pure, NDT.millis, NDT.timestamp, encode, encodeMs, DT.totalMs, msPerDay]
  congr 2; omega

end

variable {N : Type} [NumX N] [LawfulTimeNum N]

theorem dateToString_encode (fmt : Str) (t : DT) (h : t.Enc) :
    dateToString [.str fmt, (encode t : Value N)] =
      some (fmtResult (strftime t fmt)) := by
  rw [dateToString_str, decode_encode t h]

end Slac.Time
