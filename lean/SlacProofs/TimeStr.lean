/-
  SlacProofs.TimeStr — printing and parsing with the default formats `%Y-%m-%d`, `%H:%M:%S`,
  `%Y-%m-%d %H:%M:%S`: zero-padded decimal fields, and the canonical-text parsers invert them.
-/
import SlacProofs.TimeNum
set_option autoImplicit false
namespace Slac.Time
open Stdlib

/-! ### zero-padded decimal numbers -/

theorem digits1 (n : Nat) (h : n < 10) : Nat.toDigits 10 n = [n.digitChar] := Nat.toDigits_of_lt_base h
theorem digits2 (n : Nat) (h1 : 10 ≤ n) (h : n < 100) :
    Nat.toDigits 10 n = [(n / 10).digitChar, (n % 10).digitChar] := by
  rw [Nat.toDigits_of_base_le (by omega) h1, digits1 (n / 10) (by omega)]; rfl
theorem digits3 (n : Nat) (h1 : 100 ≤ n) (h : n < 1000) :
    Nat.toDigits 10 n = [(n / 100).digitChar, (n / 10 % 10).digitChar, (n % 10).digitChar] := by
  rw [Nat.toDigits_of_base_le (by omega) (by omega), digits2 (n / 10) (by omega) (by omega)]
  have : n / 10 / 10 = n / 100 := by omega
  rw [this]; rfl
theorem digits4 (n : Nat) (h1 : 1000 ≤ n) (h : n < 10000) :
    Nat.toDigits 10 n =
      [(n / 1000).digitChar, (n / 100 % 10).digitChar, (n / 10 % 10).digitChar, (n % 10).digitChar] := by
  rw [Nat.toDigits_of_base_le (by omega) (by omega), digits3 (n / 10) (by omega) (by omega)]
  have e1 : n / 10 / 100 = n / 1000 := by omega
  have e2 : n / 10 / 10 % 10 = n / 100 % 10 := by omega
  rw [e1, e2]; rfl

theorem pad2_spec (n : Nat) (h : n < 100) : pad 2 n = [(n / 10).digitChar, (n % 10).digitChar] := by
  by_cases h1 : n < 10
  · have e1 : n / 10 = 0 := by omega
    have e2 : n % 10 = n := by omega
    simp only [pad, digits1 n h1, e1, e2]; rfl
  · simp only [pad, digits2 n (by omega) h]; rfl

theorem pad3_spec (n : Nat) (h : n < 1000) :
    pad 3 n = [(n / 100).digitChar, (n / 10 % 10).digitChar, (n % 10).digitChar] := by
  by_cases h1 : n < 10
  · have e1 : n / 100 = 0 := by omega
    have e2 : n / 10 % 10 = 0 := by omega
    have e3 : n % 10 = n := by omega
    simp only [pad, digits1 n h1, e1, e2, e3]; rfl
  · by_cases h2 : n < 100
    · have e1 : n / 100 = 0 := by omega
      have e2 : n / 10 % 10 = n / 10 := by omega
      simp only [pad, digits2 n (by omega) h2, e1, e2]; rfl
    · simp only [pad, digits3 n (by omega) h]; rfl

theorem pad4_spec (n : Nat) (h : n < 10000) :
    pad 4 n = [(n / 1000).digitChar, (n / 100 % 10).digitChar, (n / 10 % 10).digitChar, (n % 10).digitChar] := by
  by_cases h1 : n < 10
  · have e0 : n / 1000 = 0 := by omega
    have e1 : n / 100 % 10 = 0 := by omega
    have e2 : n / 10 % 10 = 0 := by omega
    have e3 : n % 10 = n := by omega
    simp only [pad, digits1 n h1, e0, e1, e2, e3]; rfl
  · by_cases h2 : n < 100
    · have e0 : n / 1000 = 0 := by omega
      have e1 : n / 100 % 10 = 0 := by omega
      have e2 : n / 10 % 10 = n / 10 := by omega
      simp only [pad, digits2 n (by omega) h2, e0, e1, e2]; rfl
    · by_cases h3 : n < 1000
      · have e0 : n / 1000 = 0 := by omega
        have e1 : n / 100 % 10 = n / 100 := by omega
        simp only [pad, digits3 n (by omega) h3, e0, e1]; rfl
      · simp only [pad, digits4 n (by omega) h]; rfl

theorem digit_digitChar : ∀ k, k < 10 → digit? k.digitChar = some k := by decide
theorem num2_digitChar (a b : Nat) (ha : a < 10) (hb : b < 10) :
    num2 a.digitChar b.digitChar = some (a * 10 + b) := by
  simp [num2, digit_digitChar a ha, digit_digitChar b hb]
theorem num2_pad (n : Nat) (h : n < 100) : num2 (n / 10).digitChar (n % 10).digitChar = some n := by
  rw [num2_digitChar _ _ (by omega) (by omega)]; congr 1; omega
theorem num4_pad (n : Nat) (h : n < 10000) :
    num4 (n / 1000).digitChar (n / 100 % 10).digitChar (n / 10 % 10).digitChar (n % 10).digitChar = some n := by
  simp only [num4, num2_digitChar (n / 1000) (n / 100 % 10) (by omega) (by omega),
    num2_digitChar (n / 10 % 10) (n % 10) (by omega) (by omega)]
  show some _ = some n
  congr 1; omega

/-! ### canonical texts -/

/-- `YYYY-MM-DD` -/
def dateText (y : Int) (m d : Nat) : Str := fmtYear y ++ '-' :: (pad 2 m ++ '-' :: pad 2 d)
/-- `HH:MM:SS` -/
def timeText (h mi s : Nat) : Str := pad 2 h ++ ':' :: (pad 2 mi ++ ':' :: pad 2 s)
/-- `YYYY-MM-DD HH:MM:SS` -/
def datetimeText (y : Int) (m d h mi s : Nat) : Str := dateText y m d ++ ' ' :: timeText h mi s

def fmtDate : Str := ['%', 'Y', '-', '%', 'm', '-', '%', 'd']
def fmtTime : Str := ['%', 'H', ':', '%', 'M', ':', '%', 'S']
def fmtDatetime : Str := fmtDate ++ ' ' :: fmtTime

theorem fmtYear_small (y : Int) (h0 : 0 ≤ y) (h1 : y ≤ 9999) : fmtYear y = pad 4 y.toNat := by
  simp [fmtYear, h0, h1]

theorem dateText_chars (y : Int) (m d : Nat) (h0 : 0 ≤ y) (h1 : y ≤ 9999) (hm : m < 100) (hd : d < 100) :
    dateText y m d =
      [(y.toNat / 1000).digitChar, (y.toNat / 100 % 10).digitChar, (y.toNat / 10 % 10).digitChar,
       (y.toNat % 10).digitChar, '-', (m / 10).digitChar, (m % 10).digitChar, '-',
       (d / 10).digitChar, (d % 10).digitChar] := by
  rw [dateText, fmtYear_small y h0 h1, pad4_spec _ (by omega), pad2_spec m hm, pad2_spec d hd]; rfl

theorem timeText_chars (h mi s : Nat) (hh : h < 100) (hmi : mi < 100) (hs : s < 100) :
    timeText h mi s =
      [(h / 10).digitChar, (h % 10).digitChar, ':', (mi / 10).digitChar, (mi % 10).digitChar, ':',
       (s / 10).digitChar, (s % 10).digitChar] := by
  rw [timeText, pad2_spec h hh, pad2_spec mi hmi, pad2_spec s hs]; rfl

/-! ### parsing the canonical texts -/

theorem parseDate_shape (y1 y2 y3 y4 m1 m2 d1 d2 : Char) :
    parseDate [y1, y2, y3, y4, '-', m1, m2, '-', d1, d2] =
      match num4 y1 y2 y3 y4, num2 m1 m2, num2 d1 d2 with
      | some y, some m, some d => some (if validDate y m d then some ((y : Int), m, d) else none)
      | _, _, _ => none := by unfold parseDate; rfl

theorem parseTime_shape (h1 h2 m1 m2 s1 s2 : Char) :
    parseTime [h1, h2, ':', m1, m2, ':', s1, s2] =
      match num2 h1 h2, num2 m1 m2, num2 s1 s2 with
      | some h, some m, some s =>
          some (if h < 24 && m < 60 && s < 60 then some ((h * 3600 + m * 60 + s) * 1000) else none)
      | _, _, _ => none := by unfold parseTime; rfl

theorem parseDate_dateText (y : Int) (m d : Nat) (h0 : 0 ≤ y) (h1 : y ≤ 9999) (hm : m < 100) (hd : d < 100) :
    parseDate (dateText y m d) = some (if validDate y m d then some (y, m, d) else none) := by
  rw [dateText_chars y m d h0 h1 hm hd, parseDate_shape, num4_pad _ (by omega), num2_pad m hm, num2_pad d hd]
  have : ((y.toNat : Nat) : Int) = y := by omega
  simp only [this]

theorem parseTime_timeText (h mi s : Nat) (hh : h < 100) (hmi : mi < 100) (hs : s < 100) :
    parseTime (timeText h mi s) =
      some (if h < 24 && mi < 60 && s < 60 then some ((h * 3600 + mi * 60 + s) * 1000) else none) := by
  rw [timeText_chars h mi s hh hmi hs, parseTime_shape, num2_pad h hh, num2_pad mi hmi, num2_pad s hs]

/-! ### printing with the default formats -/

theorem strftime_date (t : DT) : strftime t fmtDate = some (dateText t.year t.month t.day) := by
  simp [strftime, fmtDate, dateText]

theorem strftime_time (t : DT) : strftime t fmtTime = some (timeText t.hour t.minute t.second) := by
  simp [strftime, fmtTime, timeText]

theorem strftime_datetime (t : DT) :
    strftime t fmtDatetime = some (datetimeText t.year t.month t.day t.hour t.minute t.second) := by
  simp [strftime, fmtDatetime, fmtDate, fmtTime, datetimeText, dateText, timeText]

/-! ### the builtins -/
section
variable {N : Type} [NumX N]

theorem stringToDate_str (s : Str) :
    stringToDate [(.str s : Value N)] =
      match parseDate s with
      | some (some (y, m, d)) => some (.ok (encode ⟨daysFromCivil y m d, 0⟩))
      | some none => some (.error (custom "input is out of range"))
      | none => none := by unfold stringToDate; rfl

theorem stringToTime_str (s : Str) :
    stringToTime [(.str s : Value N)] =
      match parseTime s with
      | some (some ms) => some (.ok (encode ⟨0, ms⟩))
      | some none => some (.error (custom "input is out of range"))
      | none => none := by unfold stringToTime; rfl

theorem stringToDatetime_str (s : Str) :
    stringToDatetime [(.str s : Value N)] =
      if s.length == 19 && s[10]? == some ' ' then
        match parseDate (s.take 10), parseTime (s.drop 11) with
        | some (some (y, m, d)), some (some ms) => some (.ok (encode ⟨daysFromCivil y m d, ms⟩))
        | some _, some _ => some (.error (custom "input is out of range"))
        | _, _ => none
      else none := by unfold stringToDatetime; rfl

theorem dateToString_str (fmt : Str) (v : Value N) :
    dateToString [.str fmt, v] =
      match decode v with
      | .error e => some (.error e)
      | .ok t => (strftime t fmt).map fun s => .ok (.str s) := by unfold dateToString; rfl

/-- `string_to_date` on the canonical text of a date: its day number, or "out of range" if the date does not exist -/
theorem stringToDate_dateText (y : Int) (m d : Nat) (h0 : 0 ≤ y) (h1 : y ≤ 9999) (hm : m < 100) (hd : d < 100) :
    stringToDate [(.str (dateText y m d) : Value N)] =
      if validDate y m d then some (.ok (encode ⟨daysFromCivil y m d, 0⟩))
      else some (.error (custom "input is out of range")) := by
  rw [stringToDate_str, parseDate_dateText y m d h0 h1 hm hd]
  by_cases hv : validDate y m d = true
  · simp only [hv, if_true]
  · simp only [hv, if_false, Bool.false_eq_true]

theorem stringToTime_timeText (h mi s : Nat) (hh : h < 100) (hmi : mi < 100) (hs : s < 100) :
    stringToTime [(.str (timeText h mi s) : Value N)] =
      if h < 24 ∧ mi < 60 ∧ s < 60 then some (.ok (encode ⟨0, (h * 3600 + mi * 60 + s) * 1000⟩))
      else some (.error (custom "input is out of range")) := by
  rw [stringToTime_str, parseTime_timeText h mi s hh hmi hs]
  by_cases hv : h < 24 ∧ mi < 60 ∧ s < 60
  · have : (decide (h < 24) && decide (mi < 60) && decide (s < 60)) = true := by simp [hv.1, hv.2.1, hv.2.2]
    simp only [this, if_true, if_pos hv]
  · have : (decide (h < 24) && decide (mi < 60) && decide (s < 60)) = false := by
      simp only [Bool.and_eq_false_iff, decide_eq_false_iff_not]; omega
    simp only [this, if_neg hv, Bool.false_eq_true, if_false]

theorem datetimeText_split (y : Int) (m d h mi s : Nat) (h0 : 0 ≤ y) (h1 : y ≤ 9999) (hm : m < 100) (hd : d < 100)
    (hh : h < 100) (hmi : mi < 100) (hs : s < 100) :
    (datetimeText y m d h mi s).length = 19 ∧ (datetimeText y m d h mi s)[10]? = some ' ' ∧
    (datetimeText y m d h mi s).take 10 = dateText y m d ∧ (datetimeText y m d h mi s).drop 11 = timeText h mi s := by
  rw [datetimeText, dateText_chars y m d h0 h1 hm hd, timeText_chars h mi s hh hmi hs]
  simp

theorem stringToDatetime_datetimeText (y : Int) (m d h mi s : Nat) (h0 : 0 ≤ y) (h1 : y ≤ 9999)
    (hv : validDate y m d = true) (hh : h < 24) (hmi : mi < 60) (hs : s < 60) :
    stringToDatetime [(.str (datetimeText y m d h mi s) : Value N)] =
      some (.ok (encode ⟨daysFromCivil y m d, (h * 3600 + mi * 60 + s) * 1000⟩)) := by
  have hmd := ((validDate_iff y m d).1 hv).2
  have hdm : d ≤ 31 := by
    rcases daysInMonth_cases y m hmd.1 hmd.2.1 with ⟨_, e⟩ | ⟨_, e⟩ | ⟨_, _, e⟩ | ⟨_, _, e⟩ <;>
      have := hmd.2.2.2 <;> omega
  have hm : m < 100 := by have := hmd.2.1; omega
  obtain ⟨e1, e2, e3, e4⟩ := datetimeText_split y m d h mi s h0 h1 hm (by omega) (by omega) (by omega) (by omega)
  rw [stringToDatetime_str, e1, e2, e3, e4, parseDate_dateText y m d h0 h1 hm (by omega),
    parseTime_timeText h mi s (by omega) (by omega) (by omega)]
  have : (decide (h < 24) && decide (mi < 60) && decide (s < 60)) = true := by simp [hh, hmi, hs]
  simp only [hv, this, if_true, beq_self_eq_true, Bool.and_self]

end

variable {N : Type} [NumX N] [LawfulTimeNum N]

theorem dateToString_encode (fmt : Str) (t : DT) (h : t.Enc) :
    dateToString [.str fmt, (encode t : Value N)] = (strftime t fmt).map fun s => .ok (.str s) := by
  rw [dateToString_str, decode_encode t h]

end Slac.Time
