/-
  SlacProofs.OrderStable — why the insertion-sort model stands for Rust's `slice::sort` on the Safe domain:
  on a Safe collection the sorted permutation that keeps equivalent elements in their original order
  (what a stable sort returns) is unique, and `sortBy` is that permutation.
-/
import SlacProofs.OrderSort
set_option autoImplicit false
namespace Slac
namespace Order
variable {N : Type} [NumOps N]
open Value StdOrder

/-- `y` is in the equivalence class of `a` -/
def eqv (a y : Value N) : Bool := cmp a y == .eq

/-- `ys` keeps the members of every class (of an element of `xs`) in the order they have in `xs` -/
def StableOf (xs ys : List (Value N)) : Prop :=
  ∀ a ∈ xs, ys.filter (eqv a) = xs.filter (eqv a)

variable [LawfulNum N]

/-- two sorted permutations of each other with the same class sub-sequences are equal (orientation only) -/
theorem sorted_stable_unique (ys : List (Value N)) :
    ∀ zs : List (Value N), ys.Perm zs →
      ys.Pairwise (fun a b => Value.le a b = true) → zs.Pairwise (fun a b => Value.le a b = true) →
      (∀ a ∈ ys, ys.filter (eqv a) = zs.filter (eqv a)) → ys = zs := by
  induction ys with
  | nil => intro zs hp _ _ _; exact (List.Perm.nil_eq hp)
  | cons y ys' ih =>
    intro zs hp hy hz hf
    cases zs with
    | nil => exact absurd hp.symm (List.Perm.nil_eq · |> fun h => by cases h)
    | cons z zs' =>
      have hy' := List.pairwise_cons.1 hy
      have hz' := List.pairwise_cons.1 hz
      have hzy : z ∈ y :: ys' := hp.mem_iff.2 (List.mem_cons_self ..)
      have hyz : y ∈ z :: zs' := hp.mem_iff.1 (List.mem_cons_self ..)
      have h1 : Value.le y z = true := by
        rcases List.mem_cons.1 hzy with h | h
        · rw [h]; exact le_refl y
        · exact hy'.1 z h
      have h2 : Value.le z y = true := by
        rcases List.mem_cons.1 hyz with h | h
        · rw [h]; exact le_refl z
        · exact hz'.1 y h
      have hc : cmp y z = .eq := by
        rw [le_iff] at h1 h2
        rw [cmp_swap y z] at h2
        cases hc : cmp y z <;> simp_all [Ordering.swap]
      have hhead := hf y (List.mem_cons_self ..)
      have e1 : eqv y y = true := by simp [eqv, cmp_self]
      have e2 : eqv y z = true := by simp [eqv, hc]
      simp only [List.filter_cons, e1, e2, if_true, List.cons.injEq] at hhead
      have hyz' : y = z := hhead.1
      subst hyz'
      have hp' : ys'.Perm zs' := List.Perm.cons_inv hp
      have hf' : ∀ a ∈ ys', ys'.filter (eqv a) = zs'.filter (eqv a) := by
        intro a ha
        have := hf a (List.mem_cons_of_mem _ ha)
        simp only [List.filter_cons] at this
        split at this
        · exact (List.cons.inj this).2
        · exact this
      rw [ih zs' hp' hy'.2 hz'.2 hf']

/-- inserting keeps every class sub-sequence (on a Safe carrier) -/
theorem insertBy_filter {S : List (Value N)} (hS : Safe S) {a x : Value N} (ha : a ∈ S) (hx : x ∈ S)
    (l : List (Value N)) (hl : ∀ y ∈ l, y ∈ S) :
    (insertBy x l).filter (eqv a) = (x :: l).filter (eqv a) := by
  induction l with
  | nil => rfl
  | cons y ys ih =>
    have hyS : y ∈ S := hl y (List.mem_cons_self ..)
    have ih' := ih (fun y hy => hl y (List.mem_cons_of_mem _ hy))
    simp only [insertBy]
    by_cases hc : cmp x y = .gt
    · simp only [hc, beq_self_eq_true, if_true]
      have hnot : ¬ (eqv a x = true ∧ eqv a y = true) := by
        rintro ⟨h1, h2⟩
        simp only [eqv, beq_iff_eq] at h1 h2
        have ht := cmp_tri_of_safe hS hx ha hyS
        have hxa : cmp x a = .eq := by rw [cmp_swap a x, h1]; rfl
        have := ht.1 hxa
        rw [h2, hc] at this
        cases this
      simp only [List.filter_cons] at ih' ⊢
      rw [ih']
      cases hax : eqv a x <;> cases hay : eqv a y <;> simp_all
    · have : (cmp x y == Ordering.gt) = false := by simpa using hc
      simp only [this, Bool.false_eq_true, if_false]

/-- `sortBy` is stable on a Safe input -/
theorem sortBy_stable {xs : List (Value N)} (h : Safe xs) : StableOf xs (sortBy xs) := by
  suffices H : ∀ l : List (Value N), (∀ y ∈ l, y ∈ xs) → ∀ a ∈ xs, (sortBy l).filter (eqv a) = l.filter (eqv a) from
    fun a ha => H xs (fun _ hy => hy) a ha
  intro l
  induction l with
  | nil => intro _ _ _; rfl
  | cons x l ih =>
    intro hl a ha
    have hl' : ∀ y ∈ l, y ∈ xs := fun y hy => hl y (List.mem_cons_of_mem _ hy)
    simp only [sortBy]
    rw [insertBy_filter h ha (hl x (List.mem_cons_self ..)) (sortBy l) (fun y hy => hl' y (mem_sortBy.1 hy))]
    simp only [List.filter_cons]
    rw [ih hl' a ha]

theorem sortBy_pairwise {xs : List (Value N)} (h : Safe xs) :
    (sortBy xs).Pairwise (fun a b => Value.le a b = true) :=
  pairwise_of_adj h.transOn (sortBy xs) (fun _ hy => mem_sortBy.1 hy) (sortBy_adj xs)

/-- on a Safe input every stable sorted permutation equals `sortBy` -/
theorem stable_sort_unique {xs ys : List (Value N)} (h : Safe xs) (hp : ys.Perm xs)
    (hs : ys.Pairwise (fun a b => Value.le a b = true)) (hst : StableOf xs ys) : ys = sortBy xs := by
  apply sorted_stable_unique ys (sortBy xs) (hp.trans (sortBy_perm xs).symm) hs (sortBy_pairwise h)
  intro a ha
  have ha' : a ∈ xs := hp.mem_iff.1 ha
  rw [hst a ha', sortBy_stable h a ha']

end Order
end Slac
