/-
  SlacProofs.Unlex — the canonical text of a valid token is one of its lexemes; the un-lexed text of a token list
  is a layout (separators chosen by a policy: always one space, or a space only where `needsSep`; none after the
  last token), hence scans back to the list.
-/
import SlacModel.Unlex
import SlacProofs.ScannerLits
set_option autoImplicit false
namespace Slac.Unlex
open Slac.Scanner
variable {N : Type} [NumOps N]

/-- "the token has a source text that scans back to it":
    * an identifier is identifier-shaped and (lower-cased) not a keyword;
    * a number literal `x` is printed by `pr` as a plain decimal text that parses back to `x`
      (an explicit hypothesis about the printer: `x` non-negative, finite, no exponent notation);
    * a literal array value has no source text;
    * every other token (punctuation, operators, keywords, `true`/`false`, every string literal) is valid. -/
def LexValid (cc : CharClass) (pr : N → Str) : Token N → Prop
  | .identifier n => identShape cc n = true ∧ cc.lowerStr n ∉ keywordTexts
  | .literal (.num x) => DecimalText (pr x) ∧ NumOps.parse (pr x) = some x
  | .literal (.arr _) => False
  | _ => True

/-- the canonical text of a valid token is a lexeme of it -/
theorem tokenText_lexeme {cc : CharClass} (hcc : cc.AsciiOk) (pr : N → Str) {t : Token N}
    (h : LexValid cc pr t) : Lexeme cc t (tokenText pr t) := by
  cases t with
  | literal v =>
    cases v with
    | bool b =>
      cases b
      · exact keyword_variant_lexeme hcc (x := ['f', 'a', 'l', 's', 'e']) (kw := ['f', 'a', 'l', 's', 'e']) (by simp [keywords]) (by decide)
      · exact keyword_variant_lexeme hcc (x := ['t', 'r', 'u', 'e']) (kw := ['t', 'r', 'u', 'e']) (by simp [keywords]) (by decide)
    | str s => exact .str
    | num x => exact .num (decimal_numShape hcc h.1) h.2
    | arr xs => exact h.elim
  | identifier n => exact .ident h.1 (kwToken_none h.2)
  | and => exact keyword_variant_lexeme hcc (x := ['a', 'n', 'd']) (kw := ['a', 'n', 'd']) (by simp [keywords]) (by decide)
  | or => exact keyword_variant_lexeme hcc (x := ['o', 'r']) (kw := ['o', 'r']) (by simp [keywords]) (by decide)
  | xor => exact keyword_variant_lexeme hcc (x := ['x', 'o', 'r']) (kw := ['x', 'o', 'r']) (by simp [keywords]) (by decide)
  | not => exact keyword_variant_lexeme hcc (x := ['n', 'o', 't']) (kw := ['n', 'o', 't']) (by simp [keywords]) (by decide)
  | div => exact keyword_variant_lexeme hcc (x := ['d', 'i', 'v']) (kw := ['d', 'i', 'v']) (by simp [keywords]) (by decide)
  | mod => exact keyword_variant_lexeme hcc (x := ['m', 'o', 'd']) (kw := ['m', 'o', 'd']) (by simp [keywords]) (by decide)
  | _ => exact .punct (by simp [punct, tokenText])

/-! ### token lists as text, with a policy for the separator between adjacent tokens -/

/-- the token texts joined by `sp t t'` between adjacent tokens `t`, `t'` -/
def unlexWith (pr : N → Str) (sp : Token N → Token N → Str) : List (Token N) → Str
  | [] => []
  | [t] => tokenText pr t
  | t :: t' :: r => tokenText pr t ++ (sp t t' ++ unlexWith pr sp (t' :: r))

/-- an admissible policy: separators are separators, are non-empty where two tokens may not touch, and do not
    begin with `/` after the token `/` -/
structure SepOk (sp : Token N → Token N → Str) : Prop where
  isSep : ∀ t t', IsSep (sp t t')
  join : ∀ t t', sp t t' = [] → needsSep t t' = false
  fits : ∀ t t', SepFits t (sp t t')

/-- the layout of `unlexWith` -/
def itemsWith (pr : N → Str) (sp : Token N → Token N → Str) : List (Token N) → List (Item N)
  | [] => []
  | [t] => [⟨t, tokenText pr t, []⟩]
  | t :: t' :: r => ⟨t, tokenText pr t, sp t t'⟩ :: itemsWith pr sp (t' :: r)

omit [NumOps N] in
theorem itemsWith_toks (pr : N → Str) (sp : Token N → Token N → Str) (toks : List (Token N)) :
    (itemsWith pr sp toks).map (·.tok) = toks := by
  induction toks with
  | nil => rfl
  | cons t r ih =>
    cases r with
    | nil => rfl
    | cons t' r' => simp only [itemsWith, List.map_cons, ih]

omit [NumOps N] in
theorem itemsWith_render (pr : N → Str) (sp : Token N → Token N → Str) (toks : List (Token N)) :
    render (itemsWith pr sp toks) [] = unlexWith pr sp toks := by
  induction toks with
  | nil => rfl
  | cons t r ih =>
    cases r with
    | nil => simp [itemsWith, render, unlexWith]
    | cons t' r' => simp only [itemsWith, render, unlexWith, ih]

omit [NumOps N] in
theorem itemsWith_mem (pr : N → Str) (sp : Token N → Token N → Str) (toks : List (Token N)) :
    ∀ i ∈ itemsWith pr sp toks,
      i.tok ∈ toks ∧ i.text = tokenText pr i.tok ∧ (i.sep = [] ∨ ∃ t t', i.sep = sp t t') := by
  induction toks with
  | nil => intro i hi; cases hi
  | cons t r ih =>
    cases r with
    | nil =>
      intro i hi
      simp only [itemsWith, List.mem_cons, List.not_mem_nil, or_false] at hi
      subst hi; simp
    | cons t' r' =>
      intro i hi
      simp only [itemsWith, List.mem_cons] at hi
      rcases hi with rfl | hi
      · exact ⟨by simp, rfl, .inr ⟨_, _, rfl⟩⟩
      · have := ih i (by simpa [itemsWith] using hi)
        exact ⟨List.mem_cons_of_mem _ this.1, this.2⟩

omit [NumOps N] in
theorem itemsWith_joinable (pr : N → Str) {sp : Token N → Token N → Str} (hsp : SepOk sp)
    (toks : List (Token N)) : JoinableTok (itemsWith pr sp toks) [] := by
  induction toks with
  | nil => trivial
  | cons t r ih =>
    cases r with
    | nil => intro _ r h; cases h
    | cons t' r' =>
      cases r' with
      | nil => exact ⟨hsp.join t t', hsp.fits t t', ih⟩
      | cons t'' r'' => exact ⟨hsp.join t t', hsp.fits t t', ih⟩

/-- the text of valid tokens, under any admissible separator policy, scans back to them -/
theorem scan_unlexWith {cc : CharClass} (hcc : cc.AsciiOk) (pr : N → Str) {sp : Token N → Token N → Str}
    (hsp : SepOk sp) {toks : List (Token N)} (hv : ∀ t ∈ toks, LexValid cc pr t) (hne : toks ≠ []) :
    scan cc (unlexWith pr sp toks) = .ok toks := by
  have hne' : itemsWith pr sp toks ≠ [] := by
    intro h
    have := itemsWith_toks pr sp toks
    rw [h] at this
    exact hne this.symm
  have := Scanner.scan_layout hcc (itemsWith pr sp toks) [] [] hne' .nil ?_
    (joinable_of_tok hcc _ _ ?_ .nil (itemsWith_joinable pr hsp toks)) .nil
  · rw [List.nil_append, itemsWith_render, itemsWith_toks] at this
    exact this
  all_goals
    intro i hi
    obtain ⟨h1, h2, h3⟩ := itemsWith_mem pr sp toks i hi
    refine ⟨by rw [h2]; exact tokenText_lexeme hcc pr (hv _ h1), ?_⟩
    rcases h3 with h3 | ⟨t, t', h3⟩ <;> rw [h3]
    · exact .nil
    · exact hsp.isSep t t'

/-! ### the two policies -/

theorem isSep_space : IsSep [' '] := .ws (by decide) .nil

omit [NumOps N] in
/-- always one space -/
theorem sepOk_space : SepOk (fun (_ _ : Token N) => [' ']) :=
  ⟨fun _ _ => isSep_space, fun _ _ h => (by cases h), fun _ _ _ r h => (by cases h)⟩

omit [NumOps N] in
theorem unlex_eq_with (pr : N → Str) (toks : List (Token N)) :
    unlex pr toks = unlexWith pr (fun _ _ => [' ']) toks := by
  induction toks with
  | nil => rfl
  | cons t r ih =>
    cases r with
    | nil => rfl
    | cons t' r' => simp only [unlex, unlexWith, ih, List.cons_append, List.nil_append]

/-- the un-lexed text of valid tokens scans back to them -/
theorem scan_unlex {cc : CharClass} (hcc : cc.AsciiOk) (pr : N → Str) {toks : List (Token N)}
    (hv : ∀ t ∈ toks, LexValid cc pr t) (hne : toks ≠ []) : scan cc (unlex pr toks) = .ok toks := by
  rw [unlex_eq_with]; exact scan_unlexWith hcc pr sepOk_space hv hne

/-- a space only where two tokens may not touch (`needsSep`) -/
def tightSep (t t' : Token N) : Str := if needsSep t t' then [' '] else []

omit [NumOps N] in
theorem sepOk_tight : SepOk (tightSep (N := N)) := by
  refine ⟨?_, ?_, ?_⟩
  · intro t t'; unfold tightSep; split
    · exact isSep_space
    · exact .nil
  · intro t t' h; unfold tightSep at h; split at h
    · cases h
    · rename_i hn; simpa using hn
  · intro t t' _ r h; unfold tightSep at h; split at h <;> cases h

/-- the token texts with no more white space than `needsSep` demands, e.g. `a+f(1,'x')*-b`, `a and not b` -/
def unlexTight (pr : N → Str) (toks : List (Token N)) : Str := unlexWith pr tightSep toks

theorem scan_unlexTight {cc : CharClass} (hcc : cc.AsciiOk) (pr : N → Str) {toks : List (Token N)}
    (hv : ∀ t ∈ toks, LexValid cc pr t) (hne : toks ≠ []) : scan cc (unlexTight pr toks) = .ok toks :=
  scan_unlexWith hcc pr sepOk_tight hv hne

end Slac.Unlex
