/-
  SlacProofs.ScannerSkip — the grammar of separators (whitespace and comments) and the proof that
  `skipWs` (skip_whitespace + skip_comments) skips exactly them.
-/
import SlacModel.Scanner
set_option autoImplicit false
namespace Slac
namespace Scanner

/-- closed comment bodies: reading `b` inside a block comment with `d` further braces open ends the comment
    exactly at the end of `b` -/
inductive Body : Nat → Str → Prop
  | close0 : Body 0 ['}']
  | close {d b} : Body d b → Body (d+1) ('}' :: b)
  | open_ {d b} : Body (d+1) b → Body d ('{' :: b)
  | other {d b c} : c ≠ '{' → c ≠ '}' → Body d b → Body d (c :: b)

/-- comment bodies that are still open at the end of the text -/
inductive Unclosed : Nat → Str → Prop
  | nil {d} : Unclosed d []
  | close {d b} : Unclosed d b → Unclosed (d+1) ('}' :: b)
  | open_ {d b} : Unclosed (d+1) b → Unclosed d ('{' :: b)
  | other {d b c} : c ≠ '{' → c ≠ '}' → Unclosed d b → Unclosed d (c :: b)

/-- the grammar of separators between tokens: any sequence of whitespace characters, `// … \n` line comments
    and balanced, possibly nested `{ … }` block comments -/
inductive IsSep : Str → Prop
  | nil : IsSep []
  | ws {c s} : isWs c = true → IsSep s → IsSep (c :: s)
  | line {body s} : (∀ c ∈ body, c ≠ '\n') → IsSep s → IsSep ('/' :: '/' :: (body ++ '\n' :: s))
  | block {body s} : Body 0 body → IsSep s → IsSep ('{' :: (body ++ s))

/-- what may follow the last token: separators, then possibly a line comment without line end or a block
    comment that is never closed -/
inductive IsTrail : Str → Prop
  | nil : IsTrail []
  | lineEof {body} : (∀ c ∈ body, c ≠ '\n') → IsTrail ('/' :: '/' :: body)
  | blockEof {b} : Unclosed 0 b → IsTrail ('{' :: b)
  | sep {s t} : IsSep s → IsTrail t → IsTrail (s ++ t)

theorem IsSep.trail {s : Str} (h : IsSep s) : IsTrail s := by
  have := IsTrail.sep h .nil
  simpa using this

theorem IsSep.append {s t : Str} (hs : IsSep s) (ht : IsSep t) : IsSep (s ++ t) := by
  induction hs with
  | nil => simpa using ht
  | ws hc _ ih => exact .ws hc ih
  | @line body s hb _ ih =>
    have := IsSep.line hb ih
    simpa using this
  | @block body s hb _ ih =>
    have := IsSep.block hb ih
    simpa using this

theorem skip_line_body (body rest : Str) (h : ∀ c ∈ body, c ≠ '\n') :
    skipWs .line (body ++ '\n' :: rest) = skipWs .code rest := by
  induction body with
  | nil => simp [skipWs]
  | cons c cs ih =>
    rw [List.cons_append, skipWs.eq_def]; simp only [if_neg (h c (by simp))]
    exact ih (fun c hc => h c (by simp [hc]))

theorem skip_line_eof (body : Str) (h : ∀ c ∈ body, c ≠ '\n') : skipWs .line body = [] := by
  induction body with
  | nil => simp [skipWs]
  | cons c cs ih =>
    rw [skipWs.eq_def]; simp only [if_neg (h c (by simp))]
    exact ih (fun c hc => h c (by simp [hc]))

theorem skip_block_body {d : Nat} {b : Str} (h : Body d b) (rest : Str) :
    skipWs (.block d) (b ++ rest) = skipWs .code rest := by
  induction h with
  | close0 => simp [skipWs]
  | close _ ih =>
    rw [List.cons_append, skipWs.eq_def]
    simp only [show ('}' = '{') = False by decide, if_false, if_true]; exact ih
  | open_ _ ih => rw [List.cons_append, skipWs.eq_def]; simp only [if_true]; exact ih
  | other h1 h2 _ ih => rw [List.cons_append, skipWs.eq_def]; simp only [if_neg h1, if_neg h2]; exact ih

theorem skip_block_unclosed {d : Nat} {b : Str} (h : Unclosed d b) : skipWs (.block d) b = [] := by
  induction h with
  | nil => simp [skipWs]
  | close _ ih =>
    rw [skipWs.eq_def]
    simp only [show ('}' = '{') = False by decide, if_false, if_true]; exact ih
  | open_ _ ih => rw [skipWs.eq_def]; simp only [if_true]; exact ih
  | other h1 h2 _ ih => rw [skipWs.eq_def]; simp only [if_neg h1, if_neg h2]; exact ih

/-- C02 core: a separator in front of anything is invisible to the scanner -/
theorem skipWs_sep {s : Str} (hs : IsSep s) (rest : Str) :
    skipWs .code (s ++ rest) = skipWs .code rest := by
  induction hs with
  | nil => rfl
  | ws hc _ ih => rw [List.cons_append, skipWs.eq_def]; simp only [hc, if_true]; exact ih
  | @line body s hb _ ih =>
    rw [show ('/' :: '/' :: (body ++ '\n' :: s)) ++ rest = '/' :: '/' :: (body ++ '\n' :: (s ++ rest)) by simp]
    rw [skipWs.eq_def]
    simp only [show isWs '/' = false by decide, Bool.false_eq_true, if_false, if_true]
    rw [skip_line_body _ _ hb]; exact ih
  | @block body s hb _ ih =>
    rw [show ('{' :: (body ++ s)) ++ rest = '{' :: (body ++ (s ++ rest)) by simp]
    rw [skipWs.eq_def]
    simp only [show isWs '{' = false by decide, Bool.false_eq_true, if_false, if_true,
      show ('{' = '/') = False by decide]
    rw [skip_block_body hb]; exact ih

/-- after the last token everything is skipped -/
theorem skipWs_trail {t : Str} (ht : IsTrail t) : skipWs .code t = [] := by
  induction ht with
  | nil => rfl
  | lineEof hb =>
    rw [skipWs.eq_def]
    simp only [show isWs '/' = false by decide, Bool.false_eq_true, if_false, if_true]
    exact skip_line_eof _ hb
  | blockEof hb =>
    rw [skipWs.eq_def]
    simp only [show isWs '{' = false by decide, Bool.false_eq_true, if_false, if_true,
      show ('{' = '/') = False by decide]
    exact skip_block_unclosed hb
  | sep hs _ ih => rw [skipWs_sep hs]; exact ih

theorem skipWs_length (m : Mode) (s : Str) : (skipWs m s).length ≤ s.length := by
  fun_induction skipWs m s <;> simp_all <;> omega

/-- at the first character of a token `skipWs` stops -/
theorem skipWs_noop (c : Char) (cs : Str) (h1 : isWs c = false) (h2 : c ≠ '{')
    (h3 : c = '/' → ∀ r, cs ≠ '/' :: r) : skipWs .code (c :: cs) = c :: cs := by
  rw [skipWs.eq_def]
  simp only [h1, Bool.false_eq_true, if_false, if_neg h2]
  split
  · rename_i hc
    split
    · rename_i c2 cs'
      split
      · rename_i h; subst h; exact absurd rfl (h3 hc cs')
      · rfl
    · rfl
  · rfl

/-- a non-empty separator starts with a whitespace character, `{` or `//` -/
theorem IsSep.head {s : Str} (h : IsSep s) (c : Char) (r : Str) (hs : s = c :: r) :
    isWs c = true ∨ c = '{' ∨ (c = '/' ∧ ∃ r', r = '/' :: r') := by
  cases h with
  | nil => cases hs
  | ws hc _ => cases hs; exact .inl hc
  | line _ _ => cases hs; exact .inr (.inr ⟨rfl, _, rfl⟩)
  | block _ _ => cases hs; exact .inr (.inl rfl)

end Scanner
end Slac
