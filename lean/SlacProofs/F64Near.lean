/-
  SlacProofs.F64Near — sufficiency half of correct rounding: a value within relative 2^-54 of a finite double
  x = mx·2^ex (canonical) is rounded to x by core's `roundWithAccuracy` (`rwaFrac_near`).  Covers the binade
  boundary (value just below a power of two: one more bit, round up to 2^53, renormalise) and subnormals.
-/
import SlacProofs.F64Sci
set_option autoImplicit false
namespace Slac
namespace F64
open Float.Model Float.Model.UnpackedFloat

/-- a fraction within half a unit of the integer mx (strictly) rounds to mx -/
theorem rne_near (A B mx : Nat) (hB : 0 < B) (hmx : 1 ≤ mx)
    (h1 : 2 * A < 2 * (mx * B) + B) (h2 : 2 * (mx * B) < 2 * A + B) : rneFrac A B = mx := by
  unfold rneFrac
  by_cases hge : mx * B ≤ A
  · have hq : A / B = mx := Nat.div_eq_of_lt_le hge (by rw [Nat.add_mul, Nat.one_mul]; omega)
    have hr : A % B = A - mx * B := by
      have := Nat.div_add_mod A B; rw [hq, Nat.mul_comm] at this; omega
    rw [if_pos (by rw [hr]; omega), hq]
  · have hsub : (mx - 1) * B = mx * B - B := by rw [Nat.sub_mul, Nat.one_mul]
    have hle : B ≤ mx * B := Nat.le_mul_of_pos_left B hmx
    have hq : A / B = mx - 1 := Nat.div_eq_of_lt_le (by rw [hsub]; omega) (by
      have : mx - 1 + 1 = mx := by omega
      rw [this]; omega)
    have hr : A % B = A - (mx * B - B) := by
      have := Nat.div_add_mod A B; rw [hq, Nat.mul_comm, hsub] at this; omega
    rw [if_neg (by rw [hr]; omega), if_neg (by rw [hr]; omega), hq]; omega

/-- **a value within relative 2^-54 of a finite double rounds to that double.**
    x = mx·2^ex canonical; the value is A·2^e/B with e ≤ ex - 1; B' = B·2^(ex-e) is the common denominator:
    |A - mx·B'|·2^54 < mx·B'. -/
theorem rwaFrac_near (s : Sign) (mx : Nat) (ex : Int) (hc : Canon mx ex) (A B : Nat) (e : Int) (hB : 0 < B)
    (he1 : e ≤ ex - 1)
    (H1 : A * 2^54 < mx * (B * 2^(ex - e).toNat) * 2^54 + mx * (B * 2^(ex - e).toNat))
    (H2 : mx * (B * 2^(ex - e).toNat) * 2^54 < A * 2^54 + mx * (B * 2^(ex - e).toNat)) :
    rwaFrac s A B e = .finite s mx ex hc.pos := by
  have hmx53 := hc.lt
  have hmx1 := hc.pos
  have hmx0 : mx ≠ 0 := by omega
  generalize hg : (ex - e).toNat = g at H1 H2
  have hg1 : 1 ≤ g := by omega
  have heg : e = ex - (g : Int) := by omega
  have hB' : 0 < B * 2^g := Nat.mul_pos hB (Nat.two_pow_pos g)
  generalize hB'd : B * 2^g = B' at *
  generalize hP : mx * B' = P at *
  -- half-unit bounds
  have hPlt : P < 2^53 * B' := by rw [← hP]; exact Nat.mul_lt_mul_of_pos_right hmx53 hB'
  have h1 : 2 * A < 2 * P + B' := by omega
  have h2 : 2 * P < 2 * A + B' := by omega
  have hrne : rneFrac A B' = mx := rne_near A B' mx hB' hmx1 (by rw [hP]; exact h1) (by rw [hP]; exact h2)
  -- binary logarithm of the integer part
  generalize hl : mx.log2 = l
  have hl1 : 2^l ≤ mx := by rw [← hl]; exact Nat.log2_self_le hmx0
  have hl2 : mx < 2^(l + 1) := by rw [← hl]; exact Nat.lt_log2_self
  have hPl1 : 2^l * B' ≤ P := by rw [← hP]; exact Nat.mul_le_mul_right _ hl1
  have hPl2 : P + B' ≤ 2^(l + 1) * B' := by
    rw [← hP]; calc mx * B' + B' = (mx + 1) * B' := by rw [Nat.add_mul, Nat.one_mul]
      _ ≤ 2^(l + 1) * B' := Nat.mul_le_mul_right _ hl2
  have hpowB : ∀ n : Nat, 2^(n + g) * B = 2^n * B' := by
    intro n; rw [← hB'd, Nat.pow_add]; ac_rfl
  have hQub : A / B < 2^(l + 1 + g) := by
    rw [Nat.div_lt_iff_lt_mul hB, hpowB]; omega
  rw [rwaFrac_eq s A B e hB]
  by_cases hcase : 2^l * B' ≤ A
  · -- the integer part has the same binary exponent as mx·2^g
    have hQlb : 2^(l + g) ≤ A / B := by
      rw [Nat.le_div_iff_mul_le hB, hpowB]; exact hcase
    have hlog : (A / B).log2 = l + g := log2_eq_of _ _ hQlb (by
      have : l + g + 1 = l + 1 + g := by omega
      rw [this]; exact hQub)
    have hT : tgt (A / B) e = ex := by
      have := hc.tgt_eq; unfold tgt at this ⊢; rw [hlog, heg]; rw [hl] at this; omega
    simp only [hT]
    have hj : (ex - e).toNat = g := by omega
    simp only [hj, hB'd, hrne]
    have he1' : e + (g : Int) = ex := by omega
    simp only [he1', hc.tgt_eq, Int.sub_self, Int.toNat_zero, Nat.pow_zero, Nat.div_one]
    rw [dif_neg hmx0]
    congr 1; omega
  · -- just below a power of two: mx = 2^l
    have hcase' : A < 2^l * B' := by omega
    have hmxl : mx = 2^l := by
      rcases Nat.lt_or_ge (2^l) mx with h | h
      · exfalso
        have : (2^l + 1) * B' ≤ P := by rw [← hP]; exact Nat.mul_le_mul_right _ h
        rw [Nat.add_mul, Nat.one_mul] at this
        omega
      · omega
    have hPeq : P = 2^l * B' := by rw [← hP, hmxl]
    have hgpred : g = (g - 1) + 1 := by omega
    have hB'2 : B' = 2 * (B * 2^(g - 1)) := by
      rw [← hB'd]; conv => lhs; rw [hgpred, Nat.pow_succ]
      ac_rfl
    have hQlb : 2^(l + g - 1) ≤ A / B := by
      rw [Nat.le_div_iff_mul_le hB]
      have e1 : 2 * (2^(l + g - 1) * B) = 2^l * B' := by
        rw [← hpowB, ← Nat.mul_assoc, ← Nat.pow_succ']; congr 2; omega
      have : B' ≤ 2^l * B' := Nat.le_mul_of_pos_left _ (Nat.two_pow_pos l)
      omega
    have hQub2 : A / B < 2^(l + g - 1 + 1) := by
      have : l + g - 1 + 1 = l + g := by omega
      rw [this, Nat.div_lt_iff_lt_mul hB, hpowB]; exact hcase'
    have hlog : (A / B).log2 = l + g - 1 := log2_eq_of _ _ hQlb hQub2
    rcases hc.cases with ⟨hl52, hexge⟩ | ⟨hllt, hexeq⟩
    · rw [hl] at hl52
      by_cases hexmin : ex = -1074
      · -- smallest normal: the target exponent is still ex
        have hT : tgt (A / B) e = ex := by unfold tgt; rw [hlog, heg, hl52]; omega
        simp only [hT]
        have hj : (ex - e).toNat = g := by omega
        simp only [hj, hB'd, hrne]
        have he1' : e + (g : Int) = ex := by omega
        simp only [he1', hc.tgt_eq, Int.sub_self, Int.toNat_zero, Nat.pow_zero, Nat.div_one]
        rw [dif_neg hmx0]
        congr 1; omega
      · -- the value lies in the binade below: one more bit, rounds up to 2^53, renormalised
        have hT : tgt (A / B) e = ex - 1 := by unfold tgt; rw [hlog, heg, hl52]; omega
        simp only [hT]
        have hj : (ex - 1 - e).toNat = g - 1 := by omega
        simp only [hj]
        have hr : rneFrac A (B * 2^(g - 1)) = 2^53 := by
          have hB1pos : 0 < B * 2^(g - 1) := Nat.mul_pos hB (Nat.two_pow_pos _)
          generalize B * 2^(g - 1) = B₁ at hB'2 hB1pos ⊢
          have hP2 : P = 2^53 * B₁ := by
            rw [hPeq, hl52, hB'2]; rw [show (2:Nat)^53 = 2^52 * 2 by decide]; ac_rfl
          apply rne_near A B₁ (2^53) hB1pos (by decide)
          · omega
          · have : P * 2^54 < A * 2^54 + P := H2
            rw [hP2] at this
            omega
        simp only [hr]
        have he1' : e + ((g - 1 : Nat) : Int) = ex - 1 := by omega
        have ht2 : tgt (2^53) (ex - 1) = ex := by
          unfold tgt; rw [Nat.log2_two_pow]; omega
        have hj2 : (ex - (ex - 1)).toNat = 1 := by omega
        simp only [he1', ht2, hj2]
        have hdiv : (2:Nat)^53 / 2^1 = 2^52 := by decide
        have hmx52 : mx = 2^52 := by rw [hmxl, hl52]
        rw [dif_neg (by rw [hdiv]; decide)]
        congr 1
        · rw [hdiv, hmx52]
        · omega
    · -- subnormal: the target exponent is -1074 = ex
      rw [hl] at hllt
      have hT : tgt (A / B) e = ex := by unfold tgt; rw [hlog, heg, hexeq]; omega
      simp only [hT]
      have hj : (ex - e).toNat = g := by omega
      simp only [hj, hB'd, hrne]
      have he1' : e + (g : Int) = ex := by omega
      simp only [he1', hc.tgt_eq, Int.sub_self, Int.toNat_zero, Nat.pow_zero, Nat.div_one]
      rw [dif_neg hmx0]
      congr 1; omega

end F64
end Slac
