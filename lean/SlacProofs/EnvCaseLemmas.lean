/-
  SlacProofs.EnvCaseLemmas — "up to the spelling of names": the normalisation `normP fold` applies `fold` to every
  name an outcome carries (error payloads and trace events), and commutes with the operator tables of the
  interpreter model.  Two outcomes are equal up to spelling iff their normal forms are equal.
-/
import SlacModel.Interp
set_option autoImplicit false
set_option linter.unusedSectionVars false
namespace Slac
variable {N : Type} [NumOps N]

def NativeError.foldN (fold : Str → Str) : NativeError → NativeError
  | .functionNotFound n => .functionNotFound (fold n)
  | e => e

def Err.foldN (fold : Str → Str) : Err → Err
  | .undefinedVariable n => .undefinedVariable (fold n)
  | .native f e => .native (fold f) (e.foldN fold)
  | e => e

def Event.foldN (fold : Str → Str) : Event N → Event N
  | .lookup n => .lookup (fold n)
  | .call n args => .call (fold n) args

/-- native-call answers up to spelling -/
def normNE (fold : Str → Str) : Except NativeError (Value N) → Except NativeError (Value N)
  | .ok v => .ok v
  | .error e => .error (e.foldN fold)

/-- results up to spelling: values untouched, names inside errors folded -/
def normX {α : Type} (fold : Str → Str) : Except Err α → Except Err α
  | .ok v => .ok v
  | .error e => .error (e.foldN fold)

/-- (result, trace) pairs up to spelling -/
def normP {α : Type} (fold : Str → Str) (r : Except Err α × List (Event N)) : Except Err α × List (Event N) :=
  (normX fold r.1, r.2.map (Event.foldN fold))

theorem normX_ok {α : Type} (fold : Str → Str) (v : α) : normX fold (.ok v) = .ok v := rfl
theorem normX_error {α : Type} (fold : Str → Str) (e : Err) :
    normX (α := α) fold (.error e) = .error (e.foldN fold) := rfl

theorem normX_ok_iff {α : Type} (fold : Str → Str) (r : Except Err α) (v : α) :
    normX fold r = .ok v ↔ r = .ok v := by
  cases r with
  | ok w => simp [normX]
  | error e => simp [normX]

theorem un_norm (fold : Str → Str) (op : Op) (m : R N) :
    normP fold (unModel op m) = unModel op (normP fold m) := by
  obtain ⟨m1, m2⟩ := m
  cases m1 with
  | ok v =>
    cases op <;> simp only [unModel, normP, normX, Value.not, Err.foldN]
    case minus => cases v <;> rfl
  | error e => cases e <;> rfl

theorem rightBool_norm (fold : Str → Str) (tl : List (Event N)) (m : R N) :
    normP fold (rightBool tl m) = rightBool (tl.map (Event.foldN fold)) (normP fold m) := by
  obtain ⟨m1, m2⟩ := m
  cases m1 with
  | ok v => simp only [rightBool, normP, normX, List.map_append]
  | error e => cases e <;> simp only [rightBool, normP, normX, Err.foldN, List.map_append]

theorem binVal_norm (fold : Str → Str) (op : Op) (a b : Value N) :
    normX fold (binVal op a b) = binVal op a b := by
  cases op <;> simp only [binVal, normX] <;>
    cases a <;> cases b <;> simp only [Value.add, Value.arith, Value.xor, Err.foldN]

theorem bin_norm (fold : Str → Str) (op : Op) (l r : R N) :
    normP fold (binModel op l r) = binModel op (normP fold l) (normP fold r) := by
  obtain ⟨l1, l2⟩ := l
  cases l1 with
  | ok lv =>
    cases hb : Value.asBool lv
    all_goals
      obtain ⟨r1, r2⟩ := r
      cases r1 with
      | ok rv =>
        cases op <;> simp only [binModel, normP, hb, rightBool, if_true, if_false, Bool.false_eq_true, binVal_norm] <;>
          simp only [normX, List.map_append, hb, if_true, if_false, Bool.false_eq_true]
      | error e =>
        cases e <;> cases op <;> simp only [binModel, normP, normX, hb, rightBool, List.map_append, if_true, if_false,
          Bool.false_eq_true, Err.foldN]
  | error e =>
    obtain ⟨r1, r2⟩ := r
    cases r1 with
    | ok rv =>
      cases e <;> cases op <;> simp only [binModel, normP, normX, rightBool, List.map_append, Err.foldN]
    | error e' =>
      cases e <;> cases e' <;> cases op <;>
        simp only [binModel, normP, normX, rightBool, List.map_append, Err.foldN]

theorem tern_norm (fold : Str → Str) (op : Op) (c m r : R N) :
    normP fold (ternModel op c m r) = ternModel op (normP fold c) (normP fold m) (normP fold r) := by
  obtain ⟨c1, c2⟩ := c
  cases op <;> try rfl
  cases c1 with
  | ok cv =>
    cases hb : Value.asBool cv <;>
      simp only [ternModel, normP, normX_ok, hb, List.map_append, if_true, if_false, Bool.false_eq_true]
  | error e => rfl

end Slac
