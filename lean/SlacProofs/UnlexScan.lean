/-
  SlacProofs.UnlexScan — what the scanner can output: every token of a successful `scan` is `ScanValid`, i.e.
  `LexValid` up to the one clause that mentions the number printer.
-/
import SlacProofs.Unlex
set_option autoImplicit false
namespace Slac.Unlex
open Slac.Scanner
variable {N : Type} [NumOps N]

/-- the tokens the scanner can produce:
    * identifiers are identifier-shaped and not keywords;
    * a number literal `x` is what `NumOps.parse` (Rust: `str::parse::<f64>`) returns on *some* number-shaped text;
    * no literal array values;
    * anything else (punctuation, operators, keywords, booleans, any string literal). -/
def ScanValid (cc : CharClass) : Token N → Prop
  | .identifier n => identShape cc n = true ∧ cc.lowerStr n ∉ keywordTexts
  | .literal (.num x) => ∃ text, numShape cc text = true ∧ NumOps.parse text = some x
  | .literal (.arr _) => False
  | _ => True

/-- the clause of `LexValid` that is about the number printer -/
def NumPrintOk (pr : N → Str) : Token N → Prop
  | .literal (.num x) => DecimalText (pr x) ∧ NumOps.parse (pr x) = some x
  | _ => True

theorem lexValid_of_scanValid {cc : CharClass} {pr : N → Str} {t : Token N} (h : ScanValid cc t)
    (hn : NumPrintOk pr t) : LexValid cc pr t := by
  cases t with
  | literal v =>
    cases v with
    | num x => exact hn
    | arr xs => exact h.elim
    | _ => trivial
  | identifier n => exact h
  | _ => trivial

theorem scanValid_of_lexValid {cc : CharClass} (hcc : cc.AsciiOk) {pr : N → Str} {t : Token N}
    (h : LexValid cc pr t) : ScanValid cc t ∧ NumPrintOk pr t := by
  cases t with
  | literal v =>
    cases v with
    | num x => exact ⟨⟨pr x, decimal_numShape hcc h.1, h.2⟩, h⟩
    | arr xs => exact h.elim
    | _ => exact ⟨trivial, trivial⟩
  | identifier n => exact ⟨h, trivial⟩
  | _ => exact ⟨trivial, trivial⟩

theorem kwToken_some_valid (cc : CharClass) {low : Str} {t : Token N} (h : kwToken low = some t) :
    ScanValid cc t := by
  have := lookup_mem _ _ _ h
  simp only [keywords, List.mem_cons, Prod.mk.injEq, List.not_mem_nil, or_false] at this
  rcases this with ⟨_, rfl⟩ | ⟨_, rfl⟩ | ⟨_, rfl⟩ | ⟨_, rfl⟩ | ⟨_, rfl⟩ | ⟨_, rfl⟩ | ⟨_, rfl⟩ | ⟨_, rfl⟩ <;> trivial

omit [NumOps N] in
theorem not_keyword_of_none {low : Str} (h : kwToken (N := N) low = none) : low ∉ keywordTexts := by
  unfold kwToken at h
  rw [List.lookup_eq_none_iff] at h
  intro hmem
  rw [← keywords_texts (N := N)] at hmem
  obtain ⟨p, hp, he⟩ := List.mem_map.mp hmem
  have := h p hp
  simp [he] at this

theorem identifier_valid (cc : CharClass) (c : Char) (cs : Str) (hc : isIdentStart cc c = true) :
    ScanValid cc (identifier (N := N) cc c cs).1 := by
  unfold identifier
  simp only
  cases hk : kwToken (N := N) (cc.lowerStr (c :: cs.takeWhile (isIdentCont cc))) with
  | some t => exact kwToken_some_valid cc hk
  | none =>
    refine ⟨?_, not_keyword_of_none hk⟩
    simp only [identShape, hc, Bool.true_and, List.all_eq_true]
    exact mem_takeWhile _ _

omit [NumOps N] in
theorem numberLex_shape {cc : CharClass} (hcc : cc.AsciiOk) (c : Char) (cs : Str)
    (hs : isIdentStart cc c = false) (hc : cc.isNumeric c = true ∨ c = '.') :
    numShape cc (numberLex cc c cs).1 = true := by
  have hdot : cc.isNumeric '.' = false := special_numeric hcc '.' (by decide)
  have hhead : (cc.isNumeric c || c == '.') = true := by
    rcases hc with h | h
    · simp [h]
    · simp [h]
  unfold numberLex
  simp only
  split
  · rename_i r _
    have hsp := span_append (p := cc.isNumeric) (a := cs.takeWhile cc.isNumeric)
      (b := '.' :: r.takeWhile cc.isNumeric) (mem_takeWhile _ _) (HeadNot.cons hdot)
    simp only [numShape, hs, hhead, Bool.not_false, Bool.true_and, hsp.2, beq_self_eq_true, List.all_eq_true]
    exact mem_takeWhile _ _
  · have hsp := span_append (p := cc.isNumeric) (a := cs.takeWhile cc.isNumeric) (b := [])
      (mem_takeWhile _ _) (HeadNot.nil _)
    rw [List.append_nil] at hsp
    simp only [numShape, hs, hhead, Bool.not_false, Bool.true_and, hsp.2]

theorem number_valid {cc : CharClass} (hcc : cc.AsciiOk) (c : Char) (cs : Str) (t : Token N) (rest : Str)
    (hs : isIdentStart cc c = false) (hc : cc.isNumeric c = true ∨ c = '.')
    (h : number cc c cs = .ok (t, rest)) : ScanValid cc t := by
  simp only [number] at h
  split at h
  · rename_i x hx
    cases h
    exact ⟨_, numberLex_shape hcc c cs hs hc, hx⟩
  · cases h

/-- every token `next_token` returns is `ScanValid` -/
theorem nextToken_valid {cc : CharClass} (hcc : cc.AsciiOk) (c : Char) (cs : Str) (t : Token N) (rest : Str)
    (h : nextToken cc c cs = .ok (t, rest)) : ScanValid cc t := by
  rw [nextToken] at h
  by_cases h1 : isIdentStart cc c = true
  · rw [if_pos h1] at h; cases h; exact identifier_valid cc c cs h1
  rw [if_neg h1] at h
  have h1' : isIdentStart cc c = false := by simpa using h1
  by_cases h2 : cc.isNumeric c = true
  · rw [if_pos h2] at h; exact number_valid hcc c cs t rest h1' (.inl h2) h
  rw [if_neg h2] at h
  by_cases h3 : c = '\''
  · rw [if_pos h3] at h
    simp only [string] at h
    split at h
    · cases h
    · cases h; trivial
  rw [if_neg h3] at h
  by_cases h4 : c = '.'
  · rw [if_pos h4] at h; exact number_valid hcc c cs t rest h1' (.inr h4) h
  rw [if_neg h4] at h
  by_cases hc : c = '('
  · rw [if_pos hc] at h; cases h; trivial
  rw [if_neg hc] at h; clear hc
  by_cases hc : c = ')'
  · rw [if_pos hc] at h; cases h; trivial
  rw [if_neg hc] at h; clear hc
  by_cases hc : c = '['
  · rw [if_pos hc] at h; cases h; trivial
  rw [if_neg hc] at h; clear hc
  by_cases hc : c = ']'
  · rw [if_pos hc] at h; cases h; trivial
  rw [if_neg hc] at h; clear hc
  by_cases hc : c = ','
  · rw [if_pos hc] at h; cases h; trivial
  rw [if_neg hc] at h; clear hc
  by_cases hc : c = '+'
  · rw [if_pos hc] at h; cases h; trivial
  rw [if_neg hc] at h; clear hc
  by_cases hc : c = '-'
  · rw [if_pos hc] at h; cases h; trivial
  rw [if_neg hc] at h; clear hc
  by_cases hc : c = '*'
  · rw [if_pos hc] at h; cases h; trivial
  rw [if_neg hc] at h; clear hc
  by_cases hc : c = '/'
  · rw [if_pos hc] at h; cases h; trivial
  rw [if_neg hc] at h; clear hc
  by_cases hc : c = '='
  · rw [if_pos hc] at h; cases h; trivial
  rw [if_neg hc] at h; clear hc
  by_cases hg : c = '>'
  · rw [if_pos hg] at h
    simp only [greater] at h
    split at h
    · split at h <;> cases h <;> trivial
    · cases h; trivial
  rw [if_neg hg] at h
  by_cases hl : c = '<'
  · rw [if_pos hl] at h
    simp only [lesser] at h
    split at h
    · split at h
      · cases h; trivial
      · split at h <;> cases h <;> trivial
    · cases h; trivial
  rw [if_neg hl] at h
  cases h

theorem scanLoop_valid {cc : CharClass} (hcc : cc.AsciiOk) (n : Nat) (src : Str) (ts : List (Token N))
    (h : scanLoop cc n src = .ok ts) : ∀ t ∈ ts, ScanValid cc t := by
  induction n generalizing src ts with
  | zero => cases h
  | succ n ih =>
    rw [scanLoop_succ] at h
    split at h
    · cases h; intro t ht; cases ht
    · rename_i c cs _
      split at h
      · cases h
      · rename_i t rest hnt
        split at h
        · rename_i ts' hts'
          cases h
          intro u hu
          rcases List.mem_cons.mp hu with hu | hu
          · subst hu; exact nextToken_valid hcc c cs _ rest hnt
          · exact ih rest ts' hts' u hu
        · rename_i hno
          exact absurd h (by intro h'; exact hno _ h')

/-- every token of a successful scan is `ScanValid` -/
theorem scan_valid {cc : CharClass} (hcc : cc.AsciiOk) {src : Str} {ts : List (Token N)}
    (h : scan cc src = .ok ts) : ∀ t ∈ ts, ScanValid cc t := by
  unfold scan at h
  split at h
  · cases h
  · exact scanLoop_valid hcc _ src ts h

/-- the printer hypothesis on the number literals of a tree, as a hypothesis on its leaves -/
theorem numPrintOk_leaves {pr : N → Str} {e : Expr N}
    (h : ∀ x ∈ numLits e, DecimalText (pr x) ∧ NumOps.parse (pr x) = some x) :
    ∀ t ∈ leaves e, NumPrintOk pr t := by
  intro t ht
  cases t with
  | literal v =>
    cases v with
    | num x => exact h x (List.mem_filterMap.mpr ⟨_, ht, rfl⟩)
    | _ => trivial
  | _ => trivial

end Slac.Unlex
