/-
  SlacProofs.TimeEnc — `encode_date`, `encode_time`, `inc_month` and `date + time` on lawful numbers.
-/
import SlacProofs.TimeNum
set_option autoImplicit false
namespace Slac.Time
open Stdlib

section
variable {N : Type} [NumX N]

theorem encodeDate_nums (y m d : N) :
    encodeDate [.num y, .num m, .num d] =
      if validDate (NumX.toI32 y) (NumX.toU32 m) (NumX.toU32 d) then
        .ok (encode ⟨daysFromCivil (NumX.toI32 y) (NumX.toU32 m) (NumX.toU32 d), 0⟩)
      else .error (custom "invalid date parameters") := by unfold encodeDate; rfl

theorem encodeTime_nums (h m s milli : N) (ps rest : List (Value N))
    (hps : ps = .num h :: .num m :: .num s :: rest)
    (hd : defaultNumber ps 3 (NumOps.zero : N) = .ok milli) :
    encodeTime ps =
      if NumX.ge0 h && NumX.ge0 m && NumX.ge0 s && NumX.ge0 milli then
        if validTime (NumX.toU32 h) (NumX.toU32 m) (NumX.toU32 s) (NumX.toU32 milli) then
          .ok (.num (NumOps.div (NumX.ofInt (((NumX.toU32 h * 3600 + NumX.toU32 m * 60 + NumX.toU32 s) * 1000
            + NumX.toU32 milli : Nat) : Int)) dayLen))
        else .error (custom "invalid time parameters")
      else .error (custom "invalid time parameters") := by
  subst hps; unfold encodeTime; rw [hd]

theorem incMonth_two (v : Value N) (inc : N) :
    incMonth [v, .num inc] =
      match decode v with
      | .error e => .error e
      | .ok t =>
        if NumX.gt0 inc then
          match addMonths t ((NumX.toI32 inc).natAbs : Int) with
          | some t' => .ok (encode t')
          | none => .error (custom "inc_month increment overflow")
        else if NumX.lt0 inc then
          match addMonths t (-((NumX.toI32 inc).natAbs : Int)) with
          | some t' => .ok (encode t')
          | none => .error (custom "inc_month decrement underflow")
        else .ok (encode t) := by unfold incMonth; rfl

theorem incMonth_one (v : Value N) : incMonth [v] = incMonth [v, .num (NumOps.ofBool true)] := by
  unfold incMonth; rfl

omit [NumX N] in
theorem totalMs_zero_days (ms : Nat) : DT.totalMs ⟨0, ms⟩ = (ms : Int) := by simp [DT.totalMs]
end

variable {N : Type} [NumX N] [LawfulTimeNum N]

/-! ### encode_date -/

/-- `encode_date(y, m, d)` on integer-valued numbers: the day number of the date if it exists, else an error -/
theorem encodeDate_ofInt (y : Int) (m d : Nat) (hy1 : -2147483648 ≤ y) (hy2 : y < 2147483648)
    (hm : m < 4294967296) (hd : d < 4294967296) :
    encodeDate [(.num (NumX.ofInt y) : Value N), .num (NumX.ofNat m), .num (NumX.ofNat d)] =
      if validDate y m d then .ok (encode ⟨daysFromCivil y m d, 0⟩)
      else .error (custom "invalid date parameters") := by
  rw [encodeDate_nums, LawfulTimeNum.toI32_ofInt y hy1 hy2, LawfulTimeNum.toU32_ofNat m hm,
    LawfulTimeNum.toU32_ofNat d hd]

/-! ### encode_time -/

theorem encodeTime_ofNat4 (h mi s ml : Nat) (hh : h < 4294967296) (hmi : mi < 4294967296) (hs : s < 4294967296)
    (hml : ml < 4294967296) :
    encodeTime [(.num (NumX.ofNat h) : Value N), .num (NumX.ofNat mi), .num (NumX.ofNat s), .num (NumX.ofNat ml)] =
      if validTime h mi s ml then .ok (encode ⟨0, (h * 3600 + mi * 60 + s) * 1000 + ml⟩)
      else .error (custom "invalid time parameters") := by
  rw [encodeTime_nums (NumX.ofNat h) (NumX.ofNat mi) (NumX.ofNat s) (NumX.ofNat ml) _ _ rfl rfl,
    ge0_ofNat h hh, ge0_ofNat mi hmi, ge0_ofNat s hs, ge0_ofNat ml hml,
    LawfulTimeNum.toU32_ofNat h hh, LawfulTimeNum.toU32_ofNat mi hmi, LawfulTimeNum.toU32_ofNat s hs,
    LawfulTimeNum.toU32_ofNat ml hml]
  simp only [Bool.and_self, if_true, encode, totalMs_zero_days]

theorem encodeTime_ofNat3 (h mi s : Nat) (hh : h < 4294967296) (hmi : mi < 4294967296) (hs : s < 4294967296) :
    encodeTime [(.num (NumX.ofNat h) : Value N), .num (NumX.ofNat mi), .num (NumX.ofNat s)] =
      if validTime h mi s 0 then .ok (encode ⟨0, (h * 3600 + mi * 60 + s) * 1000⟩)
      else .error (custom "invalid time parameters") := by
  rw [encodeTime_nums (NumX.ofNat h) (NumX.ofNat mi) (NumX.ofNat s) NumOps.zero _ _ rfl rfl,
    LawfulTimeNum.zero_eq,
    ge0_ofNat h hh, ge0_ofNat mi hmi, ge0_ofNat s hs, ge0_ofNat 0 (by omega),
    LawfulTimeNum.toU32_ofNat h hh, LawfulTimeNum.toU32_ofNat mi hmi, LawfulTimeNum.toU32_ofNat s hs,
    LawfulTimeNum.toU32_ofNat 0 (by omega)]
  rw [Nat.add_zero]
  simp only [Bool.and_self, if_true, encode, totalMs_zero_days]

/-- a negative hour, minute, second or millisecond is rejected -/
theorem encodeTime_negative (h mi s ml : Int)
    (bh : -4294967296 ≤ h ∧ h ≤ 4294967296) (bmi : -4294967296 ≤ mi ∧ mi ≤ 4294967296)
    (bs : -4294967296 ≤ s ∧ s ≤ 4294967296) (bml : -4294967296 ≤ ml ∧ ml ≤ 4294967296)
    (hneg : h < 0 ∨ mi < 0 ∨ s < 0 ∨ ml < 0) :
    encodeTime [(.num (NumX.ofInt h) : Value N), .num (NumX.ofInt mi), .num (NumX.ofInt s), .num (NumX.ofInt ml)] =
      .error (custom "invalid time parameters") := by
  rw [encodeTime_nums (NumX.ofInt h) (NumX.ofInt mi) (NumX.ofInt s) (NumX.ofInt ml) _ _ rfl rfl,
    ge0_ofInt h bh.1 bh.2, ge0_ofInt mi bmi.1 bmi.2, ge0_ofInt s bs.1 bs.2, ge0_ofInt ml bml.1 bml.2]
  have : (decide (0 ≤ h) && decide (0 ≤ mi) && decide (0 ≤ s) && decide (0 ≤ ml)) = false := by
    simp only [Bool.and_eq_false_iff, decide_eq_false_iff_not]
    omega
  rw [this]; rfl

/-! ### inc_month -/

/-- `inc_month(x, k)` is `addMonths` on the decoded date-time (whole calendar months, clamped day, same time
    of day); the error names the direction -/
theorem incMonth_encode (t : DT) (h : t.Enc) (k : Int) (hk1 : -2147483648 ≤ k) (hk2 : k < 2147483648) :
    incMonth [(encode t : Value N), .num (NumX.ofInt k)] =
      match addMonths t k with
      | some t' => .ok (encode t')
      | none => .error (custom (if 0 < k then "inc_month increment overflow" else "inc_month decrement underflow")) := by
  rw [incMonth_two, decode_encode t h]
  simp only [LawfulTimeNum.toI32_ofInt k hk1 hk2, gt0_ofInt k (by omega) (by omega), lt0_ofInt k (by omega) (by omega)]
  by_cases hpos : 0 < k
  · have e : ((k.natAbs : Nat) : Int) = k := by omega
    simp only [hpos, decide_true, if_true, e]
  · by_cases hneg : k < 0
    · have e : -((k.natAbs : Nat) : Int) = k := by omega
      simp only [hpos, hneg, decide_false, decide_true, if_true, if_false, e, Bool.false_eq_true]
    · have e : k = 0 := by omega
      subst e
      simp only [decide_false, if_false, Bool.false_eq_true, Int.lt_irrefl]
      rw [addMonths_zero t h.year_range]

/-- the default increment is one month -/
theorem incMonth_default (v : Value N) : incMonth [v] = incMonth [v, .num (NumX.ofInt 1)] := by
  rw [incMonth_one, LawfulTimeNum.one_eq, ← LawfulTimeNum.ofInt_natCast 1]; rfl

/-! ### date(x) + time(x) = x -/

/-- `date` is `trunc` and `time` is `frac` (SlacModel.Registry); their sum is the date-time number itself -/
theorem date_plus_time (t : DT) (ht : t.Enc) (a b : Value N)
    (ha : num1 NumOps.trunc [(encode t : Value N)] = .ok a) (hb : num1 NumX.fract [(encode t : Value N)] = .ok b) :
    Value.add a b = .ok (encode t) := by
  simp only [num1, encode] at ha hb
  cases ha; cases hb
  simp only [Value.add, encode, LawfulTimeNum.trunc_add_fract t.totalMs ht.2.1 ht.2.2]

end Slac.Time
