/-
  SlacProofs.TimeRfcFmt — single-specifier formatting lemmas for chrono's strftime formatter (SlacModel.TimeFmt):
  what each specifier prints, in terms of the components of the date-time.
-/
import SlacProofs.TimeRfcRound
set_option autoImplicit false
set_option linter.unusedSimpArgs false
set_option linter.unusedVariables false
namespace Slac.Time
open Stdlib TimeRfc

theorem fmtInt_zero_nat (n w : Nat) : fmtInt (n : Int) w .zero false = pad w n := by
  have : ¬ ((n : Int) < 0) := by omega
  simp [fmtInt, pad, this]

theorem fmtInt_none_nat (n w : Nat) : fmtInt (n : Int) w .none false = Nat.toDigits 10 n := by
  have : ¬ ((n : Int) < 0) := by omega
  simp [fmtInt, this]

/-- formatting a format that consists of one specifier producing one item -/
theorem strftime_one (t : DT) (fmt : Str) (it : Item) (h : items fmt = [it]) : strftime t fmt = fmtItem t it := by
  simp only [strftime, h, formatItems]
  cases fmtItem t it <;> simp

theorem formatItems_append (t : DT) (a b : List Item) :
    formatItems t (a ++ b) =
      match formatItems t a, formatItems t b with
      | some x, some y => some (x ++ y)
      | _, _ => none := by
  induction a with
  | nil => cases h : formatItems t b <;> simp [formatItems, h]
  | cons it its ih =>
    simp only [List.cons_append, formatItems, ih]
    cases fmtItem t it <;> cases formatItems t its <;> cases formatItems t b <;> simp

/-! ### padded two-digit fields -/

theorem ofNat48_dc : ∀ k, k < 10 → Char.ofNat (48 + k) = k.digitChar := by decide

theorem writeTwo_none (v : Nat) : writeTwo v .none = Nat.toDigits 10 v := by
  unfold writeTwo; split <;> simp

theorem writeTwo_space (v : Nat) :
    writeTwo v .space = if v < 10 then ' ' :: Nat.toDigits 10 v else Nat.toDigits 10 v := by
  unfold writeTwo; split <;> simp

/-- the century writer agrees with plain zero padding below 100 (years 0–9999) -/
theorem writeTwoU8_zero (v : Nat) (h : v < 100) : writeTwoU8 v .zero = pad 2 v := by
  have e : v % 256 = v := by omega
  rw [pad2_spec v h]
  unfold writeTwoU8
  simp only [e]
  by_cases h0 : v / 10 = 0
  · have e1 : v % 10 = v := by omega
    simp [h0, ofNat48_dc v (by omega), e1]
  · simp [h0, ofNat48_dc (v / 10) (by omega), ofNat48_dc (v % 10) (by omega)]

/-! ### which formats fail on a naive date-time: a property of the format alone -/

/-- the items that cannot be formatted without an offset, and the error item -/
def Item.failsNaive : Item → Bool
  | .error => true
  | .fixed .timezoneName | .fixed .timezoneOffset | .fixed .timezoneOffsetColon | .fixed .timezoneOffsetDoubleColon
  | .fixed .timezoneOffsetTripleColon | .fixed .timezoneOffsetPermissive | .fixed .rfc3339 => true
  | _ => false

theorem fmtItem_none_iff (t : DT) (it : Item) : fmtItem t it = none ↔ it.failsNaive = true := by
  cases it with
  | literal s => simp [fmtItem, Item.failsNaive]
  | space s => simp [fmtItem, Item.failsNaive]
  | numeric n p => simp [fmtItem, Item.failsNaive]
  | fixed f => cases f <;> simp [fmtItem, fmtFixed, Item.failsNaive]
  | error => simp [fmtItem, Item.failsNaive]

theorem formatItems_none_iff (t : DT) (its : List Item) :
    formatItems t its = none ↔ its.any Item.failsNaive = true := by
  induction its with
  | nil => simp [formatItems]
  | cons it its ih =>
    simp only [formatItems, List.any_cons, Bool.or_eq_true]
    cases h1 : fmtItem t it with
    | none => simp [(fmtItem_none_iff t it).1 h1]
    | some a =>
      have hn : it.failsNaive = false := by
        cases hf : it.failsNaive with
        | false => rfl
        | true => rw [(fmtItem_none_iff t it).2 hf] at h1; cases h1
      cases h2 : formatItems t its with
      | none => simp [hn, ih.1 h2]
      | some b =>
        have : ¬ (its.any Item.failsNaive = true) := fun hc => by rw [ih.2 hc] at h2; cases h2
        simp [hn, this]

end Slac.Time
