/-
  SlacProofs.TimeRfcFmt — single-specifier formatting lemmas for chrono's strftime formatter (SlacModel.TimeFmt):
  what each specifier prints, in terms of the components of the date-time.
-/
import SlacProofs.TimeRfcRound
set_option autoImplicit false
set_option linter.unusedSimpArgs false
set_option linter.unusedVariables false
namespace Slac.Time
open Stdlib TimeRfc

theorem fmtInt_zero_nat (n w : Nat) : fmtInt (n : Int) w .zero false = pad w n := by
  have : ¬ ((n : Int) < 0) := by omega
  simp [fmtInt, pad, this]

theorem fmtInt_none_nat (n w : Nat) : fmtInt (n : Int) w .none false = Nat.toDigits 10 n := by
  have : ¬ ((n : Int) < 0) := by omega
  simp [fmtInt, this]

/-- formatting a format that consists of one specifier producing one item -/
theorem strftime_one (t : DT) (fmt : Str) (it : Item) (h : items fmt = [it]) : strftime t fmt = fmtItem t it := by
  simp only [strftime, h, formatItems]
  cases fmtItem t it <;> simp

theorem formatItems_append (t : DT) (a b : List Item) :
    formatItems t (a ++ b) =
      match formatItems t a, formatItems t b with
      | some x, some y => some (x ++ y)
      | _, _ => none := by
  induction a with
  | nil => cases h : formatItems t b <;> simp [formatItems, h]
  | cons it its ih =>
    simp only [List.cons_append, formatItems, ih]
    cases fmtItem t it <;> cases formatItems t its <;> cases formatItems t b <;> simp

/-! ### padded two-digit fields -/

theorem ofNat48_dc : ∀ k, k < 10 → Char.ofNat (48 + k) = k.digitChar := by decide

theorem writeTwo_none (v : Nat) : writeTwo v .none = Nat.toDigits 10 v := by
  unfold writeTwo; split <;> simp

theorem writeTwo_space (v : Nat) :
    writeTwo v .space = if v < 10 then ' ' :: Nat.toDigits 10 v else Nat.toDigits 10 v := by
  unfold writeTwo; split <;> simp

/-- the century writer agrees with plain zero padding below 100 (years 0–9999) -/
theorem writeTwoU8_zero (v : Nat) (h : v < 100) : writeTwoU8 v .zero = pad 2 v := by
  have e : v % 256 = v := by omega
  rw [pad2_spec v h]
  unfold writeTwoU8
  simp only [e]
  by_cases h0 : v / 10 = 0
  · have e1 : v % 10 = v := by omega
    simp [h0, ofNat48_dc v (by omega), e1]
  · simp [h0, ofNat48_dc (v / 10) (by omega), ofNat48_dc (v % 10) (by omega)]

/-! ### which formats fail on a naive date-time: a property of the format alone -/

/-- the items that cannot be formatted without an offset, and the error item -/
def Item.failsNaive : Item → Bool
  | .error => true
  | .fixed .timezoneName | .fixed .timezoneOffset | .fixed .timezoneOffsetColon | .fixed .timezoneOffsetDoubleColon
  | .fixed .timezoneOffsetTripleColon | .fixed .timezoneOffsetPermissive | .fixed .rfc3339 => true
  | _ => false

theorem fmtItem_none_iff (t : DT) (it : Item) : fmtItem t it = none ↔ it.failsNaive = true := by
  cases it with
  | literal s => simp [fmtItem, Item.failsNaive]
  | space s => simp [fmtItem, Item.failsNaive]
  | numeric n p => simp [fmtItem, Item.failsNaive]
  | fixed f => cases f <;> simp [fmtItem, fmtFixed, Item.failsNaive]
  | error => simp [fmtItem, Item.failsNaive]

theorem formatItems_none_iff (t : DT) (its : List Item) :
    formatItems t its = none ↔ its.any Item.failsNaive = true := by
  induction its with
  | nil => simp [formatItems]
  | cons it its ih =>
    simp only [formatItems, List.any_cons, Bool.or_eq_true]
    cases h1 : fmtItem t it with
    | none => simp [(fmtItem_none_iff t it).1 h1]
    | some a =>
      have hn : it.failsNaive = false := by
        cases hf : it.failsNaive with
        | false => rfl
        | true => rw [(fmtItem_none_iff t it).2 hf] at h1; cases h1
      cases h2 : formatItems t its with
      | none => simp [hn, ih.1 h2]
      | some b =>
        have : ¬ (its.any Item.failsNaive = true) := fun hc => by rw [ih.2 hc] at h2; cases h2
        simp [hn, this]

/-! ### a custom format with milliseconds: `%Y-%m-%d %H:%M:%S%.3f` -/

/-- `%Y-%m-%d %H:%M:%S%.3f` -/
def fmtMs : Str := fmtDatetime ++ ['%', '.', '3', 'f']

theorem items_fmtMs : items fmtMs =
    [num0 .year, .literal ['-'], num0 .month, .literal ['-'], num0 .day, .space [' '],
     num0 .hour, .literal [':'], num0 .minute, .literal [':'], num0 .second, .fixed .nanosecond3] := by decide

theorem strftime_ms (t : DT) :
    strftime t fmtMs = some (datetimeText t.year t.month t.day t.hour t.minute t.second ++ '.' :: pad 3 t.milli) := by
  simp [strftime, items_fmtMs, formatItems, fmtItem, fmtNumeric, fmtFixed, num0, writeTwo_zero, writeYear_zero,
    datetimeText, dateText, timeText]

theorem number_3 (a b c : Nat) (ha : a < 10) (hb : b < 10) (hc : c < 10) (r : Str) (min : Nat) (hmin : min ≤ 3) :
    number (a.digitChar :: b.digitChar :: c.digitChar :: r) min 3 = .ok (r, a * 100 + b * 10 + c) := by
  rw [number_def _ _ _ (by simp; omega), numberGo_dc _ _ a ha _ _ _ (by omega) (by simp [i64Max]; omega),
    numberGo_dc _ _ b hb _ _ _ (by omega) (by simp [i64Max]; omega),
    numberGo_dc _ _ c hc _ _ _ (by omega) (by simp [i64Max]; omega), numberGo_stop _ _ _ _ _ (by omega)]
  congr 2; omega

/-- the item `%.3f` on `.mmm` at the end of the input -/
theorem item_dot3f (ml : Nat) (hml : ml < 1000) (oy : Option Int) (om od oh1 oh2 omi os : Option Nat) :
    parseItem (.fixed .nanosecond3) ('.' :: pad 3 ml)
      { year := oy, month := om, day := od, hourDiv12 := oh1, hourMod12 := oh2, minute := omi, second := os } =
      .ok ([], { year := oy, month := om, day := od, hourDiv12 := oh1, hourMod12 := oh2, minute := omi, second := os, nanosecond := some (ml * 1000000) }) := by
  have e : ml / 100 * 100 + ml / 10 % 10 * 10 + ml % 10 = ml := by omega
  have hr : inR 0 999999999 ((ml : Int) * 1000000) = true := inR_true (by omega) (by omega)
  have hn : ((ml : Int) * 1000000).toNat = ml * 1000000 := by omega
  simp only [parseItem, parseFixed, pad3_spec ml hml, setNanoFrom, nanosecondFixed,
    number_3 _ _ _ (by omega : ml / 100 < 10) (by omega : ml / 10 % 10 < 10) (by omega : ml % 10 < 10) [] 3 (by omega), e]
  simp [Parsed.setNanosecond, hr, hn, setIf, Except.map]

section
variable {N : Type} [NumX N]

theorem stringToDatetime_ms (y : Int) (m d h mi s ml : Nat) (h0 : 0 ≤ y) (h1 : y ≤ 9999)
    (hv : validDate y m d = true) (hh : h < 24) (hmi : mi < 60) (hs : s < 60) (hml : ml < 1000) :
    stringToDatetime [(.str (datetimeText y m d h mi s ++ '.' :: pad 3 ml) : Value N), .str fmtMs] =
      some (.ok (encode ⟨daysFromCivil y m d, (h * 3600 + mi * 60 + s) * 1000 + ml⟩)) := by
  have hb := validDate_bounds hv
  have hy : ((y.toNat : Nat) : Int) = y := by omega
  rw [datetimeText_chars y m d h mi s h0 h1 (by omega) (by omega) (by omega) (by omega) (by omega)]
  simp only [stringToDatetime, defaultString, List.getElem?_cons_succ, List.getElem?_cons_zero, parseAll, items_fmtMs,
    List.cons_append, List.nil_append]
  rw [parse_date_chars y.toNat m d (by omega) (by omega) (by omega), if_pos hb,
    parseItems_ok (item_space_dc _ _ (by omega) _ _),
    parse_time_chars' h mi s (by omega) (by omega) (by omega) (some ((y.toNat : Nat) : Int)) (some m) (some d),
    if_pos ⟨hh, hmi, by omega⟩, hy, parseItems_ok (item_dot3f ml hml _ _ _ _ _ _ _)]
  have ht := toNaiveTime_hms
    { year := some y, month := some m, day := some d, hourDiv12 := some (h / 12), hourMod12 := some (h % 12), minute := some mi, second := some s, nanosecond := some (ml * 1000000) }
    h mi s (some (ml * 1000000)) rfl rfl rfl rfl rfl
  have hdte := toNaiveDate_ymd_of
    { year := some y, month := some m, day := some d, hourDiv12 := some (h / 12), hourMod12 := some (h % 12), minute := some mi, second := some s, nanosecond := some (ml * 1000000) }
    y m d none rfl rfl rfl rfl rfl rfl rfl rfl rfl rfl rfl rfl rfl
  rw [if_pos hv] at hdte
  have h60 : ¬ s = 60 := by omega
  have h4 : min s 59 = s := by omega
  have hnano : ¬ (1000000000 ≤ ml * 1000000) := by omega
  have hdiv : ml * 1000000 / 1000000 = ml := by omega
  simp only [parseItems, datetimeOverflow_ok _ 0 rfl _ _ hdte ht, Bool.false_eq_true, if_false, bind, Except.bind,
    Parsed.toNaiveDatetime, hdte, ht, optEqOr, if_true]
  simp [rejectLeap, h60, h4, hnano, hdiv, finish, pure, Except.pure, NDT.millis, NDT.timestamp, encode, encodeMs, DT.totalMs, msPerDay]
  congr 2; omega
end

end Slac.Time
