/-
  SlacProofs.F64Cast — casts of the driver's doubles used by C17: `trunc`, `as i64` on exactly representable
  integers (|n| ≤ 2^53); the ASCII table 0..127 (`inAscii`, `as u32`); every number accepted by `chr`
  converts to a code point ≤ 127; the observation that `chr(65.5)` succeeds.
-/
import SlacProofs.F64Int
import SlacModel.NumX
set_option autoImplicit false
namespace Slac
namespace F64
open Float.Model Float.Model.UnpackedFloat

/-- `trunc` fixes every exactly representable integer |n| ≤ 2^53 -/
theorem trunc_ofInt (n : Int) (h : n.natAbs ≤ 2^53) : trunc (F64.ofInt n) = F64.ofInt n := by
  by_cases h53 : n.natAbs < 2^53
  · by_cases h0 : n = 0
    · subst h0; decide +kernel
    · have hc := canon_ofNat n.natAbs (by omega) h53
      have hn0 : n.natAbs ≠ 0 := by omega
      have hL52 : n.natAbs.log2 < 53 := (Nat.log2_lt hn0).2 h53
      rw [ofInt_eq n h0 h53]
      exact trunc_mkF_int _ _ _ hc (Or.inr ⟨n.natAbs, by
        have : (-((n.natAbs.log2 : Int) - 52)).toNat = 52 - n.natAbs.log2 := by omega
        rw [this, Nat.mul_comm]⟩)
  · have : n = 2^53 ∨ n = -(2^53) := by omega
    rcases this with rfl | rfl <;> decide +kernel

theorem truncToInt_ofInt (n : Int) (h : n.natAbs ≤ 2^53) : truncToInt (F64.ofInt n) = n := by
  by_cases h53 : n.natAbs < 2^53
  · by_cases h0 : n = 0
    · subst h0; decide +kernel
    · have hc := canon_ofNat n.natAbs (by omega) h53
      have hn0 : n.natAbs ≠ 0 := by omega
      have hL52 : n.natAbs.log2 < 53 := (Nat.log2_lt hn0).2 h53
      rw [ofInt_eq n h0 h53]
      unfold truncToInt
      simp only [decode_mkF _ _ _ hc, signBit_mkF _ _ _ hc]
      have hval : (if (n.natAbs.log2 : Int) - 52 ≥ 0
          then (n.natAbs * 2^(52 - n.natAbs.log2)) <<< ((n.natAbs.log2 : Int) - 52).toNat
          else (n.natAbs * 2^(52 - n.natAbs.log2)) >>> (-((n.natAbs.log2 : Int) - 52)).toNat) = n.natAbs := by
        split
        · have e1 : ((n.natAbs.log2 : Int) - 52).toNat = 0 := by omega
          have e2 : 52 - n.natAbs.log2 = 0 := by omega
          rw [e1, e2]; simp
        · have e1 : (-((n.natAbs.log2 : Int) - 52)).toNat = 52 - n.natAbs.log2 := by omega
          rw [e1, Nat.shiftRight_eq_div_pow, Nat.mul_div_cancel _ (Nat.two_pow_pos _)]
      rw [hval]
      unfold sgnOf
      by_cases hneg : n < 0
      · simp [hneg, sbit]; omega
      · simp [hneg, sbit]; omega
  · have : n = 2^53 ∨ n = -(2^53) := by omega
    rcases this with rfl | rfl <;> decide +kernel

theorem isNaN_ofInt (n : Int) (h : n.natAbs ≤ 2^53) : isNaN (F64.ofInt n) = false ∧ isInf (F64.ofInt n) = false := by
  by_cases h53 : n.natAbs < 2^53
  · by_cases h0 : n = 0
    · subst h0; decide +kernel
    · have hc := canon_ofNat n.natAbs (by omega) h53
      rw [ofInt_eq n h0 h53]
      exact ⟨isNaN_mkF _ _ _ hc, isInf_mkF _ _ _ hc⟩
  · have : n = 2^53 ∨ n = -(2^53) := by omega
    rcases this with rfl | rfl <;> decide +kernel

/-- `(n as f64) as i64 = n` for |n| ≤ 2^53 -/
theorem toI64_ofInt (n : Int) (h : n.natAbs ≤ 2^53) : toI64 (F64.ofInt n) = n := by
  unfold toI64 toIntSat
  rw [(isNaN_ofInt n h).1, (isNaN_ofInt n h).2, truncToInt_ofInt n h]
  simp only [Bool.false_eq_true, if_false]
  rw [if_neg (by omega), if_neg (by omega)]

theorem ascii_table : ∀ n : Nat, n ≤ 127 →
    NumX.inAscii (NumX.ofNat n : Float) = true ∧ NumX.toU32 (NumX.ofNat n : Float) = n := by
  decide +kernel

/-- observation: `chr` accepts fractions inside 0..127 and truncates them (`65.5 as u32 = 65`) -/
theorem chr_fraction_accepted :
    Stdlib.chr [(.num (Float.ofScientific 655 true 1) : Value Float)] = .ok (.str ['A']) := by
  have h : NumX.inAscii (Float.ofScientific 655 true 1) = true ∧ NumX.toU32 (Float.ofScientific 655 true 1) = 65 := by
    decide +kernel
  simp only [Stdlib.chr, h.1, h.2, if_true]

theorem bits_127 : bits (NumX.ofNat 127 : Float) = 0x405FC00000000000 := by decide +kernel
theorem bits_numzero : bits (NumOps.zero : Float) = 0 := by decide +kernel

theorem pcmpN_ge (a b : Nat)
    (h : (match pcmpN a b with | some .gt | some .eq => true | _ => false) = true) :
    isNaNN a = false ∧ keyN b ≤ keyN a := by
  unfold pcmpN at h
  by_cases hn : (isNaNN a || isNaNN b) = true
  · rw [if_pos hn] at h; simp at h
  · rw [if_neg hn] at h
    have hna : isNaNN a = false := by cases ha : isNaNN a <;> simp_all
    refine ⟨hna, ?_⟩
    unfold cmpInt at h
    by_cases h1 : keyN a < keyN b
    · rw [if_pos h1] at h; simp at h
    · omega

theorem pcmpN_le (a b : Nat)
    (h : (match pcmpN a b with | some .lt | some .eq => true | _ => false) = true) :
    isNaNN a = false ∧ keyN a ≤ keyN b := by
  unfold pcmpN at h
  by_cases hn : (isNaNN a || isNaNN b) = true
  · rw [if_pos hn] at h; simp at h
  · rw [if_neg hn] at h
    have hna : isNaNN a = false := by cases ha : isNaNN a <;> simp_all
    refine ⟨hna, ?_⟩
    unfold cmpInt at h
    by_cases h1 : keyN a < keyN b
    · omega
    · rw [if_neg h1] at h
      by_cases h2 : keyN b < keyN a
      · rw [if_pos h2] at h; simp at h
      · omega

/-- everything `chr` accepts has magnitude bits at most those of 127.0 and is +x or -0 -/
theorem inAscii_bits (x : Float) (h : NumX.inAscii x = true) :
    magN (bits x) ≤ 0x405FC00000000000 ∧ (negN (bits x) = true → magN (bits x) = 0) := by
  unfold NumX.inAscii NumX.ge0 at h
  rw [Bool.and_eq_true] at h
  obtain ⟨h1, h2⟩ := h
  have e1 : NumOps.pcmp x (NumOps.zero : Float) = pcmpN (bits x) 0 := by
    show pcmpN (bits x) (bits (NumOps.zero : Float)) = _; rw [bits_numzero]
  have e2 : NumOps.pcmp x (NumX.ofNat 127 : Float) = pcmpN (bits x) 0x405FC00000000000 := by
    show pcmpN (bits x) (bits (NumX.ofNat 127 : Float)) = _; rw [bits_127]
  rw [e1] at h1; rw [e2] at h2
  have k0 : keyN 0 = 0 := by decide
  have k127 : keyN 0x405FC00000000000 = 0x405FC00000000000 := by decide
  have hk1 := (pcmpN_ge _ _ h1).2
  have hk2 := (pcmpN_le _ _ h2).2
  rw [k0] at hk1; rw [k127] at hk2
  unfold keyN at hk1 hk2
  by_cases hn : negN (bits x) = true
  · rw [if_pos hn] at hk1 hk2; exact ⟨by omega, fun _ => by omega⟩
  · rw [if_neg hn] at hk1 hk2; exact ⟨by omega, fun h => absurd h hn⟩

set_option exponentiation.threshold 2000 in
/-- everything `chr` accepts converts to a code point 0..127: the result of `chr` is always ASCII -/
theorem toU32_le_of_inAscii (x : Float) (h : NumX.inAscii x = true) : NumX.toU32 x ≤ 127 := by
  obtain ⟨hm, hz⟩ := inAscii_bits x h
  show toU32 x ≤ 127
  have hnan : isNaN x = false := by unfold isNaN isNaNN; simp; omega
  have hinf : isInf x = false := by unfold isInf; simp; omega
  unfold toU32 toIntSat
  rw [hnan, hinf]
  simp only [Bool.false_eq_true, if_false]
  have hb := bits_lt x
  -- magnitude of the truncated value
  have hn : (truncToInt x).natAbs ≤ 127 := by
    unfold truncToInt decode
    simp only [expBits_eq, fracBits_eq]
    have hE : bits x / 2^52 % 2^11 = magN (bits x) / 2^52 := by unfold magN; omega
    have hF : bits x % 2^52 = magN (bits x) % 2^52 := by unfold magN; omega
    rw [hE, hF]
    generalize magN (bits x) = g at hm ⊢
    by_cases h0 : g / 2^52 = 0
    · have : (g / 2^52 == 0) = true := by simp [h0]
      simp only [this, if_true]
      have hlt : g % 2^52 < 2^1074 :=
        Nat.lt_of_lt_of_le (Nat.mod_lt _ (by decide)) (Nat.pow_le_pow_right (by decide) (by decide))
      have : (g % 2^52) >>> 1074 = 0 := by rw [Nat.shiftRight_eq_div_pow]; exact Nat.div_eq_of_lt hlt
      simp [this]
    · have : (g / 2^52 == 0) = false := by simp [h0]
      simp only [this]
      have hE2 : g / 2^52 ≤ 1029 := by omega
      have hneg : ¬ (((g / 2^52 : Nat) : Int) - 1075 ≥ 0) := by omega
      simp only [hneg, if_false, Bool.false_eq_true]
      have hk : (-(((g / 2^52 : Nat) : Int) - 1075)).toNat = 1075 - g / 2^52 := by omega
      rw [hk, Nat.shiftRight_eq_div_pow]
      have hq : (g % 2^52 + 2^52) / 2^(1075 - g / 2^52) ≤ 127 := by
        by_cases h29 : g / 2^52 = 1029
        · rw [h29]; omega
        · have : 2^47 ≤ 2^(1075 - g / 2^52) := Nat.pow_le_pow_right (by decide) (by omega)
          calc (g % 2^52 + 2^52) / 2^(1075 - g / 2^52) ≤ (g % 2^52 + 2^52) / 2^47 :=
                Nat.div_le_div_left this (by decide)
            _ ≤ 127 := by omega
      generalize (g % 2^52 + 2^52) / 2^(1075 - g / 2^52) = q at hq ⊢
      split <;> omega
  omega

end F64
end Slac
