/-
  SlacProofs.F64Sem — the VALUE of a double, and exactness of `F64.ofNatScaled` / `F64.rem` (C `fmod`) / `F64.trunc`.
  Every finite double is an integer number of units of 2^-1074 (the smallest subnormal):
    `unitsN x : Nat`  magnitude,  `units x : Int`  signed value  (x = units x · 2^-1074).
  * `finite_cases`: a finite double is a signed zero or a canonical `mkF s m e`;
  * `ofNatScaled_exact`: for 0 < m < 2^53, e ≥ -1074, m·2^e < 2^1024 the double `ofNatScaled neg m e` IS ± m·2^e
    (canonical mantissa m·2^j, exponent e - j);  `unitsN_ofNatScaled`: its value in units is m·2^(e+1074);
  * `rem_finite`: for finite x and finite non-zero y: `rem x y` is finite, has the sign bit of x and
    `unitsN (rem x y) = unitsN x % unitsN y`;  `units_rem`: `units (rem x y) = (units x).tmod (units y)`
    (truncated remainder x - trunc(x/y)·y, computed exactly);  `rem_decoded`: the decode-level form;
  * `units_trunc`: `units (trunc x) = (units x).tdiv 2^1074 * 2^1074` (the integer part, toward zero).
-/
import SlacProofs.F64Frac
set_option autoImplicit false
namespace Slac
namespace F64
open Float.Model Float.Model.UnpackedFloat

/-- Bool sign ↦ core's `Sign` -/
def signOf (neg : Bool) : Sign := if neg then .negative else .positive

theorem sbit_signOf (neg : Bool) : sbit (signOf neg) = if neg then 1 else 0 := by cases neg <;> rfl

/-- magnitude of a finite double in units of 2^-1074 -/
def unitsN (x : Float) : Nat := (decode x).1 * 2^((decode x).2 + 1074).toNat
/-- value of a finite double in units of 2^-1074: x = units x · 2^-1074 -/
def units (x : Float) : Int := if signBit x then -(unitsN x : Int) else (unitsN x : Int)

theorem natAbs_units (x : Float) : (units x).natAbs = unitsN x := by
  unfold units; split <;> omega

theorem fin_not_nan (x : Float) (hf : isFinite x = true) : isNaN x = false ∧ isInf x = false := by
  unfold isFinite at hf; rw [decide_eq_true_eq] at hf
  unfold isNaN isNaNN isInf
  constructor <;> rw [decide_eq_false_iff_not] <;> omega

theorem isFinite_mkF (s : Sign) (m : Nat) (e : Int) (h : Canon m e) : isFinite (mkF s m e h.pos) = true := by
  have := magOf_lt m e h
  unfold isFinite; rw [mag_mkF s m e h, decide_eq_true_eq]; exact this

theorem unitsN_mkF (s : Sign) (m : Nat) (e : Int) (h : Canon m e) :
    unitsN (mkF s m e h.pos) = m * 2^(e + 1074).toNat := by
  unfold unitsN; rw [decode_mkF s m e h]

theorem unitsN_mkF_pos (s : Sign) (m : Nat) (e : Int) (h : Canon m e) : 0 < unitsN (mkF s m e h.pos) := by
  rw [unitsN_mkF s m e h]; exact Nat.mul_pos h.pos (Nat.two_pow_pos _)

/-! ### signed zeros -/

theorem signBit_zeroF (s : Sign) : signBit (zeroF s) = decide (sbit s = 1) := by
  have := sbit_le s
  rw [signBit_eq, bits_zeroF]; congr 1; apply propext; omega

theorem isZero_zeroF (s : Sign) : isZero (zeroF s) = true := by
  have := sbit_le s
  unfold isZero magN; rw [bits_zeroF, decide_eq_true_eq]; omega

theorem isFinite_zeroF (s : Sign) : isFinite (zeroF s) = true := by
  have := sbit_le s
  unfold isFinite magN; rw [bits_zeroF, decide_eq_true_eq]; omega

theorem decode_of_isZero (x : Float) (hz : isZero x = true) : decode x = (0, -1074) := by
  have hb := bits_lt x
  unfold isZero magN at hz; rw [decide_eq_true_eq] at hz
  unfold decode
  simp only [expBits_eq, fracBits_eq]
  have hE : bits x / 2^52 % 2^11 = 0 := by omega
  have hM : bits x % 2^52 = 0 := by omega
  rw [hE, hM]; rfl

theorem unitsN_of_isZero (x : Float) (hz : isZero x = true) : unitsN x = 0 := by
  unfold unitsN; rw [decode_of_isZero x hz]; simp

theorem unitsN_zeroF (s : Sign) : unitsN (zeroF s) = 0 := unitsN_of_isZero _ (isZero_zeroF s)

theorem ofParts_zero (neg : Bool) : ofParts neg 0 = zeroF (signOf neg) := by
  apply eq_of_bits_eq
  rw [bits_ofParts neg 0 (by decide), bits_zeroF, sbit_signOf]
  cases neg <;> simp

/-- a finite double is a signed zero or a canonical `mkF` -/
theorem finite_cases (x : Float) (hf : isFinite x = true) :
    (∃ s, x = zeroF s) ∨ ∃ (s : Sign) (m : Nat) (e : Int) (h : Canon m e), x = mkF s m e h.pos := by
  by_cases hz : isZero x = true
  · left
    have hb := bits_lt x
    unfold isZero magN at hz; rw [decide_eq_true_eq] at hz
    have : bits x = 0 ∨ bits x = 2^63 := by omega
    rcases this with h0 | h0
    · exact ⟨.positive, eq_of_bits_eq (by rw [h0, bits_zeroF]; rfl)⟩
    · exact ⟨.negative, eq_of_bits_eq (by rw [h0, bits_zeroF]; rfl)⟩
  · right
    have hz' : isZero x = false := by cases h : isZero x <;> simp_all
    exact exists_mkF x hf hz'

theorem isZero_iff_unitsN (x : Float) (hf : isFinite x = true) : isZero x = true ↔ unitsN x = 0 := by
  rcases finite_cases x hf with ⟨s, rfl⟩ | ⟨s, m, e, h, rfl⟩
  · simp [isZero_zeroF, unitsN_zeroF]
  · have := unitsN_mkF_pos s m e h
    rw [isZero_mkF s m e h]; constructor
    · intro h'; cases h'
    · intro h'; omega

/-! ### `ofNatScaled` represents m·2^e exactly -/

theorem ofNatScaled_zero (neg : Bool) (e : Int) : ofNatScaled neg 0 e = zeroF (signOf neg) := by
  unfold ofNatScaled; simp only [beq_self_eq_true, if_true]; exact ofParts_zero neg

theorem ofParts_subnormal (neg : Bool) (f : Nat) (hpos : 0 < f) (hlt : f < 2^52) :
    ofParts neg f = mkF (signOf neg) f (-1074) hpos := by
  have hc : Canon f (-1074) := Canon.of_subnormal hpos hlt
  apply eq_of_bits_eq
  rw [bits_mkF2 (signOf neg) f (-1074) hc, bits_ofParts neg f (by omega), sbit_signOf]
  have hl : f.log2 < 52 := log2_lt_of _ _ hlt (by omega)
  unfold magOf; rw [if_neg (show ¬ f.log2 = 52 by omega)]
  cases neg
  · simp only [Bool.false_eq_true, if_false]; omega
  · simp only [if_true]; omega

theorem ofParts_normal (neg : Bool) (sig be : Nat) (T : Int) (hc : Canon sig T) (h52 : 2^52 ≤ sig)
    (hbe : be = (T + 1075).toNat) :
    ofParts neg (be * 2^52 + (sig - 2^52)) = mkF (signOf neg) sig T hc.pos := by
  have hlt := hc.lt; have hle := hc.le; have hge := hc.ge
  have hlog : sig.log2 = 52 := log2_eq_of _ _ h52 hlt
  apply eq_of_bits_eq
  rw [bits_mkF2 _ _ _ hc, sbit_signOf]
  unfold magOf; rw [if_pos hlog, ← hbe]
  have hbe2 : be ≤ 2046 := by omega
  rw [bits_ofParts neg (be * 2^52 + (sig - 2^52)) (by omega)]
  cases neg
  · simp only [Bool.false_eq_true, if_false]; omega
  · simp only [if_true]; omega

/-- for 0 < m < 2^53, e ≥ -1074 and m·2^e < 2^1024 the double `ofNatScaled neg m e` is the canonical float
    ± (m·2^j)·2^(e-j): the value ± m·2^e, exactly -/
theorem ofNatScaled_exact (neg : Bool) (m : Nat) (e : Int) (hm : 0 < m) (h53 : m < 2^53) (he : -1074 ≤ e)
    (htop : e + (m.log2 : Int) ≤ 1023) :
    ∃ (j : Nat) (hc : Canon (m * 2^j) (e - j)), ofNatScaled neg m e = mkF (signOf neg) (m * 2^j) (e - j) hc.pos := by
  have hm0 : m ≠ 0 := by omega
  have hL : m.log2 < 53 := (Nat.log2_lt hm0).2 h53
  have hbeq : (m == 0) = false := by simp [hm0]
  unfold ofNatScaled
  simp only [hbeq, Bool.false_eq_true, if_false]
  generalize hLL : m.log2 = L at *
  have hlo : 2^L ≤ m := by rw [← hLL]; exact Nat.log2_self_le hm0
  have hhi : m < 2^(L + 1) := by rw [← hLL]; exact Nat.lt_log2_self
  by_cases hsub : e + ((L + 1 : Nat) : Int) - 1 < -1022
  · -- subnormal result
    rw [if_pos hsub, if_pos (by omega)]
    generalize hj : (e + 1074).toNat = j
    have hlt : m * 2^j < 2^52 := by
      calc m * 2^j < 2^(L + 1) * 2^j := Nat.mul_lt_mul_of_pos_right hhi (Nat.two_pow_pos j)
        _ = 2^(L + 1 + j) := (Nat.pow_add _ _ _).symm
        _ ≤ 2^52 := Nat.pow_le_pow_right (by decide) (by omega)
    have hpos : 0 < m * 2^j := Nat.mul_pos hm (Nat.two_pow_pos j)
    have hc : Canon (m * 2^j) (-1074) := Canon.of_subnormal hpos hlt
    have hej : e - (j : Int) = -1074 := by omega
    have key : ∀ (T : Int), T = -1074 → ∀ hcT : Canon (m * 2^j) T,
        ofParts neg (m * 2^j) = mkF (signOf neg) (m * 2^j) T hcT.pos := by
      intro T hT hcT; subst hT; exact ofParts_subnormal neg (m * 2^j) hpos hlt
    rw [Nat.shiftLeft_eq]
    have hc' : Canon (m * 2^j) (e - (j : Int)) := by rw [hej]; exact hc
    exact ⟨j, hc', key _ hej hc'⟩
  · -- normal result
    rw [if_neg hsub, if_pos (by omega)]
    have hsh : ((53 : Int) - ((L + 1 : Nat) : Int)).toNat = 52 - L := by omega
    rw [hsh, Nat.shiftLeft_eq]
    have hlog : (m * 2^(52 - L)).log2 = 52 := by rw [log2_mul_two_pow m _ hm0, hLL]; omega
    have hpos : 0 < m * 2^(52 - L) := Nat.mul_pos hm (Nat.two_pow_pos _)
    have h52 : 2^52 ≤ m * 2^(52 - L) := (Nat.le_log2 (by omega)).1 (by omega)
    have h53' : m * 2^(52 - L) < 2^53 := (Nat.log2_lt (by omega)).1 (by omega)
    have hc : Canon (m * 2^(52 - L)) (e - ((52 - L : Nat) : Int)) :=
      Canon.of_normal h52 h53' (by omega) (by omega)
    exact ⟨52 - L, hc, ofParts_normal neg _ _ _ hc h52 (by omega)⟩

/-- value of `ofNatScaled` in units of 2^-1074 -/
theorem unitsN_ofNatScaled (neg : Bool) (m : Nat) (e : Int) (h53 : m < 2^53) (he : -1074 ≤ e)
    (htop : e + (m.log2 : Int) ≤ 1023) :
    unitsN (ofNatScaled neg m e) = m * 2^(e + 1074).toNat ∧ signBit (ofNatScaled neg m e) = neg ∧
    isFinite (ofNatScaled neg m e) = true := by
  by_cases hm : m = 0
  · subst hm
    rw [ofNatScaled_zero, unitsN_zeroF, signBit_zeroF, isFinite_zeroF, sbit_signOf]
    cases neg <;> simp
  · obtain ⟨j, hc, heq⟩ := ofNatScaled_exact neg m e (by omega) h53 he htop
    rw [heq, unitsN_mkF _ _ _ hc, signBit_mkF _ _ _ hc, isFinite_mkF _ _ _ hc, sbit_signOf]
    have hge := hc.ge
    refine ⟨?_, by cases neg <;> simp, rfl⟩
    rw [Nat.mul_assoc, ← Nat.pow_add]
    congr 2; omega

/-! ### C `fmod` -/

theorem rem_zero_left (s : Sign) (y : Float) (hy : isFinite y = true) (hy0 : isZero y = false) :
    rem (zeroF s) y = zeroF s := by
  obtain ⟨hn, hi⟩ := fin_not_nan y hy
  obtain ⟨hn', hi'⟩ := fin_not_nan _ (isFinite_zeroF s)
  unfold rem
  simp only [hn, hi, hn', hi', hy0, isZero_zeroF, Bool.or_self, Bool.false_eq_true, if_false, if_true]

/-- the arithmetic of `rem` on two canonical floats -/
theorem rem_mkF_units (s1 s2 : Sign) (m1 m2 : Nat) (e1 e2 : Int) (h1 : Canon m1 e1) (h2 : Canon m2 e2) :
    signBit (rem (mkF s1 m1 e1 h1.pos) (mkF s2 m2 e2 h2.pos)) = decide (sbit s1 = 1) ∧
    isFinite (rem (mkF s1 m1 e1 h1.pos) (mkF s2 m2 e2 h2.pos)) = true ∧
    unitsN (rem (mkF s1 m1 e1 h1.pos) (mkF s2 m2 e2 h2.pos)) =
      ((m1 * 2^(e1 - min e1 e2).toNat) % (m2 * 2^(e2 - min e1 e2).toNat)) * 2^(min e1 e2 + 1074).toNat := by
  rw [rem_mkF s1 s2 m1 m2 e1 e2 h1 h2, Nat.shiftLeft_eq, Nat.shiftLeft_eq]
  have hg1 := h1.ge; have hg2 := h2.ge
  have hl1 := h1.lt; have hl2 := h2.lt
  have hle2 := h2.le
  generalize he : min e1 e2 = e
  generalize ha : (e1 - e).toNat = a
  generalize hb : (e2 - e).toNat = b
  have hYpos : 0 < m2 * 2^b := Nat.mul_pos h2.pos (Nat.two_pow_pos b)
  have hRY : m1 * 2^a % (m2 * 2^b) < m2 * 2^b := Nat.mod_lt _ hYpos
  have hRX : m1 * 2^a % (m2 * 2^b) ≤ m1 * 2^a := Nat.mod_le _ _
  generalize hR : m1 * 2^a % (m2 * 2^b) = R at *
  have hR53 : R < 2^53 := by
    by_cases hc : e1 ≤ e2
    · have : a = 0 := by omega
      rw [this, Nat.pow_zero, Nat.mul_one] at hRX; omega
    · have : b = 0 := by omega
      rw [this, Nat.pow_zero, Nat.mul_one] at hRY; omega
  have htop : e + (R.log2 : Int) ≤ 1023 := by
    by_cases hR0 : R = 0
    · rw [hR0, Nat.log2_zero]; omega
    · have : R < 2^(53 + b) := by
        calc R < m2 * 2^b := hRY
          _ < 2^53 * 2^b := Nat.mul_lt_mul_of_pos_right hl2 (Nat.two_pow_pos b)
          _ = 2^(53 + b) := (Nat.pow_add _ _ _).symm
      have := (Nat.log2_lt hR0).2 this
      omega
  obtain ⟨u1, u2, u3⟩ := unitsN_ofNatScaled (decide (sbit s1 = 1)) R e hR53 (by omega) htop
  exact ⟨u2, u3, u1⟩

/-- **C `fmod`, exactly**: for finite x and finite non-zero y the result is finite, carries the sign bit of x
    (also when it is zero) and its magnitude is the remainder of the magnitudes, in units of 2^-1074 -/
theorem rem_finite (x y : Float) (hx : isFinite x = true) (hy : isFinite y = true) (hy0 : isZero y = false) :
    signBit (rem x y) = signBit x ∧ isFinite (rem x y) = true ∧ unitsN (rem x y) = unitsN x % unitsN y := by
  obtain ⟨s2, m2, e2, h2, rfl⟩ := exists_mkF y hy hy0
  rcases finite_cases x hx with ⟨s, rfl⟩ | ⟨s1, m1, e1, h1, rfl⟩
  · rw [rem_zero_left s _ hy hy0, unitsN_zeroF]
    exact ⟨rfl, isFinite_zeroF s, by simp⟩
  · obtain ⟨r1, r2, r3⟩ := rem_mkF_units s1 s2 m1 m2 e1 e2 h1 h2
    refine ⟨by rw [r1, signBit_mkF s1 m1 e1 h1], r2, ?_⟩
    rw [r3, unitsN_mkF _ _ _ h1, unitsN_mkF _ _ _ h2]
    have hg1 := h1.ge; have hg2 := h2.ge
    generalize he : min e1 e2 = e
    have e1' : (e1 + 1074).toNat = (e1 - e).toNat + (e + 1074).toNat := by omega
    have e2' : (e2 + 1074).toNat = (e2 - e).toNat + (e + 1074).toNat := by omega
    rw [e1', e2', Nat.pow_add, Nat.pow_add, ← Nat.mul_assoc, ← Nat.mul_assoc, Nat.mul_mod_mul_right]

/-- the same on signed values: the truncated remainder `x - trunc(x/y)·y` of the exact values -/
theorem units_rem (x y : Float) (hx : isFinite x = true) (hy : isFinite y = true) (hy0 : isZero y = false) :
    units (rem x y) = (units x).tmod (units y) := by
  obtain ⟨r1, _, r3⟩ := rem_finite x y hx hy hy0
  unfold units
  rw [r1, r3]
  cases signBit x <;> cases signBit y <;>
    simp only [Bool.false_eq_true, if_false, if_true, Int.tmod_neg, Int.neg_tmod, Int.ofNat_tmod]

/-- `|rem x y| < |y|` -/
theorem unitsN_rem_lt (x y : Float) (hx : isFinite x = true) (hy : isFinite y = true) (hy0 : isZero y = false) :
    unitsN (rem x y) < unitsN y := by
  rw [(rem_finite x y hx hy hy0).2.2]
  apply Nat.mod_lt
  have : unitsN y ≠ 0 := fun h0 => by
    have := (isZero_iff_unitsN y hy).2 h0; rw [hy0] at this; cases this
  omega

/-- decode-level form: with x = ± mx·2^ex, y = ± my·2^ey and e = min ex ey, the result is the double
    `ofNatScaled (sign x) ((mx·2^(ex-e)) mod (my·2^(ey-e))) e`, which represents that number exactly -/
theorem rem_decoded (x y : Float) (hx : isFinite x = true) (hx0 : isZero x = false)
    (hy : isFinite y = true) (hy0 : isZero y = false) :
    rem x y = ofNatScaled (signBit x)
      (((decode x).1 * 2^((decode x).2 - min (decode x).2 (decode y).2).toNat) %
        ((decode y).1 * 2^((decode y).2 - min (decode x).2 (decode y).2).toNat)) (min (decode x).2 (decode y).2) ∧
    unitsN (rem x y) =
      (((decode x).1 * 2^((decode x).2 - min (decode x).2 (decode y).2).toNat) %
        ((decode y).1 * 2^((decode y).2 - min (decode x).2 (decode y).2).toNat)) *
        2^(min (decode x).2 (decode y).2 + 1074).toNat := by
  obtain ⟨s1, m1, e1, h1, rfl⟩ := exists_mkF x hx hx0
  obtain ⟨s2, m2, e2, h2, rfl⟩ := exists_mkF y hy hy0
  rw [decode_mkF _ _ _ h1, decode_mkF _ _ _ h2, signBit_mkF _ _ _ h1]
  refine ⟨?_, (rem_mkF_units s1 s2 m1 m2 e1 e2 h1 h2).2.2⟩
  rw [rem_mkF s1 s2 m1 m2 e1 e2 h1 h2, Nat.shiftLeft_eq, Nat.shiftLeft_eq]

/-! ### `trunc` is the integer part -/

theorem units_zeroF (s : Sign) : units (zeroF s) = 0 := by
  unfold units; rw [unitsN_zeroF]; split <;> rfl

set_option exponentiation.threshold 2000 in
/-- `trunc x` is the integer part of x, rounded toward zero: in units of 2^-1074 (1 = 2^1074 units) -/
theorem unitsN_trunc (x : Float) (hx : isFinite x = true) :
    unitsN (trunc x) = unitsN x / 2^1074 * 2^1074 ∧ isFinite (trunc x) = true := by
  rcases finite_cases x hx with ⟨s, rfl⟩ | ⟨s, m, e, h, rfl⟩
  · have : trunc (zeroF s) = zeroF s := by
      apply eq_of_bits_eq
      have := sbit_le s
      rw [bits_trunc, bits_zeroF, truncN_small _ (by omega)]; omega
    rw [this, unitsN_zeroF]; exact ⟨by simp, isFinite_zeroF s⟩
  · have hlt := h.lt; have hge := h.ge
    by_cases he0 : 0 ≤ e
    · rw [trunc_mkF_int s m e h (Or.inl he0), unitsN_mkF _ _ _ h]
      refine ⟨?_, isFinite_mkF _ _ _ h⟩
      have : (e + 1074).toNat = e.toNat + 1074 := by omega
      rw [this, Nat.pow_add, ← Nat.mul_assoc, Nat.mul_div_cancel _ (Nat.two_pow_pos 1074)]
    · by_cases he : e < -52
      · rw [trunc_mkF_small s m e h he, unitsN_zeroF, unitsN_mkF _ _ _ h]
        refine ⟨?_, isFinite_zeroF s⟩
        have : m * 2^(e + 1074).toNat < 2^1074 := by
          calc m * 2^(e + 1074).toNat < 2^53 * 2^(e + 1074).toNat :=
                Nat.mul_lt_mul_of_pos_right hlt (Nat.two_pow_pos _)
            _ = 2^(53 + (e + 1074).toNat) := (Nat.pow_add _ _ _).symm
            _ ≤ 2^1074 := Nat.pow_le_pow_right (by decide) (by omega)
        rw [Nat.div_eq_of_lt this, Nat.zero_mul]
      · obtain ⟨hc', ht⟩ := trunc_mkF_mid s m e h (by omega) (by omega)
        rw [ht, unitsN_mkF _ _ _ hc', unitsN_mkF _ _ _ h]
        refine ⟨?_, isFinite_mkF _ _ _ hc'⟩
        generalize hk : (-e).toNat = k
        have hk' : (e + 1074).toNat = 1074 - k := by omega
        have hpow : (2:Nat)^1074 = 2^k * 2^(1074 - k) := by rw [← Nat.pow_add]; congr 1; omega
        rw [hk', hpow, Nat.mul_div_mul_right _ _ (Nat.two_pow_pos _), Nat.mul_assoc]

theorem tdiv_units_aux (sg : Bool) (u P : Nat) :
    (if sg then -((u / P * P : Nat) : Int) else ((u / P * P : Nat) : Int)) =
      (if sg then -(u : Int) else (u : Int)).tdiv (P : Int) * (P : Int) := by
  cases sg
  · simp only [Bool.false_eq_true, if_false]
    rw [← Int.ofNat_tdiv]; norm_cast
  · simp only [if_true]
    rw [Int.neg_tdiv, ← Int.ofNat_tdiv, Int.neg_mul]; norm_cast

set_option exponentiation.threshold 2000 in
theorem units_trunc (x : Float) (hx : isFinite x = true) :
    units (trunc x) = (units x).tdiv (2^1074) * 2^1074 := by
  unfold units
  rw [trunc_signBit, (unitsN_trunc x hx).1]
  have := tdiv_units_aux (signBit x) (unitsN x) (2^1074)
  rw [Int.natCast_pow] at this
  exact this

end F64
end Slac
