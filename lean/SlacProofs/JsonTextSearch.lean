/-
  SlacProofs.JsonTextSearch — the digit search of the JSON number printer (`JsonText.shortest`: `F64.displaySearch`
  with ryu's ties-to-even rule) settles on a candidate that reads back: for every positive finite double m·2^e
  `sciOf c p = m·2^e` for (c, p) = `shortest (m·2^e)`, with 0 < c and |p| ≤ 400.
  Reuses `step17_ok` (the search succeeds at 17 digits at the latest), `strip_inv`, `eq_of_beq_mkF` of F64Search.
-/
import SlacProofs.F64Search
import SlacModel.JsonText
set_option autoImplicit false
namespace Slac
namespace JsonText
open F64 Float.Model Float.Model.UnpackedFloat

theorem jsonSearch_succ (ax : Float) (num den : Nat) (k : Int) (n fuel : Nat) :
    jsonSearch ax num den k n (fuel + 1) =
      (if (decide (loOf num den (k - n) > 0) && (sciOf (loOf num den (k - n)) (k - n) == ax)
            && (sciOf (loOf num den (k - n) + 1) (k - n) == ax)) = true then
        (if (decide (2 * vnOf num (k - n) < (loOf num den (k - n) + (loOf num den (k - n) + 1)) * vdOf den (k - n))
              || (2 * vnOf num (k - n) == (loOf num den (k - n) + (loOf num den (k - n) + 1)) * vdOf den (k - n)
                  && loOf num den (k - n) % 2 == 0)) = true
          then (loOf num den (k - n), k - n) else (loOf num den (k - n) + 1, k - n))
      else if (decide (loOf num den (k - n) > 0) && (sciOf (loOf num den (k - n)) (k - n) == ax)) = true then
        (loOf num den (k - n), k - n)
      else if (sciOf (loOf num den (k - n) + 1) (k - n) == ax) = true then (loOf num den (k - n) + 1, k - n)
      else jsonSearch ax num den k (n + 1) fuel) := by
  rw [jsonSearch]
  rfl

/-- if some step within the fuel succeeds, the search returns a candidate that reads back (`==`) as ax -/
theorem jsonSearch_found (ax : Float) (num den : Nat) (k : Int) (fuel n : Nat)
    (h : ∃ n₀, n ≤ n₀ ∧ n₀ < n + fuel ∧ StepOk ax num den k n₀) :
    0 < (jsonSearch ax num den k n fuel).1 ∧
    (sciOf (jsonSearch ax num den k n fuel).1 (jsonSearch ax num den k n fuel).2 == ax) = true ∧
    ∃ n₁, n ≤ n₁ ∧ n₁ < n + fuel ∧ (jsonSearch ax num den k n fuel).2 = k - n₁ := by
  induction fuel generalizing n with
  | zero => obtain ⟨n₀, h1, h2, _⟩ := h; omega
  | succ fuel ih =>
    rw [jsonSearch_succ]
    by_cases hLo : (decide (loOf num den (k - n) > 0) && (sciOf (loOf num den (k - n)) (k - n) == ax)) = true
    · have hLo' := hLo
      rw [Bool.and_eq_true, decide_eq_true_eq] at hLo'
      by_cases hHi : (sciOf (loOf num den (k - n) + 1) (k - n) == ax) = true
      · rw [if_pos (by rw [Bool.and_eq_true]; exact ⟨hLo, hHi⟩)]
        split
        · exact ⟨hLo'.1, hLo'.2, n, by omega, by omega, rfl⟩
        · exact ⟨by omega, hHi, n, by omega, by omega, rfl⟩
      · rw [if_neg (by rw [Bool.and_eq_true]; exact fun h => hHi h.2), if_pos hLo]
        exact ⟨hLo'.1, hLo'.2, n, by omega, by omega, rfl⟩
    · rw [if_neg (by rw [Bool.and_eq_true]; exact fun h => hLo h.1), if_neg hLo]
      by_cases hHi : (sciOf (loOf num den (k - n) + 1) (k - n) == ax) = true
      · rw [if_pos hHi]; exact ⟨by omega, hHi, n, by omega, by omega, rfl⟩
      · rw [if_neg hHi]
        obtain ⟨n₀, h1, h2, h3⟩ := h
        have hne : n₀ ≠ n := by
          intro heq; subst heq
          rcases h3 with ⟨hpos, hb⟩ | hb
          · exact hLo (by rw [Bool.and_eq_true, decide_eq_true_eq]; exact ⟨hpos, hb⟩)
          · exact hHi hb
        obtain ⟨r1, r2, n₁, r3, r4, r5⟩ := ih (n + 1) ⟨n₀, by omega, by omega, h3⟩
        exact ⟨r1, r2, n₁, by omega, by omega, r5⟩

/-- `shortest` with the decoded magnitude as a parameter -/
def candJ (ax : Float) (d : Nat × Int) : Nat × Int :=
  let (m, e) := d
  let num : Nat := if e ≥ 0 then m <<< e.toNat else m
  let den : Nat := if e ≥ 0 then 1 else 1 <<< (-e).toNat
  let k0 : Int := (decLen num : Int) - (decLen den : Int)
  let k : Int := selK num den k0
  let (c, p) := jsonSearch ax num den k 1 18
  stripZeros c p 20

theorem shortest_eq (ax : Float) : shortest ax = candJ ax (decode ax) := rfl

/-- the candidate the JSON printer settles on for the positive double m·2^e converts back to it -/
theorem candJ_ok (m : Nat) (e : Int) (hm : Canon m e) :
    0 < (candJ (mkF .positive m e hm.pos) (m, e)).1 ∧
    sciOf (candJ (mkF .positive m e hm.pos) (m, e)).1 (candJ (mkF .positive m e hm.pos) (m, e)).2 =
      mkF .positive m e hm.pos ∧
    -400 ≤ (candJ (mkF .positive m e hm.pos) (m, e)).2 ∧ (candJ (mkF .positive m e hm.pos) (m, e)).2 ≤ 400 := by
  unfold candJ
  simp only []
  have hnum : (if e ≥ 0 then m <<< e.toNat else m) = numOf m e := rfl
  have hden : (if e ≥ 0 then 1 else 1 <<< (-e).toNat) = denOf e := rfl
  rw [hnum, hden]
  have hnpos := numOf_pos m e hm.pos
  have ha1 := decLen_pos (numOf m e)
  have ha2 := decLen_numOf m e hm
  have hb1 := decLen_pos (denOf e)
  have hb2 := decLen_denOf e hm.ge
  have hk1 := selK_ge (numOf m e) (denOf e) ((decLen (numOf m e) : Int) - (decLen (denOf e) : Int))
  have hk2 := selK_le (numOf m e) (denOf e) ((decLen (numOf m e) : Int) - (decLen (denOf e) : Int))
  have hge := selK_spec (numOf m e) (denOf e) _ (geTen_base (numOf m e) (denOf e) hnpos)
  generalize hk : selK (numOf m e) (denOf e) ((decLen (numOf m e) : Int) - (decLen (denOf e) : Int)) = k at *
  have hstep := step17_ok m e hm k (by omega) (by omega) hge
  obtain ⟨r1, r2, n₁, r3, r4, r5⟩ := jsonSearch_found (mkF .positive m e hm.pos) (numOf m e) (denOf e) k 18 1
    ⟨17, by omega, by omega, hstep⟩
  have r2' := eq_of_beq_mkF _ m e hm r2
  generalize jsonSearch (mkF .positive m e hm.pos) (numOf m e) (denOf e) k 1 18 = cp at *
  obtain ⟨c, p⟩ := cp
  simp only [] at r1 r2' r5 ⊢
  obtain ⟨s1, s2, s3, s4⟩ := strip_inv 20 c p r1 (by omega) (by omega)
  exact ⟨s1, by rw [s2, r2'], by omega, by omega⟩

/-- the magnitude of a finite non-zero double, as the printer forms it -/
def absF (x : Float) : Float := if signBit x then -x else x

/-- **the printer's digits read back**: for every finite non-zero x, with (c, p) = `shortest |x|`:
    0 < c, |p| ≤ 400 and `sciOf c p = |x|` -/
theorem shortest_ok (x : Float) (hf : isFinite x = true) (hz : isZero x = false) :
    0 < (shortest (absF x)).1 ∧ sciOf (shortest (absF x)).1 (shortest (absF x)).2 = absF x ∧
    -400 ≤ (shortest (absF x)).2 ∧ (shortest (absF x)).2 ≤ 400 := by
  obtain ⟨s, m, e, h, rfl⟩ := exists_mkF x hf hz
  have hax : absF (mkF s m e h.pos) = mkF .positive m e h.pos := by
    unfold absF
    rw [signBit_mkF s m e h]
    cases s
    · simp only [sbit, decide_true, if_true]; rw [neg_mkF _ _ _ h]; rfl
    · simp [sbit]
  rw [hax, shortest_eq, decode_mkF _ _ _ h]
  exact candJ_ok m e h

/-- `-|x| = x` for a negative x, `|x| = x` otherwise (x not NaN) -/
theorem sgnB_absF (x : Float) (hf : isFinite x = true) : sgnB (signBit x) (absF x) = x := by
  unfold sgnB absF
  cases hs : signBit x
  · rfl
  · simp only [if_true]
    apply neg_neg_of_not_nan
    unfold F64.isFinite magN at hf
    rw [decide_eq_true_eq] at hf
    omega

end JsonText
end Slac
