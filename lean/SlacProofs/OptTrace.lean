/-
  SlacProofs.OptTrace — the environment events of an `optimize` run: only calls of functions that
  `function_exists` reports as pure for that argument count; no variable lookup.
-/
import SlacModel.Optimizer
set_option autoImplicit false
set_option linter.unusedSectionVars false
set_option linter.unusedSimpArgs false
namespace Slac.Opt
variable {N : Type} [NumOps N]

/-- an event the optimizer is allowed to cause -/
def PureEv (env : Env N) (ev : Event N) : Prop :=
  ∃ f vs, ev = .call f vs ∧ env.fnExists f vs.length = .exist true

theorem evalList_lits (env : Env N) {es : List (Expr N)} (h : allLit es = true) :
    ∃ vs, evalList env es = (.ok vs, []) ∧ vs.length = es.length := by
  induction es with
  | nil => exact ⟨[], rfl, rfl⟩
  | cons e es ih =>
    simp only [allLit, List.all_cons, Bool.and_eq_true] at h
    obtain ⟨vs, h1, h2⟩ := ih (by simpa [allLit] using h.2)
    cases e <;> simp [isLit] at h
    rename_i v
    exact ⟨v :: vs, by simp [evalList, evalT, h1], by simp [h2]⟩

theorem unary_lit_trace (env : Env N) {r : Expr N} (op : Op) (h : isLit r = true) :
    (evalT env (.unary r op)).2 = [] := by
  cases r <;> simp [isLit] at h
  simp only [evalT, unModel]

theorem binary_lit_trace (env : Env N) {l r : Expr N} (op : Op) (hl : isLit l = true) (hr : isLit r = true) :
    (evalT env (.binary l r op)).2 = [] := by
  cases l <;> simp [isLit] at hl
  cases r <;> simp [isLit] at hr
  rename_i a b
  simp only [evalT]
  cases hb : Value.asBool a <;> cases op <;> simp [binModel, rightBool, hb]

theorem array_lit_trace (env : Env N) {es : List (Expr N)} (h : allLit es = true) :
    (evalT env (.array es)).2 = [] := by
  obtain ⟨vs, h1, _⟩ := evalList_lits env h
  simp only [evalT, h1]

theorem call_lit_trace (env : Env N) (f : Str) {ps : List (Expr N)} (h : allLit ps = true) :
    ∃ vs, (evalT env (.call f ps)).2 = [.call f vs] ∧ vs.length = ps.length := by
  obtain ⟨vs, h1, h2⟩ := evalList_lits env h
  exact ⟨vs, by simp only [evalT, h1, List.nil_append], h2⟩

theorem foldTrace_pure (env : Env N) (e : Expr N) : ∀ ev ∈ foldTrace env e, PureEv env ev := by
  refine Expr.rec
    (motive_1 := fun e => ∀ ev ∈ foldTrace env e, PureEv env ev)
    (motive_2 := fun es => ∀ ev ∈ foldLTrace env es, PureEv env ev)
    ?_ ?_ ?_ ?_ ?_ ?_ ?_ ?_ ?_ e
  · intro r op ih ev hev
    simp only [foldTrace] at hev
    split at hev
    · rename_i hl; rw [unary_lit_trace env op hl] at hev; cases hev
    · exact ih ev hev
  · intro l r op ihl ihr ev hev
    simp only [foldTrace] at hev
    split at hev
    · rename_i hl
      simp only [Bool.and_eq_true] at hl
      rw [binary_lit_trace env op hl.1 hl.2] at hev; cases hev
    · split at hev
      · exact ihl ev hev
      · simp only [List.mem_append] at hev
        rcases hev with hev | hev
        · exact ihl ev hev
        · exact ihr ev hev
  · intro l m r op ihl ihm ihr ev hev
    simp only [foldTrace] at hev
    split at hev
    · cases hev
    · split at hev
      · exact ihl ev hev
      · split at hev <;> simp only [List.mem_append] at hev
        · rcases hev with hev | hev
          · exact ihl ev hev
          · exact ihm ev hev
        · rcases hev with (hev | hev) | hev
          · exact ihl ev hev
          · exact ihm ev hev
          · exact ihr ev hev
  · intro es ih ev hev
    simp only [foldTrace] at hev
    split at hev
    · rename_i hl; rw [array_lit_trace env hl] at hev; cases hev
    · exact ih ev hev
  · intro v ev hev; simp only [foldTrace] at hev; cases hev
  · intro n ev hev; simp only [foldTrace] at hev; cases hev
  · intro f ps ih ev hev
    simp only [foldTrace] at hev
    split at hev
    · rename_i hl
      split at hev
      · rename_i hpure
        obtain ⟨vs, h1, h2⟩ := call_lit_trace env f hl
        rw [h1, List.mem_singleton] at hev
        exact ⟨f, vs, hev, by rw [h2]; exact hpure⟩
      · cases hev
    · exact ih ev hev
  · intro ev hev; simp only [foldLTrace] at hev; cases hev
  · intro e es ihe ihes ev hev
    simp only [foldLTrace] at hev
    split at hev
    · exact ihe ev hev
    · simp only [List.mem_append] at hev
      rcases hev with hev | hev
      · exact ihe ev hev
      · exact ihes ev hev

theorem optimizeTrace_pure (env : Env N) : ∀ fuel (e : Expr N), ∀ ev ∈ optimizeTrace env fuel e, PureEv env ev := by
  intro fuel
  induction fuel with
  | zero => intro e ev hev; simp only [optimizeTrace] at hev; cases hev
  | succ fuel ih =>
    intro e ev hev
    simp only [optimizeTrace] at hev
    split at hev
    · exact foldTrace_pure env _ ev hev
    · split at hev
      · simp only [List.mem_append] at hev
        rcases hev with hev | hev
        · exact foldTrace_pure env _ ev hev
        · exact ih _ ev hev
      · exact foldTrace_pure env _ ev hev

end Slac.Opt
