/-
  SlacProofs.TimeToy — `LawfulTimeNum` is satisfiable: exact rational arithmetic is an instance.
  (The driver's instance is binary64; this toy instance only shows that the class has a model, so the theorems
  stated under `[LawfulTimeNum N]` are not vacuous.)  Functions irrelevant to time (libm, printing, parsing) are
  placeholders.
-/
import SlacProofs.TimeNum
import Mathlib.Data.Rat.Floor
import Mathlib.Tactic.Linarith
import Mathlib.Tactic.NormNum
import Mathlib.Tactic.FieldSimp
import Mathlib.Tactic.Ring
set_option autoImplicit false
namespace Slac.Time.Toy

/-- truncation toward zero -/
def truncZ (x : ℚ) : ℤ := if 0 ≤ x then ⌊x⌋ else ⌈x⌉
/-- saturating cast -/
def clamp (lo hi z : ℤ) : ℤ := if z < lo then lo else if z > hi then hi else z

theorem truncZ_intCast (k : ℤ) : truncZ (k : ℚ) = k := by
  unfold truncZ; split <;> simp

/-- exact rationals as a number type -/
@[reducible] def numOps : NumOps ℚ where
  add := (· + ·)
  sub := (· - ·)
  mul := (· * ·)
  div := (· / ·)
  rem := fun a _ => a
  trunc := fun x => (truncZ x : ℚ)
  neg := fun x => -x
  pcmp := fun a b => some (if a < b then .lt else if a = b then .eq else .gt)
  beq := fun a b => decide (a = b)
  zero := 0
  ofBool := fun b => if b then 1 else 0
  parse := fun _ => none

@[reducible] def numX : NumX ℚ where
  toNumOps := numOps
  toUsize := fun x => (clamp 0 (2^64 - 1) (truncZ x)).toNat
  floorUsize := fun x => (clamp 0 (2^64 - 1) ⌊x⌋).toNat
  toU32 := fun x => (clamp 0 (2^32 - 1) (truncZ x)).toNat
  toI32 := fun x => clamp (-(2^31)) (2^31 - 1) (truncZ x)
  toI64 := fun x => clamp (-(2^63)) (2^63 - 1) (truncZ x)
  ofNat := fun n => (n : ℚ)
  ofInt := fun k => (k : ℚ)
  abs := fun x => |x|
  round := fun x => if 0 ≤ x then (⌊x + 1/2⌋ : ℚ) else -(⌊-x + 1/2⌋ : ℚ)   -- half away from zero
  fract := fun x => x - (truncZ x : ℚ)
  floor := fun x => (⌊x⌋ : ℚ)
  sqrt := id
  sin := id
  cos := id
  exp := id
  ln := id
  atan := id
  pow := fun a _ => a
  display := fun _ => []
  isFinite := fun _ => true

theorem floor_int_add_half (k : ℤ) : ⌊(k : ℚ) + 1/2⌋ = k := by
  rw [Int.floor_eq_iff]; constructor <;> linarith

theorem round_intCast (k : ℤ) :
    (if 0 ≤ (k : ℚ) then (⌊(k : ℚ) + 1/2⌋ : ℚ) else -(⌊-(k : ℚ) + 1/2⌋ : ℚ)) = (k : ℚ) := by
  split
  · rw [floor_int_add_half]
  · have := floor_int_add_half (-k)
    push_cast at this
    rw [this]; push_cast; ring

theorem lawful : @LawfulTimeNum ℚ numX := by
  let _inst := numX
  refine
    { decode_encode_ms := ?_, ofInt_natCast := ?_, toI32_ofInt := ?_, toU32_ofNat := ?_, pcmp_ofInt_zero := ?_,
      zero_eq := ?_, one_eq := ?_, trunc_add_fract := ?_ }
  · intro T h1 h2
    show clamp (-(2^63)) (2^63 - 1) (truncZ
      (if 0 ≤ (T : ℚ) / ((86400000 : ℕ) : ℚ) * ((86400000 : ℕ) : ℚ) then
        (⌊(T : ℚ) / ((86400000 : ℕ) : ℚ) * ((86400000 : ℕ) : ℚ) + 1/2⌋ : ℚ)
      else -(⌊-((T : ℚ) / ((86400000 : ℕ) : ℚ) * ((86400000 : ℕ) : ℚ)) + 1/2⌋ : ℚ))) = T
    have e : (T : ℚ) / ((86400000 : ℕ) : ℚ) * ((86400000 : ℕ) : ℚ) = (T : ℚ) := by
      field_simp
    rw [e, round_intCast, truncZ_intCast]
    unfold clamp
    split
    · omega
    · split
      · omega
      · rfl
  · intro n
    show ((n : ℤ) : ℚ) = (n : ℚ)
    simp
  · intro k h1 h2
    show clamp (-(2^31)) (2^31 - 1) (truncZ (k : ℚ)) = k
    rw [truncZ_intCast]; unfold clamp
    split
    · omega
    · split
      · omega
      · rfl
  · intro n h
    show (clamp 0 (2^32 - 1) (truncZ ((n : ℕ) : ℚ))).toNat = n
    have : ((n : ℕ) : ℚ) = ((n : ℤ) : ℚ) := by simp
    rw [this, truncZ_intCast]; unfold clamp
    split
    · omega
    · split
      · omega
      · simp
  · intro k _ _
    show some (if (k : ℚ) < 0 then Ordering.lt else if (k : ℚ) = 0 then .eq else .gt) = some (sgnOrd k)
    unfold sgnOrd
    simp only [Int.cast_lt_zero, Int.cast_eq_zero]
  · show (0 : ℚ) = ((0 : ℕ) : ℚ)
    simp
  · show (1 : ℚ) = ((1 : ℕ) : ℚ)
    simp
  · intro T _ _
    show (truncZ ((T : ℚ) / ((86400000 : ℕ) : ℚ)) : ℚ) + ((T : ℚ) / ((86400000 : ℕ) : ℚ) - (truncZ ((T : ℚ) / ((86400000 : ℕ) : ℚ)) : ℚ))
      = (T : ℚ) / ((86400000 : ℕ) : ℚ)
    ring

end Slac.Time.Toy
