/-
  SlacProofs.F64RoundHalf — `F64.round` is "nearest integer, ties away from zero", proved from core's float model:
  * `ofInt_add`: addition of exactly representable integers (|a|,|b|,|a+b| < 2^53, non-zero) is exact;
  * `trunc_mkF_mid_ofInt`: for 1 ≤ |x| < 2^52, `trunc x` is the integer float ±⌊|x|⌋;
  * `round_half_away`: for every finite non-zero x with negative binary exponent (|x| < 2^52), decoded ± m·2^e,
    q = m / 2^-e, f = m mod 2^-e:  round x = ±(q+1) if 2f ≥ 2^-e, else trunc x;
  * `round_nearest_arith`: that integer is the unique nearest one, exact ties going up in magnitude;
  * `round_big`, `round_zero`: the remaining inputs are returned unchanged;  `round_cases`: the weak form.
-/
import SlacProofs.F64Frac
set_option autoImplicit false
namespace Slac
namespace F64
open Float.Model Float.Model.UnpackedFloat

theorem sgnOf_apply (a : Int) : (sgnOf a).apply (a.natAbs : Int) = a := by
  unfold sgnOf; split <;> simp only [Sign.apply] <;> omega

theorem apply_mul (s : Sign) (a : Nat) (p : Nat) : s.apply ((a * p : Nat) : Int) = s.apply (a : Int) * (p : Int) := by
  cases s <;> simp only [Sign.apply] <;> push_cast
  · rw [Int.neg_mul]
  · rfl

theorem normalize_int (c : Int) (P : Nat) (hP : 0 < P) (e : Int) (hc : c ≠ 0) :
    normalize B64 (c * (P : Int)) e .positive = UnpackedFloat.round B64 (sgnOf c) (c.natAbs * P) e := by
  have : c * (P : Int) = (sgnOf c).apply ((c.natAbs * P : Nat) : Int) := by
    rw [apply_mul, sgnOf_apply]
  rw [this, normalize_apply _ _ _ _ (Nat.mul_pos (by omega) hP)]

theorem add_int_core (a b : Int) (La Lb Lc : Nat) (hc0 : a + b ≠ 0)
    (hLC : (a + b).natAbs.log2 = Lc) (hLa : La < 53) (hLb : Lb < 53) (hLc : Lc < 53)
    (hcc : Canon ((a + b).natAbs * 2^(52 - Lc)) ((Lc : Int) - 52))
    (h1 : 0 < a.natAbs * 2^(52 - La)) (h2 : 0 < b.natAbs * 2^(52 - Lb)) :
    UnpackedFloat.add B64 (.finite (sgnOf a) (a.natAbs * 2^(52 - La)) ((La : Int) - 52) h1)
      (.finite (sgnOf b) (b.natAbs * 2^(52 - Lb)) ((Lb : Int) - 52) h2) =
    .finite (sgnOf (a + b)) ((a + b).natAbs * 2^(52 - Lc)) ((Lc : Int) - 52) hcc.pos := by
  simp only [UnpackedFloat.add, decreaseExponent, Nat.shiftLeft_eq]
  generalize hLm : min La Lb = Lm
  have hmin : min ((La : Int) - 52) ((Lb : Int) - 52) = (Lm : Int) - 52 := by omega
  rw [hmin]
  have e1 : ((La : Int) - 52 - ((Lm : Int) - 52)).toNat = La - Lm := by omega
  have e2 : ((Lb : Int) - 52 - ((Lm : Int) - 52)).toNat = Lb - Lm := by omega
  rw [e1, e2, Nat.mul_assoc, Nat.mul_assoc, ← Nat.pow_add, ← Nat.pow_add]
  have e3 : 52 - La + (La - Lm) = 52 - Lm := by omega
  have e4 : 52 - Lb + (Lb - Lm) = 52 - Lm := by omega
  rw [e3, e4, apply_mul, apply_mul, sgnOf_apply, sgnOf_apply, ← Int.add_mul]
  rw [normalize_int (a + b) (2^(52 - Lm)) (Nat.two_pow_pos _) _ hc0]
  have hC0 : (a + b).natAbs ≠ 0 := by omega
  by_cases hcase : Lm ≤ Lc
  · have := round_down (sgnOf (a + b)) ((a + b).natAbs * 2^(52 - Lc)) (Lc - Lm) ((Lc : Int) - 52)
      hcc.pos hcc.tgt_eq
    rw [Nat.mul_assoc, ← Nat.pow_add] at this
    have e5 : 52 - Lc + (Lc - Lm) = 52 - Lm := by omega
    have e6 : (Lc : Int) - 52 - ((Lc - Lm : Nat) : Int) = (Lm : Int) - 52 := by omega
    rw [e5, e6] at this
    rw [this]
  · have hlog : ((a + b).natAbs * 2^(52 - Lm)).log2 = Lc + (52 - Lm) := by
      rw [log2_mul_two_pow _ _ hC0, hLC]
    have ht : tgt ((a + b).natAbs * 2^(52 - Lm)) ((Lm : Int) - 52) = (Lc : Int) - 52 := by
      unfold tgt; rw [hlog]; push_cast; omega
    rw [round_up _ _ _ (Nat.mul_pos (by omega) (Nat.two_pow_pos _)) (by rw [ht]; omega)]
    congr 1
    · rw [ht, Nat.mul_assoc, ← Nat.pow_add]
      congr 2; omega

/-- addition of exactly representable integers is exact (non-zero sum) -/
theorem ofInt_add (a b : Int) (ha0 : a ≠ 0) (hb0 : b ≠ 0) (hc0 : a + b ≠ 0)
    (ha : a.natAbs < 2^53) (hb : b.natAbs < 2^53) (hc : (a + b).natAbs < 2^53) :
    F64.ofInt a + F64.ofInt b = F64.ofInt (a + b) := by
  have hca := canon_ofNat a.natAbs (by omega) ha
  have hcb := canon_ofNat b.natAbs (by omega) hb
  have hcc := canon_ofNat (a + b).natAbs (by omega) hc
  have hLa : a.natAbs.log2 < 53 := (Nat.log2_lt (by omega)).2 ha
  have hLb : b.natAbs.log2 < 53 := (Nat.log2_lt (by omega)).2 hb
  have hLc : (a + b).natAbs.log2 < 53 := (Nat.log2_lt (by omega)).2 hc
  rw [ofInt_eq a ha0 ha, ofInt_eq b hb0 hb, ofInt_eq (a + b) hc0 hc]
  rw [float_add_def, unpack_mkF _ _ _ hca, unpack_mkF _ _ _ hcb]
  rw [add_int_core a b _ _ _ hc0 rfl hLa hLb hLc hcc]
  rfl

theorem float_one : (1 : Float) = F64.ofInt 1 := rfl

theorem sgnOf_pos (a : Int) (h : 0 < a) : sgnOf a = .positive := by unfold sgnOf; rw [if_neg (by omega)]
theorem sgnOf_neg (a : Int) (h : a < 0) : sgnOf a = .negative := by unfold sgnOf; rw [if_pos h]

theorem apply_natAbs (s : Sign) (q : Nat) : (s.apply (q : Int)).natAbs = q := by
  cases s
  · show (-(q:Int)).natAbs = q; omega
  · show ((q:Int)).natAbs = q; omega
theorem sgnOf_apply_nat (s : Sign) (q : Nat) (hq : 0 < q) : sgnOf (s.apply (q : Int)) = s := by
  cases s
  · exact sgnOf_neg _ (by show -(q:Int) < 0; omega)
  · exact sgnOf_pos _ (by show 0 < (q:Int); omega)
theorem apply_ne_zero (s : Sign) (q : Nat) (hq : 0 < q) : s.apply (q : Int) ≠ 0 := by
  intro h; have := apply_natAbs s q; rw [h] at this; simp at this; omega

/-- `trunc x` as an integer float: for 1 ≤ |x| < 2^52 with x = ± m·2^e (canonical), trunc x = ±(m / 2^(-e)) -/
theorem trunc_mkF_mid_ofInt (s : Sign) (m : Nat) (e : Int) (h : Canon m e) (he1 : -52 ≤ e) (he2 : e < 0) :
    trunc (mkF s m e h.pos) = F64.ofInt (s.apply ((m / 2^(-e).toNat : Nat) : Int)) ∧
      1 ≤ m / 2^(-e).toNat ∧ m / 2^(-e).toNat < 2^52 := by
  obtain ⟨hc', ht⟩ := trunc_mkF_mid s m e h he1 he2
  have hlt := h.lt; have hm0 : m ≠ 0 := by have := h.pos; omega
  have hl : m.log2 = 52 := by rcases h.cases with ⟨hl, _⟩ | ⟨_, h2⟩ <;> omega
  have h52 : 2^52 ≤ m := (Nat.le_log2 hm0).1 (by omega)
  generalize hk : (-e).toNat = k at *
  have hk1 : 1 ≤ k := by omega
  have hk52 : k ≤ 52 := by omega
  have hpow : (2:Nat)^52 = 2^(52 - k) * 2^k := by rw [← Nat.pow_add]; congr 1; omega
  have hq1 : 2^(52 - k) ≤ m / 2^k := by
    rw [Nat.le_div_iff_mul_le (Nat.two_pow_pos k), ← hpow]; exact h52
  have hq2 : m / 2^k < 2^(53 - k) := by
    rw [Nat.div_lt_iff_lt_mul (Nat.two_pow_pos k), ← Nat.pow_add]
    have : 53 - k + k = 53 := by omega
    rw [this]; exact hlt
  have hP := Nat.two_pow_pos (52 - k)
  have hPP : (2:Nat)^(53 - k) ≤ 2^52 := Nat.pow_le_pow_right (by decide) (by omega)
  have hlq : (m / 2^k).log2 = 52 - k := by
    apply log2_eq_of _ _ hq1
    have : 52 - k + 1 = 53 - k := by omega
    rw [this]; exact hq2
  generalize m / 2^k = q at *
  have hq0 : 0 < q := by omega
  have hq52 : q < 2^52 := by omega
  refine ⟨?_, by omega, hq52⟩
  rw [ht]
  rw [ofInt_eq _ (apply_ne_zero s q hq0) (by rw [apply_natAbs]; omega)]
  unfold mkF
  congr 3
  · exact (sgnOf_apply_nat s q hq0).symm
  · rw [apply_natAbs, hlq]; congr 2; omega
  · rw [apply_natAbs, hlq]; omega

theorem neg_apply (s : Sign) (n : Int) : (-s).apply n = - s.apply n := by
  cases s
  · show n = - -n; omega
  · rfl

/-- subtracting a finite value is adding its negation (in core's model) -/
theorem sub_eq_add_neg_unpacked (u : UnpackedFloat) (s : Sign) (m : Nat) (e : Int) (h : 0 < m) :
    UnpackedFloat.sub B64 u (.finite s m e h) = UnpackedFloat.add B64 u (.finite (-s) m e h) := by
  cases u with
  | notANumber => rfl
  | infinity _ => rfl
  | zero _ => rfl
  | finite s1 m1 e1 h1 =>
    simp only [UnpackedFloat.sub, UnpackedFloat.add, neg_apply]
    congr 1

theorem sub_mkF_eq_add (x : Float) (s : Sign) (m : Nat) (e : Int) (h : Canon m e) :
    x - mkF s m e h.pos = x + mkF (-s) m e h.pos := by
  rw [float_sub_def, float_add_def, unpack_mkF s m e h, unpack_mkF (-s) m e h, sub_eq_add_neg_unpacked]

theorem canon_one : Canon (2^52) (-52) := Canon.of_normal (by decide) (by decide) (by decide) (by decide)

theorem ofInt_one_eq : F64.ofInt 1 = mkF .positive (2^52) (-52) canon_one.pos := by
  rw [ofInt_eq 1 (by decide) (by decide)]
  have : (1 : Int).natAbs.log2 = 0 := by decide
  unfold mkF; congr 3
theorem ofInt_neg_one_eq : F64.ofInt (-1) = mkF .negative (2^52) (-52) canon_one.pos := by
  rw [ofInt_eq (-1) (by decide) (by decide)]
  unfold mkF; congr 3

theorem sub_one_eq (x : Float) : x - 1 = x + F64.ofInt (-1) := by
  rw [float_one, ofInt_one_eq, sub_mkF_eq_add x _ _ _ canon_one, ofInt_neg_one_eq]; rfl

/-- 0 + 1 = 1, -0 + 1 = 1, 0 - 1 = -1, -0 - 1 = -1 -/
theorem zero_pm_one (s : Sign) : zeroF s + 1 = F64.ofInt 1 ∧ zeroF s - 1 = F64.ofInt (-1) := by
  constructor
  · rw [float_one, ofInt_one_eq, zero_add_mkF _ _ _ _ canon_one]
  · rw [sub_one_eq, ofInt_neg_one_eq, zero_add_mkF _ _ _ _ canon_one]

theorem expBits_mkF_lt (s : Sign) (m : Nat) (e : Int) (h : Canon m e) (he : e < 0) :
    ¬ (expBits (mkF s m e h.pos) ≥ 1075) := by
  have hlt := h.lt; have hm0 : m ≠ 0 := by have := h.pos; omega
  have hs := sbit_le s
  rw [expBits_eq, bits_mkF2 s m e h]
  unfold magOf
  rcases h.cases with ⟨hl, he'⟩ | ⟨hl, he'⟩
  · rw [if_pos hl]
    have h52 : 2^52 ≤ m := (Nat.le_log2 hm0).1 (by omega)
    generalize hbe : (e + 1075).toNat = be
    omega
  · rw [if_neg (show ¬ m.log2 = 52 by omega)]
    have h52 : m < 2^52 := (Nat.log2_lt hm0).1 hl
    omega

/-- `round` on a canonical float below 2^52: nearest integer, ties away from zero -/
theorem round_mkF (s : Sign) (m : Nat) (e : Int) (h : Canon m e) (he : e < 0) :
    round (mkF s m e h.pos) =
      if 2 * (m % 2^(-e).toNat) ≥ 2^(-e).toNat
      then F64.ofInt (s.apply ((m / 2^(-e).toNat + 1 : Nat) : Int))
      else trunc (mkF s m e h.pos) := by
  have hlt := h.lt; have hm0 : m ≠ 0 := by have := h.pos; omega
  unfold round
  simp only [decode_mkF s m e h, signBit_mkF s m e h]
  rw [if_neg (expBits_mkF_lt s m e h he)]
  generalize hk : (-e).toNat = k
  have hk1 : 1 ≤ k := by omega
  have hpk : (2:Nat)^k = 2 * 2^(k-1) := by rw [← Nat.pow_succ']; congr 1; omega
  simp only [Nat.shiftLeft_eq, Nat.one_mul]
  have hcond : (m % 2^k ≥ 2^(k-1)) ↔ (2 * (m % 2^k) ≥ 2^k) := by rw [hpk]; omega
  by_cases hc : 2 * (m % 2^k) ≥ 2^k
  · rw [if_pos (hcond.2 hc), if_pos hc]
    by_cases he52 : e < -52
    · -- |x| < 1: trunc is the signed zero, the quotient is 0
      rw [trunc_mkF_small s m e h he52]
      have hbig : m < 2^k := Nat.lt_of_lt_of_le hlt (Nat.pow_le_pow_right (by decide) (by omega))
      have hq : m / 2^k = 0 := Nat.div_eq_of_lt hbig
      rw [hq]
      cases s
      · simp only [sbit]; exact (zero_pm_one .negative).2
      · simp only [sbit]; exact (zero_pm_one .positive).1
    · obtain ⟨ht, hq1, hq52⟩ := trunc_mkF_mid_ofInt s m e h (by omega) he
      rw [hk] at ht hq1 hq52
      rw [ht]
      generalize m / 2^k = q at *
      cases s
      · simp only [sbit]
        show F64.ofInt (-(q:Int)) - 1 = F64.ofInt (-((q + 1 : Nat) : Int))
        rw [sub_one_eq, ofInt_add _ _ (by omega) (by decide) (by omega) (by omega) (by decide) (by omega)]
        congr 1; omega
      · simp only [sbit]
        show F64.ofInt ((q:Int)) + 1 = F64.ofInt (((q + 1 : Nat) : Int))
        rw [float_one, ofInt_add _ _ (by omega) (by decide) (by omega) (by omega) (by decide) (by omega)]
        congr 1
  · rw [if_neg (fun h' => hc (hcond.1 h')), if_neg hc]

/-- **round (half away from zero)** for every finite non-zero x below 2^52 in magnitude (decoded x = ± m·2^e, e < 0):
    with q = ⌊m / 2^-e⌋ and f = m mod 2^-e, the result is ±(q+1) if f/2^-e ≥ 1/2 and trunc x otherwise. -/
theorem round_half_away (x : Float) (hf : isFinite x = true) (hz : isZero x = false) (he : (decode x).2 < 0) :
    round x =
      if 2 * ((decode x).1 % 2^(-(decode x).2).toNat) ≥ 2^(-(decode x).2).toNat
      then F64.ofInt (if signBit x then -(((decode x).1 / 2^(-(decode x).2).toNat + 1 : Nat) : Int)
                      else (((decode x).1 / 2^(-(decode x).2).toNat + 1 : Nat) : Int))
      else trunc x := by
  obtain ⟨s, m, e, h, rfl⟩ := exists_mkF x hf hz
  rw [decode_mkF s m e h] at he ⊢
  simp only [] at he ⊢
  rw [round_mkF s m e h he, signBit_mkF s m e h]
  cases s <;> rfl

/-- the arithmetic behind it: q + [2f ≥ 2^k] is the integer nearest to m / 2^k, ties going up in magnitude -/
theorem round_nearest_arith (m k q f R : Nat) (hq : q = m / 2^k) (hf' : f = m % 2^k)
    (hRq' : R = if 2 * f ≥ 2^k then q + 1 else q) :
    (2 * (R * 2^k - m) ≤ 2^k ∧ 2 * (m - R * 2^k) ≤ 2^k) ∧ (2 * f = 2^k → R = q + 1) ∧
    (∀ R', 2 * (R' * 2^k - m) < 2^k → 2 * (m - R' * 2^k) < 2^k → R' = R) := by
  have hdm : 2^k * q + f = m := by rw [hq, hf']; exact Nat.div_add_mod m (2^k)
  have hf : f < 2^k := by rw [hf']; exact Nat.mod_lt _ (Nat.two_pow_pos k)
  clear hq hf'
  generalize hP : 2^k = P at *
  have hRq := hRq'
  refine ⟨?_, ?_, ?_⟩
  · by_cases hc : 2 * f ≥ P
    · rw [hRq, if_pos hc, Nat.add_mul, Nat.mul_comm q P]; omega
    · rw [hRq, if_neg hc, Nat.mul_comm q P]; omega
  · intro h; rw [hRq, if_pos (by omega)]
  · intro R' h1 h2
    by_cases hc : 2 * f ≥ P
    · rw [hRq, if_pos hc]
      rcases Nat.lt_trichotomy R' (q + 1) with hlt | heq | hgt
      · exfalso
        have : R' * P ≤ q * P := Nat.mul_le_mul_right P (by omega)
        rw [Nat.mul_comm q P] at this; omega
      · exact heq
      · exfalso
        have : (q + 2) * P ≤ R' * P := Nat.mul_le_mul_right P (by omega)
        rw [Nat.add_mul, Nat.mul_comm q P] at this; omega
    · rw [hRq, if_neg hc]
      rcases Nat.lt_trichotomy R' q with hlt | heq | hgt
      · exfalso
        have : (R' + 1) * P ≤ q * P := Nat.mul_le_mul_right P (by omega)
        rw [Nat.add_mul, Nat.mul_comm q P] at this; omega
      · exact heq
      · exfalso
        have : (q + 1) * P ≤ R' * P := Nat.mul_le_mul_right P (by omega)
        rw [Nat.add_mul, Nat.mul_comm q P] at this; omega

/-- the remaining cases: |x| ≥ 2^52 (already an integer), NaN, ±inf: `round x = x`; zeros are kept -/
theorem round_big (x : Float) (h : expBits x ≥ 1075) : round x = x := by
  unfold round; simp only []; rw [if_pos h]
theorem round_zero : round (Float.ofBits 0) = Float.ofBits 0 ∧
    round (Float.ofBits 0x8000000000000000) = Float.ofBits 0x8000000000000000 := by decide +kernel

/-- weak form used by callers: the result is `trunc x`, `trunc x + 1` or `trunc x - 1`, by sign -/
theorem round_cases (x : Float) :
    round x = x ∨ round x = trunc x ∨ (signBit x = false ∧ round x = trunc x + 1) ∨
      (signBit x = true ∧ round x = trunc x - 1) := by
  unfold round; simp only []
  split
  · exact Or.inl rfl
  · split
    · cases hs : signBit x
      · exact Or.inr (Or.inr (Or.inl ⟨rfl, by simp⟩))
      · exact Or.inr (Or.inr (Or.inr ⟨rfl, by simp⟩))
    · exact Or.inr (Or.inl rfl)

end F64
end Slac
