/-
  SlacProofs.JsonText — `serde_json::from_str (serde_json::to_string j) = Ok j` for the model's printer/parser pair
  (SlacModel.JsonText), by structural induction over the JSON value (explicit `Json.rec`, four motives):
  * `PrintOk j`: every number finite, every integer node in [-2^63, 2^64); strings and keys arbitrary;
  * `parseValue_printJson`: with fuel ≥ `need j` and remaining depth > `depth j` the value parser reads `printJson j`
    back and stops exactly after it, whatever follows (as long as it cannot continue a number);
  * `need_le`: the fuel `parseJson` supplies (2·length + 3) is enough;
  * `parseJson_printJson`: `parseJson (printJson j) = some j` when `PrintOk j` and `depth j ≤ 127`;
  * `parseJson_too_deep`: `parseJson (printJson j) = none` when `PrintOk j` and `128 ≤ depth j`
    (serde_json's recursion limit — the text round trip of C12 does NOT hold for such trees).
-/
import SlacProofs.JsonTextNum
import SlacProofs.JsonTextStr
set_option autoImplicit false
namespace Slac
namespace JsonText
open F64

theorem numHead_facts (c : Char) (hc : c = '-' ∨ isDig c = true) :
    isWs c = false ∧ c ≠ '"' ∧ c ≠ '[' ∧ c ≠ '{' ∧ c ≠ 't' ∧ c ≠ 'f' ∧ c ≠ 'n' := by
  have hn : c.toNat = 45 ∨ (48 ≤ c.toNat ∧ c.toNat ≤ 57) := by
    rcases hc with h | h
    · left; rw [h]; rfl
    · right; exact (isDig_iff c).1 h
  have ne : ∀ k : Char, (k.toNat ≠ 45 ∧ ¬ (48 ≤ k.toNat ∧ k.toNat ≤ 57)) → c ≠ k := by
    intro k hk; apply char_ne_of_toNat_ne; omega
  refine ⟨?_, ne _ (by decide), ne _ (by decide), ne _ (by decide), ne _ (by decide), ne _ (by decide), ne _ (by decide)⟩
  unfold isWs
  have a := ne ' ' (by decide); have b := ne '\t' (by decide); have c' := ne '\n' (by decide); have d := ne '\r' (by decide)
  simp [a, b, c', d]

theorem skipWs_cons (c : Char) (t : Str) (h : isWs c = false) : skipWs (c :: t) = c :: t := by
  unfold skipWs; rw [List.dropWhile_cons_of_neg (by simp [h])]

theorem parseValue_number (f d : Nat) (c : Char) (t : Str) (hc : c = '-' ∨ isDig c = true) :
    parseValue (f + 1) d (c :: t) = parseNumber (c :: t) := by
  obtain ⟨h0, h1, h2, h3, h4, h5, h6⟩ := numHead_facts c hc
  rw [parseValue.eq_def]
  simp only [skipWs_cons c t h0, h1, h2, h3, h4, h5, h6, if_false]
  rw [if_pos (by rcases hc with h | h; exact Or.inl h; exact Or.inr h)]

/-! ### what can be printed and read back -/
mutual
/-- every number is finite, every integer node is in serde_json's integer range [-2^63, 2^64) (outside it the text
    would be read as a float; `ofExpr` never produces integer nodes); keys and strings are arbitrary -/
def PrintOk : Json Float → Prop
  | .num x => isFinite x = true
  | .int i => -2^63 ≤ i ∧ i < 2^64
  | .arr xs => PrintOkL xs
  | .obj fs => PrintOkF fs
  | _ => True
def PrintOkL : List (Json Float) → Prop
  | [] => True
  | x :: xs => PrintOk x ∧ PrintOkL xs
def PrintOkF : List (Str × Json Float) → Prop
  | [] => True
  | (_, v) :: fs => PrintOk v ∧ PrintOkF fs
end

/-- fuel that suffices to read a printed key -/
def keyNeed (k : Str) : Nat := (escapeStr k).length + 1

/- fuel that suffices to read the printed value back (the string reader shares the value parser's fuel) -/
mutual
def need : Json Float → Nat
  | .arr xs => 1 + needL xs
  | .obj fs => 1 + needF fs
  | .str s => (escapeStr s).length + 2
  | _ => 1
def needL : List (Json Float) → Nat
  | [] => 1
  | x :: xs => 1 + need x + needL xs
def needF : List (Str × Json Float) → Nat
  | [] => 1
  | (k, v) :: fs => 2 + keyNeed k + need v + needF fs
end

def ValueStmt (j : Json Float) : Prop :=
  ∀ f d rest, need j ≤ f → depth j + 1 ≤ d → NumEnd rest → parseValue f d (printJson j ++ rest) = some (j, rest)
def TailStmt (xs : List (Json Float)) : Prop :=
  ∀ f d rest, needL xs ≤ f → depthL xs + 1 ≤ d → parseTail f d (printSeq false xs ++ rest) = some (xs, rest)
def MemberStmt (k : Str) (v : Json Float) : Prop :=
  ∀ f d rest, 1 + keyNeed k + need v ≤ f → depth v + 1 ≤ d → NumEnd rest →
    parseMember f d (printString k ++ ':' :: (printJson v ++ rest)) = some ((k, v), rest)
def MTailStmt (fs : List (Str × Json Float)) : Prop :=
  ∀ f d rest, needF fs ≤ f → depthF fs + 1 ≤ d → parseMTail f d (printMembers false fs ++ rest) = some (fs, rest)

theorem numEnd_cons (c : Char) (t : Str) (h : isNumChar c = false) : NumEnd (c :: t) := by
  intro c' t' e; injection e with e1 _; rw [← e1]; exact h

theorem numEnd_nil : NumEnd [] := by intro c t h; cases h

theorem numEnd_seq (xs : List (Json Float)) (rest : Str) : NumEnd (printSeq false xs ++ rest) := by
  cases xs with
  | nil => simp only [printSeq]; exact numEnd_cons _ _ (by decide)
  | cons x xs => simp only [printSeq]; exact numEnd_cons _ _ (by decide)

theorem numEnd_members (fs : List (Str × Json Float)) (rest : Str) : NumEnd (printMembers false fs ++ rest) := by
  cases fs with
  | nil => simp only [printMembers]; exact numEnd_cons _ _ (by decide)
  | cons m fs => obtain ⟨k, v⟩ := m; simp only [printMembers]; exact numEnd_cons _ _ (by decide)

/-- the first character of a printed value: not whitespace, not a closing bracket -/
theorem printJson_head (j : Json Float) (h : PrintOk j) :
    ∃ c t, printJson j = c :: t ∧ isWs c = false ∧ c ≠ ']' ∧ c ≠ '}' := by
  cases j with
  | null => exact ⟨'n', _, by simp only [printJson]; rfl, by decide, by decide, by decide⟩
  | bool b => cases b
              · exact ⟨'f', _, by simp [printJson]; rfl, by decide, by decide, by decide⟩
              · exact ⟨'t', _, by simp [printJson]; rfl, by decide, by decide, by decide⟩
  | num x =>
    simp only [PrintOk] at h
    obtain ⟨c, t, e, hc⟩ := printNum_head true x h
    obtain ⟨h0, _⟩ := numHead_facts c hc
    have hn : c.toNat = 45 ∨ (48 ≤ c.toNat ∧ c.toNat ≤ 57) := by
      rcases hc with h | h
      · left; rw [h]; rfl
      · right; exact (isDig_iff c).1 h
    refine ⟨c, t, by simp only [printJson, printNum]; exact e, h0, ?_, ?_⟩
    · apply char_ne_of_toNat_ne; show c.toNat ≠ 93; omega
    · apply char_ne_of_toNat_ne; show c.toNat ≠ 125; omega
  | int i =>
    obtain ⟨c, t, e, hc⟩ := printInt_head i
    obtain ⟨h0, _⟩ := numHead_facts c hc
    have hn : c.toNat = 45 ∨ (48 ≤ c.toNat ∧ c.toNat ≤ 57) := by
      rcases hc with h | h
      · left; rw [h]; rfl
      · right; exact (isDig_iff c).1 h
    refine ⟨c, t, by simp only [printJson]; exact e, h0, ?_, ?_⟩
    · apply char_ne_of_toNat_ne; show c.toNat ≠ 93; omega
    · apply char_ne_of_toNat_ne; show c.toNat ≠ 125; omega
  | str s => exact ⟨'"', _, by simp only [printJson, printString]; rfl, by decide, by decide, by decide⟩
  | arr xs => exact ⟨'[', _, by simp only [printJson]; rfl, by decide, by decide, by decide⟩
  | obj fs => exact ⟨'{', _, by simp only [printJson]; rfl, by decide, by decide, by decide⟩

theorem value_null : ValueStmt .null := by
  intro f d rest hf _ _
  simp only [need] at hf
  cases f with
  | zero => omega
  | succ f =>
    rw [parseValue.eq_def]
    simp [printJson, skipWs, isWs, parseWord, List.isPrefixOf]

theorem value_bool (b : Bool) : ValueStmt (.bool b) := by
  intro f d rest hf _ _
  simp only [need] at hf
  cases f with
  | zero => omega
  | succ f =>
    rw [parseValue.eq_def]
    cases b <;> simp [printJson, skipWs, isWs, parseWord, List.isPrefixOf]

theorem value_num (x : Float) (h : PrintOk (.num x)) : ValueStmt (.num x) := by
  intro f d rest hf _ hr
  simp only [PrintOk] at h
  simp only [need] at hf
  cases f with
  | zero => omega
  | succ f =>
    obtain ⟨c, t, e, hc⟩ := printNum_head true x h
    have e2 : printJson (.num x) ++ rest = c :: (t ++ rest) := by
      simp only [printJson, printNum]; rw [e]; rfl
    rw [e2, parseValue_number f d c _ hc]
    have e3 : c :: (t ++ rest) = printNumWith true x ++ rest := by rw [e]; rfl
    rw [e3, parseNumber_printNum true x h rest hr]

theorem value_int (i : Int) (h : PrintOk (.int i)) : ValueStmt (.int i) := by
  intro f d rest hf _ hr
  simp only [PrintOk] at h
  simp only [need] at hf
  cases f with
  | zero => omega
  | succ f =>
    obtain ⟨c, t, e, hc⟩ := printInt_head i
    have e2 : printJson (.int i) ++ rest = c :: (t ++ rest) := by
      simp only [printJson]; rw [e]; rfl
    rw [e2, parseValue_number f d c _ hc]
    have e3 : c :: (t ++ rest) = printInt i ++ rest := by rw [e]; rfl
    rw [e3, parseNumber_printInt i h.1 h.2 rest hr]

theorem value_str (s : Str) : ValueStmt (.str s) := by
  intro f d rest hf _ _
  simp only [need] at hf
  cases f with
  | zero => omega
  | succ f =>
    have e2 : printJson (.str s) ++ rest = '"' :: (escapeStr s ++ ['"'] ++ rest) := by
      simp only [printJson, printString]; rfl
    rw [e2, parseValue.eq_def]
    simp only [skipWs_cons '"' _ (by decide), if_true, parseStrBody_printed s rest f (by omega)]

theorem value_arr (xs : List (Json Float))
    (ih : TailStmt xs ∧ ∀ x xs', xs = x :: xs' → ValueStmt x ∧ TailStmt xs') (hok : PrintOkL xs) :
    ValueStmt (.arr xs) := by
  intro f d rest hf hd _
  simp only [need] at hf
  simp only [depth] at hd
  cases f with
  | zero => omega
  | succ f =>
    have hd1 : ¬ d ≤ 1 := by omega
    cases xs with
    | nil =>
      have e2 : printJson (.arr []) ++ rest = '[' :: ']' :: rest := by simp only [printJson, printSeq]; rfl
      rw [e2, parseValue.eq_def]
      simp [skipWs_cons '[' _ (by decide), skipWs_cons ']' _ (by decide), hd1]
    | cons x xs' =>
      obtain ⟨hx, hxs⟩ := ih.2 x xs' rfl
      simp only [PrintOkL] at hok
      simp only [needL] at hf
      simp only [depthL] at hd
      obtain ⟨c, t, e, hws, hc1, _⟩ := printJson_head x hok.1
      have e2 : printJson (.arr (x :: xs')) ++ rest = '[' :: (printJson x ++ (printSeq false xs' ++ rest)) := by
        simp only [printJson, printSeq]; simp
      have hv := hx f (d - 1) (printSeq false xs' ++ rest) (by omega) (by omega) (numEnd_seq xs' rest)
      have ht := hxs f (d - 1) rest (by omega) (by omega)
      rw [e2, parseValue.eq_def]
      simp only [skipWs_cons '[' _ (by decide), hd1]
      have e3 : skipWs (printJson x ++ (printSeq false xs' ++ rest)) = c :: (t ++ (printSeq false xs' ++ rest)) := by
        rw [e]; exact skipWs_cons c _ hws
      simp [e3, hc1, hv, ht]

theorem value_obj (fs : List (Str × Json Float))
    (ih : MTailStmt fs ∧ ∀ k v fs', fs = (k, v) :: fs' → MemberStmt k v ∧ MTailStmt fs') (hok : PrintOkF fs) :
    ValueStmt (.obj fs) := by
  intro f d rest hf hd _
  simp only [need] at hf
  simp only [depth] at hd
  cases f with
  | zero => omega
  | succ f =>
    have hd1 : ¬ d ≤ 1 := by omega
    cases fs with
    | nil =>
      have e2 : printJson (.obj []) ++ rest = '{' :: '}' :: rest := by simp only [printJson, printMembers]; rfl
      rw [e2, parseValue.eq_def]
      simp [skipWs_cons '{' _ (by decide), skipWs_cons '}' _ (by decide), hd1]
    | cons m fs' =>
      obtain ⟨k, v⟩ := m
      obtain ⟨hm, hms⟩ := ih.2 k v fs' rfl
      simp only [PrintOkF] at hok
      simp only [needF] at hf
      simp only [depthF] at hd
      have e2 : printJson (.obj ((k, v) :: fs')) ++ rest =
          '{' :: (printString k ++ ':' :: (printJson v ++ (printMembers false fs' ++ rest))) := by
        simp only [printJson, printMembers]; simp
      have hv := hm f (d - 1) (printMembers false fs' ++ rest) (by omega) (by omega) (numEnd_members fs' rest)
      have ht := hms f (d - 1) rest (by omega) (by omega)
      rw [e2, parseValue.eq_def]
      simp only [skipWs_cons '{' _ (by decide), hd1]
      have e3 : skipWs (printString k ++ ':' :: (printJson v ++ (printMembers false fs' ++ rest))) =
          '"' :: (escapeStr k ++ ['"'] ++ ':' :: (printJson v ++ (printMembers false fs' ++ rest))) := by
        rw [printString_cons]; exact skipWs_cons '"' _ (by decide)
      simp [e3, hv, ht]

theorem tail_nil : TailStmt [] := by
  intro f d rest hf _
  simp only [needL] at hf
  cases f with
  | zero => omega
  | succ f =>
    rw [parseTail.eq_def]
    simp [printSeq, skipWs_cons ']' _ (by decide)]

theorem tail_cons (x : Json Float) (xs : List (Json Float)) (hx : ValueStmt x) (hxs : TailStmt xs) :
    TailStmt (x :: xs) := by
  intro f d rest hf hd
  simp only [needL] at hf
  simp only [depthL] at hd
  cases f with
  | zero => omega
  | succ f =>
    have e2 : printSeq false (x :: xs) ++ rest = ',' :: (printJson x ++ (printSeq false xs ++ rest)) := by
      simp only [printSeq]; simp
    have hv := hx f d (printSeq false xs ++ rest) (by omega) (by omega) (numEnd_seq xs rest)
    have ht := hxs f d rest (by omega) (by omega)
    rw [e2, parseTail.eq_def]
    simp [skipWs_cons ',' _ (by decide), hv, ht]

theorem member_stmt (k : Str) (v : Json Float) (hv : ValueStmt v) : MemberStmt k v := by
  intro f d rest hf hd hr
  cases f with
  | zero => omega
  | succ f =>
    have e3 : skipWs (printString k ++ ':' :: (printJson v ++ rest)) = printString k ++ ':' :: (printJson v ++ rest) := by
      rw [printString_cons]; exact skipWs_cons '"' _ (by decide)
    have h1 := hv f d rest (by omega) hd hr
    rw [parseMember.eq_def]
    have hk := parseStringF_printString k (':' :: (printJson v ++ rest)) f (by unfold keyNeed at hf; omega)
    simp [e3, hk, skipWs_cons ':' _ (by decide), h1]

theorem mtail_nil : MTailStmt [] := by
  intro f d rest hf _
  simp only [needF] at hf
  cases f with
  | zero => omega
  | succ f =>
    rw [parseMTail.eq_def]
    simp [printMembers, skipWs_cons '}' _ (by decide)]

theorem mtail_cons (k : Str) (v : Json Float) (fs : List (Str × Json Float)) (hm : MemberStmt k v)
    (hfs : MTailStmt fs) : MTailStmt ((k, v) :: fs) := by
  intro f d rest hf hd
  simp only [needF] at hf
  simp only [depthF] at hd
  cases f with
  | zero => omega
  | succ f =>
    have e2 : printMembers false ((k, v) :: fs) ++ rest =
        ',' :: (printString k ++ ':' :: (printJson v ++ (printMembers false fs ++ rest))) := by
      simp only [printMembers]; simp
    have h1 := hm f d (printMembers false fs ++ rest) (by omega) (by omega) (numEnd_members fs rest)
    have h2 := hfs f d rest (by omega) (by omega)
    rw [e2, parseMTail.eq_def]
    simp [skipWs_cons ',' _ (by decide), h1, h2]

/-- the value parser reads every printable value back, with enough fuel and depth, before anything that ends a number -/
theorem parseValue_printJson (j : Json Float) : PrintOk j → ValueStmt j := by
  refine Json.rec (N := Float)
    (motive_1 := fun j => PrintOk j → ValueStmt j)
    (motive_2 := fun xs => PrintOkL xs → TailStmt xs ∧ ∀ x xs', xs = x :: xs' → ValueStmt x ∧ TailStmt xs')
    (motive_3 := fun fs => PrintOkF fs → MTailStmt fs ∧ ∀ k v fs', fs = (k, v) :: fs' → MemberStmt k v ∧ MTailStmt fs')
    (motive_4 := fun m => PrintOk m.2 → MemberStmt m.1 m.2)
    ?_ ?_ ?_ ?_ ?_ ?_ ?_ ?_ ?_ ?_ ?_ ?_ j
  · intro _; exact value_null
  · intro b _; exact value_bool b
  · intro x h; exact value_num x h
  · intro i h; exact value_int i h
  · intro s _; exact value_str s
  · intro xs ih h; simp only [PrintOk] at h; exact value_arr xs (ih h) h
  · intro fs ih h; simp only [PrintOk] at h; exact value_obj fs (ih h) h
  · intro _; exact ⟨tail_nil, by intro x xs' h; cases h⟩
  · intro x xs ih1 ih2 h
    simp only [PrintOkL] at h
    have hx := ih1 h.1
    have hxs := (ih2 h.2).1
    refine ⟨tail_cons x xs hx hxs, ?_⟩
    intro x' xs' e; injection e with e1 e2; subst e1; subst e2; exact ⟨hx, hxs⟩
  · intro _; exact ⟨mtail_nil, by intro k v fs' h; cases h⟩
  · intro m fs ih1 ih2 h
    obtain ⟨k, v⟩ := m
    simp only [PrintOkF] at h
    have hm := ih1 h.1
    have hfs := (ih2 h.2).1
    refine ⟨mtail_cons k v fs hm hfs, ?_⟩
    intro k' v' fs' e; injection e with e1 e2; injection e1 with e3 e4; subst e3; subst e4; subst e2; exact ⟨hm, hfs⟩
  · intro k v ih h; exact member_stmt k v (ih h)

/-! ### the fuel `parseJson` supplies is enough -/

theorem printJson_length_pos (j : Json Float) (h : PrintOk j) : 1 ≤ (printJson j).length := by
  obtain ⟨c, t, e, _⟩ := printJson_head j h
  rw [e]; simp

theorem need_le (j : Json Float) : PrintOk j → need j ≤ 2 * (printJson j).length := by
  refine Json.rec (N := Float)
    (motive_1 := fun j => PrintOk j → need j ≤ 2 * (printJson j).length)
    (motive_2 := fun xs => PrintOkL xs →
      needL xs ≤ 2 * (printSeq false xs).length ∧ needL xs ≤ 2 * (printSeq true xs).length + 1)
    (motive_3 := fun fs => PrintOkF fs →
      needF fs ≤ 2 * (printMembers false fs).length ∧ needF fs ≤ 2 * (printMembers true fs).length + 1)
    (motive_4 := fun m => PrintOk m.2 → need m.2 ≤ 2 * (printJson m.2).length)
    ?_ ?_ ?_ ?_ ?_ ?_ ?_ ?_ ?_ ?_ ?_ ?_ j
  · intro h; have := printJson_length_pos _ h; simp only [need]; omega
  · intro b h; have := printJson_length_pos _ h; simp only [need]; omega
  · intro x h; have := printJson_length_pos _ h; simp only [need]; omega
  · intro i h; have := printJson_length_pos _ h; simp only [need]; omega
  · intro s _
    simp only [need, printJson, printString, List.length_append, List.length_cons, List.length_nil]; omega
  · intro xs ih h
    simp only [PrintOk] at h
    have := (ih h).2
    simp only [need, printJson, List.length_cons]; omega
  · intro fs ih h
    simp only [PrintOk] at h
    have := (ih h).2
    simp only [need, printJson, List.length_cons]; omega
  · intro _; simp [needL, printSeq]
  · intro x xs ih1 ih2 h
    simp only [PrintOkL] at h
    have h1 := ih1 h.1
    have h2 := (ih2 h.2).1
    simp only [needL, printSeq, List.length_append, List.length_cons, List.length_nil, Bool.false_eq_true, if_false,
      if_true]
    omega
  · intro _; simp [needF, printMembers]
  · intro m fs ih1 ih2 h
    obtain ⟨k, v⟩ := m
    simp only [PrintOkF] at h
    have h1 := ih1 h.1
    have h2 := (ih2 h.2).1
    simp only [needF, keyNeed, printMembers, printString, List.length_append, List.length_cons, List.length_nil,
      Bool.false_eq_true, if_false, if_true]
    simp only [] at h1
    omega
  · intro k v ih h; exact ih h

/-- **`serde_json::from_str ∘ serde_json::to_string` is the identity** on every JSON value whose numbers are finite,
    whose integer nodes are in range and whose nesting depth is at most 127 -/
theorem parseJson_printJson (j : Json Float) (h : PrintOk j) (hd : depth j ≤ 127) : parseJson (printJson j) = some j := by
  have hn := need_le j h
  have := parseValue_printJson j h (2 * (printJson j).length + 3) 128 [] (by omega) (by omega) numEnd_nil
  rw [List.append_nil] at this
  unfold parseJson
  rw [this]
  rfl

/-! ### beyond the depth limit the reader fails (`recursion limit exceeded`) -/

def FailStmt (j : Json Float) : Prop :=
  ∀ f d rest, need j ≤ f → 1 ≤ d → d ≤ depth j → parseValue f d (printJson j ++ rest) = none
def TailFail (xs : List (Json Float)) : Prop :=
  ∀ f d rest, needL xs ≤ f → 1 ≤ d → d ≤ depthL xs → parseTail f d (printSeq false xs ++ rest) = none
def MemberFail (k : Str) (v : Json Float) : Prop :=
  ∀ f d rest, 1 + keyNeed k + need v ≤ f → 1 ≤ d → d ≤ depth v →
    parseMember f d (printString k ++ ':' :: (printJson v ++ rest)) = none
def MTailFail (fs : List (Str × Json Float)) : Prop :=
  ∀ f d rest, needF fs ≤ f → 1 ≤ d → d ≤ depthF fs → parseMTail f d (printMembers false fs ++ rest) = none

theorem fail_scalar (j : Json Float) (h : depth j = 0) : FailStmt j := by
  intro f d rest _ h1 h2; omega

theorem fail_arr (xs : List (Json Float))
    (ih : TailFail xs ∧ ∀ x xs', xs = x :: xs' → FailStmt x ∧ TailFail xs') (hok : PrintOkL xs) :
    FailStmt (.arr xs) := by
  intro f d rest hf hd0 hd
  simp only [need] at hf
  simp only [depth] at hd
  cases f with
  | zero => omega
  | succ f =>
    by_cases hle : d ≤ 1
    · have e2 : printJson (.arr xs) ++ rest = '[' :: (printSeq true xs ++ rest) := by simp only [printJson]; rfl
      rw [e2, parseValue.eq_def]
      simp [skipWs_cons '[' _ (by decide), hle]
    · cases xs with
      | nil => simp only [depthL] at hd; omega
      | cons x xs' =>
        obtain ⟨hx, hxs⟩ := ih.2 x xs' rfl
        simp only [PrintOkL] at hok
        simp only [needL] at hf
        simp only [depthL] at hd
        obtain ⟨c, t, e, hws, hc1, _⟩ := printJson_head x hok.1
        have e2 : printJson (.arr (x :: xs')) ++ rest = '[' :: (printJson x ++ (printSeq false xs' ++ rest)) := by
          simp only [printJson, printSeq]; simp
        have e3 : skipWs (printJson x ++ (printSeq false xs' ++ rest)) = c :: (t ++ (printSeq false xs' ++ rest)) := by
          rw [e]; exact skipWs_cons c _ hws
        rw [e2, parseValue.eq_def]
        simp only [skipWs_cons '[' _ (by decide), hle]
        by_cases hdx : d - 1 ≤ depth x
        · have hv := hx f (d - 1) (printSeq false xs' ++ rest) (by omega) (by omega) hdx
          simp [e3, hc1, hv]
        · have hv := parseValue_printJson x hok.1 f (d - 1) (printSeq false xs' ++ rest) (by omega) (by omega)
            (numEnd_seq xs' rest)
          have ht := hxs f (d - 1) rest (by omega) (by omega) (by omega)
          simp [e3, hc1, hv, ht]

theorem fail_obj (fs : List (Str × Json Float))
    (ih : MTailFail fs ∧ ∀ k v fs', fs = (k, v) :: fs' → MemberFail k v ∧ MTailFail fs') (hok : PrintOkF fs) :
    FailStmt (.obj fs) := by
  intro f d rest hf hd0 hd
  simp only [need] at hf
  simp only [depth] at hd
  cases f with
  | zero => omega
  | succ f =>
    by_cases hle : d ≤ 1
    · have e2 : printJson (.obj fs) ++ rest = '{' :: (printMembers true fs ++ rest) := by simp only [printJson]; rfl
      rw [e2, parseValue.eq_def]
      simp [skipWs_cons '{' _ (by decide), hle]
    · cases fs with
      | nil => simp only [depthF] at hd; omega
      | cons m fs' =>
        obtain ⟨k, v⟩ := m
        obtain ⟨hm, hms⟩ := ih.2 k v fs' rfl
        simp only [PrintOkF] at hok
        simp only [needF] at hf
        simp only [depthF] at hd
        have e2 : printJson (.obj ((k, v) :: fs')) ++ rest =
            '{' :: (printString k ++ ':' :: (printJson v ++ (printMembers false fs' ++ rest))) := by
          simp only [printJson, printMembers]; simp
        have e3 : skipWs (printString k ++ ':' :: (printJson v ++ (printMembers false fs' ++ rest))) =
            '"' :: (escapeStr k ++ ['"'] ++ ':' :: (printJson v ++ (printMembers false fs' ++ rest))) := by
          rw [printString_cons]; exact skipWs_cons '"' _ (by decide)
        rw [e2, parseValue.eq_def]
        simp only [skipWs_cons '{' _ (by decide), hle]
        by_cases hdx : d - 1 ≤ depth v
        · have hv := hm f (d - 1) (printMembers false fs' ++ rest) (by omega) (by omega) hdx
          simp [e3, hv]
        · have hv := member_stmt k v (parseValue_printJson v hok.1) f (d - 1) (printMembers false fs' ++ rest)
            (by omega) (by omega) (numEnd_members fs' rest)
          have ht := hms f (d - 1) rest (by omega) (by omega) (by omega)
          simp [e3, hv, ht]

theorem tailFail_cons (x : Json Float) (xs : List (Json Float)) (hok : PrintOk x) (hx : FailStmt x) (hxs : TailFail xs) :
    TailFail (x :: xs) := by
  intro f d rest hf hd0 hd
  simp only [needL] at hf
  simp only [depthL] at hd
  cases f with
  | zero => omega
  | succ f =>
    have e2 : printSeq false (x :: xs) ++ rest = ',' :: (printJson x ++ (printSeq false xs ++ rest)) := by
      simp only [printSeq]; simp
    rw [e2, parseTail.eq_def]
    by_cases hdx : d ≤ depth x
    · have hv := hx f d (printSeq false xs ++ rest) (by omega) hd0 hdx
      simp [skipWs_cons ',' _ (by decide), hv]
    · have hv := parseValue_printJson x hok f d (printSeq false xs ++ rest) (by omega) (by omega) (numEnd_seq xs rest)
      have ht := hxs f d rest (by omega) hd0 (by omega)
      simp [skipWs_cons ',' _ (by decide), hv, ht]

theorem memberFail (k : Str) (v : Json Float) (hv : FailStmt v) : MemberFail k v := by
  intro f d rest hf hd0 hd
  cases f with
  | zero => omega
  | succ f =>
    have e3 : skipWs (printString k ++ ':' :: (printJson v ++ rest)) = printString k ++ ':' :: (printJson v ++ rest) := by
      rw [printString_cons]; exact skipWs_cons '"' _ (by decide)
    have h1 := hv f d rest (by omega) hd0 hd
    rw [parseMember.eq_def]
    have hk := parseStringF_printString k (':' :: (printJson v ++ rest)) f (by unfold keyNeed at hf; omega)
    simp [e3, hk, skipWs_cons ':' _ (by decide), h1]

theorem mtailFail_cons (k : Str) (v : Json Float) (fs : List (Str × Json Float)) (hok : PrintOk v)
    (hm : MemberFail k v) (hfs : MTailFail fs) : MTailFail ((k, v) :: fs) := by
  intro f d rest hf hd0 hd
  simp only [needF] at hf
  simp only [depthF] at hd
  cases f with
  | zero => omega
  | succ f =>
    have e2 : printMembers false ((k, v) :: fs) ++ rest =
        ',' :: (printString k ++ ':' :: (printJson v ++ (printMembers false fs ++ rest))) := by
      simp only [printMembers]; simp
    rw [e2, parseMTail.eq_def]
    by_cases hdx : d ≤ depth v
    · have h1 := hm f d (printMembers false fs ++ rest) (by omega) hd0 hdx
      simp [skipWs_cons ',' _ (by decide), h1]
    · have h1 := member_stmt k v (parseValue_printJson v hok) f d (printMembers false fs ++ rest) (by omega) (by omega)
        (numEnd_members fs rest)
      have h2 := hfs f d rest (by omega) hd0 (by omega)
      simp [skipWs_cons ',' _ (by decide), h1, h2]

/-- with a remaining depth of at most the value's nesting depth the reader fails -/
theorem parseValue_too_deep (j : Json Float) : PrintOk j → FailStmt j := by
  refine Json.rec (N := Float)
    (motive_1 := fun j => PrintOk j → FailStmt j)
    (motive_2 := fun xs => PrintOkL xs → TailFail xs ∧ ∀ x xs', xs = x :: xs' → FailStmt x ∧ TailFail xs')
    (motive_3 := fun fs => PrintOkF fs → MTailFail fs ∧ ∀ k v fs', fs = (k, v) :: fs' → MemberFail k v ∧ MTailFail fs')
    (motive_4 := fun m => PrintOk m.2 → MemberFail m.1 m.2)
    ?_ ?_ ?_ ?_ ?_ ?_ ?_ ?_ ?_ ?_ ?_ ?_ j
  · intro _; exact fail_scalar _ (by simp only [depth])
  · intro b _; exact fail_scalar _ (by simp only [depth])
  · intro x _; exact fail_scalar _ (by simp only [depth])
  · intro i _; exact fail_scalar _ (by simp only [depth])
  · intro s _; exact fail_scalar _ (by simp only [depth])
  · intro xs ih h; simp only [PrintOk] at h; exact fail_arr xs (ih h) h
  · intro fs ih h; simp only [PrintOk] at h; exact fail_obj fs (ih h) h
  · intro _
    refine ⟨?_, by intro x xs' h; cases h⟩
    intro f d rest _ h1 h2; simp only [depthL] at h2; omega
  · intro x xs ih1 ih2 h
    simp only [PrintOkL] at h
    have hx := ih1 h.1
    have hxs := (ih2 h.2).1
    refine ⟨tailFail_cons x xs h.1 hx hxs, ?_⟩
    intro x' xs' e; injection e with e1 e2; subst e1; subst e2; exact ⟨hx, hxs⟩
  · intro _
    refine ⟨?_, by intro k v fs' h; cases h⟩
    intro f d rest _ h1 h2; simp only [depthF] at h2; omega
  · intro m fs ih1 ih2 h
    obtain ⟨k, v⟩ := m
    simp only [PrintOkF] at h
    have hm := ih1 h.1
    have hfs := (ih2 h.2).1
    refine ⟨mtailFail_cons k v fs h.1 hm hfs, ?_⟩
    intro k' v' fs' e; injection e with e1 e2; injection e1 with e3 e4; subst e3; subst e4; subst e2; exact ⟨hm, hfs⟩
  · intro k v ih h; exact memberFail k v (ih h)

/-- **beyond serde_json's recursion limit the text does not load**: a value nested 128 or more levels deep is
    printed, but `from_str` rejects the text -/
theorem parseJson_too_deep (j : Json Float) (h : PrintOk j) (hd : 128 ≤ depth j) : parseJson (printJson j) = none := by
  have hn := need_le j h
  have := parseValue_too_deep j h (2 * (printJson j).length + 3) 128 [] (by omega) (by omega) hd
  rw [List.append_nil] at this
  unfold parseJson
  rw [this]

end JsonText
end Slac
