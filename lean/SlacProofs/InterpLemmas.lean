/-
  SlacProofs.InterpLemmas — facts about the operator tables of the interpreter model.
-/
import SlacModel.Interp
set_option autoImplicit false
set_option linter.unusedSectionVars false
namespace Slac
variable {N : Type} [NumOps N]

def boolOps : List Op := [.and, .or, .xor, .equal, .notEqual, .less, .lessEqual, .greater, .greaterEqual]
def arithOps : List Op := [.minus, .multiply, .divide, .div, .mod]

theorem xor_bool {a b v : Value N} (h : Value.xor a b = .ok v) : v.isBoolean = true := by
  cases a <;> cases b <;> simp only [Value.xor] at h <;> cases h; rfl

theorem binVal_bool {op : Op} (hop : op ∈ boolOps) {a b v : Value N} (h : binVal op a b = .ok v) :
    v.isBoolean = true := by
  simp only [boolOps, List.mem_cons, List.mem_nil_iff, or_false] at hop
  rcases hop with rfl | rfl | rfl | rfl | rfl | rfl | rfl | rfl | rfl <;> simp only [binVal] at h <;>
    first | (cases h; rfl) | exact xor_bool h | (cases h)

theorem rightBool_bool {tl : List (Event N)} {m : R N} {v : Value N} (h : (rightBool tl m).1 = .ok v) :
    v.isBoolean = true := by
  obtain ⟨m1, m2⟩ := m
  cases m1 with
  | ok w => simp only [rightBool] at h; cases h; rfl
  | error e => cases e <;> simp only [rightBool] at h <;> cases h; rfl

theorem binModel_bool {op : Op} (hop : op ∈ boolOps) {ml mr : R N} {v : Value N}
    (h : (binModel op ml mr).1 = .ok v) : v.isBoolean = true := by
  obtain ⟨l1, l2⟩ := ml
  have hop' := hop
  simp only [boolOps, List.mem_cons, List.mem_nil_iff, or_false] at hop
  cases l1 with
  | ok lv =>
    rcases hop with rfl | rfl | rfl | rfl | rfl | rfl | rfl | rfl | rfl
    · simp only [binModel] at h; split at h
      · exact rightBool_bool h
      · cases h; rfl
    · simp only [binModel] at h; split at h
      · cases h; rfl
      · exact rightBool_bool h
    all_goals
      obtain ⟨r1, r2⟩ := mr
      cases r1 with
      | ok rv => simp only [binModel] at h; exact binVal_bool hop' h
      | error e => cases e <;> simp only [binModel] at h <;> cases h <;> rfl
  | error e =>
    obtain ⟨r1, r2⟩ := mr
    cases e <;> rcases hop with rfl | rfl | rfl | rfl | rfl | rfl | rfl | rfl | rfl <;>
      simp only [binModel] at h <;> (try cases h) <;> (try rfl) <;> (try exact rightBool_bool h)
    all_goals (cases r1 with
      | ok rv => simp only at h; cases h; rfl
      | error e => cases e <;> simp only at h <;> cases h <;> rfl)

theorem arith_num {f : N → N → N} {op : Op} {a b v : Value N} (h : Value.arith f op a b = .ok v) :
    ∃ x y, a = .num x ∧ b = .num y ∧ v = .num (f x y) := by
  cases a <;> cases b <;> simp only [Value.arith] at h <;> cases h
  exact ⟨_, _, rfl, rfl, rfl⟩

theorem binVal_arith {op : Op} (hop : op ∈ arithOps) {a b v : Value N} (h : binVal op a b = .ok v) :
    ∃ x y z, a = .num x ∧ b = .num y ∧ v = .num z := by
  simp only [arithOps, List.mem_cons, List.mem_nil_iff, or_false] at hop
  rcases hop with rfl | rfl | rfl | rfl | rfl <;> simp only [binVal] at h <;>
    (obtain ⟨x, y, h1, h2, h3⟩ := arith_num h; exact ⟨x, y, _, h1, h2, h3⟩)

/-- for a strict operator the model succeeds only if both operands succeeded, and then through `binVal` -/
theorem binModel_strict_ok {op : Op} (h1 : op ≠ .and) (h2 : op ≠ .or) (h3 : op ≠ .equal) (h4 : op ≠ .notEqual)
    {ml mr : R N} {v : Value N} (h : (binModel op ml mr).1 = .ok v) :
    ∃ a b, ml.1 = .ok a ∧ mr.1 = .ok b ∧ binVal op a b = .ok v := by
  obtain ⟨l1, l2⟩ := ml; obtain ⟨r1, r2⟩ := mr
  cases l1 with
  | ok lv =>
    cases r1 with
    | ok rv =>
      cases op <;> first | exact absurd rfl h1 | exact absurd rfl h2 | exact absurd rfl h3 | exact absurd rfl h4
                         | (simp only [binModel] at h; exact ⟨_, _, rfl, rfl, h⟩)
    | error e =>
      cases op <;> first | exact absurd rfl h1 | exact absurd rfl h2 | exact absurd rfl h3 | exact absurd rfl h4
                         | (cases e <;> simp only [binModel] at h <;> cases h)
  | error e =>
    cases op <;> first | exact absurd rfl h1 | exact absurd rfl h2 | exact absurd rfl h3 | exact absurd rfl h4
                       | (cases e <;> simp only [binModel] at h <;> cases h)

end Slac
