/-
  SlacProofs.ScannerSep — when is the text after a lexeme harmless?  A non-empty separator always is (except
  `//…` directly after the token `/`); with no separator it depends on the two tokens only (`needsSep`).
-/
import SlacProofs.ScannerLoop
set_option autoImplicit false
namespace Slac
namespace Scanner
variable {N : Type}

/-- the first character of a separator does not continue any lexeme — except `/` after the token `/` -/
theorem fuse_sepHead {cc : CharClass} (hcc : cc.AsciiOk) (t : Token N) (x : Str) (c : Char)
    (hc : isWs c = true ∨ c = '{' ∨ c = '/') (hsl : lexClass t = .slash → c ≠ '/') : fuse cc t x c = false := by
  have hsp : isSpecial c = true := by
    rcases hc with h | h | h
    · exact isWs_special c h
    · subst h; decide
    · subst h; decide
  have h1 := special_identCont hcc c hsp
  have h2 := special_numeric hcc c hsp
  have hne : c ≠ '.' ∧ c ≠ '\'' ∧ c ≠ '=' ∧ c ≠ '>' := by
    rcases hc with h | h | h
    · simp only [isWs, Bool.or_eq_true, beq_iff_eq] at h
      rcases h with ((h | h) | h) | h <;> subst h <;> decide
    · subst h; decide
    · subst h; decide
  unfold fuse
  cases hcl : lexClass t <;> simp [h1, h2, hne]
  exact hsl hcl

theorem IsTrail.head {t : Str} (h : IsTrail t) : ∀ (c : Char) (r : Str), t = c :: r →
    isWs c = true ∨ c = '{' ∨ (c = '/' ∧ ∃ r', r = '/' :: r') := by
  induction h with
  | nil => intro c r h; cases h
  | lineEof _ => intro c r h; cases h; exact .inr (.inr ⟨rfl, _, rfl⟩)
  | blockEof _ => intro c r h; cases h; exact .inr (.inl rfl)
  | @sep s t hs _ ih =>
    intro c r h
    cases s with
    | nil => exact ih c r h
    | cons d s' =>
      simp only [List.cons_append, List.cons.injEq] at h
      obtain ⟨rfl, rfl⟩ := h
      rcases hs.head d s' rfl with h | h | ⟨h, r', hr'⟩
      · exact .inl h
      · exact .inr (.inl h)
      · exact .inr (.inr ⟨h, r' ++ t, by rw [hr']; rfl⟩)

/-- the separator `s` may follow the token `t`: after the token `/` it must not begin with `/`
    (`/` followed by `// …` would read as the comment `/// …`) -/
def SepFits (t : Token N) (s : Str) : Prop := lexClass t = .slash → ∀ r, s ≠ '/' :: r

/-- a non-empty separator (or trailing text) never continues the lexeme before it -/
theorem noCont_trail [NumOps N] {cc : CharClass} (hcc : cc.AsciiOk) (t : Token N) (x s : Str) (hs : IsTrail s)
    (hfit : SepFits t s) : NoCont cc t x s := by
  cases s with
  | nil => exact HeadNot.nil _
  | cons c r =>
    apply HeadNot.cons
    apply fuse_sepHead hcc
    · rcases hs.head c r rfl with h | h | ⟨h, _⟩
      · exact .inl h
      · exact .inr (.inl h)
      · exact .inr (.inr h)
    · intro hcl hc; subst hc; exact hfit hcl r rfl

theorem noCont_sep [NumOps N] {cc : CharClass} (hcc : cc.AsciiOk) (t : Token N) (x s rest : Str) (hs : IsSep s)
    (hne : s ≠ []) (hfit : SepFits t s) : NoCont cc t x (s ++ rest) := by
  cases s with
  | nil => exact absurd rfl hne
  | cons c r =>
    have := noCont_trail hcc t x (c :: r) hs.trail hfit
    exact HeadNot.cons this.of_cons

/-! ### adjacent tokens -/

/-- how a lexeme begins -/
inductive StartClass | word | number | quote | eq | gt | slash | other
deriving DecidableEq

def startClass : Token N → StartClass
  | .identifier _ | .and | .or | .xor | .not | .div | .mod | .literal (.bool _) => .word
  | .literal (.num _) => .number
  | .literal (.str _) => .quote
  | .equal => .eq
  | .greater | .greaterEqual => .gt
  | .slash => .slash
  | _ => .other

/-- `needsSep t t'`: the texts of `t` and `t'` may not be written next to each other without a separator:
    identifier/keyword/number before identifier/keyword/number; string before string; `<` before `=`, `>`, `>=`;
    `>` before `=`; `/` before `/`.  (Conservative: e.g. `1` directly before `x` is in fact read as two tokens.) -/
def needsSep (t t' : Token N) : Bool :=
  match lexClass t, startClass t' with
  | .word, .word | .word, .number | .number, .word | .number, .number => true
  | .string, .quote => true
  | .less, .eq | .less, .gt => true
  | .greater, .eq => true
  | .slash, .slash => true
  | _, _ => false

/-- what is known about the first character of a lexeme -/
def StartsOk (cc : CharClass) : StartClass → Char → Prop
  | .word, c => isIdentStart cc c = true
  | .number, c => cc.isNumeric c = true ∨ c = '.'
  | .quote, c => c = '\''
  | .eq, c => c = '='
  | .gt, c => c = '>'
  | .slash, c => c = '/'
  | .other, c => c ∈ ['(', ')', '[', ']', ',', '+', '-', '*', '<']

theorem kwToken_startClass (low : Str) (t : Token N) (h : kwToken low = some t) : startClass t = .word := by
  have := lookup_mem _ _ _ h
  simp only [keywords, List.mem_cons, Prod.mk.injEq, List.not_mem_nil, or_false] at this
  rcases this with ⟨_, rfl⟩ | ⟨_, rfl⟩ | ⟨_, rfl⟩ | ⟨_, rfl⟩ | ⟨_, rfl⟩ | ⟨_, rfl⟩ | ⟨_, rfl⟩ | ⟨_, rfl⟩ <;> rfl

theorem Lexeme.start [NumOps N] {cc : CharClass} {t : Token N} {x : Str} (hx : Lexeme cc t x) :
    ∃ c r, x = c :: r ∧ StartsOk cc (startClass t) c := by
  cases hx with
  | punct h =>
    simp only [Scanner.punct, List.mem_cons, Prod.mk.injEq, List.not_mem_nil, or_false] at h
    rcases h with ⟨rfl, rfl⟩ | ⟨rfl, rfl⟩ | ⟨rfl, rfl⟩ | ⟨rfl, rfl⟩ | ⟨rfl, rfl⟩ | ⟨rfl, rfl⟩ | ⟨rfl, rfl⟩ |
      ⟨rfl, rfl⟩ | ⟨rfl, rfl⟩ | ⟨rfl, rfl⟩ | ⟨rfl, rfl⟩ | ⟨rfl, rfl⟩ | ⟨rfl, rfl⟩ | ⟨rfl, rfl⟩ | ⟨rfl, rfl⟩ <;>
      exact ⟨_, _, rfl, by simp [startClass, StartsOk]⟩
  | word hs hk =>
    cases x with
    | nil => simp [identShape] at hs
    | cons c tl =>
      simp only [identShape, Bool.and_eq_true] at hs
      exact ⟨c, tl, rfl, by rw [kwToken_startClass _ _ hk]; exact hs.1⟩
  | ident hs _ =>
    cases x with
    | nil => simp [identShape] at hs
    | cons c tl =>
      simp only [identShape, Bool.and_eq_true] at hs
      exact ⟨c, tl, rfl, hs.1⟩
  | num hs _ =>
    cases x with
    | nil => simp [numShape] at hs
    | cons c tl =>
      simp only [numShape, Bool.and_eq_true, Bool.or_eq_true, beq_iff_eq] at hs
      exact ⟨c, tl, rfl, hs.1.2⟩
  | str => exact ⟨'\'', _, rfl, rfl⟩

/-- if `needsSep t t'` is false, the first character of a lexeme of `t'` does not continue a lexeme of `t` -/
theorem fuse_start {cc : CharClass} (hcc : cc.AsciiOk) (t t' : Token N) (x : Str) (c : Char)
    (hc : StartsOk cc (startClass t') c) (hn : needsSep t t' = false) : fuse cc t x c = false := by
  unfold needsSep at hn
  unfold fuse
  have hq1 := special_identCont hcc '\'' (by decide)
  have hq2 := special_numeric hcc '\'' (by decide)
  have hd1 := special_identCont hcc '.' (by decide)
  have he1 := special_identCont hcc '=' (by decide)
  have he2 := special_numeric hcc '=' (by decide)
  have hg1 := special_identCont hcc '>' (by decide)
  have hg2 := special_numeric hcc '>' (by decide)
  have hs1 := special_identCont hcc '/' (by decide)
  have hs2 := special_numeric hcc '/' (by decide)
  have hother : c ∈ ['(', ')', '[', ']', ',', '+', '-', '*', '<'] →
      isIdentCont cc c = false ∧ cc.isNumeric c = false ∧ c ≠ '.' ∧ c ≠ '\'' ∧ c ≠ '=' ∧ c ≠ '>' ∧ c ≠ '/' := by
    intro h
    simp only [List.mem_cons, List.not_mem_nil, or_false] at h
    rcases h with h | h | h | h | h | h | h | h | h <;> subst h <;>
      exact ⟨special_identCont hcc _ (by decide), special_numeric hcc _ (by decide), by decide, by decide,
        by decide, by decide, by decide⟩
  have hw : isIdentStart cc c = true → c ≠ '\'' ∧ c ≠ '=' ∧ c ≠ '>' ∧ c ≠ '/' := by
    intro h
    have := identStart_notSpecial hcc c h
    refine ⟨?_, ?_, ?_, ?_⟩ <;> (intro hc; subst hc; revert this; decide)
  have hnum : (cc.isNumeric c = true ∨ c = '.') → c ≠ '\'' ∧ c ≠ '=' ∧ c ≠ '>' ∧ c ≠ '/' := by
    intro h
    rcases h with h | h
    · have := numeric_notSpecial hcc c h
      refine ⟨?_, ?_, ?_, ?_⟩ <;> (intro hc; subst hc; revert this; decide)
    · subst h; decide
  cases hl : lexClass t <;> cases hs : startClass t' <;> rw [hl, hs] at hn <;> simp only [StartsOk, hs] at hc <;>
    simp only [] <;>
    first
    | exact absurd hn (by decide)
    | (subst hc; simp_all; done)
    | (have := hother hc; simp_all; done)
    | (have := hw hc; simp_all; done)
    | (have := hnum hc; simp_all; done)
    | skip

/-- the token-level condition on a layout: where two lexemes touch, `needsSep` is false; no separator after the
    token `/` begins with `/` -/
def JoinableTok : List (Item N) → Str → Prop
  | [], _ => True
  | [i], trail => SepFits i.tok (i.sep ++ trail)
  | i :: j :: r, trail =>
    (i.sep = [] → needsSep i.tok j.tok = false) ∧ SepFits i.tok i.sep ∧ JoinableTok (j :: r) trail

theorem joinable_of_tok [NumOps N] {cc : CharClass} (hcc : cc.AsciiOk) (items : List (Item N)) (trail : Str)
    (hitems : ∀ i ∈ items, Lexeme cc i.tok i.text ∧ IsSep i.sep) (htrail : IsTrail trail)
    (h : JoinableTok items trail) : Joinable cc items trail := by
  induction items with
  | nil => trivial
  | cons i r ih =>
    have hi := hitems i (by simp)
    cases r with
    | nil =>
      refine ⟨?_, trivial⟩
      simp only [render]
      exact noCont_trail hcc _ _ _ (.sep hi.2 htrail) h
    | cons j r' =>
      obtain ⟨h1, h2, h3⟩ := h
      refine ⟨?_, ih (fun k hk => hitems k (by simp [hk])) h3⟩
      by_cases hsep : i.sep = []
      · have hj := hitems j (by simp)
        obtain ⟨c, tl, hx, hc⟩ := hj.1.start
        simp only [hsep, render, List.nil_append, hx, List.cons_append]
        exact HeadNot.cons (fuse_start hcc _ _ _ _ hc (h1 hsep))
      · exact noCont_sep hcc _ _ _ _ hi.2 hsep h2

end Scanner
end Slac
