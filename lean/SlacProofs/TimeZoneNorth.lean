/-
  SlacProofs.TimeZoneNorth — the northern-hemisphere `Mm.w.d` zones of SlacModel.TimeZone (standard time in winter,
  daylight time from a day of month ≥ February to a later day of a later month ≤ November, `std < dst`) satisfy the
  zone laws of SlacProps.C16Zone FOR EVERY YEAR: the offsets are `std`/`dst`, and an unambiguous local reading is
  confirmed by the UTC-side lookup unless it is the second before a skipped one.
-/
import SlacProofs.TimeZonePosix
set_option autoImplicit false
set_option linter.unusedSimpArgs false
set_option linter.unusedVariables false
namespace Slac.Time
open Posix

/-- the class of rules covered (a decidable check of the rule's numbers) -/
def Posix.Alt.northern (a : Alt) : Bool :=
  match a.dstStart, a.dstEnd with
  | .monthWeekday ms ws ds, .monthWeekday me we de =>
    decide (2 ≤ ms) && decide (ms < me) && decide (me ≤ 11) &&
    decide (1 ≤ ws) && decide (ws ≤ 5) && decide (ds ≤ 6) && decide (1 ≤ we) && decide (we ≤ 5) && decide (de ≤ 6) &&
    decide (0 ≤ a.dstStartTime) && decide (a.dstStartTime ≤ 86400) && decide (0 ≤ a.dstEndTime) && decide (a.dstEndTime ≤ 86400) &&
    decide (a.std < a.dst) && decide (-86400 < a.std) && decide (a.dst < 86400) &&
    decide (a.std % 60 = 0) && decide (a.dst % 60 = 0) &&
    decide (2 * (a.dst - a.std) ≤ 86400 - a.dstStartTime + a.dstEndTime)
  | _, _ => false

/-- the offsets of a rule zone are its two offsets -/
theorem Posix.Alt.offsetFromUtc_mem (a : Alt) (u : Int) : a.offsetFromUtc u = a.std ∨ a.offsetFromUtc u = a.dst := by
  unfold Alt.offsetFromUtc; split <;> simp

theorem Posix.Alt.localResult_single_mem (a : Alt) (l off : Int) (h : a.localResult l = .single off) : off = a.std ∨ off = a.dst := by
  unfold Alt.localResult at h
  simp only at h
  repeat' split at h
  all_goals first | (cases h; simp) | cases h

/-! ### the two decision procedures on plain numbers -/

/-- the case analysis of `AlternateTime::find_local_time_type` on the six transition instants (current, previous, next year) -/
def dstLogic (u cs ce ps pe ns ne : Int) : Bool :=
  if cs ≤ ce then
    if u < cs then (if u < pe then decide (ps ≤ u) else false)
    else if u < ce then true
    else (if ns ≤ u then decide (u < ne) else false)
  else
    if u < ce then (if u < ps then decide (u < pe) else true)
    else if u < cs then false
    else (if ne ≤ u then decide (ns ≤ u) else true)

theorem Posix.Alt.isDst_eq (a : Alt) (u : Int) :
    a.isDst u = dstLogic u (a.dstStart.unixTime (utcYear u) (a.dstStartTime - a.std)) (a.dstEnd.unixTime (utcYear u) (a.dstEndTime - a.dst))
      (a.dstStart.unixTime (utcYear u - 1) (a.dstStartTime - a.std)) (a.dstEnd.unixTime (utcYear u - 1) (a.dstEndTime - a.dst))
      (a.dstStart.unixTime (utcYear u + 1) (a.dstStartTime - a.std)) (a.dstEnd.unixTime (utcYear u + 1) (a.dstEndTime - a.dst)) := rfl

theorem dstLogic_before {u cs ce ps pe ns ne : Int} (h : cs ≤ ce) (h1 : u < cs) (h2 : pe ≤ u) : dstLogic u cs ce ps pe ns ne = false := by
  have : ¬ u < pe := by omega
  simp [dstLogic, h, h1, this]
theorem dstLogic_during {u cs ce ps pe ns ne : Int} (h : cs ≤ ce) (h1 : cs ≤ u) (h2 : u < ce) : dstLogic u cs ce ps pe ns ne = true := by
  have : ¬ u < cs := by omega
  simp [dstLogic, h, h2, this]
theorem dstLogic_after {u cs ce ps pe ns ne : Int} (h : cs ≤ ce) (h1 : ce ≤ u) (h2 : u < ns) : dstLogic u cs ce ps pe ns ne = false := by
  have a1 : ¬ u < cs := by omega
  have a2 : ¬ u < ce := by omega
  have a3 : ¬ ns ≤ u := by omega
  simp [dstLogic, h, a1, a2, a3]

/-- the northern-hemisphere branch of `find_local_time_type_from_local` -/
def locNorth (l ss se es ee std dst : Int) : LocalResult :=
  if l ≤ ss then .single std
  else if l > ss ∧ l < se then .none
  else if l ≥ se ∧ l < ee then .single dst
  else if l ≥ ee ∧ l ≤ es then .ambiguous std dst
  else .single std

theorem Posix.Alt.localResult_north (a : Alt) (l : Int) (h1 : a.std < a.dst)
    (h2 : (a.dstStart.transitionDate (civilFromDays (l / 86400)).1).1 < (a.dstEnd.transitionDate (civilFromDays (l / 86400)).1).1) :
    a.localResult l = locNorth l (a.dstStart.unixTime (civilFromDays (l / 86400)).1 0 + a.dstStartTime)
      (a.dstStart.unixTime (civilFromDays (l / 86400)).1 0 + a.dstStartTime + a.dst - a.std)
      (a.dstEnd.unixTime (civilFromDays (l / 86400)).1 0 + a.dstEndTime)
      (a.dstEnd.unixTime (civilFromDays (l / 86400)).1 0 + a.dstEndTime + a.std - a.dst) a.std a.dst := by
  have h0 : ¬ a.std = a.dst := by omega
  simp only [Alt.localResult, locNorth, h0, h1, h2, if_true, if_false, decide_true]

theorem locNorth_single {l ss se es ee std dst off : Int} (hne : std ≠ dst) (h : locNorth l ss se es ee std dst = .single off) :
    (off = std ∧ (l ≤ ss ∨ (es < l ∧ se ≤ l))) ∨ (off = dst ∧ se ≤ l ∧ l < ee) := by
  unfold locNorth at h
  split at h
  · cases h; left; exact ⟨rfl, Or.inl (by assumption)⟩
  · split at h
    · cases h
    · split at h
      · cases h; right; rename_i hc; exact ⟨rfl, hc.1, hc.2⟩
      · split at h
        · cases h
        · cases h; left; refine ⟨rfl, Or.inr ?_⟩; omega

theorem locNorth_none {l ss se es ee std dst : Int} (h1 : ss < l) (h2 : l < se) : locNorth l ss se es ee std dst = .none := by
  have : ¬ l ≤ ss := by omega
  simp [locNorth, this, h1, h2]

/-! ### the UTC instant of a reading lies in the same, the previous or the next calendar year -/

theorem near_year (l off y : Int) (hb1 : -86400 < off) (hb2 : off < 86400)
    (h1 : daysFromCivil y 1 1 ≤ l / 86400) (h2 : l / 86400 < daysFromCivil (y + 1) 1 1) :
    (civilFromDays ((l - off) / 86400)).1 = y - 1 ∨ (civilFromDays ((l - off) / 86400)).1 = y ∨
    (civilFromDays ((l - off) / 86400)).1 = y + 1 := by
  obtain ⟨b1, b2⟩ := year_bounds ((l - off) / 86400)
  generalize (civilFromDays ((l - off) / 86400)).1 = y' at b1 b2 ⊢
  have e0 : y - 1 + 1 = y := by omega
  by_cases hlo : y' ≤ y - 2
  · have := (days_year_mono (y' + 1) (y - 1) (by omega)).1
    have := year_len (y - 1)
    rw [e0] at this
    omega
  · by_cases hhi : y + 2 ≤ y'
    · have := (days_year_mono (y + 1 + 1) y' (by omega)).1
      have := year_len (y + 1)
      omega
    · omega

/-- CONFIRMATION for every northern `Mm.w.d` zone and every year: an unambiguous local reading that is not the second
    before a skipped one is the instant `l − off`, at which the UTC-side lookup gives the same offset -/
theorem Posix.Alt.northern_confirmed (a : Alt) (hN : a.northern = true) (l off : Int)
    (hl : a.localResult l = .single off) (hn : a.localResult (l + 1) ≠ .none) : a.offsetFromUtc (l - off) = off := by
  obtain ⟨sO, dO, rs, st, re, et⟩ := a
  unfold Alt.northern at hN
  simp only at hN
  split at hN
  · rename_i _ _ ms ws ds me we de
    simp only [Bool.and_eq_true, decide_eq_true_eq, and_assoc] at hN
    obtain ⟨c1, c2, c3, c4, c5, c6, c7, c8, c9, t1, t2, t3, t4, o1, o2, o3, m1, m2, g⟩ := hN
    obtain ⟨y, hy⟩ : ∃ y, (civilFromDays (l / 86400)).1 = y := ⟨_, rfl⟩
    obtain ⟨J1l, J1u⟩ := year_bounds (l / 86400)
    rw [hy] at J1l J1u
    obtain ⟨DS0, DE0, hS0, hE0, _, _, f01, f02, f03⟩ := mw_year_facts ms ws ds me we de c1 c2 c3 c4 c5 c6 c7 c8 c9 (y - 1)
    obtain ⟨DS1, DE1, hS1, hE1, hT1, hT2, f11, f12, f13⟩ := mw_year_facts ms ws ds me we de c1 c2 c3 c4 c5 c6 c7 c8 c9 y
    obtain ⟨DS2, DE2, hS2, hE2, _, _, f21, f22, f23⟩ := mw_year_facts ms ws ds me we de c1 c2 c3 c4 c5 c6 c7 c8 c9 (y + 1)
    have e0 : y - 1 + 1 = y := by omega
    have e2 : y + 1 - 1 = y := by omega
    rw [e0] at f03
    have yl0 := year_len (y - 1)
    rw [e0] at yl0
    have yl1 := year_len y
    have yl2 := year_len (y + 1)
    have hd : 60 ≤ dO - sO := by omega
    -- the local reading
    have hloc := Alt.localResult_north ⟨sO, dO, .monthWeekday ms ws ds, st, .monthWeekday me we de, et⟩ l o1
      (by simp only [hy, hT1, hT2]; exact c2)
    simp only [hy, hS1, hE1] at hloc
    rw [hloc] at hl
    -- the year of the UTC instant
    have hoffb : -86400 < off ∧ off < 86400 := by
      rcases locNorth_single (by omega) hl with ⟨rfl, _⟩ | ⟨rfl, _⟩ <;> omega
    have hny := near_year l off y hoffb.1 hoffb.2 J1l J1u
    obtain ⟨U1, U2⟩ := year_bounds ((l - off) / 86400)
    simp only [Alt.offsetFromUtc, Alt.isDst_eq, utcYear_eq]
    rcases locNorth_single (by omega) hl with ⟨hoff, hcase⟩ | ⟨hoff, h3, h4⟩
    · -- standard time
      rcases hcase with hA | ⟨hB1, hB2⟩
      · -- before the start: the next second must not be skipped, so `l` is strictly before the start
        have hlt : l < DS1 * 86400 + 0 + st := by
          by_cases hlt : l < DS1 * 86400 + 0 + st
          · exact hlt
          · exfalso
            have hy1 : (civilFromDays ((l + 1) / 86400)).1 = y := year_unique _ _ (by omega) (by omega)
            have hloc1 := Alt.localResult_north ⟨sO, dO, .monthWeekday ms ws ds, st, .monthWeekday me we de, et⟩ (l + 1) o1
              (by simp only [hy1, hT1, hT2]; exact c2)
            simp only [hy1, hS1, hE1] at hloc1
            rw [hloc1, locNorth_none (by omega) (by omega)] at hn
            exact hn rfl
        rcases hny with hy' | hy' | hy'
        · rw [hy'] at U1 U2 ⊢
          rw [e0] at U2
          simp only [e0, hS0, hE0, hS1, hE1]
          rw [dstLogic_after (by omega) (by omega) (by omega)]; simp [hoff]
        · rw [hy'] at U1 U2 ⊢
          simp only [hS0, hE0, hS1, hE1, hS2, hE2]
          rw [dstLogic_before (by omega) (by omega) (by omega)]; simp [hoff]
        · rw [hy'] at U1 U2
          exfalso; omega
      · -- after the end
        rcases hny with hy' | hy' | hy'
        · rw [hy'] at U1 U2
          rw [e0] at U2
          exfalso; omega
        · rw [hy'] at U1 U2 ⊢
          simp only [hS0, hE0, hS1, hE1, hS2, hE2]
          rw [dstLogic_after (by omega) (by omega) (by omega)]; simp [hoff]
        · rw [hy'] at U1 U2 ⊢
          simp only [e2, hS1, hE1, hS2, hE2]
          rw [dstLogic_before (by omega) (by omega) (by omega)]; simp [hoff]
    · -- daylight time
      rcases hny with hy' | hy' | hy'
      · rw [hy'] at U1 U2
        rw [e0] at U2
        exfalso; omega
      · rw [hy'] at U1 U2 ⊢
        simp only [hS0, hE0, hS1, hE1, hS2, hE2]
        rw [dstLogic_during (by omega) (by omega) (by omega)]; simp [hoff]
      · rw [hy'] at U1 U2
        exfalso; omega
  · cases hN

/-! ### the converse: every instant's local reading mentions the instant's offset -/

/-- the result names the offset -/
def LocalResult.mentions : LocalResult → Int → Prop
  | .none, _ => False
  | .single o, off => o = off
  | .ambiguous a b, off => a = off ∨ b = off

theorem dstLogic_true {u cs ce ps pe ns ne : Int} (h : cs ≤ ce) (ht : dstLogic u cs ce ps pe ns ne = true) :
    (u < cs ∧ u < pe ∧ ps ≤ u) ∨ (cs ≤ u ∧ u < ce) ∨ (ce ≤ u ∧ cs ≤ u ∧ ns ≤ u ∧ u < ne) := by
  unfold dstLogic at ht
  rw [if_pos h] at ht
  split at ht
  · split at ht
    · simp only [decide_eq_true_eq] at ht; left; omega
    · cases ht
  · split at ht
    · right; left; omega
    · split at ht
      · simp only [decide_eq_true_eq] at ht; right; right; omega
      · cases ht

theorem dstLogic_false {u cs ce ps pe ns ne : Int} (h : cs ≤ ce) (hf : dstLogic u cs ce ps pe ns ne = false) : ¬ (cs ≤ u ∧ u < ce) := by
  intro hc
  rw [dstLogic_during h hc.1 hc.2] at hf
  cases hf

/-- COMPLETENESS for every northern `Mm.w.d` zone: the local reading of an instant `u` (its wall clock `u + offset`) is
    mapped back to that offset — as the single candidate, or as one of the two candidates inside the repeated hour -/
theorem Posix.Alt.northern_complete (a : Alt) (hN : a.northern = true) (u : Int) :
    (a.localResult (u + a.offsetFromUtc u)).mentions (a.offsetFromUtc u) := by
  obtain ⟨sO, dO, rs, st, re, et⟩ := a
  unfold Alt.northern at hN
  simp only at hN
  split at hN
  · rename_i _ _ ms ws ds me we de
    simp only [Bool.and_eq_true, decide_eq_true_eq, and_assoc] at hN
    obtain ⟨c1, c2, c3, c4, c5, c6, c7, c8, c9, t1, t2, t3, t4, o1, o2, o3, m1, m2, g⟩ := hN
    obtain ⟨y, hy⟩ : ∃ y, (civilFromDays (u / 86400)).1 = y := ⟨_, rfl⟩
    obtain ⟨U1, U2⟩ := year_bounds (u / 86400)
    rw [hy] at U1 U2
    obtain ⟨DS0, DE0, hS0, hE0, hT01, hT02, f01, f02, f03⟩ := mw_year_facts ms ws ds me we de c1 c2 c3 c4 c5 c6 c7 c8 c9 (y - 1)
    obtain ⟨DS1, DE1, hS1, hE1, hT11, hT12, f11, f12, f13⟩ := mw_year_facts ms ws ds me we de c1 c2 c3 c4 c5 c6 c7 c8 c9 y
    obtain ⟨DS2, DE2, hS2, hE2, hT21, hT22, f21, f22, f23⟩ := mw_year_facts ms ws ds me we de c1 c2 c3 c4 c5 c6 c7 c8 c9 (y + 1)
    have e0 : y - 1 + 1 = y := by omega
    rw [e0] at f03
    have yl0 := year_len (y - 1)
    rw [e0] at yl0
    have yl1 := year_len y
    have yl2 := year_len (y + 1)
    have hd : 60 ≤ dO - sO := by omega
    -- the offset of the instant
    have hdst : (⟨sO, dO, .monthWeekday ms ws ds, st, .monthWeekday me we de, et⟩ : Alt).isDst u =
        dstLogic u (DS1 * 86400 + (st - sO)) (DE1 * 86400 + (et - dO)) (DS0 * 86400 + (st - sO)) (DE0 * 86400 + (et - dO))
          (DS2 * 86400 + (st - sO)) (DE2 * 86400 + (et - dO)) := by
      rw [Alt.isDst_eq]
      simp only [utcYear_eq, hy, hS0, hE0, hS1, hE1, hS2, hE2]
    -- the reading of a local time of the years y − 1, y, y + 1
    have hlocal : ∀ (l y2 : Int) (DS DE : Int), (civilFromDays (l / 86400)).1 = y2 →
        (∀ dt, (RuleDay.monthWeekday ms ws ds).unixTime y2 dt = DS * 86400 + dt) →
        (∀ dt, (RuleDay.monthWeekday me we de).unixTime y2 dt = DE * 86400 + dt) →
        ((RuleDay.monthWeekday ms ws ds).transitionDate y2).1 = ms → ((RuleDay.monthWeekday me we de).transitionDate y2).1 = me →
        (⟨sO, dO, .monthWeekday ms ws ds, st, .monthWeekday me we de, et⟩ : Alt).localResult l =
          locNorth l (DS * 86400 + 0 + st) (DS * 86400 + 0 + st + dO - sO) (DE * 86400 + 0 + et) (DE * 86400 + 0 + et + sO - dO) sO dO := by
      intro l y2 DS DE hy2 hS hE hT1 hT2
      have := Alt.localResult_north ⟨sO, dO, .monthWeekday ms ws ds, st, .monthWeekday me we de, et⟩ l o1
        (by simp only [hy2, hT1, hT2]; exact c2)
      simpa only [hy2, hS, hE] using this
    simp only [Alt.offsetFromUtc, hdst]
    cases hlog : dstLogic u (DS1 * 86400 + (st - sO)) (DE1 * 86400 + (et - dO)) (DS0 * 86400 + (st - sO)) (DE0 * 86400 + (et - dO))
        (DS2 * 86400 + (st - sO)) (DE2 * 86400 + (et - dO)) with
    | true =>
      simp only [if_true]
      have hin : DS1 * 86400 + (st - sO) ≤ u ∧ u < DE1 * 86400 + (et - dO) := by
        rcases dstLogic_true (by omega) hlog with h | h | h <;> omega
      have hyl : (civilFromDays ((u + dO) / 86400)).1 = y := year_unique _ _ (by omega) (by omega)
      rw [hlocal (u + dO) y DS1 DE1 hyl hS1 hE1 hT11 hT12]
      unfold locNorth
      have n1 : ¬ u + dO ≤ DS1 * 86400 + 0 + st := by omega
      have n2 : ¬ (u + dO > DS1 * 86400 + 0 + st ∧ u + dO < DS1 * 86400 + 0 + st + dO - sO) := by omega
      rw [if_neg n1, if_neg n2]
      by_cases h3 : u + dO ≥ DS1 * 86400 + 0 + st + dO - sO ∧ u + dO < DE1 * 86400 + 0 + et + sO - dO
      · rw [if_pos h3]; rfl
      · have h4 : u + dO ≥ DE1 * 86400 + 0 + et + sO - dO ∧ u + dO ≤ DE1 * 86400 + 0 + et := by omega
        rw [if_neg h3, if_pos h4]; exact Or.inr rfl
    | false =>
      simp only [Bool.false_eq_true, if_false]
      have hout := dstLogic_false (by omega) hlog
      rcases near_year u (-sO) y (by omega) (by omega) U1 U2 with hyl | hyl | hyl
      · -- the wall clock is still in the previous year: after that year's end of daylight time
        have e : u - -sO = u + sO := by omega
        rw [e] at hyl
        obtain ⟨L1, L2⟩ := year_bounds ((u + sO) / 86400)
        rw [hyl, e0] at L2
        rw [hlocal (u + sO) (y - 1) DS0 DE0 hyl hS0 hE0 hT01 hT02]
        unfold locNorth
        have n1 : ¬ u + sO ≤ DS0 * 86400 + 0 + st := by omega
        have n2 : ¬ (u + sO > DS0 * 86400 + 0 + st ∧ u + sO < DS0 * 86400 + 0 + st + dO - sO) := by omega
        have n3 : ¬ (u + sO ≥ DS0 * 86400 + 0 + st + dO - sO ∧ u + sO < DE0 * 86400 + 0 + et + sO - dO) := by omega
        have n4 : ¬ (u + sO ≥ DE0 * 86400 + 0 + et + sO - dO ∧ u + sO ≤ DE0 * 86400 + 0 + et) := by omega
        rw [if_neg n1, if_neg n2, if_neg n3, if_neg n4]; rfl
      · have e : u - -sO = u + sO := by omega
        rw [e] at hyl
        rw [hlocal (u + sO) y DS1 DE1 hyl hS1 hE1 hT11 hT12]
        unfold locNorth
        by_cases h1 : u + sO ≤ DS1 * 86400 + 0 + st
        · rw [if_pos h1]; rfl
        · have n2 : ¬ (u + sO > DS1 * 86400 + 0 + st ∧ u + sO < DS1 * 86400 + 0 + st + dO - sO) := by omega
          have n3 : ¬ (u + sO ≥ DS1 * 86400 + 0 + st + dO - sO ∧ u + sO < DE1 * 86400 + 0 + et + sO - dO) := by omega
          rw [if_neg h1, if_neg n2, if_neg n3]
          by_cases h4 : u + sO ≥ DE1 * 86400 + 0 + et + sO - dO ∧ u + sO ≤ DE1 * 86400 + 0 + et
          · rw [if_pos h4]; exact Or.inl rfl
          · rw [if_neg h4]; rfl
      · -- the wall clock is already in the next year: before that year's start of daylight time
        have e : u - -sO = u + sO := by omega
        rw [e] at hyl
        obtain ⟨L1, L2⟩ := year_bounds ((u + sO) / 86400)
        rw [hyl] at L1
        rw [hlocal (u + sO) (y + 1) DS2 DE2 hyl hS2 hE2 hT21 hT22]
        unfold locNorth
        have h1 : u + sO ≤ DS2 * 86400 + 0 + st := by omega
        rw [if_pos h1]; rfl
  · cases hN

/-- the numeric side conditions of the class -/
theorem Posix.Alt.northern_offsets (a : Alt) (hN : a.northern = true) :
    -86400 < a.std ∧ a.std < a.dst ∧ a.dst < 86400 ∧ a.std % 60 = 0 ∧ a.dst % 60 = 0 := by
  unfold Alt.northern at hN
  split at hN
  · simp only [Bool.and_eq_true, decide_eq_true_eq, and_assoc] at hN
    obtain ⟨c1, c2, c3, c4, c5, c6, c7, c8, c9, t1, t2, t3, t4, o1, o2, o3, m1, m2, g⟩ := hN
    exact ⟨o2, o1, o3, m1, m2⟩
  · cases hN

/-- the two zones of the correspondence runs belong to the class -/
theorem cet_northern : Zone.cetAlt.northern = true := by decide
theorem est_northern : Zone.estAlt.northern = true := by decide

end Slac.Time
