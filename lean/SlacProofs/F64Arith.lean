/-
  SlacProofs.F64Arith — core `Float` division and multiplication satisfy the STANDARD MODEL of floating-point
  arithmetic, proved from core's logical float model (`UnpackedFloat.div`/`mul` + `roundWithAccuracy`):
  for finite non-zero operands whose exact result q has 2^-1022 ≤ |q| < 2^1023 (normal range),
      x ∘ y  is a finite non-zero double of the expected sign and  |fl q − q| ≤ 2^-53 · |q|.
  * `rne_bounds`       `rneFrac A B` is within 1/2 of A/B;
  * `rwaFrac_normal`   closed form of `roundWithAccuracy` on a fraction with ≥ 53 integer bits (normal range);
  * `rwaFrac_std`      its value over ℚ: relative error ≤ 2^-53;
  * `div_mkF_std`, `mul_mkF_std`   the standard model for `/` and `*` on canonical floats (`mkF`), magnitudes;
  * `toQ`, `div_std`, `mul_std`    the same for arbitrary finite non-zero `Float`s with the signed value `toQ`.
-/
import SlacProofs.F64Near
import Mathlib.Tactic.Linarith
import Mathlib.Tactic.NormNum
import Mathlib.Tactic.Positivity
import Mathlib.Tactic.FieldSimp
import Mathlib.Tactic.Ring
import Mathlib.Algebra.Order.Field.Basic
import Mathlib.Algebra.Order.AbsoluteValue.Basic
import Mathlib.Data.Nat.Cast.Order.Field
set_option autoImplicit false
namespace Slac
namespace F64
open Float.Model Float.Model.UnpackedFloat

/-! ### round-to-nearest-even of a fraction is within 1/2 -/
theorem rne_bounds (A B : Nat) (hB : 0 < B) :
    2 * (rneFrac A B * B) ≤ 2 * A + B ∧ 2 * A ≤ 2 * (rneFrac A B * B) + B := by
  have hdm := Nat.div_add_mod A B
  have hr := Nat.mod_lt A hB
  unfold rneFrac
  generalize A / B = q at *
  generalize A % B = f at *
  have hqB : q * B = B * q := Nat.mul_comm q B
  split
  · omega
  · split
    · rcases Nat.mod_two_eq_zero_or_one q with h | h
      · rw [h, Nat.add_zero]; omega
      · rw [h, Nat.add_mul, Nat.one_mul]; omega
    · rw [Nat.add_mul, Nat.one_mul]; omega

theorem rne_range (A B' : Nat) (hB' : 0 < B') (hA1 : 2^52 * B' ≤ A) (hA2 : A < 2^53 * B') :
    2^52 ≤ rneFrac A B' ∧ rneFrac A B' ≤ 2^53 := by
  obtain ⟨hr1, hr2⟩ := rne_bounds A B' hB'
  generalize rneFrac A B' = r at *
  constructor
  · rcases Nat.lt_or_ge r (2^52) with h | h
    · exfalso
      have : (r + 1) * B' ≤ 2^52 * B' := Nat.mul_le_mul_right _ h
      rw [Nat.add_mul, Nat.one_mul] at this
      omega
    · exact h
  · rcases Nat.lt_or_ge (2^53) r with h | h
    · exfalso
      have : (2^53 + 1) * B' ≤ r * B' := Nat.mul_le_mul_right _ h
      rw [Nat.add_mul, Nat.one_mul] at this
      omega
    · exact h

/-! ### `roundWithAccuracy` on a fraction in the normal range -/
theorem rwaFrac_normal (s : Sign) (A B : Nat) (e : Int) (hB : 0 < B)
    (hQ : 2^52 ≤ A / B) (hlo : -1074 ≤ ((A / B).log2 : Int) + e - 52) :
    ∃ (M : Nat) (E : Int) (hM : 0 < M),
      rwaFrac s A B e = .finite s M E hM ∧ 2^52 ≤ M ∧ M < 2^53 ∧
      2^52 * (B * 2^((A / B).log2 - 52)) ≤ A ∧
      ((M = rneFrac A (B * 2^((A / B).log2 - 52)) ∧ E = e + (((A / B).log2 - 52 : Nat) : Int)) ∨
       (rneFrac A (B * 2^((A / B).log2 - 52)) = 2^53 ∧ M = 2^52 ∧ E = e + (((A / B).log2 - 52 : Nat) : Int) + 1)) := by
  have hQ0 : A / B ≠ 0 := by omega
  have hL : 52 ≤ (A / B).log2 := (Nat.le_log2 hQ0).2 hQ
  have hQ1 : 2^(A / B).log2 ≤ A / B := Nat.log2_self_le hQ0
  have hQ2 : A / B < 2^((A / B).log2 + 1) := Nat.lt_log2_self
  generalize hLd : (A / B).log2 = L at *
  generalize hj : L - 52 = j
  have hLj : L = 52 + j := by omega
  have hB' : 0 < B * 2^j := Nat.mul_pos hB (Nat.two_pow_pos j)
  -- 2^52 · B' ≤ A < 2^53 · B'
  have hA1 : 2^52 * (B * 2^j) ≤ A := by
    have h1 : 2^L * B ≤ A := (Nat.le_div_iff_mul_le hB).1 hQ1
    have h2 : 2^L * B = 2^52 * (B * 2^j) := by rw [hLj, Nat.pow_add]; ac_rfl
    omega
  have hA2 : A < 2^53 * (B * 2^j) := by
    have h1 : A < 2^(L + 1) * B := (Nat.div_lt_iff_lt_mul hB).1 hQ2
    have h2 : 2^(L + 1) * B = 2^53 * (B * 2^j) := by
      have : L + 1 = 53 + j := by omega
      rw [this, Nat.pow_add]; ac_rfl
    omega
  obtain ⟨hrlo', hrhi'⟩ := rne_range A (B * 2^j) hB' hA1 hA2
  have hT : tgt (A / B) e = e + (j : Int) := by unfold tgt; rw [hLd]; omega
  have hjj : (tgt (A / B) e - e).toNat = j := by omega
  rw [rwaFrac_eq s A B e hB]
  simp only [hjj]
  obtain ⟨r, hr⟩ : ∃ r, rneFrac A (B * 2^j) = r := ⟨_, rfl⟩
  have hrlo : 2^52 ≤ r := by rw [← hr]; exact hrlo'
  have hrhi : r ≤ 2^53 := by rw [← hr]; exact hrhi'
  simp only [hr]
  have hr0 : r ≠ 0 := by omega
  by_cases hcarry : r = 2^53
  · have ht2 : tgt r (e + (j : Int)) = e + (j : Int) + 1 := by
      rw [hcarry]; unfold tgt; rw [Nat.log2_two_pow]; omega
    have hj2 : (tgt r (e + (j : Int)) - (e + (j : Int))).toNat = 1 := by omega
    simp only [hj2]
    have hdiv : r / 2^1 = 2^52 := by rw [hcarry]; decide
    refine ⟨2^52, e + (j : Int) + 1, by decide, ?_, by decide, by decide, hA1, Or.inr ⟨hcarry, rfl, rfl⟩⟩
    rw [dif_neg (by rw [hdiv]; decide)]
    congr 1
  · have hlt : r < 2^53 := by omega
    have hlog : r.log2 = 52 := log2_eq_of r 52 hrlo hlt
    have ht2 : tgt r (e + (j : Int)) = e + (j : Int) := by unfold tgt; rw [hlog]; omega
    have hj2 : (tgt r (e + (j : Int)) - (e + (j : Int))).toNat = 0 := by omega
    simp only [hj2, Nat.pow_zero, Nat.div_one]
    refine ⟨r, e + (j : Int), by omega, ?_, hrlo, hlt, hA1, Or.inl ⟨rfl, rfl⟩⟩
    rw [dif_neg hr0]
    congr 1
    omega

/-! ### the value of the rounded fraction over ℚ: relative error ≤ 2^-53 -/
theorem two_zpow_pos (e : Int) : (0:ℚ) < (2:ℚ)^e := zpow_pos (by norm_num) e

theorem rwaFrac_std (s : Sign) (A B : Nat) (e : Int) (hB : 0 < B) (he : e ≤ tgt (A / B) e)
    (hlo : (2:ℚ)^(-1022:ℤ) ≤ (A:ℚ) / B * (2:ℚ)^e) (hhi : (A:ℚ) / B * (2:ℚ)^e < (2:ℚ)^(1023:ℤ)) :
    ∃ (M : Nat) (E : Int) (hc : Canon M E), rwaFrac s A B e = .finite s M E hc.pos ∧
      |(M:ℚ) * (2:ℚ)^E - (A:ℚ) / B * (2:ℚ)^e| ≤ 1 / 2^53 * ((A:ℚ) / B * (2:ℚ)^e) := by
  have hb : (0:ℚ) < B := by exact_mod_cast hB
  have hP : (0:ℚ) < (2:ℚ)^e := two_zpow_pos e
  have h12 : (1:ℚ) < 2 := by norm_num
  have h20 : (2:ℚ) ≠ 0 := by norm_num
  have hQle : ((A / B : Nat) : ℚ) ≤ (A:ℚ) / B := Nat.cast_div_le
  have hQlt : (A:ℚ) / B < ((2^((A / B).log2 + 1) : Nat) : ℚ) := by
    rw [div_lt_iff₀ hb]
    have h1 : A / B < 2^((A / B).log2 + 1) := Nat.lt_log2_self
    have h2 : A < 2^((A / B).log2 + 1) * B := (Nat.div_lt_iff_lt_mul hB).1 h1
    exact_mod_cast h2
  have hLlo : -1022 ≤ ((A / B).log2 : Int) + e := by
    have h1 : (2:ℚ)^(-1022:ℤ) < ((2^((A / B).log2 + 1) : Nat) : ℚ) * (2:ℚ)^e :=
      lt_of_le_of_lt hlo (mul_lt_mul_of_pos_right hQlt hP)
    have h2 : ((2^((A / B).log2 + 1) : Nat) : ℚ) * (2:ℚ)^e = (2:ℚ)^((((A / B).log2 + 1 : Nat) : Int) + e) := by
      rw [zpow_add₀ h20, zpow_natCast]; push_cast; rfl
    rw [h2] at h1
    have := (zpow_lt_zpow_iff_right₀ h12).1 h1
    omega
  have hL52 : 52 ≤ (A / B).log2 := by unfold tgt at he; omega
  have hQ0 : A / B ≠ 0 := by
    intro h; rw [h, Nat.log2_zero] at hL52; omega
  have hQ : 2^52 ≤ A / B := (Nat.le_log2 hQ0).1 hL52
  have hLhi : ((A / B).log2 : Int) + e ≤ 1022 := by
    have h1 : 2^(A / B).log2 ≤ A / B := Nat.log2_self_le hQ0
    have h2 : (2:ℚ)^(((A / B).log2 : Nat) : Int) ≤ (A:ℚ) / B := by
      rw [zpow_natCast]
      refine le_trans ?_ hQle
      exact_mod_cast h1
    have h3 : (2:ℚ)^((((A / B).log2 : Nat) : Int) + e) < (2:ℚ)^(1023:ℤ) := by
      rw [zpow_add₀ h20]
      exact lt_of_le_of_lt (mul_le_mul_of_nonneg_right h2 hP.le) hhi
    have := (zpow_lt_zpow_iff_right₀ h12).1 h3
    omega
  obtain ⟨M, E, hM, hrw, hM52, hM53, hA1, hME⟩ := rwaFrac_normal s A B e hB hQ (by omega)
  generalize hj : (A / B).log2 - 52 = j at hA1 hME
  have hEj : e + (j : Int) = ((A / B).log2 : Int) + e - 52 := by omega
  have hc : Canon M E := by
    refine Canon.of_normal hM52 hM53 ?_ ?_
    · rcases hME with ⟨_, h⟩ | ⟨_, _, h⟩ <;> omega
    · rcases hME with ⟨_, h⟩ | ⟨_, _, h⟩ <;> omega
  refine ⟨M, E, hc, hrw, ?_⟩
  obtain ⟨hr1, hr2⟩ := rne_bounds A (B * 2^j) (Nat.mul_pos hB (Nat.two_pow_pos j))
  generalize hr : rneFrac A (B * 2^j) = r at hr1 hr2 hME
  -- the value of the result
  have hval : (M:ℚ) * (2:ℚ)^E = (r:ℚ) * (2:ℚ)^j * (2:ℚ)^e := by
    rcases hME with ⟨h1, h2⟩ | ⟨h1, h2, h3⟩
    · rw [h1, h2, zpow_add₀ h20, zpow_natCast]; ring
    · rw [h1, h2, h3, zpow_add₀ h20, zpow_add₀ h20, zpow_natCast, zpow_one]; push_cast; ring
  have f1 : 2 * ((r:ℚ) * ((B:ℚ) * (2:ℚ)^j)) ≤ 2 * (A:ℚ) + (B:ℚ) * (2:ℚ)^j := by exact_mod_cast hr1
  have f2 : 2 * (A:ℚ) ≤ 2 * ((r:ℚ) * ((B:ℚ) * (2:ℚ)^j)) + (B:ℚ) * (2:ℚ)^j := by exact_mod_cast hr2
  have f3 : (2:ℚ)^52 * ((B:ℚ) * (2:ℚ)^j) ≤ (A:ℚ) := by exact_mod_cast hA1
  rw [hval]
  have hPb : (0:ℚ) < (2:ℚ)^e / B := div_pos hP hb
  have e1 : (r:ℚ) * (2:ℚ)^j * (2:ℚ)^e - (A:ℚ) / B * (2:ℚ)^e
      = ((r:ℚ) * ((B:ℚ) * (2:ℚ)^j) - (A:ℚ)) * ((2:ℚ)^e / B) := by field_simp
  have e2 : 1 / 2^53 * ((A:ℚ) / B * (2:ℚ)^e) = ((A:ℚ) / 2^53) * ((2:ℚ)^e / B) := by field_simp
  rw [e1, e2, abs_mul, abs_of_pos hPb]
  apply mul_le_mul_of_nonneg_right _ hPb.le
  rw [abs_le]
  constructor <;> linarith

/-! ### `/` and `*` on canonical floats -/
theorem float_div_def (x y : Float) :
    x / y = Float.ofModel (Float.Model.pack (UnpackedFloat.div B64 x.toModel.unpack y.toModel.unpack)) := rfl
theorem float_mul_def (x y : Float) :
    x * y = Float.ofModel (Float.Model.pack (UnpackedFloat.mul B64 x.toModel.unpack y.toModel.unpack)) := rfl

/-- **standard model for division** (magnitudes): the quotient of two finite non-zero doubles whose exact value
    lies in [2^-1022, 2^1023) is the finite double of sign s1/s2 within relative 2^-53 of the exact quotient -/
theorem div_mkF_std (s1 s2 : Sign) (m1 m2 : Nat) (e1 e2 : Int) (h1 : Canon m1 e1) (h2 : Canon m2 e2)
    (hlo : (2:ℚ)^(-1022:ℤ) ≤ ((m1:ℚ) * (2:ℚ)^e1) / ((m2:ℚ) * (2:ℚ)^e2))
    (hhi : ((m1:ℚ) * (2:ℚ)^e1) / ((m2:ℚ) * (2:ℚ)^e2) < (2:ℚ)^(1023:ℤ)) :
    ∃ (M : Nat) (E : Int) (hc : Canon M E),
      mkF s1 m1 e1 h1.pos / mkF s2 m2 e2 h2.pos = mkF (s1 / s2) M E hc.pos ∧
      |(M:ℚ) * (2:ℚ)^E - ((m1:ℚ) * (2:ℚ)^e1) / ((m2:ℚ) * (2:ℚ)^e2)|
        ≤ 1 / 2^53 * (((m1:ℚ) * (2:ℚ)^e1) / ((m2:ℚ) * (2:ℚ)^e2)) := by
  have h20 : (2:ℚ) ≠ 0 := by norm_num
  rw [float_div_def, unpack_mkF s1 m1 e1 h1, unpack_mkF s2 m2 e2 h2, div_finite]
  have hb := div_bits m1 m2 e1 e2 h1.pos h2.pos
  generalize hte : teDiv m1 e1 m2 e2 = te at hb ⊢
  have hte0 : te ≤ e1 - e2 := by rw [← hte]; unfold teDiv; omega
  generalize hsh : (e1 - e2 - te).toNat = sh at hb ⊢
  have hm2 : (0:ℚ) < m2 := by exact_mod_cast h2.pos
  have hv : ((m1 * 2^sh : Nat) : ℚ) / (m2:ℚ) * (2:ℚ)^te = ((m1:ℚ) * (2:ℚ)^e1) / ((m2:ℚ) * (2:ℚ)^e2) := by
    have he : e1 = e2 + te + (sh : Int) := by omega
    have hp2 : (0:ℚ) < (2:ℚ)^e2 := two_zpow_pos e2
    rw [he, zpow_add₀ h20, zpow_add₀ h20, zpow_natCast]; push_cast; field_simp
  obtain ⟨M, E, hc, hrw, hbd⟩ := rwaFrac_std (s1 / s2) (m1 * 2^sh) m2 te h2.pos hb
    (by rw [hv]; exact hlo) (by rw [hv]; exact hhi)
  rw [hv] at hbd
  exact ⟨M, E, hc, by rw [hrw]; rfl, hbd⟩

theorem mul_he (m1 m2 : Nat) (e1 e2 : Int) (h1 : Canon m1 e1) (h2 : Canon m2 e2) :
    e1 + e2 ≤ tgt (m1 * m2 / 1) (e1 + e2) := by
  rw [Nat.div_one]
  have p1 := h1.pos; have p2 := h2.pos
  have hne : m1 * m2 ≠ 0 := Nat.mul_ne_zero (by omega) (by omega)
  rcases h1.cases with ⟨hl1, _⟩ | ⟨_, he1⟩
  · have : 2^52 ≤ m1 := (Nat.le_log2 (by omega)).1 (by omega)
    have : 2^52 ≤ m1 * m2 := Nat.le_trans this (Nat.le_mul_of_pos_right _ p2)
    have := (Nat.le_log2 hne).2 this
    unfold tgt; omega
  · rcases h2.cases with ⟨hl2, _⟩ | ⟨_, he2⟩
    · have : 2^52 ≤ m2 := (Nat.le_log2 (by omega)).1 (by omega)
      have : 2^52 ≤ m1 * m2 := Nat.le_trans this (Nat.le_mul_of_pos_left _ p1)
      have := (Nat.le_log2 hne).2 this
      unfold tgt; omega
    · unfold tgt; omega

/-- **standard model for multiplication** (magnitudes) -/
theorem mul_mkF_std (s1 s2 : Sign) (m1 m2 : Nat) (e1 e2 : Int) (h1 : Canon m1 e1) (h2 : Canon m2 e2)
    (hlo : (2:ℚ)^(-1022:ℤ) ≤ ((m1:ℚ) * (2:ℚ)^e1) * ((m2:ℚ) * (2:ℚ)^e2))
    (hhi : ((m1:ℚ) * (2:ℚ)^e1) * ((m2:ℚ) * (2:ℚ)^e2) < (2:ℚ)^(1023:ℤ)) :
    ∃ (M : Nat) (E : Int) (hc : Canon M E),
      mkF s1 m1 e1 h1.pos * mkF s2 m2 e2 h2.pos = mkF (s1 * s2) M E hc.pos ∧
      |(M:ℚ) * (2:ℚ)^E - ((m1:ℚ) * (2:ℚ)^e1) * ((m2:ℚ) * (2:ℚ)^e2)|
        ≤ 1 / 2^53 * (((m1:ℚ) * (2:ℚ)^e1) * ((m2:ℚ) * (2:ℚ)^e2)) := by
  have h20 : (2:ℚ) ≠ 0 := by norm_num
  rw [float_mul_def, unpack_mkF s1 m1 e1 h1, unpack_mkF s2 m2 e2 h2, mul_finite]
  have hv : ((m1 * m2 : Nat) : ℚ) / ((1 : Nat) : ℚ) * (2:ℚ)^(e1 + e2)
      = ((m1:ℚ) * (2:ℚ)^e1) * ((m2:ℚ) * (2:ℚ)^e2) := by
    rw [zpow_add₀ h20]; push_cast; ring
  obtain ⟨M, E, hc, hrw, hbd⟩ := rwaFrac_std (s1 * s2) (m1 * m2) 1 (e1 + e2) (by decide)
    (mul_he m1 m2 e1 e2 h1 h2) (by rw [hv]; exact hlo) (by rw [hv]; exact hhi)
  rw [hv] at hbd
  exact ⟨M, E, hc, by rw [hrw]; rfl, hbd⟩

/-! ### the signed value of a double and the standard model for arbitrary finite non-zero operands -/
def sgnQ : Sign → ℚ
  | .positive => 1
  | .negative => -1

/-- the rational value of a finite double (decoded sign, significand, exponent) -/
def toQ (x : Float) : ℚ := (if signBit x then -1 else 1) * (((decode x).1 : ℚ) * (2:ℚ)^(decode x).2)

theorem toQ_mkF (s : Sign) (m : Nat) (e : Int) (h : Canon m e) :
    toQ (mkF s m e h.pos) = sgnQ s * ((m:ℚ) * (2:ℚ)^e) := by
  unfold toQ
  rw [decode_mkF s m e h, signBit_mkF s m e h]
  cases s <;> simp [sbit, sgnQ]

theorem sgnQ_div (s1 s2 : Sign) : sgnQ (s1 / s2) = sgnQ s1 / sgnQ s2 := by
  cases s1 <;> cases s2 <;> simp [sgnQ] <;> rfl
theorem sgnQ_mul (s1 s2 : Sign) : sgnQ (s1 * s2) = sgnQ s1 * sgnQ s2 := by
  cases s1 <;> cases s2 <;> simp [sgnQ]
theorem sgnQ_abs (s : Sign) : |sgnQ s| = 1 := by cases s <;> simp [sgnQ]
theorem sgnQ_ne (s : Sign) : sgnQ s ≠ 0 := by cases s <;> simp [sgnQ]

theorem isFinite_mkF (s : Sign) (m : Nat) (e : Int) (h : Canon m e) : isFinite (mkF s m e h.pos) = true := by
  have := magOf_lt m e h
  unfold isFinite; rw [mag_mkF s m e h]; simp; omega

theorem canon_val_pos (m : Nat) (e : Int) (h : Canon m e) : (0:ℚ) < (m:ℚ) * (2:ℚ)^e :=
  mul_pos (by exact_mod_cast h.pos) (two_zpow_pos e)

/-- **standard model for `/` on `Float`**: finite non-zero operands, exact quotient in the normal range -/
theorem div_std (x y : Float) (hx : isFinite x = true) (hx0 : isZero x = false)
    (hy : isFinite y = true) (hy0 : isZero y = false)
    (hlo : (2:ℚ)^(-1022:ℤ) ≤ |toQ x / toQ y|) (hhi : |toQ x / toQ y| < (2:ℚ)^(1023:ℤ)) :
    isFinite (x / y) = true ∧ isZero (x / y) = false ∧
      |toQ (x / y) - toQ x / toQ y| ≤ 1 / 2^53 * |toQ x / toQ y| := by
  obtain ⟨s1, m1, e1, h1, rfl⟩ := exists_mkF x hx hx0
  obtain ⟨s2, m2, e2, h2, rfl⟩ := exists_mkF y hy hy0
  rw [toQ_mkF _ _ _ h1, toQ_mkF _ _ _ h2] at hlo hhi ⊢
  have p1 := canon_val_pos m1 e1 h1
  have p2 := canon_val_pos m2 e2 h2
  generalize hv1 : (m1:ℚ) * (2:ℚ)^e1 = v1 at *
  generalize hv2 : (m2:ℚ) * (2:ℚ)^e2 = v2 at *
  have hq : sgnQ s1 * v1 / (sgnQ s2 * v2) = sgnQ (s1 / s2) * (v1 / v2) := by
    rw [sgnQ_div]; have := sgnQ_ne s2; field_simp
  have habs : |sgnQ (s1 / s2) * (v1 / v2)| = v1 / v2 := by
    rw [abs_mul, sgnQ_abs, one_mul, abs_of_pos (div_pos p1 p2)]
  rw [hq, habs] at hlo hhi ⊢
  subst hv1; subst hv2
  obtain ⟨M, E, hc, heq, hbd⟩ := div_mkF_std s1 s2 m1 m2 e1 e2 h1 h2 hlo hhi
  rw [heq, toQ_mkF _ _ _ hc]
  refine ⟨isFinite_mkF _ _ _ hc, isZero_mkF _ _ _ hc, ?_⟩
  rw [← mul_sub, abs_mul, sgnQ_abs, one_mul]
  exact hbd

/-- **standard model for `*` on `Float`**: finite non-zero operands, exact product in the normal range -/
theorem mul_std (x y : Float) (hx : isFinite x = true) (hx0 : isZero x = false)
    (hy : isFinite y = true) (hy0 : isZero y = false)
    (hlo : (2:ℚ)^(-1022:ℤ) ≤ |toQ x * toQ y|) (hhi : |toQ x * toQ y| < (2:ℚ)^(1023:ℤ)) :
    isFinite (x * y) = true ∧ isZero (x * y) = false ∧
      |toQ (x * y) - toQ x * toQ y| ≤ 1 / 2^53 * |toQ x * toQ y| := by
  obtain ⟨s1, m1, e1, h1, rfl⟩ := exists_mkF x hx hx0
  obtain ⟨s2, m2, e2, h2, rfl⟩ := exists_mkF y hy hy0
  rw [toQ_mkF _ _ _ h1, toQ_mkF _ _ _ h2] at hlo hhi ⊢
  have p1 := canon_val_pos m1 e1 h1
  have p2 := canon_val_pos m2 e2 h2
  generalize hv1 : (m1:ℚ) * (2:ℚ)^e1 = v1 at *
  generalize hv2 : (m2:ℚ) * (2:ℚ)^e2 = v2 at *
  have hq : sgnQ s1 * v1 * (sgnQ s2 * v2) = sgnQ (s1 * s2) * (v1 * v2) := by
    rw [sgnQ_mul]; ring
  have habs : |sgnQ (s1 * s2) * (v1 * v2)| = v1 * v2 := by
    rw [abs_mul, sgnQ_abs, one_mul, abs_of_pos (mul_pos p1 p2)]
  rw [hq, habs] at hlo hhi ⊢
  subst hv1; subst hv2
  obtain ⟨M, E, hc, heq, hbd⟩ := mul_mkF_std s1 s2 m1 m2 e1 e2 h1 h2 hlo hhi
  rw [heq, toQ_mkF _ _ _ hc]
  refine ⟨isFinite_mkF _ _ _ hc, isZero_mkF _ _ _ hc, ?_⟩
  rw [← mul_sub, abs_mul, sgnQ_abs, one_mul]
  exact hbd

end F64
end Slac
