/-
  SlacProofs.MathHex — `Stdlib.upperHexDigits n` really is the upper-case hexadecimal numeral of `n`:
  evaluating the digits in base 16 gives `n` back, every digit is one of 0-9A-F, there is no leading zero
  for n > 0, and the length is the number of base-16 digits.  (Used by C17 `int_to_hex_spec`.)
-/
import SlacModel.Stdlib
set_option autoImplicit false
namespace Slac
namespace MathHex
open Stdlib

/-- value of an upper-case hexadecimal digit (0 for every other character) -/
def hexVal (c : Char) : Nat :=
  if 48 ≤ c.toNat ∧ c.toNat ≤ 57 then c.toNat - 48
  else if 65 ≤ c.toNat ∧ c.toNat ≤ 70 then c.toNat - 55 else 0

/-- `0-9A-F` -/
def isUpperHex (c : Char) : Bool :=
  (decide (48 ≤ c.toNat) && decide (c.toNat ≤ 57)) || (decide (65 ≤ c.toNat) && decide (c.toNat ≤ 70))

/-- base-16 evaluation of a digit string, most significant digit first -/
def evalHex (ds : Str) : Nat := ds.foldl (fun a c => 16 * a + hexVal c) 0

/-- the 16 upper-case digits -/
def hexDigit (d : Nat) : Char := (Nat.digitChar d).toUpper

theorem hexDigit_table : ∀ d, d < 16 →
    hexVal (hexDigit d) = d ∧ isUpperHex (hexDigit d) = true ∧ (hexDigit d = '0' → d = 0) := by
  decide

theorem hexVal_hexDigit {d : Nat} (h : d < 16) : hexVal (hexDigit d) = d := (hexDigit_table d h).1
theorem isUpperHex_hexDigit {d : Nat} (h : d < 16) : isUpperHex (hexDigit d) = true := (hexDigit_table d h).2.1
theorem hexDigit_eq_zero {d : Nat} (h : d < 16) (h0 : hexDigit d = '0') : d = 0 := (hexDigit_table d h).2.2 h0

theorem upperHexDigits_lt {n : Nat} (h : n < 16) : upperHexDigits n = [hexDigit n] := by
  simp [upperHexDigits, Nat.toDigits_of_lt_base h, hexDigit]

theorem upperHexDigits_step {n : Nat} (h : 16 ≤ n) :
    upperHexDigits n = upperHexDigits (n / 16) ++ [hexDigit (n % 16)] := by
  simp [upperHexDigits, Nat.toDigits_of_base_le (by decide : 1 < 16) h, hexDigit]

theorem evalHex_append (ds : Str) (c : Char) : evalHex (ds ++ [c]) = 16 * evalHex ds + hexVal c := by
  simp [evalHex, List.foldl_append]

/-- the digits evaluate to the number -/
theorem evalHex_upperHexDigits (n : Nat) : evalHex (upperHexDigits n) = n := by
  induction n using Nat.strongRecOn with | ind n ih
  rcases Nat.lt_or_ge n 16 with h | h
  · rw [upperHexDigits_lt h]; simp [evalHex, hexVal_hexDigit h]
  · rw [upperHexDigits_step h, evalHex_append, ih (n / 16) (by omega),
      hexVal_hexDigit (Nat.mod_lt n (by decide))]
    omega

/-- every character is one of 0-9A-F -/
theorem upperHexDigits_all (n : Nat) : ∀ c ∈ upperHexDigits n, isUpperHex c = true := by
  induction n using Nat.strongRecOn with | ind n ih
  rcases Nat.lt_or_ge n 16 with h | h
  · rw [upperHexDigits_lt h]; intro c hc; simp at hc; subst hc; exact isUpperHex_hexDigit h
  · rw [upperHexDigits_step h]; intro c hc
    rcases List.mem_append.1 hc with hc | hc
    · exact ih (n / 16) (by omega) c hc
    · simp at hc; subst hc; exact isUpperHex_hexDigit (Nat.mod_lt n (by decide))

theorem upperHexDigits_ne_nil (n : Nat) : upperHexDigits n ≠ [] := by
  simp [upperHexDigits]

/-- no leading zero for a positive number -/
theorem upperHexDigits_head (n : Nat) (hn : 0 < n) : (upperHexDigits n).head? ≠ some '0' := by
  induction n using Nat.strongRecOn with | ind n ih
  rcases Nat.lt_or_ge n 16 with h | h
  · rw [upperHexDigits_lt h]; intro h0
    simp at h0
    have := hexDigit_eq_zero h h0; omega
  · rw [upperHexDigits_step h]
    have hne := upperHexDigits_ne_nil (n / 16)
    have := ih (n / 16) (by omega) (by omega)
    cases hd : upperHexDigits (n / 16) with
    | nil => exact absurd hd hne
    | cons a as => rw [hd] at this; simpa using this

/-- zero prints as "0" -/
theorem upperHexDigits_zero : upperHexDigits 0 = ['0'] := by decide

/-- number of digits -/
theorem upperHexDigits_length_le (n k : Nat) (hk : 0 < k) : (upperHexDigits n).length ≤ k ↔ n < 16 ^ k := by
  simp only [upperHexDigits, List.length_map]
  exact Nat.length_toDigits_le_iff (by decide) hk

/-- two numbers with the same numeral are equal (the numeral determines the number) -/
theorem upperHexDigits_inj {a b : Nat} (h : upperHexDigits a = upperHexDigits b) : a = b := by
  rw [← evalHex_upperHexDigits a, ← evalHex_upperHexDigits b, h]

example : upperHexDigits 3735928559 = ['D','E','A','D','B','E','E','F'] := by decide
example : evalHex ['D','E','A','D','B','E','E','F'] = 3735928559 := by decide

end MathHex
end Slac
