/-
  SlacProofs.OrderNum — the facts about IEEE comparison that the ordering laws (C13) need, packaged as a class,
  and the proof that the driver's `Float` instance (bit-level `F64.pcmp` / `F64.beq`) satisfies them
  for every bit pattern.
-/
import SlacModel.Num
set_option autoImplicit false
namespace Slac

/-- laws of `partial_cmp` / `==` on numbers -/
class LawfulNum (N : Type) [NumOps N] : Prop where
  /-- `partial_cmp` is oriented -/
  pcmp_swap : ∀ a b : N, NumOps.pcmp b a = (NumOps.pcmp a b).map Ordering.swap
  /-- `==` is `partial_cmp == Some(Equal)` -/
  beq_iff : ∀ a b : N, NumOps.beq a b = true ↔ NumOps.pcmp a b = some .eq
  /-- two numbers are incomparable iff one of them is a NaN (`x` is a NaN iff `pcmp x x = none`) -/
  pcmp_none_iff : ∀ a b : N, NumOps.pcmp a b = none ↔ (NumOps.pcmp a a = none ∨ NumOps.pcmp b b = none)
  /-- equal numbers compare alike -/
  pcmp_eq_left : ∀ (a b c : N) (o : Ordering), NumOps.pcmp a b = some .eq → NumOps.pcmp b c = some o →
    NumOps.pcmp a c = some o
  /-- `<` is transitive -/
  pcmp_lt_trans : ∀ a b c : N, NumOps.pcmp a b = some .lt → NumOps.pcmp b c = some .lt → NumOps.pcmp a c = some .lt

namespace LawfulNum
variable {N : Type} [NumOps N] [LawfulNum N]

/-- NaN test expressed through the interface -/
def isNaN (a : N) : Bool := (NumOps.pcmp a a).isNone

omit [LawfulNum N] in
theorem isNaN_iff (a : N) : isNaN a = true ↔ NumOps.pcmp a a = none := by
  simp [isNaN]

theorem pcmp_self (a : N) : NumOps.pcmp a a = some .eq ∨ NumOps.pcmp a a = none := by
  have h := pcmp_swap a a
  cases hc : NumOps.pcmp a a with
  | none => exact Or.inr rfl
  | some o =>
    rw [hc] at h
    cases o <;> simp [Ordering.swap] at h
    exact Or.inl rfl

theorem pcmp_self_of_not_nan (a : N) (h : isNaN a = false) : NumOps.pcmp a a = some .eq := by
  rcases pcmp_self a with h' | h'
  · exact h'
  · simp [isNaN, h'] at h

theorem pcmp_some_of_not_nan (a b : N) (ha : isNaN a = false) (hb : isNaN b = false) :
    ∃ o, NumOps.pcmp a b = some o := by
  cases hc : NumOps.pcmp a b with
  | some o => exact ⟨o, rfl⟩
  | none =>
    rcases (pcmp_none_iff a b).1 hc with h | h
    · simp [isNaN, h] at ha
    · simp [isNaN, h] at hb

theorem pcmp_none_of_nan_left (a b : N) (ha : isNaN a = true) : NumOps.pcmp a b = none :=
  (pcmp_none_iff a b).2 (Or.inl ((isNaN_iff a).1 ha))

theorem pcmp_none_of_nan_right (a b : N) (hb : isNaN b = true) : NumOps.pcmp a b = none :=
  (pcmp_none_iff a b).2 (Or.inr ((isNaN_iff b).1 hb))

theorem pcmp_swap_some (a b : N) (o : Ordering) (h : NumOps.pcmp a b = some o) :
    NumOps.pcmp b a = some o.swap := by
  rw [pcmp_swap a b, h]; rfl

theorem pcmp_eq_right (a b c : N) (o : Ordering) (h1 : NumOps.pcmp a b = some o)
    (h2 : NumOps.pcmp b c = some .eq) : NumOps.pcmp a c = some o := by
  have h3 := pcmp_eq_left c b a o.swap (pcmp_swap_some b c .eq h2) (pcmp_swap_some a b o h1)
  have h4 := pcmp_swap_some c a o.swap h3
  simpa using h4

theorem pcmp_gt_trans (a b c : N) (h1 : NumOps.pcmp a b = some .gt) (h2 : NumOps.pcmp b c = some .gt) :
    NumOps.pcmp a c = some .gt := by
  have h3 := pcmp_lt_trans c b a (pcmp_swap_some b c .gt h2) (pcmp_swap_some a b .gt h1)
  exact pcmp_swap_some c a .lt h3

theorem beq_symm (a b : N) : NumOps.beq a b = NumOps.beq b a := by
  have h1 := beq_iff a b
  have h2 := beq_iff b a
  have h3 : NumOps.pcmp a b = some .eq ↔ NumOps.pcmp b a = some .eq := by
    constructor
    · intro h; exact pcmp_swap_some a b .eq h
    · intro h; exact pcmp_swap_some b a .eq h
  cases hab : NumOps.beq a b <;> cases hba : NumOps.beq b a <;> simp_all

end LawfulNum

/-! ### the `Float` instance -/
namespace F64

theorem cmpInt_swap (x y : Int) : cmpInt y x = (cmpInt x y).swap := by
  unfold cmpInt
  by_cases h1 : x < y <;> by_cases h2 : y < x <;> simp [h1, h2, Ordering.swap]
  omega

theorem cmpInt_eq_iff (x y : Int) : cmpInt x y = .eq ↔ x = y := by
  unfold cmpInt
  by_cases h1 : x < y <;> by_cases h2 : y < x <;> simp [h1, h2] <;> omega

theorem cmpInt_lt_iff (x y : Int) : cmpInt x y = .lt ↔ x < y := by
  unfold cmpInt
  by_cases h1 : x < y <;> by_cases h2 : y < x <;> simp [h1, h2]

theorem pcmpN_swap (a b : Nat) : pcmpN b a = (pcmpN a b).map Ordering.swap := by
  unfold pcmpN
  cases ha : isNaNN a <;> cases hb : isNaNN b <;> simp [cmpInt_swap (keyN a) (keyN b)]

theorem pcmpN_eq_some_iff (a b : Nat) (o : Ordering) :
    pcmpN a b = some o ↔ (isNaNN a = false ∧ isNaNN b = false ∧ cmpInt (keyN a) (keyN b) = o) := by
  unfold pcmpN
  cases ha : isNaNN a <;> cases hb : isNaNN b <;> simp

theorem pcmpN_eq_none_iff (a b : Nat) : pcmpN a b = none ↔ (isNaNN a = true ∨ isNaNN b = true) := by
  unfold pcmpN
  cases ha : isNaNN a <;> cases hb : isNaNN b <;> simp

theorem beqN_iff (a b : Nat) : beqN a b = true ↔ pcmpN a b = some .eq := by
  rw [pcmpN_eq_some_iff, cmpInt_eq_iff]
  unfold beqN
  cases ha : isNaNN a <;> cases hb : isNaNN b <;> simp

end F64

instance : LawfulNum Float where
  pcmp_swap a b := F64.pcmpN_swap (F64.bits a) (F64.bits b)
  beq_iff a b := F64.beqN_iff (F64.bits a) (F64.bits b)
  pcmp_none_iff a b := by
    show F64.pcmpN _ _ = none ↔ (F64.pcmpN _ _ = none ∨ F64.pcmpN _ _ = none)
    simp only [F64.pcmpN_eq_none_iff, or_self]
  pcmp_eq_left a b c o := by
    show F64.pcmpN _ _ = some .eq → F64.pcmpN _ _ = some o → F64.pcmpN _ _ = some o
    simp only [F64.pcmpN_eq_some_iff, F64.cmpInt_eq_iff]
    rintro ⟨ha, _, hab⟩ ⟨_, hc, hbc⟩
    exact ⟨ha, hc, by rw [hab]; exact hbc⟩
  pcmp_lt_trans a b c := by
    show F64.pcmpN _ _ = some .lt → F64.pcmpN _ _ = some .lt → F64.pcmpN _ _ = some .lt
    simp only [F64.pcmpN_eq_some_iff, F64.cmpInt_lt_iff]
    rintro ⟨ha, _, hab⟩ ⟨_, hc, hbc⟩
    exact ⟨ha, hc, by omega⟩

end Slac
