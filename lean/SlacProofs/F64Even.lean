/-
  SlacProofs.F64Even — `even` on EVERY integer-valued double (any magnitude, either sign, ±0):
  `isEven_of_integer : isFinite x → trunc x = x → Stdlib.isEven x = decide (truncToInt x % 2 = 0)`.
  (`F64.isEven_ofInt` in F64Int is the `n as f64` form for |n| ≤ 2^53.)
-/
import SlacProofs.F64Cast
import SlacProofs.F64Frac
set_option autoImplicit false
namespace Slac
namespace F64
open Float.Model Float.Model.UnpackedFloat

theorem rem_two_one (sg : Bool) : beq (ofNatScaled sg (2^52) (-52)) 0 = false := by
  cases sg <;> decide +kernel

theorem truncToInt_mkF (s : Sign) (m : Nat) (e : Int) (h : Canon m e) :
    truncToInt (mkF s m e h.pos) =
      s.apply ((if e ≥ 0 then m <<< e.toNat else m >>> (-e).toNat : Nat) : Int) := by
  unfold truncToInt
  simp only [decode_mkF s m e h, signBit_mkF s m e h]
  cases s <;> simp [sbit, Sign.apply]

/-- `even` on every integer-valued finite non-zero double: parity of the integer it represents -/
theorem isEven_mkF_int (s : Sign) (m : Nat) (e : Int) (h : Canon m e) (hi : 0 ≤ e ∨ 2^(-e).toNat ∣ m) :
    Stdlib.isEven (mkF s m e h.pos) = decide (truncToInt (mkF s m e h.pos) % 2 = 0) := by
  have hlt := h.lt; have hm0 : m ≠ 0 := by have := h.pos; omega
  show beq (rem (floor (mkF s m e h.pos)) (F64.ofNat 2)) 0 = _
  rw [floor_mkF_int s m e h hi, ofNat_two, rem_mkF _ _ _ _ _ _ h canon_two, truncToInt_mkF s m e h]
  have hpar : ∀ n : Nat, (s.apply (n : Int)) % 2 = 0 ↔ n % 2 = 0 := by
    intro n; cases s
    · show (-(n:Int)) % 2 = 0 ↔ _; omega
    · show ((n:Int)) % 2 = 0 ↔ _; omega
  by_cases he1 : 1 ≤ e
  · -- a multiple of 2: remainder 0
    have hmin : min e (-51) = -51 := by omega
    rw [hmin]
    have hs1 : (e - -51).toNat = (e.toNat - 1) + 52 := by omega
    have hs2 : ((-51 : Int) - -51).toNat = 0 := by decide
    rw [hs1, hs2, Nat.shiftLeft_eq, Nat.shiftLeft_eq, Nat.pow_zero, Nat.mul_one, Nat.pow_add, ← Nat.mul_assoc,
      Nat.mul_mod_left, rem_two_even]
    symm; rw [decide_eq_true_eq, if_pos (by omega), hpar, Nat.shiftLeft_eq]
    have : e.toNat = (e.toNat - 1) + 1 := by omega
    rw [this, Nat.pow_succ, ← Nat.mul_assoc, Nat.mul_mod_left]
  · by_cases he0 : e = 0
    · subst he0
      have hmin : min (0:Int) (-51) = -51 := by decide
      rw [hmin]
      have hs1 : ((0:Int) - -51).toNat = 51 := by decide
      have hs2 : ((-51 : Int) - -51).toNat = 0 := by decide
      rw [hs1, hs2, Nat.shiftLeft_eq, Nat.shiftLeft_eq, Nat.pow_zero, Nat.mul_one]
      have hmod : m * 2^51 % 2^52 = (m % 2) * 2^51 := by
        have : (2:Nat)^52 = 2 * 2^51 := by decide
        rw [this, Nat.mul_mod_mul_right]
      rw [hmod]
      have hv : (if (0:Int) ≥ 0 then m <<< (0:Int).toNat else m >>> (-(0:Int)).toNat) = m := by simp
      rw [hv, Bool.eq_iff_iff, decide_eq_true_eq, hpar]
      rcases Nat.mod_two_eq_zero_or_one m with h0 | h1
      · rw [h0, Nat.zero_mul, rem_two_even]; simp
      · rw [h1, Nat.one_mul, rem_two_odd]; simp
    · have heneg : e < 0 := by omega
      have hd : 2^(-e).toNat ∣ m := by rcases hi with hi | hi; omega; exact hi
      generalize hk : (-e).toNat = k at hd
      obtain ⟨q, hq⟩ := hd
      have hk1 : 1 ≤ k := by omega
      have hkm : 2^k ≤ m := by rw [hq]; exact Nat.le_mul_of_pos_right _ (by
        rcases Nat.eq_zero_or_pos q with h0 | h0
        · rw [h0] at hq; omega
        · exact h0)
      have hk52 : k ≤ 52 := by
        have : 2^k < 2^53 := by omega
        have := (Nat.pow_lt_pow_iff_right (by decide : 1 < 2)).1 this
        omega
      have hv : (if e ≥ 0 then m <<< e.toNat else m >>> k) = q := by
        rw [if_neg (by omega), Nat.shiftRight_eq_div_pow, hq, Nat.mul_div_cancel_left _ (Nat.two_pow_pos k)]
      rw [hv, Bool.eq_iff_iff, decide_eq_true_eq, hpar]
      by_cases hk52' : k = 52
      · -- m = 2^52, the value is ±1
        have hq1 : q = 1 := by
          subst hk52'
          rcases Nat.lt_or_ge q 2 with h2 | h2
          · rcases Nat.eq_zero_or_pos q with h0 | h0
            · rw [h0] at hq; omega
            · omega
          · have : 2^52 * 2 ≤ 2^52 * q := Nat.mul_le_mul_left _ h2
            omega
        have hm : m = 2^52 := by rw [hq, hq1, hk52']
        have he52 : e = -52 := by omega
        subst he52
        have hmin : min (-52:Int) (-51) = -52 := by decide
        have hs1 : ((-52:Int) - -52).toNat = 0 := by decide
        have hs2 : ((-51 : Int) - -52).toNat = 1 := by decide
        rw [hmin, hs1, hs2, hm, hq1]
        have : (2^52 <<< 0) % (2^52 <<< 1) = 2^52 := by decide
        rw [this, rem_two_one]; simp
      · have hmin : min e (-51) = -51 := by omega
        rw [hmin]
        have hs1 : (e - -51).toNat = 51 - k := by omega
        have hs2 : ((-51 : Int) - -51).toNat = 0 := by decide
        rw [hs1, hs2, Nat.shiftLeft_eq, Nat.shiftLeft_eq, Nat.pow_zero, Nat.mul_one, hq]
        have hX : 2^k * q * 2^(51 - k) = q * 2^51 := by
          rw [Nat.mul_comm (2^k) q, Nat.mul_assoc, ← Nat.pow_add]; congr 2; omega
        rw [hX]
        have hmod : q * 2^51 % 2^52 = (q % 2) * 2^51 := by
          have : (2:Nat)^52 = 2 * 2^51 := by decide
          rw [this, Nat.mul_mod_mul_right]
        rw [hmod]
        rcases Nat.mod_two_eq_zero_or_one q with h0 | h1
        · rw [h0, Nat.zero_mul, rem_two_even]; simp
        · rw [h1, Nat.one_mul, rem_two_odd]; simp

theorem int_valued_of_trunc_eq (s : Sign) (m : Nat) (e : Int) (h : Canon m e)
    (ht : trunc (mkF s m e h.pos) = mkF s m e h.pos) : 0 ≤ e ∨ 2^(-e).toNat ∣ m := by
  by_cases he0 : 0 ≤ e
  · exact Or.inl he0
  · right
    by_cases he : e < -52
    · exfalso
      rw [trunc_mkF_small s m e h he] at ht
      have h1 := congrArg bits ht
      rw [bits_zeroF, bits_mkF2 s m e h] at h1
      have := magOf_pos m e h
      omega
    · obtain ⟨hc', ht'⟩ := trunc_mkF_mid s m e h (by omega) (by omega)
      rw [ht'] at ht
      have h1 := congrArg decode ht
      rw [decode_mkF _ _ _ hc', decode_mkF _ _ _ h] at h1
      have h2 : m / 2^(-e).toNat * 2^(-e).toNat = m := congrArg Prod.fst h1
      exact ⟨m / 2^(-e).toNat, by rw [Nat.mul_comm]; exact h2.symm⟩

theorem isEven_zero : Stdlib.isEven (Float.ofBits 0) = true ∧ Stdlib.isEven (Float.ofBits 0x8000000000000000) = true ∧
    truncToInt (Float.ofBits 0) = 0 ∧ truncToInt (Float.ofBits 0x8000000000000000) = 0 := by decide +kernel

/-- **even on every integer-valued double** (any magnitude, either sign, ±0 included):
    `even(x)` holds iff the integer x represents is divisible by 2. -/
theorem isEven_of_integer (x : Float) (hf : isFinite x = true) (hint : trunc x = x) :
    Stdlib.isEven x = decide (truncToInt x % 2 = 0) := by
  by_cases hz : isZero x = true
  · have hb := bits_lt x
    unfold isZero magN at hz; rw [decide_eq_true_eq] at hz
    have : bits x = 0 ∨ bits x = 2^63 := by omega
    rcases this with h0 | h0
    · have hx : x = Float.ofBits 0 := by apply eq_of_bits_eq; rw [h0]; decide +kernel
      rw [hx, isEven_zero.1, isEven_zero.2.2.1]; decide
    · have hx : x = Float.ofBits 0x8000000000000000 := by apply eq_of_bits_eq; rw [h0]; decide +kernel
      rw [hx, isEven_zero.2.1, isEven_zero.2.2.2]; decide
  · have hz' : isZero x = false := by cases h : isZero x <;> simp_all
    obtain ⟨s, m, e, h, rfl⟩ := exists_mkF x hf hz'
    exact isEven_mkF_int s m e h (int_valued_of_trunc_eq s m e h hint)

end F64
end Slac
