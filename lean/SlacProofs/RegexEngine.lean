/-
  SlacProofs.RegexEngine — lemmas about the concrete regex engine model (SlacModel.RegexEngine):
  replacement text without `$` is copied verbatim; plain splicing.
-/
import SlacModel.RegexEngine
set_option autoImplicit false
namespace Slac.RegexEngine

/-- `interpolate::string` copies a replacement text without `$` -/
theorem interp_plain (re : Compiled) (h : Str) (gs : List (Option (Nat × Nat))) (f : Nat) (rep : Str)
    (hp : '$' ∉ rep) : interp re h gs f rep = rep := by
  induction rep generalizing f with
  | nil => cases f <;> rfl
  | cons c t ih =>
    cases f with
    | zero => rfl
    | succ f =>
      have hc : c ≠ '$' := fun e => hp (by simp [e])
      have ht : '$' ∉ t := fun e => hp (by simp [e])
      simp [interp, hc, ih f ht]

theorem expand_plain (re : Compiled) (h rep : Str) (x : Mt) (hp : '$' ∉ rep) : expand re h rep x = rep :=
  interp_plain re h _ _ rep hp

/-- replacement with plain text: copy the text between the given spans, put `rep` for each span -/
def splicePlain (h rep : Str) : Nat → List (Nat × Nat) → Str
  | last, [] => h.drop last
  | last, (s, e) :: xs => extract h last s ++ rep ++ splicePlain h rep e xs

def Mt.span (x : Mt) : Nat × Nat := (x.s, x.e.i)

theorem spliceFrom_plain (re : Compiled) (h rep : Str) (hp : '$' ∉ rep) (last : Nat) (ms : List Mt) :
    spliceFrom re h rep last ms = splicePlain h rep last (ms.map Mt.span) := by
  induction ms generalizing last with
  | nil => rfl
  | cons x xs ih => simp [spliceFrom, splicePlain, Mt.span, expand_plain re h rep x hp, ih]

/-- `replacen` with plain replacement text rewrites exactly the first `n` matches (all of them for `n = 0`) -/
theorem replacen_plain (re : Compiled) (h rep : Str) (n : Nat) (hp : '$' ∉ rep) :
    replacen re h n rep =
      splicePlain h rep 0 (((if n = 0 then allMatches re h else (allMatches re h).take n)).map Mt.span) := by
  simp only [replacen]
  exact spliceFrom_plain re h rep hp 0 _

/-- the first reported match is the first search result; the iteration continues behind it -/
theorem allMatches_eq (re : Compiled) (h : Str) :
    allMatches re h = match search re (cur0 h) with
      | none => []
      | some x => x :: findIterAux re (h.length + 1) x.e (some x.e.i) := by
  simp only [allMatches, findIterAux]
  cases search re (cur0 h) with
  | none => rfl
  | some x => simp

end Slac.RegexEngine
