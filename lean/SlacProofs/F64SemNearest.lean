/-
  SlacProofs.F64SemNearest — `Float.ofScientific` yields the NEAREST double.
  * `NearestDouble cn cd x`: x is the double nearest to the rational cn/cd ≥ 0 — no finite double is closer (distances
    compared exactly, in units of 2^-1074 and multiplied by cd), a tie goes to the even mantissa, and from the rounding
    threshold 2^1024 - 2^970 on the result is +inf;
  * `rwa_pack`: the packed result of core's rounding (`rwa_shape`) as a double: +inf, or finite with value
    `rneFrac (cn·2^1074) (cd·2^t) · 2^t` units;
  * `nearest_of_rwa`: core's rounding of (cn·2^J)/cd · 2^-J is `NearestDouble cn cd`;
  * `sci_nearest_int`, `sci_nearest_frac`: `Float.ofScientific m false 0` is nearest to m, `Float.ofScientific m true q`
    is nearest to m / 10^q — for EVERY m and q (zero mantissa and the "safety check" branch q > 2048 + log2 m included).
-/
import SlacProofs.F64SemNear
set_option autoImplicit false
namespace Slac
namespace F64
open Float.Model Float.Model.UnpackedFloat

/-- `x` is the double nearest to the rational `cn / cd ≥ 0` (cd > 0): IEEE-754 round-to-nearest, ties-to-even,
    overflow to +inf.  Distances |y - cn/cd| are compared exactly: multiplied by cd·2^1074 they are the integers
    |units y · cd - cn·2^1074|  (`units y` = y in units of 2^-1074). -/
structure NearestDouble (cn cd : Nat) (x : Float) : Prop where
  /-- at or above 2^1024 - 2^970 (the midpoint between the largest double and 2^1024): +inf -/
  overflow : (2^1024 - 2^970) * cd ≤ cn → x = inf
  /-- below it: a finite double with sign bit 0 -/
  finite : cn < (2^1024 - 2^970) * cd → isFinite x = true ∧ signBit x = false
  /-- no finite double (of either sign) is closer to cn/cd than x -/
  nearest : isFinite x = true → ∀ y, isFinite y = true →
    (units x * cd - cn * 2^1074).natAbs ≤ (units y * cd - cn * 2^1074).natAbs
  /-- if a different value is equally close, x is the one with the even mantissa -/
  ties_even : isFinite x = true → ∀ y, isFinite y = true → units y ≠ units x →
    (units y * cd - cn * 2^1074).natAbs = (units x * cd - cn * 2^1074).natAbs → (decode x).1 % 2 = 0

theorem bits_inf : bits inf = 0x7FF0000000000000 := special_texts.2.2.2.2.2.2.1

theorem pack_overflow (m : Nat) (e : Int) (hm : 0 < m) (he : 972 ≤ e) :
    Float.ofModel (Float.Model.pack (.finite .positive m e hm)) = inf := by
  apply eq_of_bits_eq
  rw [bits_ofModel_pack, bits_inf]
  simp only [packN]
  rw [if_pos (by omega)]
  rfl

theorem mkF_def (s : Sign) (m : Nat) (e : Int) (hm : 0 < m) :
    Float.ofModel (Float.Model.pack (.finite s m e hm)) = mkF s m e hm := rfl

/-- the packed result of `rwa_shape` -/
theorem rwa_pack (cn cd J : Nat) (hcd : 0 < cd) (hJ : 1200 ≤ J) (X : Float)
    (hX : X = Float.ofModel (Float.Model.pack (rwaFrac .positive (cn * 2^J) cd (-(J:Int))))) :
    ∃ t : Nat,
      (t = 0 ∨ 2^52 * (cd * 2^t) ≤ cn * 2^1074) ∧ cn * 2^1074 < 2^53 * (cd * 2^t) ∧
      ((X = inf ∧ (2046 ≤ t ∨ (t = 2045 ∧ rneFrac (cn * 2^1074) (cd * 2^t) = 2^53))) ∨
       (isFinite X = true ∧ signBit X = false ∧ unitsN X = rneFrac (cn * 2^1074) (cd * 2^t) * 2^t ∧
          ((decode X).1 = rneFrac (cn * 2^1074) (cd * 2^t) ∨ (decode X).1 = 2^52 ∨ (decode X).1 = 0) ∧
          (t ≤ 2044 ∨ (t = 2045 ∧ rneFrac (cn * 2^1074) (cd * 2^t) < 2^53)))) := by
  obtain ⟨t, hlow, hup, hz, hf, h53, hrle, hrge⟩ := rwa_shape cn cd J hcd hJ
  refine ⟨t, hlow, hup, ?_⟩
  generalize rneFrac (cn * 2^1074) (cd * 2^t) = r at *
  have hsp : decide (sbit Sign.positive = 1) = false := by decide
  by_cases h0 : r = 0
  · right
    rw [hz h0] at hX
    have hXz : X = zeroF .positive := hX
    have ht0 : t = 0 := by
      rcases Nat.eq_zero_or_pos t with h | h
      · exact h
      · have := hrge (by omega); omega
    rw [hXz, isFinite_zeroF, signBit_zeroF, unitsN_zeroF, decode_of_isZero _ (isZero_zeroF _), h0]
    exact ⟨rfl, hsp, by simp, Or.inr (Or.inr rfl), Or.inl (by omega)⟩
  · by_cases h53' : r = 2^53
    · rw [h53 h53'] at hX
      by_cases ht : t ≤ 2044
      · right
        have hc : Canon (2^52) ((t:Int) - 1073) := Canon.of_normal (by decide) (by decide) (by omega) (by omega)
        rw [mkF_def] at hX
        have he : (((t:Int) - 1073) + 1074).toNat = t + 1 := by omega
        rw [hX, isFinite_mkF _ _ _ hc, signBit_mkF _ _ _ hc, unitsN_mkF _ _ _ hc, decode_mkF _ _ _ hc, he, h53']
        refine ⟨rfl, hsp, ?_, Or.inr (Or.inl rfl), Or.inl ht⟩
        rw [show (2:Nat)^(t + 1) = 2^t * 2 from by rw [Nat.pow_succ], show (2:Nat)^53 = 2^52 * 2 from by decide]; ac_rfl
      · left
        rw [pack_overflow _ _ _ (by omega)] at hX
        refine ⟨hX, ?_⟩
        by_cases h46 : 2046 ≤ t
        · exact Or.inl h46
        · exact Or.inr ⟨by omega, h53'⟩
    · have hpos : 0 < r := by omega
      have hlt : r < 2^53 := by omega
      rw [hf hpos hlt] at hX
      by_cases ht : t ≤ 2045
      · right
        have he : (((t:Int) - 1074) + 1074).toNat = t := by omega
        have hc : Canon r ((t:Int) - 1074) := by
          by_cases h52 : 2^52 ≤ r
          · exact Canon.of_normal h52 hlt (by omega) (by omega)
          · have ht0 : t = 0 := by
              rcases Nat.eq_zero_or_pos t with h | h
              · exact h
              · have := hrge (by omega); omega
            have : ((t:Int) - 1074) = -1074 := by omega
            rw [this]; exact Canon.of_subnormal hpos (by omega)
        rw [mkF_def] at hX
        rw [hX, isFinite_mkF _ _ _ hc, signBit_mkF _ _ _ hc, unitsN_mkF _ _ _ hc, decode_mkF _ _ _ hc, he]
        refine ⟨rfl, hsp, rfl, Or.inl rfl, ?_⟩
        by_cases h44 : t ≤ 2044
        · exact Or.inl h44
        · exact Or.inr ⟨by omega, hlt⟩
      · left
        rw [pack_overflow _ _ _ (by omega)] at hX
        exact ⟨hX, Or.inl (by omega)⟩

theorem natAbs_sub_cast (a K : Nat) : ((a : Int) - (K : Int)).natAbs = ndist a K := by unfold ndist; omega
theorem natAbs_neg_sub_cast (a K : Nat) : (-(a : Int) - (K : Int)).natAbs = a + K := by omega

/-- the distance |y·cd - K| for a double y with magnitude u units -/
theorem dist_units (y : Float) (cd K : Nat) :
    (units y * (cd : Int) - (K : Int)).natAbs =
      if signBit y then unitsN y * cd + K else ndist (unitsN y * cd) K := by
  unfold units
  cases signBit y
  · simp only [Bool.false_eq_true, if_false]
    rw [← Int.natCast_mul, natAbs_sub_cast]
  · simp only [if_true]
    rw [Int.neg_mul, ← Int.natCast_mul, natAbs_neg_sub_cast]

/-! ### the rounding threshold, in abstract form (K = cn·2^1074, W = cd·2^2044) -/

theorem thr_fin_a (K B W : Nat) (hup : K < 2^53 * B) (hBW : B ≤ W) : K < (2^54 - 1) * W := by omega

theorem thr_fin_b (K W r : Nat) (hW : 0 < W) (hr : r < 2^53) (b2 : 2 * K ≤ 2 * (r * (2 * W)) + 2 * W)
    (b3 : r % 2 = 1 → 2 * K < 2 * (r * (2 * W)) + 2 * W) : K < (2^54 - 1) * W := by
  by_cases hodd : r = 2^53 - 1
  · have := b3 (by rw [hodd]; decide)
    rw [hodd] at this; omega
  · have hle : r * (2 * W) ≤ (2^53 - 2) * (2 * W) := Nat.mul_le_mul_right _ (by omega)
    generalize r * (2 * W) = RB at *
    omega

theorem thr_inf_a (K B W : Nat) (h1 : 2^52 * B ≤ K) (h2 : W * 4 ≤ B) : (2^54 - 1) * W ≤ K := by omega

theorem thr_inf_b (K W : Nat) (b1 : 2 * (2^53 * (2 * W)) ≤ 2 * K + 2 * W) : (2^54 - 1) * W ≤ K := by omega

/-- the four clauses of `NearestDouble` with the value K (= cn·2^1074 units·cd) and the threshold scale W abstract -/
theorem nearest_abstract (cd t K W : Nat) (X : Float) (hcd : 0 < cd)
    (hlow : t = 0 ∨ 2^52 * (cd * 2^t) ≤ K) (hup : K < 2^53 * (cd * 2^t))
    (hW1 : t ≤ 2044 → cd * 2^t ≤ W) (hW2 : t = 2045 → cd * 2^t = 2 * W) (hW3 : 2046 ≤ t → W * 4 ≤ cd * 2^t)
    (hcases : (X = inf ∧ (2046 ≤ t ∨ (t = 2045 ∧ rneFrac K (cd * 2^t) = 2^53))) ∨
       (isFinite X = true ∧ signBit X = false ∧ unitsN X = rneFrac K (cd * 2^t) * 2^t ∧
          ((decode X).1 = rneFrac K (cd * 2^t) ∨ (decode X).1 = 2^52 ∨ (decode X).1 = 0) ∧
          (t ≤ 2044 ∨ (t = 2045 ∧ rneFrac K (cd * 2^t) < 2^53)))) :
    ((2^54 - 1) * W ≤ K → X = inf) ∧
    (K < (2^54 - 1) * W → isFinite X = true ∧ signBit X = false) ∧
    (isFinite X = true → ∀ y, isFinite y = true →
      (units X * (cd : Int) - (K : Int)).natAbs ≤ (units y * (cd : Int) - (K : Int)).natAbs) ∧
    (isFinite X = true → ∀ y, isFinite y = true → units y ≠ units X →
      (units y * (cd : Int) - (K : Int)).natAbs = (units X * (cd : Int) - (K : Int)).natAbs → (decode X).1 % 2 = 0) := by
  have hBpos : 0 < cd * 2^t := Nat.mul_pos hcd (Nat.two_pow_pos t)
  obtain ⟨b1, b2, b3⟩ := rne_bounds K (cd * 2^t) hBpos
  have hgrid := fun u hu => grid_nearest K cd t u hcd hlow hu
  have hfin_lt : (t ≤ 2044 ∨ (t = 2045 ∧ rneFrac K (cd * 2^t) < 2^53)) → K < (2^54 - 1) * W := by
    rintro (ht | ⟨ht, hr⟩)
    · exact thr_fin_a K _ W hup (hW1 ht)
    · rw [hW2 ht] at b2 b3 hr
      exact thr_fin_b K W _ (by have := hW2 ht; omega) hr b2 (fun h => (b3 h).2)
  have hinf_ge : (2046 ≤ t ∨ (t = 2045 ∧ rneFrac K (cd * 2^t) = 2^53)) → (2^54 - 1) * W ≤ K := by
    rintro (ht | ⟨ht, hr⟩)
    · have h1 : 2^52 * (cd * 2^t) ≤ K := by rcases hlow with h | h; omega; exact h
      exact thr_inf_a K _ W h1 (hW3 ht)
    · rw [hr, hW2 ht] at b1
      exact thr_inf_b K W b1
  rcases hcases with ⟨hinf, hc⟩ | ⟨hfin, hsign, hun, hdec, hc⟩
  · have hXnf : isFinite X = false := by rw [hinf]; decide +kernel
    refine ⟨fun _ => hinf, fun hlt => ?_, fun h => ?_, fun h => ?_⟩
    · have := hinf_ge hc; omega
    · rw [hXnf] at h; cases h
    · rw [hXnf] at h; cases h
  · have hlt := hfin_lt hc
    have hdx : (units X * (cd : Int) - (K : Int)).natAbs = ndist (rneFrac K (cd * 2^t) * 2^t * cd) K := by
      rw [dist_units, hsign, hun]; rfl
    have hzero_le : ndist (rneFrac K (cd * 2^t) * 2^t * cd) K ≤ K := by
      have := (hgrid 0 (Or.inl (Nat.dvd_zero _))).1
      unfold ndist at this ⊢; omega
    refine ⟨fun hge => by omega, fun _ => ⟨hfin, hsign⟩, fun _ y hy => ?_, fun _ y hy hne he => ?_⟩
    · rw [hdx, dist_units]
      cases hs : signBit y
      · exact (hgrid _ (units_grid y hy t)).1
      · simp only [if_true]; omega
    · rw [hdx, dist_units] at he
      have hr_even : rneFrac K (cd * 2^t) % 2 = 0 := by
        cases hs : signBit y
        · rw [hs] at he
          refine (hgrid _ (units_grid y hy t)).2 ?_ he
          intro hcon
          apply hne
          unfold units; rw [hs, hsign, hun, hcon]
        · rw [hs] at he
          simp only [if_true] at he
          have hy0 : unitsN y * cd = 0 := by omega
          have hu0 : unitsN y = 0 := by
            rcases Nat.eq_zero_or_pos (unitsN y) with h | h
            · exact h
            · have := Nat.mul_pos h hcd; omega
          refine (hgrid 0 (Or.inl (Nat.dvd_zero _))).2 ?_ (by unfold ndist at he ⊢; omega)
          intro hcon
          apply hne
          unfold units; rw [hs, hsign, hun, hu0, ← hcon]; rfl
      rcases hdec with h | h | h
      · rw [h]; exact hr_even
      · rw [h]; decide
      · rw [h]

theorem thr_eq : 2^1024 - 2^970 = (2^54 - 1) * 2^970 := by decide +kernel

set_option exponentiation.threshold 2100 in
theorem thr_units (cn cd : Nat) :
    ((2^1024 - 2^970) * cd ≤ cn ↔ (2^54 - 1) * (cd * 2^2044) ≤ cn * 2^1074) := by
  have h1 : ∀ a b c d : Nat, a * b * c * d = a * (c * (b * d)) := fun a b c d => by ac_rfl
  have hW : (2^1024 - 2^970) * cd * 2^1074 = (2^54 - 1) * (cd * 2^2044) := by
    rw [thr_eq, h1, ← Nat.pow_add]
  rw [← hW]
  exact ⟨fun h => Nat.mul_le_mul_right _ h, fun h => Nat.le_of_mul_le_mul_right h (Nat.two_pow_pos 1074)⟩

set_option exponentiation.threshold 2100 in
/-- **core's rounding yields the nearest double**: the packed `roundWithAccuracy` of the value cn/cd (described with
    J ≥ 1200 guard bits) is `NearestDouble cn cd` -/
theorem nearest_of_rwa (cn cd J : Nat) (hcd : 0 < cd) (hJ : 1200 ≤ J) :
    NearestDouble cn cd (Float.ofModel (Float.Model.pack (rwaFrac .positive (cn * 2^J) cd (-(J:Int))))) := by
  generalize hX : Float.ofModel (Float.Model.pack (rwaFrac .positive (cn * 2^J) cd (-(J:Int)))) = X
  obtain ⟨t, hlow, hup, hcases⟩ := rwa_pack cn cd J hcd hJ X hX.symm
  have hW1 : t ≤ 2044 → cd * 2^t ≤ cd * 2^2044 := fun ht =>
    Nat.mul_le_mul_left _ (Nat.pow_le_pow_right (by decide) ht)
  have hW2 : t = 2045 → cd * 2^t = 2 * (cd * 2^2044) := fun ht => by
    have h3 : ∀ a b : Nat, a * (b * 2) = 2 * (a * b) := fun a b => by ac_rfl
    rw [ht, show (2:Nat)^2045 = 2^2044 * 2 from by rw [← Nat.pow_succ]]; exact h3 _ _
  have hW3 : 2046 ≤ t → cd * 2^2044 * 4 ≤ cd * 2^t := fun ht => by
    rw [Nat.mul_assoc]
    apply Nat.mul_le_mul_left
    rw [show (4:Nat) = 2^2 by decide, ← Nat.pow_add]; exact Nat.pow_le_pow_right (by decide) (by omega)
  obtain ⟨a1, a2, a3, a4⟩ := nearest_abstract cd t (cn * 2^1074) (cd * 2^2044) X hcd hlow hup hW1 hW2 hW3 hcases
  have hcast : ((cn : Int) * 2^1074) = ((cn * 2^1074 : Nat) : Int) := by push_cast; rfl
  have hthr := thr_units cn cd
  refine ⟨fun h => a1 (hthr.1 h), fun h => a2 ?_, ?_, ?_⟩
  · rcases Nat.lt_or_ge (cn * 2^1074) ((2^54 - 1) * (cd * 2^2044)) with h' | h'
    · exact h'
    · have := hthr.2 h'; omega
  · rw [hcast]; exact a3
  · rw [hcast]; exact a4

/-! ### `Float.ofScientific` -/

set_option exponentiation.threshold 2100 in
theorem thr_pos : 0 < 2^1024 - 2^970 := by rw [thr_eq]; exact Nat.mul_pos (by decide) (Nat.two_pow_pos _)

set_option exponentiation.threshold 2100 in
/-- a value of at most half the smallest subnormal (2·cn/cd ≤ 2^-1074) rounds to +0 -/
theorem nearest_zero (cn cd : Nat) (hcd : 0 < cd) (h2 : 2 * (cn * 2^1074) ≤ cd) :
    NearestDouble cn cd (zeroF .positive) := by
  have hpos := Nat.two_pow_pos 1074
  have hcn : cn < cd := by
    have : cn ≤ cn * 2^1074 := Nat.le_mul_of_pos_right _ hpos
    omega
  have hsp : decide (sbit Sign.positive = 1) = false := by decide
  have hcast : ((cn : Int) * 2^1074) = ((cn * 2^1074 : Nat) : Int) := by push_cast; rfl
  have hd0 : (units (zeroF .positive) * (cd : Int) - ((cn * 2^1074 : Nat) : Int)).natAbs = cn * 2^1074 := by
    rw [units_zeroF]; omega
  refine ⟨fun h => ?_, fun _ => ⟨isFinite_zeroF _, by rw [signBit_zeroF]; exact hsp⟩, fun _ y _ => ?_, fun _ _ _ _ _ => ?_⟩
  · have : cd ≤ (2^1024 - 2^970) * cd := Nat.le_mul_of_pos_left _ thr_pos
    omega
  · rw [hcast, hd0, dist_units]
    generalize cn * 2^1074 = K at *
    rcases Nat.eq_zero_or_pos (unitsN y) with h0 | h0
    · rw [h0]; unfold ndist; split <;> omega
    · have : cd ≤ unitsN y * cd := Nat.le_mul_of_pos_left _ h0
      unfold ndist; split <;> omega
  · rw [decode_of_isZero _ (isZero_zeroF _)]; decide

theorem zeroF_pos_eq : zeroF .positive = Float.ofBits 0 := by
  apply eq_of_bits_eq; rw [bits_zeroF]; decide +kernel

theorem sci_zero_fast : Float.ofScientific 0 false 0 = Float.ofBits 0 ∧
    ∀ q : Nat, q ≤ 22 → Float.ofScientific 0 true q = Float.ofBits 0 := by decide +kernel

theorem sci_zero (q : Nat) : Float.ofScientific 0 true q = zeroF .positive := by
  by_cases hq : q ≤ 22
  · rw [sci_zero_fast.2 q hq, zeroF_pos_eq]
  · unfold Float.ofScientific
    rw [dif_neg (by omega)]
    simp only [if_true]
    unfold Float.Model.ofScientific UnpackedFloat.ofScientific
    rw [dif_pos rfl]; rfl

/-- the "safety check" branch of core's `ofScientific`: a decimal exponent below -(2048 + log2 m) gives +0 -/
theorem sci_tiny (m q : Nat) (hm : 0 < m) (hq : 2048 + m.log2 < q) : Float.ofScientific m true q = zeroF .positive := by
  unfold Float.ofScientific
  rw [dif_neg (by omega)]
  simp only [if_true]
  have : Int.negOfNat q = -(q : Int) := by cases q <;> rfl
  rw [this]
  unfold Float.Model.ofScientific UnpackedFloat.ofScientific
  rw [dif_neg (by omega)]
  have c1 : ¬ (-(q : Int) > 2 ^ B64.exponentBits) := by
    have : (2 : Int) ^ B64.exponentBits = 2048 := by decide
    rw [this]; omega
  have c2 : (-(q : Int) < -((2 ^ B64.exponentBits : Int) + (m.log2 : Int))) := by
    have : (2 : Int) ^ B64.exponentBits = 2048 := by decide
    rw [this]; omega
  rw [if_neg c1, if_pos c2]; rfl

set_option exponentiation.threshold 2100 in
theorem tiny_bound (m q : Nat) (hq : 2048 + m.log2 < q) : 2 * (m * 2^1074) ≤ 10^q := by
  have h1 : m < 2^(m.log2 + 1) := Nat.lt_log2_self
  have h2 : (2:Nat)^(3 * q) ≤ 10^q := by
    rw [Nat.pow_mul]; exact Nat.pow_le_pow_left (by decide) q
  have h3 : m * 2^1074 ≤ 2^(m.log2 + 1) * 2^1074 := Nat.mul_le_mul_right _ (Nat.le_of_lt h1)
  have e1 : 2^(m.log2 + 1) * 2^1074 = 2^(m.log2 + 1 + 1074) := (Nat.pow_add 2 (m.log2 + 1) 1074).symm
  have e2 : 2^(m.log2 + 1 + 1074) * 2 = 2^(m.log2 + 1 + 1074 + 1) := (Nat.pow_succ 2 (m.log2 + 1 + 1074)).symm
  calc 2 * (m * 2^1074) = m * 2^1074 * 2 := Nat.mul_comm _ _
    _ ≤ 2^(m.log2 + 1) * 2^1074 * 2 := Nat.mul_le_mul_right _ h3
    _ = 2^(m.log2 + 1 + 1074 + 1) := by rw [e1, e2]
    _ ≤ 2^(3 * q) := Nat.pow_le_pow_right (by decide) (by omega)
    _ ≤ 10^q := h2

/-- **`Float.ofScientific m false 0` (the integer m as a double) is the double nearest to m** -/
theorem sci_nearest_int (m : Nat) : NearestDouble m 1 (Float.ofScientific m false 0) := by
  rcases Nat.eq_zero_or_pos m with h0 | hm
  · subst h0
    rw [sci_zero_fast.1, ← zeroF_pos_eq]
    exact nearest_zero 0 1 (by decide) (by rw [Nat.zero_mul]; decide)
  · rw [sci_false m 0 hm (by decide), Nat.pow_zero, Nat.mul_one, ← refInt_scale m 1200 hm (by decide)]
    exact nearest_of_rwa m 1 1200 (by decide) (Nat.le_refl _)

/-- **`Float.ofScientific m true q` (the decimal m / 10^q) is the double nearest to m / 10^q**, for every m and q ≥ 1 -/
theorem sci_nearest_frac (m q : Nat) (hq1 : 1 ≤ q) : NearestDouble m (10^q) (Float.ofScientific m true q) := by
  have hpos : 0 < 10^q := Nat.pow_pos (by decide)
  rcases Nat.eq_zero_or_pos m with h0 | hm
  · subst h0
    rw [sci_zero]
    exact nearest_zero 0 _ hpos (by rw [Nat.zero_mul, Nat.mul_zero]; exact Nat.zero_le _)
  · by_cases hq : q ≤ 2048 + m.log2
    · rw [sci_true m q hm hq1 hq, ← refFrac_scale m q (4 * q + 1200) hm (by omega)]
      exact nearest_of_rwa m (10^q) (4 * q + 1200) hpos (by omega)
    · rw [sci_tiny m q hm (by omega)]
      exact nearest_zero m _ hpos (tiny_bound m q (by omega))

end F64
end Slac
