/-
  SlacProofs.TimeReal — the rounding fact behind `LawfulTimeNum.decode_encode_ms`, proved over ℚ from the
  standard model of floating-point arithmetic.

  Standard model: a correctly rounded operation returns `fl q` for the exact result `q`, with
  `|fl q − q| ≤ u·|q|`, `u = 2⁻⁵³` (binary64, round to nearest; valid whenever `q` is in the normal range,
  and trivially for `q = 0`).  A date-time number is `x = fl (T / D)` for the integer millisecond count `T`
  and `D = 86 400 000`; decoding computes `y = fl (x · D)` and rounds `y` to the nearest integer.  For
  `|T| ≤ 2^50` (a superset of the `2^48` used by `LawfulTimeNum`, which covers years 1–9999 with room to
  spare: 9999-12-31T23:59:59.999 is 253 402 300 799 999 ms < 2^48) we show `|y − T| < 1/2`, hence EVERY integer within
  1/2 of `y` — in particular the result of `round`, whatever its tie rule — is `T`.

  TRUSTED LINK to the `Float` instance (not proved here): `T` (|T| ≤ 2^53) and `D` are exactly representable,
  binary64 `/` and `*` satisfy the standard model on these operands (no overflow, no underflow: the
  quotients are 0 or of magnitude ≥ 1/D ≈ 1.2e-8), `f64::round` returns an integer within 1/2 of its argument,
  and `as i64` is exact on integers of this size.
-/
import Mathlib.Tactic.Linarith
import Mathlib.Tactic.NormNum
import Mathlib.Tactic.Positivity
import Mathlib.Tactic.FieldSimp
import Mathlib.Tactic.Ring
import Mathlib.Algebra.Order.Field.Basic
import Mathlib.Algebra.Order.AbsoluteValue.Basic
set_option autoImplicit false
namespace Slac.Time

/-- two correctly-rounded operations (divide by D, multiply by D) move an integer millisecond count by far
    less than half a millisecond -/
theorem roundtrip_core (T x y : ℚ)
    (hT : |T| ≤ 2^50)
    (hx : |x - T / 86400000| ≤ (1/2^53) * |T / 86400000|)
    (hy : |y - x * 86400000| ≤ (1/2^53) * |x * 86400000|) :
    |y - T| < 1/2 := by
  have hD : (0:ℚ) < 86400000 := by norm_num
  have h1 : |x * 86400000 - T| ≤ (1/2^53) * |T| := by
    have : x * 86400000 - T = (x - T / 86400000) * 86400000 := by field_simp
    rw [this, abs_mul, abs_of_pos hD]
    have : |T / 86400000| = |T| / 86400000 := by rw [abs_div, abs_of_pos hD]
    rw [this] at hx
    calc |x - T / 86400000| * 86400000 ≤ (1/2^53) * (|T| / 86400000) * 86400000 := by
          apply mul_le_mul_of_nonneg_right hx hD.le
      _ = (1/2^53) * |T| := by field_simp
  have h2 : |x * 86400000| ≤ |T| + (1/2^53) * |T| := by
    have := abs_sub_abs_le_abs_sub (x * 86400000) T
    linarith
  have h3 : |y - T| ≤ |y - x * 86400000| + |x * 86400000 - T| := by
    have := abs_sub_le y (x * 86400000) T
    linarith
  have hT0 : 0 ≤ |T| := abs_nonneg T
  nlinarith [hT, hy, h1, h2, h3, hT0]

/-- `decode (encode T) = T` in the standard model: with `x = fl (T / D)` and `y = fl (x · D)`, the only integer
    within 1/2 of `y` is `T` -/
theorem decode_encode_real (fl : ℚ → ℚ) (hfl : ∀ q : ℚ, |fl q - q| ≤ (1/2^53) * |q|)
    (T : ℤ) (hT : |T| ≤ 2^50) :
    |fl (fl ((T : ℚ) / 86400000) * 86400000) - (T : ℚ)| < 1/2 ∧
    ∀ r : ℤ, |fl (fl ((T : ℚ) / 86400000) * 86400000) - (r : ℚ)| ≤ 1/2 → r = T := by
  have hTq : |(T : ℚ)| ≤ 2^50 := by
    have : ((|T| : ℤ) : ℚ) ≤ ((2^50 : ℤ) : ℚ) := by exact_mod_cast hT
    rw [Int.cast_abs] at this
    norm_num at this ⊢
    exact this
  have hcore := roundtrip_core (T : ℚ) (fl ((T : ℚ) / 86400000)) (fl (fl ((T : ℚ) / 86400000) * 86400000))
    hTq (hfl _) (hfl _)
  refine ⟨hcore, ?_⟩
  intro r hr
  have h1 : |(r : ℚ) - (T : ℚ)| < 1 := by
    have h := abs_sub_le (r : ℚ) (fl (fl ((T : ℚ) / 86400000) * 86400000)) (T : ℚ)
    rw [abs_sub_comm (r : ℚ) (fl (fl ((T : ℚ) / 86400000) * 86400000))] at h
    linarith
  have h2 : |r - T| < 1 := by
    have : ((|r - T| : ℤ) : ℚ) < ((1 : ℤ) : ℚ) := by simpa using h1
    exact_mod_cast this
  have := abs_lt.1 h2
  omega

end Slac.Time
