/-
  SlacProofs.ParserRender — the two executable renderers produce renderings (`Rn`), every rendered tree is
  source-expressible, and everything the parser returns is source-expressible.
-/
import SlacModel.Render
import SlacProofs.ParserTotal
set_option autoImplicit false
namespace Slac.Render
open Slac.Parser
variable {N : Type}

/-! ### operator tables -/

theorem binOp_binTok {op : Op} (h : isBinOp op = true) : Token.binOp? (binTok op : Token N) = some op := by
  cases op <;> first | rfl | cases h

theorem prec_binTok {op : Op} (h : isBinOp op = true) : Token.prec (binTok op : Token N) = opLvl op := by
  cases op <;> first | rfl | cases h

theorem opLvl_pos {op : Op} (h : isBinOp op = true) : 1 ≤ opLvl op := by
  cases op <;> first | (simp [opLvl]; done) | cases h

theorem isBinOp_of_binOp {t : Token N} {op : Op} (h : Token.binOp? t = some op) : isBinOp op = true := by
  cases t <;> simp [Token.binOp?] at h <;> subst h <;> rfl

theorem srcExpr_lvl_pos {e : Expr N} (h : srcExpr e = true) : 1 ≤ lvl e := by
  cases e with
  | binary l r op =>
    simp only [srcExpr, Bool.and_eq_true] at h
    exact opLvl_pos h.1
  | _ => simp [lvl]

/-! ### unfolding the renderers -/

theorem srcExpr_unary (r : Expr N) (op : Op) : srcExpr (.unary r op) = (isUnOp op && srcExpr r) := by
  rw [srcExpr]
theorem srcExpr_binary (l r : Expr N) (op : Op) :
    srcExpr (.binary l r op) = (isBinOp op && (srcExpr l && srcExpr r)) := by rw [srcExpr]
theorem srcExpr_ternary (l m r : Expr N) (op : Op) : srcExpr (.ternary l m r op) = false := by rw [srcExpr]
theorem srcExpr_array (es : List (Expr N)) : srcExpr (.array es) = srcList es := by rw [srcExpr]
theorem srcExpr_lit (v : Value N) : srcExpr (.lit v : Expr N) = true := by rw [srcExpr]
theorem srcExpr_var (n : Str) : srcExpr (.var n : Expr N) = true := by rw [srcExpr]
theorem srcExpr_call (n : Str) (ps : List (Expr N)) : srcExpr (.call n ps) = srcList ps := by rw [srcExpr]
theorem srcList_nil : srcList ([] : List (Expr N)) = true := by rw [srcList]
theorem srcList_cons (e : Expr N) (es : List (Expr N)) : srcList (e :: es) = (srcExpr e && srcList es) := by
  rw [srcList]

theorem bareMin_unary (r : Expr N) (op : Op) : bareMin (.unary r op) = unTok op :: wrap 8 r (bareMin r) := by
  rw [bareMin]
theorem bareMin_binary (l r : Expr N) (op : Op) :
    bareMin (.binary l r op) = wrap (opLvl op) l (bareMin l) ++ binTok op :: wrap (opLvl op + 1) r (bareMin r) := by
  rw [bareMin]
theorem bareMin_array (es : List (Expr N)) :
    bareMin (.array es) = .leftBracket :: (listMin es ++ [.rightBracket]) := by rw [bareMin]
theorem bareMin_lit (v : Value N) : bareMin (.lit v : Expr N) = [.literal v] := by rw [bareMin]
theorem bareMin_var (n : Str) : bareMin (.var n : Expr N) = [.identifier n] := by rw [bareMin]
theorem bareMin_call (n : Str) (ps : List (Expr N)) :
    bareMin (.call n ps) = .identifier n :: .leftParen :: (listMin ps ++ [.rightParen]) := by rw [bareMin]
theorem listMin_nil : listMin ([] : List (Expr N)) = [] := by rw [listMin]
theorem listMin_cons (e : Expr N) (es : List (Expr N)) :
    listMin (e :: es) = wrap 1 e (bareMin e) ++ (if es.isEmpty then [] else .comma :: listMin es) := by
  rw [listMin]

theorem renderFull_unary (r : Expr N) (op : Op) :
    renderFull (.unary r op) = parens (unTok op :: renderFull r) := by rw [renderFull]
theorem renderFull_binary (l r : Expr N) (op : Op) :
    renderFull (.binary l r op) = parens (renderFull l ++ binTok op :: renderFull r) := by rw [renderFull]
theorem renderFull_array (es : List (Expr N)) :
    renderFull (.array es) = .leftBracket :: (listFull es ++ [.rightBracket]) := by rw [renderFull]
theorem renderFull_lit (v : Value N) : renderFull (.lit v : Expr N) = [.literal v] := by rw [renderFull]
theorem renderFull_var (n : Str) : renderFull (.var n : Expr N) = [.identifier n] := by rw [renderFull]
theorem renderFull_call (n : Str) (ps : List (Expr N)) :
    renderFull (.call n ps) = .identifier n :: .leftParen :: (listFull ps ++ [.rightParen]) := by rw [renderFull]
theorem listFull_nil : listFull ([] : List (Expr N)) = [] := by rw [listFull]
theorem listFull_cons (e : Expr N) (es : List (Expr N)) :
    listFull (e :: es) = renderFull e ++ (if es.isEmpty then [] else .comma :: listFull es) := by
  rw [listFull]

/-! ### minimal parentheses -/

/-- `wrap` puts the parentheses exactly where `Rn` demands them -/
theorem wrap_rn (q : Nat) {e : Expr N} {ts : List (Token N)} (hb : Bare e ts) (h1 : 1 ≤ lvl e) :
    Rn q e (wrap q e ts) := by
  unfold wrap
  split
  · rename_i h; exact .bare h hb
  · exact .paren (.bare h1 hb)

def MinE (e : Expr N) : Prop := srcExpr e = true → Bare e (bareMin e)
def MinL (es : List (Expr N)) : Prop := srcList es = true → RnList es (listMin es)

theorem min_unary {r : Expr N} (op : Op) (ih : MinE r) : MinE (.unary r op) := by
  intro h
  rw [srcExpr_unary, Bool.and_eq_true] at h
  rw [bareMin_unary]
  have hr := wrap_rn 8 (ih h.2) (srcExpr_lvl_pos h.2)
  cases op <;> first | exact .uminus hr | exact .unot hr | exact absurd h.1 (by decide)

theorem min_binary {l r : Expr N} (op : Op) (ihl : MinE l) (ihr : MinE r) : MinE (.binary l r op) := by
  intro h
  rw [srcExpr_binary, Bool.and_eq_true, Bool.and_eq_true] at h
  obtain ⟨hop, hl, hr⟩ := h
  rw [bareMin_binary, ← prec_binTok (N := N) hop]
  exact .binary (binOp_binTok hop) (wrap_rn _ (ihl hl) (srcExpr_lvl_pos hl)) (wrap_rn _ (ihr hr) (srcExpr_lvl_pos hr))

theorem min_cons {e : Expr N} {es : List (Expr N)} (ih1 : MinE e) (ih2 : MinL es) : MinL (e :: es) := by
  intro h
  rw [srcList_cons, Bool.and_eq_true] at h
  rw [listMin_cons]
  have he := wrap_rn 1 (ih1 h.1) (srcExpr_lvl_pos h.1)
  cases es with
  | nil => simp only [List.isEmpty_nil, if_true, List.append_nil]; exact .single he
  | cons e' es' =>
    simp only [List.isEmpty_cons, Bool.false_eq_true, if_false]
    exact .cons he (ih2 h.2)

theorem bareMin_bare (e : Expr N) : MinE e := by
  refine Expr.rec (motive_1 := fun e => MinE e) (motive_2 := fun es => MinL es) ?_ ?_ ?_ ?_ ?_ ?_ ?_ ?_ ?_ e
  · intro r op ih; exact min_unary op ih
  · intro l r op ihl ihr; exact min_binary op ihl ihr
  · intro l m r op _ _ _ h; rw [srcExpr_ternary] at h; cases h
  · intro es ih h; rw [srcExpr_array] at h; rw [bareMin_array]; exact .array (ih h)
  · intro v _; rw [bareMin_lit]; exact .lit v
  · intro n _; rw [bareMin_var]; exact .var n
  · intro n ps ih h; rw [srcExpr_call] at h; rw [bareMin_call]; exact .call (ih h)
  · intro _; rw [listMin_nil]; exact .nil
  · intro e es ih1 ih2; exact min_cons ih1 ih2

/-- the minimal rendering is a rendering, at every required level -/
theorem renderAt_renders (q : Nat) {e : Expr N} (h : SrcExpr e) : Rn q e (wrap q e (bareMin e)) :=
  wrap_rn q (bareMin_bare e h) (srcExpr_lvl_pos h)

/-- with `SrcExpr e` the top level never needs parentheses -/
theorem renderMin_eq {e : Expr N} (h : SrcExpr e) : renderMin e = bareMin e := by
  unfold renderMin wrap
  rw [if_pos (srcExpr_lvl_pos h)]

/-! ### full parentheses -/

def FullE (e : Expr N) : Prop := srcExpr e = true → ∀ q, q ≤ 10 → Rn q e (renderFull e)
def FullL (es : List (Expr N)) : Prop := srcList es = true → RnList es (listFull es)

theorem full_unary {r : Expr N} (op : Op) (ih : FullE r) : FullE (.unary r op) := by
  intro h q _
  rw [srcExpr_unary, Bool.and_eq_true] at h
  rw [renderFull_unary]
  have hr := ih h.2 8 (by omega)
  refine .paren (.bare (by simp [lvl]) ?_)
  cases op <;> first | exact .uminus hr | exact .unot hr | exact absurd h.1 (by decide)

theorem full_binary {l r : Expr N} (op : Op) (ihl : FullE l) (ihr : FullE r) : FullE (.binary l r op) := by
  intro h q _
  rw [srcExpr_binary, Bool.and_eq_true, Bool.and_eq_true] at h
  obtain ⟨hop, hl, hr⟩ := h
  rw [renderFull_binary]
  have hp : Token.prec (binTok op : Token N) ≤ 7 := by
    cases op <;> first | (simp [binTok, Token.prec]; done) | cases hop
  refine .paren (.bare (opLvl_pos hop) ?_)
  exact .binary (binOp_binTok hop) (ihl hl _ (by omega)) (ihr hr _ (by omega))

theorem full_cons {e : Expr N} {es : List (Expr N)} (ih1 : FullE e) (ih2 : FullL es) : FullL (e :: es) := by
  intro h
  rw [srcList_cons, Bool.and_eq_true] at h
  rw [listFull_cons]
  have he := ih1 h.1 1 (by omega)
  cases es with
  | nil => simp only [List.isEmpty_nil, if_true, List.append_nil]; exact .single he
  | cons e' es' =>
    simp only [List.isEmpty_cons, Bool.false_eq_true, if_false]
    exact .cons he (ih2 h.2)

theorem renderFull_full (e : Expr N) : FullE e := by
  refine Expr.rec (motive_1 := fun e => FullE e) (motive_2 := fun es => FullL es) ?_ ?_ ?_ ?_ ?_ ?_ ?_ ?_ ?_ e
  · intro r op ih; exact full_unary op ih
  · intro l r op ihl ihr; exact full_binary op ihl ihr
  · intro l m r op _ _ _ h; rw [srcExpr_ternary] at h; cases h
  · intro es ih h q hq; rw [srcExpr_array] at h; rw [renderFull_array]; exact .bare hq (.array (ih h))
  · intro v _ q hq; rw [renderFull_lit]; exact .bare hq (.lit v)
  · intro n _ q hq; rw [renderFull_var]; exact .bare hq (.var n)
  · intro n ps ih h q hq; rw [srcExpr_call] at h; rw [renderFull_call]; exact .bare hq (.call (ih h))
  · intro _; rw [listFull_nil]; exact .nil
  · intro e es ih1 ih2; exact full_cons ih1 ih2

/-! ### rendered trees are source-expressible -/

theorem rn_src {q : Nat} {e : Expr N} {ts : List (Token N)} (h : Rn q e ts) : SrcExpr e := by
  refine Rn.rec (motive_1 := fun e _ _ => srcExpr e = true) (motive_2 := fun _ e _ _ => srcExpr e = true)
    (motive_3 := fun es _ _ => srcList es = true) ?_ ?_ ?_ ?_ ?_ ?_ ?_ ?_ ?_ ?_ ?_ ?_ h
  · intro v; exact srcExpr_lit v
  · intro n; exact srcExpr_var n
  · intro r ts _ ih; rw [srcExpr_unary, ih]; rfl
  · intro r ts _ ih; rw [srcExpr_unary, ih]; rfl
  · intro l r op t tl tr hb _ _ ihl ihr; rw [srcExpr_binary, ihl, ihr, isBinOp_of_binOp hb]; rfl
  · intro es ts _ ih; rw [srcExpr_array]; exact ih
  · intro n ps ts _ ih; rw [srcExpr_call]; exact ih
  · intro q e ts _ _ ih; exact ih
  · intro q e ts _ ih; exact ih
  · exact srcList_nil
  · intro e ts _ ih; rw [srcList_cons, ih, srcList_nil]; rfl
  · intro e e' es ts ts' _ _ ih1 ih2; rw [srcList_cons, ih1, ih2]; rfl

/-! ### parsed trees are source-expressible -/

theorem parser_wf (f : Nat) :
    (∀ p (toks : List (Token N)) x, parsePrec f p toks = .ok x → srcExpr x.1 = true) ∧
    (∀ (t : Token N) rest x, doPrefix f t rest = .ok x → srcExpr x.1 = true) ∧
    (∀ p (l : Expr N) toks x, srcExpr l = true → infixLoop f p l toks = .ok x → srcExpr x.1 = true) ∧
    (∀ (t : Token N) l rest x, srcExpr l = true → doInfix f t l rest = .ok x → srcExpr x.1 = true) ∧
    (∀ b (toks : List (Token N)) x, exprList f b toks = .ok x → srcList x.1 = true) := by
  induction f with
  | zero =>
    simp [parsePrec_zero, doPrefix_zero, infixLoop_zero, doInfix_zero, exprList_zero]
  | succ f ih =>
    obtain ⟨ih1, ih2, ih3, ih4, ih5⟩ := ih
    refine ⟨?_, ?_, ?_, ?_, ?_⟩
    · intro p toks x h
      cases toks with
      | nil => rw [parsePrec_nil] at h; cases h
      | cons t r =>
        rw [parsePrec_cons, andThen_eq_ok] at h
        obtain ⟨a, ha, hk⟩ := h
        exact ih3 _ _ _ _ (ih2 _ _ _ ha) hk
    · intro t rest x h
      rw [doPrefix_succ] at h
      cases t <;> simp only [andThen_eq_ok] at h
      case literal v => cases h; exact srcExpr_lit v
      case identifier s => cases h; exact srcExpr_var s
      case leftParen =>
        obtain ⟨a, ha, hk⟩ := h
        rw [(chompParen_ok hk).1]; exact ih1 _ _ _ ha
      case leftBracket =>
        obtain ⟨a, ha, hk⟩ := h
        cases hk; rw [srcExpr_array]; exact ih5 _ _ _ ha
      case not =>
        obtain ⟨a, ha, hk⟩ := h
        cases hk; rw [srcExpr_unary, ih1 _ _ _ ha]; rfl
      case minus =>
        obtain ⟨a, ha, hk⟩ := h
        cases hk; rw [srcExpr_unary, ih1 _ _ _ ha]; rfl
      all_goals cases h
    · intro p l toks x hl h
      cases toks with
      | nil => rw [infixLoop_nil] at h; cases h; exact hl
      | cons t rest =>
        rw [infixLoop_cons] at h
        split at h
        · rw [andThen_eq_ok] at h
          obtain ⟨a, ha, hk⟩ := h
          exact ih3 _ _ _ _ (ih4 _ _ _ _ hl ha) hk
        · cases h; exact hl
    · intro t l rest x hl h
      rw [doInfix_succ] at h
      split at h
      · rename_i op hb
        rw [andThen_eq_ok] at h
        obtain ⟨a, ha, hk⟩ := h
        cases hk
        rw [srcExpr_binary, hl, ih1 _ _ _ ha, isBinOp_of_binOp hb]; rfl
      · split at h
        · split at h
          · rw [andThen_eq_ok] at h
            obtain ⟨a, ha, hk⟩ := h
            cases hk
            rw [srcExpr_call]; exact ih5 _ _ _ ha
          · cases h
        · cases h
    · intro b toks x h
      cases toks with
      | nil => rw [exprList_nil] at h; cases h
      | cons t rest =>
        rw [exprList_cons] at h
        split at h
        · cases h; exact srcList_nil
        · rw [andThen_eq_ok] at h
          obtain ⟨a, ha, hk⟩ := h
          rw [andThen_eq_ok] at hk
          obtain ⟨c, hc, hk⟩ := hk
          cases hk
          rw [srcList_cons, ih1 _ _ _ ha, ih5 _ _ _ hc]; rfl

end Slac.Render
