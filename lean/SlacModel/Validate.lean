/-
  SlacModel.Validate — model of src/validate.rs: `check_variables_and_functions` (`checkVF`) and
  `check_boolean_result` (`checkBool`), arm by arm.  `VErr` is the validation part of src/error.rs `Error`.
  `a.and_then(|()| b)` is modelled by `VErr.andThen a b` (first error in left-to-right order wins);
  `try_for_each` over a slice by the list recursion `checkVFList`.
-/
import SlacModel.Ast
set_option autoImplicit false
namespace Slac

/-- validation part of src/error.rs `Error`.  `paramCountMismatch name found min max`: validate.rs builds
    `Error::ParamCountMismatch(name.clone(), param_count, min, max)` — the fields in exactly this order. -/
inductive VErr
  | missingVariable (n : Str)
  | missingFunction (n : Str)
  | paramCountMismatch (n : Str) (found min max : Nat)
  | invalidUnaryOperator (op : Op)
  | invalidBinaryOperator (op : Op)
  | invalidTernaryOperator (op : Op)
  | literalNotBoolean
deriving DecidableEq, Repr

/-- `Result::and_then(|()| …)` on `Result<(), Error>` -/
def VErr.andThen (a b : Except VErr Unit) : Except VErr Unit :=
  match a with
  | .ok () => b
  | .error e => .error e

variable {N : Type}

mutual
/-- src/validate.rs `check_variables_and_functions` -/
def checkVF (env : Env N) : Expr N → Except VErr Unit
  | .unary r _ => checkVF env r
  | .binary l r _ => VErr.andThen (checkVF env l) (checkVF env r)
  | .ternary l m r _ => VErr.andThen (VErr.andThen (checkVF env l) (checkVF env m)) (checkVF env r)
  | .array es => checkVFList env es
  | .var n => if env.varExists n then .ok () else .error (.missingVariable n)
  | .call n ps =>
    match env.fnExists n ps.length with
    | .exist _ => checkVFList env ps
    | .notFound => .error (.missingFunction n)
    | .wrongArity min max => .error (.paramCountMismatch n ps.length min max)
  | .lit _ => .ok ()
/-- src/validate.rs `check_expressions` (`iter().try_for_each`) -/
def checkVFList (env : Env N) : List (Expr N) → Except VErr Unit
  | [] => .ok ()
  | e :: es => VErr.andThen (checkVF env e) (checkVFList env es)
end

/-- src/validate.rs `check_boolean_result` -/
def checkBool : Expr N → Except VErr Unit
  | .unary _ op =>
    match op with
    | .not => .ok ()
    | op => .error (.invalidUnaryOperator op)
  | .binary _ _ op =>
    match op with
    | .greater | .greaterEqual | .less | .lessEqual | .equal | .notEqual | .and | .or | .xor => .ok ()
    | op => .error (.invalidBinaryOperator op)
  | .ternary l m r op =>
    match op with
    | .ternaryCondition => VErr.andThen (VErr.andThen (checkBool l) (checkBool m)) (checkBool r)
    | op => .error (.invalidTernaryOperator op)
  | .array _ => .error .literalNotBoolean
  | .lit v =>
    match v with
    | .bool _ => .ok ()
    | _ => .error .literalNotBoolean
  | .var _ => .ok ()
  | .call _ _ => .ok ()

end Slac
