/-
  SlacModel.TimeRfc — `date_to_rfc3339` and `date_to_rfc2822` of src/stdlib/time.rs and the parsing functions
  `date_from_rfc2822/3339` (chrono's parsers are in SlacModel.TimeParse: `rfc2822Utc`, `rfc3339Utc`).
  First part: for a process whose local time zone is UTC (`dateToRfc3339`, …; these are what `Registry.builtin` holds).
  Second part: the same four builtins with the local zone as a parameter `z : Zone` (SlacModel.TimeZone):
  `dateToRfc3339Z z`, `dateToRfc2822Z z`, `dateFromRfc3339Z z`, `dateFromRfc2822Z z`, and `zoned z name`.
  The first part is the `Zone.utc` instance of the second (SlacProps.C16Zone).

  time.rs `naive_to_fixed`: `Local.from_local_datetime(&dt).single().map(fixed_offset)`.  For a zone without
  transitions (chrono offset/local/unix.rs + tz_info/timezone.rs `find_local_time_type_from_local`: no transitions
  ⇒ `Single(the only local time type)`), the result is always `Single`, offset +00:00, and `local − 0` cannot leave
  the NaiveDateTime range: the "invalid datetime value" error cannot occur and the printed fields are those of
  the naive value.

  chrono 0.4.45, src/format/formatting.rs:
  * `to_rfc3339` = `write_rfc3339(.., SecondsFormat::AutoSi, use_z = false)`:
    year `0..=9999` as 4 digits (`write_hundreds` twice), otherwise `{year:+05}` = sign and at least 4 digits;
    `-MM-DDTHH:MM:SS`; AutoSi fraction: nothing when nano = 0, `.mmm` when nano % 1_000_000 = 0 (always so here:
    values are decoded to whole milliseconds); offset by `OffsetFormat{Minutes, Colon, allow_zulu=false, Zero}` = `+00:00`.
  * `to_rfc2822` = `write_rfc2822`: `Www, D Mon YYYY HH:MM:SS +0000` — weekday = `short_weekdays[num_days_from_sunday]`,
    day of month WITHOUT padding (`if day < 10 { one digit }`), `short_months[month0]` (format/locales.rs, English),
    4-digit year, offset by `OffsetFormat{Minutes, Colons::None, .., Zero}` = `+0000`.  Years outside 0..=9999: time.rs
    returns `CustomError("year out of range for RFC 2822")` before calling chrono.
  A leap-second representation (nano ≥ 1e9) cannot come out of `from_timestamp_millis`.
-/
import SlacModel.Time
import SlacModel.TimeZone
set_option autoImplicit false
namespace Slac
namespace TimeRfc
open Stdlib Time

/-- `write_hundreds` (n < 100): two digits -/
def two (n : Nat) : Str := Time.pad 2 n

/-- year of `write_rfc3339`: 4 digits for 0..=9999, else `{year:+05}` -/
def year3339 (y : Int) : Str :=
  if 0 ≤ y ∧ y ≤ 9999 then Time.pad 4 y.toNat
  else if y < 0 then '-' :: Time.pad 4 y.natAbs
  else '+' :: Time.pad 4 y.toNat

/-- `HH:MM:SS` -/
def hms (t : DT) : Str := two t.hour ++ ':' :: two t.minute ++ ':' :: two t.second

/-- `SecondsFormat::AutoSi` for a value with millisecond resolution -/
def autoSi (milli : Nat) : Str := if milli == 0 then [] else '.' :: Time.pad 3 milli

/-- `DateTime<FixedOffset>::to_rfc3339` at offset +00:00 -/
def rfc3339 (t : DT) : Str :=
  year3339 t.year ++ '-' :: two t.month ++ '-' :: two t.day ++ 'T' :: hms t ++ autoSi t.milli ++ ['+', '0', '0', ':', '0', '0']

/-- `short_weekdays(english)[num_days_from_sunday]`; `wd` is `Time.weekday` (Monday = 0 … Sunday = 6) -/
def weekdayName (wd : Nat) : Str :=
  match wd with
  | 0 => ['M','o','n'] | 1 => ['T','u','e'] | 2 => ['W','e','d'] | 3 => ['T','h','u']
  | 4 => ['F','r','i'] | 5 => ['S','a','t'] | _ => ['S','u','n']

/-- `short_months(english)[month0]`; `m` is the month number 1..12 -/
def monthName (m : Nat) : Str :=
  match m with
  | 1 => ['J','a','n'] | 2 => ['F','e','b'] | 3 => ['M','a','r'] | 4 => ['A','p','r']
  | 5 => ['M','a','y'] | 6 => ['J','u','n'] | 7 => ['J','u','l'] | 8 => ['A','u','g']
  | 9 => ['S','e','p'] | 10 => ['O','c','t'] | 11 => ['N','o','v'] | _ => ['D','e','c']

/-- `DateTime<FixedOffset>::to_rfc2822` at offset +00:00 (year within 0..=9999) -/
def rfc2822 (t : DT) : Str :=
  weekdayName (weekday t.days) ++ ',' :: ' ' :: Nat.toDigits 10 t.day ++ ' ' :: monthName t.month ++ ' ' ::
    Time.pad 4 t.year.toNat ++ ' ' :: hms t ++ [' ', '+', '0', '0', '0', '0']

variable {N : Type} [NumX N]

/-- `date_to_rfc3339` under TZ=UTC -/
def dateToRfc3339 : List (Value N) → Res N
  | [v] =>
    match Time.decode v with
    | .error e => .error e
    | .ok t => .ok (.str (rfc3339 t))
  | _ => .error (.wrongParameterCount 1)

/-- `date_to_rfc2822` under TZ=UTC -/
def dateToRfc2822 : List (Value N) → Res N
  | [v] =>
    match Time.decode v with
    | .error e => .error e
    | .ok t =>
      if 0 ≤ t.year ∧ t.year ≤ 9999 then .ok (.str (rfc2822 t))
      else .error (custom "year out of range for RFC 2822")
  | _ => .error (.wrongParameterCount 1)


/-! ### `date_from_rfc3339`, `date_from_rfc2822` -/

/-- time.rs `fixed_to_naive`: `Local.from_utc_datetime(&dt.naive_utc()).naive_local()`.  THIS is where the local
    time zone enters: the result is the UTC date-time shifted by the local offset valid at that instant.  With
    `TZ=UTC` the shift is 0.  (In a zone with a positive offset `naive_local()` panics when the shifted value
    leaves chrono's range — only reachable from `date_from_rfc2822` with a year near 262142.) -/
def fixedToNaive (utc : NDT) : NDT := utc

/-- `date_from_rfc3339` under TZ=UTC -/
def dateFromRfc3339 : List (Value N) → Option (Res N)
  | [.str s] => some (Time.finish ((rfc3339Utc s).map fun u => (fixedToNaive u).millis))
  | [_] => some (.error .wrongParameterType)
  | _ => some (.error (.wrongParameterCount 1))

/-- `date_from_rfc2822` under TZ=UTC -/
def dateFromRfc2822 : List (Value N) → Option (Res N)
  | [.str s] => some (Time.finish ((rfc2822Utc s).map fun u => (fixedToNaive u).millis))
  | [_] => some (.error .wrongParameterType)
  | _ => some (.error (.wrongParameterCount 1))

/-! ## The local time zone as a parameter

  The functions above are the `Zone.utc` instances of the ones below (SlacProps.C16Zone: `dateToRfc3339Z_utc`, …).
  `z : Zone` (SlacModel.TimeZone) stands for what chrono's `Local` derives from the host's `TZ` variable. -/

/-- `OffsetFormat { precision: Minutes, colons, allow_zulu: false, padding: Pad::Zero }.format(off)`
    (format/formatting.rs): sign, then |off| ROUNDED to the nearest minute (`(off + 30) / 60`) as `HH` `[:]` `MM`.
    (|off| < 24 h, so hours ≤ 24 and both fields have two digits.) -/
def fmtOffset (colon : Bool) (off : Int) : Str :=
  let minutes := (off.natAbs + 30) / 60
  (if off < 0 then '-' else '+') :: two (minutes / 60) ++ (if colon then ':' :: two (minutes % 60) else two (minutes % 60))

/-- `DateTime<FixedOffset>::to_rfc3339` of the local date-time `t` at offset `off`: the LOCAL fields, then the offset -/
def rfc3339At (off : Int) (t : DT) : Str :=
  year3339 t.year ++ '-' :: two t.month ++ '-' :: two t.day ++ 'T' :: hms t ++ autoSi t.milli ++ fmtOffset true off

/-- `DateTime<FixedOffset>::to_rfc2822` of the local date-time `t` at offset `off` (year within 0..=9999) -/
def rfc2822At (off : Int) (t : DT) : Str :=
  weekdayName (weekday t.days) ++ ',' :: ' ' :: Nat.toDigits 10 t.day ++ ' ' :: monthName t.month ++ ' ' ::
    Time.pad 4 t.year.toNat ++ ' ' :: hms t ++ ' ' :: fmtOffset false off

/-- the `NaiveDateTime` of a decoded date-time number -/
def toNDT (t : DT) : NDT := ⟨t.days, ⟨t.ms / 1000, t.milli * 1000000⟩⟩

/-- time.rs `naive_to_fixed`: `Local.from_local_datetime(&dt).single()` — the offset of the local reading when there is
    exactly one.  chrono (offset/local/unix.rs `Cache::offset`, offset/mod.rs `from_local_datetime`): the zone's
    `find_local_time_type_from_local`, then `FixedOffset::east_opt` (|off| < 24 h) and `local.checked_sub_offset(off)`
    (the UTC date-time must be a `NaiveDateTime`) on every candidate; any failure gives `MappedLocalTime::None`.
    `none` here is time.rs's `Err("invalid datetime value")`. -/
def naiveToFixed (z : Zone) (t : DT) : Option Int :=
  match z.localResult t.timestamp with
  | .single off => if validOffset off && (subOffset (toNDT t) off).isSome then some off else none
  | _ => none

/-- `date_to_rfc3339` in the local zone `z` -/
def dateToRfc3339Z (z : Zone) : List (Value N) → Res N
  | [v] =>
    match Time.decode v with
    | .error e => .error e
    | .ok t =>
      match naiveToFixed z t with
      | none => .error (custom "invalid datetime value")
      | some off => .ok (.str (rfc3339At off t))
  | _ => .error (.wrongParameterCount 1)

/-- `date_to_rfc2822` in the local zone `z`: `naive_to_fixed` first, then the check of the (local) year -/
def dateToRfc2822Z (z : Zone) : List (Value N) → Res N
  | [v] =>
    match Time.decode v with
    | .error e => .error e
    | .ok t =>
      match naiveToFixed z t with
      | none => .error (custom "invalid datetime value")
      | some off =>
        if 0 ≤ t.year ∧ t.year ≤ 9999 then .ok (.str (rfc2822At off t))
        else .error (custom "year out of range for RFC 2822")
  | _ => .error (.wrongParameterCount 1)

/-- time.rs `fixed_to_naive`: `Local.from_utc_datetime(utc)`, then `naive_utc().checked_add_offset(offset)`.
    The offset is looked up at the whole second of the UTC instant.  Outer `none`: `FixedOffset::east_opt` fails
    (|off| ≥ 24 h) and chrono's `offset_from_utc_datetime(..).unwrap()` PANICS — outside the model; the inner error is
    time.rs's `Err("datetime out of range")` (the local date-time is not a `NaiveDateTime`). -/
def fixedToNaiveZ (z : Zone) (utc : NDT) : Option (Except NativeError NDT) :=
  let off := z.offsetFromUtc utc.timestamp
  if validOffset off then
    some (match subOffset utc (-off) with
          | some l => .ok l
          | none => .error (custom "datetime out of range"))
  else none

def finishZ (z : Zone) (r : PRes NDT) : Option (Res N) :=
  match r with
  | .error e => some (.error (custom e.msg))
  | .ok u =>
    match fixedToNaiveZ z u with
    | none => none
    | some (.error e) => some (.error e)
    | some (.ok l) => some (.ok (encodeMs l.millis))

/-- `date_from_rfc3339` in the local zone `z` -/
def dateFromRfc3339Z (z : Zone) : List (Value N) → Option (Res N)
  | [.str s] => finishZ z (rfc3339Utc s)
  | [_] => some (.error .wrongParameterType)
  | _ => some (.error (.wrongParameterCount 1))

/-- `date_from_rfc2822` in the local zone `z` -/
def dateFromRfc2822Z (z : Zone) : List (Value N) → Option (Res N)
  | [.str s] => finishZ z (rfc2822Utc s)
  | [_] => some (.error .wrongParameterType)
  | _ => some (.error (.wrongParameterCount 1))

/-- the four builtins that consult the local zone, by name (the registry, `Registry.builtin`, holds their `Zone.utc`
    instances); `none` for every other name -/
def zoned (z : Zone) (name : String) : Option (List (Value N) → Option (Res N)) :=
  match name with
  | "date_to_rfc3339" => some fun ps => some (dateToRfc3339Z z ps)
  | "date_to_rfc2822" => some fun ps => some (dateToRfc2822Z z ps)
  | "date_from_rfc3339" => some (dateFromRfc3339Z z)
  | "date_from_rfc2822" => some (dateFromRfc2822Z z)
  | _ => none

/-! ### TESTS (kernel-evaluated examples on the driver's doubles; expected texts per chrono 0.4.45) -/
section Tests

/-- projections that make results comparable by `decide` -/
def okStr? : Res Float → Option Str
  | .ok (.str s) => some s
  | _ => none
def err? : Res Float → Option NativeError
  | .error e => some e
  | _ => none

example : okStr? (dateToRfc3339 [.num 0]) = some "1970-01-01T00:00:00+00:00".toList := by decide +kernel
example : okStr? (dateToRfc2822 [.num 0]) = some "Thu, 1 Jan 1970 00:00:00 +0000".toList := by decide +kernel
example : okStr? (dateToRfc3339 [.num 19000.75]) = some "2022-01-08T18:00:00+00:00".toList := by decide +kernel
example : okStr? (dateToRfc2822 [.num 19000.75]) = some "Sat, 8 Jan 2022 18:00:00 +0000".toList := by decide +kernel
/-- 2007-08-09 10:11:12.013 (the value of the crate's `time_extract_functions` test) -/
example : okStr? (dateToRfc3339 [.num 13734.424444594908]) = some "2007-08-09T10:11:12.013+00:00".toList := by decide +kernel
example : okStr? (dateToRfc2822 [.num 13734.424444594908]) = some "Thu, 9 Aug 2007 10:11:12 +0000".toList := by decide +kernel
/-- two-digit day of month, Sunday -/
example : okStr? (dateToRfc2822 [.num 16402.5]) = some "Fri, 28 Nov 2014 12:00:00 +0000".toList := by decide +kernel
example : okStr? (dateToRfc2822 [.num 16404]) = some "Sun, 30 Nov 2014 00:00:00 +0000".toList := by decide +kernel
/-- year 10183: RFC 3339 with explicit sign, RFC 2822 refused -/
example : okStr? (dateToRfc3339 [.num 3000000]) = some "+10183-09-21T00:00:00+00:00".toList := by decide +kernel
example : err? (dateToRfc2822 [.num 3000000]) = some (custom "year out of range for RFC 2822") := by decide +kernel
/-- year -221 -/
example : okStr? (dateToRfc3339 [.num (-800000)]) = some "-0221-09-04T00:00:00+00:00".toList := by decide +kernel
example : err? (dateToRfc2822 [.num (-800000)]) = some (custom "year out of range for RFC 2822") := by decide +kernel
/-- year 0 and year 9999 are inside the RFC 2822 range -/
example : okStr? (dateToRfc2822 [.num (-719528)]) = some "Sat, 1 Jan 0000 00:00:00 +0000".toList := by decide +kernel
example : okStr? (dateToRfc3339 [.num (-719528)]) = some "0000-01-01T00:00:00+00:00".toList := by decide +kernel
example : okStr? (dateToRfc2822 [.num 2932896]) = some "Fri, 31 Dec 9999 00:00:00 +0000".toList := by decide +kernel
example : okStr? (dateToRfc3339 [.num 2932897]) = some "+10000-01-01T00:00:00+00:00".toList := by decide +kernel
/-- errors of the shared decoder and the arity arm -/
example : err? (dateToRfc3339 [.str []]) = some .wrongParameterType := by decide +kernel
example : err? (dateToRfc2822 [.bool true]) = some .wrongParameterType := by decide +kernel
example : err? (dateToRfc3339 [.num 1e12]) = some (custom "datetime out of range") := by decide +kernel
example : err? (dateToRfc3339 []) = some (.wrongParameterCount 1) := by decide +kernel
example : err? (dateToRfc2822 [.num 0, .num 0]) = some (.wrongParameterCount 1) := by decide +kernel

/-! zoned (expected values: the crate under `TZ='CET-1CEST,M3.5.0,M10.5.0/3'` / `TZ='EST5EDT,M3.2.0,M11.1.0'`) -/
def okNum? : Option (Res Float) → Option Float
  | some (.ok (.num x)) => some x
  | _ => none
example : okStr? (dateToRfc3339Z Zone.cet [.num 0]) = some "1970-01-01T00:00:00+01:00".toList := by decide +kernel
example : okStr? (dateToRfc2822Z Zone.cet [.num 0]) = some "Thu, 1 Jan 1970 00:00:00 +0100".toList := by decide +kernel
example : okStr? (dateToRfc3339Z Zone.est [.num 18809.5]) = some "2021-07-01T12:00:00-04:00".toList := by decide +kernel
example : okStr? (dateToRfc2822Z Zone.est [.num 18809.5]) = some "Thu, 1 Jul 2021 12:00:00 -0400".toList := by decide +kernel
/-- 2021-03-28 02:15 does not exist in CET, 2021-10-31 02:15 exists twice -/
example : err? (dateToRfc3339Z Zone.cet [.num 18714.09375]) = some (custom "invalid datetime value") := by decide +kernel
example : err? (dateToRfc2822Z Zone.cet [.num 18931.09375]) = some (custom "invalid datetime value") := by decide +kernel
example : okStr? (dateToRfc3339Z Zone.cet [.num 18714.125]) = some "2021-03-28T03:00:00+02:00".toList := by decide +kernel
/-- parsing converts to the local wall clock: 2021-07-01T12:00:00Z is 14:00 in CET, 08:00 in US Eastern -/
example : okNum? (dateFromRfc3339Z Zone.cet [.str "2021-07-01T12:00:00Z".toList]) = some (18809 + 14 / 24) := by decide +kernel
example : okNum? (dateFromRfc2822Z Zone.est [.str "Thu, 1 Jul 2021 12:00:00 +0000".toList]) = some (18809 + 8 / 24) := by decide +kernel
example : (zoned (N := Float) Zone.cet "date_to_rfc3339").isSome ∧ (zoned (N := Float) Zone.cet "date_to_string").isNone := by decide

end Tests

end TimeRfc
end Slac
