/-
  SlacModel.TimeZone — the HOST'S LOCAL TIME ZONE, as chrono 0.4.45's `Local` sees it on unix, as a parameter of the
  model of src/stdlib/time.rs (used by SlacModel.TimeRfc: `date_to_rfc3339/2822`, `date_from_rfc3339/2822`).

  A `Zone` answers the two questions chrono asks (offset/local/unix.rs `Cache::offset`):
  * `offsetFromUtc u`   — `zone.find_local_time_type(unix seconds).offset()`: seconds EAST of UTC valid at the instant `u`;
  * `localResult l`     — `zone.find_local_time_type_from_local(local)`: which offsets a local wall-clock reading `l`
                          (seconds since 1970-01-01T00:00:00 of the NAIVE local date-time, `and_utc().timestamp()`) can have:
                          none (skipped reading), one, or two (repeated reading).
  Both take whole seconds: chrono drops the sub-second part before the lookup.

  Concrete zones: `Zone.utc`, `Zone.fixed off`, and the zones chrono derives from a POSIX rule in the `TZ` environment
  variable, `std offset [dst [offset] ,start[/time],end[/time]]` with `Mm.w.d`, `Jn` and `n` dates
  (tz_info/rule.rs `TransitionRule::from_tz_string`, `AlternateTime::find_local_time_type{,_from_local}`, `RuleDay`,
  `UtcDateTime::from_timespec`, `days_since_unix_epoch`; tz_info/timezone.rs `TimeZone::from_posix_tz`).  The functions
  below are transcriptions: same case splits, same comparisons (`<` vs `<=`), same integer arithmetic (Rust's truncating
  `/` where chrono uses it).  What is NOT modelled (`Zone.ofTz = none`): a `TZ` value that names a TZif file (`:path`,
  `localtime`, or a name found under /usr/share/zoneinfo & co. — chrono tries the file BEFORE the rule syntax, so the rule
  reading applies to strings that name no file, e.g. every string with a comma), and an unparsable value (chrono falls
  back to the IANA name of the host, then UTC).

  chrono's conventions that matter (all reproduced):
  * transition instants: `start` is given in local STANDARD time, `end` in local DAYLIGHT time (POSIX);
  * from UTC: the year is that of the UTC instant, the transitions of the previous and the next year are consulted when
    the instant lies outside [start, end) of its own year; `start > end` within a year = southern hemisphere;
  * from local: ONLY the transitions of the reading's own calendar year are consulted; hemisphere = comparison of the
    MONTH numbers of the two transition dates; the boundary seconds are attributed as chrono does it — the reading
    exactly at `start` (the first skipped second) is `single std`, the reading exactly at `end` (first second after the
    repeated hour) is `ambiguous`.
-/
import SlacModel.TimeCore
set_option autoImplicit false
namespace Slac
namespace Time

/-- `MappedLocalTime<offset>` (chrono's `LocalResult`) -/
inductive LocalResult where
  | none
  | single (off : Int)
  | ambiguous (a b : Int)
deriving DecidableEq, Repr

/-- the local time zone: offsets are seconds east of UTC, arguments are whole seconds since 1970-01-01T00:00:00 -/
structure Zone where
  offsetFromUtc : Int → Int
  localResult : Int → LocalResult

/-- a zone without transitions (`TransitionRule::Fixed`, `TimeZone::utc()`): `Single` for every reading -/
def Zone.fixed (off : Int) : Zone := ⟨fun _ => off, fun _ => .single off⟩
def Zone.utc : Zone := Zone.fixed 0

/-! ### chrono's calendar arithmetic (tz_info/rule.rs) -/
namespace Posix

/-- Rust's `/` on signed integers (truncation toward zero), for a positive divisor -/
def quot (a b : Int) : Int := if 0 ≤ a then a / b else -((-a) / b)

/-- `is_leap_year` -/
def leapYear (y : Int) : Bool := y % 400 == 0 || (y % 4 == 0 && y % 100 != 0)

/-- `CUMUL_DAY_IN_MONTHS_NORMAL_YEAR`, `DAY_IN_MONTHS_NORMAL_YEAR` -/
def cumulNormal : List Int := [0, 31, 59, 90, 120, 151, 181, 212, 243, 273, 304, 334]
def daysInMonthNormal : List Int := [31, 28, 31, 30, 31, 30, 31, 31, 30, 31, 30, 31]

/-- `days_since_unix_epoch(year, month, month_day)`; two formulas, for years from 1970 and before, with truncating `/` -/
def daysSinceUnixEpoch (year : Int) (month : Nat) (monthDay : Int) : Int :=
  let leap := leapYear year
  let r := (year - 1970) * 365
  let r :=
    if year ≥ 1970 then
      r + quot (year - 1968) 4 - quot (year - 1900) 100 + quot (year - 1600) 400 - (if leap && decide (month < 3) then 1 else 0)
    else
      r + quot (year - 1972) 4 - quot (year - 2000) 100 + quot (year - 2000) 400 + (if leap && decide (month ≥ 3) then 1 else 0)
  r + cumulNormal.getD (month - 1) 0 + monthDay - 1

/-- `UtcDateTime::from_timespec(unix).year`: days since 2000-03-01, 400/100/4/1-year cycles, year + 1 from January on
    (the month loop runs over the month lengths from March; it passes December after 306 days) -/
def utcYear (unix : Int) : Int :=
  let seconds := unix - 951868800
  let days := seconds / 86400
  let c400 := days / 146097
  let r := days % 146097
  let c100 := min (r / 36524) 3
  let r := r - c100 * 36524
  let c4 := min (r / 1461) 24
  let r := r - c4 * 1461
  let ry := min (r / 365) 3
  let r := r - ry * 365
  let year := 2000 + ry + c4 * 4 + c100 * 100 + c400 * 400
  if r ≥ 306 then year + 1 else year

/-- `RuleDay` -/
inductive RuleDay where
  | julian1 (day : Nat)                       -- `Jn`, 1 ≤ n ≤ 365, 29 February is never counted
  | julian0 (day : Nat)                       -- `n`, 0 ≤ n ≤ 365, 29 February is counted
  | monthWeekday (month week weekDay : Nat)   -- `Mm.w.d`, week 5 = last, weekDay 0 = Sunday
deriving DecidableEq, Repr

/-- `table.binary_search(&x)` with `Ok(i) => i + 1, Err(i) => i` on a strictly increasing table: how many entries are ≤ x -/
def countLe (tbl : List Int) (x : Int) : Nat := (tbl.filter fun e => decide (e ≤ x)).length

/-- `RuleDay::transition_date(year)`: month and day of the month -/
def RuleDay.transitionDate (r : RuleDay) (year : Int) : Nat × Int :=
  match r with
  | .julian1 yd =>
    let month := countLe cumulNormal ((yd : Int) - 1)
    (month, (yd : Int) - cumulNormal.getD (month - 1) 0)
  | .julian0 yd =>
    let leap : Int := if leapYear year then 1 else 0
    let tbl : List Int := [0, 31, 59 + leap, 90 + leap, 120 + leap, 151 + leap, 181 + leap, 212 + leap, 243 + leap,
      273 + leap, 304 + leap, 334 + leap]
    let month := countLe tbl yd
    (month, 1 + (yd : Int) - tbl.getD (month - 1) 0)
  | .monthWeekday month week weekDay =>
    let leap : Int := if leapYear year then 1 else 0
    let dayInMonth := daysInMonthNormal.getD (month - 1) 0 + (if month == 2 then leap else 0)
    let weekDayOfFirst := (4 + daysSinceUnixEpoch year month 1) % 7
    let firstOccurrence := 1 + ((weekDay : Int) - weekDayOfFirst) % 7
    let monthDay := firstOccurrence + ((week : Int) - 1) * 7
    (month, if monthDay > dayInMonth then monthDay - 7 else monthDay)

/-- `RuleDay::unix_time(year, day_time_in_utc)` -/
def RuleDay.unixTime (r : RuleDay) (year : Int) (dayTime : Int) : Int :=
  let (month, monthDay) := r.transitionDate year
  daysSinceUnixEpoch year month monthDay * 86400 + dayTime

/-- `AlternateTime`: `std`, `dst` are the `ut_offset`s (seconds east), the times are seconds after local midnight -/
structure Alt where
  std : Int
  dst : Int
  dstStart : RuleDay
  dstStartTime : Int
  dstEnd : RuleDay
  dstEndTime : Int
deriving DecidableEq, Repr

/-- `AlternateTime::find_local_time_type(unix_time)`: is daylight time in force at the UTC instant? -/
def Alt.isDst (a : Alt) (unix : Int) : Bool :=
  let startUtc := a.dstStartTime - a.std
  let endUtc := a.dstEndTime - a.dst
  let cur := utcYear unix
  let curStart := a.dstStart.unixTime cur startUtc
  let curEnd := a.dstEnd.unixTime cur endUtc
  if curStart ≤ curEnd then
    if unix < curStart then
      (if unix < a.dstEnd.unixTime (cur - 1) endUtc then decide (a.dstStart.unixTime (cur - 1) startUtc ≤ unix) else false)
    else if unix < curEnd then true
    else
      (if a.dstStart.unixTime (cur + 1) startUtc ≤ unix then decide (unix < a.dstEnd.unixTime (cur + 1) endUtc) else false)
  else
    if unix < curEnd then
      (if unix < a.dstStart.unixTime (cur - 1) startUtc then decide (unix < a.dstEnd.unixTime (cur - 1) endUtc) else true)
    else if unix < curStart then false
    else
      (if a.dstEnd.unixTime (cur + 1) endUtc ≤ unix then decide (a.dstStart.unixTime (cur + 1) startUtc ≤ unix) else true)

def Alt.offsetFromUtc (a : Alt) (unix : Int) : Int := if a.isDst unix then a.dst else a.std

/-- `AlternateTime::find_local_time_type_from_local(local)`; `l` = `local.and_utc().timestamp()`, the year is the
    reading's calendar year -/
def Alt.localResult (a : Alt) (l : Int) : LocalResult :=
  let cur := (civilFromDays (l / 86400)).1
  let startStart := a.dstStart.unixTime cur 0 + a.dstStartTime
  let startEnd := a.dstStart.unixTime cur 0 + a.dstStartTime + a.dst - a.std
  let endStart := a.dstEnd.unixTime cur 0 + a.dstEndTime
  let endEnd := a.dstEnd.unixTime cur 0 + a.dstEndTime + a.std - a.dst
  let startFirst : Bool := decide ((a.dstStart.transitionDate cur).1 < (a.dstEnd.transitionDate cur).1)
  if a.std = a.dst then .single a.std
  else if a.std < a.dst then
    if startFirst then
      -- northern hemisphere
      if l ≤ startStart then .single a.std
      else if l > startStart ∧ l < startEnd then .none
      else if l ≥ startEnd ∧ l < endEnd then .single a.dst
      else if l ≥ endEnd ∧ l ≤ endStart then .ambiguous a.std a.dst
      else .single a.std
    else
      -- southern hemisphere regular DST
      if l < endEnd then .single a.dst
      else if l ≥ endEnd ∧ l ≤ endStart then .ambiguous a.std a.dst
      else if l > endEnd ∧ l < startStart then .single a.std
      else if l ≥ startStart ∧ l < startEnd then .none
      else .single a.dst
  else
    if startFirst then
      -- southern hemisphere reverse DST
      if l < startEnd then .single a.std
      else if l ≥ startEnd ∧ l ≤ startStart then .ambiguous a.dst a.std
      else if l > startStart ∧ l < endStart then .single a.dst
      else if l ≥ endStart ∧ l < endEnd then .none
      else .single a.std
    else
      -- northern hemisphere reverse DST
      if l ≤ endStart then .single a.dst
      else if l > endStart ∧ l < endEnd then .none
      else if l ≥ endEnd ∧ l < startEnd then .single a.std
      else if l ≥ startEnd ∧ l ≤ startStart then .ambiguous a.dst a.std
      else .single a.dst

/-- `TransitionRule` -/
inductive Rule where
  | fixed (off : Int)
  | alt (a : Alt)
deriving DecidableEq, Repr

def Rule.zone : Rule → Zone
  | .fixed off => Zone.fixed off
  | .alt a => ⟨a.offsetFromUtc, a.localResult⟩

/-! ### the `TZ` rule syntax (`TransitionRule::from_tz_string(.., use_string_extensions = false)`) -/

def isAsciiAlpha (c : Char) : Bool := (decide ('a' ≤ c) && decide (c ≤ 'z')) || (decide ('A' ≤ c) && decide (c ≤ 'Z'))
def isAsciiDigit (c : Char) : Bool := decide ('0' ≤ c) && decide (c ≤ '9')
/-- `u8::is_ascii_whitespace` -/
def isAsciiWs (c : Char) : Bool := c == ' ' || c == '\t' || c == '\n' || c == '\x0c' || c == '\r'

/-- `cursor.read_int::<T>()`: a non-empty run of ASCII digits whose value fits the integer type (`maxv` = `T::MAX`) -/
def readNat (s : Str) (maxv : Nat) : Option (Nat × Str) :=
  let ds := s.takeWhile isAsciiDigit
  if ds.isEmpty then none
  else
    let v := ds.foldl (fun a c => a * 10 + (c.toNat - 48)) 0
    if v > maxv then none else some (v, s.dropWhile isAsciiDigit)

def i32Max : Nat := 2147483647

/-- `TimeZoneName::new`: 3 to 7 characters out of `[0-9A-Za-z+-]` -/
def nameOk (n : Str) : Bool :=
  decide (3 ≤ n.length) && decide (n.length ≤ 7) && n.all fun c => isAsciiAlpha c || isAsciiDigit c || c == '+' || c == '-'

/-- `parse_name` and the later check of the name: the rest after a valid name -/
def parseName (s : Str) : Option Str :=
  match s with
  | '<' :: r =>
    match r.dropWhile (fun c => c != '>') with
    | _ :: rest => if nameOk (r.takeWhile fun c => c != '>') then some rest else none
    | [] => none
  | _ => if nameOk (s.takeWhile isAsciiAlpha) then some (s.dropWhile isAsciiAlpha) else none

/-- `parse_hhmmss`: `h[:m[:s]]` -/
def parseHms (s : Str) : Option (Nat × Nat × Nat × Str) :=
  match readNat s i32Max with
  | none => none
  | some (h, ':' :: r) =>
    (match readNat r i32Max with
     | none => none
     | some (m, ':' :: r2) =>
       (match readNat r2 i32Max with
        | none => none
        | some (sec, r3) => some (h, m, sec, r3))
     | some (m, r2) => some (h, m, 0, r2))
  | some (h, r) => some (h, 0, 0, r)

/-- `parse_offset`: `[+-]h[:m[:s]]`, hour 0..=23, as signed seconds (POSIX sign: positive = WEST of Greenwich) -/
def parseOffset (s : Str) : Option (Int × Str) :=
  let (sign, s) : Int × Str := match s with
    | '+' :: r => (1, r)
    | '-' :: r => (-1, r)
    | _ => (1, s)
  match parseHms s with
  | none => none
  | some (h, m, sec, r) =>
    if h ≤ 23 ∧ m ≤ 59 ∧ sec ≤ 59 then some (sign * ((h * 3600 + m * 60 + sec : Nat) : Int), r) else none

/-- `parse_rule_time`: `h[:m[:s]]`, hour 0..=24 -/
def parseRuleTime (s : Str) : Option (Int × Str) :=
  match parseHms s with
  | none => none
  | some (h, m, sec, r) =>
    if h ≤ 24 ∧ m ≤ 59 ∧ sec ≤ 59 then some (((h * 3600 + m * 60 + sec : Nat) : Int), r) else none

/-- the date part of `RuleDay::parse` -/
def parseRuleDate (s : Str) : Option (RuleDay × Str) :=
  match s with
  | 'M' :: r =>
    (match readNat r 255 with
     | some (month, '.' :: r1) =>
       (match readNat r1 255 with
        | some (week, '.' :: r2) =>
          (match readNat r2 255 with
           | some (weekDay, r3) =>
             if 1 ≤ month ∧ month ≤ 12 ∧ 1 ≤ week ∧ week ≤ 5 ∧ weekDay ≤ 6 then some (.monthWeekday month week weekDay, r3)
             else none
           | none => none)
        | _ => none)
     | _ => none)
  | 'J' :: r =>
    (match readNat r 65535 with
     | some (n, r1) => if 1 ≤ n ∧ n ≤ 365 then some (.julian1 n, r1) else none
     | none => none)
  | _ =>
    (match readNat s 65535 with
     | some (n, r1) => if n ≤ 365 then some (.julian0 n, r1) else none
     | none => none)

/-- `RuleDay::parse`: the date and `[/time]` (02:00:00 by default) -/
def parseRuleDay (s : Str) : Option (RuleDay × Int × Str) :=
  match parseRuleDate s with
  | none => none
  | some (d, '/' :: r) =>
    (match parseRuleTime r with
     | some (t, r1) => some (d, t, r1)
     | none => none)
  | some (d, r) => some (d, 7200, r)

/-- `TransitionRule::from_tz_string` -/
def parseRule (s : Str) : Option Rule :=
  match parseName s with
  | none => none
  | some r =>
    match parseOffset r with
    | none => none
    | some (stdOffset, []) => some (.fixed (-stdOffset))
    | some (stdOffset, r) =>
      match parseName r with
      | none => none
      | some r =>
        let dstPart : Option (Int × Str) :=
          match r with
          | ',' :: _ => some (stdOffset - 3600, r)
          | [] => none
          | _ => parseOffset r
        match dstPart with
        | some (dstOffset, ',' :: r) =>
          (match parseRuleDay r with
           | some (d1, t1, ',' :: r1) =>
             (match parseRuleDay r1 with
              | some (d2, t2, []) => some (.alt ⟨-stdOffset, -dstOffset, d1, t1, d2, t2⟩)
              | _ => none)
           | _ => none)
        | _ => none

end Posix

def trimAsciiWs (s : Str) : Str := ((s.dropWhile Posix.isAsciiWs).reverse.dropWhile Posix.isAsciiWs).reverse

/-- `TimeZone::from_posix_tz(tz)` for a `TZ` value that names no TZif file: the rule, `Zone.utc` for the empty string -/
def Zone.ruleOfTz (tz : Str) : Option Posix.Rule :=
  if tz.isEmpty then some (.fixed 0)
  else if tz == ['l', 'o', 'c', 'a', 'l', 't', 'i', 'm', 'e'] then none
  else match tz with
    | ':' :: _ => none
    | _ => Posix.parseRule (trimAsciiWs tz)

/-- the zone of a POSIX `TZ` rule string; `none` = outside the model (a file reference or unparsable) -/
def Zone.ofPosix (tz : Str) : Option Zone := (Zone.ruleOfTz tz).map Posix.Rule.zone

/-! ### the two zones of the correspondence runs -/

/-- `TZ='CET-1CEST,M3.5.0,M10.5.0/3'`: +01:00 / +02:00 from the last Sunday of March 02:00 to the last Sunday of October 03:00 -/
def Zone.cetText : Str :=
  ['C','E','T','-','1','C','E','S','T',',','M','3','.','5','.','0',',','M','1','0','.','5','.','0','/','3']
def Zone.cetAlt : Posix.Alt := ⟨3600, 7200, .monthWeekday 3 5 0, 7200, .monthWeekday 10 5 0, 10800⟩
def Zone.cet : Zone := (Posix.Rule.alt Zone.cetAlt).zone

/-- `TZ='EST5EDT,M3.2.0,M11.1.0'`: −05:00 / −04:00 from the second Sunday of March 02:00 to the first Sunday of November 02:00 -/
def Zone.estText : Str :=
  ['E','S','T','5','E','D','T',',','M','3','.','2','.','0',',','M','1','1','.','1','.','0']
def Zone.estAlt : Posix.Alt := ⟨-18000, -14400, .monthWeekday 3 2 0, 7200, .monthWeekday 11 1 0, 7200⟩
def Zone.est : Zone := (Posix.Rule.alt Zone.estAlt).zone

/-! ### TESTS (expected values: chrono 0.4.45 under the respective `TZ`) -/
section Tests
open Posix

example : Zone.ruleOfTz Zone.cetText = some (.alt Zone.cetAlt) := by decide
example : Zone.ruleOfTz Zone.estText = some (.alt Zone.estAlt) := by decide
example : Zone.ruleOfTz [] = some (.fixed 0) := by decide
example : Zone.ruleOfTz "UTC0".toList = some (.fixed 0) := by decide +kernel
example : Zone.ruleOfTz " <+0330>-3:30 ".toList = some (.fixed 12600) := by decide +kernel
example : Zone.ruleOfTz "NZST-12:00:00NZDT-13:00:00,M10.1.0/02:00:00,M3.3.0/02:00:00".toList =
    some (.alt ⟨43200, 46800, .monthWeekday 10 1 0, 7200, .monthWeekday 3 3 0, 7200⟩) := by decide +kernel
example : Zone.ruleOfTz "<-03>+3<+03>-3,J1,J365".toList = some (.alt ⟨-10800, 10800, .julian1 1, 7200, .julian1 365, 7200⟩) := by
  decide +kernel
example : Zone.ruleOfTz "IST-2IDT,M3.4.4/26,M10.5.0".toList = none := by decide +kernel     -- hour 26: extension syntax, refused
example : Zone.ruleOfTz "EST5EDT".toList = none := by decide +kernel                         -- DST without rules
example : Zone.ruleOfTz "UTC".toList = none := by decide +kernel                             -- no offset (chrono: file name or fallback)
example : Zone.ruleOfTz ":Europe/Berlin".toList = none := by decide +kernel
example : Zone.ruleOfTz "AB1".toList = none := by decide +kernel                             -- name too short

/-- calendar helpers against the model's proleptic Gregorian calendar -/
example : daysSinceUnixEpoch 1970 1 1 = 0 ∧ daysSinceUnixEpoch 2000 3 1 = 11017 ∧ daysSinceUnixEpoch 1968 3 1 = -671 ∧
    daysSinceUnixEpoch 1600 1 1 = daysFromCivil 1600 1 1 ∧ daysSinceUnixEpoch (-1) 12 31 = daysFromCivil (-1) 12 31 := by decide
example : utcYear 0 = 1970 ∧ utcYear (-1) = 1969 ∧ utcYear 951868799 = 2000 ∧ utcYear 946684799 = 1999 ∧ utcYear 946684800 = 2000 := by
  decide
/-- last Sunday of March / October 2021, second Sunday of March / first Sunday of November 2021 -/
example : (RuleDay.monthWeekday 3 5 0).transitionDate 2021 = (3, 28) ∧ (RuleDay.monthWeekday 10 5 0).transitionDate 2021 = (10, 31) ∧
    (RuleDay.monthWeekday 3 2 0).transitionDate 2021 = (3, 14) ∧ (RuleDay.monthWeekday 11 1 0).transitionDate 2021 = (11, 7) := by decide
example : (RuleDay.julian1 60).transitionDate 2024 = (3, 1) ∧ (RuleDay.julian0 59).transitionDate 2024 = (2, 29) ∧
    (RuleDay.julian0 59).transitionDate 2023 = (3, 1) := by decide

/-- seconds since the epoch of a local or UTC clock reading -/
def at_ (y : Int) (m d h mi s : Nat) : Int := daysFromCivil y m d * 86400 + ((h * 3600 + mi * 60 + s : Nat) : Int)

/-- CET 2021-03-28: 01:59:59 is +01:00, 02:00:00 (the first skipped second) is still `single +01:00` in chrono,
    02:00:01 … 02:59:59 do not exist, 03:00:00 is +02:00 -/
example : Zone.cet.localResult (at_ 2021 3 28 1 59 59) = .single 3600 := by decide +kernel
example : Zone.cet.localResult (at_ 2021 3 28 2 0 0) = .single 3600 := by decide +kernel
example : Zone.cet.localResult (at_ 2021 3 28 2 15 0) = .none := by decide +kernel
example : Zone.cet.localResult (at_ 2021 3 28 2 59 59) = .none := by decide +kernel
example : Zone.cet.localResult (at_ 2021 3 28 3 0 0) = .single 7200 := by decide +kernel
/-- CET 2021-10-31: 02:00:00 … 03:00:00 are ambiguous (chrono includes 03:00:00), 03:00:01 is +01:00 -/
example : Zone.cet.localResult (at_ 2021 10 31 1 59 59) = .single 7200 := by decide +kernel
example : Zone.cet.localResult (at_ 2021 10 31 2 15 0) = .ambiguous 3600 7200 := by decide +kernel
example : Zone.cet.localResult (at_ 2021 10 31 3 0 0) = .ambiguous 3600 7200 := by decide +kernel
example : Zone.cet.localResult (at_ 2021 10 31 3 0 1) = .single 3600 := by decide +kernel
/-- from UTC: the switch instants are 01:00:00Z -/
example : Zone.cet.offsetFromUtc (at_ 2021 3 28 0 59 59) = 3600 ∧ Zone.cet.offsetFromUtc (at_ 2021 3 28 1 0 0) = 7200 ∧
    Zone.cet.offsetFromUtc (at_ 2021 10 31 0 59 59) = 7200 ∧ Zone.cet.offsetFromUtc (at_ 2021 10 31 1 0 0) = 3600 := by decide +kernel
/-- US Eastern 2021: 14 March 07:00:00Z and 7 November 06:00:00Z -/
example : Zone.est.offsetFromUtc (at_ 2021 3 14 6 59 59) = -18000 ∧ Zone.est.offsetFromUtc (at_ 2021 3 14 7 0 0) = -14400 ∧
    Zone.est.offsetFromUtc (at_ 2021 11 7 5 59 59) = -14400 ∧ Zone.est.offsetFromUtc (at_ 2021 11 7 6 0 0) = -18000 := by decide +kernel
example : Zone.est.localResult (at_ 2021 3 14 2 30 0) = .none ∧ Zone.est.localResult (at_ 2021 11 7 1 30 0) = .ambiguous (-18000) (-14400) := by
  decide +kernel
/-- around New Year the UTC year and the local year differ; both lookups stay on standard time -/
example : Zone.cet.offsetFromUtc (at_ 2021 12 31 23 30 0) = 3600 ∧ Zone.cet.localResult (at_ 2022 1 1 0 30 0) = .single 3600 ∧
    Zone.est.offsetFromUtc (at_ 2022 1 1 2 0 0) = -18000 ∧ Zone.est.localResult (at_ 2021 12 31 21 0 0) = .single (-18000) := by decide +kernel

end Tests

end Time
end Slac
