/-
  SlacModel.StdOrder — model of the ordering built-ins of src/stdlib/common.rs:
  `between`, `compare`, `max`, `min`, `sort`, and `smart_vec` of src/stdlib/mod.rs.
  All of them are views of `Value.cmp` (src/value.rs `Ord::cmp`).

  * `sort`  : Rust `slice::sort` is a *stable* sort.  The model is the stable insertion sort `sortBy`.
              On a total preorder the stable sorted permutation is unique, which ties it to the Rust result;
              outside a total preorder `slice::sort` promises nothing (unspecified order / may panic).
  * `max`   : `Iterator::max` = `reduce(|x, y| match cmp(x, y) { Greater => x, _ => y })`  (the LAST maximum)
  * `min`   : `Iterator::min` = `reduce(|x, y| match cmp(x, y) { Greater => y, _ => x })`  (the FIRST minimum)
-/
import SlacModel.Value
set_option autoImplicit false
namespace Slac
namespace StdOrder
variable {N : Type} [NumOps N]

/-- `smart_vec`: exactly one parameter which is an Array is unpacked, otherwise the parameters themselves. -/
def smartVec : List (Value N) → List (Value N)
  | [.arr v] => v
  | ps => ps

/-- insert `x` in front of the first element that is not smaller than `x` -/
def insertBy (x : Value N) : List (Value N) → List (Value N)
  | [] => [x]
  | y :: ys => if Value.cmp x y == .gt then y :: insertBy x ys else x :: y :: ys

/-- stable insertion sort by `Value.cmp` (earlier elements go in front of later equal ones) -/
def sortBy : List (Value N) → List (Value N)
  | [] => []
  | x :: xs => insertBy x (sortBy xs)

/-- built-in `sort(values: Array): Array` -/
def sort : List (Value N) → Except NativeError (Value N)
  | [.arr vs] => .ok (.arr (sortBy vs))
  | [_] => .error .wrongParameterType
  | _ => .error (.wrongParameterCount 1)

/-- one step of `Iterator::max_by(Ord::cmp)` -/
def maxStep (acc y : Value N) : Value N := if Value.cmp acc y == .gt then acc else y
/-- one step of `Iterator::min_by(Ord::cmp)` -/
def minStep (acc y : Value N) : Value N := if Value.cmp acc y == .gt then y else acc

/-- `Iterator::max` (last maximum; `None` on empty input) -/
def maxV : List (Value N) → Option (Value N)
  | [] => none
  | x :: xs => some (xs.foldl maxStep x)
/-- `Iterator::min` (first minimum; `None` on empty input) -/
def minV : List (Value N) → Option (Value N)
  | [] => none
  | x :: xs => some (xs.foldl minStep x)

/-- no value to compare: without parameters a parameter-count error, for `max([])` a custom error -/
def emptyError (msg : Str) : List (Value N) → NativeError
  | [] => .wrongParameterCount 1
  | _ :: _ => .custom msg
/-- the texts of the two custom errors (`NativeError::from("…")` in common.rs) -/
def noMaximum : Str := ['a','n',' ','e','m','p','t','y',' ','a','r','r','a','y',' ','h','a','s',' ','n','o',' ','m','a','x','i','m','u','m']
def noMinimum : Str := ['a','n',' ','e','m','p','t','y',' ','a','r','r','a','y',' ','h','a','s',' ','n','o',' ','m','i','n','i','m','u','m']

/-- built-in `max(...)` -/
def max (params : List (Value N)) : Except NativeError (Value N) :=
  match maxV (smartVec params) with
  | some v => .ok v
  | none => .error (emptyError noMaximum params)
/-- built-in `min(...)` -/
def min (params : List (Value N)) : Except NativeError (Value N) :=
  match minV (smartVec params) with
  | some v => .ok v
  | none => .error (emptyError noMinimum params)

/-- built-in `between(value, lower, upper)` -/
def between : List (Value N) → Except NativeError (Value N)
  | [v, lo, hi] => .ok (.bool (Value.ge v lo && Value.le v hi))
  | _ => .error (.wrongParameterCount 3)

/-- `f64::from(ordering as i8)`: -1, 0, 1 -/
def ordCode : Ordering → N
  | .lt => NumOps.neg (NumOps.ofBool true)
  | .eq => NumOps.zero
  | .gt => NumOps.ofBool true

/-- built-in `compare(left, right)` -/
def compare : List (Value N) → Except NativeError (Value N)
  | [l, r] => .ok (.num (ordCode (Value.cmp l r)))
  | _ => .error (.wrongParameterCount 2)

end StdOrder
end Slac
