/-
  SlacModel.SrcScannerPrelude — what a `&mut self` method of `Scanner` (src/scanner.rs) is in the translation of
  tools/rs2lean_scanner.py: a function of the two cursors `self.start` / `self.current` (the source text and `self.end`
  are never assigned after construction and are plain parameters) that yields a value and the new cursors, an `Err`,
  or one of the two outcomes the model makes explicit (the fuel of a loop exhausted; a `usize` subtraction below zero).
  Hand-written; everything in Generated/SrcScanner.lean is written in terms of it.
-/
import SlacModel.Ast
import SlacModel.Token
set_option autoImplicit false
namespace Slac.SrcScanner
variable {N : Type} {α β : Type}

structure SState where
  start : Nat
  current : Nat

abbrev SM (N : Type) (α : Type) := SState → COut N (α × SState)

@[inline] def SM.pure (a : α) : SM N α := fun s => .ok (a, s)
@[inline] def SM.bind (x : SM N α) (k : α → SM N β) : SM N β := fun s =>
  match x s with
  | .ok (a, s') => k a s'
  | .err e => .err e
  | .outOfFuel => .outOfFuel
  | .panic => .panic
instance : Monad (SM N) where
  pure := SM.pure
  bind := SM.bind

def get_start : SM N Nat := fun s => .ok (s.start, s)
def get_current : SM N Nat := fun s => .ok (s.current, s)
def set_start (n : Nat) : SM N Unit := fun s => .ok ((), { s with start := n })
def set_current (n : Nat) : SM N Unit := fun s => .ok ((), { s with current := n })
/-- `Err(e)` returned (directly or through `?`) -/
def throwE (e : CErr N) : SM N α := fun _ => .err e
/-- the iteration budget of a loop is used up -/
def outOfFuel : SM N α := fun _ => .outOfFuel
/-- `a - b` on `usize` -/
def usub (a b : Nat) : SM N Nat := fun s => if b ≤ a then .ok (a - b, s) else .panic
/-- `opt.ok_or(e)?` -/
def okOr (o : Option α) (e : CErr N) : SM N α := fun s =>
  match o with
  | some a => .ok (a, s)
  | none => .err e
/-- run a method on a freshly constructed `Scanner` and keep its result -/
def run (x : SM N α) (s : SState) : COut N α :=
  match x s with
  | .ok (a, _) => .ok a
  | .err e => .err e
  | .outOfFuel => .outOfFuel
  | .panic => .panic

end Slac.SrcScanner
