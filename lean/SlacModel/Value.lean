/-
  SlacModel.Value — model of src/value.rs: `Value`, `Ord::cmp`, `PartialEq::eq`, empty/is_empty/as_bool,
  the operator impls (Neg, Not, Add, Sub, Mul, Div, Rem, BitXor, div_int) and `len`.
-/
import SlacModel.Basic
set_option autoImplicit false
namespace Slac

inductive Value (N : Type) where
  | bool (b : Bool) | str (s : Str) | num (x : N) | arr (xs : List (Value N))

/-- lexicographic order of texts by code point (= Rust's byte order of UTF-8) -/
def cmpStr : Str → Str → Ordering
  | [], [] => .eq
  | [], _ :: _ => .lt
  | _ :: _, [] => .gt
  | a :: as, b :: bs => if a.toNat < b.toNat then .lt else if b.toNat < a.toNat then .gt else cmpStr as bs

def cmpBool : Bool → Bool → Ordering
  | false, true => .lt
  | true, false => .gt
  | _, _ => .eq

def cmpNat (a b : Nat) : Ordering := if a < b then .lt else if b < a then .gt else .eq

namespace Value
variable {N : Type} [NumOps N]

def ordinal : Value N → Nat | bool _ => 0 | str _ => 1 | num _ => 2 | arr _ => 3

mutual
/-- `Ord::cmp` of value.rs -/
def cmp : Value N → Value N → Ordering
  | bool a, bool b => cmpBool a b
  | str a, str b => cmpStr a b
  | num a, num b => (NumOps.pcmp a b).getD .eq
  | arr a, arr b => cmpList a b
  | str a, num b => match NumOps.parse (N := N) a with
      | some x => (NumOps.pcmp x b).getD .lt
      | none => .lt
  | num a, str b => match NumOps.parse (N := N) b with
      | some y => (NumOps.pcmp a y).getD .gt
      | none => .gt
  | a, b => cmpNat (ordinal a) (ordinal b)
def cmpList : List (Value N) → List (Value N) → Ordering
  | [], [] => .eq
  | [], _ :: _ => .lt
  | _ :: _, [] => .gt
  | a :: as, b :: bs => match cmp a b with
      | .eq => cmpList as bs
      | o => o
end

mutual
/-- `PartialEq::eq` of value.rs -/
def eq : Value N → Value N → Bool
  | bool a, bool b => a == b
  | str a, str b => a == b
  | num a, num b => NumOps.beq a b
  | arr a, arr b => eqList a b
  | bool a, num b => NumOps.beq (NumOps.ofBool a) b
  | num a, bool b => NumOps.beq a (NumOps.ofBool b)
  | a, b => cmp a b == .eq
def eqList : List (Value N) → List (Value N) → Bool
  | [], [] => true
  | a :: as, b :: bs => eq a b && eqList as bs
  | _, _ => false
end

def empty : Value N → Value N
  | bool _ => bool false | str _ => str [] | num _ => num NumOps.zero | arr _ => arr []
def isEmpty (v : Value N) : Bool := eq v (empty v)
def asBool : Value N → Bool
  | bool b => b
  | v => !isEmpty v

def isBoolean : Value N → Bool | bool _ => true | _ => false
def isNumber : Value N → Bool | num _ => true | _ => false

def neg : Value N → Except Err (Value N)
  | num x => .ok (num (NumOps.neg x))
  | _ => .error (.invalidUnary .minus)
def not (v : Value N) : Except Err (Value N) := .ok (bool (!asBool v))
def add : Value N → Value N → Except Err (Value N)
  | str a, str b => .ok (str (a ++ b))
  | num a, num b => .ok (num (NumOps.add a b))
  | arr a, arr b => .ok (arr (a ++ b))
  | _, _ => .error (.invalidBinary .plus)
def arith (f : N → N → N) (op : Op) : Value N → Value N → Except Err (Value N)
  | num a, num b => .ok (num (f a b))
  | _, _ => .error (.invalidBinary op)
def xor : Value N → Value N → Except Err (Value N)
  | bool a, bool b => .ok (bool (a != b))
  | _, _ => .error (.invalidBinary .xor)

/-- the `<`, `<=`, `>`, `>=` of `PartialOrd` derived from `cmp` (partial_cmp = Some(cmp)) -/
def lt (a b : Value N) : Bool := cmp a b == .lt
def le (a b : Value N) : Bool := cmp a b != .gt
def gt (a b : Value N) : Bool := cmp a b == .gt
def ge (a b : Value N) : Bool := cmp a b != .lt

end Value
end Slac
