/-
  SlacModel.Regex — model of src/stdlib/regex.rs: the four wrappers over an ABSTRACT regex engine.
  regex-lite itself is not modelled; `Engine` lists exactly the operations the wrappers call.
  Tie: the `re` stream ships the raw engine answers for each (pattern, haystack) with the case, so the wrapper
  logic (argument defaults, `usize_from_f64` on the limit, synthesised empty captures, error arms) is compared exactly.
-/
import SlacModel.Stdlib
set_option autoImplicit false
namespace Slac
namespace Regex
open Stdlib

structure Engine (Re : Type) where
  compile : Str → Except Str Re                       -- `Regex::new`
  isMatch : Re → Str → Bool                           -- `is_match`
  findIter : Re → Str → List Str                      -- `find_iter(..).map(as_str)`
  captures : Re → Str → Option (List (Option Str))    -- `captures(..)`: group 0 first; unmatched group = none
  capturesLen : Re → Nat                              -- `captures_len`
  replacen : Re → Str → Nat → Str → Str               -- `replacen(haystack, limit, replacement)`; limit 0 = all

variable {N : Type} [NumX N] {Re : Type}

def withRe (E : Engine Re) (pattern : Str) (k : Re → Res N) : Res N :=
  match E.compile pattern with
  | .ok re => k re
  | .error msg => .error (.custom msg)

def isMatch (E : Engine Re) : List (Value N) → Res N
  | [.str h, .str p] => withRe E p fun re => .ok (.bool (E.isMatch re h))
  | [_, _] => .error .wrongParameterType
  | _ => .error (.wrongParameterCount 2)

def find (E : Engine Re) : List (Value N) → Res N
  | [.str h, .str p] => withRe E p fun re => .ok (.arr ((E.findIter re h).map .str))
  | [_, _] => .error .wrongParameterType
  | _ => .error (.wrongParameterCount 2)

def capture (E : Engine Re) : List (Value N) → Res N
  | [.str h, .str p] => withRe E p fun re =>
      match E.captures re h with
      | none => .ok (.arr (List.replicate (E.capturesLen re) (.str [])))
      | some cs => .ok (.arr (cs.map fun c => .str (c.getD [])))
  | [_, _] => .error .wrongParameterType
  | _ => .error (.wrongParameterCount 2)

def replace (E : Engine Re) (params : List (Value N)) : Res N :=
  match defaultString params 2 [] with
  | .error e => .error e
  | .ok replacement =>
    match defaultNumber params 3 (NumOps.zero : N) with
    | .error e => .error e
    | .ok lim =>
      match params with
      | .str h :: .str needle :: _ => withRe E needle fun re => .ok (.str (E.replacen re h (NumX.floorUsize lim) replacement))
      | [_, _] => .error .wrongParameterType
      | _ => .error (.wrongParameterCount 2)

end Regex
end Slac
