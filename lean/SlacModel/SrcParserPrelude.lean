/-
  SlacModel.SrcParserPrelude — what a `&mut self` method of `Compiler` (src/compiler.rs) is in the translation of
  tools/rs2lean_parser.py: a function of the cursor `self.current` (the token vector is never assigned after
  construction and is passed as a plain parameter) that yields a value and the new cursor, an `Err`, or one of the
  two outcomes the model makes explicit (fuel exhausted = the Rust recursion has not returned yet; panic = a `usize`
  subtraction below zero).  Hand-written; everything in Generated/SrcParser.lean is written in terms of it.
-/
import SlacModel.Ast
import SlacModel.Token
set_option autoImplicit false
namespace Slac.SrcParser
variable {N : Type} {α β : Type}

abbrev PM (N : Type) (α : Type) := Nat → COut N (α × Nat)

@[inline] def PM.pure (a : α) : PM N α := fun c => .ok (a, c)
@[inline] def PM.bind (x : PM N α) (k : α → PM N β) : PM N β := fun c =>
  match x c with
  | .ok (a, c') => k a c'
  | .err e => .err e
  | .outOfFuel => .outOfFuel
  | .panic => .panic
instance : Monad (PM N) where
  pure := PM.pure
  bind := PM.bind

/-- read `self.current` -/
def getCur : PM N Nat := fun c => .ok (c, c)
/-- `self.current = n` -/
def setCur (n : Nat) : PM N Unit := fun _ => .ok ((), n)
/-- `Err(e)` returned (directly or through `?`) -/
def throwE (e : CErr N) : PM N α := fun _ => .err e
/-- the recursion budget of the translation is used up -/
def outOfFuel : PM N α := fun _ => .outOfFuel
/-- `a - b` on `usize` -/
def usub (a b : Nat) : PM N Nat := fun c => if b ≤ a then .ok (a - b, c) else .panic
/-- `opt.ok_or(e)?` -/
def okOr (o : Option α) (e : CErr N) : PM N α := fun c =>
  match o with
  | some a => .ok (a, c)
  | none => .err e
/-- run a method on a freshly constructed `Compiler { tokens, current }` and keep its result -/
def run (x : PM N α) (current : Nat) : COut N α :=
  match x current with
  | .ok (a, _) => .ok a
  | .err e => .err e
  | .outOfFuel => .outOfFuel
  | .panic => .panic

end Slac.SrcParser
