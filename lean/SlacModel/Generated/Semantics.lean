/-
  SlacModel.Generated.Semantics — GENERATED on every check run by /verif/tools/translate.py from the CURRENT text of
  /repo/src/value.rs and interpreter.rs (operator arms only).  Do not edit.  SlacProps/C03Source.lean proves that the
  hand-written model (Value.add, Value.arith, Value.xor, Value.neg, binVal, unModel, …) is these tables.
-/
import SlacModel.Value
set_option autoImplicit false
namespace Slac.Generated.Semantics
variable {N : Type}

/-- `impl Neg for Value` (src/value.rs) -/
def valueNeg [NumOps N] : Value N → Except Err (Value N)
  | .num a => .ok (.num (NumOps.neg a))
  | _ => .error (.invalidUnary .minus)
/-- `impl Add for Value` (src/value.rs) -/
def valueAdd [NumOps N] : Value N → Value N → Except Err (Value N)
  | .str a, .str b => .ok (.str (a ++ b))
  | .num a, .num b => .ok (.num (NumOps.add a b))
  | .arr a, .arr b => .ok (.arr (a ++ b))
  | _, _ => .error (.invalidBinary .plus)
/-- `impl Sub for Value` (src/value.rs) -/
def valueSub [NumOps N] : Value N → Value N → Except Err (Value N)
  | .num a, .num b => .ok (.num (NumOps.sub a b))
  | _, _ => .error (.invalidBinary .minus)
/-- `impl Mul for Value` (src/value.rs) -/
def valueMul [NumOps N] : Value N → Value N → Except Err (Value N)
  | .num a, .num b => .ok (.num (NumOps.mul a b))
  | _, _ => .error (.invalidBinary .multiply)
/-- `impl Div for Value` (src/value.rs) -/
def valueDiv [NumOps N] : Value N → Value N → Except Err (Value N)
  | .num a, .num b => .ok (.num (NumOps.div a b))
  | _, _ => .error (.invalidBinary .divide)
/-- `impl Rem for Value` (src/value.rs) -/
def valueRem [NumOps N] : Value N → Value N → Except Err (Value N)
  | .num a, .num b => .ok (.num (NumOps.rem a b))
  | _, _ => .error (.invalidBinary .mod)
/-- `impl BitXor for Value` (src/value.rs) -/
def valueXor [NumOps N] : Value N → Value N → Except Err (Value N)
  | .bool a, .bool b => .ok (.bool (a != b))
  | _, _ => .error (.invalidBinary .xor)
/-- `Value::div_int` (src/value.rs) -/
def valueDivInt [NumOps N] : Value N → Value N → Except Err (Value N)
  | .num a, .num b => .ok (.num (NumOps.trunc (NumOps.div a b)))
  | _, _ => .error (.invalidBinary .div)
/-- `impl Not for Value`: `Ok(Value::Boolean(!self.as_bool()))` -/
def valueNot [NumOps N] (v : Value N) : Except Err (Value N) := .ok (.bool (!Value.asBool v))
/-- `Value::ordinal` -/
def valueOrdinal : Value N → Nat
  | .bool _ => 0
  | .str _ => 1
  | .num _ => 2
  | .arr _ => 3
/-- `Value::empty` -/
def valueEmpty [NumOps N] : Value N → Value N
  | .bool _ => .bool false
  | .str _ => .str []
  | .num _ => .num NumOps.zero
  | .arr _ => .arr []
/-- the `match operator` of `TreeWalkingInterpreter::unary`, entered only after the operand evaluated to a value `v` -/
def unaryDispatch [NumOps N] (op : Op) (v : Value N) : Except Err (Value N) :=
  match op with
  | .minus => valueNeg v
  | .not => valueNot v
  | op => .error (.invalidUnary op)
/-- the arms `(Operator::X, Ok(right)) => …` of the inner match of `TreeWalkingInterpreter::binary`: both operands are values -/
def strictDispatch [NumOps N] (op : Op) (l r : Value N) : Except Err (Value N) :=
  match op with
  | .plus => valueAdd l r
  | .minus => valueSub l r
  | .multiply => valueMul l r
  | .divide => valueDiv l r
  | .div => valueDivInt l r
  | .mod => valueRem l r
  | .xor => valueXor l r
  | .greater => .ok (.bool (Value.gt l r))
  | .greaterEqual => .ok (.bool (Value.ge l r))
  | .less => .ok (.bool (Value.lt l r))
  | .lessEqual => .ok (.bool (Value.le l r))
  | .equal => .ok (.bool (Value.eq l r))
  | .notEqual => .ok (.bool (!Value.eq l r))
  | op => .error (.invalidBinary op)
/-- the arms `(Operator::X, Err(UndefinedVariable))` of the inner match: left is a value, right is undefined -/
def undefinedRight [NumOps N] (op : Op) (l : Value N) : Option (Except Err (Value N)) :=
  match op with
  | .equal => some (.ok (.bool (Value.isEmpty l)))
  | .notEqual => some (.ok (.bool (!Value.isEmpty l)))
  | _ => none
/-- what an arm of the OUTER `match (operator, left)` of `binary` does -/
inductive Outer (N : Type) | boolean (full : Bool) | booleanOn (full : Bool) (v : Value N) | const (b : Bool) | strict | undefLeft (negate bothUndefined : Bool) | propagate
/-- the outer match, arm by arm in source order; second argument: 0 = left is a value, 1 = left is undefined, 2 = left is another error -/
def outerDispatch : Op → Nat → Outer N
  | .and, 0 => .boolean true
  | .and, 1 => .const false
  | .or, 0 => .boolean false
  | .or, 1 => .booleanOn false (.bool false)
  | _, 0 => .strict
  | .equal, 1 => .undefLeft false true
  | .notEqual, 1 => .undefLeft true false
  | _, _ => .propagate
/-- `boolean::<FULL_EVAL>` has the recognised body: evaluate the right operand iff `left.as_bool() == FULL_EVAL`; a value gives its
    `as_bool`, an undefined variable gives `false`, another error propagates; otherwise the result is `left.as_bool()` -/
def booleanBodyRecognised : Bool := true
/-- the only operator `TreeWalkingInterpreter::ternary` accepts -/
def ternaryOperator : Op := .ternaryCondition

end Slac.Generated.Semantics
