/-
  SlacModel.Generated.SrcScanner — GENERATED on every check run by /verif/tools/rs2lean_scanner.py from the CURRENT text of /repo/src/scanner.rs
  (`impl Scanner`).  Do not edit.  SlacProps/C02Scanner.lean proves that SlacModel/Scanner.lean is this function.
-/
import SlacModel.SrcScannerPrelude
import SlacModel.Scanner
set_option autoImplicit false
set_option linter.unusedVariables false
namespace Slac.Generated.SrcScanner
open Slac Slac.SrcScanner
variable {N : Type} [NumOps N]

/-- `Scanner::peek_ahead` -/
def peek_ahead (fuel : Nat) (cc : Scanner.CharClass) (src : Str) (offset : Nat) : SM N (Option Char) := do
  let c1 ← get_current
  pure (src[(c1 + offset)]?)

/-- `Scanner::peek` -/
def peek (fuel : Nat) (cc : Scanner.CharClass) (src : Str) : SM N (Option Char) := do
  peek_ahead fuel cc src 0

/-- `Scanner::advance` -/
def advance (fuel : Nat) (cc : Scanner.CharClass) (src : Str) : SM N (Unit) := do
  let c3 ← get_current
  set_current (c3 + 1)
  pure ()

def skip_whitespace_loop1_loop1 (fuel : Nat) (cc : Scanner.CharClass) (src : Str) : Nat → SM N (Unit)
  | 0 => outOfFuel
  | f+1 => do
    let t2 ← peek fuel cc src
    if ((t2 == some ' ') || (t2 == some '\r') || (t2 == some '\t') || (t2 == some '\n')) then
      (do
        advance fuel cc src
        skip_whitespace_loop1_loop1 fuel cc src f)
    else
      pure ()

/-- `Scanner::next_char` -/
def next_char (fuel : Nat) (cc : Scanner.CharClass) (src : Str) : SM N (Option Char) := do
  advance fuel cc src
  let c6 ← get_current
  let d7 ← usub c6 1
  pure src[d7]?

def skip_comments_loop1 (fuel : Nat) (cc : Scanner.CharClass) (src : Str) : Nat → SM N (Unit)
  | 0 => outOfFuel
  | f+1 => do
    let t8 ← next_char fuel cc src
    if (match t8 with | some c => (c != '\n') | none => false) then
      skip_comments_loop1 fuel cc src f
    else
      pure ()

def skip_comments_loop2 (fuel : Nat) (cc : Scanner.CharClass) (src : Str) : Nat → Int → SM N (Int)
  | 0, _ => outOfFuel
  | f+1, comment_depth => do
    if (decide (comment_depth > 0)) then
      (do
        let t9 ← next_char fuel cc src
        if (t9 == some '{') then
          (do
            let comment_depth := (comment_depth + 1)
            skip_comments_loop2 fuel cc src f comment_depth)
        else
          if (t9 == some '}') then
            (do
              let comment_depth := (comment_depth - 1)
              skip_comments_loop2 fuel cc src f comment_depth)
          else
            if (t9 == none) then
              pure comment_depth
            else
              skip_comments_loop2 fuel cc src f comment_depth)
    else
      pure comment_depth

/-- `Scanner::skip_comments` -/
def skip_comments (fuel : Nat) (cc : Scanner.CharClass) (src : Str) : SM N (Bool) := do
  let t4 ← peek_ahead fuel cc src 0
  let t5 ← peek_ahead fuel cc src 1
  if ((t4 == some '/') && (t5 == some '/')) then
    (do
      skip_comments_loop1 fuel cc src fuel
      pure true)
  else
    if (t4 == some '{') then
      (do
        advance fuel cc src
        let comment_depth := 1
        let comment_depth ← skip_comments_loop2 fuel cc src fuel comment_depth
        pure true)
    else
      pure false

def skip_whitespace_loop1 (fuel : Nat) (cc : Scanner.CharClass) (src : Str) : Nat → SM N (Unit)
  | 0 => outOfFuel
  | f+1 => do
    skip_whitespace_loop1_loop1 fuel cc src fuel
    let t10 ← skip_comments fuel cc src
    if (!t10) then
      pure ()
    else
      skip_whitespace_loop1 fuel cc src f

/-- `Scanner::skip_whitespace` -/
def skip_whitespace (fuel : Nat) (cc : Scanner.CharClass) (src : Str) : SM N (Unit) := do
  skip_whitespace_loop1 fuel cc src fuel
  pure ()

/-- `Scanner::is_at_end` -/
def is_at_end (fuel : Nat) (cc : Scanner.CharClass) (src : Str) : SM N (Bool) := do
  let c11 ← get_current
  pure (decide (c11 ≥ src.length))

/-- `Scanner::is_identifier_start` -/
def is_identifier_start (cc : Scanner.CharClass) (character : Char) : Bool := ((cc.isAlphabetic character) || (character == '_'))

/-- `Scanner::is_identifier` -/
def is_identifier (cc : Scanner.CharClass) (character : Char) : Bool := ((Scanner.CharClass.isAlphanumeric cc character) || (character == '_'))

def identifier_loop1 (fuel : Nat) (cc : Scanner.CharClass) (src : Str) : Nat → SM N (Unit)
  | 0 => outOfFuel
  | f+1 => do
    let t15 ← peek fuel cc src
    if (match t15 with | some x => is_identifier cc x | none => false) then
      (do
        advance fuel cc src
        identifier_loop1 fuel cc src f)
    else
      pure ()

/-- `Scanner::get_content` -/
def get_content (fuel : Nat) (cc : Scanner.CharClass) (src : Str) (trim_by : Nat) : SM N (Str) := do
  let s16 ← get_start
  let from_ := (s16 + trim_by)
  let c17 ← get_current
  let d18 ← usub c17 trim_by
  let to := d18
  pure (List.drop from_ (List.take to src))

/-- `Scanner::identifier` -/
def identifier (fuel : Nat) (cc : Scanner.CharClass) (src : Str) : SM N (Token N) := do
  identifier_loop1 fuel cc src fuel
  let ident ← get_content fuel cc src 0
  if ((cc.lowerStr ident) == ['t', 'r', 'u', 'e']) then
    pure (.literal (.bool true : Value N) : Token N)
  else
    if ((cc.lowerStr ident) == ['f', 'a', 'l', 's', 'e']) then
      pure (.literal (.bool false : Value N) : Token N)
    else
      if ((cc.lowerStr ident) == ['a', 'n', 'd']) then
        pure (.and : Token N)
      else
        if ((cc.lowerStr ident) == ['o', 'r']) then
          pure (.or : Token N)
        else
          if ((cc.lowerStr ident) == ['x', 'o', 'r']) then
            pure (.xor : Token N)
          else
            if ((cc.lowerStr ident) == ['n', 'o', 't']) then
              pure (.not : Token N)
            else
              if ((cc.lowerStr ident) == ['d', 'i', 'v']) then
                pure (.div : Token N)
              else
                if ((cc.lowerStr ident) == ['m', 'o', 'd']) then
                  pure (.mod : Token N)
                else
                  pure (.identifier ident : Token N)

def advance_numeric_loop1 (fuel : Nat) (cc : Scanner.CharClass) (src : Str) : Nat → SM N (Unit)
  | 0 => outOfFuel
  | f+1 => do
    let t20 ← peek fuel cc src
    match t20 with
    | some c =>
      (do
        if (cc.isNumeric c) then
          (do
            advance fuel cc src
            advance_numeric_loop1 fuel cc src f)
        else
          pure ())
    | _ =>
      pure ()

/-- `Scanner::advance_numeric` -/
def advance_numeric (fuel : Nat) (cc : Scanner.CharClass) (src : Str) : SM N (Unit) := do
  advance_numeric_loop1 fuel cc src fuel
  pure ()

/-- `Scanner::extract_number` -/
def extract_number (fuel : Nat) (cc : Scanner.CharClass) (src : Str) (content : Str) : SM N (N) := do
  okOr (NumOps.parse (N := N) content) (.invalidNumber : CErr N)

/-- `Scanner::number` -/
def number (fuel : Nat) (cc : Scanner.CharClass) (src : Str) : SM N (Token N) := do
  advance_numeric fuel cc src
  let t21 ← peek fuel cc src
  if (t21 == some '.') then
    (do
      advance fuel cc src
      let t22 ← peek fuel cc src
      match t22 with
      | some fractional =>
        (do
          if (cc.isNumeric fractional) then
            (do
              advance_numeric fuel cc src
              pure ())
          else
            pure ()
          pure ())
      | _ =>
        pure ()
      pure ())
  else
    pure ()
  let content ← get_content fuel cc src 0
  let number ← extract_number fuel cc src content
  pure (.literal (.num number : Value N) : Token N)

def string_loop1_loop1 (fuel : Nat) (cc : Scanner.CharClass) (src : Str) : Nat → SM N (Unit)
  | 0 => outOfFuel
  | f+1 => do
    let t23 ← peek fuel cc src
    if (match t23 with | some c => (c != '\'') | none => false) then
      (do
        advance fuel cc src
        string_loop1_loop1 fuel cc src f)
    else
      pure ()

def string_loop1 (fuel : Nat) (cc : Scanner.CharClass) (src : Str) : Nat → Bool → SM N (Bool)
  | 0, _ => outOfFuel
  | f+1, contains_single_quote => do
    string_loop1_loop1 fuel cc src fuel
    let t24 ← is_at_end fuel cc src
    if t24 then
      throwE (.unterminatedStringLiteral : CErr N)
    else
      (do
        advance fuel cc src
        let t25 ← peek fuel cc src
        if (t25 == some '\'') then
          (do
            let contains_single_quote := true
            advance fuel cc src
            string_loop1 fuel cc src f contains_single_quote)
        else
          pure contains_single_quote)

/-- `Scanner::string` -/
def string (fuel : Nat) (cc : Scanner.CharClass) (src : Str) : SM N (Token N) := do
  let contains_single_quote := false
  let contains_single_quote ← string_loop1 fuel cc src fuel contains_single_quote
  let content ← get_content fuel cc src 1
  if contains_single_quote then
    (do
      let content := (Scanner.replaceQQ content)
      pure (.literal (.str content : Value N) : Token N))
  else
    pure (.literal (.str content : Value N) : Token N)

/-- `Scanner::encounter_double` -/
def encounter_double (fuel : Nat) (cc : Scanner.CharClass) (src : Str) (token : Token N) : SM N (Token N) := do
  advance fuel cc src
  pure token

/-- `Scanner::greater` -/
def greater (fuel : Nat) (cc : Scanner.CharClass) (src : Str) : SM N (Token N) := do
  let t26 ← peek fuel cc src
  if (t26 == some '=') then
    encounter_double fuel cc src (.greaterEqual : Token N)
  else
    pure (.greater : Token N)

/-- `Scanner::lesser` -/
def lesser (fuel : Nat) (cc : Scanner.CharClass) (src : Str) : SM N (Token N) := do
  let t28 ← peek fuel cc src
  if (t28 == some '=') then
    encounter_double fuel cc src (.lessEqual : Token N)
  else
    if (t28 == some '>') then
      encounter_double fuel cc src (.notEqual : Token N)
    else
      pure (.less : Token N)

/-- `Scanner::next_token` -/
def next_token (fuel : Nat) (cc : Scanner.CharClass) (src : Str) : SM N (Token N) := do
  let c13 ← get_current
  set_start c13
  let next_ ← (do
      let t14 ← next_char fuel cc src
      okOr t14 (.eof : CErr N))
  if (is_identifier_start cc next_) then
    (do
      let t19 ← identifier fuel cc src
      pure t19)
  else
    (do
      if (cc.isNumeric next_) then
        number fuel cc src
      else
        (do
          if (next_ == '\'') then
            string fuel cc src
          else
            if (next_ == '.') then
              number fuel cc src
            else
              if (next_ == '(') then
                pure (.leftParen : Token N)
              else
                if (next_ == ')') then
                  pure (.rightParen : Token N)
                else
                  if (next_ == '[') then
                    pure (.leftBracket : Token N)
                  else
                    if (next_ == ']') then
                      pure (.rightBracket : Token N)
                    else
                      if (next_ == ',') then
                        pure (.comma : Token N)
                      else
                        if (next_ == '+') then
                          pure (.plus : Token N)
                        else
                          if (next_ == '-') then
                            pure (.minus : Token N)
                          else
                            if (next_ == '*') then
                              pure (.star : Token N)
                            else
                              if (next_ == '/') then
                                pure (.slash : Token N)
                              else
                                if (next_ == '=') then
                                  pure (.equal : Token N)
                                else
                                  if (next_ == '>') then
                                    (do
                                      let t27 ← greater fuel cc src
                                      pure t27)
                                  else
                                    if (next_ == '<') then
                                      (do
                                        let t29 ← lesser fuel cc src
                                        pure t29)
                                    else
                                      throwE (.invalidCharacter next_ : CErr N)))

def tokenize_body_loop1 (fuel : Nat) (cc : Scanner.CharClass) (src : Str) : Nat → List (Token N) → SM N (List (Token N))
  | 0, _ => outOfFuel
  | f+1, tokens => do
    let t12 ← is_at_end fuel cc src
    if (!t12) then
      (do
        let t30 ← next_token fuel cc src
        let tokens := tokens ++ [t30]
        skip_whitespace fuel cc src
        tokenize_body_loop1 fuel cc src f tokens)
    else
      pure tokens

/-- `Scanner::tokenize_body` -/
def tokenize_body (fuel : Nat) (cc : Scanner.CharClass) (src : Str) : SM N (List (Token N)) := do
  let tokens := []
  skip_whitespace fuel cc src
  let tokens ← tokenize_body_loop1 fuel cc src fuel tokens
  if (List.isEmpty tokens) then
    throwE (.eof : CErr N)
  else
    pure tokens

/-- `Scanner::tokenize`: the body above run on `Scanner { source, start: 0, current: 0, end: source.chars().count() }` -/
def tokenize (fuel : Nat) (cc : Scanner.CharClass) (src : Str) : COut N (List (Token N)) := run (tokenize_body (N := N) fuel cc src) ⟨0, 0⟩

end Slac.Generated.SrcScanner
