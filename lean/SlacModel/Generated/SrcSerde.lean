/-
  SlacModel.Generated.SrcSerde — GENERATED on every check run by /verif/tools/rs2lean_serde.py from the CURRENT text of /repo/src/ast.rs, operator.rs and value.rs
  (the serde derives and `impl Serialize for Value`).  Do not edit.  SlacProps/C12Source.lean proves SlacModel/Json.lean equal to these functions.
-/
import SlacModel.Json
set_option autoImplicit false
namespace Slac.Generated.SrcSerde
open Slac
variable {N : Type}

/-- `Operator` with `serde(rename_all = "camelCase")` -/
def opName : Op → Str
  | .plus => ['p', 'l', 'u', 's']
  | .minus => ['m', 'i', 'n', 'u', 's']
  | .multiply => ['m', 'u', 'l', 't', 'i', 'p', 'l', 'y']
  | .divide => ['d', 'i', 'v', 'i', 'd', 'e']
  | .greater => ['g', 'r', 'e', 'a', 't', 'e', 'r']
  | .greaterEqual => ['g', 'r', 'e', 'a', 't', 'e', 'r', 'E', 'q', 'u', 'a', 'l']
  | .less => ['l', 'e', 's', 's']
  | .lessEqual => ['l', 'e', 's', 's', 'E', 'q', 'u', 'a', 'l']
  | .equal => ['e', 'q', 'u', 'a', 'l']
  | .notEqual => ['n', 'o', 't', 'E', 'q', 'u', 'a', 'l']
  | .and => ['a', 'n', 'd']
  | .or => ['o', 'r']
  | .xor => ['x', 'o', 'r']
  | .not => ['n', 'o', 't']
  | .div => ['d', 'i', 'v']
  | .mod => ['m', 'o', 'd']
  | .ternaryCondition => ['t', 'e', 'r', 'n', 'a', 'r', 'y', 'C', 'o', 'n', 'd', 'i', 't', 'i', 'o', 'n']

/-- the variants of `Operator` in declaration order -/
def allOps : List Op := [.plus, .minus, .multiply, .divide, .greater, .greaterEqual, .less, .lessEqual, .equal, .notEqual, .and, .or, .xor, .not, .div, .mod, .ternaryCondition]

mutual
/-- `impl Serialize for Value` through serde_json -/
def ofValue (jn : JsonNum N) : Value N → Json N
  | .bool v => .bool v
  | .str v => .str v
  | .num v => if jn.isFinite v then .num v else .null
  | .arr v => .arr (ofValues jn v)
def ofValues (jn : JsonNum N) : List (Value N) → List (Json N)
  | [] => []
  | v :: vs => ofValue jn v :: ofValues jn vs
end

mutual
/-- `Expression` with `serde(tag = "type", rename_all = "camelCase")` -/
def ofExpr (jn : JsonNum N) : Expr N → Json N
  | .unary right operator => .obj [(['t', 'y', 'p', 'e'], .str ['u', 'n', 'a', 'r', 'y']), (['r', 'i', 'g', 'h', 't'], ofExpr jn right), (['o', 'p', 'e', 'r', 'a', 't', 'o', 'r'], .str (opName operator))]
  | .binary left right operator => .obj [(['t', 'y', 'p', 'e'], .str ['b', 'i', 'n', 'a', 'r', 'y']), (['l', 'e', 'f', 't'], ofExpr jn left), (['r', 'i', 'g', 'h', 't'], ofExpr jn right), (['o', 'p', 'e', 'r', 'a', 't', 'o', 'r'], .str (opName operator))]
  | .ternary left middle right operator => .obj [(['t', 'y', 'p', 'e'], .str ['t', 'e', 'r', 'n', 'a', 'r', 'y']), (['l', 'e', 'f', 't'], ofExpr jn left), (['m', 'i', 'd', 'd', 'l', 'e'], ofExpr jn middle), (['r', 'i', 'g', 'h', 't'], ofExpr jn right), (['o', 'p', 'e', 'r', 'a', 't', 'o', 'r'], .str (opName operator))]
  | .array expressions => .obj [(['t', 'y', 'p', 'e'], .str ['a', 'r', 'r', 'a', 'y']), (['e', 'x', 'p', 'r', 'e', 's', 's', 'i', 'o', 'n', 's'], .arr (ofExprs jn expressions))]
  | .lit value => .obj [(['t', 'y', 'p', 'e'], .str ['l', 'i', 't', 'e', 'r', 'a', 'l']), (['v', 'a', 'l', 'u', 'e'], ofValue jn value)]
  | .var name => .obj [(['t', 'y', 'p', 'e'], .str ['v', 'a', 'r', 'i', 'a', 'b', 'l', 'e']), (['n', 'a', 'm', 'e'], .str name)]
  | .call name params => .obj [(['t', 'y', 'p', 'e'], .str ['c', 'a', 'l', 'l']), (['n', 'a', 'm', 'e'], .str name), (['p', 'a', 'r', 'a', 'm', 's'], .arr (ofExprs jn params))]
def ofExprs (jn : JsonNum N) : List (Expr N) → List (Json N)
  | [] => []
  | e :: es => ofExpr jn e :: ofExprs jn es
end

mutual
/-- `impl Visitor for ValueVisitor` through `deserialize_any`: serde_json calls visit_bool / visit_str / visit_u64 or visit_i64 (integer tokens) / visit_f64 / visit_seq;
    a kind without a visit_ method (null, objects) is refused by the default method -/
def toValue (jn : JsonNum N) : Json N → Option (Value N)
  | .bool b => some (.bool b)
  | .str s => some (.str s)
  | .num x => some (.num x)
  | .int i => some (.num (jn.ofInt i))
  | .arr xs => (toValues jn xs).map .arr
  | .null => none
  | .obj _ => none
def toValues (jn : JsonNum N) : List (Json N) → Option (List (Value N))
  | [] => some []
  | j :: js => match toValue jn j with
    | some v => (toValues jn js).map (v :: ·)
    | none => none
end

end Slac.Generated.SrcSerde
