/-
  SlacModel.Generated.SrcTime — GENERATED on every check run by /verif/tools/rs2lean_stdlib.py from the CURRENT text of /repo/src/stdlib/time.rs
  (the number <-> NaiveDateTime conversions and the component builtins).  Do not edit.  SlacProps/C16Source.lean proves SlacModel/TimeCore.lean equal to these functions.
-/
import SlacModel.TimeCore
import SlacModel.Generated.SrcStdlib
set_option autoImplicit false
set_option linter.unusedVariables false
namespace Slac.Generated.SrcTime
open Slac Slac.Time
variable {N : Type} [NumX N]

/-- `impl TryFrom<&Value> for NaiveDateTime` (src/stdlib/time.rs) -/
def try_from (value : Value N) : Except NativeError DT :=
  match value with
  | .num value =>
      (let milliseconds := NumX.toI64 (NumX.round (NumOps.mul value dayLen))
       (match ofMillis milliseconds with | some v => .ok v | none => .error (.custom ['d', 'a', 't', 'e', 't', 'i', 'm', 'e', ' ', 'o', 'u', 't', ' ', 'o', 'f', ' ', 'r', 'a', 'n', 'g', 'e'])))
  | _ => .error .wrongParameterType

/-- `impl From<NaiveDateTime> for Value` (src/stdlib/time.rs) -/
def from_datetime (val : DT) : Value N :=
  let milliseconds := val.totalMs
  .num (NumOps.div (NumX.ofInt milliseconds) dayLen)

/-- `year` (src/stdlib/time.rs) -/
def year (params : List (Value N)) : Except NativeError (Value N) :=
  match params with
  | [value] =>
      ((try_from value) >>= fun datetime =>
       .ok (.num (NumX.ofInt datetime.year)))
  | _ => .error (.wrongParameterCount 1)

/-- `month` (src/stdlib/time.rs) -/
def month (params : List (Value N)) : Except NativeError (Value N) :=
  match params with
  | [value] =>
      ((try_from value) >>= fun datetime =>
       .ok (.num (NumX.ofNat datetime.month)))
  | _ => .error (.wrongParameterCount 1)

/-- `day` (src/stdlib/time.rs) -/
def day (params : List (Value N)) : Except NativeError (Value N) :=
  match params with
  | [value] =>
      ((try_from value) >>= fun datetime =>
       .ok (.num (NumX.ofNat datetime.day)))
  | _ => .error (.wrongParameterCount 1)

/-- `hour` (src/stdlib/time.rs) -/
def hour (params : List (Value N)) : Except NativeError (Value N) :=
  match params with
  | [value] =>
      ((try_from value) >>= fun datetime =>
       .ok (.num (NumX.ofNat datetime.hour)))
  | _ => .error (.wrongParameterCount 1)

/-- `minute` (src/stdlib/time.rs) -/
def minute (params : List (Value N)) : Except NativeError (Value N) :=
  match params with
  | [value] =>
      ((try_from value) >>= fun datetime =>
       .ok (.num (NumX.ofNat datetime.minute)))
  | _ => .error (.wrongParameterCount 1)

/-- `second` (src/stdlib/time.rs) -/
def second (params : List (Value N)) : Except NativeError (Value N) :=
  match params with
  | [value] =>
      ((try_from value) >>= fun datetime =>
       .ok (.num (NumX.ofNat datetime.second)))
  | _ => .error (.wrongParameterCount 1)

/-- `millisecond` (src/stdlib/time.rs) -/
def millisecond (params : List (Value N)) : Except NativeError (Value N) :=
  match params with
  | [value] =>
      ((try_from value) >>= fun datetime =>
       .ok (.num (NumX.ofNat ((datetime.milli * 1000000) / 1000000))))
  | _ => .error (.wrongParameterCount 1)

/-- `day_of_week` (src/stdlib/time.rs) -/
def day_of_week (params : List (Value N)) : Except NativeError (Value N) :=
  match params with
  | [value] =>
      ((try_from value) >>= fun datetime =>
       .ok (.num (NumX.ofNat (weekday datetime.days))))
  | _ => .error (.wrongParameterCount 1)

/-- `is_leap_year` (src/stdlib/time.rs) -/
def is_leap_year (params : List (Value N)) : Except NativeError (Value N) :=
  match params with
  | [value] =>
      ((Except.map (fun year => ((year % 4 == 0) && ((year % 100 != 0) || (year % 400 == 0)))) (Except.map (fun datetime => datetime.year) (try_from value))) >>= fun is_leap_year =>
       .ok (.bool is_leap_year))
  | _ => .error (.wrongParameterCount 1)

/-- `encode_date` (src/stdlib/time.rs) -/
def encode_date (params : List (Value N)) : Except NativeError (Value N) :=
  match params with
  | [.num year, .num month, .num day] => (match Option.map (fun t => (from_datetime t : Value N)) (Option.map (fun date => (⟨date, 0⟩ : DT)) ((if validDate (NumX.toI32 year) (NumX.toU32 month) (NumX.toU32 day) then some (daysFromCivil (NumX.toI32 year) (NumX.toU32 month) (NumX.toU32 day)) else none))) with | some v => .ok v | none => .error (.custom ['i', 'n', 'v', 'a', 'l', 'i', 'd', ' ', 'd', 'a', 't', 'e', ' ', 'p', 'a', 'r', 'a', 'm', 'e', 't', 'e', 'r', 's']))
  | [_, _, _] => .error .wrongParameterType
  | _ => .error (.wrongParameterCount 3)

/-- `encode_time` (src/stdlib/time.rs) -/
def encode_time (params : List (Value N)) : Except NativeError (Value N) :=
  (SrcStdlib.default_number params 3 (NumOps.zero : N)) >>= fun milli =>
  match params with
  | (.num hour) :: (.num min) :: (.num sec) :: _ =>
      (if List.all [hour, min, sec, milli] (fun v => NumX.ge0 v) then
         (match Option.map (fun t => (from_datetime t : Value N)) ((if validTime (NumX.toU32 hour) (NumX.toU32 min) (NumX.toU32 sec) (NumX.toU32 milli) then some (⟨0, ((NumX.toU32 hour) * 3600 + (NumX.toU32 min) * 60 + (NumX.toU32 sec)) * 1000 + (NumX.toU32 milli)⟩ : DT) else none)) with | some v => .ok v | none => .error (.custom ['i', 'n', 'v', 'a', 'l', 'i', 'd', ' ', 't', 'i', 'm', 'e', ' ', 'p', 'a', 'r', 'a', 'm', 'e', 't', 'e', 'r', 's']))
       else
         (match params with
          | (.num _) :: (.num _) :: (.num _) :: _ => .error (.custom ['i', 'n', 'v', 'a', 'l', 'i', 'd', ' ', 't', 'i', 'm', 'e', ' ', 'p', 'a', 'r', 'a', 'm', 'e', 't', 'e', 'r', 's'])
          | _ :: _ :: _ :: _ => .error .wrongParameterType
          | _ => .error (.wrongParameterCount 3)))
  | _ :: _ :: _ :: _ => .error .wrongParameterType
  | _ => .error (.wrongParameterCount 3)

/-- `inc_month` (src/stdlib/time.rs) -/
def inc_month (params : List (Value N)) : Except NativeError (Value N) :=
  (SrcStdlib.default_number params 1 (NumOps.ofBool true : N)) >>= fun increment =>
  match params with
  | value :: _ =>
      (((try_from value) >>= fun datetime => let delta := Int.natAbs (NumX.toI32 increment)
       if NumX.gt0 increment then (match addMonths datetime (((delta : Nat) : Int)) with | some v => .ok v | none => .error (.custom ['i', 'n', 'c', '_', 'm', 'o', 'n', 't', 'h', ' ', 'i', 'n', 'c', 'r', 'e', 'm', 'e', 'n', 't', ' ', 'o', 'v', 'e', 'r', 'f', 'l', 'o', 'w'])) else if NumX.lt0 increment then (match addMonths datetime (-((delta : Nat) : Int)) with | some v => .ok v | none => .error (.custom ['i', 'n', 'c', '_', 'm', 'o', 'n', 't', 'h', ' ', 'd', 'e', 'c', 'r', 'e', 'm', 'e', 'n', 't', ' ', 'u', 'n', 'd', 'e', 'r', 'f', 'l', 'o', 'w'])) else .ok datetime) >>= fun datetime =>
       .ok (from_datetime datetime : Value N))
  | _ => .error (.wrongParameterCount 1)

end Slac.Generated.SrcTime
