/-
  SlacModel.Generated.SrcValidate — GENERATED on every check run by /verif/tools/rs2lean.py from the CURRENT text of
  /repo/src/validate.rs.  Do not edit.
  SlacProps/C10Source.lean and C11Source.lean prove that `checkVF` / `checkBool` of SlacModel/Validate.lean are these functions.
-/
import SlacModel.Validate
set_option autoImplicit false
set_option linter.unusedVariables false
namespace Slac.Generated.SrcValidate
variable {N : Type} [NumOps N]

mutual
def check_variables_and_functions (env : Env N) (expression : Expr N) : Except VErr Unit :=
  match expression with
  | .unary right _ => check_variables_and_functions env right
  | .binary left right _ => (check_variables_and_functions env left) >>= fun () => check_variables_and_functions env right
  | .ternary left middle right _ => ((check_variables_and_functions env left) >>= fun () => check_variables_and_functions env middle) >>= fun () => check_variables_and_functions env right
  | .array values => check_expressions env values
  | .var name => if env.varExists name then .ok () else .error (.missingVariable name)
  | .call name params =>
      (let param_count := params.length
       match env.fnExists name param_count with
       | .exist _ => check_expressions env params
       | .notFound => .error (.missingFunction name)
       | .wrongArity min max => .error (.paramCountMismatch name param_count min max))
  | .lit _ => .ok ()
def check_expressions (env : Env N) (expressions : List (Expr N)) : Except VErr Unit :=
  check_expressions_each env expressions
def check_expressions_each (env : Env N) : List (Expr N) → Except VErr Unit
  | [] => .ok ()
  | expression :: rest => (check_variables_and_functions env expression) >>= fun () => check_expressions_each env rest
end

def check_boolean_result (ast : Expr N) : Except VErr Unit :=
  match ast with
  | .unary _ operator =>
      (match operator with
       | .not => .ok ()
       | _ => .error (.invalidUnaryOperator operator))
  | .binary _ _ operator =>
      (match operator with
       | .greater => .ok ()
       | .greaterEqual => .ok ()
       | .less => .ok ()
       | .lessEqual => .ok ()
       | .equal => .ok ()
       | .notEqual => .ok ()
       | .and => .ok ()
       | .or => .ok ()
       | .xor => .ok ()
       | _ => .error (.invalidBinaryOperator operator))
  | .ternary left middle right operator =>
      (match operator with
       | .ternaryCondition => ((check_boolean_result left) >>= fun () => check_boolean_result middle) >>= fun () => check_boolean_result right
       | _ => .error (.invalidTernaryOperator operator))
  | .array _ => .error .literalNotBoolean
  | .lit value =>
      (match value with
       | .bool _ => .ok ()
       | _ => .error .literalNotBoolean)
  | .var _ => .ok ()
  | .call _ _ => .ok ()

end Slac.Generated.SrcValidate
