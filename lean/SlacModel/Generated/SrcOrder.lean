/-
  SlacModel.Generated.SrcOrder — GENERATED on every check run by /verif/tools/rs2lean.py from the CURRENT text of
  /repo/src/value.rs (`Ord::cmp`, `PartialEq::eq`, `ordinal`, `empty`, `is_empty`, `as_bool`).  Do not edit.
  SlacProps/C13Source.lean proves that `Value.cmp` / `Value.eq` / `Value.isEmpty` / `Value.asBool` of SlacModel/Value.lean are these functions.
-/
import SlacModel.Value
set_option autoImplicit false
set_option linter.unusedVariables false
namespace Slac.Generated.SrcOrder
variable {N : Type} [NumOps N]

def ordinal (self : Value N) : Nat :=
  match self with
  | .bool _ => 0
  | .str _ => 1
  | .num _ => 2
  | .arr _ => 3

mutual
def cmp (self : Value N) (other : Value N) : Ordering :=
  let partial_ord :=
      (match self, other with
       | .bool left, .bool right => some (cmpBool left right)
       | .str left, .str right => some (cmpStr left right)
       | .num left, .num right => NumOps.pcmp left right
       | .arr left, .arr right => some (cmpList left right)
       | .str left, .num right => (NumOps.parse (N := N) left) >>= fun left_num => NumOps.pcmp left_num right
       | .num left, .str right => (NumOps.parse (N := N) right) >>= fun right_num => NumOps.pcmp left right_num
       | _, _ => none)
  Option.getD partial_ord (cmpNat (ordinal self) (ordinal other))
/-- `<[Value] as PartialOrd>::partial_cmp` (Rust std: lexicographic by the elements' `partial_cmp`, then by length); the elements' `partial_cmp` is
    `Some(self.cmp(other))` (checked above), so the result is never `None` -/
def cmpList : List (Value N) → List (Value N) → Ordering
  | [], [] => .eq
  | [], _ :: _ => .lt
  | _ :: _, [] => .gt
  | a :: as, b :: bs => match cmp a b with
    | .eq => cmpList as bs
    | o => o
end

mutual
def eq (self : Value N) (other : Value N) : Bool :=
  match self, other with
  | .bool l0, .bool r0 => (l0 == r0)
  | .str l0, .str r0 => (l0 == r0)
  | .num l0, .num r0 => (NumOps.beq l0 r0)
  | .arr l0, .arr r0 => (eqList l0 r0)
  | .bool left, .num right => (NumOps.beq (NumOps.ofBool left) right)
  | .num left, .bool right => (NumOps.beq left (NumOps.ofBool right))
  | _, _ => ((cmp self other) == .eq)
/-- `<[Value] as PartialEq>::eq` (Rust std: same length and element-wise `==`) -/
def eqList : List (Value N) → List (Value N) → Bool
  | [], [] => true
  | a :: as, b :: bs => eq a b && eqList as bs
  | _, _ => false
end

def empty (self : Value N) : Value N :=
  match self with
  | .bool _ => .bool false
  | .str _ => .str ([] : Str)
  | .num _ => .num NumOps.zero
  | .arr _ => .arr []

def is_empty (self : Value N) : Bool :=
  (eq self (empty self))

def as_bool (self : Value N) : Bool :=
  match self with
  | .bool v => v
  | value => !(is_empty value)

end Slac.Generated.SrcOrder
