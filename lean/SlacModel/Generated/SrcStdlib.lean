/-
  SlacModel.Generated.SrcStdlib — GENERATED on every check run by /verif/tools/rs2lean_stdlib.py from the CURRENT text of /repo/src/stdlib/mod.rs and
  common.rs.  Do not edit.  SlacProps/C09Source.lean proves the builtin models of SlacModel/Stdlib.lean and StdOrder.lean equal to these functions.
-/
import SlacModel.Stdlib
import SlacModel.StdOrder
set_option autoImplicit false
namespace Slac.Generated.SrcStdlib
open Slac
variable {N : Type} [NumX N]

/-- `Value::len` (src/value.rs) -/
def value_len (self : Value N) : Nat :=
  match self with
  | .str v => v.length
  | .arr v => v.length
  | _ => 0

/-- `get_index` (src/stdlib/mod.rs) -/
def get_index (index : N) : Except NativeError Nat :=
  if NumX.ge0 index then .ok (NumX.toUsize index) else .error .indexNegative

/-- `get_string_index` (src/stdlib/mod.rs) -/
def get_string_index (off : Nat) (index : N) : Except NativeError Nat :=
  (get_index index) >>= fun index => (match (if off ≤ index then some (index - off) else none) with | some v => .ok v | none => .error (.indexOutOfBounds index))

/-- `default_string` (src/stdlib/mod.rs) -/
def default_string (params : List (Value N)) (index : Nat) (default : Str) : Except NativeError Str :=
  match params[index]? with
  | some (.str value) => .ok value
  | some _ => .error .wrongParameterType
  | _ => .ok default

/-- `default_number` (src/stdlib/mod.rs) -/
def default_number (params : List (Value N)) (index : Nat) (default : N) : Except NativeError N :=
  match params[index]? with
  | some (.num value) => .ok value
  | some _ => .error .wrongParameterType
  | _ => .ok default

/-- `smart_vec` (src/stdlib/mod.rs) -/
def smart_vec (params : List (Value N)) : List (Value N) :=
  match params with
  | [.arr v] =>
      (if (params.length == 1) then
         v
       else
         (match params with
          | _ => params))
  | _ => params

/-- `at` (src/stdlib/common.rs) -/
def at_ (off : Nat) (params : List (Value N)) : Except NativeError (Value N) :=
  match params with
  | [.str values, .num index] =>
      ((get_string_index off index) >>= fun index =>
       match values[index]? with
       | some char => .ok (.str [char])
       | none => .error (.indexOutOfBounds index))
  | [.arr values, .num index] =>
      ((get_index index) >>= fun index =>
       match values[index]? with
       | some value => .ok value
       | none => .error (.indexOutOfBounds index))
  | [_, _] => .error .wrongParameterType
  | _ => .error (.wrongParameterCount 2)

/-- `between` (src/stdlib/common.rs) -/
def between (params : List (Value N)) : Except NativeError (Value N) :=
  match params with
  | [value, lower, upper] => .ok (.bool (((Value.ge value lower) && (Value.le value upper))))
  | _ => .error (.wrongParameterCount 3)

/-- `bool` (src/stdlib/common.rs) -/
def bool (params : List (Value N)) : Except NativeError (Value N) :=
  match params with
  | [value] => .ok (.bool (Value.asBool value))
  | _ => .error (.wrongParameterCount 1)

/-- `compare` (src/stdlib/common.rs) -/
def compare (params : List (Value N)) : Except NativeError (Value N) :=
  match params with
  | [left, right] => .ok (.num (StdOrder.ordCode (Value.cmp left right)))
  | _ => .error (.wrongParameterCount 2)

/-- `empty` (src/stdlib/common.rs) -/
def empty (params : List (Value N)) : Except NativeError (Value N) :=
  match params with
  | [value] => .ok (.bool (Value.isEmpty value))
  | _ => .error (.wrongParameterCount 1)

/-- `if_then` (src/stdlib/common.rs) -/
def if_then (params : List (Value N)) : Except NativeError (Value N) :=
  match params with
  | (.bool condition) :: first :: _ => if condition then .ok first else .ok (Option.getD (params[2]?) (Value.empty first))
  | [_, _] => .error .wrongParameterType
  | _ => .error (.wrongParameterCount 2)

/-- `length` (src/stdlib/common.rs) -/
def length (params : List (Value N)) : Except NativeError (Value N) :=
  match params with
  | [value] => .ok (.num (NumX.ofNat (value_len value)))
  | _ => .error (.wrongParameterCount 1)

/-- `all` (src/stdlib/common.rs) -/
def all (params : List (Value N)) : Except NativeError (Value N) :=
  let values := smart_vec params
  let result := List.all values (fun v => (Value.eq v (.bool true)))
  .ok (.bool result)

/-- `any` (src/stdlib/common.rs) -/
def any (params : List (Value N)) : Except NativeError (Value N) :=
  let values := smart_vec params
  let result := List.any values (fun v => (Value.eq v (.bool true)))
  .ok (.bool result)

/-- `max` (src/stdlib/common.rs) -/
def max (params : List (Value N)) : Except NativeError (Value N) :=
  if List.isEmpty params then .error (.wrongParameterCount 1) else (match StdOrder.maxV (smart_vec params) with | some v => .ok v | none => .error (.custom ['a', 'n', ' ', 'e', 'm', 'p', 't', 'y', ' ', 'a', 'r', 'r', 'a', 'y', ' ', 'h', 'a', 's', ' ', 'n', 'o', ' ', 'm', 'a', 'x', 'i', 'm', 'u', 'm']))

/-- `min` (src/stdlib/common.rs) -/
def min (params : List (Value N)) : Except NativeError (Value N) :=
  if List.isEmpty params then .error (.wrongParameterCount 1) else (match StdOrder.minV (smart_vec params) with | some v => .ok v | none => .error (.custom ['a', 'n', ' ', 'e', 'm', 'p', 't', 'y', ' ', 'a', 'r', 'r', 'a', 'y', ' ', 'h', 'a', 's', ' ', 'n', 'o', ' ', 'm', 'i', 'n', 'i', 'm', 'u', 'm']))

/-- `reverse` (src/stdlib/common.rs) -/
def reverse (params : List (Value N)) : Except NativeError (Value N) :=
  match params with
  | [.arr values] => .ok (.arr (List.reverse values))
  | [.str value] => .ok (.str (List.reverse value))
  | [_] => .error .wrongParameterType
  | _ => .error (.wrongParameterCount 1)

/-- `float` (src/stdlib/common.rs) -/
def float (params : List (Value N)) : Except NativeError (Value N) :=
  match params with
  | [.bool v] => .ok (.num (NumOps.ofBool v))
  | [.str v] =>
      (((match NumOps.parse (N := N) v with | some x => .ok x | none => .error (Stdlib.parseFloatError v))) >>= fun float =>
       .ok (.num float))
  | [.num v] => .ok (.num v)
  | [_] => .error .wrongParameterType
  | _ => .error (.wrongParameterCount 1)

/-- `int` (src/stdlib/common.rs) -/
def int (params : List (Value N)) : Except NativeError (Value N) :=
  (float params) >>= fun r1 =>
  match r1 with
  | .num value => .ok (.num (NumOps.trunc value))
  | _ => .error .wrongParameterType

/-- `copy` (src/stdlib/common.rs) -/
def copy (off : Nat) (params : List (Value N)) : Except NativeError (Value N) :=
  match params with
  | [.str source, .num start, .num count] =>
      ((get_string_index off start) >>= fun q2 =>
       .ok (.str (List.take (NumX.floorUsize count) (List.drop q2 source))))
  | [.arr source, .num start, .num count] =>
      ((get_index start) >>= fun q3 =>
       .ok (.arr (List.take (NumX.floorUsize count) (List.drop q3 source))))
  | [_, _, _] => .error .wrongParameterType
  | _ => .error (.wrongParameterCount 3)

/-- `count` (src/stdlib/common.rs) -/
def count (params : List (Value N)) : Except NativeError (Value N) :=
  match params with
  | [.arr haystack, needle] =>
      (let count := (List.filter (fun v => (Value.eq v needle)) haystack).length
       .ok (.num (NumX.ofNat count)))
  | [.str haystack, .str needle] =>
      (let count := Seq.countOcc needle haystack
       .ok (.num (NumX.ofNat count)))
  | [_, _] => .error .wrongParameterType
  | _ => .error (.wrongParameterCount 2)

/-- `find` (src/stdlib/common.rs) -/
def find (off : Nat) (params : List (Value N)) : Except NativeError (Value N) :=
  match params with
  | [.str haystack, .str needle] => .ok ((match Seq.findSeq needle haystack with | some index => .num (NumOps.add (NumX.ofNat index) (NumX.ofNat off)) | none => .num (NumOps.add (NumX.ofInt (-1)) (NumX.ofNat off))))
  | [.arr haystack, needle] => .ok ((match Stdlib.findIdx? (fun v => (Value.eq v needle)) haystack with | some index => .num (NumX.ofNat index) | none => .num (NumX.ofInt (-1))))
  | [_, _] => .error .wrongParameterType
  | _ => .error (.wrongParameterCount 2)

/-- `replace` (src/stdlib/common.rs) -/
def replace (params : List (Value N)) : Except NativeError (Value N) :=
  match params with
  | (.str value) :: (.str from_) :: _ =>
      ((default_string params 2 ([] : Str)) >>= fun to_ =>
       .ok (.str (Seq.replaceSeq from_ to_ value)))
  | (.arr values) :: from_ :: _ =>
      (let to_ := params[2]?
       .ok (.arr (List.filterMap (fun value => if (Value.eq value from_) then to_ else some value) values)))
  | _ :: _ :: _ => .error .wrongParameterType
  | _ => .error (.wrongParameterCount 3)

/-- `contains` (src/stdlib/common.rs) -/
def contains (params : List (Value N)) : Except NativeError (Value N) :=
  match params with
  | [.str haystack, .str needle] =>
      (let found := Seq.containsSeq needle haystack
       .ok (.bool found))
  | [.arr haystack, needle] =>
      (let found := List.any haystack (fun v => (Value.eq v needle))
       .ok (.bool found))
  | [_, _] => .error .wrongParameterType
  | _ => .error (.wrongParameterCount 2)

/-- `insert` (src/stdlib/common.rs) -/
def insert (off : Nat) (params : List (Value N)) : Except NativeError (Value N) :=
  match params with
  | [.str target, .str source, .num index] =>
      ((get_string_index off index) >>= fun index =>
       if decide (index > target.length) then
         .error (.indexOutOfBounds index)
       else
         (let before := List.take index target
          let after := List.drop index target
          .ok (.str ((before ++ source) ++ after))))
  | [.arr values, element, .num index] =>
      ((get_index index) >>= fun index =>
       if decide (index > values.length) then
         .error (.indexOutOfBounds index)
       else
         (let values := values
          let values := Stdlib.insertAt values index element
          .ok (.arr values)))
  | [_, _, _] => .error .wrongParameterType
  | _ => .error (.wrongParameterCount 3)

/-- `unique` (src/stdlib/common.rs) -/
def unique (params : List (Value N)) : Except NativeError (Value N) :=
  match params with
  | [.arr values] =>
      (let result := []
       let result := List.foldl (fun result value => if !(List.any result (fun r => Value.eq r value)) then result ++ [value] else result) result values
       .ok (.arr result))
  | [_] => .error .wrongParameterType
  | _ => .error (.wrongParameterCount 1)

/-- `sort` (src/stdlib/common.rs) -/
def sort (params : List (Value N)) : Except NativeError (Value N) :=
  match params with
  | [.arr values] =>
      (let sorted := values
       let sorted := StdOrder.sortBy sorted
       .ok (.arr sorted))
  | [_] => .error .wrongParameterType
  | _ => .error (.wrongParameterCount 1)

/-- `is_even` (src/stdlib/math.rs) -/
def is_even (value : N) : Bool :=
  (NumOps.beq (NumOps.rem (NumX.floor value) (NumX.ofNat 2)) (NumOps.zero : N))

/-- `even` (src/stdlib/math.rs) -/
def even (params : List (Value N)) : Except NativeError (Value N) :=
  match params with
  | [.num value] => .ok (.bool (is_even value))
  | [_] => .error .wrongParameterType
  | _ => .error (.wrongParameterCount 1)

/-- `odd` (src/stdlib/math.rs) -/
def odd (params : List (Value N)) : Except NativeError (Value N) :=
  match params with
  | [.num value] => .ok (.bool (!(is_even value)))
  | [_] => .error .wrongParameterType
  | _ => .error (.wrongParameterCount 1)

/-- `pow` (src/stdlib/math.rs) -/
def pow (params : List (Value N)) : Except NativeError (Value N) :=
  (default_number params 1 (NumX.ofNat 2)) >>= fun exponent =>
  match params with
  | (.num base) :: _ => .ok (.num (NumX.pow base exponent))
  | _ :: _ => .error .wrongParameterType
  | _ => .error (.wrongParameterCount 1)

/-- `int_to_hex` (src/stdlib/math.rs) -/
def int_to_hex (params : List (Value N)) : Except NativeError (Value N) :=
  match params with
  | [.num value] => .ok (.str (Stdlib.hexUpperI64 (NumX.toI64 (NumOps.trunc value))))
  | [_] => .error .wrongParameterType
  | _ => .error (.wrongParameterCount 1)

/-- `abs` (src/stdlib/math.rs, generated by `generate_std_math_functions!(abs abs)`) -/
def abs (params : List (Value N)) : Except NativeError (Value N) :=
  match params with
  | [.num value] => .ok (.num (NumX.abs value))
  | [_] => .error .wrongParameterType
  | _ => .error (.wrongParameterCount 1)

/-- `arc_tan` (src/stdlib/math.rs, generated by `generate_std_math_functions!(arc_tan atan)`) -/
def arc_tan (params : List (Value N)) : Except NativeError (Value N) :=
  match params with
  | [.num value] => .ok (.num (NumX.atan value))
  | [_] => .error .wrongParameterType
  | _ => .error (.wrongParameterCount 1)

/-- `cos` (src/stdlib/math.rs, generated by `generate_std_math_functions!(cos cos)`) -/
def cos (params : List (Value N)) : Except NativeError (Value N) :=
  match params with
  | [.num value] => .ok (.num (NumX.cos value))
  | [_] => .error .wrongParameterType
  | _ => .error (.wrongParameterCount 1)

/-- `exp` (src/stdlib/math.rs, generated by `generate_std_math_functions!(exp exp)`) -/
def exp (params : List (Value N)) : Except NativeError (Value N) :=
  match params with
  | [.num value] => .ok (.num (NumX.exp value))
  | [_] => .error .wrongParameterType
  | _ => .error (.wrongParameterCount 1)

/-- `frac` (src/stdlib/math.rs, generated by `generate_std_math_functions!(frac fract)`) -/
def frac (params : List (Value N)) : Except NativeError (Value N) :=
  match params with
  | [.num value] => .ok (.num (NumX.fract value))
  | [_] => .error .wrongParameterType
  | _ => .error (.wrongParameterCount 1)

/-- `ln` (src/stdlib/math.rs, generated by `generate_std_math_functions!(ln ln)`) -/
def ln (params : List (Value N)) : Except NativeError (Value N) :=
  match params with
  | [.num value] => .ok (.num (NumX.ln value))
  | [_] => .error .wrongParameterType
  | _ => .error (.wrongParameterCount 1)

/-- `round` (src/stdlib/math.rs, generated by `generate_std_math_functions!(round round)`) -/
def round (params : List (Value N)) : Except NativeError (Value N) :=
  match params with
  | [.num value] => .ok (.num (NumX.round value))
  | [_] => .error .wrongParameterType
  | _ => .error (.wrongParameterCount 1)

/-- `sin` (src/stdlib/math.rs, generated by `generate_std_math_functions!(sin sin)`) -/
def sin (params : List (Value N)) : Except NativeError (Value N) :=
  match params with
  | [.num value] => .ok (.num (NumX.sin value))
  | [_] => .error .wrongParameterType
  | _ => .error (.wrongParameterCount 1)

/-- `sqrt` (src/stdlib/math.rs, generated by `generate_std_math_functions!(sqrt sqrt)`) -/
def sqrt (params : List (Value N)) : Except NativeError (Value N) :=
  match params with
  | [.num value] => .ok (.num (NumX.sqrt value))
  | [_] => .error .wrongParameterType
  | _ => .error (.wrongParameterCount 1)

/-- `trunc` (src/stdlib/math.rs, generated by `generate_std_math_functions!(trunc trunc)`) -/
def trunc (params : List (Value N)) : Except NativeError (Value N) :=
  match params with
  | [.num value] => .ok (.num (NumOps.trunc value))
  | [_] => .error .wrongParameterType
  | _ => .error (.wrongParameterCount 1)

/-- `chr` (src/stdlib/string.rs) -/
def chr (params : List (Value N)) : Except NativeError (Value N) :=
  match params with
  | [.num ordinal] =>
      (if NumX.inAscii ordinal then
         .ok (.str [Char.ofNat (NumX.toU32 ordinal)])
       else
         (match params with
          | [.num _] => .error (.custom ['n', 'u', 'm', 'b', 'e', 'r', ' ', 'i', 's', ' ', 'o', 'u', 't', ' ', 'o', 'f', ' ', 'A', 'S', 'C', 'I', 'I', ' ', 'r', 'a', 'n', 'g', 'e'])
          | [_] => .error .wrongParameterType
          | _ => .error (.wrongParameterCount 1)))
  | [_] => .error .wrongParameterType
  | _ => .error (.wrongParameterCount 1)

/-- `ord` (src/stdlib/string.rs) -/
def ord (params : List (Value N)) : Except NativeError (Value N) :=
  match params with
  | [.str char] =>
      (if (char.length == 1) then
         if List.all char (fun c => decide (c.toNat < 128)) then .ok (.num (NumX.ofNat ((((List.head? char).getD (Char.ofNat 0)).toNat % 256)))) else .error (.custom ['c', 'h', 'a', 'r', 'a', 'c', 't', 'e', 'r', ' ', 'i', 's', ' ', 'o', 'u', 't', ' ', 'o', 'f', ' ', 'A', 'S', 'C', 'I', 'I', ' ', 'r', 'a', 'n', 'g', 'e'])
       else
         (match params with
          | [.str _] => .error (.custom ['s', 't', 'r', 'i', 'n', 'g', ' ', 'i', 's', ' ', 't', 'o', 'o', ' ', 'l', 'o', 'n', 'g'])
          | [_] => .error .wrongParameterType
          | _ => .error (.wrongParameterCount 1)))
  | [_] => .error .wrongParameterType
  | _ => .error (.wrongParameterCount 1)

/-- `split` (src/stdlib/string.rs) -/
def split (params : List (Value N)) : Except NativeError (Value N) :=
  match params with
  | [.str line, .str separator] =>
      (let values := List.map Value.str (Seq.splitOn separator line)
       .ok (.arr values))
  | [_, _] => .error .wrongParameterType
  | _ => .error (.wrongParameterCount 1)

/-- `lowercase` (src/stdlib/string.rs) -/
def lowercase (cm : Stdlib.CaseMap) (params : List (Value N)) : Except NativeError (Value N) :=
  match params with
  | [.str text] => .ok (.str (cm.lower text))
  | [_] => .error .wrongParameterType
  | _ => .error (.wrongParameterCount 1)

/-- `uppercase` (src/stdlib/string.rs) -/
def uppercase (cm : Stdlib.CaseMap) (params : List (Value N)) : Except NativeError (Value N) :=
  match params with
  | [.str text] => .ok (.str (cm.upper text))
  | [_] => .error .wrongParameterType
  | _ => .error (.wrongParameterCount 1)

/-- `same_text` (src/stdlib/string.rs) -/
def same_text (cm : Stdlib.CaseMap) (params : List (Value N)) : Except NativeError (Value N) :=
  match params with
  | [.str left, .str right] => .ok (.bool (((cm.lower left) == (cm.lower right))))
  | [_, _] => .error .wrongParameterType
  | _ => .error (.wrongParameterCount 2)

/-- `trim` (src/stdlib/string.rs) -/
def trim (params : List (Value N)) : Except NativeError (Value N) :=
  match params with
  | [.str text] => .ok (.str (Slac.trimBoth text))
  | [_] => .error .wrongParameterType
  | _ => .error (.wrongParameterCount 1)

/-- `trim_left` (src/stdlib/string.rs) -/
def trim_left (params : List (Value N)) : Except NativeError (Value N) :=
  match params with
  | [.str text] => .ok (.str (Slac.trimLeft text))
  | [_] => .error .wrongParameterType
  | _ => .error (.wrongParameterCount 1)

/-- `trim_right` (src/stdlib/string.rs) -/
def trim_right (params : List (Value N)) : Except NativeError (Value N) :=
  match params with
  | [.str text] => .ok (.str (Slac.trimRight text))
  | [_] => .error .wrongParameterType
  | _ => .error (.wrongParameterCount 1)

end Slac.Generated.SrcStdlib
