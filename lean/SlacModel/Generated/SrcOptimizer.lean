/-
  SlacModel.Generated.SrcOptimizer — GENERATED on every check run by /verif/tools/rs2lean.py from the CURRENT text of
  /repo/src/optimizer.rs (and the constant TERNARY_IF_THEN of stdlib/common.rs).  Do not edit.
  SlacProps/C05Source.lean proves that `transform` / `fold` / `optimize` of SlacModel/Optimizer.lean are these functions.
-/
import SlacModel.Optimizer
set_option autoImplicit false
set_option linter.unusedVariables false
namespace Slac.Generated.SrcOptimizer
variable {N : Type} [NumOps N]

open Slac.Opt (OptRes)

/-- `TERNARY_IF_THEN` (src/stdlib/common.rs) -/
def TERNARY_IF_THEN : Str := ['i', 'f', '_', 't', 'h', 'e', 'n']

def expressions_are_const (expressions : List (Expr N)) : Bool :=
  List.all expressions (fun e => (match e with | .lit _ => true | _ => false))

mutual
def transform_ternary (expression : Expr N) (found_const : Bool) : Expr N × Bool :=
  match expression with
  | .unary right operator =>
      (match transform_ternary right found_const with
       | (right, found_const) => (.unary right operator, found_const))
  | .binary left right operator =>
      (match transform_ternary left found_const with
       | (left, found_const) =>
           (match transform_ternary right found_const with
            | (right, found_const) => (.binary left right operator, found_const)))
  | .ternary left middle right operator =>
      (match transform_ternary left found_const with
       | (left, found_const) =>
           (match transform_ternary middle found_const with
            | (middle, found_const) =>
                (match transform_ternary right found_const with
                 | (right, found_const) => (.ternary left middle right operator, found_const))))
  | .array expressions =>
      (match transform_ternary_each expressions found_const with
       | (expressions, found_const) => (.array expressions, found_const))
  | .call name params =>
      (if (name == TERNARY_IF_THEN) then
         (match params with
          | [left, middle, right] =>
              (let found_const := true
               let expression := .ternary left middle right .ternaryCondition
               (expression, found_const))
          | _ =>
              (match transform_ternary_each params found_const with
               | (params, found_const) => (.call name params, found_const)))
       else
         (match transform_ternary_each params found_const with
          | (params, found_const) => (.call name params, found_const)))
  | _ => (expression, found_const)
def transform_ternary_each : List (Expr N) → Bool → List (Expr N) × Bool
  | [], found_const => ([], found_const)
  | x :: rest, found_const =>
    match transform_ternary x found_const with
    | (x, found_const) =>
      match transform_ternary_each rest found_const with
      | (rest, found_const) => (x :: rest, found_const)
end

mutual
def fold_constants (env : Env N) (expression : Expr N) (found_const : Bool) : Expr N × Bool × Option Err :=
  match expression with
  | .unary right operator =>
      (match right with
       | .lit _ =>
           (let found_const := true
            match evalR env (.unary right operator) with
            | .error er => (.unary right operator, found_const, some er)
            | .ok v =>
                (let expression := .lit v
                 (expression, found_const, none)))
       | _ =>
           (match fold_constants env right found_const with
            | (right, found_const, some er) => (.unary right operator, found_const, some er)
            | (right, found_const, none) => (.unary right operator, found_const, none)))
  | .binary left right operator =>
      (match left, right with
       | .lit _, .lit _ =>
           (let found_const := true
            match evalR env (.binary left right operator) with
            | .error er => (.binary left right operator, found_const, some er)
            | .ok v =>
                (let expression := .lit v
                 (expression, found_const, none)))
       | _, _ =>
           (match fold_constants env left found_const with
            | (left, found_const, some er) => (.binary left right operator, found_const, some er)
            | (left, found_const, none) =>
                (match fold_constants env right found_const with
                 | (right, found_const, some er) => (.binary left right operator, found_const, some er)
                 | (right, found_const, none) => (.binary left right operator, found_const, none))))
  | .ternary left middle right operator =>
      (match left, operator with
       | .lit left, .ternaryCondition =>
           (let found_const := true
            if Value.asBool left then
              (let expression := middle
               (expression, found_const, none))
            else
              (let expression := right
               (expression, found_const, none)))
       | _, _ =>
           (match fold_constants env left found_const with
            | (left, found_const, some er) => (.ternary left middle right operator, found_const, some er)
            | (left, found_const, none) =>
                (match fold_constants env middle found_const with
                 | (middle, found_const, some er) => (.ternary left middle right operator, found_const, some er)
                 | (middle, found_const, none) =>
                     (match fold_constants env right found_const with
                      | (right, found_const, some er) => (.ternary left middle right operator, found_const, some er)
                      | (right, found_const, none) => (.ternary left middle right operator, found_const, none)))))
  | .array expressions =>
      (if expressions_are_const expressions then
         (let found_const := true
          match evalR env (.array expressions) with
          | .error er => (.array expressions, found_const, some er)
          | .ok v =>
              (let expression := .lit v
               (expression, found_const, none)))
       else
         (match fold_constants_each env expressions found_const with
          | (expressions, found_const, some er) => (.array expressions, found_const, some er)
          | (expressions, found_const, none) => (.array expressions, found_const, none)))
  | .call name params =>
      (if expressions_are_const params then
         (match env.fnExists name params.length with
          | .exist pure =>
              (if pure then
                 (let found_const := true
                  match evalR env (.call name params) with
                  | .error er => (.call name params, found_const, some er)
                  | .ok v =>
                      (let expression := .lit v
                       (expression, found_const, none)))
               else
                 (.call name params, found_const, none))
          | _ => (.call name params, found_const, none))
       else
         (match fold_constants_each env params found_const with
          | (params, found_const, some er) => (.call name params, found_const, some er)
          | (params, found_const, none) => (.call name params, found_const, none)))
  | _ => (expression, found_const, none)
def fold_constants_each (env : Env N) : List (Expr N) → Bool → List (Expr N) × Bool × Option Err
  | [], found_const => ([], found_const, none)
  | x :: rest, found_const =>
    match fold_constants env x found_const with
    | (x, found_const, some er) => (x :: rest, found_const, some er)
    | (x, found_const, none) =>
      match fold_constants_each env rest found_const with
      | (rest, found_const, err) => (x :: rest, found_const, err)
end

def optimize_loop (env : Env N) : Nat → Expr N → Bool → OptRes N
  | 0, _, _ => .outOfFuel
  | fuel + 1, expression, found_const =>
    match transform_ternary expression found_const with
    | (expression, found_const) =>
        (match fold_constants env expression found_const with
         | (expression, found_const, some er) => .err expression er
         | (expression, found_const, none) =>
             (if found_const then
                (let found_const := false
                 optimize_loop env fuel expression found_const)
              else
                .ok expression))

def optimize (env : Env N) (fuel : Nat) (expression : Expr N) : OptRes N :=
  let found_const := false
  optimize_loop env fuel expression found_const

end Slac.Generated.SrcOptimizer
