/-
  SlacModel.Generated.Grammar — GENERATED on every check run by /verif/tools/translate.py from the CURRENT text of
  /repo/src/token.rs, operator.rs, scanner.rs, compiler.rs.  Do not edit.  SlacProps/C01Source.lean proves that the
  hand-written model is these tables plugged into the Pratt / scanner skeleton.
-/
import SlacModel.Token
set_option autoImplicit false
namespace Slac.Generated.Grammar
variable {N : Type}

/-- `impl From<&Token> for Precedence` (src/token.rs); precedences numbered by their position in `enum Precedence`: None=0, Or=1, And=2, Xor=3, Equality=4, Comparison=5, Term=6, Factor=7, Unary=8, Call=9, Primary=10 -/
def tokenPrec : Token N → Nat
  | .minus | .plus => 6
  | .star | .slash | .div | .mod => 7
  | .equal | .notEqual => 4
  | .greater | .greaterEqual | .less | .lessEqual => 5
  | .and => 2
  | .or => 1
  | .xor => 3
  | .leftParen => 9
  | _ => 0
/-- `Precedence::next` (src/token.rs) -/
def precNext : Nat → Nat
  | 0 => 1
  | 1 => 2
  | 2 => 3
  | 3 => 4
  | 4 => 5
  | 5 => 6
  | 6 => 7
  | 7 => 8
  | 8 => 9
  | 9 => 10
  | 10 => 0
  | n => n
def precCount : Nat := 11
/-- `impl TryFrom<&Token> for Operator` (src/operator.rs) -/
def tokenOperator : Token N → Option Op
  | .plus => some .plus
  | .minus => some .minus
  | .star => some .multiply
  | .slash => some .divide
  | .greater => some .greater
  | .greaterEqual => some .greaterEqual
  | .less => some .less
  | .lessEqual => some .lessEqual
  | .equal => some .equal
  | .notEqual => some .notEqual
  | .and => some .and
  | .or => some .or
  | .xor => some .xor
  | .not => some .not
  | .div => some .div
  | .mod => some .mod
  | _ => none
/-- keyword table of `Scanner::identifier` (src/scanner.rs), matched on `ident.to_lowercase().as_str()` -/
def keywords (N : Type) : List (Str × Token N) :=
  [ (['t','r','u','e'], .literal (.bool true)),
    (['f','a','l','s','e'], .literal (.bool false)),
    (['a','n','d'], .and),
    (['o','r'], .or),
    (['x','o','r'], .xor),
    (['n','o','t'], .not),
    (['d','i','v'], .div),
    (['m','o','d'], .mod) ]
inductive Folding | lower | upper | exact | asciiLower deriving DecidableEq
/-- how `identifier` folds the word before the table lookup -/
def keywordFolding : Folding := .lower
/-- the arms of `match next` in `Scanner::next_token` that produce a token directly (src/scanner.rs) -/
def charToken : Char → Option (Token N)
  | '(' => some .leftParen
  | ')' => some .rightParen
  | '[' => some .leftBracket
  | ']' => some .rightBracket
  | ',' => some .comma
  | '+' => some .plus
  | '-' => some .minus
  | '*' => some .star
  | '/' => some .slash
  | '=' => some .equal
  | _ => none
/-- the arms of `match next` that call a scanner method: (character, method) -/
def charMethod : List (Char × Nat) := [('\'', 0), ('.', 1), ('>', 2), ('<', 3)]   -- 0 string, 1 number, 2 greater, 3 lesser
/-- `Scanner::greater`: second character -> two-character token; otherwise the default -/
def greaterTable : List (Char × Token N) × Token N := ([('=', .greaterEqual)], .greater)
/-- `Scanner::lesser`: second character -> two-character token; otherwise the default -/
def lesserTable : List (Char × Token N) × Token N := ([('=', .lessEqual), ('>', .notEqual)], .less)
/-- `Compiler::do_prefix` (src/compiler.rs): 0 literal, 1 variable, 2 grouping, 3 array, 4 unary, 5 NoValidPrefixToken -/
def prefixKind : Token N → Nat
  | .literal _ => 0
  | .identifier _ => 1
  | .leftParen => 2
  | .leftBracket => 3
  | .not | .minus => 4
  | _ => 5
/-- `Compiler::do_infix` (src/compiler.rs): 0 binary, 1 call, 2 NoValidInfixToken -/
def infixKind : Token N → Nat
  | .minus | .plus | .star | .slash | .div | .mod | .equal | .notEqual | .greater | .greaterEqual | .less | .lessEqual | .and | .or | .xor => 0
  | .leftParen => 1
  | _ => 2
/-- `expression()` parses at this level -/
def entryLevel : Nat := 1
/-- `unary()` parses its operand at this level -/
def unaryOperandLevel : Nat := 8
/-- `binary()` parses its right operand at the NEXT level above the operator (left associativity) -/
def binaryOperandNext : Bool := true
/-- the infix loop continues while `precedence <= Precedence::from(token)` (true) / `<` (false) -/
def loopAbsorbsEqual : Bool := true

end Slac.Generated.Grammar
