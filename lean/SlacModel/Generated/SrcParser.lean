/-
  SlacModel.Generated.SrcParser — GENERATED on every check run by /verif/tools/rs2lean_parser.py from the CURRENT text of
  /repo/src/compiler.rs (`impl Compiler`).  Do not edit.  SlacProps/C01Parser.lean proves that SlacModel/Parser.lean is this function.
  Methods in the mutual block: parse_precedence, do_prefix, do_infix and the `while` loops; every other method is inlined at its call sites.
-/
import SlacModel.SrcParserPrelude
import SlacModel.Generated.Grammar
set_option autoImplicit false
namespace Slac.Generated.SrcParser
open Slac Slac.SrcParser Slac.Generated
variable {N : Type}

mutual
def parse_precedence_loop1 : Nat → List (Token N) → Nat → Expr N → PM N (Expr N)
  | 0, _, _, _ => outOfFuel
  | f+1, toks, precedence, expression => do
    let t7 ← (do
        let c6 ← getCur
        pure toks[c6]?)
    if (match t7 with | some t => (decide (precedence ≤ (Grammar.tokenPrec t))) | none => false) then
      (do
        (do
          let c4 ← getCur
          if (decide (c4 < toks.length)) then
            (do
              let c5 ← getCur
              setCur (c5 + 1)
              pure ())
          else
            pure ())
        let expression ← do_infix f toks expression
        parse_precedence_loop1 f toks precedence expression)
    else
      pure expression
def do_prefix_loop1 : Nat → List (Token N) → List (Expr N) → PM N (List (Expr N))
  | 0, _, _ => outOfFuel
  | f+1, toks, expressions => do
    let t24 ← (do
        let c23 ← getCur
        pure toks[c23]?)
    if (match t24 with | some t => (!(match t with | .rightBracket => true | _ => false)) | none => false) then
      (do
        let t18 ← (do
            let c17 ← getCur
            if (decide (c17 < toks.length)) then
              parse_precedence f toks 1
            else
              throwE (.eof : CErr N))
        let expressions := expressions ++ [t18]
        let t20 ← (do
            let c19 ← getCur
            pure toks[c19]?)
        if (match t20 with | some .comma => true | _ => false) then
          (do
            (do
              let c21 ← getCur
              if (decide (c21 < toks.length)) then
                (do
                  let c22 ← getCur
                  setCur (c22 + 1)
                  pure ())
              else
                pure ())
            pure ())
        else
          pure ()
        do_prefix_loop1 f toks expressions)
    else
      pure expressions
def do_infix_loop1 : Nat → List (Token N) → List (Expr N) → PM N (List (Expr N))
  | 0, _, _ => outOfFuel
  | f+1, toks, expressions => do
    let t50 ← (do
        let c49 ← getCur
        pure toks[c49]?)
    if (match t50 with | some t => (!(match t with | .rightParen => true | _ => false)) | none => false) then
      (do
        let t44 ← (do
            let c43 ← getCur
            if (decide (c43 < toks.length)) then
              parse_precedence f toks 1
            else
              throwE (.eof : CErr N))
        let expressions := expressions ++ [t44]
        let t46 ← (do
            let c45 ← getCur
            pure toks[c45]?)
        if (match t46 with | some .comma => true | _ => false) then
          (do
            (do
              let c47 ← getCur
              if (decide (c47 < toks.length)) then
                (do
                  let c48 ← getCur
                  setCur (c48 + 1)
                  pure ())
              else
                pure ())
            pure ())
        else
          pure ()
        do_infix_loop1 f toks expressions)
    else
      pure expressions
def parse_precedence : Nat → List (Token N) → Nat → PM N (Expr N)
  | 0, _, _ => outOfFuel
  | f+1, toks, precedence => do
    let c1 ← getCur
    if (decide (c1 ≥ toks.length)) then
      throwE (.eof : CErr N)
    else
      (do
        (do
          let c2 ← getCur
          if (decide (c2 < toks.length)) then
            (do
              let c3 ← getCur
              setCur (c3 + 1)
              pure ())
          else
            pure ())
        let expression ← do_prefix f toks
        let expression ← parse_precedence_loop1 f toks precedence expression
        pure expression)
def do_prefix : Nat → List (Token N) → PM N (Expr N)
  | 0, _ => outOfFuel
  | f+1, toks => do
    let previous ← (do
        let c8 ← getCur
        let d9 ← usub c8 1
        okOr toks[d9]? (.previousTokenNotFound : CErr N))
    match previous with
    | .literal value =>
      pure (.lit value)
    | .identifier name =>
      pure (.var name)
    | .leftParen =>
      (do
        let expression ← (do
            let c10 ← getCur
            if (decide (c10 < toks.length)) then
              parse_precedence f toks 1
            else
              throwE (.eof : CErr N))
        (do
          let t12 ← (do
              let c11 ← getCur
              pure toks[c11]?)
          if (match t12 with | some .rightParen => true | _ => false) then
            (do
              (do
                let c13 ← getCur
                if (decide (c13 < toks.length)) then
                  (do
                    let c14 ← getCur
                    setCur (c14 + 1)
                    pure ())
                else
                  pure ())
              pure ())
          else
            (do
              let t16 ← (do
                  let c15 ← getCur
                  pure toks[c15]?)
              throwE (match t16 with | some t => (.invalidToken t : CErr N) | none => (.eof : CErr N))))
        pure expression)
    | .leftBracket =>
      (do
        let t31 ← (do
            let expressions := []
            let expressions ← do_prefix_loop1 f toks expressions
            (do
              let t26 ← (do
                  let c25 ← getCur
                  pure toks[c25]?)
              if (match t26 with | some .rightBracket => true | _ => false) then
                (do
                  (do
                    let c27 ← getCur
                    if (decide (c27 < toks.length)) then
                      (do
                        let c28 ← getCur
                        setCur (c28 + 1)
                        pure ())
                    else
                      pure ())
                  pure ())
              else
                (do
                  let t30 ← (do
                      let c29 ← getCur
                      pure toks[c29]?)
                  throwE (match t30 with | some t => (.invalidToken t : CErr N) | none => (.eof : CErr N))))
            pure expressions)
        pure (.array t31))
    | .not | .minus =>
      (do
        let operator ← (do
            let t34 ← (do
                let c32 ← getCur
                let d33 ← usub c32 1
                okOr toks[d33]? (.previousTokenNotFound : CErr N))
            okOr (Grammar.tokenOperator t34) (.tokenNotAnOperator t34))
        let right ← parse_precedence f toks 8
        pure (.unary right operator))
    | _ =>
      throwE (.noValidPrefixToken previous : CErr N)
def do_infix : Nat → List (Token N) → Expr N → PM N (Expr N)
  | 0, _, _ => outOfFuel
  | f+1, toks, left => do
    let previous ← (do
        let c35 ← getCur
        let d36 ← usub c35 1
        okOr toks[d36]? (.previousTokenNotFound : CErr N))
    match previous with
    | .minus | .plus | .star | .slash | .div | .mod | .equal | .notEqual | .greater | .greaterEqual | .less | .lessEqual | .and | .or | .xor =>
      (do
        let operator ← (do
            let t39 ← (do
                let c37 ← getCur
                let d38 ← usub c37 1
                okOr toks[d38]? (.previousTokenNotFound : CErr N))
            okOr (Grammar.tokenOperator t39) (.tokenNotAnOperator t39))
        let right ← (do
            let t42 ← (do
                let c40 ← getCur
                let d41 ← usub c40 1
                okOr toks[d41]? (.previousTokenNotFound : CErr N))
            parse_precedence f toks (Grammar.precNext (Grammar.tokenPrec t42)))
        pure (.binary left right operator))
    | .leftParen =>
      (do
        match left with
        | .var name =>
          (do
            let t57 ← (do
                let expressions := []
                let expressions ← do_infix_loop1 f toks expressions
                (do
                  let t52 ← (do
                      let c51 ← getCur
                      pure toks[c51]?)
                  if (match t52 with | some .rightParen => true | _ => false) then
                    (do
                      (do
                        let c53 ← getCur
                        if (decide (c53 < toks.length)) then
                          (do
                            let c54 ← getCur
                            setCur (c54 + 1)
                            pure ())
                        else
                          pure ())
                      pure ())
                  else
                    (do
                      let t56 ← (do
                          let c55 ← getCur
                          pure toks[c55]?)
                      throwE (match t56 with | some t => (.invalidToken t : CErr N) | none => (.eof : CErr N))))
                pure expressions)
            pure (.call name t57))
        | _ =>
          (do
            let t60 ← (do
                let c58 ← getCur
                let d59 ← usub c58 1
                okOr toks[d59]? (.previousTokenNotFound : CErr N))
            throwE (.callNotOnVariable t60 : CErr N)))
    | _ =>
      throwE (.noValidInfixToken previous : CErr N)
end

/-- `Compiler::compile` -/
def compile (fuel : Nat) (toks : List (Token N)) : PM N (Expr N) := do
  let expression ← (do
      let c61 ← getCur
      if (decide (c61 < toks.length)) then
        parse_precedence fuel toks 1
      else
        throwE (.eof : CErr N))
  let t63 ← (do
      let c62 ← getCur
      pure toks[c62]?)
  match t63 with
  | some token =>
    throwE (.multipleExpressions token : CErr N)
  | none =>
    pure expression

/-- `Compiler::compile_ast`: `Compiler { tokens, current: 0 }.compile()` -/
def compile_ast (fuel : Nat) (toks : List (Token N)) : COut N (Expr N) := run (compile fuel toks) 0

end Slac.Generated.SrcParser
