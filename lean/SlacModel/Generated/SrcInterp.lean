/-
  SlacModel.Generated.SrcInterp — GENERATED on every check run by /verif/tools/rs2lean.py from the CURRENT text of
  /repo/src/interpreter.rs (`TreeWalkingInterpreter`: expression, unary, binary, boolean, ternary, get_values, array, variable, call) and `execute` of lib.rs.  Do not edit.
  SlacProps/C04Source.lean proves that `evalT` of SlacModel/Interp.lean (result AND event trace) is this function.
-/
import SlacModel.SrcPrelude
set_option autoImplicit false
set_option linter.unusedVariables false
namespace Slac.Generated.SrcInterp
variable {N : Type} [NumOps N]

open Slac.SrcPrelude

mutual
def interp_expression (env : Env N) (expression : Expr N) : W N (Except Err (Value N)) := do
  match expression with
  | .unary right operator =>
      let r1 ← interp_expression env right
      match r1 with
      | .error er => pure (.error er)
      | .ok v2 =>
        let right := v2
        pure (match operator with
        | .minus => Value.neg right
        | .not => Value.not right
        | _ => .error (.invalidUnary operator))
  | .binary left right operator =>
      let r3 ← interp_expression env left
      let left := r3
      match operator, left with
      | .and, .ok left =>
          let left := Value.asBool left
          if (left == true) then
            let r4 ← interp_expression env right
            match r4 with
            | .ok right =>
                pure (.ok (.bool (Value.asBool right)))
            | .error (.undefinedVariable _) =>
                pure (.ok (.bool false))
            | .error error =>
                pure (.error error)
          else
            pure (.ok (.bool left))
      | .and, .error (.undefinedVariable _) =>
          pure (.ok (.bool false))
      | .or, .ok left =>
          let left := Value.asBool left
          if (left == false) then
            let r5 ← interp_expression env right
            match r5 with
            | .ok right =>
                pure (.ok (.bool (Value.asBool right)))
            | .error (.undefinedVariable _) =>
                pure (.ok (.bool false))
            | .error error =>
                pure (.error error)
          else
            pure (.ok (.bool left))
      | .or, .error (.undefinedVariable _) =>
          let a6 : Value N := .bool false
          let left := a6
          let left := Value.asBool left
          if (left == false) then
            let r7 ← interp_expression env right
            match r7 with
            | .ok right =>
                pure (.ok (.bool (Value.asBool right)))
            | .error (.undefinedVariable _) =>
                pure (.ok (.bool false))
            | .error error =>
                pure (.error error)
          else
            pure (.ok (.bool left))
      | _, .ok left =>
          let r8 ← interp_expression env right
          let right := r8
          pure (match operator, right with
          | .plus, .ok right => Value.add left right
          | .minus, .ok right => Value.arith NumOps.sub .minus left right
          | .multiply, .ok right => Value.arith NumOps.mul .multiply left right
          | .divide, .ok right => Value.arith NumOps.div .divide left right
          | .div, .ok right => Value.arith (fun a b => NumOps.trunc (NumOps.div a b)) .div left right
          | .mod, .ok right => Value.arith NumOps.rem .mod left right
          | .xor, .ok right => Value.xor left right
          | .greater, .ok right => .ok (.bool (Value.gt left right))
          | .greaterEqual, .ok right => .ok (.bool (Value.ge left right))
          | .less, .ok right => .ok (.bool (Value.lt left right))
          | .lessEqual, .ok right => .ok (.bool (Value.le left right))
          | .equal, .ok right => .ok (.bool (Value.eq left right))
          | .notEqual, .ok right => .ok (.bool (!(Value.eq left right)))
          | .equal, .error (.undefinedVariable _) => .ok (.bool (Value.isEmpty left))
          | .notEqual, .error (.undefinedVariable _) => .ok (.bool (!(Value.isEmpty left)))
          | _, .error right => .error right
          | operator, _ => .error (.invalidBinary operator))
      | .equal, .error (.undefinedVariable _) =>
          let r9 ← interp_expression env right
          match r9 with
          | .ok right =>
              pure (.ok (.bool (Value.isEmpty right)))
          | .error (.undefinedVariable _) =>
              pure (.ok (.bool true))
          | .error right =>
              pure (.error right)
      | .notEqual, .error (.undefinedVariable _) =>
          let r10 ← interp_expression env right
          match r10 with
          | .ok right =>
              pure (.ok (.bool (!(Value.isEmpty right))))
          | .error (.undefinedVariable _) =>
              pure (.ok (.bool false))
          | .error right =>
              pure (.error right)
      | _, .error left =>
          pure (.error left)
  | .ternary left middle right operator =>
      match operator with
      | .ternaryCondition =>
          let r11 ← interp_expression env left
          match r11 with
          | .error er => pure (.error er)
          | .ok v12 =>
            let left := v12
            if Value.asBool left then
              let r13 ← interp_expression env middle
              pure (r13)
            else
              let r14 ← interp_expression env right
              pure (r14)
      | _ =>
          pure (.error (.invalidTernary operator))
  | .array expressions =>
      let r16 ← get_values_each env expressions
      match r16 with
      | .error er => pure (.error er)
      | .ok v17 =>
        let a18 : Value N := .arr v17
        pure (.ok a18)
  | .lit value =>
      pure (.ok value)
  | .var name =>
      let r19 ← envVariable env name
      let x20 := r19
      let x21 := Option.map (fun v => v) x20
      pure ((match x21 with | some v => .ok v | none => .error (.undefinedVariable name)))
  | .call name params =>
      let expressions := params
      let r22 ← get_values_each env expressions
      match r22 with
      | .error er => pure (.error er)
      | .ok v23 =>
        let r24 ← envCall env name v23
        let x25 := r24
        pure (Except.mapError (fun e => .native name e) x25)
def get_values_each (env : Env N) : List (Expr N) → W N (Except Err (List (Value N)))
  | [] => pure (.ok [])
  | expression :: rest => do
    let r15 ← interp_expression env expression
    match r15 with
    | .error er => pure (.error er)
    | .ok v =>
      let rest ← get_values_each env rest
      match rest with
      | .error er => pure (.error er)
      | .ok vs => pure (.ok (v :: vs))
end

end Slac.Generated.SrcInterp
