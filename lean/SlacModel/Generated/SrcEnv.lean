/-
  SlacModel.Generated.SrcEnv — GENERATED on every check run by /verif/tools/rs2lean.py from the CURRENT text of
  /repo/src/environment.rs (`impl Environment for StaticEnvironment`, `get_env_key`).  Do not edit.
  SlacProps/C19Source.lean proves that the observations of SlacModel/Env.lean are these functions.
-/
import SlacModel.Env
set_option autoImplicit false
set_option linter.unusedVariables false
namespace Slac.Generated.SrcEnv
variable {N : Type} [NumOps N]

/-- `get_env_key` is `name.to_lowercase()`; `fold` below stands for it (instantiated with the Unicode lower-casing in the driver) -/
def getEnvKeyIsToLowercase : Bool := true

section
variable (fold : Str → Str)

def variable_ (self : StaticEnv N) (name : Str) : Option (Value N) :=
  alGet (fold name) self.vars

def call_ (self : StaticEnv N) (name : Str) (params : List (Value N)) : Except NativeError (Value N) :=
  ((match alGet (fold name) self.fns with | some v => .ok v | none => .error (.functionNotFound name))) >>= fun function =>
  let call := function.run
  call params

def variable_exists (self : StaticEnv N) (name : Str) : Bool :=
  (alGet (fold name) self.vars).isSome

def function_exists (self : StaticEnv N) (name : Str) (param_count : Nat) : FnRes :=
  match alGet (fold name) self.fns with
  | some function =>
      (match function.arity with
       | .polyadic required optional =>
           (let min := required
            let max := required + optional
            if (decide (param_count < min) || decide (param_count > max)) then .wrongArity min max else .exist function.pure)
       | .variadic => if decide (param_count > 0) then .exist function.pure else .wrongArity 1 99
       | .none => if (param_count == 0) then .exist function.pure else .wrongArity 0 0)
  | _ => .notFound

/-- `StaticEnvironment::add_variable` -/
def add_variable (self : StaticEnv N) (name : Str) (value : Value N) : StaticEnv N :=
  { self with vars := ins (fold name) value self.vars }

/-- `StaticEnvironment::remove_variable` -/
def remove_variable (self : StaticEnv N) (name : Str) : StaticEnv N × Option (Value N) :=
  ({ self with vars := del (fold name) self.vars }, alGet (fold name) self.vars)

/-- `StaticEnvironment::clear_variables` -/
def clear_variables (self : StaticEnv N) : StaticEnv N :=
  { self with vars := [] }

/-- `StaticEnvironment::add_function` -/
def add_function (self : StaticEnv N) (func : Fn N) : StaticEnv N :=
  { self with fns := ins (fold func.name) func self.fns }

/-- `StaticEnvironment::add_functions` -/
def add_functions (self : StaticEnv N) (functions : List (Fn N)) : StaticEnv N :=
  functions.foldl (fun self func => add_function fold self func) self

/-- `StaticEnvironment::remove_function` -/
def remove_function (self : StaticEnv N) (name : Str) : StaticEnv N × Option (Fn N) :=
  ({ self with fns := del (fold name) self.fns }, alGet (fold name) self.fns)

/-- `StaticEnvironment::list_functions` -/
def list_functions (self : StaticEnv N) : List (Fn N) :=
  self.fns.map (·.2)

end
end Slac.Generated.SrcEnv
