/-
  SlacModel.Generated.SrcRegex — GENERATED on every check run by /verif/tools/rs2lean_stdlib.py from the CURRENT text of /repo/src/stdlib/regex.rs.
  Do not edit.  SlacProps/C18Source.lean proves the wrapper models of SlacModel/Regex.lean equal to these functions, for every engine.
-/
import SlacModel.Regex
import SlacModel.Generated.SrcStdlib
set_option autoImplicit false
set_option linter.unusedVariables false
namespace Slac.Generated.SrcRegex
open Slac
variable {N : Type} [NumX N] {Re : Type}

/-- `get_capture_groups` (src/stdlib/regex.rs) -/
def get_capture_groups (E : Regex.Engine Re) (captures : List (Option Str)) : List (Value N) :=
  List.map (fun c => Value.str (Option.getD c [])) captures

/-- `is_match` (src/stdlib/regex.rs) -/
def is_match (E : Regex.Engine Re) (params : List (Value N)) : Except NativeError (Value N) :=
  match params with
  | [.str haystack, .str pattern] =>
      (((match E.compile pattern with | .ok re => .ok re | .error msg => .error (.custom msg))) >>= fun re =>
       .ok (.bool (E.isMatch re haystack)))
  | [_, _] => .error .wrongParameterType
  | _ => .error (.wrongParameterCount 2)

/-- `find` (src/stdlib/regex.rs) -/
def find (E : Regex.Engine Re) (params : List (Value N)) : Except NativeError (Value N) :=
  match params with
  | [.str haystack, .str pattern] =>
      (((match E.compile pattern with | .ok re => .ok re | .error msg => .error (.custom msg))) >>= fun re =>
       let groups := List.map Value.str (E.findIter re haystack)
       .ok (.arr groups))
  | [_, _] => .error .wrongParameterType
  | _ => .error (.wrongParameterCount 2)

/-- `capture` (src/stdlib/regex.rs) -/
def capture (E : Regex.Engine Re) (params : List (Value N)) : Except NativeError (Value N) :=
  match params with
  | [.str haystack, .str pattern] =>
      (((match E.compile pattern with | .ok re => .ok re | .error msg => .error (.custom msg))) >>= fun re =>
       let groups := (match E.captures re haystack with | none => List.replicate (E.capturesLen re) (Value.str []) | some cs => get_capture_groups E cs)
       .ok (.arr groups))
  | [_, _] => .error .wrongParameterType
  | _ => .error (.wrongParameterCount 2)

/-- `replace` (src/stdlib/regex.rs) -/
def replace (E : Regex.Engine Re) (params : List (Value N)) : Except NativeError (Value N) :=
  (SrcStdlib.default_string params 2 ([] : Str)) >>= fun replacement =>
  (SrcStdlib.default_number params 3 (NumOps.zero : N)) >>= fun q1 =>
  let limit := NumX.floorUsize q1
  match params with
  | (.str haystack) :: (.str needle) :: _ =>
      (((match E.compile needle with | .ok re => .ok re | .error msg => .error (.custom msg))) >>= fun re =>
       .ok (.str (E.replacen re haystack limit replacement)))
  | [_, _] => .error .wrongParameterType
  | _ => .error (.wrongParameterCount 2)

end Slac.Generated.SrcRegex
