/-
  SlacModel.Basic — shared vocabulary of the SLAC model.
  Mirrors: src/operator.rs (Operator), src/error.rs (Error, runtime part), src/stdlib/error.rs (NativeError),
  src/environment.rs (FunctionResult, the Environment trait).
  No Mathlib imports anywhere under SlacModel (the driver links these files).
-/
set_option autoImplicit false
namespace Slac

/-- Text is a list of Unicode scalar values (Rust `char` = Lean `Char`). -/
abbrev Str := List Char

/-- abstract number interface: theorems at interpreter level hold for every instance.
    The driver's instance is core `Float` (SlacModel.Num). -/
class NumOps (N : Type) where
  add : N → N → N
  sub : N → N → N
  mul : N → N → N
  div : N → N → N
  rem : N → N → N
  trunc : N → N
  neg : N → N
  pcmp : N → N → Option Ordering      -- IEEE partial_cmp
  beq : N → N → Bool                   -- IEEE ==
  zero : N
  ofBool : Bool → N
  parse : Str → Option N               -- Rust `str::parse::<f64>`

/-- src/operator.rs `Operator` (declaration order). -/
inductive Op | plus | minus | multiply | divide | greater | greaterEqual | less | lessEqual
  | equal | notEqual | and | or | xor | not | div | mod | ternaryCondition
deriving DecidableEq, Repr, Inhabited

/-- src/stdlib/error.rs `NativeError`. -/
inductive NativeError | functionNotFound (n : Str) | wrongParameterCount (k : Nat) | wrongParameterType
  | indexOutOfBounds (i : Nat) | indexNegative | custom (s : Str)
deriving DecidableEq, Repr

/-- runtime part of src/error.rs `Error`. -/
inductive Err | undefinedVariable (n : Str) | invalidUnary (op : Op) | invalidBinary (op : Op)
  | invalidTernary (op : Op) | native (f : Str) (e : NativeError)
deriving DecidableEq, Repr

/-- src/environment.rs `FunctionResult`. -/
inductive FnRes | exist (pure : Bool) | notFound | wrongArity (min max : Nat)
deriving DecidableEq, Repr

end Slac
