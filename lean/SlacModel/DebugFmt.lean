/-
  SlacModel.DebugFmt — `Display for Value` of src/value.rs *including arrays*: an array is written with `{v:?}`,
  i.e. Rust's `Debug` of `Vec<Value>` with the derived `Debug` of `Value` (`#[derive(Debug, Clone)] pub enum Value`).
  Non-alternate mode only (`{:?}`, never `{:#?}`): `[a, b, c]`, `Boolean(true)`, `String("…")`, `Number(…)`, `Array([…])`.

  Sources mirrored (Rust standard library, core/src):
  * fmt/float.rs `float_to_general_debug` (no precision): exponent form iff
    `(abs != 0.0 && abs < 1e-4) || abs >= 1e+16` (`already_rounded_value_should_use_exponential`), else
    `float_to_decimal_common_shortest(.., min_precision = 1)`.
  * num/imp/flt2dec/mod.rs `to_shortest_str` (NaN, inf, zero with frac_digits = 1 ↦ `0.0`, sign `-` for every
    negative value incl. -0.0 and -inf, none for NaN), `digits_to_dec_str(buf, exp, 1)`,
    `to_shortest_exp_str(.., dec_bounds = (0,0), upper = false)` ⇒ always `digits_to_exp_str(buf, exp, 0, false)`:
    `d[.ddd]e[-]N`, exponent without padding and without `+`.
    `buf`, `exp` (value = 0.buf × 10^exp) are the shortest round-trip digits: the digit search of SlacModel.Display.
  * fmt/mod.rs `impl Debug for str`: `"` … `"`, every char through `escape_debug_ext` with
    escape_grapheme_extended = true, escape_single_quote = false, escape_double_quote = true
    (bytes 0x20..=0x7E other than `\` and `"` are copied by the fast path `needs_escape`).
  * char/methods.rs `escape_debug_ext`: `\0 \t \r \n \\ \"` two-character escapes; Grapheme_Extend or not
    `is_printable` ⇒ `\u{h…}` (escape.rs `escape_unicode`: lower-case hex, as many digits as needed, at least one).
    The set of characters that end up as `\u{…}` is the dumped table `UnicodeTables.debugUnicodeEscaped`.
  Tie: the correspondence stream that calls `str` on arrays.
-/
import SlacModel.Display
import SlacModel.Unicode
set_option autoImplicit false
namespace Slac
namespace DebugFmt
open F64

/-! ### shortest round-trip digits (the search of `F64.display`, with the digits exposed) -/

/-- for finite `ax > 0`: `(c, p)` with `ax` printed as the integer `c` (no trailing zero) times `10^p`.
    Same computation as inside `F64.display` (see `SlacProofs.DebugFmt.display_eq`). -/
def shortestDigits (ax : Float) : Nat × Int :=
  let (m, e) := decode ax
  let num : Nat := if e ≥ 0 then m <<< e.toNat else m
  let den : Nat := if e ≥ 0 then 1 else 1 <<< (-e).toNat
  let k0 : Int := (decLen num : Int) - (decLen den : Int)
  let k : Int :=
    let pow (i : Int) : Nat × Nat := if i ≥ 0 then (10 ^ i.toNat, 1) else (1, 10 ^ (-i).toNat)
    let ge (i : Int) : Bool := let (pn, pd) := pow i; ratCmp num den pn pd != .lt
    if ge (k0 + 1) then k0 + 2 else if ge k0 then k0 + 1 else if ge (k0 - 1) then k0 else k0 - 1
  let (c, p) := displaySearch ax num den k 1 18
  stripZeros c p 20

/-- `Display` body from the digits: plain decimal, no exponent, no forced fraction (flt2dec `frac_digits = 0`) -/
def plainBody (c : Nat) (p : Int) : Str :=
  let ds := Nat.toDigits 10 c
  if p ≥ 0 then ds ++ List.replicate p.toNat '0'
  else
    let q := (-p).toNat
    if ds.length ≤ q then '0' :: '.' :: (List.replicate (q - ds.length) '0' ++ ds)
    else ds.take (ds.length - q) ++ '.' :: ds.drop (ds.length - q)

/-- `F64.display` rewritten over `shortestDigits` (proved equal to `F64.display`) -/
def displayViaDigits (x : Float) : Str :=
  if isNaN x then ['N','a','N']
  else if isInf x then (if signBit x then ['-','i','n','f'] else ['i','n','f'])
  else if isZero x then (if signBit x then ['-','0'] else ['0'])
  else
    let neg := signBit x
    let ax := if neg then -x else x
    let (c, p) := shortestDigits ax
    let body := plainBody c p
    if neg then '-' :: body else body

/-! ### `Debug for f64` -/

/-- `digits_to_dec_str(buf, exp, frac_digits = 1)`: value `0.ds × 10^e`, at least one fractional digit -/
def decForm (ds : Str) (e : Int) : Str :=
  if e ≤ 0 then '0' :: '.' :: (List.replicate (-e).toNat '0' ++ ds)
  else if e.toNat < ds.length then ds.take e.toNat ++ '.' :: ds.drop e.toNat
  else ds ++ List.replicate (e.toNat - ds.length) '0' ++ ['.', '0']

/-- `digits_to_exp_str(buf, exp, 0, upper = false)`: `d[.ddd]e[-]N` with `N = exp - 1` -/
def expForm (ds : Str) (e : Int) : Str :=
  let mant : Str := match ds with
    | [] => []
    | [d] => [d]
    | d :: r => d :: '.' :: r
  let x : Int := e - 1
  mant ++ (if x < 0 then 'e' :: '-' :: Nat.toDigits 10 (-x).toNat else 'e' :: Nat.toDigits 10 x.toNat)

/-- bit pattern of the f64 literal `1e-4` -/
def bits1em4 : Nat := 0x3F1A36E2EB1C432D
/-- bit pattern of the f64 literal `1e+16` -/
def bits1e16 : Nat := 0x4341C37937E08000

/-- `already_rounded_value_should_use_exponential`: `(abs != 0.0 && abs < 1e-4) || abs >= 1e+16` on a finite
    value; on non-negative doubles the order is the order of the bit patterns -/
def useExp (x : Float) : Bool :=
  let a := magN (bits x)
  (a != 0 && decide (a < bits1em4)) || decide (a ≥ bits1e16)

/-- `format!("{x:?}")` for f64 -/
def debugF64 (x : Float) : Str :=
  if isNaN x then ['N','a','N']
  else if isInf x then (if signBit x then ['-','i','n','f'] else ['i','n','f'])
  else if isZero x then (if signBit x then ['-','0','.','0'] else ['0','.','0'])
  else
    let neg := signBit x
    let ax := if neg then -x else x
    let (c, p) := shortestDigits ax
    let ds := Nat.toDigits 10 c
    let e : Int := (ds.length : Int) + p
    let body := if useExp x then expForm ds e else decForm ds e
    if neg then '-' :: body else body

/-! ### `Debug for str` -/

/-- `escape_debug_ext` with the arguments `Debug for str` passes -/
def escapeChar (c : Char) : Str :=
  let n := c.toNat
  if n == 0x5C then ['\\', '\\']
  else if n == 0x22 then ['\\', '"']
  else if 0x20 ≤ n && n ≤ 0x7E then [c]                  -- `needs_escape` fast path: printable ASCII (incl. `'`)
  else if n == 0 then ['\\', '0']
  else if n == 9 then ['\\', 't']
  else if n == 0x0D then ['\\', 'r']
  else if n == 0x0A then ['\\', 'n']
  else if Unicode.inRanges UnicodeTables.debugUnicodeEscaped n then
    '\\' :: 'u' :: '{' :: (Nat.toDigits 16 n ++ ['}'])
  else [c]

/-- `format!("{s:?}")` for str -/
def debugStr (s : Str) : Str := '"' :: (s.flatMap escapeChar ++ ['"'])

/-! ### derived `Debug for Value`, `Debug for Vec<Value>` -/
section
variable {N : Type} (dn : N → Str)

mutual
/-- `format!("{v:?}")` for `Value` (`dn` = `Debug` of the number type) -/
def debugValueWith : Value N → Str
  | .bool b => ['B','o','o','l','e','a','n','('] ++ (if b then ['t','r','u','e'] else ['f','a','l','s','e']) ++ [')']
  | .str s => ['S','t','r','i','n','g','('] ++ debugStr s ++ [')']
  | .num x => ['N','u','m','b','e','r','('] ++ dn x ++ [')']
  | .arr xs => ['A','r','r','a','y','('] ++ debugListWith xs ++ [')']
/-- `format!("{vs:?}")` for `Vec<Value>`: `[]` or `[a, b, c]` -/
def debugListWith : List (Value N) → Str
  | [] => ['[', ']']
  | v :: r => '[' :: (debugValueWith v ++ debugTailWith r ++ [']'])
/-- every further element preceded by `, ` -/
def debugTailWith : List (Value N) → Str
  | [] => []
  | v :: r => ',' :: ' ' :: (debugValueWith v ++ debugTailWith r)
end

/-- `Display for Value` (`value.to_string()`), `disp` = `Display` of the number type -/
def strOfValueWith (disp : N → Str) : Value N → Str
  | .bool b => if b then ['t','r','u','e'] else ['f','a','l','s','e']
  | .str s => s
  | .num x => disp x
  | .arr xs => debugListWith dn xs

/-- the builtin `str` of stdlib/common.rs over any number type, total (arrays included) -/
def strFWith (disp : N → Str) : List (Value N) → Except NativeError (Value N)
  | [v] => .ok (.str (strOfValueWith dn disp v))
  | _ => .error (.wrongParameterCount 1)
end

def debugValue : Value Float → Str := debugValueWith debugF64
def debugList : List (Value Float) → Str := debugListWith debugF64
/-- `Display for Value` on the driver's number type: what the builtin `str` returns -/
def strOfValue : Value Float → Str := strOfValueWith debugF64 F64.display

/-- the builtin `str` of stdlib/common.rs on the driver's number type, total (arrays included) -/
def strF : List (Value Float) → Except NativeError (Value Float) := strFWith debugF64 F64.display

end DebugFmt
end Slac
