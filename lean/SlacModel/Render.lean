/-
  SlacModel.Render — what it means for a token list to be *a rendering* of an expression tree (any parenthesisation
  style), two executable renderers (minimal and full parentheses) and the source-expressible trees.

  Levels are the `Precedence` numbers of SlacModel.Token (`Token.prec`): Or 1 < And 2 < Xor 3 < Equality 4 < Comparison 5
  < Term 6 < Factor 7 < Unary 8 < Call 9 < Primary 10.

  `Rn q e ts` : "`ts` renders `e` at a place where an operand of minimum level `q` is expected":
    * bare (no parentheses) only if `lvl e ≥ q`,
    * wrapped in any number of parentheses at any place,
    * operands of `binary l r op` at levels `prec op` (left) and `prec op + 1` (right): left associativity,
    * the operand of a unary operator at level 8,
    * list elements (array, call) at level 1, separated by commas.
  "Fully parenthesised", "only the required parentheses" and everything between are instances.
-/
import SlacModel.Ast
import SlacModel.Token
set_option autoImplicit false
namespace Slac.Render
variable {N : Type}

/-- binding level of a binary operator; 0 = not a binary operator of the source language -/
def opLvl : Op → Nat
  | .or => 1 | .and => 2 | .xor => 3 | .equal | .notEqual => 4
  | .greater | .greaterEqual | .less | .lessEqual => 5
  | .plus | .minus => 6 | .multiply | .divide | .div | .mod => 7 | _ => 0

/-- binding level of the root of a tree -/
def lvl : Expr N → Nat
  | .binary _ _ op => opLvl op
  | .unary _ _ => 8
  | _ => 10

mutual
/-- rendering without outer parentheses -/
inductive Bare : Expr N → List (Token N) → Prop
  | lit (v : Value N) : Bare (.lit v) [.literal v]
  | var (n : Str) : Bare (.var n) [.identifier n]
  | unot {r ts} : Rn 8 r ts → Bare (.unary r .not) (.not :: ts)
  | uminus {r ts} : Rn 8 r ts → Bare (.unary r .minus) (.minus :: ts)
  | binary {l r op t tl tr} : Token.binOp? t = some op → Rn (Token.prec t) l tl → Rn (Token.prec t + 1) r tr →
      Bare (.binary l r op) (tl ++ t :: tr)
  | array {es ts} : RnList es ts → Bare (.array es) (.leftBracket :: (ts ++ [.rightBracket]))
  | call {n ps ts} : RnList ps ts → Bare (.call n ps) (.identifier n :: .leftParen :: (ts ++ [.rightParen]))
/-- rendering where an operand of level ≥ q is expected -/
inductive Rn : Nat → Expr N → List (Token N) → Prop
  | bare {q e ts} : q ≤ lvl e → Bare e ts → Rn q e ts
  | paren {q e ts} : Rn 1 e ts → Rn q e (.leftParen :: (ts ++ [.rightParen]))
/-- comma separated list of renderings -/
inductive RnList : List (Expr N) → List (Token N) → Prop
  | nil : RnList [] []
  | single {e ts} : Rn 1 e ts → RnList [e] ts
  | cons {e e' es ts ts'} : Rn 1 e ts → RnList (e' :: es) ts' → RnList (e :: e' :: es) (ts ++ .comma :: ts')
end

/-! ### the source-expressible trees -/

def isUnOp : Op → Bool
  | .minus | .not => true
  | _ => false

/-- the 15 binary operators of the source language -/
def isBinOp : Op → Bool
  | .plus | .minus | .multiply | .divide | .greater | .greaterEqual | .less | .lessEqual
  | .equal | .notEqual | .and | .or | .xor | .div | .mod => true
  | _ => false

mutual
/-- operators only where the syntax can put them, no ternary nodes; literal values and names are arbitrary
    (the parser never looks inside a literal or identifier token) -/
def srcExpr : Expr N → Bool
  | .unary r op => isUnOp op && srcExpr r
  | .binary l r op => isBinOp op && (srcExpr l && srcExpr r)
  | .ternary _ _ _ _ => false
  | .array es => srcList es
  | .lit _ => true
  | .var _ => true
  | .call _ ps => srcList ps
def srcList : List (Expr N) → Bool
  | [] => true
  | e :: es => srcExpr e && srcList es
end

def SrcExpr (e : Expr N) : Prop := srcExpr e = true

instance (e : Expr N) : Decidable (SrcExpr e) := inferInstanceAs (Decidable (srcExpr e = true))

/-! ### executable renderers -/

def binTok : Op → Token N
  | .plus => .plus | .minus => .minus | .multiply => .star | .divide => .slash
  | .greater => .greater | .greaterEqual => .greaterEqual | .less => .less | .lessEqual => .lessEqual
  | .equal => .equal | .notEqual => .notEqual | .and => .and | .or => .or | .xor => .xor
  | .div => .div | .mod => .mod
  | _ => .comma          -- not a binary operator (excluded by SrcExpr)

def unTok : Op → Token N
  | .minus => .minus
  | _ => .not

def parens (ts : List (Token N)) : List (Token N) := .leftParen :: (ts ++ [.rightParen])

/-- parenthesise `ts` (the bare rendering of `e`) iff `e` binds weaker than the required level `q` -/
def wrap (q : Nat) (e : Expr N) (ts : List (Token N)) : List (Token N) :=
  if q ≤ lvl e then ts else parens ts

mutual
/-- rendering with only the parentheses the precedence order and left associativity require -/
def bareMin : Expr N → List (Token N)
  | .unary r op => unTok op :: wrap 8 r (bareMin r)
  | .binary l r op => wrap (opLvl op) l (bareMin l) ++ binTok op :: wrap (opLvl op + 1) r (bareMin r)
  | .ternary _ _ _ _ => []
  | .array es => .leftBracket :: (listMin es ++ [.rightBracket])
  | .lit v => [.literal v]
  | .var n => [.identifier n]
  | .call n ps => .identifier n :: .leftParen :: (listMin ps ++ [.rightParen])
def listMin : List (Expr N) → List (Token N)
  | [] => []
  | e :: es => wrap 1 e (bareMin e) ++ (if es.isEmpty then [] else .comma :: listMin es)
end

/-- minimal parentheses -/
def renderMin (e : Expr N) : List (Token N) := wrap 1 e (bareMin e)

mutual
/-- every operator application is enclosed in parentheses -/
def renderFull : Expr N → List (Token N)
  | .unary r op => parens (unTok op :: renderFull r)
  | .binary l r op => parens (renderFull l ++ binTok op :: renderFull r)
  | .ternary _ _ _ _ => []
  | .array es => .leftBracket :: (listFull es ++ [.rightBracket])
  | .lit v => [.literal v]
  | .var n => [.identifier n]
  | .call n ps => .identifier n :: .leftParen :: (listFull ps ++ [.rightParen])
def listFull : List (Expr N) → List (Token N)
  | [] => []
  | e :: es => renderFull e ++ (if es.isEmpty then [] else .comma :: listFull es)
end

end Slac.Render
