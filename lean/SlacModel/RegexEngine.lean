/-
  SlacModel.RegexEngine — a CONCRETE executable model of the `regex-lite` 0.1.9 engine for a subset of its syntax,
  instantiating the abstract `Slac.Regex.Engine` of SlacModel.Regex.

  Sources mirrored: regex-lite src/hir/parse.rs (parser, every error branch), src/hir/mod.rs (smart constructors,
  class canonicalisation / ASCII case folding / negation, `Look::is_match`, `escape`), src/nfa.rs (shape of the
  compiled repetitions, `group_len`), src/pikevm.rs (leftmost-first search, `FindMatches` iteration with the
  empty-match rule), src/string.rs (`replacen`), src/interpolate.rs (`$1`, `${name}`, `$$`).

  Semantics: regex-lite compiles to a Thompson NFA and runs a PikeVM.  For an NFA without epsilon cycles the PikeVM
  reports the match a priority-ordered depth-first (backtracking) search finds first.  Epsilon cycles exist exactly
  when an unbounded repetition (`*`, `+`, `{m,}`) has a body that can match the empty string; there the PikeVM's
  visited set cuts paths in a way a backtracker does not reproduce (`((a?)(|b))*` on "ab" finds "a"), so such
  patterns are reported `unsupported` (see `supported`).  Everything works on `List Char`: regex-lite only matches at
  char boundaries of valid UTF-8 and its look-around byte tests coincide with the char tests below.

  Outcomes of parsing: `ok` / `err` (exactly when `Regex::new` fails: syntax errors, the nest limit of 50, the
  10 MiB size limit of the compiled NFA, counted exactly via `Item.states`/`Item.extra`) / `unsup` (not modelled;
  the driver answers `unmodelled`).  Not modelled: flag `x`, non-ASCII capture group names, nullable bodies under
  unbounded repetition.
-/
import SlacModel.Regex
set_option autoImplicit false
namespace Slac
namespace RegexEngine

/-! ### syntax tree (regex-lite `Hir`, binary concatenation/alternation) -/

inductive Look
  | textStart | textEnd | lineStart | lineEnd | lineStartCRLF | lineEndCRLF
  | word | wordNeg | wordStart | wordEnd | wordStartHalf | wordEndHalf
deriving DecidableEq, Repr

inductive Ast
  | empty
  | chr (c : Char)
  | cls (rs : List (Nat × Nat))                              -- code point ranges, inclusive
  | look (l : Look)
  | rep (min : Nat) (max : Option Nat) (greedy : Bool) (sub : Ast)
  | cap (idx : Nat) (sub : Ast)
  | cat (a b : Ast)
  | alt (a b : Ast)
deriving DecidableEq, Repr

/-! ### matcher -/

/-- a position in the haystack: number of chars consumed, the char just before, the remaining text -/
structure Cur where
  i : Nat
  prev : Option Char
  rest : Str
deriving Repr

def Cur.adv (cur : Cur) (c : Char) (t : Str) : Cur := ⟨cur.i + 1, some c, t⟩

/-- capture table: entry `g` = span (start, end) of group `g` in chars; entry 0 is not used by the matcher -/
abbrev Caps := List (Option (Nat × Nat))
abbrev Res := Cur × Caps
abbrev K := Cur → Caps → Option Res
abbrev M := Cur → Caps → K → Option Res

/-- `utf8::is_word_byte` on the (ASCII) char; bytes of non-ASCII chars are never word bytes -/
def isWordChar (c : Char) : Bool := c.isAlphanum || c == '_'
def wordBefore (cur : Cur) : Bool := match cur.prev with | some c => isWordChar c | none => false
def wordAfter (cur : Cur) : Bool := match cur.rest with | c :: _ => isWordChar c | [] => false

/-- `Look::is_match` -/
def lookOk (l : Look) (cur : Cur) : Bool :=
  match l with
  | .textStart => cur.prev.isNone
  | .textEnd => cur.rest.isEmpty
  | .lineStart => cur.prev.isNone || cur.prev == some '\n'
  | .lineEnd => cur.rest.isEmpty || cur.rest.head? == some '\n'
  | .lineStartCRLF => cur.prev.isNone || cur.prev == some '\n' ||
      (cur.prev == some '\r' && (cur.rest.isEmpty || cur.rest.head? != some '\n'))
  | .lineEndCRLF => cur.rest.isEmpty || cur.rest.head? == some '\r' ||
      (cur.rest.head? == some '\n' && (cur.prev.isNone || cur.prev != some '\r'))
  | .word => wordBefore cur != wordAfter cur
  | .wordNeg => wordBefore cur == wordAfter cur
  | .wordStart => !wordBefore cur && wordAfter cur
  | .wordEnd => wordBefore cur && !wordAfter cur
  | .wordStartHalf => !wordBefore cur
  | .wordEndHalf => !wordAfter cur

def inRanges (rs : List (Nat × Nat)) (c : Char) : Bool := rs.any fun r => r.1 ≤ c.toNat && c.toNat ≤ r.2

/-- `n` copies of the body in sequence (`c_exactly`) -/
def repExact (body : M) : Nat → M
  | 0, cur, caps, k => k cur caps
  | n + 1, cur, caps, k => body cur caps fun c' caps' => repExact body n c' caps' k

/-- up to `n` further copies, nested `(x(x(x)?)?)?` (`c_bounded`, `c_zero_or_one`) -/
def repOpt (body : M) (greedy : Bool) : Nat → M
  | 0, cur, caps, k => k cur caps
  | n + 1, cur, caps, k =>
    if greedy then (body cur caps fun c' caps' => repOpt body greedy n c' caps' k).orElse fun _ => k cur caps
    else (k cur caps).orElse fun _ => body cur caps fun c' caps' => repOpt body greedy n c' caps' k

/-- unbounded loop (`c_at_least`); the first argument is fuel, `rest.length` suffices because every further
    iteration has to consume at least one char (always true for the bodies `supported` lets through) -/
def repStar (body : M) (greedy : Bool) : Nat → M
  | 0, cur, caps, k => k cur caps
  | f + 1, cur, caps, k =>
    if greedy then
      (body cur caps fun c' caps' => if c'.rest.length < cur.rest.length then repStar body greedy f c' caps' k else none).orElse
        fun _ => k cur caps
    else
      (k cur caps).orElse fun _ =>
        body cur caps fun c' caps' => if c'.rest.length < cur.rest.length then repStar body greedy f c' caps' k else none

/-- priority-ordered backtracking matcher in continuation-passing style: the first success wins -/
def m : Ast → M
  | .empty, cur, caps, k => k cur caps
  | .chr c, cur, caps, k =>
    match cur.rest with
    | [] => none
    | d :: t => if d = c then k (cur.adv d t) caps else none
  | .cls rs, cur, caps, k =>
    match cur.rest with
    | [] => none
    | d :: t => if inRanges rs d then k (cur.adv d t) caps else none
  | .look l, cur, caps, k => if lookOk l cur then k cur caps else none
  | .rep mn mx g x, cur, caps, k =>
    repExact (m x) mn cur caps fun c caps' =>
      match mx with
      | none => repStar (m x) g c.rest.length c caps' k
      | some n => repOpt (m x) g (n - mn) c caps' k
  | .cap i x, cur, caps, k => m x cur caps fun c' caps' => k c' (caps'.set i (some (cur.i, c'.i)))
  | .cat a b, cur, caps, k => m a cur caps fun c' caps' => m b c' caps' k
  | .alt a b, cur, caps, k => (m a cur caps k).orElse fun _ => m b cur caps k

def accept : K := fun c caps => some (c, caps)

/-- a compiled pattern -/
structure Compiled where
  ast : Ast
  ncap : Nat                       -- `captures_len` (group 0 included)
  names : List (Str × Nat)         -- named groups
deriving Repr

/-- a match: start, position behind it, captures -/
structure Mt where
  s : Nat
  e : Cur
  caps : Caps

def Mt.isEmptyMatch (x : Mt) : Bool := x.e.i ≤ x.s

/-- `PikeVM::search` (non-earliest) from a position: leftmost start, then the highest-priority path -/
def searchFrom (re : Compiled) : Nat → Option Char → Str → Option Mt
  | i, prev, [] =>
    match m re.ast ⟨i, prev, []⟩ (List.replicate re.ncap none) accept with
    | some r => some ⟨i, r.1, r.2⟩
    | none => none
  | i, prev, c :: t =>
    match m re.ast ⟨i, prev, c :: t⟩ (List.replicate re.ncap none) accept with
    | some r => some ⟨i, r.1, r.2⟩
    | none => searchFrom re (i + 1) (some c) t

def search (re : Compiled) (cur : Cur) : Option Mt := searchFrom re cur.i cur.prev cur.rest

/-- `FindMatches::next` iterated.  An empty match at the end of the previous match is not reported: the search
    restarts one char further.  The first argument is fuel (`h.length + 2` suffices: every reported match ends
    strictly behind the previous one, except possibly the first). -/
def findIterAux (re : Compiled) : Nat → Cur → Option Nat → List Mt
  | 0, _, _ => []
  | f + 1, cur, last =>
    match search re cur with
    | none => []
    | some x =>
      if x.isEmptyMatch && last == some x.e.i then
        match cur.rest with
        | [] => []
        | c :: t =>
          match search re (cur.adv c t) with
          | none => []
          | some y => y :: findIterAux re f y.e (some y.e.i)
      else x :: findIterAux re f x.e (some x.e.i)

def cur0 (h : Str) : Cur := ⟨0, none, h⟩
def allMatches (re : Compiled) (h : Str) : List Mt := findIterAux re (h.length + 2) (cur0 h) none

def extract (h : Str) (s e : Nat) : Str := (h.drop s).take (e - s)
def Mt.text (h : Str) (x : Mt) : Str := extract h x.s x.e.i

/-- the spans of all groups of a match: group 0 from the search, the others from the capture table -/
def Mt.groups (re : Compiled) (x : Mt) : List (Option (Nat × Nat)) :=
  some (x.s, x.e.i) :: (List.range (re.ncap - 1)).map fun j => (x.caps.getD (j + 1) none)

/-! ### replacement string expansion (src/interpolate.rs) -/

def isCapLetter (c : Char) : Bool := c.isAlphanum || c == '_'

/-- `cap.parse::<usize>()` succeeds: optional `+`, then at least one ASCII digit (overflow makes no difference:
    no group has such an index and no group has such a name) -/
def refNumber (name : Str) : Option Nat :=
  let ds := match name with | '+' :: r => r | r => r
  if !ds.isEmpty && ds.all Char.isDigit then some (ds.foldl (fun a c => a * 10 + (c.toNat - 48)) 0) else none

/-- text a capture reference stands for -/
def refText (re : Compiled) (h : Str) (gs : List (Option (Nat × Nat))) (name : Str) : Str :=
  let idx := match refNumber name with
    | some i => some i
    | none => (re.names.find? fun p => p.1 == name).map (·.2)
  match idx with
  | none => []
  | some i => match gs.getD i none with
    | some (s, e) => extract h s e
    | none => []

/-- `interpolate::string`; the first argument is fuel (`rep.length + 1` suffices) -/
def interp (re : Compiled) (h : Str) (gs : List (Option (Nat × Nat))) : Nat → Str → Str
  | 0, s => s
  | _ + 1, [] => []
  | f + 1, c :: t =>
    if c != '$' then c :: interp re h gs f t else
    match t with
    | '$' :: t' => '$' :: interp re h gs f t'
    | '{' :: t' =>
      if t'.contains '}' then
        refText re h gs (t'.takeWhile (· != '}')) ++ interp re h gs f ((t'.dropWhile (· != '}')).drop 1)
      else '$' :: interp re h gs f t
    | _ =>
      let name := t.takeWhile isCapLetter
      if name.isEmpty then '$' :: interp re h gs f t
      else refText re h gs name ++ interp re h gs f (t.dropWhile isCapLetter)

def expand (re : Compiled) (h rep : Str) (x : Mt) : Str := interp re h (x.groups re) (rep.length + 1) rep

/-- `replacen` body: copy the text between matches, splice the expansion for each match -/
def spliceFrom (re : Compiled) (h rep : Str) : Nat → List Mt → Str
  | last, [] => h.drop last
  | last, x :: xs => extract h last x.s ++ expand re h rep x ++ spliceFrom re h rep x.e.i xs

def replacen (re : Compiled) (h : Str) (limit : Nat) (rep : Str) : Str :=
  let ms := allMatches re h
  spliceFrom re h rep 0 (if limit = 0 then ms else ms.take limit)

/-! ### properties of the tree the compiler needs -/

/-- `Hir::is_match_empty` -/
def nullable : Ast → Bool
  | .empty => true
  | .chr _ => false
  | .cls _ => false
  | .look _ => true
  | .rep mn _ _ x => mn == 0 || nullable x
  | .cap _ x => nullable x
  | .cat a b => nullable a && nullable b
  | .alt a b => nullable a || nullable b

/-- no unbounded repetition has a body that can match the empty string (no epsilon cycle in the NFA) -/
def loopsOk : Ast → Bool
  | .rep _ mx _ x => (mx.isSome || !nullable x) && loopsOk x
  | .cap _ x => loopsOk x
  | .cat a b => loopsOk a && loopsOk b
  | .alt a b => loopsOk a && loopsOk b
  | _ => true

/-- largest capture index in the tree (0 if none): `group_len` is one more -/
def maxIdx : Ast → Nat
  | .rep _ _ _ x => maxIdx x
  | .cap i x => max i (maxIdx x)
  | .cat a b => max (maxIdx a) (maxIdx b)
  | .alt a b => max (maxIdx a) (maxIdx b)
  | _ => 0

/-! ### parser (src/hir/parse.rs) -/

/-- parse outcome: `err` exactly when `Regex::new` fails, `unsup` when the pattern is outside the model -/
inductive PR (α : Type)
  | ok (a : α)
  | err (msg : String)
  | unsup (why : String)
deriving Repr

def PR.bind {α β : Type} (x : PR α) (f : α → PR β) : PR β :=
  match x with
  | .ok a => f a
  | .err e => .err e
  | .unsup w => .unsup w

instance : Monad PR where
  pure := PR.ok
  bind := PR.bind

structure Flags where
  ci : Bool := false        -- i
  ml : Bool := false        -- m
  dotnl : Bool := false     -- s
  swap : Bool := false      -- U
  crlf : Bool := false      -- R
deriving Repr, DecidableEq

/-- a sub-expression with what the later checks need and the binary tree does not remember:
    `h` = height of the `Hir` tree (`check_hir_nesting` counts an n-ary concatenation/alternation as one level),
    `states` = number of NFA states `Compiler::c` allocates for it, `extra` = its `memory_extra` in bytes
    (8 per class range, 4 per split target), `nameExtra` = bytes charged once per named group. -/
structure Item where
  ast : Ast
  h : Nat := 0
  states : Nat := 1
  extra : Nat := 0
  nameExtra : Nat := 0
deriving Repr

def Item.leaf (a : Ast) : Item := { ast := a }
def Item.ofCls (rs : List (Nat × Nat)) : Item := { ast := .cls rs, extra := 8 * rs.length }

def maxH : List Item → Nat
  | [] => 0
  | x :: xs => max x.h (maxH xs)
def sumStates : List Item → Nat
  | [] => 0
  | x :: xs => x.states + sumStates xs
def sumExtra : List Item → Nat
  | [] => 0
  | x :: xs => x.extra + sumExtra xs
def sumNameExtra : List Item → Nat
  | [] => 0
  | x :: xs => x.nameExtra + sumNameExtra xs

def foldCat : List Item → Ast
  | [] => .empty
  | [x] => x.ast
  | x :: xs => .cat x.ast (foldCat xs)
def foldAlt : List Item → Ast
  | [] => .empty
  | [x] => x.ast
  | x :: xs => .alt x.ast (foldAlt xs)

/-- `Hir::concat` / `c_concat` -/
def mkConcat : List Item → Item
  | [] => Item.leaf .empty
  | [x] => x
  | xs => ⟨foldCat xs, maxH xs + 1, sumStates xs, sumExtra xs, sumNameExtra xs⟩
/-- `Hir::alternation` (never called with an empty list) / `c_alternation`: one split, one join -/
def mkAlt : List Item → Item
  | [] => Item.leaf .empty
  | [x] => x
  | xs => ⟨foldAlt xs, maxH xs + 1, sumStates xs + 2, sumExtra xs + 4 * xs.length, sumNameExtra xs⟩
/-- `Hir::repetition` / `c_repetition` -/
def mkRep (mn : Nat) (mx : Option Nat) (greedy : Bool) (x : Item) : Item :=
  if mn = 0 ∧ mx = some 0 then Item.leaf .empty
  else if mn = 1 ∧ mx = some 1 then x
  else
    let (st, ex) : Nat × Nat :=
      match mx with
      | none =>
        if mn = 0 ∧ nullable x.ast then (x.states + 3, x.extra + 16)          -- compiled as `(x+)?`
        else (max mn 1 * x.states + 1, max mn 1 * x.extra + 8)
      | some n =>
        if mn = 0 ∧ n = 1 then (x.states + 2, x.extra + 8)                     -- `c_zero_or_one`
        else if mn = n then (n * x.states, n * x.extra)                          -- `c_exactly`
        else ((if mn = 0 then 1 else mn * x.states) + 1 + (n - mn) * (x.states + 1), n * x.extra + (n - mn) * 8)
    ⟨.rep mn mx greedy x.ast, x.h + 1, st, ex, x.nameExtra⟩
/-- `Hir::capture` / `c_capture`; a name costs its length + 4 bytes -/
def mkCap (idx : Nat) (nameLen : Option Nat) (x : Item) : Item :=
  ⟨.cap idx x.ast, x.h + 1, x.states + 2, x.extra, x.nameExtra + (match nameLen with | some n => n + 4 | none => 0)⟩

def isMeta (c : Char) : Bool :=
  c == '\\' || c == '.' || c == '+' || c == '*' || c == '?' || c == '(' || c == ')' || c == '|' || c == '[' || c == ']' ||
  c == '{' || c == '}' || c == '^' || c == '$' || c == '#' || c == '&' || c == '-' || c == '~'

/-- `regex_lite::escape` -/
def escape : Str → Str
  | [] => []
  | c :: t => if isMeta c then '\\' :: c :: escape t else c :: escape t

def isEscapable (c : Char) : Bool :=
  isMeta c || (c.toNat < 128 && !c.isAlphanum && c != '<' && c != '>')

def isHex (c : Char) : Bool := c.isDigit || ('a' ≤ c && c ≤ 'f') || ('A' ≤ c && c ≤ 'F')
def hexVal (c : Char) : Nat := if c.isDigit then c.toNat - 48 else if 'a' ≤ c && c ≤ 'f' then c.toNat - 87 else c.toNat - 55
def hexNum (s : Str) : Nat := s.foldl (fun a c => a * 16 + hexVal c) 0
def decNum (s : Str) : Nat := s.foldl (fun a c => a * 10 + (c.toNat - 48)) 0
def validScalar (v : Nat) : Bool := v < 0xD800 || (0xDFFF < v && v < 0x110000)

/-! character classes -/
abbrev Ranges := List (Nat × Nat)

def rangeLe (a b : Nat × Nat) : Bool := a.1 < b.1 || (a.1 == b.1 && a.2 ≤ b.2)
def insertRange (r : Nat × Nat) : Ranges → Ranges
  | [] => [r]
  | x :: xs => if rangeLe r x then r :: x :: xs else x :: insertRange r xs
def sortRanges (rs : Ranges) : Ranges := rs.foldr insertRange []
/-- merge overlapping or adjacent neighbours of a sorted list -/
def mergeRanges : Ranges → Ranges
  | [] => []
  | [x] => [x]
  | x :: y :: rest =>
    if max x.1 y.1 ≤ min x.2 y.2 + 1 then mergeRanges ((min x.1 y.1, max x.2 y.2) :: rest)
    else x :: mergeRanges (y :: rest)
termination_by l => l.length
/-- `Class::canonicalize` -/
def canon (rs : Ranges) : Ranges := mergeRanges (sortRanges rs)

/-- `ClassRange::ascii_case_fold` -/
def foldRange (r : Nat × Nat) : Option (Nat × Nat) :=
  if max r.1 97 ≤ min r.2 122 then some (max r.1 97 - 32, min r.2 122 - 32)
  else if max r.1 65 ≤ min r.2 90 then some (max r.1 65 + 32, min r.2 90 + 32)
  else none
/-- `Class::ascii_case_fold` -/
def caseFold (rs : Ranges) : Ranges := canon (rs ++ rs.filterMap foldRange)

def complFrom : Nat → Ranges → Ranges
  | lo, [] => if lo ≤ 0x10FFFF then [(lo, 0x10FFFF)] else []
  | lo, (s, e) :: rest => if lo < s then (lo, s - 1) :: complFrom (e + 1) rest else complFrom (max lo (e + 1)) rest
/-- `Class::negate` of a canonical class (as a set of scalar values; surrogate code points may be covered, no
    `Char` has them) -/
def negate (rs : Ranges) : Ranges := complFrom 0 rs

def clsDigit : Ranges := [(48, 57)]
def clsSpace : Ranges := [(9, 13), (32, 32)]
def clsWord : Ranges := [(48, 57), (65, 90), (95, 95), (97, 122)]

def posixClass (name : Str) : Option Ranges :=
  match String.ofList name with
  | "alnum" => some [(48, 57), (65, 90), (97, 122)]
  | "alpha" => some [(65, 90), (97, 122)]
  | "ascii" => some [(0, 127)]
  | "blank" => some [(9, 9), (32, 32)]
  | "cntrl" => some [(0, 31), (127, 127)]
  | "digit" => some clsDigit
  | "graph" => some [(33, 126)]
  | "lower" => some [(97, 122)]
  | "print" => some [(32, 126)]
  | "punct" => some [(33, 47), (58, 64), (91, 96), (123, 126)]
  | "space" => some clsSpace
  | "upper" => some [(65, 90)]
  | "word" => some clsWord
  | "xdigit" => some [(48, 57), (65, 70), (97, 102)]
  | _ => none

/-- a primitive: what `parse_escape` / `parse_class_item` can return -/
inductive Prim
  | chr (c : Char)
  | cls (rs : Ranges)
  | look (l : Look)
deriving Repr

/-- `hir_char`: under flag `i` an ASCII letter becomes the two-element class -/
def hirChar (fl : Flags) (c : Char) : Prim :=
  if fl.ci then
    match foldRange (c.toNat, c.toNat) with
    | some r => .cls (canon [(c.toNat, c.toNat), r])
    | none => .chr c
  else .chr c

def Prim.toItem : Prim → Item
  | .chr c => Item.leaf (.chr c)
  | .cls rs => Item.ofCls rs
  | .look l => Item.leaf (.look l)

def specialBoundary (name : Str) : Option Look :=
  match String.ofList name with
  | "start" => some .wordStart
  | "end" => some .wordEnd
  | "start-half" => some .wordStartHalf
  | "end-half" => some .wordEndHalf
  | _ => none

def isBoundaryNameChar (c : Char) : Bool := c.isAlpha || c == '-'

/-- `parse_hex` behind `\x`, `\u`, `\U` (`n` = 2, 4, 8) -/
def parseHex (fl : Flags) (n : Nat) (t : Str) : PR (Prim × Str) :=
  match t with
  | [] => .err "expected hexadecimal number, but saw end of pattern first"
  | '{' :: t' =>
    let ds := t'.takeWhile isHex
    match t'.dropWhile isHex with
    | [] => .err "hex brace: end of pattern"
    | '}' :: r =>
      if ds.isEmpty then .err "hex brace: no digits"
      else if validScalar (hexNum ds) then .ok (hirChar fl (Char.ofNat (hexNum ds)), r)
      else .err "hex brace: invalid"
    | _ => .err "hex brace: non-hex digit"
  | _ =>
    let ds := t.take n
    if ds.length == n && ds.all isHex then
      if validScalar (hexNum ds) then .ok (hirChar fl (Char.ofNat (hexNum ds)), t.drop n) else .err "hex fixed: invalid"
    else .err "hex fixed: bad digit or end of pattern"

/-- `parse_escape`, positioned behind the backslash -/
def parseEscape (fl : Flags) (cs : Str) : PR (Prim × Str) :=
  match cs with
  | [] => .err "escape at end of pattern"
  | c :: t =>
    if c.isDigit then .err "backreferences are not supported"
    else if c == 'p' || c == 'P' then .err "Unicode character classes are not supported"
    else if c == 'x' then parseHex fl 2 t
    else if c == 'u' then parseHex fl 4 t
    else if c == 'U' then parseHex fl 8 t
    else if c == 'd' then .ok (.cls clsDigit, t)
    else if c == 's' then .ok (.cls clsSpace, t)
    else if c == 'w' then .ok (.cls clsWord, t)
    else if c == 'D' then .ok (.cls (negate clsDigit), t)
    else if c == 'S' then .ok (.cls (negate clsSpace), t)
    else if c == 'W' then .ok (.cls (negate clsWord), t)
    else if isMeta c || isEscapable c then .ok (hirChar fl c, t)
    else if c == 'a' then .ok (hirChar fl (Char.ofNat 7), t)
    else if c == 'f' then .ok (hirChar fl (Char.ofNat 12), t)
    else if c == 't' then .ok (hirChar fl '\t', t)
    else if c == 'n' then .ok (hirChar fl '\n', t)
    else if c == 'r' then .ok (hirChar fl '\r', t)
    else if c == 'v' then .ok (hirChar fl (Char.ofNat 11), t)
    else if c == 'A' then .ok (.look .textStart, t)
    else if c == 'z' then .ok (.look .textEnd, t)
    else if c == 'B' then .ok (.look .wordNeg, t)
    else if c == '<' then .ok (.look .wordStart, t)
    else if c == '>' then .ok (.look .wordEnd, t)
    else if c == 'b' then
      match t with
      | '{' :: t' =>
        match t' with
        | [] => .err "found start of special word boundary or repetition without an end"
        | c0 :: _ =>
          if !isBoundaryNameChar c0 then .ok (.look .word, t)
          else
            let name := t'.takeWhile isBoundaryNameChar
            match t'.dropWhile isBoundaryNameChar with
            | '}' :: r =>
              match specialBoundary name with
              | some l => .ok (.look l, r)
              | none => .err "special word boundary assertion is unrecognized"
            | _ => .err "special word boundary assertion is unclosed or has an invalid character"
      | _ => .ok (.look .word, t)
    else .err "unrecognized escape sequence"

/-- `parse_class_item` -/
def parseClassItem (fl : Flags) (c : Char) (t : Str) : PR (Prim × Str) :=
  if c == '\\' then parseEscape fl t else .ok (.chr c, t)

/-- `maybe_parse_posix_class`, positioned behind the `[` -/
def tryPosix (t : Str) : Option (Ranges × Str) :=
  match t with
  | ':' :: t1 =>
    match t1 with
    | [] => none
    | c1 :: t1' =>
      let (neg, t2) := if c1 == '^' then (true, t1') else (false, t1)
      if t2.isEmpty then none else
      let name := t2.takeWhile (· != ':')
      match t2.dropWhile (· != ':') with
      | ':' :: ']' :: r =>
        match posixClass name with
        | some rs => some (if neg then negate (canon rs) else canon rs, r)
        | none => none
      | _ => none
  | _ => none

/-- the item loop of `parse_class`; fuel = remaining length + 1 -/
def classLoop (fl : Flags) : Nat → Ranges → Str → PR (Ranges × Str)
  | 0, _, _ => .unsup "fuel"
  | _ + 1, _, [] => .err "found unclosed character class"
  | f + 1, acc, c :: t =>
    if c == '[' then
      match tryPosix t with
      | some (rs, r) => classLoop fl f (acc ++ rs) r
      | none => .err "nested character classes are not supported"
    else if c == ']' then .ok (acc, t)
    else if c == '&' && t.head? == some '&' then .err "character class intersection is not supported"
    else if c == '-' && t.head? == some '-' then .err "character class difference is not supported"
    else if c == '~' && t.head? == some '~' then .err "character class symmetric difference is not supported"
    else
      match parseClassItem fl c t with
      | .err e => .err e
      | .unsup w => .unsup w
      | .ok (p1, r1) =>
        match r1 with
        | [] => .err "non-empty character class has no closing bracket"
        | d :: r2 =>
          if d != '-' || r2.head? == some ']' || r2.head? == some '-' then
            match p1 with
            | .chr a => classLoop fl f (acc ++ [(a.toNat, a.toNat)]) r1
            | .cls rs => classLoop fl f (acc ++ rs) r1
            | .look _ => .err "invalid escape sequence in character class"
          else
            match r2 with
            | [] => .err "non-empty character class has no closing bracket after dash"
            | c2 :: r3 =>
              match parseClassItem fl c2 r3 with
              | .err e => .err e
              | .unsup w => .unsup w
              | .ok (p2, r4) =>
                match p1, p2 with
                | .chr a, .chr b =>
                  if a.toNat > b.toNat then .err "invalid range in character class"
                  else classLoop fl f (acc ++ [(a.toNat, b.toNat)]) r4
                | _, _ => .err "character class ranges must start and end with a single character"

/-- `parse_class`, positioned behind the `[` -/
def parseClass (fl : Flags) (cs : Str) : PR (Ranges × Str) :=
  match cs with
  | [] => .err "found unclosed character class"
  | c :: t =>
    let (neg, s1) := if c == '^' then (true, t) else (false, c :: t)
    if s1.isEmpty then .err "negated character class has no closing bracket" else
    let dashes := s1.takeWhile (· == '-')
    let s2 := s1.dropWhile (· == '-')
    if s2.isEmpty then .err "non-empty character class has no closing bracket after dash" else
    let acc0 : Ranges := dashes.map fun _ => (45, 45)
    let start : PR (Ranges × Str) :=
      if acc0.isEmpty && s2.head? == some ']' then
        (if (s2.drop 1).isEmpty then .err "character class begins with literal ']' but has no closing bracket"
         else .ok ([(93, 93)], s2.drop 1))
      else .ok (acc0, s2)
    match start with
    | .err e => .err e
    | .unsup w => .unsup w
    | .ok (acc, s3) =>
      match classLoop fl (s3.length + 1) acc s3 with
      | .err e => .err e
      | .unsup w => .unsup w
      | .ok (rs, rest) =>
        let c1 := canon rs
        let c2 := if fl.ci then caseFold c1 else c1
        .ok (if neg then negate c2 else c2, rest)

/-- `parse_decimal` (skips Unicode white space around the digits even without flag `x`) -/
def parseDecimal (cs : Str) : PR (Nat × Str) :=
  let s1 := cs.dropWhile isWhiteSpace
  let ds := s1.takeWhile Char.isDigit
  let s2 := (s1.dropWhile Char.isDigit).dropWhile isWhiteSpace
  if ds.isEmpty then .err "expected decimal number, but found no digits"
  else if decNum ds > 4294967295 then .err "got invalid decimal number"
  else .ok (decNum ds, s2)

/-- the bounds of `parse_counted_repetition`, positioned behind the `{`; the `?` suffix is left to the caller -/
def parseCounted (cs : Str) : PR (Nat × Option Nat × Str) :=
  match cs with
  | [] => .err "found unclosed counted repetition operator"
  | _ =>
    match parseDecimal cs with
    | .err e => .err e
    | .unsup w => .unsup w
    | .ok (mn, r) =>
      match r with
      | [] => .err "found incomplete and unclosed counted repetition operator"
      | ',' :: r1 =>
        match r1 with
        | [] => .err "found counted repetition operator with a comma that is unclosed"
        | '}' :: r2 => .ok (mn, none, r2)
        | _ =>
          match parseDecimal r1 with
          | .err e => .err e
          | .unsup w => .unsup w
          | .ok (mx, r2) =>
            match r2 with
            | [] => .err "found counted repetition with min and max that is unclosed"
            | '}' :: r3 => .ok (mn, some mx, r3)
            | _ => .err "expected closing brace for counted repetition, but got something else"
      | '}' :: r1 => .ok (mn, some mn, r1)
      | _ => .err "expected closing brace for counted repetition, but got something else"

/-- `parse_flags`: returns the new flags and the rest positioned AT the terminating `:` or `)` -/
def flagsLoop : Nat → Flags → Bool → Bool → List Char → Str → PR (Flags × Str)
  | 0, _, _, _, _, _ => .unsup "fuel"
  | _ + 1, _, _, _, _, [] => .err "expected ':' or ')' to end inline flags, but got end of pattern"
  | f + 1, fl, negd, lastNeg, seen, c :: t =>
    if c == ':' || c == ')' then
      if lastNeg then .err "inline flags cannot end with negation directive" else .ok (fl, c :: t)
    else if c == '-' then
      if negd then .err "inline flag negation cannot be repeated" else
      match t with
      | [] => .err "expected ':' or ')' to end inline flags, but got end of pattern"
      | _ => flagsLoop f fl true true seen t
    else
      let en := !negd
      let upd : PR Flags :=
        if c == 'i' then .ok { fl with ci := en }
        else if c == 'm' then .ok { fl with ml := en }
        else if c == 's' then .ok { fl with dotnl := en }
        else if c == 'U' then .ok { fl with swap := en }
        else if c == 'R' then .ok { fl with crlf := en }
        else if c == 'x' then (if en then .unsup "flag x" else .ok fl)
        else if c == 'u' then .ok fl
        else .err "unrecognized inline flag"
      match upd with
      | .err e => .err e
      | .unsup w => .unsup w
      | .ok fl' =>
        if seen.contains c then .err "duplicate inline flag is not allowed" else
        match t with
        | [] => .err "expected ':' or ')' to end inline flags, but got end of pattern"
        | _ => flagsLoop f fl' negd false (c :: seen) t

/-- `is_capture_char` on ASCII -/
def isCapNameChar (c : Char) (first : Bool) : Bool :=
  if first then c == '_' || c.isAlpha else c == '_' || c == '.' || c == '[' || c == ']' || c.isAlphanum

/-- `parse_capture_name`, positioned behind the `<` -/
def nameLoop : Nat → Str → Str → PR (Str × Str)
  | 0, _, _ => .unsup "fuel"
  | _ + 1, _, [] => .err "expected end of capture group name, but got end of pattern"
  | f + 1, acc, c :: t =>
    if c == '>' then .ok (acc.reverse, t)
    else if c.toNat ≥ 128 then .unsup "non-ASCII capture group name"
    else if !isCapNameChar c acc.isEmpty then .err "invalid group name"
    else nameLoop f (c :: acc) t

inductive GKind
  | cap (idx : Nat) (nameLen : Option Nat)
  | non
deriving Repr

structure Frame where
  alts : List Item        -- the enclosing level's finished alternatives (reversed)
  cat : List Item         -- the enclosing level's current concatenation (reversed)
  flags : Flags           -- flags to restore behind the group
  kind : GKind
deriving Repr

structure PState where
  stack : List Frame := []
  alts : List Item := []
  cat : List Item := []
  flags : Flags := {}
  ncap : Nat := 0
  names : List (Str × Nat) := []
deriving Repr

def nestLimit : Nat := 50

/-- open a group: push the enclosing level (`parse_inner` → `increment_depth`) -/
def PState.push (st : PState) (oldFlags : Flags) (kind : GKind) : PR PState :=
  if st.stack.length + 1 > nestLimit then .err "pattern has too much nesting"
  else .ok { st with stack := ⟨st.alts, st.cat, oldFlags, kind⟩ :: st.stack, alts := [], cat := [] }

def startsWith (p : String) (s : Str) : Bool := Seq.isPrefix p.toList s

/-- `parse_group`, positioned behind the `(` -/
def parseGroupOpen (st : PState) (cs : Str) : PR (PState × Str) :=
  if startsWith "?=" cs || startsWith "?!" cs || startsWith "?<=" cs || startsWith "?<!" cs then
    .err "look-around is not supported"
  else if startsWith "?P<" cs || startsWith "?<" cs then
    let r := if startsWith "?P<" cs then cs.drop 3 else cs.drop 2
    match r with
    | [] => .err "expected capture group name, but got end of pattern"
    | _ =>
      match nameLoop (r.length + 1) [] r with
      | .err e => .err e
      | .unsup w => .unsup w
      | .ok (name, r') =>
        if name.isEmpty then .err "empty capture group names are not allowed"
        else if st.names.any (fun p => p.1 == name) then .err "duplicate capture group name"
        else
          let idx := st.ncap + 1
          match ({ st with ncap := idx, names := (name, idx) :: st.names } : PState).push st.flags (.cap idx (some name.length)) with
          | .err e => .err e
          | .unsup w => .unsup w
          | .ok st' => .ok (st', r')
  else
    match cs with
    | '?' :: r =>
      match r with
      | [] => .err "expected closing ')', but got end of pattern"
      | _ =>
        match flagsLoop (r.length + 1) st.flags false false [] r with
        | .err e => .err e
        | .unsup w => .unsup w
        | .ok (fl, r') =>
          match r' with
          | ')' :: r'' =>
            if r'.length == r.length then .err "empty flag directive '(?)' is not allowed"
            else .ok ({ st with flags := fl }, r'')
          | ':' :: r'' =>
            match ({ st with flags := fl } : PState).push st.flags .non with
            | .err e => .err e
            | .unsup w => .unsup w
            | .ok st' => .ok (st', r'')
          | _ => .unsup "flags terminator"
    | _ =>
      let idx := st.ncap + 1
      match ({ st with ncap := idx } : PState).push st.flags (.cap idx none) with
      | .err e => .err e
      | .unsup w => .unsup w
      | .ok st' => .ok (st', cs)

/-- the sub-expression of the level being closed -/
def PState.levelItem (st : PState) : Item := mkAlt ((mkConcat st.cat.reverse :: st.alts).reverse)

def hirDot (fl : Flags) : Item :=
  if fl.dotnl then Item.ofCls [(0, 0x10FFFF)]
  else if fl.crlf then Item.ofCls [(0, 9), (11, 12), (14, 0x10FFFF)]
  else Item.ofCls [(0, 9), (11, 0x10FFFF)]
def hirStart (fl : Flags) : Ast := .look (if fl.ml then (if fl.crlf then .lineStartCRLF else .lineStart) else .textStart)
def hirEnd (fl : Flags) : Ast := .look (if fl.ml then (if fl.crlf then .lineEndCRLF else .lineEnd) else .textEnd)

def PState.pushItem (st : PState) (x : Item) : PState := { st with cat := x :: st.cat }

/-- apply a repetition operator to the last item of the current concatenation -/
def PState.repeatLast (st : PState) (mn : Nat) (mx : Option Nat) (lazy : Bool) (what : String) : PR PState :=
  match st.cat with
  | [] => .err (what ++ " repetition operator must be applied to a sub-expression")
  | x :: xs =>
    let greedy := if st.flags.swap then lazy else !lazy
    .ok { st with cat := mkRep mn mx greedy x :: xs }

/-- the `?` suffix of a repetition operator -/
def takeLazy : Str → Bool × Str
  | '?' :: r => (true, r)
  | r => (false, r)

/-- the loop of `parse_inner` (all nesting levels, explicit stack); fuel = pattern length + 1 -/
def parseLoop : Nat → PState → Str → PR PState
  | 0, _, _ => .unsup "fuel"
  | _ + 1, st, [] =>
    match st.stack with
    | [] => .ok st
    | _ => .err "found open group without closing ')'"
  | f + 1, st, c :: cs =>
    if c == '(' then
      match parseGroupOpen st cs with
      | .err e => .err e
      | .unsup w => .unsup w
      | .ok (st', r) => parseLoop f st' r
    else if c == ')' then
      match st.stack with
      | [] => .err "found closing ')' without matching '('"
      | fr :: stack =>
        let inner := st.levelItem
        let item := match fr.kind with | .cap idx nl => mkCap idx nl inner | .non => inner
        parseLoop f { st with stack := stack, alts := fr.alts, cat := item :: fr.cat, flags := fr.flags } cs
    else if c == '|' then
      parseLoop f { st with alts := mkConcat st.cat.reverse :: st.alts, cat := [] } cs
    else if c == '[' then
      match parseClass st.flags cs with
      | .err e => .err e
      | .unsup w => .unsup w
      | .ok (rs, r) => parseLoop f (st.pushItem (Item.ofCls rs)) r
    else if c == '?' || c == '*' || c == '+' then
      let (lazy, r) := takeLazy cs
      let (mn, mx) : Nat × Option Nat := if c == '?' then (0, some 1) else if c == '*' then (0, none) else (1, none)
      match st.repeatLast mn mx lazy "uncounted" with
      | .err e => .err e
      | .unsup w => .unsup w
      | .ok st' => parseLoop f st' r
    else if c == '{' then
      match st.cat with
      | [] => .err "counted repetition operator must be applied to a sub-expression"
      | _ =>
        match parseCounted cs with
        | .err e => .err e
        | .unsup w => .unsup w
        | .ok (mn, mx, r0) =>
          let (lazy, r) := takeLazy r0
          if (match mx with | some n => decide (mn > n) | none => false) then
            .err "found counted repetition with a min bigger than its max"
          else
            match st.repeatLast mn mx lazy "counted" with
            | .err e => .err e
            | .unsup w => .unsup w
            | .ok st' => parseLoop f st' r
    else if c == '\\' then
      match parseEscape st.flags cs with
      | .err e => .err e
      | .unsup w => .unsup w
      | .ok (p, r) => parseLoop f (st.pushItem p.toItem) r
    else if c == '.' then parseLoop f (st.pushItem (hirDot st.flags)) cs
    else if c == '^' then parseLoop f (st.pushItem (Item.leaf (hirStart st.flags))) cs
    else if c == '$' then parseLoop f (st.pushItem (Item.leaf (hirEnd st.flags))) cs
    else parseLoop f (st.pushItem (hirChar st.flags c).toItem) cs

/-- `nfa::Config::default().size_limit` -/
def sizeLimit : Nat := 10 * 2 ^ 20

/-- `NFA::memory_usage` of the finished automaton: 32 bytes per state (the item, the two states of group 0, the
    match state), 16 per group, the extras -/
def memoryUsage (item : Item) : Nat :=
  32 * (item.states + 3) + 16 * (maxIdx item.ast + 1) + item.extra + item.nameExtra

/-- `Regex::new`: parse, nesting check, NFA construction (size limit) -/
def compileP (p : Str) : PR Compiled :=
  match parseLoop (p.length + 1) {} p with
  | .err e => .err e
  | .unsup w => .unsup w
  | .ok st =>
    let item := st.levelItem
    if item.h > nestLimit then .err "pattern has too much nesting"
    else if memoryUsage item > sizeLimit then .err "compiled regex exceeded size limit"
    else if !loopsOk item.ast then .unsup "nullable loop"
    else .ok ⟨item.ast, maxIdx item.ast + 1, st.names⟩

/-- the driver asks this first: `false` = the model does not answer for this pattern -/
def supported (p : Str) : Bool := match compileP p with | .unsup _ => false | _ => true
def unsupportedWhy (p : Str) : Option String := match compileP p with | .unsup w => some w | _ => none

def compile (p : Str) : Except Str Compiled :=
  match compileP p with
  | .ok re => .ok re
  | .err e => .error e.toList
  | .unsup w => .error ("unsupported: " ++ w).toList

/-- the concrete engine -/
def engine : Regex.Engine Compiled where
  compile := compile
  isMatch := fun re h => (search re (cur0 h)).isSome
  findIter := fun re h => (allMatches re h).map (Mt.text h)
  captures := fun re h => (search re (cur0 h)).map fun x => (x.groups re).map fun g => g.map fun se => extract h se.1 se.2
  capturesLen := fun re => (re.ncap - 1) + 1
  replacen := replacen

end RegexEngine
end Slac
