/-
  SlacModel.TimeFmt — chrono 0.4.45 `format::strftime` (the format-string language of `date_to_string`,
  `time_to_string` and of the optional format argument of `string_to_date/time/datetime`) and the formatting half
  `format::formatting` for a `NaiveDateTime` (no offset), i.e. what `datetime.format(fmt)` in src/stdlib/time.rs
  writes or fails to write.

  Source map (chrono-0.4.45/src/format):
  * strftime.rs `StrftimeItems::parse_next_item` (strict mode, no `unstable-locales`)  ↦ `items`
  * formatting.rs `DelayedFormat::format_numeric / format_fixed` with `off = None`      ↦ `fmtNumeric / fmtFixed`
  * formatting.rs `write_to` (first failing item aborts with `fmt::Error`)               ↦ `formatItems`
  A format string is split into runs of white space (`Item::Space`), runs of other characters (`Item::Literal`) and
  `%` specifiers; an unknown specifier is `Item::Error`.  Formatting a naive value fails (`none` here, a
  `CustomError("invalid format string")` in time.rs) exactly when an `Item::Error` or one of the offset-dependent
  items (`%z %:z %::z %:::z %#z %Z %+`) is reached.  Everything is on `List Char`; chrono works on UTF-8 bytes, which
  only matters for length tests in the parsing half (SlacModel.TimeParse).
-/
import SlacModel.TimeCore
set_option autoImplicit false
namespace Slac
namespace Time

/-- `char::is_whitespace`: the Unicode `White_Space` property -/
def isWs (c : Char) : Bool :=
  let n := c.toNat
  (decide (9 ≤ n) && decide (n ≤ 13)) || n == 32 || n == 0x85 || n == 0xA0 || n == 0x1680 ||
  (decide (0x2000 ≤ n) && decide (n ≤ 0x200A)) || n == 0x2028 || n == 0x2029 || n == 0x202F || n == 0x205F || n == 0x3000

inductive Pad where
  | none | zero | space
deriving DecidableEq, Repr

/-- `format::Numeric` (the variants a strftime specifier can produce) -/
inductive Numeric where
  | year | yearDiv100 | yearMod100 | isoYear | isoYearMod100 | quarter | month | day | weekFromSun | weekFromMon
  | isoWeek | numDaysFromSun | weekdayFromMon | ordinal | hour | hour12 | minute | second | nanosecond | timestamp
deriving DecidableEq, Repr

/-- `format::Fixed` including the internal variants reachable from a format string -/
inductive Fixed where
  | shortMonthName | longMonthName | shortWeekdayName | longWeekdayName | lowerAmPm | upperAmPm
  | nanosecond | nanosecond3 | nanosecond6 | nanosecond9 | nano3NoDot | nano6NoDot | nano9NoDot
  | timezoneName | timezoneOffset | timezoneOffsetColon | timezoneOffsetDoubleColon | timezoneOffsetTripleColon
  | timezoneOffsetPermissive | rfc3339
deriving DecidableEq, Repr

inductive Item where
  | literal (s : Str) | space (s : Str) | numeric (n : Numeric) (p : Pad) | fixed (f : Fixed) | error
deriving DecidableEq, Repr

def num0 (n : Numeric) : Item := .numeric n .zero
def nums (n : Numeric) : Item := .numeric n .space
def numN (n : Numeric) : Item := .numeric n .none

/-- the result of an unrecognised specifier: `Item::Error`; nothing after it is ever looked at -/
def specErr : List Item × Str := ([.error], [])

def dFmt : List Item := [num0 .month, .literal ['/'], num0 .day, .literal ['/'], num0 .yearMod100]
def tFmt : List Item := [num0 .hour, .literal [':'], num0 .minute, .literal [':'], num0 .second]
def dtFmt : List Item :=
  [.fixed .shortWeekdayName, .space [' '], .fixed .shortMonthName, .space [' '], nums .day, .space [' '],
   num0 .hour, .literal [':'], num0 .minute, .literal [':'], num0 .second, .space [' '], num0 .year]
def tFmtAmPm : List Item :=
  [num0 .hour12, .literal [':'], num0 .minute, .literal [':'], num0 .second, .space [' '], .fixed .upperAmPm]

/-- the `match spec { … }` of `parse_next_item`: `c` is the specifier character, `r` what follows it,
    `alt` whether `#` preceded it.  Returns the items of the specifier and the rest of the format string. -/
def specItems (c : Char) (r : Str) (alt : Bool) : List Item × Str :=
  match c with
  | 'A' => ([.fixed .longWeekdayName], r)
  | 'B' => ([.fixed .longMonthName], r)
  | 'C' => ([num0 .yearDiv100], r)
  | 'D' => (dFmt, r)
  | 'F' => ([num0 .year, .literal ['-'], num0 .month, .literal ['-'], num0 .day], r)
  | 'G' => ([num0 .isoYear], r)
  | 'H' => ([num0 .hour], r)
  | 'I' => ([num0 .hour12], r)
  | 'M' => ([num0 .minute], r)
  | 'P' => ([.fixed .lowerAmPm], r)
  | 'R' => ([num0 .hour, .literal [':'], num0 .minute], r)
  | 'S' => ([num0 .second], r)
  | 'T' => (tFmt, r)
  | 'U' => ([num0 .weekFromSun], r)
  | 'V' => ([num0 .isoWeek], r)
  | 'W' => ([num0 .weekFromMon], r)
  | 'X' => (tFmt, r)
  | 'Y' => ([num0 .year], r)
  | 'Z' => ([.fixed .timezoneName], r)
  | 'a' => ([.fixed .shortWeekdayName], r)
  | 'b' => ([.fixed .shortMonthName], r)
  | 'h' => ([.fixed .shortMonthName], r)
  | 'c' => (dtFmt, r)
  | 'd' => ([num0 .day], r)
  | 'e' => ([nums .day], r)
  | 'f' => ([num0 .nanosecond], r)
  | 'g' => ([num0 .isoYearMod100], r)
  | 'j' => ([num0 .ordinal], r)
  | 'k' => ([nums .hour], r)
  | 'l' => ([nums .hour12], r)
  | 'm' => ([num0 .month], r)
  | 'n' => ([.space ['\n']], r)
  | 'p' => ([.fixed .upperAmPm], r)
  | 'q' => ([numN .quarter], r)
  | 'r' => (tFmtAmPm, r)
  | 's' => ([numN .timestamp], r)
  | 't' => ([.space ['\t']], r)
  | 'u' => ([numN .weekdayFromMon], r)
  | 'v' => ([nums .day, .literal ['-'], .fixed .shortMonthName, .literal ['-'], num0 .year], r)
  | 'w' => ([numN .numDaysFromSun], r)
  | 'x' => (dFmt, r)
  | 'y' => ([num0 .yearMod100], r)
  | 'z' => ([.fixed (if alt then .timezoneOffsetPermissive else .timezoneOffset)], r)
  | '+' => ([.fixed .rfc3339], r)
  | ':' =>
    match r with
    | ':' :: ':' :: 'z' :: r' => ([.fixed .timezoneOffsetTripleColon], r')
    | ':' :: 'z' :: r' => ([.fixed .timezoneOffsetDoubleColon], r')
    | 'z' :: r' => ([.fixed .timezoneOffsetColon], r')
    | _ => specErr
  | '.' =>
    match r with
    | '3' :: 'f' :: r' => ([.fixed .nanosecond3], r')
    | '6' :: 'f' :: r' => ([.fixed .nanosecond6], r')
    | '9' :: 'f' :: r' => ([.fixed .nanosecond9], r')
    | 'f' :: r' => ([.fixed .nanosecond], r')
    | _ => specErr
  | '3' => match r with | 'f' :: r' => ([.fixed .nano3NoDot], r') | _ => specErr
  | '6' => match r with | 'f' :: r' => ([.fixed .nano6NoDot], r') | _ => specErr
  | '9' => match r with | 'f' :: r' => ([.fixed .nano9NoDot], r') | _ => specErr
  | '%' => ([.literal ['%']], r)
  | _ => specErr

/-- the padding modifiers `%-x %0x %_x` -/
def padOverride (c : Char) : Option Pad :=
  if c = '-' then some .none else if c = '0' then some .zero else if c = '_' then some .space else none

/-- everything after a `%`: modifier, specifier, and the rule that a padding modifier is only accepted on a
    specifier that is a single numeric item -/
def specAfterPercent (r : Str) : List Item × Str :=
  match r with
  | [] => specErr                                            -- premature end of the format string
  | c :: r1 =>
    match padOverride c with
    | some p =>
      match r1 with
      | [] => specErr
      | c2 :: r2 =>
        match specItems c2 r2 false with
        | ([.numeric k _], r') => ([.numeric k p], r')
        | _ => specErr
    | none =>
      if c = '#' then
        match r1 with
        | [] => specErr
        | c2 :: r2 => if c2 = 'z' then specItems c2 r2 true else specErr      -- HAVE_ALTERNATES = "z"
      else specItems c r1 false

/-- `StrftimeItems` as a list (fuel = length of the format string + 1: every step consumes a character) -/
def itemsGo : Nat → Str → List Item
  | 0, _ => []
  | _ + 1, [] => []
  | fuel + 1, c :: r =>
    if c = '%' then
      match specAfterPercent r with
      | (its, r') => its ++ itemsGo fuel r'
    else if isWs c then
      .space (c :: r.takeWhile isWs) :: itemsGo fuel (r.dropWhile isWs)
    else
      .literal (c :: r.takeWhile fun x => !(isWs x || x == '%')) :: itemsGo fuel (r.dropWhile fun x => !(isWs x || x == '%'))

def items (fmt : Str) : List Item := itemsGo (fmt.length + 1) fmt

/-! ### calendar fields of a date beyond year/month/day -/

def yearLen (y : Int) : Nat := if isLeap y then 366 else 365
/-- day of the year, 1-based -/
def ordinalOf (days : Int) : Nat := (days - daysFromCivil (civilFromDays days).1 1 1).toNat + 1
/-- ISO 8601: a year has 53 weeks iff 1 January is a Thursday, or a Wednesday in a leap year -/
def isoWeeksInYear (y : Int) : Nat :=
  let wd := weekday (daysFromCivil y 1 1)
  if wd = 3 || (wd = 2 && isLeap y) then 53 else 52
/-- `NaiveDate::iso_week`: (ISO year, ISO week number) -/
def isoWeekOf (days : Int) : Int × Nat :=
  let y := (civilFromDays days).1
  let w : Int := ((ordinalOf days : Int) - ((weekday days : Int) + 1) + 10) / 7
  if w < 1 then (y - 1, isoWeeksInYear (y - 1))
  else if w > isoWeeksInYear y then (y + 1, 1)
  else (y, w.toNat)
/-- `Weekday::days_since` on Monday-based numbers -/
def daysSince (wd start : Nat) : Nat := if wd < start then 7 + wd - start else wd - start
/-- `NaiveDate::weeks_from(start)`: week number where week 1 starts at the first `start` day of the year -/
def weeksFrom (days : Int) (start : Nat) : Nat := (ordinalOf days + 6 - daysSince (weekday days) start) / 7

def DT.ordinal (t : DT) : Nat := ordinalOf t.days
def DT.weekday (t : DT) : Nat := Time.weekday t.days
def DT.hour12 (t : DT) : Nat := if t.hour % 12 = 0 then 12 else t.hour % 12
def DT.isPm (t : DT) : Bool := decide (12 ≤ t.hour)
/-- `and_utc().timestamp()` -/
def DT.timestamp (t : DT) : Int := t.days * 86400 + (t.ms / 1000 : Nat)
def DT.nano (t : DT) : Nat := t.milli * 1000000

/-! ### number formatting of `core::fmt` for integers -/

/-- `{v}`, `{v:0w}`, `{v:w}` and their `+` variants for an integer: sign-aware zero padding, right alignment -/
def fmtInt (v : Int) (w : Nat) (p : Pad) (plus : Bool) : Str :=
  let sign : Str := if v < 0 then ['-'] else if plus then ['+'] else []
  let ds := Nat.toDigits 10 v.natAbs
  match p with
  | .none => sign ++ ds
  | .zero => sign ++ List.replicate (w - (sign.length + ds.length)) '0' ++ ds
  | .space => List.replicate (w - (sign.length + ds.length)) ' ' ++ sign ++ ds

/-- `write_two(v, pad)` for a value below 100 (month, day, hour, minute, second, week numbers, two-digit years:
    every caller but the century).  For larger `v` — impossible for a decoded date-time — this is plain decimal. -/
def writeTwo (v : Nat) (p : Pad) : Str :=
  if v < 10 then (match p with | .none => [] | .space => [' '] | .zero => ['0']) ++ Nat.toDigits 10 v
  else Nat.toDigits 10 v

/-- `write_two(v as u8, pad)` for the century `%C`: `year.div_euclid(100) as u8` is the quotient modulo 256 (chrono's
    years reach ±262143), and `write_two` then prints the "tens digit" `v / 10 ≤ 25` as the character `'0' + v / 10`,
    which for 10–25 is one of `:;<=>?@ABCDEFGHI` -/
def writeTwoU8 (v : Nat) (p : Pad) : Str :=
  let v := v % 256
  let ones := Char.ofNat (48 + v % 10)
  if v / 10 = 0 then
    match p with
    | .none => [ones]
    | .space => [' ', ones]
    | .zero => ['0', ones]
  else [Char.ofNat (48 + v / 10), ones]

/-- `write_year`: 4 digits for 1000..=9999 whatever the padding; otherwise `write_n(4, year, pad, sign)` with an
    explicit sign outside 0..=9999 -/
def writeYear (y : Int) (p : Pad) : Str :=
  if 1000 ≤ y ∧ y ≤ 9999 then pad 4 y.toNat
  else if 0 ≤ y ∧ y < 10000 then fmtInt y 4 p false
  else fmtInt y 5 p true

def fmtNumeric (t : DT) (n : Numeric) (p : Pad) : Str :=
  match n with
  | .year => writeYear t.year p
  | .yearDiv100 => writeTwoU8 (t.year / 100 % 256).toNat p
  | .yearMod100 => writeTwo (t.year % 100).toNat p
  | .isoYear => writeYear (isoWeekOf t.days).1 p
  | .isoYearMod100 => writeTwo ((isoWeekOf t.days).1 % 100).toNat p
  | .quarter => [Char.ofNat (48 + ((t.month - 1) / 3 + 1))]
  | .month => writeTwo t.month p
  | .day => writeTwo t.day p
  | .weekFromSun => writeTwo (weeksFrom t.days 6) p
  | .weekFromMon => writeTwo (weeksFrom t.days 0) p
  | .isoWeek => writeTwo (isoWeekOf t.days).2 p
  | .numDaysFromSun => [Char.ofNat (48 + (t.weekday + 1) % 7)]
  | .weekdayFromMon => [Char.ofNat (48 + (t.weekday + 1))]
  | .ordinal => fmtInt t.ordinal 3 p false
  | .hour => writeTwo t.hour p
  | .hour12 => writeTwo t.hour12 p
  | .minute => writeTwo t.minute p
  | .second => writeTwo t.second p
  | .nanosecond => fmtInt t.nano 9 p false
  | .timestamp => fmtInt t.timestamp 9 p false

def longMonthName (m : Nat) : Str :=
  match m with
  | 1 => ['J', 'a', 'n', 'u', 'a', 'r', 'y'] | 2 => ['F', 'e', 'b', 'r', 'u', 'a', 'r', 'y'] | 3 => ['M', 'a', 'r', 'c', 'h'] | 4 => ['A', 'p', 'r', 'i', 'l']
  | 5 => ['M', 'a', 'y'] | 6 => ['J', 'u', 'n', 'e'] | 7 => ['J', 'u', 'l', 'y'] | 8 => ['A', 'u', 'g', 'u', 's', 't']
  | 9 => ['S', 'e', 'p', 't', 'e', 'm', 'b', 'e', 'r'] | 10 => ['O', 'c', 't', 'o', 'b', 'e', 'r'] | 11 => ['N', 'o', 'v', 'e', 'm', 'b', 'e', 'r'] | _ => ['D', 'e', 'c', 'e', 'm', 'b', 'e', 'r']
def shortMonthName (m : Nat) : Str := (longMonthName m).take 3
/-- `wd`: Monday = 0 … Sunday = 6 -/
def longWeekdayName (wd : Nat) : Str :=
  match wd with
  | 0 => ['M', 'o', 'n', 'd', 'a', 'y'] | 1 => ['T', 'u', 'e', 's', 'd', 'a', 'y'] | 2 => ['W', 'e', 'd', 'n', 'e', 's', 'd', 'a', 'y'] | 3 => ['T', 'h', 'u', 'r', 's', 'd', 'a', 'y']
  | 4 => ['F', 'r', 'i', 'd', 'a', 'y'] | 5 => ['S', 'a', 't', 'u', 'r', 'd', 'a', 'y'] | _ => ['S', 'u', 'n', 'd', 'a', 'y']
def shortWeekdayName (wd : Nat) : Str := (longWeekdayName wd).take 3

/-- `format_fixed` with `off = None`: the offset-dependent items fail -/
def fmtFixed (t : DT) : Fixed → Option Str
  | .shortMonthName => some (shortMonthName t.month)
  | .longMonthName => some (longMonthName t.month)
  | .shortWeekdayName => some (shortWeekdayName t.weekday)
  | .longWeekdayName => some (longWeekdayName t.weekday)
  | .lowerAmPm => some (if t.isPm then ['p', 'm'] else ['a', 'm'])
  | .upperAmPm => some (if t.isPm then ['P', 'M'] else ['A', 'M'])
  | .nanosecond => some (if t.milli = 0 then [] else '.' :: pad 3 t.milli)   -- values are whole milliseconds
  | .nanosecond3 => some ('.' :: pad 3 t.milli)
  | .nanosecond6 => some ('.' :: pad 6 (t.milli * 1000))
  | .nanosecond9 => some ('.' :: pad 9 t.nano)
  | .nano3NoDot => some (pad 3 t.milli)
  | .nano6NoDot => some (pad 6 (t.milli * 1000))
  | .nano9NoDot => some (pad 9 t.nano)
  | .timezoneName | .timezoneOffset | .timezoneOffsetColon | .timezoneOffsetDoubleColon
  | .timezoneOffsetTripleColon | .timezoneOffsetPermissive | .rfc3339 => none

def fmtItem (t : DT) : Item → Option Str
  | .literal s => some s
  | .space s => some s
  | .numeric n p => some (fmtNumeric t n p)
  | .fixed f => fmtFixed t f
  | .error => none

/-- `DelayedFormat::write_to`: `none` = `fmt::Error` -/
def formatItems (t : DT) : List Item → Option Str
  | [] => some []
  | it :: its =>
    match fmtItem t it with
    | none => none
    | some a => match formatItems t its with
      | none => none
      | some b => some (a ++ b)

/-- `write!(s, "{}", datetime.format(fmt))`: the text, or `none` when formatting fails -/
def strftime (t : DT) (fmt : Str) : Option Str := formatItems t (items fmt)

end Time
end Slac
