/-
  SlacModel.TimeCore — the calendar core of the model of src/stdlib/time.rs over the proleptic Gregorian calendar (what chrono's NaiveDate
  implements): date-time numbers are days since 1970-01-01 with the time of day as the fraction.
  Calendar arithmetic is exact Int arithmetic (`/` and `%` on Int are floor division / non-negative remainder
  for positive divisors).  Layering: TimeCore (this file: calendar, decode/encode, component builtins) ← TimeFmt (strftime language, formatting)
  ← TimeParse (chrono's parser) ← Time (the string builtins) ← TimeRfc (RFC 2822/3339 builtins).
-/
import SlacModel.Stdlib
set_option autoImplicit false
namespace Slac
namespace Time

def isLeap (y : Int) : Bool := y % 4 == 0 && (y % 100 != 0 || y % 400 == 0)

def daysInMonth (y : Int) (m : Nat) : Nat :=
  match m with
  | 1 | 3 | 5 | 7 | 8 | 10 | 12 => 31
  | 4 | 6 | 9 | 11 => 30
  | 2 => if isLeap y then 29 else 28
  | _ => 0

/-- chrono's NaiveDate range -/
def minYear : Int := -262143
def maxYear : Int := 262142

def validDate (y : Int) (m d : Nat) : Bool :=
  decide (minYear ≤ y) && decide (y ≤ maxYear) && decide (1 ≤ m) && decide (m ≤ 12) && decide (1 ≤ d) && decide (d ≤ daysInMonth y m)

/-- days since 1970-01-01 of a civil date -/
def daysFromCivil (y : Int) (m d : Nat) : Int :=
  let y' : Int := if m ≤ 2 then y - 1 else y
  let era : Int := y' / 400
  let yoe : Int := y' - era * 400
  let mp : Int := ((m : Int) + 9) % 12
  let doy : Int := (153 * mp + 2) / 5 + (d : Int) - 1
  let doe : Int := yoe * 365 + yoe / 4 - yoe / 100 + doy
  era * 146097 + doe - 719468

/-- civil date of a day number -/
def civilFromDays (z : Int) : Int × Nat × Nat :=
  let z := z + 719468
  let era : Int := z / 146097
  let doe : Int := z - era * 146097
  let yoe : Int := (doe - doe / 1460 + doe / 36524 - doe / 146096) / 365
  let y : Int := yoe + era * 400
  let doy : Int := doe - (365 * yoe + yoe / 4 - yoe / 100)
  let mp : Int := (5 * doy + 2) / 153
  let d : Int := doy - (153 * mp + 2) / 5 + 1
  let m : Int := if mp < 10 then mp + 3 else mp - 9
  (if m ≤ 2 then y + 1 else y, m.toNat, d.toNat)

/-- Monday = 0 … Sunday = 6 (1970-01-01 was a Thursday) -/
def weekday (days : Int) : Nat := ((days + 3) % 7).toNat

def msPerDay : Int := 86400000

structure DT where
  days : Int          -- days since 1970-01-01
  ms : Nat            -- millisecond of the day, < 86 400 000
deriving DecidableEq, Repr

def DT.year (t : DT) : Int := (civilFromDays t.days).1
def DT.month (t : DT) : Nat := (civilFromDays t.days).2.1
def DT.day (t : DT) : Nat := (civilFromDays t.days).2.2
def DT.hour (t : DT) : Nat := t.ms / 3600000
def DT.minute (t : DT) : Nat := t.ms / 60000 % 60
def DT.second (t : DT) : Nat := t.ms / 1000 % 60
def DT.milli (t : DT) : Nat := t.ms % 1000
def DT.totalMs (t : DT) : Int := t.days * msPerDay + t.ms

/-- `DateTime::from_timestamp_millis`: in range iff the date is a NaiveDate -/
def ofMillis (ms : Int) : Option DT :=
  let days := ms / msPerDay
  let y := (civilFromDays days).1
  if minYear ≤ y && y ≤ maxYear then some ⟨days, (ms % msPerDay).toNat⟩ else none

variable {N : Type} [NumX N]
open Stdlib

def dayLen : N := NumX.ofNat 86400000

/-- `NaiveDateTime::try_from(&Value)`: `(value * MS_PER_DAY).round() as i64`, then `from_timestamp_millis` -/
def decode : Value N → Except NativeError DT
  | .num x =>
    match ofMillis (NumX.toI64 (NumX.round (NumOps.mul x dayLen))) with
    | some t => .ok t
    | none => .error (custom "datetime out of range")
  | _ => .error .wrongParameterType

/-- `Value::from(NaiveDateTime)`: `timestamp_millis as f64 / MS_PER_DAY` -/
def encode (t : DT) : Value N := .num (NumOps.div (NumX.ofInt t.totalMs) dayLen)

def component (f : DT → N) : List (Value N) → Res N
  | [v] => match decode v with
    | .ok t => .ok (.num (f t))
    | .error e => .error e
  | _ => .error (.wrongParameterCount 1)

def year : List (Value N) → Res N := component fun t => NumX.ofInt t.year
def month : List (Value N) → Res N := component fun t => NumX.ofNat t.month
def day : List (Value N) → Res N := component fun t => NumX.ofNat t.day
def hour : List (Value N) → Res N := component fun t => NumX.ofNat t.hour
def minute : List (Value N) → Res N := component fun t => NumX.ofNat t.minute
def second : List (Value N) → Res N := component fun t => NumX.ofNat t.second
def millisecond : List (Value N) → Res N := component fun t => NumX.ofNat t.milli
def dayOfWeek : List (Value N) → Res N := component fun t => NumX.ofNat (weekday t.days)

def isLeapYear : List (Value N) → Res N
  | [v] => match decode v with
    | .ok t => .ok (.bool (isLeap t.year))
    | .error e => .error e
  | _ => .error (.wrongParameterCount 1)

def encodeDate : List (Value N) → Res N
  | [.num y, .num m, .num d] =>
    let yi := NumX.toI32 y; let mi := NumX.toU32 m; let di := NumX.toU32 d
    if validDate yi mi di then .ok (encode ⟨daysFromCivil yi mi di, 0⟩)
    else .error (custom "invalid date parameters")
  | [_, _, _] => .error .wrongParameterType
  | _ => .error (.wrongParameterCount 3)

/-- `NaiveTime::from_hms_milli_opt`: a millisecond part of 1000–1999 is accepted when sec = 59 (leap second) -/
def validTime (h m s ms : Nat) : Bool :=
  decide (h < 24) && decide (m < 60) && decide (s < 60) && (decide (ms < 1000) || (decide (s = 59) && decide (ms < 2000)))

def encodeTime (params : List (Value N)) : Res N :=
  match defaultNumber params 3 (NumOps.zero : N) with
  | .error e => .error e
  | .ok milli =>
    match params with
    | .num h :: .num m :: .num s :: _ =>
      if NumX.ge0 h && NumX.ge0 m && NumX.ge0 s && NumX.ge0 milli then
        let hi := NumX.toU32 h; let mi := NumX.toU32 m; let si := NumX.toU32 s; let li := NumX.toU32 milli
        if validTime hi mi si li then .ok (.num (NumOps.div (NumX.ofInt (((hi * 3600 + mi * 60 + si) * 1000 + li : Nat) : Int)) dayLen))
        else .error (custom "invalid time parameters")
      else .error (custom "invalid time parameters")
    | _ :: _ :: _ :: _ => .error .wrongParameterType
    | _ => .error (.wrongParameterCount 3)

/-- `checked_add_months` / `checked_sub_months` on the date part: whole months, day clamped to the target month -/
def addMonths (t : DT) (k : Int) : Option DT :=
  let (y, m, d) := civilFromDays t.days
  let total : Int := y * 12 + ((m : Int) - 1) + k
  let y' := total / 12
  let m' := (total % 12).toNat + 1
  if minYear ≤ y' && y' ≤ maxYear then
    some ⟨daysFromCivil y' m' (min d (daysInMonth y' m')), t.ms⟩
  else none

def incMonth (params : List (Value N)) : Res N :=
  match defaultNumber params 1 (NumOps.ofBool true : N) with
  | .error e => .error e
  | .ok inc =>
    match params with
    | v :: _ =>
      match decode v with
      | .error e => .error e
      | .ok t =>
        let delta : Int := (NumX.toI32 inc).natAbs
        if NumX.gt0 inc then
          match addMonths t delta with
          | some t' => .ok (encode t')
          | none => .error (custom "inc_month increment overflow")
        else if NumX.lt0 inc then
          match addMonths t (-delta) with
          | some t' => .ok (encode t')
          | none => .error (custom "inc_month decrement underflow")
        else .ok (encode t)
    | _ => .error (.wrongParameterCount 1)

/-! ### zero-padded decimal fields and the canonical texts `YYYY-MM-DD`, `HH:MM:SS` -/
def pad (w : Nat) (n : Nat) : Str := let ds := Nat.toDigits 10 n; List.replicate (w - ds.length) '0' ++ ds

/-- `%Y`: zero-padded to 4 digits; years outside 0–9999 carry an explicit sign -/
def fmtYear (y : Int) : Str :=
  if 0 ≤ y && y ≤ 9999 then pad 4 y.toNat
  else if y < 0 then '-' :: pad 4 y.natAbs else '+' :: pad 4 y.toNat

def digit? (c : Char) : Option Nat := if '0' ≤ c && c ≤ '9' then some (c.toNat - 48) else none
def num2 (a b : Char) : Option Nat := do let x ← digit? a; let y ← digit? b; pure (x * 10 + y)
def num4 (a b c d : Char) : Option Nat := do let x ← num2 a b; let y ← num2 c d; pure (x * 100 + y)

/-- reference parser for the canonical text `YYYY-MM-DD` only (the builtin uses chrono's parser, SlacModel.TimeParse;
    SlacProofs.TimeStr shows the two agree on canonical texts) -/
def parseDate : Str → Option (Option (Int × Nat × Nat))
  | [y1, y2, y3, y4, '-', m1, m2, '-', d1, d2] =>
    match num4 y1 y2 y3 y4, num2 m1 m2, num2 d1 d2 with
    | some y, some m, some d => some (if validDate y m d then some (y, m, d) else none)
    | _, _, _ => none
  | _ => none
/-- reference parser for the canonical text `HH:MM:SS` only; a second of 60 is chrono's leap second, rejected by the builtin -/
def parseTime : Str → Option (Option Nat)
  | [h1, h2, ':', m1, m2, ':', s1, s2] =>
    match num2 h1 h2, num2 m1 m2, num2 s1 s2 with
    | some h, some m, some s => some (if h < 24 && m < 60 && s < 60 then some ((h * 3600 + m * 60 + s) * 1000) else none)
    | _, _, _ => none
  | _ => none

end Time
end Slac
