/-
  SlacModel.Unlex — the text level of compiling: `slac::compile` (src/lib.rs: `Scanner::tokenize` then
  `Compiler::compile_ast`) and the canonical source text of a token list ("un-lexer").

  Rust has no un-lexer; `tokenText` / `unlex` are specification devices: the text a person (or a pretty printer)
  would write for a token list — punctuation as the scanner reads it, keywords in lower case, string contents
  between quotes with every quote doubled, identifiers as they are, one space between tokens.  How numbers are
  printed is a parameter `pr : N → Str` (for `f64` the project uses `F64.display`).

  No Mathlib.  `quote` is the one of SlacProofs.ScannerString (a Mathlib-free file that only imports the scanner
  model), reused so that the string-literal theorems apply verbatim.
-/
import SlacModel.Scanner
import SlacModel.Parser
import SlacProofs.ScannerString
set_option autoImplicit false
namespace Slac.Unlex
variable {N : Type}

/-- `slac::compile`: `let tokens = Scanner::tokenize(source)?; Compiler::compile_ast(tokens)` -/
def compile [NumOps N] (cc : Scanner.CharClass) (src : Str) : COut N (Expr N) :=
  match Scanner.scan (N := N) cc src with
  | .ok toks => Parser.parse toks
  | .err e => .err e
  | .outOfFuel => .outOfFuel
  | .panic => .panic

/-- the canonical source text of a token; `pr` prints numbers.  A literal array value has no source text
    (arrays are written with brackets and are not literal tokens): the empty text, excluded by `LexValid`. -/
def tokenText (pr : N → Str) : Token N → Str
  | .leftParen => ['(']
  | .rightParen => [')']
  | .leftBracket => ['[']
  | .rightBracket => [']']
  | .plus => ['+']
  | .minus => ['-']
  | .star => ['*']
  | .slash => ['/']
  | .comma => [',']
  | .greater => ['>']
  | .greaterEqual => ['>', '=']
  | .less => ['<']
  | .lessEqual => ['<', '=']
  | .equal => ['=']
  | .notEqual => ['<', '>']
  | .and => ['a', 'n', 'd']
  | .or => ['o', 'r']
  | .xor => ['x', 'o', 'r']
  | .not => ['n', 'o', 't']
  | .div => ['d', 'i', 'v']
  | .mod => ['m', 'o', 'd']
  | .literal (.bool true) => ['t', 'r', 'u', 'e']
  | .literal (.bool false) => ['f', 'a', 'l', 's', 'e']
  | .literal (.str s) => Scanner.quote s
  | .literal (.num x) => pr x
  | .literal (.arr _) => []
  | .identifier n => n

/-- the token texts joined by single spaces -/
def unlex (pr : N → Str) : List (Token N) → Str
  | [] => []
  | [t] => tokenText pr t
  | t :: t' :: r => tokenText pr t ++ ' ' :: unlex pr (t' :: r)

/- the leaf tokens of a tree, left to right: its literals, variable names and function names -/
mutual
def leaves : Expr N → List (Token N)
  | .unary r _ => leaves r
  | .binary l r _ => leaves l ++ leaves r
  | .ternary l m r _ => leaves l ++ (leaves m ++ leaves r)
  | .array es => leavesList es
  | .lit v => [.literal v]
  | .var n => [.identifier n]
  | .call n ps => .identifier n :: leavesList ps
def leavesList : List (Expr N) → List (Token N)
  | [] => []
  | e :: es => leaves e ++ leavesList es
end

/-- the number literals of a tree -/
def numLits (e : Expr N) : List N :=
  (leaves e).filterMap fun
    | .literal (.num x) => some x
    | _ => none

end Slac.Unlex
