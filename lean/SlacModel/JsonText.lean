/-
  SlacModel.JsonText — the JSON TEXT layer that serde_json puts between SLAC's serde mapping (SlacModel.Json) and the
  stored text: `printJson` = `serde_json::to_string`, `parseJson` = `serde_json::from_str` (into the data model).
  Sources read: serde_json-1.0.151 (the version in /repo/Cargo.lock and the harness lock; feature `float_roundtrip`
  in the harness) `src/ser.rs` (`format_escaped_str_contents`, `ESCAPE`, `CompactFormatter`), `src/de.rs`
  (`parse_integer`, `parse_number`, `check_recursion!`, `remaining_depth: 128`), `src/read.rs` (`parse_escape`,
  `parse_unicode_escape`), and zmij-1.0.23 `src/lib.rs` (`write`): serde_json ≥ 1.0.150 formats f64 with `zmij`, not
  `ryu`.  zmij's output is ryu's (`ryu-1.0.20/src/pretty/mod.rs` `format64`: same digits, same thresholds) except that a
  non-negative exponent carries a `+` sign (`1e+21` where ryu prints `1e21`).  `layout` takes that as a flag.

  Numbers: shortest decimal digits that read back as the double, the closest such; on an exact tie between two
  candidates the EVEN digit string (ryu/zmij; Rust's `Display` — `F64.display` — goes up instead: 2^50 + 0.25 is
  `1125899906842624.2` here and `1125899906842624.3` there).
  Parser: RFC 8259 grammar; an integer literal that fits u64 / i64 becomes `Json.int` (`-0` is the float -0.0),
  every other number is the nearest double (`F64.parse`), non-finite results are errors ("number out of range");
  nesting depth limit 128 (`remaining_depth`; `recursion limit exceeded`); duplicate keys are kept in order.
  No Mathlib.
-/
import SlacModel.Json
import SlacModel.Display
set_option autoImplicit false
namespace Slac
namespace JsonText
open F64

/-! ### strings -/

/-- lower-case hex digit (serde_json `HEX_DIGITS = b"0123456789abcdef"`) -/
def hexDigit (n : Nat) : Char := if n < 10 then Char.ofNat (48 + n) else Char.ofNat (87 + n)

/-- serde_json `ESCAPE` table + `write_char_escape`: `"` `\` and the code points below U+0020 are escaped, everything
    else (U+007F, U+2028, non-ASCII) is written raw -/
def escapeChar (c : Char) : Str :=
  if c = '"' then ['\\', '"']
  else if c = '\\' then ['\\', '\\']
  else if c.toNat < 0x20 then
    if c = '\x08' then ['\\', 'b']
    else if c = '\x0c' then ['\\', 'f']
    else if c = '\n' then ['\\', 'n']
    else if c = '\r' then ['\\', 'r']
    else if c = '\t' then ['\\', 't']
    else ['\\', 'u', '0', '0', hexDigit (c.toNat / 16), hexDigit (c.toNat % 16)]
  else [c]

def escapeStr (s : Str) : Str := s.flatMap escapeChar

/-- a string literal -/
def printString (s : Str) : Str := '"' :: (escapeStr s ++ ['"'])

/-! ### numbers -/

/-- the digit search of `F64.displaySearch` with ryu's tie rule: of two equally close candidates the even one -/
def jsonSearch (ax : Float) (num den : Nat) (k : Int) (n : Nat) : Nat → Nat × Int
  | 0 => (0, 0)
  | fuel + 1 =>
    let p : Int := k - n
    let vn : Nat := if p ≥ 0 then num else num * 10 ^ (-p).toNat
    let vd : Nat := if p ≥ 0 then den * 10 ^ p.toNat else den
    let lo := vn / vd
    let hi := lo + 1
    let back (c : Nat) : Bool :=
      let y := if p ≥ 0 then Float.ofScientific c false p.toNat else Float.ofScientific c true (-p).toNat
      y == ax
    let okLo := lo > 0 && back lo
    let okHi := back hi
    let preferLo := 2 * vn < (lo + hi) * vd || (2 * vn == (lo + hi) * vd && lo % 2 == 0)
    if okLo && okHi then (if preferLo then (lo, p) else (hi, p))
    else if okLo then (lo, p)
    else if okHi then (hi, p)
    else jsonSearch ax num den k (n + 1) fuel

/-- shortest round-trip digits c and decimal exponent p (value c·10^p, no trailing zero in c) of a finite positive
    double — what ryu's `d2d` / zmij's `to_decimal` return -/
def shortest (ax : Float) : Nat × Int :=
  let (m, e) := decode ax
  let num : Nat := if e ≥ 0 then m <<< e.toNat else m
  let den : Nat := if e ≥ 0 then 1 else 1 <<< (-e).toNat
  let k0 : Int := (decLen num : Int) - (decLen den : Int)
  let k : Int :=
    let pow (i : Int) : Nat × Nat := if i ≥ 0 then (10 ^ i.toNat, 1) else (1, 10 ^ (-i).toNat)
    let ge (i : Int) : Bool := let (pn, pd) := pow i; ratCmp num den pn pd != .lt
    if ge (k0 + 1) then k0 + 2 else if ge k0 then k0 + 1 else if ge (k0 - 1) then k0 else k0 - 1
  let (c, p) := jsonSearch ax num den k 1 18
  stripZeros c p 20

/-- the exponent suffix: `e-7`, and `e+21` (zmij, `plus = true`) or `e21` (ryu, `plus = false`) -/
def expSuffix (plus : Bool) (ex : Int) : Str :=
  'e' :: ((if ex < 0 then ['-'] else if plus then ['+'] else []) ++ Nat.toDigits 10 ex.natAbs)

/-- ryu `format64` / zmij `write`: the five layouts of the digits c (k of them) and exponent p, kk = k + p -/
def layout (plus : Bool) (c : Nat) (p : Int) : Str :=
  let ds := Nat.toDigits 10 c
  let kk : Int := (ds.length : Int) + p
  if 0 ≤ p ∧ kk ≤ 16 then ds ++ (List.replicate p.toNat '0' ++ ['.', '0'])       -- 1234e7 -> 12340000000.0
  else if 0 < kk ∧ kk ≤ 16 then ds.take kk.toNat ++ '.' :: ds.drop kk.toNat       -- 1234e-2 -> 12.34
  else if -5 < kk ∧ kk ≤ 0 then '0' :: '.' :: (List.replicate (-kk).toNat '0' ++ ds)   -- 1234e-6 -> 0.001234
  else if ds.length = 1 then ds ++ expSuffix plus (kk - 1)                        -- 1e30
  else ds.take 1 ++ '.' :: (ds.drop 1 ++ expSuffix plus (kk - 1))                 -- 1234e30 -> 1.234e33

/-- `serialize_f64`: `null` for a non-finite value, else the sign, `0.0` for zero, else the layout of the shortest digits -/
def printNumWith (plus : Bool) (x : Float) : Str :=
  if !isFinite x then ['n', 'u', 'l', 'l']
  else
    let sign : Str := if signBit x then ['-'] else []
    if isZero x then sign ++ ['0', '.', '0']
    else
      let (c, p) := shortest (if signBit x then -x else x)
      sign ++ layout plus c p

/-- serde_json 1.0.151 (zmij) -/
def printNum (x : Float) : Str := printNumWith true x

/-- itoa -/
def printInt (i : Int) : Str := if i < 0 then '-' :: Nat.toDigits 10 i.natAbs else Nat.toDigits 10 i.toNat

/-! ### `serde_json::to_string` (CompactFormatter) -/
mutual
def printJson : Json Float → Str
  | .null => ['n', 'u', 'l', 'l']
  | .bool b => if b then ['t', 'r', 'u', 'e'] else ['f', 'a', 'l', 's', 'e']
  | .num x => printNum x
  | .int i => printInt i
  | .str s => printString s
  | .arr xs => '[' :: printSeq true xs
  | .obj fs => '{' :: printMembers true fs
/-- the elements (comma separated) and the closing bracket -/
def printSeq (first : Bool) : List (Json Float) → Str
  | [] => [']']
  | x :: xs => (if first then [] else [',']) ++ (printJson x ++ printSeq false xs)
/-- the members (comma separated, `"key":value`) and the closing brace -/
def printMembers (first : Bool) : List (Str × Json Float) → Str
  | [] => ['}']
  | (k, v) :: fs => (if first then [] else [',']) ++ (printString k ++ ':' :: (printJson v ++ printMembers false fs))
end

/-! ### the same printer with an accumulator (what the compiled driver runs)
  `printJson x ++ rest` copies the text of `x` once per enclosing container; the accumulator version conses every
  character once.  `printJson_eq_printJsonFast` (proved below, `@[csimp]`) makes the compiler use it for `printJson`;
  theorems keep talking about `printJson`. -/
mutual
def printAcc : Json Float → Str → Str
  | .null, acc => 'n' :: 'u' :: 'l' :: 'l' :: acc
  | .bool b, acc => if b then 't' :: 'r' :: 'u' :: 'e' :: acc else 'f' :: 'a' :: 'l' :: 's' :: 'e' :: acc
  | .num x, acc => printNum x ++ acc
  | .int i, acc => printInt i ++ acc
  | .str s, acc => '"' :: (escapeStr s ++ '"' :: acc)
  | .arr xs, acc => '[' :: printSeqAcc true xs acc
  | .obj fs, acc => '{' :: printMembersAcc true fs acc
def printSeqAcc (first : Bool) : List (Json Float) → Str → Str
  | [], acc => ']' :: acc
  | x :: xs, acc => if first then printAcc x (printSeqAcc false xs acc) else ',' :: printAcc x (printSeqAcc false xs acc)
def printMembersAcc (first : Bool) : List (Str × Json Float) → Str → Str
  | [], acc => '}' :: acc
  | (k, v) :: fs, acc =>
    if first then '"' :: (escapeStr k ++ '"' :: ':' :: printAcc v (printMembersAcc false fs acc))
    else ',' :: '"' :: (escapeStr k ++ '"' :: ':' :: printAcc v (printMembersAcc false fs acc))
end

def printJsonFast (j : Json Float) : Str := printAcc j []

theorem printAcc_eq (j : Json Float) : ∀ acc, printAcc j acc = printJson j ++ acc := by
  refine Json.rec (N := Float)
    (motive_1 := fun j => ∀ acc, printAcc j acc = printJson j ++ acc)
    (motive_2 := fun xs => ∀ b acc, printSeqAcc b xs acc = printSeq b xs ++ acc)
    (motive_3 := fun fs => ∀ b acc, printMembersAcc b fs acc = printMembers b fs ++ acc)
    (motive_4 := fun m => ∀ acc, printAcc m.2 acc = printJson m.2 ++ acc)
    ?_ ?_ ?_ ?_ ?_ ?_ ?_ ?_ ?_ ?_ ?_ ?_ j
  · intro acc; simp [printAcc, printJson]
  · intro b acc; cases b <;> simp [printAcc, printJson]
  · intro x acc; simp [printAcc, printJson]
  · intro i acc; simp [printAcc, printJson]
  · intro s acc; simp [printAcc, printJson, printString]
  · intro xs ih acc; simp [printAcc, printJson, ih]
  · intro fs ih acc; simp [printAcc, printJson, ih]
  · intro b acc; simp [printSeqAcc, printSeq]
  · intro x xs ih1 ih2 b acc; cases b <;> simp [printSeqAcc, printSeq, ih1, ih2]
  · intro b acc; simp [printMembersAcc, printMembers]
  · intro m fs ih1 ih2 b acc
    obtain ⟨k, v⟩ := m
    have ih1' : ∀ acc, printAcc v acc = printJson v ++ acc := ih1
    cases b <;> simp [printMembersAcc, printMembers, printString, ih1', ih2]
  · intro k v ih acc; exact ih acc

@[csimp] theorem printJson_eq_printJsonFast : @printJson = @printJsonFast := by
  funext j
  rw [printJsonFast, printAcc_eq, List.append_nil]

/-! ### `serde_json::from_str` -/

def isWs (c : Char) : Bool := c = ' ' || c = '\t' || c = '\n' || c = '\r'
def skipWs (cs : Str) : Str := cs.dropWhile isWs

def hexVal (c : Char) : Option Nat :=
  if 48 ≤ c.toNat ∧ c.toNat ≤ 57 then some (c.toNat - 48)
  else if 97 ≤ c.toNat ∧ c.toNat ≤ 102 then some (c.toNat - 87)
  else if 65 ≤ c.toNat ∧ c.toNat ≤ 70 then some (c.toNat - 55)
  else none

def hex4 : Str → Option (Nat × Str)
  | a :: b :: c :: d :: r =>
    match hexVal a, hexVal b, hexVal c, hexVal d with
    | some a, some b, some c, some d => some (((a * 16 + b) * 16 + c) * 16 + d, r)
    | _, _, _, _ => none
  | _ => none

/-- after a backslash (`parse_escape`): simple escapes, `\uXXXX`, surrogate pairs; lone surrogates are errors -/
def parseEscape : Str → Option (Char × Str)
  | [] => none
  | c :: r =>
    if c = '"' then some ('"', r)
    else if c = '\\' then some ('\\', r)
    else if c = '/' then some ('/', r)
    else if c = 'b' then some ('\x08', r)
    else if c = 'f' then some ('\x0c', r)
    else if c = 'n' then some ('\n', r)
    else if c = 'r' then some ('\r', r)
    else if c = 't' then some ('\t', r)
    else if c = 'u' then
      match hex4 r with
      | none => none
      | some (n, r1) =>
        if 0xD800 ≤ n ∧ n < 0xDC00 then
          match r1 with
          | b :: u :: r2 =>
            if b = '\\' ∧ u = 'u' then
              match hex4 r2 with
              | none => none
              | some (lo, r3) =>
                if 0xDC00 ≤ lo ∧ lo < 0xE000 then some (Char.ofNat (0x10000 + (n - 0xD800) * 0x400 + (lo - 0xDC00)), r3)
                else none
            else none
          | _ => none
        else if 0xDC00 ≤ n ∧ n < 0xE000 then none
        else some (Char.ofNat n, r1)
    else none

/-- the rest of a string literal after the opening quote: contents and the text after the closing quote;
    raw control characters are errors.  Fuel ≥ length + 1 suffices. -/
def parseStrBody : Nat → Str → Option (Str × Str)
  | 0, _ => none
  | _ + 1, [] => none
  | f + 1, c :: r =>
    if c = '"' then some ([], r)
    else if c = '\\' then
      match parseEscape r with
      | none => none
      | some (ch, r1) =>
        match parseStrBody f r1 with
        | none => none
        | some (s, t) => some (ch :: s, t)
    else if c.toNat < 0x20 then none
    else
      match parseStrBody f r with
      | none => none
      | some (s, t) => some (c :: s, t)

/-- a string literal at the head of the text, read with the given fuel (more than the literal's length suffices) -/
def parseStringF (fuel : Nat) : Str → Option (Str × Str)
  | [] => none
  | c :: r => if c = '"' then parseStrBody fuel r else none

/-- a string literal at the head of the text -/
def parseString (cs : Str) : Option (Str × Str) := parseStringF cs.length cs

def isNumChar (c : Char) : Bool := isDig c || c = '-' || c = '+' || c = '.' || c = 'e' || c = 'E'

/-- RFC 8259 `exp`: empty, or e/E, optional sign, at least one digit -/
def validExp : Str → Bool
  | [] => true
  | c :: r =>
    (c = 'e' || c = 'E') &&
      (let r1 := match r with
        | '+' :: t => t
        | '-' :: t => t
        | t => t
       !r1.isEmpty && r1.all isDig)

/-- RFC 8259 `number`: optional minus, `0` or a digit string without leading zero, optional fraction (at least one
    digit), optional exponent -/
def validNum (tok : Str) : Bool :=
  let t := match tok with
    | '-' :: r => r
    | r => r
  let ip := t.takeWhile isDig
  let r1 := t.dropWhile isDig
  (ip == ['0'] || (!ip.isEmpty && ip.head? != some '0')) &&
    (match r1 with
     | '.' :: r => !(r.takeWhile isDig).isEmpty && validExp (r.dropWhile isDig)
     | r => validExp r)

/-- the float reading: nearest double, overflow is an error (`number out of range`) -/
def floatOfTok (tok : Str) : Option (Json Float) :=
  match F64.parse tok with
  | some x => if isFinite x then some (.num x) else none
  | none => none

/-- a number token: an integer literal that fits u64 (non-negative) or i64 (negative, not `-0`) is `Json.int`,
    everything else the nearest double -/
def numOfTok (tok : Str) : Option (Json Float) :=
  if !validNum tok then none
  else
    match tok with
    | '-' :: ds =>
      if ds.all isDig then
        let v := digitsVal ds
        if 0 < v ∧ v ≤ 2^63 then some (.int (-(v : Int))) else floatOfTok tok
      else floatOfTok tok
    | ds =>
      if ds.all isDig then
        let v := digitsVal ds
        if v < 2^64 then some (.int (v : Int)) else floatOfTok tok
      else floatOfTok tok

/-- the number at the head of the text: the maximal run of number characters must be one valid number -/
def parseNumber (cs : Str) : Option (Json Float × Str) :=
  match numOfTok (cs.takeWhile isNumChar) with
  | some j => some (j, cs.dropWhile isNumChar)
  | none => none

/-- a keyword -/
def parseWord (w : Str) (j : Json Float) (cs : Str) : Option (Json Float × Str) :=
  if w.isPrefixOf cs then some (j, cs.drop w.length) else none

/- `fuel` makes the recursion structural (2·length + 3 always suffices: a callee's fuel stays above twice the length of
   its remaining text, so the string reader can share it — no per-token length computation); `d` is serde_json's
   `remaining_depth`: entering an array or object decrements it and fails when it reaches 0. -/
mutual
def parseValue : Nat → Nat → Str → Option (Json Float × Str)
  | 0, _, _ => none
  | f + 1, d, cs =>
    match skipWs cs with
    | [] => none
    | c :: r =>
      if c = '"' then
        match parseStrBody f r with
        | some (s, t) => some (.str s, t)
        | none => none
      else if c = '[' then
        if d ≤ 1 then none
        else
          match skipWs r with
          | [] => none
          | c1 :: r1 =>
            if c1 = ']' then some (.arr [], r1)
            else
              match parseValue f (d - 1) r with
              | none => none
              | some (x, t) =>
                match parseTail f (d - 1) t with
                | none => none
                | some (xs, u) => some (.arr (x :: xs), u)
      else if c = '{' then
        if d ≤ 1 then none
        else
          match skipWs r with
          | [] => none
          | c1 :: r1 =>
            if c1 = '}' then some (.obj [], r1)
            else
              match parseMember f (d - 1) r with
              | none => none
              | some (m, t) =>
                match parseMTail f (d - 1) t with
                | none => none
                | some (ms, u) => some (.obj (m :: ms), u)
      else if c = 't' then parseWord ['r', 'u', 'e'] (.bool true) r
      else if c = 'f' then parseWord ['a', 'l', 's', 'e'] (.bool false) r
      else if c = 'n' then parseWord ['u', 'l', 'l'] .null r
      else if c = '-' ∨ isDig c then parseNumber (c :: r)
      else none
/-- after an element: `, value …` or `]` -/
def parseTail : Nat → Nat → Str → Option (List (Json Float) × Str)
  | 0, _, _ => none
  | f + 1, d, cs =>
    match skipWs cs with
    | [] => none
    | c :: r =>
      if c = ']' then some ([], r)
      else if c = ',' then
        match parseValue f d r with
        | none => none
        | some (x, t) =>
          match parseTail f d t with
          | none => none
          | some (xs, u) => some (x :: xs, u)
      else none
/-- `"key" : value` -/
def parseMember : Nat → Nat → Str → Option ((Str × Json Float) × Str)
  | 0, _, _ => none
  | f + 1, d, cs =>
    match parseStringF f (skipWs cs) with
    | none => none
    | some (k, t) =>
      match skipWs t with
      | [] => none
      | c :: r =>
        if c = ':' then
          match parseValue f d r with
          | none => none
          | some (v, u) => some ((k, v), u)
        else none
/-- after a member: `, member …` or `}` -/
def parseMTail : Nat → Nat → Str → Option (List (Str × Json Float) × Str)
  | 0, _, _ => none
  | f + 1, d, cs =>
    match skipWs cs with
    | [] => none
    | c :: r =>
      if c = '}' then some ([], r)
      else if c = ',' then
        match parseMember f d r with
        | none => none
        | some (m, t) =>
          match parseMTail f d t with
          | none => none
          | some (ms, u) => some (m :: ms, u)
      else none
end

/-- `serde_json::from_str`: one value, only whitespace after it, nesting depth below 128 -/
def parseJson (cs : Str) : Option (Json Float) :=
  match parseValue (2 * cs.length + 3) 128 cs with
  | some (j, r) => if (skipWs r).isEmpty then some j else none
  | none => none

/-! ### nesting depth of a JSON value (arrays and objects count, scalars do not) -/
mutual
def depth : Json Float → Nat
  | .arr xs => 1 + depthL xs
  | .obj fs => 1 + depthF fs
  | _ => 0
def depthL : List (Json Float) → Nat
  | [] => 0
  | x :: xs => max (depth x) (depthL xs)
def depthF : List (Str × Json Float) → Nat
  | [] => 0
  | (_, v) :: fs => max (depth v) (depthF fs)
end

/-- the JSON side of the `Float` instance -/
def jnFloat : JsonNum Float := ⟨F64.isFinite, F64.ofInt⟩

end JsonText
end Slac
