/-
  SlacModel.Stdlib — models of src/stdlib/common.rs, string.rs, math.rs and the helpers of stdlib/mod.rs,
  one function per builtin, arm by arm (Rust slice patterns are matched top to bottom).
  `off` is `STRING_OFFSET` (1, or 0 with feature zero_based_strings).  Generic in the number type.
  Not here: between/compare/max/min/sort (SlacModel.StdOrder), time.rs (SlacModel.Time), regex.rs, random/choice.
-/
import SlacModel.NumX
import SlacModel.Seq
import SlacModel.Unicode
set_option autoImplicit false
namespace Slac
namespace Stdlib
variable {N : Type} [NumX N]

abbrev Res (N : Type) := Except NativeError (Value N)

/-- the case-mapping functions Rust takes from the Unicode database (parameters of the model) -/
structure CaseMap where
  lower : Str → Str
  upper : Str → Str

def custom (s : String) : NativeError := .custom s.toList

/-! ### helpers of stdlib/mod.rs -/
def getIndex (x : N) : Except NativeError Nat :=
  if NumX.ge0 x then .ok (NumX.toUsize x) else .error .indexNegative
def getStringIndex (off : Nat) (x : N) : Except NativeError Nat :=
  match getIndex x with
  | .ok i => if off ≤ i then .ok (i - off) else .error (.indexOutOfBounds i)
  | .error e => .error e
def defaultString (params : List (Value N)) (i : Nat) (dflt : Str) : Except NativeError Str :=
  match params[i]? with
  | some (.str v) => .ok v
  | some _ => .error .wrongParameterType
  | none => .ok dflt
def defaultNumber (params : List (Value N)) (i : Nat) (dflt : N) : Except NativeError N :=
  match params[i]? with
  | some (.num v) => .ok v
  | some _ => .error .wrongParameterType
  | none => .ok dflt
def smartVec : List (Value N) → List (Value N)
  | [.arr v] => v
  | ps => ps

def insertAt {α : Type} (l : List α) (i : Nat) (x : α) : List α := l.take i ++ x :: l.drop i

/-! ### common.rs -/
def all (params : List (Value N)) : Res N := .ok (.bool ((smartVec params).all fun v => Value.eq v (.bool true)))
def any (params : List (Value N)) : Res N := .ok (.bool ((smartVec params).any fun v => Value.eq v (.bool true)))

def at_ (off : Nat) : List (Value N) → Res N
  | [.str s, .num i] =>
    match getStringIndex off i with
    | .ok idx => match s[idx]? with
      | some c => .ok (.str [c])
      | none => .error (.indexOutOfBounds idx)
    | .error e => .error e
  | [.arr vs, .num i] =>
    match getIndex i with
    | .ok idx => match vs[idx]? with
      | some v => .ok v
      | none => .error (.indexOutOfBounds idx)
    | .error e => .error e
  | [_, _] => .error .wrongParameterType
  | _ => .error (.wrongParameterCount 2)

def bool : List (Value N) → Res N
  | [v] => .ok (.bool v.asBool)
  | _ => .error (.wrongParameterCount 1)

def contains : List (Value N) → Res N
  | [.str h, .str n] => .ok (.bool (Seq.containsSeq n h))
  | [.arr h, needle] => .ok (.bool (h.any fun v => Value.eq v needle))
  | [_, _] => .error .wrongParameterType
  | _ => .error (.wrongParameterCount 2)

def copy (off : Nat) : List (Value N) → Res N
  | [.str s, .num st, .num cnt] =>
    match getStringIndex off st with
    | .ok i => .ok (.str ((s.drop i).take (NumX.floorUsize cnt)))
    | .error e => .error e
  | [.arr s, .num st, .num cnt] =>
    match getIndex st with
    | .ok i => .ok (.arr ((s.drop i).take (NumX.floorUsize cnt)))
    | .error e => .error e
  | [_, _, _] => .error .wrongParameterType
  | _ => .error (.wrongParameterCount 3)

def count : List (Value N) → Res N
  | [.arr h, needle] => .ok (.num (NumX.ofNat (h.filter fun v => Value.eq v needle).length))
  | [.str h, .str n] => .ok (.num (NumX.ofNat (Seq.countOcc n h)))
  | [_, _] => .error .wrongParameterType
  | _ => .error (.wrongParameterCount 2)

def empty : List (Value N) → Res N
  | [v] => .ok (.bool v.isEmpty)
  | _ => .error (.wrongParameterCount 1)

def findIdx? {α : Type} (p : α → Bool) : List α → Option Nat
  | [] => none
  | a :: as => if p a then some 0 else (findIdx? p as).map (· + 1)

def find (off : Nat) : List (Value N) → Res N
  | [.str h, .str n] =>
    match Seq.findSeq n h with
    | some i => .ok (.num (NumOps.add (NumX.ofNat i) (NumX.ofNat off)))
    | none => .ok (.num (NumOps.add (NumX.ofInt (-1)) (NumX.ofNat off)))
  | [.arr h, needle] =>
    match findIdx? (fun v => Value.eq v needle) h with
    | some i => .ok (.num (NumX.ofNat i))
    | none => .ok (.num (NumX.ofInt (-1)))
  | [_, _] => .error .wrongParameterType
  | _ => .error (.wrongParameterCount 2)

/-- `ParseFloatError::to_string()` turned into a `NativeError` by `?` (`From<String>`): std has one text for the empty string and one for every other
    rejected text -/
def parseFloatError (s : Str) : NativeError :=
  if s.isEmpty then custom "cannot parse float from empty string" else custom "invalid float literal"

def float : List (Value N) → Res N
  | [.bool b] => .ok (.num (NumOps.ofBool b))
  | [.str s] => match NumOps.parse (N := N) s with
    | some x => .ok (.num x)
    | none => .error (parseFloatError s)
  | [.num x] => .ok (.num x)
  | [_] => .error .wrongParameterType
  | _ => .error (.wrongParameterCount 1)

def ifThen : List (Value N) → Res N
  | .bool c :: first :: rest => if c then .ok first else .ok ((rest.head?).getD (Value.empty first))
  | [_, _] => .error .wrongParameterType
  | _ => .error (.wrongParameterCount 2)

def insert (off : Nat) : List (Value N) → Res N
  | [.str target, .str source, .num i] =>
    match getStringIndex off i with
    | .ok idx => if idx > target.length then .error (.indexOutOfBounds idx)
                 else .ok (.str (target.take idx ++ source ++ target.drop idx))
    | .error e => .error e
  | [.arr vs, el, .num i] =>
    match getIndex i with
    | .ok idx => if idx > vs.length then .error (.indexOutOfBounds idx) else .ok (.arr (insertAt vs idx el))
    | .error e => .error e
  | [_, _, _] => .error .wrongParameterType
  | _ => .error (.wrongParameterCount 3)

def int (params : List (Value N)) : Res N :=
  match float params with
  | .ok (.num x) => .ok (.num (NumOps.trunc x))
  | .ok _ => .error .wrongParameterType
  | .error e => .error e

/-- `Value::len`: characters of a String, elements of an Array, 0 otherwise -/
def valueLen : Value N → Nat
  | .str s => s.length
  | .arr vs => vs.length
  | _ => 0

def length : List (Value N) → Res N
  | [v] => .ok (.num (NumX.ofNat (valueLen v)))
  | _ => .error (.wrongParameterCount 1)

def replaceArr (vs : List (Value N)) (frm : Value N) (to : Option (Value N)) : List (Value N) :=
  vs.filterMap fun v => if Value.eq v frm then to else some v

def replace (params : List (Value N)) : Res N :=
  match params with
  | .str v :: .str frm :: _ =>
    match defaultString params 2 [] with
    | .ok to => .ok (.str (Seq.replaceSeq frm to v))
    | .error e => .error e
  | .arr vs :: frm :: _ => .ok (.arr (replaceArr vs frm params[2]?))
  | _ :: _ :: _ => .error .wrongParameterType
  | _ => .error (.wrongParameterCount 3)

def reverse : List (Value N) → Res N
  | [.arr vs] => .ok (.arr vs.reverse)
  | [.str s] => .ok (.str s.reverse)
  | [_] => .error .wrongParameterType
  | _ => .error (.wrongParameterCount 1)

/-- `Display for Value`; `none` = array (Rust `Debug` formatting of nested values is not modelled) -/
def valueToString : Value N → Option Str
  | .bool b => some (if b then "true".toList else "false".toList)
  | .str s => some s
  | .num x => some (NumX.display x)
  | .arr _ => none

/-- `unique`: keep the first occurrence of every value (`result.contains(value)` uses `==`) -/
def dedup (vs : List (Value N)) : List (Value N) :=
  vs.foldl (fun acc v => if acc.any (fun r => Value.eq r v) then acc else acc ++ [v]) []

def unique : List (Value N) → Res N
  | [.arr vs] => .ok (.arr (dedup vs))
  | [_] => .error .wrongParameterType
  | _ => .error (.wrongParameterCount 1)

/-! ### string.rs -/
def chr : List (Value N) → Res N
  | [.num o] => if NumX.inAscii o then .ok (.str [Char.ofNat (NumX.toU32 o)]) else .error (custom "number is out of ASCII range")
  | [_] => .error .wrongParameterType
  | _ => .error (.wrongParameterCount 1)

def ord : List (Value N) → Res N
  | [.str [c]] => if c.toNat < 128 then .ok (.num (NumX.ofNat c.toNat)) else .error (custom "character is out of ASCII range")
  | [.str _] => .error (custom "string is too long")
  | [_] => .error .wrongParameterType
  | _ => .error (.wrongParameterCount 1)

def lowercase (cm : CaseMap) : List (Value N) → Res N
  | [.str t] => .ok (.str (cm.lower t))
  | [_] => .error .wrongParameterType
  | _ => .error (.wrongParameterCount 1)
def uppercase (cm : CaseMap) : List (Value N) → Res N
  | [.str t] => .ok (.str (cm.upper t))
  | [_] => .error .wrongParameterType
  | _ => .error (.wrongParameterCount 1)
def sameText (cm : CaseMap) : List (Value N) → Res N
  | [.str l, .str r] => .ok (.bool (cm.lower l == cm.lower r))
  | [_, _] => .error .wrongParameterType
  | _ => .error (.wrongParameterCount 2)

def split : List (Value N) → Res N
  | [.str line, .str sep] => .ok (.arr ((Seq.splitOn sep line).map .str))
  | [_, _] => .error .wrongParameterType
  | _ => .error (.wrongParameterCount 1)

/-- `parse_csv`: split at the separator outside double quotes; quote characters are dropped -/
def parseCsvAux (sep : Char) : Str → Bool → Str → List Str
  | field, _, [] => [field.reverse]
  | field, inQ, c :: cs =>
    if c == sep && !inQ then field.reverse :: parseCsvAux sep [] inQ cs
    else if c == '"' then parseCsvAux sep field (!inQ) cs
    else parseCsvAux sep (c :: field) inQ cs
def parseCsv (line : Str) (sep : Char) : List Str := parseCsvAux sep [] false line

/-- `char_from_value`: a String of byte length 1, i.e. a single ASCII character -/
def charFromValue : Value N → Option Char
  | .str [c] => if c.toNat < 128 then some c else none
  | _ => none

def splitCsv (params : List (Value N)) : Res N :=
  let sep := ((params[1]?).bind charFromValue).getD ';'
  match params with
  | .str line :: _ => .ok (.arr ((parseCsv line sep).map .str))
  | _ :: _ => .error .wrongParameterType
  | _ => .error (.wrongParameterCount 1)

def trim : List (Value N) → Res N
  | [.str t] => .ok (.str (trimBoth t))
  | [_] => .error .wrongParameterType
  | _ => .error (.wrongParameterCount 1)
def trimLeftF : List (Value N) → Res N
  | [.str t] => .ok (.str (trimLeft t))
  | [_] => .error .wrongParameterType
  | _ => .error (.wrongParameterCount 1)
def trimRightF : List (Value N) → Res N
  | [.str t] => .ok (.str (trimRight t))
  | [_] => .error .wrongParameterType
  | _ => .error (.wrongParameterCount 1)

/-! ### math.rs -/
def num1 (f : N → N) : List (Value N) → Res N
  | [.num x] => .ok (.num (f x))
  | [_] => .error .wrongParameterType
  | _ => .error (.wrongParameterCount 1)

def upperHexDigits (n : Nat) : Str := (Nat.toDigits 16 n).map Char.toUpper
/-- `format!("{:X}", i)` for `i : i64`: negative values print as two's complement -/
def hexUpperI64 (i : Int) : Str := upperHexDigits (if i < 0 then (2^64 + i).toNat else i.toNat)
/-- `format!("{:X}", value.trunc() as i64)`: negative values print as two's complement -/
def intToHex : List (Value N) → Res N
  | [.num x] => .ok (.str (hexUpperI64 (NumX.toI64 (NumOps.trunc x))))
  | [_] => .error .wrongParameterType
  | _ => .error (.wrongParameterCount 1)

/-- `value.floor() % 2.0 == 0.0` -/
def isEven (x : N) : Bool := NumOps.beq (NumOps.rem (NumX.floor x) (NumX.ofNat 2)) (NumOps.zero : N)
def even : List (Value N) → Res N
  | [.num x] => .ok (.bool (isEven x))
  | [_] => .error .wrongParameterType
  | _ => .error (.wrongParameterCount 1)
def odd : List (Value N) → Res N
  | [.num x] => .ok (.bool (!isEven x))
  | [_] => .error .wrongParameterType
  | _ => .error (.wrongParameterCount 1)

def pow (params : List (Value N)) : Res N :=
  match defaultNumber params 1 (NumX.ofNat 2) with
  | .error e => .error e
  | .ok ex =>
    match params with
    | .num base :: _ => .ok (.num (NumX.pow base ex))
    | _ :: _ => .error .wrongParameterType
    | _ => .error (.wrongParameterCount 1)

end Stdlib
end Slac
