/-
  SlacModel.Time — model of src/stdlib/time.rs: the string builtins `date_to_string`, `time_to_string`,
  `string_to_date`, `string_to_time`, `string_to_datetime` on top of
    SlacModel.TimeCore   calendar, `decode`/`encode`, the component builtins (year … millisecond, encode_*, inc_month)
    SlacModel.TimeFmt    chrono's strftime language and the formatter for a naive date-time
    SlacModel.TimeParse  chrono's scanners, item parser and `Parsed` resolution
  (all in `namespace Slac.Time`); the RFC 2822/3339 builtins are in SlacModel.TimeRfc.
  All five builtins are inside the model for every argument list, with one exception: `string_to_date` /
  `string_to_datetime` answer `none` (unmodelled) when the resolution reaches `NaiveDate::from_isoywd_opt` with ISO
  year `i32::MIN` (date in the previous calendar year) or `i32::MAX` (date in the next one) — only possible with `%G`
  and the literal years -2147483648 / 2147483647 — because chrono's `i32` arithmetic overflows there (panic in
  builds with overflow checks, `OutOfRange` error otherwise).
-/
import SlacModel.TimeParse
set_option autoImplicit false
namespace Slac
namespace Time

/-! ### the builtins `date_to_string`, `time_to_string`, `string_to_date`, `string_to_time`, `string_to_datetime` -/

def fmtDate : Str := ['%', 'Y', '-', '%', 'm', '-', '%', 'd']
def fmtTime : Str := ['%', 'H', ':', '%', 'M', ':', '%', 'S']
def fmtDatetime : Str := fmtDate ++ ' ' :: fmtTime

section
variable {N : Type} [NumX N]
open Stdlib

/-- `Value::from(NaiveDateTime)` on a millisecond count: one division -/
def encodeMs (ms : Int) : Value N := .num (NumOps.div (NumX.ofInt ms) dayLen)

/-- `map_err(|e| NativeError::from(e.to_string()))` and `Value::from` -/
def finish (r : PRes Int) : Res N :=
  match r with
  | .ok ms => .ok (encodeMs ms)
  | .error e => .error (custom e.msg)

/-- `reject_leap_second` -/
def rejectLeap (t : NTime) : PRes Unit := if t.nano ≥ 1000000000 then .error .outOfRange else .ok ()

/-- `write!(formatted, "{}", datetime.format(fmt)).map_err(|_| NativeError::from("invalid format string"))` -/
def fmtResult : Option Str → Res N
  | some s => .ok (.str s)
  | none => .error (custom "invalid format string")

/-- `date_to_string` / `time_to_string`: always inside the model (the result is never `none`) -/
def dateToString : List (Value N) → Option (Res N)
  | [.str fmt, v] =>
    match decode v with
    | .error e => some (.error e)
    | .ok t => some (fmtResult (strftime t fmt))
  | [_, _] => some (.error .wrongParameterType)
  | _ => some (.error (.wrongParameterCount 2))

def stringToDate (params : List (Value N)) : Option (Res N) :=
  match defaultString params 1 fmtDate with
  | .error e => some (.error e)
  | .ok fmt =>
    match params with
    | .str s :: _ =>
      match parseAll (items fmt) s with
      | .error e => some (.error (custom e.msg))
      | .ok p => if p.dateOverflow then none else some (finish (p.toNaiveDate.map fun d => d * msPerDay))
    | _ :: _ => some (.error .wrongParameterType)
    | [] => some (.error (.wrongParameterCount 1))

def stringToTime (params : List (Value N)) : Option (Res N) :=
  match defaultString params 1 fmtTime with
  | .error e => some (.error e)
  | .ok fmt =>
    match params with
    | .str s :: _ => some (finish (do
        let p ← parseAll (items fmt) s
        let t ← p.toNaiveTime
        rejectLeap t
        pure (NDT.millis ⟨0, t⟩)))
    | _ :: _ => some (.error .wrongParameterType)
    | [] => some (.error (.wrongParameterCount 1))

def stringToDatetime (params : List (Value N)) : Option (Res N) :=
  match defaultString params 1 fmtDatetime with
  | .error e => some (.error e)
  | .ok fmt =>
    match params with
    | .str s :: _ =>
      match parseAll (items fmt) s with
      | .error e => some (.error (custom e.msg))
      | .ok p => if p.datetimeOverflow 0 then none else some (finish (do
          let t ← p.toNaiveDatetime 0
          rejectLeap t.time
          pure t.millis))
    | _ :: _ => some (.error .wrongParameterType)
    | [] => some (.error (.wrongParameterCount 1))

end

end Time
end Slac
