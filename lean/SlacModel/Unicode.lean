/-
  SlacModel.Unicode — the fragment of Unicode the driver needs, as executable tables.
  Rust's `char::to_lowercase/to_uppercase/is_alphabetic/is_numeric/is_whitespace` come from the Unicode
  character database, which Lean does not have.  Theorems are stated for an arbitrary fold / classification
  (see DESIGN 4.2); this file is the *driver's instance*: exact on ASCII, Latin-1, basic Greek and Cyrillic,
  which is what the harness pools draw names and letters from.  Tie: every stream that uses it.
-/
import SlacModel.Basic
set_option autoImplicit false
namespace Slac
namespace Unicode

def inRange (c : Char) (lo hi : Nat) : Bool := lo ≤ c.toNat && c.toNat ≤ hi

/-- simple (one-to-one) lower-casing on the covered blocks -/
def lowerChar (c : Char) : Char :=
  let n := c.toNat
  if inRange c 0x41 0x5A then Char.ofNat (n + 32)
  else if inRange c 0xC0 0xDE && n != 0xD7 then Char.ofNat (n + 32)
  else if inRange c 0x391 0x3A9 && n != 0x3A2 then Char.ofNat (n + 32)
  else if inRange c 0x410 0x42F then Char.ofNat (n + 32)
  else if inRange c 0x400 0x40F then Char.ofNat (n + 80)
  else c

def isCased (c : Char) : Bool :=
  inRange c 0x41 0x5A || inRange c 0x61 0x7A || (inRange c 0xC0 0xFF && c.toNat != 0xD7 && c.toNat != 0xF7)
  || inRange c 0x391 0x3C9 || inRange c 0x400 0x44F || c.toNat == 0xAA || c.toNat == 0xB5 || c.toNat == 0xBA

/-- `str::to_lowercase`: per-character mapping, except Σ (U+03A3) which becomes ς at the end of a word
    (preceded by a cased letter and not followed by one). -/
def lowerStrAux : Bool → Str → Str
  | _, [] => []
  | prevCased, c :: cs =>
    if c.toNat == 0x3A3 then
      let followed := match cs with | d :: _ => isCased d | [] => false
      (if prevCased && !followed then Char.ofNat 0x3C2 else Char.ofNat 0x3C3) :: lowerStrAux true cs
    else if c.toNat == 0x130 then 'i' :: Char.ofNat 0x307 :: lowerStrAux true cs
    else lowerChar c :: lowerStrAux (isCased c || (prevCased && (c == '\'' || c.toNat == 0x301 || c.toNat == 0x307))) cs
def lowerStr (s : Str) : Str := lowerStrAux false s

/-- ASCII-only lower-casing (used for the case-variant theorems) -/
def asciiLowerChar (c : Char) : Char := if inRange c 0x41 0x5A then Char.ofNat (c.toNat + 32) else c
def asciiLower (s : Str) : Str := s.map asciiLowerChar

end Unicode
end Slac
