/-
  SlacModel.Unicode — the fragment of Unicode the driver needs, as executable tables.
  Rust's `char::to_lowercase/to_uppercase/is_alphabetic/is_numeric/is_whitespace` come from the Unicode
  character database, which Lean does not have.  Theorems are stated for an arbitrary fold / classification
  (see DESIGN 4.2); this file is the *driver's instance*: exact on ASCII, Latin-1, basic Greek and Cyrillic,
  which is what the harness pools draw names and letters from.  Tie: every stream that uses it.
-/
import SlacModel.Basic
import SlacModel.UnicodeTables
set_option autoImplicit false
namespace Slac
namespace Unicode

def inRange (c : Char) (lo hi : Nat) : Bool := lo ≤ c.toNat && c.toNat ≤ hi

/-- binary search in a sorted array of disjoint inclusive ranges -/
def inRanges (tbl : Array (Nat × Nat)) (n : Nat) : Bool :=
  let rec go (lo hi fuel : Nat) : Bool :=
    match fuel with
    | 0 => false
    | fuel + 1 =>
      if lo ≥ hi then false else
      let mid := (lo + hi) / 2
      let (a, b) := tbl[mid]!
      if n < a then go lo mid fuel else if n > b then go (mid + 1) hi fuel else true
  go 0 tbl.size 32

/-- binary search in a sorted array of (key, value) pairs -/
def lookupMap (tbl : Array (Nat × List Nat)) (n : Nat) : Option (List Nat) :=
  let rec go (lo hi fuel : Nat) : Option (List Nat) :=
    match fuel with
    | 0 => none
    | fuel + 1 =>
      if lo ≥ hi then none else
      let mid := (lo + hi) / 2
      let (a, v) := tbl[mid]!
      if n < a then go lo mid fuel else if n > a then go (mid + 1) hi fuel else some v
  go 0 tbl.size 32

/-- `char::is_alphabetic` -/
def isAlphabetic (c : Char) : Bool := inRanges UnicodeTables.alphabetic c.toNat
/-- `char::is_numeric` -/
def isNumeric (c : Char) : Bool := inRanges UnicodeTables.numeric c.toNat
def isCaseIgnorable (c : Char) : Bool := inRanges UnicodeTables.caseIgnorable c.toNat
def isCasedNotIgnorable (c : Char) : Bool := inRanges UnicodeTables.casedNotIgnorable c.toNat

/-- `char::to_lowercase` -/
def lowerChar (c : Char) : Str :=
  match lookupMap UnicodeTables.lowerMap c.toNat with | some l => l.map Char.ofNat | none => [c]
/-- `char::to_uppercase` -/
def upperChar (c : Char) : Str :=
  match lookupMap UnicodeTables.upperMap c.toNat with | some l => l.map Char.ofNat | none => [c]

/-- `case_ignorable_then_cased`: skip Case_Ignorable characters, then test Cased -/
def ignorableThenCased : Str → Bool
  | [] => false
  | c :: cs => if isCaseIgnorable c then ignorableThenCased cs else isCasedNotIgnorable c

/-- `str::to_lowercase`: per-character mapping, except Σ (U+03A3) which becomes ς when word-final
    (Final_Sigma: preceded by a cased letter and not followed by one, skipping case-ignorable characters).
    `before` holds the characters already seen, most recent first. -/
def lowerStrAux : Str → Str → Str
  | _, [] => []
  | before, c :: cs =>
    if c.toNat == 0x3A3 then
      (if ignorableThenCased before && !ignorableThenCased cs then Char.ofNat 0x3C2 else Char.ofNat 0x3C3) :: lowerStrAux (c :: before) cs
    else lowerChar c ++ lowerStrAux (c :: before) cs
def lowerStr (s : Str) : Str := lowerStrAux [] s
/-- `str::to_uppercase` -/
def upperStr (s : Str) : Str := s.flatMap upperChar

/-- ASCII-only lower-casing (used for the case-variant theorems) -/
def asciiLowerChar (c : Char) : Char := if inRange c 0x41 0x5A then Char.ofNat (c.toNat + 32) else c
def asciiLower (s : Str) : Str := s.map asciiLowerChar

end Unicode
end Slac
