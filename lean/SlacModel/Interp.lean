/-
  SlacModel.Interp — model of src/interpreter.rs (TreeWalkingInterpreter) as `evalT : Env → Expr → result × trace`.
  Each node's behaviour is a plain function (`unModel`, `binModel`, `ternModel`) of its children's
  (result, trace) pairs; a child's trace is appended exactly on the paths where the Rust code evaluates that child.
  The recursion only plugs children in (this is what keeps the refinement proof a case analysis on data).
-/
import SlacModel.Ast
set_option autoImplicit false
namespace Slac
variable {N : Type} [NumOps N]

abbrev R (N : Type) := Except Err (Value N) × List (Event N)

/-- binary operator table on two values (the `(_, Ok(left))` arm of interpreter.rs) -/
def binVal (op : Op) (l r : Value N) : Except Err (Value N) :=
  match op with
  | .plus => Value.add l r
  | .minus => Value.arith NumOps.sub .minus l r
  | .multiply => Value.arith NumOps.mul .multiply l r
  | .divide => Value.arith NumOps.div .divide l r
  | .div => Value.arith (fun a b => NumOps.trunc (NumOps.div a b)) .div l r
  | .mod => Value.arith NumOps.rem .mod l r
  | .xor => Value.xor l r
  | .greater => .ok (.bool (Value.cmp l r == .gt))
  | .greaterEqual => .ok (.bool (Value.cmp l r != .lt))
  | .less => .ok (.bool (Value.cmp l r == .lt))
  | .lessEqual => .ok (.bool (Value.cmp l r != .gt))
  | .equal => .ok (.bool (Value.eq l r))
  | .notEqual => .ok (.bool (!Value.eq l r))
  | op => .error (.invalidBinary op)

/- Model of interpreter.rs *after* the planned fixes D1, D2, D16 (see DESIGN §8).
   Each node's behaviour is a plain function of its children's (result, trace) pairs; a child's
   trace is appended exactly on the paths where the Rust code evaluates that child. -/

def unModel (op : Op) : R N → R N
  | (.ok v, t) =>
    (match op with
     | .minus => Value.neg v
     | .not => Value.not v
     | op => .error (.invalidUnary op), t)
  | (.error e, t) => (.error e, t)          -- D16 fixed: operand error wins

/-- `boolean::<FULL_EVAL>` applied to an evaluated right operand -/
def rightBool (tl : List (Event N)) : R N → R N
  | (.ok rv, tr) => (.ok (.bool (Value.asBool rv)), tl ++ tr)
  | (.error (.undefinedVariable _), tr) => (.ok (.bool false), tl ++ tr)   -- D2 fixed
  | (.error e, tr) => (.error e, tl ++ tr)

def binModel (op : Op) (left right : R N) : R N :=
  match op, left with
  | .and, (.ok lv, tl) => if Value.asBool lv then rightBool tl right else (.ok (.bool false), tl)
  | .and, (.error (.undefinedVariable _), tl) => (.ok (.bool false), tl)
  | .or, (.ok lv, tl) => if Value.asBool lv then (.ok (.bool true), tl) else rightBool tl right
  | .or, (.error (.undefinedVariable _), tl) => rightBool tl right          -- D1 fixed
  | op, (.ok lv, tl) =>
    match op, right with
    | op, (.ok rv, tr) => (binVal op lv rv, tl ++ tr)
    | .equal, (.error (.undefinedVariable _), tr) => (.ok (.bool (Value.isEmpty lv)), tl ++ tr)
    | .notEqual, (.error (.undefinedVariable _), tr) => (.ok (.bool (!Value.isEmpty lv)), tl ++ tr)
    | _, (.error e, tr) => (.error e, tl ++ tr)
  | .equal, (.error (.undefinedVariable _), tl) =>
    match right with
    | (.ok rv, tr) => (.ok (.bool (Value.isEmpty rv)), tl ++ tr)
    | (.error (.undefinedVariable _), tr) => (.ok (.bool true), tl ++ tr)
    | (.error e, tr) => (.error e, tl ++ tr)
  | .notEqual, (.error (.undefinedVariable _), tl) =>
    match right with
    | (.ok rv, tr) => (.ok (.bool (!Value.isEmpty rv)), tl ++ tr)
    | (.error (.undefinedVariable _), tr) => (.ok (.bool false), tl ++ tr)
    | (.error e, tr) => (.error e, tl ++ tr)
  | _, (.error e, tl) => (.error e, tl)

def ternModel (op : Op) (c m r : R N) : R N :=
  match op with
  | .ternaryCondition =>
    match c with
    | (.ok cv, tl) => if Value.asBool cv then (m.1, tl ++ m.2) else (r.1, tl ++ r.2)
    | (.error e, tl) => (.error e, tl)
  | op => (.error (.invalidTernary op), [])

mutual
def evalT (env : Env N) : Expr N → R N
  | .lit v => (.ok v, [])
  | .var n => (match env.var n with | some v => .ok v | none => .error (.undefinedVariable n), [.lookup n])
  | .array es =>
    match evalList env es with
    | (.ok vs, t) => (.ok (.arr vs), t)
    | (.error e, t) => (.error e, t)
  | .call f ps =>
    match evalList env ps with
    | (.ok vs, t) =>
      (match env.call f vs with | .ok v => .ok v | .error ne => .error (.native f ne), t ++ [.call f vs])
    | (.error e, t) => (.error e, t)
  | .unary r op => unModel op (evalT env r)
  | .binary l r op => binModel op (evalT env l) (evalT env r)
  | .ternary l m r op => ternModel op (evalT env l) (evalT env m) (evalT env r)
def evalList (env : Env N) : List (Expr N) → Except Err (List (Value N)) × List (Event N)
  | [] => (.ok [], [])
  | e :: es =>
    match evalT env e with
    | (.ok v, t) =>
      match evalList env es with
      | (.ok vs, t') => (.ok (v :: vs), t ++ t')
      | (.error e, t') => (.error e, t ++ t')
    | (.error e, t) => (.error e, t)
end

/-- `slac::execute`: the result without the trace -/
def evalR (env : Env N) (e : Expr N) : Except Err (Value N) := (evalT env e).1

end Slac
