/-
  SlacModel.Parser — model of src/compiler.rs (`Compiler`, a Pratt parser over `Vec<Token>`).

  The Rust struct keeps `tokens` and a cursor `current`; the model passes the not-yet-consumed suffix
  `tokens[current..]` around.  `advance()` = drop the head, `current()` = head?, `previous()` = the token that was
  dropped last (always passed explicitly as `t`; `previous()` is only ever called after an `advance()` that moved
  the cursor, so `PreviousTokenNotFound` / the `current - 1` underflow are unreachable and have no model outcome).

  Function by function (arm by arm, including the error values):
    parse_precedence(p)  ↦ parsePrec fuel p toks      (`Err(Eof)` at end of input — the D10 fix)
    do_prefix            ↦ doPrefix fuel t rest       (t = previous())
    the `while` loop     ↦ infixLoop fuel p left toks
    do_infix(left)       ↦ doInfix fuel t left rest   (t = previous()); `binary`, `call` inlined
    expression_list(end) ↦ exprList fuel b toks       (b = true: end = RightParen, b = false: end = RightBracket)
    grouping's chomp     ↦ chompParen
    compile / compile_ast↦ parse

  Fuel: every one of the five mutual functions spends one unit per call, so the fuel a run needs is the *depth* of
  its call tree (loop iterations of `while` count as nested calls).  `3 * length + 1` suffices for `parsePrec`
  (SlacProofs.ParserTotal); `parse` uses `4 * length + 4`.
-/
import SlacModel.Ast
import SlacModel.Token
set_option autoImplicit false
namespace Slac.Parser
variable {N : Type}

/-- a parser step: result and remaining tokens, or an error / crash outcome -/
abbrev St (N : Type) (α : Type) := COut N (α × List (Token N))

/-- the `?` operator of Rust on `COut` -/
@[inline] def andThen {α β : Type} (x : COut N α) (k : α → COut N β) : COut N β :=
  match x with
  | .ok a => k a
  | .err e => .err e
  | .outOfFuel => .outOfFuel
  | .panic => .panic

/-- `Precedence::next` (wraps from Primary to None) -/
def nextPrec (p : Nat) : Nat := if 10 ≤ p then 0 else p + 1

/-- `t == end_token` for the two end tokens `expression_list` is called with -/
def isClose : Bool → Token N → Bool
  | true, .rightParen => true
  | false, .rightBracket => true
  | _, _ => false

def closeTok : Bool → Token N
  | true => .rightParen
  | false => .rightBracket

/-- `self.chomp(&Token::RightParen)` in `grouping` -/
def chompParen (e : Expr N) : List (Token N) → St N (Expr N)
  | .rightParen :: r => .ok (e, r)
  | [] => .err .eof
  | t :: _ => .err (.invalidToken t)

/-- `if self.current() == Some(&Token::Comma) { self.advance(); }` -/
def dropComma : List (Token N) → List (Token N)
  | .comma :: r => r
  | r => r

mutual
def parsePrec : Nat → Nat → List (Token N) → St N (Expr N)
  | 0, _, _ => .outOfFuel
  | _+1, _, [] => .err .eof
  | f+1, p, t :: r => andThen (doPrefix f t r) fun x => infixLoop f p x.1 x.2
def doPrefix : Nat → Token N → List (Token N) → St N (Expr N)
  | 0, _, _ => .outOfFuel
  | f+1, t, rest =>
    match t with
    | .literal v => .ok (.lit v, rest)
    | .identifier s => .ok (.var s, rest)
    | .leftParen => andThen (parsePrec f 1 rest) fun x => chompParen x.1 x.2
    | .leftBracket => andThen (exprList f false rest) fun x => .ok (.array x.1, x.2)
    | .not => andThen (parsePrec f 8 rest) fun x => .ok (.unary x.1 .not, x.2)
    | .minus => andThen (parsePrec f 8 rest) fun x => .ok (.unary x.1 .minus, x.2)
    | _ => .err (.noValidPrefixToken t)
def infixLoop : Nat → Nat → Expr N → List (Token N) → St N (Expr N)
  | 0, _, _, _ => .outOfFuel
  | f+1, p, left, toks =>
    match toks with
    | [] => .ok (left, [])
    | t :: rest =>
      if p ≤ Token.prec t then andThen (doInfix f t left rest) fun x => infixLoop f p x.1 x.2
      else .ok (left, toks)
def doInfix : Nat → Token N → Expr N → List (Token N) → St N (Expr N)
  | 0, _, _, _ => .outOfFuel
  | f+1, t, left, rest =>
    match Token.binOp? t with
    | some op => andThen (parsePrec f (nextPrec (Token.prec t)) rest) fun x => .ok (.binary left x.1 op, x.2)
    | none =>
      match t with
      | .leftParen =>
        match left with
        | .var name => andThen (exprList f true rest) fun x => .ok (.call name x.1, x.2)
        | _ => .err (.callNotOnVariable t)
      | _ => .err (.noValidInfixToken t)
def exprList : Nat → Bool → List (Token N) → St N (List (Expr N))
  | 0, _, _ => .outOfFuel
  | f+1, b, toks =>
    match toks with
    | [] => .err .eof
    | t :: rest =>
      if isClose b t then .ok ([], rest)
      else andThen (parsePrec f 1 toks) fun x =>
        andThen (exprList f b (dropComma x.2)) fun y => .ok (x.1 :: y.1, y.2)
end

/-- fuel used by `parse`; `3 * n + 1` is what the proof needs -/
def parseFuel (n : Nat) : Nat := 4 * n + 4

/-- `compile`: the whole input must be one expression -/
def finish : St N (Expr N) → COut N (Expr N)
  | .ok (e, []) => .ok e
  | .ok (_, t :: _) => .err (.multipleExpressions t)
  | .err e => .err e
  | .outOfFuel => .outOfFuel
  | .panic => .panic

/-- `Compiler::compile_ast` -/
def parse (toks : List (Token N)) : COut N (Expr N) :=
  finish (parsePrec (parseFuel toks.length) 1 toks)

end Slac.Parser
