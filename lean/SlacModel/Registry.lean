/-
  SlacModel.Registry — the builtin table of src/stdlib/*::functions(): name ↦ model function.
  The inner `Option` is `none` where the model does not cover a call (see SlacModel.Time, `str` of arrays);
  the outer `Option` is `none` for names that are not modelled at all (regex, random, choice).
-/
import SlacModel.Stdlib
import SlacModel.StdOrder
import SlacModel.Time
import SlacModel.TimeRfc
set_option autoImplicit false
namespace Slac
namespace Registry
variable {N : Type} [NumX N]
open Stdlib

abbrev F (N : Type) := List (Value N) → Option (Res N)
def tot (f : List (Value N) → Res N) : F N := fun ps => some (f ps)

def strF : F N
  | [v] => (valueToString v).map fun s => .ok (.str s)
  | _ => some (.error (.wrongParameterCount 1))

def builtin (cm : CaseMap) (off : Nat) (name : String) : Option (F N) :=
  match name with
  | "all" => some (tot all) | "any" => some (tot any) | "at" => some (tot (at_ off))
  | "between" => some (tot StdOrder.between) | "bool" => some (tot bool) | "contains" => some (tot contains)
  | "compare" => some (tot StdOrder.compare) | "copy" => some (tot (copy off)) | "count" => some (tot count)
  | "empty" => some (tot empty) | "find" => some (tot (find off)) | "float" => some (tot float)
  | "if_then" => some (tot ifThen) | "insert" => some (tot (insert off)) | "int" => some (tot int)
  | "length" => some (tot length) | "max" => some (tot StdOrder.max) | "min" => some (tot StdOrder.min)
  | "replace" => some (tot replace) | "remove" => some (tot replace) | "reverse" => some (tot reverse)
  | "sort" => some (tot StdOrder.sort) | "str" => some strF | "unique" => some (tot unique)
  | "chr" => some (tot chr) | "ord" => some (tot ord) | "lowercase" => some (tot (lowercase cm))
  | "uppercase" => some (tot (uppercase cm)) | "same_text" => some (tot (sameText cm)) | "split" => some (tot split)
  | "split_csv" => some (tot splitCsv) | "trim" => some (tot trim) | "trim_left" => some (tot trimLeftF)
  | "trim_right" => some (tot trimRightF)
  | "abs" => some (tot (num1 NumX.abs)) | "arc_tan" => some (tot (num1 NumX.atan)) | "cos" => some (tot (num1 NumX.cos))
  | "exp" => some (tot (num1 NumX.exp)) | "frac" => some (tot (num1 NumX.fract)) | "ln" => some (tot (num1 NumX.ln))
  | "round" => some (tot (num1 NumX.round)) | "sin" => some (tot (num1 NumX.sin)) | "sqrt" => some (tot (num1 NumX.sqrt))
  | "trunc" => some (tot (num1 NumOps.trunc)) | "int_to_hex" => some (tot intToHex) | "even" => some (tot even)
  | "odd" => some (tot odd) | "pow" => some (tot pow)
  | "date" => some (tot (num1 NumOps.trunc)) | "time" => some (tot (num1 NumX.fract))
  | "date_to_string" => some Time.dateToString | "time_to_string" => some Time.dateToString
  | "string_to_date" => some Time.stringToDate | "string_to_time" => some Time.stringToTime
  | "string_to_datetime" => some Time.stringToDatetime
  | "day_of_week" => some (tot Time.dayOfWeek) | "encode_date" => some (tot Time.encodeDate)
  | "encode_time" => some (tot Time.encodeTime) | "inc_month" => some (tot Time.incMonth)
  | "is_leap_year" => some (tot Time.isLeapYear) | "year" => some (tot Time.year) | "month" => some (tot Time.month)
  | "day" => some (tot Time.day) | "hour" => some (tot Time.hour) | "minute" => some (tot Time.minute)
  | "second" => some (tot Time.second) | "millisecond" => some (tot Time.millisecond)
  -- the RFC functions are modelled for a process whose local zone is UTC (the check forces TZ=UTC)
  | "date_to_rfc3339" => some (tot TimeRfc.dateToRfc3339) | "date_to_rfc2822" => some (tot TimeRfc.dateToRfc2822)
  | "date_from_rfc3339" => some TimeRfc.dateFromRfc3339 | "date_from_rfc2822" => some TimeRfc.dateFromRfc2822
  | _ => none

end Registry
end Slac
