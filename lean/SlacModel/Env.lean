/-
  SlacModel.Env — model of src/environment.rs `StaticEnvironment` and src/function.rs `Arity`/`Function`:
  two association lists keyed by `fold name` (`get_env_key` = `str::to_lowercase`, a parameter here),
  the mutating operations, the observations, and the `Environment` trait implementation (`toEnv`).
  HashMap insert/remove/get are modelled by `ins`/`del`/`alGet` (no duplicate keys by construction).
-/
import SlacModel.Ast
set_option autoImplicit false
namespace Slac

inductive Arity | polyadic (required optional : Nat) | variadic | none
deriving DecidableEq, Repr

/-- src/function.rs `Function`; `run` is the native function pointer, `tag` identifies the object. -/
structure Fn (N : Type) where
  name : Str
  arity : Arity
  pure : Bool
  run : List (Value N) → Except NativeError (Value N)
  tag : Nat

section AList
variable {K : Type} [DecidableEq K] {β : Type}
def del (k : K) : List (K × β) → List (K × β)
  | [] => []
  | (a, b) :: l => if a = k then del k l else (a, b) :: del k l
def ins (k : K) (b : β) (l : List (K × β)) : List (K × β) := (k, b) :: del k l
def alGet (k : K) : List (K × β) → Option β
  | [] => none
  | (k', b) :: l => if k' = k then some b else alGet k l
end AList

structure StaticEnv (N : Type) where
  vars : List (Str × Value N)
  fns : List (Str × Fn N)

/-- `function_exists` arity arithmetic (src/environment.rs l.118-140) -/
def Fn.accepts {N : Type} (f : Fn N) (n : Nat) : FnRes :=
  match f.arity with
  | .polyadic r o => if n < r || n > r + o then .wrongArity r (r + o) else .exist f.pure
  | .variadic => if n > 0 then .exist f.pure else .wrongArity 1 99
  | .none => if n = 0 then .exist f.pure else .wrongArity 0 0

namespace StaticEnv
variable {N : Type}

def empty : StaticEnv N := ⟨[], []⟩

def addVariable (fold : Str → Str) (s : StaticEnv N) (n : Str) (v : Value N) : StaticEnv N :=
  { s with vars := ins (fold n) v s.vars }
def removeVariable (fold : Str → Str) (s : StaticEnv N) (n : Str) : StaticEnv N × Option (Value N) :=
  ({ s with vars := del (fold n) s.vars }, alGet (fold n) s.vars)
def clearVariables (s : StaticEnv N) : StaticEnv N := { s with vars := [] }
def addFunction (fold : Str → Str) (s : StaticEnv N) (f : Fn N) : StaticEnv N :=
  { s with fns := ins (fold f.name) f s.fns }
def addFunctions (fold : Str → Str) (s : StaticEnv N) (fs : List (Fn N)) : StaticEnv N :=
  fs.foldl (addFunction fold) s
def removeFunction (fold : Str → Str) (s : StaticEnv N) (n : Str) : StaticEnv N × Option (Fn N) :=
  ({ s with fns := del (fold n) s.fns }, alGet (fold n) s.fns)

def getVariable (fold : Str → Str) (s : StaticEnv N) (n : Str) : Option (Value N) := alGet (fold n) s.vars
def variableExists (fold : Str → Str) (s : StaticEnv N) (n : Str) : Bool := (alGet (fold n) s.vars).isSome
def call (fold : Str → Str) (s : StaticEnv N) (n : Str) (args : List (Value N)) : Except NativeError (Value N) :=
  match alGet (fold n) s.fns with
  | some f => f.run args
  | none => .error (.functionNotFound n)
def functionExists (fold : Str → Str) (s : StaticEnv N) (n : Str) (k : Nat) : FnRes :=
  match alGet (fold n) s.fns with
  | some f => f.accepts k
  | none => .notFound
/-- `list_functions` (HashMap order is not an observation: compare as multisets) -/
def listFunctions (s : StaticEnv N) : List (Fn N) := s.fns.map (·.2)

def toEnv (fold : Str → Str) (s : StaticEnv N) : Env N where
  var := getVariable fold s
  call := call fold s
  varExists := variableExists fold s
  fnExists := functionExists fold s

end StaticEnv
end Slac
