/-
  SlacModel.Num — the driver's number instance: IEEE binary64 on core `Float`.
  Everything core does not define transparently (trunc, fract, round, C fmod, casts, Rust's float grammar,
  shortest round-trip printing, ordering) is built from `toBits` with exact Nat/Int arithmetic.
  Tie: streams `num`, `cmp`, `arith` compare each of these with the Rust/hardware operation.
-/
import SlacModel.Value
set_option autoImplicit false
namespace Slac
namespace F64

def bits (x : Float) : Nat := x.toBits.toNat
def signBit (x : Float) : Bool := x.toBits >>> 63 == 1
def expBits (x : Float) : Nat := ((x.toBits >>> 52) &&& 0x7FF).toNat
def fracBits (x : Float) : Nat := (x.toBits &&& 0xFFFFFFFFFFFFF).toNat
def ofParts (neg : Bool) (bits : Nat) : Float :=
  Float.ofBits (UInt64.ofNat bits ||| (if neg then (0x8000000000000000 : UInt64) else 0))
def nan : Float := Float.ofBits 0x7FF8000000000000
def inf : Float := Float.ofBits 0x7FF0000000000000

/-! ### ordering and equality on the bit pattern (sign-magnitude key) -/

/-- magnitude part of a bit pattern -/
def magN (b : Nat) : Nat := b % 2^63
def negN (b : Nat) : Bool := decide (b / 2^63 % 2 = 1)
def isNaNN (b : Nat) : Bool := decide (magN b > 0x7FF0000000000000)
/-- sign-magnitude key: IEEE order on non-NaN values is the order of keys; ±0 ↦ 0 -/
def keyN (b : Nat) : Int := if negN b then -(magN b : Int) else (magN b : Int)
def cmpInt (a b : Int) : Ordering := if a < b then .lt else if b < a then .gt else .eq
/-- `f64::partial_cmp` on bit patterns -/
def pcmpN (a b : Nat) : Option Ordering :=
  if isNaNN a || isNaNN b then none else some (cmpInt (keyN a) (keyN b))
/-- IEEE `==` on bit patterns -/
def beqN (a b : Nat) : Bool := !(isNaNN a || isNaNN b) && decide (keyN a = keyN b)

def pcmp (a b : Float) : Option Ordering := pcmpN (bits a) (bits b)
def beq (a b : Float) : Bool := beqN (bits a) (bits b)
def isNaN (x : Float) : Bool := isNaNN (bits x)
def isInf (x : Float) : Bool := decide (magN (bits x) = 0x7FF0000000000000)
def isFinite (x : Float) : Bool := decide (magN (bits x) < 0x7FF0000000000000)
def isZero (x : Float) : Bool := decide (magN (bits x) = 0)

/-- finite x = ± m · 2^e with m : Nat, e : Int (exact) -/
def decode (x : Float) : Nat × Int :=
  let eb := expBits x
  let fb := fracBits x
  if eb == 0 then (fb, -1074) else (fb + 2^52, (eb : Int) - 1075)

/-- exact m · 2^e whenever the value is representable (used for fmod/trunc/fract results) -/
def ofNatScaled (neg : Bool) (m : Nat) (e : Int) : Float :=
  if m == 0 then ofParts neg 0 else
  let len := Nat.log2 m + 1
  let topExp : Int := e + (len : Int) - 1
  if topExp < -1022 then
    let sh : Int := e + 1074
    let frac : Nat := if sh ≥ 0 then m <<< sh.toNat else m >>> (-sh).toNat
    ofParts neg frac
  else
    let sh : Int := 53 - (len : Int)
    let sig : Nat := if sh ≥ 0 then m <<< sh.toNat else m >>> (-sh).toNat
    let eb : Int := topExp + 1023
    ofParts neg (eb.toNat * 2^52 + (sig - 2^52))

/-- `f64::trunc` -/
def trunc (x : Float) : Float :=
  let eb := expBits x
  if eb ≥ 1075 then x
  else if eb < 1023 then ofParts (signBit x) 0
  else
    let drop := 1075 - eb
    let b := x.toBits
    Float.ofBits ((b >>> drop.toUInt64) <<< drop.toUInt64)

/-- `f64::fract` = x - trunc x (exact in IEEE; NaN for ±inf) -/
def fract (x : Float) : Float := x - trunc x

/-- the integer ⌊|x|⌋ and sign of a finite x -/
def truncToInt (x : Float) : Int :=
  let (m, e) := decode x
  let n : Nat := if e ≥ 0 then m <<< e.toNat else m >>> (-e).toNat
  if signBit x then -(n : Int) else n

/-- `f64::floor` as an exact integer (finite x) -/
def floorToInt (x : Float) : Int :=
  let (m, e) := decode x
  if e ≥ 0 then (if signBit x then -((m <<< e.toNat : Nat) : Int) else ((m <<< e.toNat : Nat) : Int))
  else
    let q := m >>> (-e).toNat
    let exact := (q <<< (-e).toNat) == m
    if signBit x then (if exact then -(q : Int) else -(q : Int) - 1) else q

/-- `f64::round` (half away from zero) -/
def round (x : Float) : Float :=
  let eb := expBits x
  if eb ≥ 1075 then x
  else
    let t := trunc x
    let (m, e) := decode x     -- e < 0 here
    let sh := (-e).toNat
    let fracPart := m % (1 <<< sh)
    let half := 1 <<< (sh - 1)
    if fracPart ≥ half then (if signBit x then t - 1 else t + 1) else t

/-- C `fmod` = Rust `%` on f64 -/
def rem (x y : Float) : Float :=
  if isNaN x || isNaN y || isInf x || isZero y then nan
  else if isInf y then x
  else if isZero x then x
  else
    let (mx, ex) := decode x
    let (my, ey) := decode y
    let e := min ex ey
    let X := mx <<< (ex - e).toNat
    let Y := my <<< (ey - e).toNat
    ofNatScaled (signBit x) (X % Y) e

/-! ### saturating `as` casts (NaN ↦ 0) -/
def toIntSat (x : Float) (lo hi : Int) : Int :=
  if isNaN x then 0
  else if isInf x then (if signBit x then lo else hi)
  else let t := truncToInt x; if t < lo then lo else if t > hi then hi else t
def toUsize (x : Float) : Nat := (toIntSat x 0 (2^64 - 1)).toNat
def toU32 (x : Float) : Nat := (toIntSat x 0 (2^32 - 1)).toNat
def toU8 (x : Float) : Nat := (toIntSat x 0 255).toNat
def toI32 (x : Float) : Int := toIntSat x (-(2^31)) (2^31 - 1)
def toI64 (x : Float) : Int := toIntSat x (-(2^63)) (2^63 - 1)
/-- `usize_from_f64`: `value.floor() as usize` -/
def floorToUsize (x : Float) : Nat :=
  if isNaN x then 0 else if isInf x then (if signBit x then 0 else 2^64 - 1)
  else let t := floorToInt x; if t < 0 then 0 else if t > 2^64 - 1 then 2^64 - 1 else t.toNat

/-- integer → nearest double (ties to even): `as f64` -/
def ofInt (i : Int) : Float :=
  let n := i.natAbs
  let x := Float.ofScientific n false 0
  if i < 0 then -x else x
def ofNat (n : Nat) : Float := Float.ofScientific n false 0

/-! ### Rust `<f64 as FromStr>` -/
def isDig (c : Char) : Bool := '0' ≤ c && c ≤ '9'
def digitsVal (ds : List Char) : Nat := ds.foldl (fun a c => a * 10 + (c.toNat - 48)) 0
def lowerAscii (c : Char) : Char := if 'A' ≤ c && c ≤ 'Z' then Char.ofNat (c.toNat + 32) else c

/-- [+-]? (inf | infinity | nan | digits [. digits] [e[+-]digits] | . digits …), case-insensitive words -/
def parse (cs : Str) : Option Float :=
  let (neg, cs) := match cs with
    | '-' :: r => (true, r)
    | '+' :: r => (false, r)
    | r => (false, r)
  let lower := cs.map lowerAscii
  let sgn (x : Float) : Float := if neg then -x else x
  if lower == ['i','n','f'] || lower == ['i','n','f','i','n','i','t','y'] then some (sgn inf)
  else if lower == ['n','a','n'] then some (sgn nan)
  else
    let ip := cs.takeWhile isDig
    let r1 := cs.dropWhile isDig
    let (fp, r2) := match r1 with
      | '.' :: r => (r.takeWhile isDig, r.dropWhile isDig)
      | r => ([], r)
    if ip.isEmpty && fp.isEmpty then none else
    let expo : Option Int := match r2 with
      | [] => some 0
      | c :: r =>
        if c == 'e' || c == 'E' then
          let (eneg, r) := match r with
            | '-' :: r' => (true, r')
            | '+' :: r' => (false, r')
            | r' => (false, r')
          if r.isEmpty || !r.all isDig then none
          else
            let v : Nat := digitsVal r
            some (if eneg then -(v : Int) else v)
        else none
    match expo with
    | none => none
    | some ex =>
      let m : Nat := digitsVal (ip ++ fp)
      let e10 : Int := ex - fp.length
      -- clamp absurd exponents so that 10^e stays computable; results are 0 / inf anyway
      let e10 := if e10 > 400 ∧ m ≠ 0 then 400 + (0 : Int) else e10
      let nd : Nat := ip.length + fp.length
      let e10 := if e10 < -1200 - (nd : Int) then -1200 - (nd : Int) else e10
      some (sgn (if e10 ≥ 0 then Float.ofScientific m false e10.toNat else Float.ofScientific m true (-e10).toNat))

end F64

instance : NumOps Float where
  add := (· + ·)
  sub := (· - ·)
  mul := (· * ·)
  div := (· / ·)
  rem := F64.rem
  trunc := F64.trunc
  neg := fun x => -x
  pcmp := F64.pcmp
  beq := F64.beq
  zero := 0
  ofBool := fun b => if b then 1 else 0
  parse := F64.parse

end Slac
