/-
  SlacModel.Scanner — model of src/scanner.rs (`Scanner::tokenize`).

  The Rust scanner indexes the source with `chars().nth(i)` and keeps `start/current/end` counters; the model
  consumes a `List Char`.  The tie is behavioural (same tokens / same error value for the same text), not structural.
  What Lean does not know about Unicode (`char::is_alphabetic`, `char::is_numeric`, `str::to_lowercase`) is a
  parameter record `CharClass`; every theorem about the scanner holds for every `CharClass`, some under the
  explicit hypothesis `CharClass.AsciiOk` (the three functions behave on ASCII as Rust's do).

  Recursion: `skipWs`, `strRaw`, `replaceQQ` are structural on the text; the token loop `scanLoop` is structural on
  a fuel counter that `scan` initialises with `length + 1` (proved sufficient: SlacProps/C07Scanner.lean).
-/
import SlacModel.Token
import SlacModel.Unicode
set_option autoImplicit false
namespace Slac
namespace Scanner

/-- the Unicode facts the scanner uses: Rust `char::is_alphabetic`, `char::is_numeric`, `str::to_lowercase`
    (`char::is_alphanumeric` is `is_alphabetic || is_numeric` in Rust's core library) -/
structure CharClass where
  isAlphabetic : Char → Bool
  isNumeric : Char → Bool
  lowerStr : Str → Str

def isAsciiLetter (c : Char) : Bool := Unicode.inRange c 0x41 0x5A || Unicode.inRange c 0x61 0x7A
def isAsciiDigit (c : Char) : Bool := Unicode.inRange c 0x30 0x39

namespace CharClass

/-- `char::is_alphanumeric` -/
def isAlphanumeric (cc : CharClass) (c : Char) : Bool := cc.isAlphabetic c || cc.isNumeric c

/-- what is known (and true of Rust) about the classification of ASCII text -/
structure AsciiOk (cc : CharClass) : Prop where
  alpha : ∀ c : Char, c.toNat < 128 → cc.isAlphabetic c = isAsciiLetter c
  num : ∀ c : Char, c.toNat < 128 → cc.isNumeric c = isAsciiDigit c
  lower : ∀ s : Str, (∀ c ∈ s, c.toNat < 128) → cc.lowerStr s = Unicode.asciiLower s

/-- an instance for examples: exact on ASCII; every non-ASCII character is neither alphabetic nor numeric and
    is left alone by lower-casing -/
def ascii : CharClass where
  isAlphabetic := isAsciiLetter
  isNumeric := isAsciiDigit
  lowerStr := Unicode.asciiLower

end CharClass

/-- `Scanner::is_identifier_start` -/
def isIdentStart (cc : CharClass) (c : Char) : Bool := cc.isAlphabetic c || c == '_'
/-- `Scanner::is_identifier` -/
def isIdentCont (cc : CharClass) (c : Char) : Bool := cc.isAlphanumeric c || c == '_'

/-! ### skip_whitespace / skip_comments -/

/-- the four characters `skip_whitespace` skips -/
def isWs (c : Char) : Bool := c == ' ' || c == '\r' || c == '\t' || c == '\n'

/-- where the skipping loop is: between tokens, inside `// …`, inside `{ … }` with `d` further braces open
    (`comment_depth = d + 1`) -/
inductive Mode | code | line | block (d : Nat)

/-- `skip_whitespace` (with `skip_comments`) as one structural state machine; returns the text that is left.
    `//` runs up to and including the next '\n' or to the end; `{` runs to the matching `}` (nested braces
    counted) or to the end; a lone `/` is not a comment. -/
def skipWs : Mode → Str → Str
  | .code, [] => []
  | .code, c :: cs =>
    if isWs c then skipWs .code cs
    else if c = '/' then
      match cs with
      | c2 :: cs' => if c2 = '/' then skipWs .line cs' else c :: cs
      | [] => c :: cs
    else if c = '{' then skipWs (.block 0) cs
    else c :: cs
  | .line, [] => []
  | .line, c :: cs => if c = '\n' then skipWs .code cs else skipWs .line cs
  | .block _, [] => []
  | .block d, c :: cs =>
    if c = '{' then skipWs (.block (d+1)) cs
    else if c = '}' then (match d with | 0 => skipWs .code cs | d'+1 => skipWs (.block d') cs)
    else skipWs (.block d) cs

/-! ### identifier -/
section
variable {N : Type}

/-- the `match ident.to_lowercase().as_str()` table of `identifier()` -/
def keywords (N : Type) : List (Str × Token N) :=
  [ (['t','r','u','e'], .literal (.bool true)),
    (['f','a','l','s','e'], .literal (.bool false)),
    (['a','n','d'], .and),
    (['o','r'], .or),
    (['x','o','r'], .xor),
    (['n','o','t'], .not),
    (['d','i','v'], .div),
    (['m','o','d'], .mod) ]

def kwToken (low : Str) : Option (Token N) := (keywords N).lookup low

/-- `identifier()`; `c` is the already consumed start character. The identifier keeps its original spelling. -/
def identifier (cc : CharClass) (c : Char) (cs : Str) : Token N × Str :=
  let ident := c :: cs.takeWhile (isIdentCont cc)
  let rest := cs.dropWhile (isIdentCont cc)
  (match kwToken (cc.lowerStr ident) with
   | some t => t
   | none => .identifier ident, rest)

/-! ### number -/

/-- the extent of `number()`: `c` is the consumed first character (numeric or '.'); `advance_numeric`, then an
    optional '.', then — if a numeric character follows — `advance_numeric` again (`takeWhile` covers both cases
    of that `if`).  Returns (content, rest). -/
def numberLex (cc : CharClass) (c : Char) (cs : Str) : Str × Str :=
  let ip := cs.takeWhile cc.isNumeric
  match cs.dropWhile cc.isNumeric with
  | '.' :: r => (c :: (ip ++ '.' :: r.takeWhile cc.isNumeric), r.dropWhile cc.isNumeric)
  | r => (c :: ip, r)

/-- `number()` with `extract_number` -/
def number [NumOps N] (cc : CharClass) (c : Char) (cs : Str) : Except (CErr N) (Token N × Str) :=
  let p := numberLex cc c cs
  match NumOps.parse (N := N) p.1 with
  | some x => .ok (.literal (.num x), p.2)
  | none => .error .invalidNumber

/-! ### string -/

/-- the loop of `string()`, entered after the opening quote: (raw content between the outer quotes,
    `contains_single_quote`, rest after the closing quote); `none` = end of input before the closing quote -/
def strRaw : Str → Option (Str × Bool × Str)
  | [] => none
  | c :: cs =>
    if c = '\'' then
      match cs with
      | c2 :: cs' =>
        if c2 = '\'' then (strRaw cs').map (fun p => ('\'' :: '\'' :: p.1, true, p.2.2))
        else some ([], false, cs)
      | [] => some ([], false, cs)
    else (strRaw cs).map (fun p => (c :: p.1, p.2.1, p.2.2))

/-- `content.replace("''", "'")`: non-overlapping occurrences, left to right -/
def replaceQQ : Str → Str
  | [] => []
  | [c] => [c]
  | c :: c2 :: cs' => if c = '\'' ∧ c2 = '\'' then '\'' :: replaceQQ cs' else c :: replaceQQ (c2 :: cs')

/-- `string()` -/
def string (cs : Str) : Except (CErr N) (Token N × Str) :=
  match strRaw cs with
  | none => .error .unterminatedStringLiteral
  | some (raw, hasQ, rest) => .ok (.literal (.str (if hasQ then replaceQQ raw else raw)), rest)

/-! ### next_token -/

/-- `greater()` -/
def greater (cs : Str) : Token N × Str :=
  match cs with
  | c :: r => if c = '=' then (.greaterEqual, r) else (.greater, cs)
  | [] => (.greater, cs)

/-- `lesser()` -/
def lesser (cs : Str) : Token N × Str :=
  match cs with
  | c :: r => if c = '=' then (.lessEqual, r) else if c = '>' then (.notEqual, r) else (.less, cs)
  | [] => (.less, cs)

/-- `next_token()` on the text `c :: cs`; returns the token and the text after it -/
def nextToken [NumOps N] (cc : CharClass) (c : Char) (cs : Str) : Except (CErr N) (Token N × Str) :=
  if isIdentStart cc c then .ok (identifier cc c cs)
  else if cc.isNumeric c then number cc c cs
  else if c = '\'' then string cs
  else if c = '.' then number cc c cs
  else if c = '(' then .ok (.leftParen, cs)
  else if c = ')' then .ok (.rightParen, cs)
  else if c = '[' then .ok (.leftBracket, cs)
  else if c = ']' then .ok (.rightBracket, cs)
  else if c = ',' then .ok (.comma, cs)
  else if c = '+' then .ok (.plus, cs)
  else if c = '-' then .ok (.minus, cs)
  else if c = '*' then .ok (.star, cs)
  else if c = '/' then .ok (.slash, cs)
  else if c = '=' then .ok (.equal, cs)
  else if c = '>' then .ok (greater cs)
  else if c = '<' then .ok (lesser cs)
  else .error (.invalidCharacter c)

/-! ### tokenize -/

/-- the `while !is_at_end()` loop of `tokenize` (entered before a `skip_whitespace`) -/
def scanLoop [NumOps N] (cc : CharClass) : Nat → Str → COut N (List (Token N))
  | 0, _ => .outOfFuel
  | fuel + 1, src =>
    match skipWs .code src with
    | [] => .ok []
    | c :: cs =>
      match nextToken (N := N) cc c cs with
      | .error e => .err e
      | .ok (t, rest) =>
        match scanLoop cc fuel rest with
        | .ok ts => .ok (t :: ts)
        | o => o

/-- the token loop with the fuel that always suffices -/
def scanAll [NumOps N] (cc : CharClass) (src : Str) : COut N (List (Token N)) :=
  scanLoop cc (src.length + 1) src

/-- `Scanner::tokenize` -/
def scan [NumOps N] (cc : CharClass) (src : Str) : COut N (List (Token N)) :=
  match scanAll cc src with
  | .ok [] => .err .eof
  | o => o

end
end Scanner
end Slac
