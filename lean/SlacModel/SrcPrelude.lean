/-
  SlacModel.SrcPrelude — what the generated translation of src/interpreter.rs (SlacModel/Generated/SrcInterp.lean) is written in.
  `W N` is a writer monad whose log is the sequence of calls the interpreter makes on its `&dyn Environment`:
  `Environment::variable(name)` and `Environment::call(name, params)`.  These two definitions ARE the reading of those trait calls
  (the same observation the harness's recording environment makes); everything else in SrcInterp.lean is generated.
-/
import SlacModel.Ast
set_option autoImplicit false
namespace Slac.SrcPrelude
variable {N : Type}

/-- a computation that may look variables up and call native functions: the events so far are the state -/
abbrev W (N : Type) := StateM (List (Event N))

/-- `self.environment.variable(name)` -/
def envVariable (env : Env N) (name : Str) : W N (Option (Value N)) :=
  fun t => (env.var name, t ++ [.lookup name])

/-- `self.environment.call(name, params)` -/
def envCall (env : Env N) (name : Str) (params : List (Value N)) : W N (Except NativeError (Value N)) :=
  fun t => (env.call name params, t ++ [.call name params])

end Slac.SrcPrelude
