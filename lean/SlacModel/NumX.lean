/-
  SlacModel.NumX — the number operations the standard library needs beyond `NumOps`: casts, integer
  conversions, rounding functions, printing, and the libm functions (parameters: the property only says the
  builtin *is* the library function).  The Float instance is at the end of this file.
-/
import SlacModel.Num
import SlacModel.Display
set_option autoImplicit false
namespace Slac

class NumX (N : Type) extends NumOps N where
  toUsize : N → Nat          -- `x as usize` (saturating, NaN ↦ 0)
  floorUsize : N → Nat       -- `x.floor() as usize` (`usize_from_f64`)
  toU32 : N → Nat
  toI32 : N → Int
  toI64 : N → Int
  ofNat : Nat → N            -- `n as f64`
  ofInt : Int → N
  abs : N → N
  round : N → N              -- half away from zero
  fract : N → N
  floor : N → N
  sqrt : N → N
  sin : N → N
  cos : N → N
  exp : N → N
  ln : N → N
  atan : N → N
  pow : N → N → N
  display : N → Str          -- `format!("{x}")`
  isFinite : N → Bool

namespace NumX
variable {N : Type} [NumX N]
/-- `x >= 0.0` -/
def ge0 (x : N) : Bool := match NumOps.pcmp x (NumOps.zero : N) with | some .gt | some .eq => true | _ => false
/-- `x > 0.0` -/
def gt0 (x : N) : Bool := match NumOps.pcmp x (NumOps.zero : N) with | some .gt => true | _ => false
/-- `x < 0.0` -/
def lt0 (x : N) : Bool := match NumOps.pcmp x (NumOps.zero : N) with | some .lt => true | _ => false
/-- `(0.0..=127.0).contains(&x)` -/
def inAscii (x : N) : Bool := ge0 x && (match NumOps.pcmp x (ofNat 127 : N) with | some .lt | some .eq => true | _ => false)
end NumX

namespace F64
/-- `f64::floor` -/
def floor (x : Float) : Float :=
  let t := trunc x
  if signBit x && !(t == x) && !isNaN x then t - 1 else t
end F64

/-- libm functions of the driver: core `Float`'s (opaque C bindings), never used in proofs -/
instance : NumX Float where
  toUsize := F64.toUsize
  floorUsize := F64.floorToUsize
  toU32 := F64.toU32
  toI32 := F64.toI32
  toI64 := F64.toI64
  ofNat := F64.ofNat
  ofInt := F64.ofInt
  abs := Float.abs
  round := F64.round
  fract := F64.fract
  floor := F64.floor
  sqrt := Float.sqrt
  sin := Float.sin
  cos := Float.cos
  exp := Float.exp
  ln := Float.log
  atan := Float.atan
  pow := Float.pow
  display := F64.display
  isFinite := F64.isFinite

end Slac
