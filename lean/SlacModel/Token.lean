/-
  SlacModel.Token — src/token.rs (`Token`, `Precedence` as 0..10) and the compile-time part of src/error.rs.
-/
import SlacModel.Value
set_option autoImplicit false
namespace Slac

inductive Token (N : Type) where
  | leftParen | rightParen | leftBracket | rightBracket | plus | minus | star | slash | comma
  | greater | greaterEqual | less | lessEqual | equal | notEqual | and | or | xor | not | div | mod
  | literal (v : Value N) | identifier (s : Str)

/-- scanner / compiler errors of src/error.rs; token payloads are kept where the code reports them -/
inductive CErr (N : Type) where
  | eof | invalidCharacter (c : Char) | invalidNumber | unterminatedStringLiteral
  | multipleExpressions (t : Token N) | noValidPrefixToken (t : Token N) | noValidInfixToken (t : Token N)
  | callNotOnVariable (t : Token N) | previousTokenNotFound | invalidToken (t : Token N) | tokenNotAnOperator (t : Token N)

/-- outcome of a compile-phase function: a result, an error value, or a crash the model makes explicit -/
inductive COut (N : Type) (α : Type) where
  | ok (a : α) | err (e : CErr N) | outOfFuel | panic

namespace Token
variable {N : Type}

/-- `Precedence::from(&Token)` with None=0, Or=1, And=2, Xor=3, Equality=4, Comparison=5, Term=6, Factor=7,
    Unary=8, Call=9, Primary=10 -/
def prec : Token N → Nat
  | .minus | .plus => 6
  | .star | .slash | .div | .mod => 7
  | .equal | .notEqual => 4
  | .greater | .greaterEqual | .less | .lessEqual => 5
  | .and => 2 | .or => 1 | .xor => 3
  | .leftParen => 9
  | _ => 0

/-- `Operator::try_from(&Token)` restricted to the tokens `do_infix` sends to `binary` -/
def binOp? : Token N → Option Op
  | .minus => some .minus | .plus => some .plus | .star => some .multiply | .slash => some .divide
  | .div => some .div | .mod => some .mod | .equal => some .equal | .notEqual => some .notEqual
  | .greater => some .greater | .greaterEqual => some .greaterEqual | .less => some .less
  | .lessEqual => some .lessEqual | .and => some .and | .or => some .or | .xor => some .xor
  | _ => none

end Token
end Slac
