/-
  SlacModel.Optimizer — model of src/optimizer.rs: `transform_ternary`, `expressions_are_const`, `fold_constants`,
  `optimize`, arm by arm.
  The Rust functions mutate the tree through `&mut` and return early with `?`; the model makes the tree that is
  left behind explicit: `fold` returns the (possibly partially) rewritten tree, the `found_const` flag and the
  error that aborted the pass, if any.  Children are processed left to right and processing stops at the
  first error.  `execute(env, expression)` on a node is `evalR env node` (SlacModel.Interp).
  The `…T`/`…Trace` variants additionally return the environment events (lookups and calls) performed by
  those `execute` calls, in order.
-/
import SlacModel.Interp
set_option autoImplicit false
set_option linter.unusedSectionVars false
namespace Slac.Opt
variable {N : Type} [NumOps N]

/-- `matches!(e, Expression::Literal { value: _ })` -/
def isLit : Expr N → Bool | .lit _ => true | _ => false
/-- `expressions_are_const` (vacuously true of `[]`) -/
def allLit (es : List (Expr N)) : Bool := es.all isLit

/-- `TERNARY_IF_THEN` (src/stdlib/common.rs l.17); the optimizer compares names with `==`, case-sensitively -/
def ifThenName : Str := ['i', 'f', '_', 't', 'h', 'e', 'n']

/- `transform_ternary`: a call named `if_then` with exactly three parameters becomes a lazy conditional;
   its three parameters are cloned as they are (NOT visited in this pass, optimizer.rs l.44-52).
   Every other node is kept and its children are visited. -/
mutual
def transform : Expr N → Expr N
  | .unary r op => .unary (transform r) op
  | .binary l r op => .binary (transform l) (transform r) op
  | .ternary l m r op => .ternary (transform l) (transform m) (transform r) op
  | .array es => .array (transformL es)
  | .call n ps =>
    if n = ifThenName then
      match ps with
      | [a, b, c] => .ternary a b c .ternaryCondition
      | _ => .call n (transformL ps)
    else .call n (transformL ps)
  | e => e
def transformL : List (Expr N) → List (Expr N)
  | [] => []
  | e :: es => transform e :: transformL es
end

/- number of three-argument `if_then` calls anywhere in the tree.  `transform` sets `found_const` iff this is
   positive (it rewrites the outermost such calls; see `SlacProofs.OptStable.transform_eq_self_iff`). -/
mutual
def if3 : Expr N → Nat
  | .unary r _ => if3 r
  | .binary l r _ => if3 l + if3 r
  | .ternary l m r _ => if3 l + if3 m + if3 r
  | .array es => if3L es
  | .call n ps =>
    if n = ifThenName then
      match ps with
      | [_, _, _] => 1 + if3L ps
      | _ => if3L ps
    else if3L ps
  | _ => 0
def if3L : List (Expr N) → Nat
  | [] => 0
  | e :: es => if3 e + if3L es
end

/-- the `found_const` flag after `transform_ternary` (starting from `false`) -/
def transformFound (e : Expr N) : Bool := decide (if3 e > 0)

/-- result of one `fold_constants` pass: the (possibly partially) rewritten tree, whether `found_const` was
    set, and the error that aborted the pass, if any -/
structure FR (N : Type) where
  tree : Expr N
  found : Bool
  err : Option Err

/-- `*found_const = true; *expression = Literal { value: execute(env, expression)? }` :
    the flag is set before `execute` may fail; on failure the node is left as it is. -/
def exec (env : Env N) (e : Expr N) : FR N :=
  match evalR env e with
  | .ok v => ⟨.lit v, true, none⟩
  | .error er => ⟨e, true, some er⟩

mutual
def fold (env : Env N) : Expr N → FR N
  | .unary r op =>
    if isLit r then exec env (.unary r op)
    else let fr := fold env r; ⟨.unary fr.tree op, fr.found, fr.err⟩
  | .binary l r op =>
    if isLit l && isLit r then exec env (.binary l r op)
    else
      let fl := fold env l
      match fl.err with
      | some e => ⟨.binary fl.tree r op, fl.found, some e⟩
      | none => let fr := fold env r; ⟨.binary fl.tree fr.tree op, fl.found || fr.found, fr.err⟩
  | .ternary l m r op =>
    match l, op with
    | .lit c, .ternaryCondition => ⟨if Value.asBool c then m else r, true, none⟩
    | _, _ =>
      let fl := fold env l
      match fl.err with
      | some e => ⟨.ternary fl.tree m r op, fl.found, some e⟩
      | none =>
        let fm := fold env m
        match fm.err with
        | some e => ⟨.ternary fl.tree fm.tree r op, fl.found || fm.found, some e⟩
        | none =>
          let fr := fold env r
          ⟨.ternary fl.tree fm.tree fr.tree op, fl.found || fm.found || fr.found, fr.err⟩
  | .array es =>
    if allLit es then exec env (.array es)
    else let (es', found, err) := foldL env es; ⟨.array es', found, err⟩
  | .call n ps =>
    if allLit ps then                       -- this guarded arm comes first: such a call is never descended into
      match env.fnExists n ps.length with
      | .exist true => exec env (.call n ps)
      | _ => ⟨.call n ps, false, none⟩
    else let (ps', found, err) := foldL env ps; ⟨.call n ps', found, err⟩
  | e => ⟨e, false, none⟩
def foldL (env : Env N) : List (Expr N) → List (Expr N) × Bool × Option Err
  | [] => ([], false, none)
  | e :: es =>
    let fe := fold env e
    match fe.err with
    | some er => (fe.tree :: es, fe.found, some er)
    | none => let (es', found, err) := foldL env es; (fe.tree :: es', fe.found || found, err)
end

/-- outcome of `optimize`: `Ok(())` with the final tree, `Err(e)` with the tree as the failed pass left it,
    or the model's fuel ran out (never with fuel `> mu e`, `Slac.C06.optimize_terminates`) -/
inductive OptRes (N : Type) | ok (e : Expr N) | err (e : Expr N) (er : Err) | outOfFuel

/-- the tree the caller holds after `optimize` returned -/
def OptRes.tree? : OptRes N → Option (Expr N)
  | .ok e => some e
  | .err e _ => some e
  | .outOfFuel => none

/-- `optimize`: repeat (transform; fold) until a round sets `found_const` in neither pass -/
def optimize (env : Env N) : Nat → Expr N → OptRes N
  | 0, _ => .outOfFuel
  | fuel + 1, e =>
    let t := transform e
    let fr := fold env t
    match fr.err with
    | some er => .err fr.tree er
    | none => if transformFound e || fr.found then optimize env fuel fr.tree else .ok fr.tree

/- Environment events performed by the `execute` calls of one fold pass, in order. -/
mutual
def foldTrace (env : Env N) : Expr N → List (Event N)
  | .unary r op =>
    if isLit r then (evalT env (.unary r op)).2 else foldTrace env r
  | .binary l r op =>
    if isLit l && isLit r then (evalT env (.binary l r op)).2
    else
      match (fold env l).err with
      | some _ => foldTrace env l
      | none => foldTrace env l ++ foldTrace env r
  | .ternary l m r op =>
    match l, op with
    | .lit _, .ternaryCondition => []
    | _, _ =>
      match (fold env l).err with
      | some _ => foldTrace env l
      | none =>
        match (fold env m).err with
        | some _ => foldTrace env l ++ foldTrace env m
        | none => foldTrace env l ++ foldTrace env m ++ foldTrace env r
  | .array es =>
    if allLit es then (evalT env (.array es)).2 else foldLTrace env es
  | .call n ps =>
    if allLit ps then
      match env.fnExists n ps.length with
      | .exist true => (evalT env (.call n ps)).2
      | _ => []
    else foldLTrace env ps
  | _ => []
def foldLTrace (env : Env N) : List (Expr N) → List (Event N)
  | [] => []
  | e :: es =>
    match (fold env e).err with
    | some _ => foldTrace env e
    | none => foldTrace env e ++ foldLTrace env es
end

/-- one fold pass together with the environment events it performed -/
def foldT (env : Env N) (e : Expr N) : FR N × List (Event N) := (fold env e, foldTrace env e)

/-- environment events of a whole `optimize` run -/
def optimizeTrace (env : Env N) : Nat → Expr N → List (Event N)
  | 0, _ => []
  | fuel + 1, e =>
    let t := transform e
    let fr := fold env t
    match fr.err with
    | some _ => foldTrace env t
    | none =>
      if transformFound e || fr.found then foldTrace env t ++ optimizeTrace env fuel fr.tree else foldTrace env t

/-- `optimize` together with the environment events it performed -/
def optimizeT (env : Env N) (fuel : Nat) (e : Expr N) : OptRes N × List (Event N) :=
  (optimize env fuel e, optimizeTrace env fuel e)

/- the termination measure: non-literal nodes + three-argument `if_then` calls -/
mutual
def mu : Expr N → Nat
  | .unary r _ => 1 + mu r
  | .binary l r _ => 1 + mu l + mu r
  | .ternary l m r _ => 1 + mu l + mu m + mu r
  | .array es => 1 + muL es
  | .call n ps =>
    (if n = ifThenName then (match ps with | [_, _, _] => 2 | _ => 1) else 1) + muL ps
  | .lit _ => 0
  | .var _ => 1
def muL : List (Expr N) → Nat
  | [] => 0
  | e :: es => mu e + muL es
end

/- number of nodes -/
mutual
def nodes : Expr N → Nat
  | .unary r _ => 1 + nodes r
  | .binary l r _ => 1 + nodes l + nodes r
  | .ternary l m r _ => 1 + nodes l + nodes m + nodes r
  | .array es => 1 + nodesL es
  | .call _ ps => 1 + nodesL ps
  | .lit _ => 1
  | .var _ => 1
def nodesL : List (Expr N) → Nat
  | [] => 0
  | e :: es => nodes e + nodesL es
end

/- all nodes of a tree (the tree itself first) -/
mutual
def subterms : Expr N → List (Expr N)
  | .unary r op => .unary r op :: subterms r
  | .binary l r op => .binary l r op :: (subterms l ++ subterms r)
  | .ternary l m r op => .ternary l m r op :: (subterms l ++ subterms m ++ subterms r)
  | .array es => .array es :: subtermsL es
  | .call n ps => .call n ps :: subtermsL ps
  | .lit v => [.lit v]
  | .var n => [.var n]
def subtermsL : List (Expr N) → List (Expr N)
  | [] => []
  | e :: es => subterms e ++ subtermsL es
end

/-! ### specification vocabulary of C05 / C06 -/

/-- a node one more optimizer round would rewrite -/
def Foldable (env : Env N) : Expr N → Prop
  | .unary r _ => isLit r = true
  | .binary l r _ => isLit l = true ∧ isLit r = true
  | .array es => allLit es = true
  | .ternary l _ _ op => isLit l = true ∧ op = .ternaryCondition
  | .call f ps => (allLit ps = true ∧ env.fnExists f ps.length = .exist true) ∨ (f = ifThenName ∧ ps.length = 3)
  | _ => False

/- every variable of the tree is bound -/
mutual
def VarsBound (env : Env N) : Expr N → Prop
  | .unary r _ => VarsBound env r
  | .binary l r _ => VarsBound env l ∧ VarsBound env r
  | .ternary l m r _ => VarsBound env l ∧ VarsBound env m ∧ VarsBound env r
  | .array es => VarsBoundL env es
  | .call _ ps => VarsBoundL env ps
  | .lit _ => True
  | .var n => env.var n ≠ none
def VarsBoundL (env : Env N) : List (Expr N) → Prop
  | [] => True
  | e :: es => VarsBound env e ∧ VarsBoundL env es
end

/- every call of the tree names a function the environment knows with that number of arguments -/
mutual
def FnsResolved (env : Env N) : Expr N → Prop
  | .unary r _ => FnsResolved env r
  | .binary l r _ => FnsResolved env l ∧ FnsResolved env r
  | .ternary l m r _ => FnsResolved env l ∧ FnsResolved env m ∧ FnsResolved env r
  | .array es => FnsResolvedL env es
  | .call f ps =>
    (∃ p, env.fnExists f ps.length = .exist p) ∧
    (∀ vs n, vs.length = ps.length → env.call f vs ≠ .error (.functionNotFound n)) ∧ FnsResolvedL env ps
  | .lit _ => True
  | .var _ => True
def FnsResolvedL (env : Env N) : List (Expr N) → Prop
  | [] => True
  | e :: es => FnsResolved env e ∧ FnsResolvedL env es
end

/-- "variables and functions resolve in the environment" -/
def Resolved (env : Env N) (e : Expr N) : Prop := VarsBound env e ∧ FnsResolved env e

/-- src/stdlib/common.rs `if_then` on three arguments -/
def ifThen3 (c a b : Value N) : Except NativeError (Value N) :=
  match c with
  | .bool true => .ok a
  | .bool false => .ok b
  | _ => .error (.wrongParameterCount 2)

/-- Whenever `if_then` answers a three-argument call with a value, it is the standard function's value:
    the condition was a Boolean and the value is the selected argument.  (Implied by
    `∀ c a b, env.call ifThenName [c, a, b] = ifThen3 c a b`, see `ifThenStd_of_eq`; which error a
    non-Boolean condition produces is irrelevant.) -/
def IfThenStd (env : Env N) : Prop :=
  ∀ c a b v, env.call ifThenName [c, a, b] = .ok v → ∃ bb, c = .bool bb ∧ v = (if bb then a else b)

theorem ifThenStd_of_eq (env : Env N) (h : ∀ c a b, env.call ifThenName [c, a, b] = ifThen3 c a b) :
    IfThenStd env := by
  intro c a b v hv
  rw [h] at hv
  cases c with
  | bool bb =>
    cases bb <;> simp only [ifThen3] at hv <;> cases hv
    · exact ⟨false, rfl, rfl⟩
    · exact ⟨true, rfl, rfl⟩
  | str s => simp only [ifThen3] at hv; cases hv
  | num x => simp only [ifThen3] at hv; cases hv
  | arr xs => simp only [ifThen3] at hv; cases hv

end Slac.Opt
