/-
  SlacModel.Seq — naive sequence functions standing for Rust's `str` pattern API (`find`, `contains`,
  `match_indices`, `replace`, `split` with a `&str` pattern: leftmost, non-overlapping matches; an empty
  pattern matches at every character boundary) and `trim*` (Unicode White_Space).
-/
import SlacModel.Basic
set_option autoImplicit false
namespace Slac
namespace Seq
variable {α : Type} [DecidableEq α]

def isPrefix : List α → List α → Bool
  | [], _ => true
  | _ :: _, [] => false
  | a :: as, b :: bs => a = b && isPrefix as bs

/-- `hay.split(needle)`: pieces between leftmost non-overlapping matches.
    `cur` accumulates the current piece (reversed); `skip` = characters of a match still to be dropped. -/
def splitAux (needle : List α) : List α → Nat → List α → List (List α)
  | cur, _, [] => if needle.isEmpty then [cur.reverse, []] else [cur.reverse]
  | cur, skip + 1, _ :: hs => splitAux needle cur skip hs
  | cur, 0, h :: hs =>
    if isPrefix needle (h :: hs) then
      match needle with
      | [] => cur.reverse :: splitAux needle [h] 0 hs           -- empty pattern: boundary before h, h starts the next piece
      | _ :: nt => cur.reverse :: splitAux needle [] nt.length hs  -- drop the match
    else splitAux needle (h :: cur) 0 hs

def splitOn (needle hay : List α) : List (List α) := splitAux needle [] 0 hay

/-- number of matches (`match_indices(..).count()`) -/
def countOcc (needle hay : List α) : Nat := (splitOn needle hay).length - 1
def containsSeq (needle hay : List α) : Bool := countOcc needle hay > 0
/-- position (in elements) of the first match -/
def findSeq (needle hay : List α) : Option Nat :=
  match splitOn needle hay with
  | p :: _ :: _ => some p.length
  | _ => none
def intercalate (sep : List α) : List (List α) → List α
  | [] => []
  | [p] => p
  | p :: ps => p ++ sep ++ intercalate sep ps
/-- `hay.replace(from, to)` -/
def replaceSeq (frm to hay : List α) : List α := intercalate to (splitOn frm hay)

end Seq

/-- Unicode `White_Space` (what `str::trim*` strips) -/
def isWhiteSpace (c : Char) : Bool :=
  let n := c.toNat
  (0x9 ≤ n && n ≤ 0xD) || n == 0x20 || n == 0x85 || n == 0xA0 || n == 0x1680 || (0x2000 ≤ n && n ≤ 0x200A)
  || n == 0x2028 || n == 0x2029 || n == 0x202F || n == 0x205F || n == 0x3000

def trimLeft (s : Str) : Str := s.dropWhile isWhiteSpace
def trimRight (s : Str) : Str := (s.reverse.dropWhile isWhiteSpace).reverse
def trimBoth (s : Str) : Str := trimRight (trimLeft s)

end Slac
