/-
  SlacModel.Nondet — the two IMPURE builtins of src/stdlib/math.rs, `random` and `choice`.
  The operating-system random word (`getrandom`) is an explicit parameter, so each builtin is a total function of
  (word, arguments); "what the builtin may answer" is the image over all words.  A failing `getrandom` (CustomError) is
  not modelled.
-/
import SlacModel.Stdlib
set_option autoImplicit false
namespace Slac
namespace Nondet
open Stdlib
variable {N : Type} [NumX N]

/-- `get_random_int(max)`: `usize::from_le_bytes(buffer) % max`, 0 for an empty range -/
def randomInt (w : Nat) (max : Nat) : Nat := if max = 0 then 0 else w % max

/-- `choice(params)` for the random word `w` -/
def choiceWith (w : Nat) (params : List (Value N)) : Res N :=
  let cs := smartVec params
  match cs[randomInt w cs.length]? with
  | some v => .ok v
  | none => .error .wrongParameterType

/-- `get_random_float(max)`: `(u64 as f64 * max) / u64::MAX as f64` (`u64::MAX as f64` is 2^64), 0 for `max == 0` -/
def randomFloat (u : Nat) (max : N) : N :=
  if NumOps.beq max (NumOps.zero : N) then NumOps.zero
  else NumOps.div (NumOps.mul (NumX.ofNat u) max) (NumX.ofNat (2 ^ 64))

/-- `random(range = 1)` for the random word `u` (a u64) -/
def randomWith (u : Nat) (params : List (Value N)) : Res N :=
  match defaultNumber params 0 (NumX.ofNat 1 : N) with
  | .error e => .error e
  | .ok range => .ok (.num (randomFloat u range))

end Nondet
end Slac
