/-
  SlacModel.Spec — the language definition used as the specification for C03/C04 (DESIGN Appendix A),
  written from the property text, not from interpreter.rs: results are `val v`, `undef n` (an undefined
  variable was read and nothing has absorbed it yet) or `fail e`; operators fall into three classes.
-/
import SlacModel.Interp
set_option autoImplicit false
namespace Slac
variable {N : Type} [NumOps N]

inductive SRes (N : Type) | val (v : Value N) | undef (n : Str) | fail (e : Err)

/-- an operand as `= <> and or` see it: a value, or "empty" when it was an undefined variable -/
abbrev Opd (N : Type) := Option (Value N)

def SRes.toOpd : SRes N → Except Err (Opd N)
  | .val v => .ok (some v) | .undef _ => .ok none | .fail e => .error e
def Opd.truthy : Opd N → Bool | some v => Value.asBool v | none => false
def Opd.eq : Opd N → Opd N → Bool
  | some a, some b => Value.eq a b
  | some a, none => Value.isEmpty a
  | none, some b => Value.isEmpty b
  | none, none => true

def SRes.ofExcept : Except Err (Value N) → SRes N
  | .ok v => .val v
  | .error (.undefinedVariable n) => .undef n
  | .error e => .fail e

inductive OpClass | logical (isAnd : Bool) | equality (negated : Bool) | strict
def Op.cls : Op → OpClass
  | .and => .logical true | .or => .logical false
  | .equal => .equality false | .notEqual => .equality true
  | _ => .strict

abbrev SR (N : Type) := SRes N × List (Event N)

def unSpec (op : Op) : SR N → SR N
  | (.val v, t) =>
    (match op with
     | .minus => (match v with | .num x => .val (.num (NumOps.neg x)) | _ => .fail (.invalidUnary .minus))
     | .not => .val (.bool (!Value.asBool v))
     | op => .fail (.invalidUnary op), t)
  | other => other                       -- undefined / failing operand: its result is the result

def binSpec (op : Op) (left right : SR N) : SR N :=
  let (rl, tl) := left
  let (rr, tr) := right
  match op.cls with
  | .logical isAnd =>
    match rl.toOpd with
    | .error e => (.fail e, tl)
    | .ok ol =>
      if ol.truthy != isAnd then (.val (.bool ol.truthy), tl)       -- decided by the left operand alone
      else
        match rr.toOpd with
        | .error e => (.fail e, tl ++ tr)
        | .ok or_ => (.val (.bool or_.truthy), tl ++ tr)
  | .equality neg =>
    match rl.toOpd with
    | .error e => (.fail e, tl)
    | .ok ol =>
      match rr.toOpd with
      | .error e => (.fail e, tl ++ tr)
      | .ok or_ => (.val (.bool (ol.eq or_ != neg)), tl ++ tr)
  | .strict =>
    match rl with
    | .val lv =>
      match rr with
      | .val rv => (SRes.ofExcept (binVal op lv rv), tl ++ tr)
      | other => (other, tl ++ tr)
    | other => (other, tl)

def ternSpec (op : Op) (c m r : SR N) : SR N :=
  if op = .ternaryCondition then
    match c with
    | (.val cv, tl) => if Value.asBool cv then (m.1, tl ++ m.2) else (r.1, tl ++ r.2)
    | other => other
  else (.fail (.invalidTernary op), [])

mutual
def spec (env : Env N) : Expr N → SR N
  | .lit v => (.val v, [])
  | .var n => (match env.var n with | some v => .val v | none => .undef n, [.lookup n])
  | .array es =>
    match specList env es with
    | (.inl vs, t) => (.val (.arr vs), t)
    | (.inr r, t) => (r, t)
  | .call f ps =>
    match specList env ps with
    | (.inl vs, t) =>
      (match env.call f vs with | .ok v => .val v | .error ne => .fail (.native f ne), t ++ [.call f vs])
    | (.inr r, t) => (r, t)
  | .unary r op => unSpec op (spec env r)
  | .binary l r op => binSpec op (spec env l) (spec env r)
  | .ternary l m r op => ternSpec op (spec env l) (spec env m) (spec env r)
def specList (env : Env N) : List (Expr N) → (List (Value N) ⊕ SRes N) × List (Event N)
  | [] => (.inl [], [])
  | e :: es =>
    match spec env e with
    | (.val v, t) =>
      match specList env es with
      | (.inl vs, t') => (.inl (v :: vs), t ++ t')
      | (.inr r, t') => (.inr r, t ++ t')
    | (other, t) => (.inr other, t)
end

/-- what the host sees -/
def SRes.toExcept : SRes N → Except Err (Value N)
  | .val v => .ok v | .undef n => .error (.undefinedVariable n) | .fail e => .error e

end Slac
